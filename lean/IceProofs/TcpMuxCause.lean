import IceProofs.TcpMuxProps
/-!
# Third invariant of the TCP-mux model: why connections get closed, and how long `Close` can take

* a routed connection is closed while its packet connection is open only because its client closed /
  reset, or sent a frame larger than the read buffer;
* deadlines are bounded: a pending handler ends within the first-bind timeout, an armed alive timer
  fires within the alive duration; after `Close` only provisional packet connections created by a
  first frame that arrived during the wait can be open, and they are gone by
  close time + first-bind timeout + alive duration.
-/
namespace IceProofs.TcpMux
open IceModel.TcpMux

def isEnd : Item → Bool
  | .eof => true | .reset => true | _ => false

structure TcpC (s : State) (t : Tcp) : Prop where
  ends : ∀ it, it ∈ t.inbox → isEnd it = true → t.cEnd = true
  frames : ∀ f, Item.frame f ∈ t.inbox → f ∈ t.sent
  cause : ∀ (p : Nat) (pc : PConn), t.pc = some p → t.phase = .closed → s.pcs[p]? = some pc → pc.closed = false →
    t.cEnd = true ∨ ∃ f, f ∈ t.sent ∧ receiveMTU < f.len
  dl : ∀ d, t.phase = .pending d →
    d ≤ s.now + effTimeout s.cfg.t1 ∧ (s.muxClosed = true → d ≤ s.closedAt + effTimeout s.cfg.t1)

structure PcC (s : State) (pc : PConn) : Prop where
  al : ∀ d, pc.alive = some d → d ≤ s.now + effTimeout s.cfg.t2
  post : s.muxClosed = true → pc.closed = false →
    ∃ d, pc.alive = some d ∧ d ≤ s.closedAt + effTimeout s.cfg.t1 + effTimeout s.cfg.t2

structure Inv3 (s : State) : Prop where
  tcp : ∀ (k : Nat) (t : Tcp), s.tcps[k]? = some t → TcpC s t
  pc : ∀ (p : Nat) (pc : PConn), s.pcs[p]? = some pc → PcC s pc

theorem inv3_init (cfg : Config) : Inv3 (init cfg) := by
  constructor <;> simp [init]

/-- the same connection seen from a later state whose packet connections only got closed -/
theorem TcpC.transfer {s s' : State} {t t' : Tcp} (h : TcpC s t)
    (e1 : t'.inbox = t.inbox ∨ t'.inbox = []) (e2 : t'.sent = t.sent) (e3 : t.cEnd = true → t'.cEnd = true)
    (e4 : t'.pc = t.pc) (e5 : t'.phase = t.phase)
    (hp : ∀ (p : Nat) (pc' : PConn), s'.pcs[p]? = some pc' → pc'.closed = false →
      ∃ pc, s.pcs[p]? = some pc ∧ pc.closed = false)
    (hnow : s.now ≤ s'.now) (hcfg : s'.cfg = s.cfg) (hmux : s'.muxClosed = s.muxClosed) (hca : s'.closedAt = s.closedAt) :
    TcpC s' t' := by
  constructor
  · intro it hit he
    rcases e1 with e1 | e1
    · rw [e1] at hit; exact e3 (h.ends it hit he)
    · rw [e1] at hit; cases hit
  · intro f hf
    rcases e1 with e1 | e1
    · rw [e1] at hf; rw [e2]; exact h.frames f hf
    · rw [e1] at hf; cases hf
  · intro p pc' a b c d
    rw [e4] at a; rw [e5] at b
    obtain ⟨pc, c', d'⟩ := hp p pc' c d
    rcases h.cause p pc a b c' d' with x | ⟨f, x, y⟩
    · exact Or.inl (e3 x)
    · exact Or.inr ⟨f, by rw [e2]; exact x, y⟩
  · intro d hd
    rw [e5] at hd
    have := h.dl d hd
    rw [hcfg, hmux, hca]
    exact ⟨by omega, this.2⟩

/-- closed without a packet connection, or with one that is closed now: nothing to explain -/
theorem TcpC.closedNow {s' : State} {t' : Tcp} (e1 : t'.inbox = []) (e5 : t'.phase = .closed)
    (hc : t'.pc = none ∨ ∃ p, t'.pc = some p ∧ ∀ pc', s'.pcs[p]? = some pc' → pc'.closed = true) : TcpC s' t' := by
  constructor
  · intro it hit; rw [e1] at hit; cases hit
  · intro f hf; rw [e1] at hf; cases hf
  · intro p pc' a b c d
    rcases hc with hc | ⟨q, hq, hall⟩
    · rw [hc] at a; cases a
    · rw [hq] at a; cases a
      rw [hall pc' c] at d; cases d
  · intro d hd; rw [e5] at hd; cases hd

theorem PcC.transfer {s s' : State} {pc pc' : PConn} (h : PcC s pc)
    (e1 : pc'.alive = pc.alive ∨ (pc'.alive = none ∧ (pc'.closed = true ∨ s'.muxClosed = false)))
    (e2 : pc'.closed = false → pc.closed = false)
    (hnow : s.now ≤ s'.now) (hcfg : s'.cfg = s.cfg) (hmux : s'.muxClosed = s.muxClosed) (hca : s'.closedAt = s.closedAt) :
    PcC s' pc' := by
  constructor
  · intro d hd
    rcases e1 with e1 | ⟨e1, _⟩
    · rw [e1] at hd; have := h.al d hd; rw [hcfg]; omega
    · rw [e1] at hd; cases hd
  · intro hm ho
    rcases e1 with e1 | ⟨_, e1 | e1⟩
    · rw [e1, hcfg, hca]; exact h.post (by rw [← hmux]; exact hm) (e2 ho)
    · rw [e1] at ho; cases ho
    · rw [e1] at hm; cases hm

theorem inv3_pointwise (s s' : State) (g : Nat → Tcp → Tcp) (h : Nat → PConn → PConn)
    (htc : ∀ j, s'.tcps[j]? = (s.tcps[j]?).map (g j))
    (hpc : ∀ q, s'.pcs[q]? = (s.pcs[q]?).map (h q))
    (hg : ∀ (j : Nat) (t : Tcp), s.tcps[j]? = some t → TcpC s t → TcpC s' (g j t))
    (hh : ∀ (q : Nat) (pc : PConn), s.pcs[q]? = some pc → PcC s pc → PcC s' (h q pc))
    (hi : Inv3 s) : Inv3 s' := by
  constructor
  · intro k t' ht'
    rw [htc k] at ht'
    cases ht : s.tcps[k]? with
    | none => simp [ht] at ht'
    | some t =>
      simp only [ht, Option.map_some, Option.some.injEq] at ht'
      rw [← ht']; exact hg k t ht (hi.tcp k t ht)
  · intro p pc' hp'
    rw [hpc p] at hp'
    cases hp : s.pcs[p]? with
    | none => simp [hp] at hp'
    | some pc =>
      simp only [hp, Option.map_some, Option.some.injEq] at hp'
      rw [← hp']; exact hh p pc hp (hi.pc p pc hp)

/-- pointwise packet-connection updates that only close: how open ones of `s'` relate to `s` -/
theorem open_back (s s' : State) (h : Nat → PConn → PConn)
    (hpc : ∀ q, s'.pcs[q]? = (s.pcs[q]?).map (h q))
    (hm : ∀ (q : Nat) (pc : PConn), (h q pc).closed = false → pc.closed = false) :
    ∀ (p : Nat) (pc' : PConn), s'.pcs[p]? = some pc' → pc'.closed = false → ∃ pc, s.pcs[p]? = some pc ∧ pc.closed = false := by
  intro p pc' hp' ho
  rw [hpc p] at hp'
  cases hp : s.pcs[p]? with
  | none => simp [hp] at hp'
  | some pc =>
    simp only [hp, Option.map_some, Option.some.injEq] at hp'
    exact ⟨pc, rfl, hm p pc (by rw [hp']; exact ho)⟩

theorem setTcp_inv3 (s : State) (k : Nat) (f : Tcp → Tcp)
    (hf : ∀ t, s.tcps[k]? = some t → TcpC s t → TcpC s (f t)) (hi : Inv3 s) : Inv3 (setTcp s k f) := by
  apply inv3_pointwise s (setTcp s k f) (fun j t => if k = j then f t else t) (fun _ pc => pc)
    (fun j => getElem?_modify_map ..) (fun q => map_id_pointwise _) _ _ hi
  · intro j t ht hc
    have back := open_back s (setTcp s k f) (fun _ pc => pc) (fun q => map_id_pointwise _) (fun _ _ x => x)
    by_cases e : k = j
    · subst e; rw [if_pos rfl]
      exact (hf t ht hc).transfer (Or.inl rfl) rfl (fun x => x) rfl rfl back (Nat.le_refl _) rfl rfl rfl
    · rw [if_neg e]
      exact hc.transfer (Or.inl rfl) rfl (fun x => x) rfl rfl back (Nat.le_refl _) rfl rfl rfl
  · intro q pc _ hc
    exact hc.transfer (Or.inl rfl) (fun x => x) (Nat.le_refl _) rfl rfl rfl

theorem setPc_inv3 (s : State) (p : Nat) (f : PConn → PConn)
    (hf : ∀ pc, (f pc).closed = pc.closed ∧ ((f pc).alive = pc.alive ∨ ((f pc).alive = none ∧ s.muxClosed = false)))
    (hi : Inv3 s) : Inv3 (setPc s p f) := by
  apply inv3_pointwise s (setPc s p f) (fun _ t => t) (fun q pc => if p = q then f pc else pc)
    (fun j => map_id_pointwise _) (fun q => getElem?_modify_map ..) _ _ hi
  · intro j t _ hc
    refine hc.transfer (Or.inl rfl) rfl (fun x => x) rfl rfl ?_ (Nat.le_refl _) rfl rfl rfl
    apply open_back s (setPc s p f) (fun q pc => if p = q then f pc else pc) (fun q => getElem?_modify_map ..)
    intro q pc ho
    by_cases e : p = q
    · rw [if_pos e] at ho; rw [← (hf pc).1]; exact ho
    · rw [if_neg e] at ho; exact ho
  · intro q pc _ hc
    by_cases e : p = q
    · rw [if_pos e]
      refine hc.transfer ?_ (fun x => by rw [← (hf pc).1]; exact x) (Nat.le_refl _) rfl rfl rfl
      rcases (hf pc).2 with x | ⟨x, y⟩
      · exact Or.inl x
      · exact Or.inr ⟨x, Or.inr y⟩
    · rw [if_neg e]
      exact hc.transfer (Or.inl rfl) (fun x => x) (Nat.le_refl _) rfl rfl rfl

theorem handles_inv3 (s : State) (hs : List Handle) (hi : Inv3 s) : Inv3 { s with handles := hs } := by
  apply inv3_pointwise s { s with handles := hs } (fun _ t => t) (fun _ pc => pc)
    (fun j => map_id_pointwise _) (fun q => map_id_pointwise _) _ _ hi
  · intro j t _ hc
    exact hc.transfer (Or.inl rfl) rfl (fun x => x) rfl rfl
      (open_back s { s with handles := hs } (fun _ pc => pc) (fun q => map_id_pointwise _) (fun _ _ x => x))
      (Nat.le_refl _) rfl rfl rfl
  · intro q pc _ hc
    exact hc.transfer (Or.inl rfl) (fun x => x) (Nat.le_refl _) rfl rfl rfl

theorem closePc1_inv3 (s : State) (p : Nat) (hi : Inv s) (h3 : Inv3 s) : Inv3 (closePc1 s p) := by
  cases hp : s.pcs[p]? with
  | none => rw [closePc1_noop s p (by simp [hp])]; exact h3
  | some pc =>
    cases hc : pc.closed with
    | true => rw [closePc1_noop s p (by intro pc' h'; rw [hp] at h'; cases h'; exact hc)]; exact h3
    | false =>
      rw [closePc1_eq s p pc hp hc]
      have hpcs : ∀ q, ({ s with tcps := s.tcps.mapIdx (closeEffect pc), pcs := s.pcs.modify p closedPc } : State).pcs[q]? =
          (s.pcs[q]?).map (fun qc => if p = q then closedPc qc else qc) := fun q => getElem?_modify_map ..
      have back := open_back s { s with tcps := s.tcps.mapIdx (closeEffect pc), pcs := s.pcs.modify p closedPc }
        (fun q qc => if p = q then closedPc qc else qc) hpcs (by
          intro q qc ho
          by_cases e : p = q
          · rw [if_pos e] at ho; simp [closedPc] at ho
          · rw [if_neg e] at ho; exact ho)
      apply inv3_pointwise s _ (closeEffect pc) (fun q qc => if p = q then closedPc qc else qc)
        (fun j => List.getElem?_mapIdx) hpcs _ _ h3
      · intro j t ht hcj
        unfold closeEffect
        by_cases h1 : j ∈ pc.conns.map (·.2)
        · rw [if_pos h1]
          apply TcpC.closedNow rfl rfl
          -- connection j is attached to p, which is closed now
          obtain ⟨a, ha⟩ := mem_conns_snd.1 h1
          obtain ⟨t2, ht2, hph, _⟩ := (hi.pc p pc hp).1 a j ha
          rw [ht] at ht2; cases ht2
          have := hi.phase j t ht
          simp only [PhaseOk, hph] at this
          refine Or.inr ⟨p, this.1, ?_⟩
          intro pc' hp'
          simp only at hp'
          rw [getElem?_modify_eq, hp] at hp'
          simp only [Option.map_some, Option.some.injEq] at hp'
          rw [← hp']; rfl
        · rw [if_neg h1]
          by_cases hb : j ∈ pc.blockedQ
          · rw [if_pos hb]
            exact hcj.transfer (Or.inl rfl) rfl (fun x => x) rfl rfl back (Nat.le_refl _) rfl rfl rfl
          · rw [if_neg hb]
            exact hcj.transfer (Or.inl rfl) rfl (fun x => x) rfl rfl back (Nat.le_refl _) rfl rfl rfl
      · intro q qc _ hcq
        by_cases e : p = q
        · rw [if_pos e]
          exact hcq.transfer (Or.inr ⟨rfl, Or.inl rfl⟩) (fun x => by simp [closedPc] at x) (Nat.le_refl _) rfl rfl rfl
        · rw [if_neg e]
          exact hcq.transfer (Or.inl rfl) (fun x => x) (Nat.le_refl _) rfl rfl rfl

theorem closePc_inv3 (s : State) (p : Nat) (hi : Inv s) (h3 : Inv3 s) : Inv3 (closePc s p) :=
  closePc1_inv3 s p hi h3

theorem closePcsWhere_inv3 (sel : PConn → Bool) (s : State) (hi : Inv s) (h3 : Inv3 s) :
    Inv3 (closePcsWhere sel s) := by
  unfold closePcsWhere
  have := foldl_inv (fun x => Inv x ∧ Inv3 x)
    (fun s p => match s.pcs[p]? with
      | some pc => if sel pc then closePc s p else s
      | none => s) (List.range s.pcs.length) s ⟨hi, h3⟩ (by
      intro b a hb
      split
      · split
        · exact ⟨closePc_inv _ _ hb.1, closePc_inv3 _ _ hb.1 hb.2⟩
        · exact hb
      · exact hb)
  exact this.2

end IceProofs.TcpMux
