import IceProofs.Sys2C01LiveFairTrack
/-!
# C01 liveness, layer 16 — transactions complete within two latencies on a fair suffix

`ch1_completes`: a transaction whose request (or response) is in flight is complete after at most `2 * L`;
`dpy_completes`: the controlled agent's own check on the pair it marked selects it; `first_seen`: the first moment a
selection of the controlling agent (or a response to one of its nominations) exists, the controlled agent has just
handled the nomination; `stable_runs`: what every suffix event keeps.
-/
namespace IceProofs.C01Live
open IceModel.AgentCore IceModel.Sys2 IceProofs.Sys2Run IceProofs.C01 IceProofs.Agent

section
variable {nat blocked : List (Nat × Nat)} {SLA SLB SR : Nat → Prop} {liteA liteB : Bool} {T0 H J : Nat} {c : Bool}

/-! ## one suffix event, seen from the hub -/

inductive EvView (c : Bool) (H J : Nat) (s : Sys) (e : SysEv) (s' : Sys) : Prop
  | same (h : s' = s)
  | dlv (k : Nat) (keep : Bool) (hd : Dgram) (hk : s.inflight[k]? = some hd) (h : s' = (s.deliver k keep).1)
  | adv (T t : Nat) (he : e = .advance T) (hle : s.now ≤ T) (hH : T ≤ H) (ht : (s.agent c).nextTick = some t) (hT : T ≤ t + J)
      (h : s' = (s.advance T).1)

theorem ev_view {s : Sys} {e : SysEv} (he : sufOK c H J s e) : EvView c H J s e (Sys.run s e) := by
  cases e with
  | api _ _ => exact he.elim
  | drop _ => exact he.elim
  | deliver k =>
    cases hk : s.inflight[k]? with
    | none =>
      refine .same ?_
      show (s.deliver k false).1 = s
      rw [deliver_eq, hk]
    | some hd => exact .dlv k false hd hk rfl
  | dup k =>
    cases hk : s.inflight[k]? with
    | none =>
      refine .same ?_
      show (s.deliver k true).1 = s
      rw [deliver_eq, hk]
    | some hd => exact .dlv k true hd hk rfl
  | advance T =>
    obtain ⟨h1, h2, t, ht, hT⟩ := he
    exact .adv T t rfl h1 h2 ht hT rfl

/-- what every delivery and every clock advance keeps is kept along a suffix -/
theorem stable_runs {P : Sys → Prop}
    (kD : ∀ (s s' : Sys) (hd : Dgram) (t : List Dgram), Effect T0 s s' hd t → P s → P s')
    (kA : ∀ (s s' : Sys) (T : Nat), AdvEffect T0 T s s' → P s → P s')
    {s : Sys} {es : List SysEv} (h : FInv nat blocked SLA SLB SR liteA liteB T0 H J c s) (hs : SufOK c H J s es) (hp : P s) :
    P (Sys.runs s es) := by
  induction es generalizing s with
  | nil => exact hp
  | cons e es ih =>
    refine ih (h.run hs.1) hs.2 ?_
    rcases ev_view hs.1 with e' | ⟨k, keep, hd, hk, e'⟩ | ⟨T, t, _, hle, hH, ht, hT, e'⟩
    · rw [e']; exact hp
    · rw [e']; exact kD _ _ _ _ (h.deliver keep hk).2.1 hp
    · rw [e']; exact kA _ _ _ (h.advance hle hH ht hT).2.1 hp

theorem sel_runs {s : Sys} {es : List SysEv} (h : FInv nat blocked SLA SLB SR liteA liteB T0 H J c s) (hs : SufOK c H J s es)
    {x : Bool} (g : Sel s x) : Sel (Sys.runs s es) x :=
  stable_runs (P := fun s => Sel s x) (fun _ _ _ _ he g => g.keep he) (fun _ _ _ he g => g.adv he) h hs g

theorem hasSucc_runs {s : Sys} {es : List SysEv} (h : FInv nat blocked SLA SLB SR liteA liteB T0 H J c s) (hs : SufOK c H J s es)
    {x : Bool} (g : HasSucc s x) : HasSucc (Sys.runs s es) x :=
  stable_runs (P := fun s => HasSucc s x) (fun _ _ _ _ he g => g.keep he) (fun _ _ _ he g => g.adv he) h hs g

/-- selector start and configuration never change on a suffix -/
theorem static_runs {s : Sys} {es : List SysEv} (h : FInv nat blocked SLA SLB SR liteA liteB T0 H J c s) (hs : SufOK c H J s es)
    (x : Bool) : ((Sys.runs s es).agent x).selStart = (s.agent x).selStart ∧ ((Sys.runs s es).agent x).cfg = (s.agent x).cfg := by
  refine stable_runs (P := fun s' => (s'.agent x).selStart = (s.agent x).selStart ∧ (s'.agent x).cfg = (s.agent x).cfg)
    ?_ ?_ h hs ⟨rfl, rfl⟩
  · intro s1 s2 hd t he hp
    refine ⟨?_, (he.ids x).cfg.trans hp.2⟩
    rcases he.cases with ⟨_, e, _⟩ | ⟨y, m, _, _, _, _, ho, k, _⟩
    · rw [e]; exact hp.1
    · by_cases hxy : x = y
      · subst hxy; exact k.selStart.trans hp.1
      · have e : s2.agent x = s1.agent x := by rw [bool_ne_eq_not hxy]; exact ho
        rw [e]; exact hp.1
  · intro s1 s2 T he hp
    exact ⟨(he.lk x).selStart.trans hp.1, (he.ids x).cfg.trans hp.2⟩

/-- a prefix of the suffix reaches a selection: it is still there at the end -/
theorem sel_to_end {s : Sys} {e1 e2 : List SysEv} (h : FInv nat blocked SLA SLB SR liteA liteB T0 H J c s)
    (hs : SufOK c H J s (e1 ++ e2)) {x : Bool} (g : Sel (Sys.runs s e1) x) : Sel (Sys.runs s (e1 ++ e2)) x := by
  rw [Sys.runs_append]
  exact sel_runs (h.runs hs.head) hs.tail g

/-! ## the three hops -/

theorem NomD.adv {T : Nat} {s s' : Sys} (he : AdvEffect T0 T s s') {la ra : Nat} {d : Dgram} (h : NomD c s la ra d) :
    NomD c s' la ra d := by
  obtain ⟨h1, h2, m, h3, h4⟩ := h
  exact ⟨h1, h2, m, h3, h4.congr (he.ids c)⟩

variable {x : Bool} {tid la ra : Nat} {uc nomOn : Bool} {ts : Nat}

/-- the request of an open transaction is delivered before `dl`: the response is in flight (or the transaction is
complete) -/
theorem req_hop {s : Sys} {es : List SysEv} (h : FInv nat blocked SLA SLB SR liteA liteB T0 H J c s) (hs : SufOK c H J s es)
    {dl i : Nat} {d : Dgram} (hp : Goal c s x uc nomOn ∨ Ob s x tid la ra uc nomOn ts) (hi : s.inflight[i]? = some d)
    (hd : ReqD s x tid la ra uc d) (hdel : DeliveredBy dl s es i) (hy : dl - ts < maxBindingRequestTimeout) :
    ∃ e1 e2, es = e1 ++ e2 ∧ Ch2 c (Sys.runs s e1) x tid la ra uc nomOn ts ∧ (Sys.runs s e1).now ≤ dl := by
  refine track (P := fun s => Goal c s x uc nomOn ∨ Ob s x tid la ra uc nomOn ts)
    (Q := fun s => Ch2 c s x tid la ra uc nomOn ts) (D := fun s d => ReqD s x tid la ra uc d) ?_ ?_ ?_ ?_ ?_ es s i d h hs hp hi hd hdel
  · intro s s' hd t h he hmem hp
    rcases hp with g | hob
    · exact Or.inl (g.keep he)
    · exact resp_keep h.ok he hmem hob
  · intro s s' T h he hT hp
    rcases hp with g | hob
    · exact Or.inl (g.adv he)
    · exact Or.inr (hob.adv h.ok he (by omega))
  · intro s s' hd t d he hd'; exact hd'.keep he
  · intro s s' T d he hd'; exact hd'.adv he
  · intro s s' d t h he hmem hp hd'
    rcases hp with g | hob
    · exact Or.inl (g.keep he)
    · obtain ⟨k1, ⟨d', hd1, hr1⟩, _⟩ := hop_req h.ok he hmem hob hd'
      exact Or.inr ⟨k1, d', hd1, hr1⟩

/-- the response of an open transaction is delivered before `dl`: the transaction is complete -/
theorem resp_hop {s : Sys} {es : List SysEv} (h : FInv nat blocked SLA SLB SR liteA liteB T0 H J c s) (hs : SufOK c H J s es)
    {dl i : Nat} {d : Dgram} (hp : Goal c s x uc nomOn ∨ Ob s x tid la ra uc nomOn ts) (hi : s.inflight[i]? = some d)
    (hd : RespD s x tid la ra d) (hdel : DeliveredBy dl s es i) (hy : dl - ts < maxBindingRequestTimeout) :
    ∃ e1 e2, es = e1 ++ e2 ∧ Goal c (Sys.runs s e1) x uc nomOn ∧ (Sys.runs s e1).now ≤ dl := by
  refine track (P := fun s => Goal c s x uc nomOn ∨ Ob s x tid la ra uc nomOn ts)
    (Q := fun s => Goal c s x uc nomOn) (D := fun s d => RespD s x tid la ra d) ?_ ?_ ?_ ?_ ?_ es s i d h hs hp hi hd hdel
  · intro s s' hd t h he hmem hp
    rcases hp with g | hob
    · exact Or.inl (g.keep he)
    · exact resp_keep h.ok he hmem hob
  · intro s s' T h he hT hp
    rcases hp with g | hob
    · exact Or.inl (g.adv he)
    · exact Or.inr (hob.adv h.ok he (by omega))
  · intro s s' hd t d he hd'; exact hd'.keep he
  · intro s s' T d he hd'; exact hd'.adv he
  · intro s s' d t h he hmem hp hd'
    rcases hp with g | hob
    · exact g.keep he
    · exact resp_fin h.ok he hmem hob hd'

/-- a nomination request over a `Link` is delivered: the controlled agent has a selected pair or has opened its own
transaction on the pair it marked -/
theorem nom_hop {s : Sys} {es : List SysEv} (h : FInv nat blocked SLA SLB SR liteA liteB T0 H J c s) (hs : SufOK c H J s es)
    {dl i la ra : Nat} {d : Dgram} (hl : Link s c la ra) (hi : s.inflight[i]? = some d)
    (hd : NomD c s la ra d) (hdel : DeliveredBy dl s es i) :
    ∃ e1 e2, es = e1 ++ e2 ∧ DP c (Sys.runs s e1) true ∧ (Sys.runs s e1).now ≤ dl := by
  refine track (P := fun s => Link s c la ra) (Q := fun s => DP c s true) (D := fun s d => NomD c s la ra d)
    ?_ ?_ ?_ ?_ ?_ es s i d h hs hl hi hd hdel
  · intro s s' hd t h he hmem hp; exact he.net.link hp
  · intro s s' T h he hT hp; exact he.net.link hp
  · intro s s' hd t d he hd'; exact hd'.keep he
  · intro s s' T d he hd'; exact hd'.adv he
  · intro s s' d t h he hmem hp hd'
    exact hop_nom h.ok he hmem hp hd'

/-! ## a transaction completes within two latencies -/

theorem mbrt_pos : 0 < maxBindingRequestTimeout := by unfold maxBindingRequestTimeout; omega

theorem ch2_completes {L : Nat} {s : Sys} {es : List SysEv} (h : FInv nat blocked SLA SLB SR liteA liteB T0 H J c s)
    (hs : SufOK c H J s es) (hf : FairL L s es) (g : Ch2 c s x tid la ra uc nomOn ts)
    (hend : s.now + L < (Sys.runs s es).now) (hy : s.now + L < ts + maxBindingRequestTimeout) :
    ∃ e1 e2, es = e1 ++ e2 ∧ Goal c (Sys.runs s e1) x uc nomOn ∧ (Sys.runs s e1).now ≤ s.now + L := by
  rcases g with g | ⟨hob, d, hd, hr⟩
  · exact ⟨[], es, rfl, g, Nat.le_add_right _ _⟩
  · obtain ⟨i, hi, he⟩ := mem_getElem_lt hd
    have hdel : DeliveredBy (s.now + L) s es i := hf [] es rfl i hi hend
    have := mbrt_pos
    exact resp_hop h hs (Or.inr hob) he hr hdel (by omega)

theorem ch1_completes {L : Nat} {s : Sys} {es : List SysEv} (h : FInv nat blocked SLA SLB SR liteA liteB T0 H J c s)
    (hs : SufOK c H J s es) (hf : FairL L s es) (g : Ch1 c s x tid la ra uc nomOn ts)
    (hend : s.now + 2 * L < (Sys.runs s es).now) (hy : s.now + 2 * L < ts + maxBindingRequestTimeout) :
    ∃ e1 e2, es = e1 ++ e2 ∧ Goal c (Sys.runs s e1) x uc nomOn ∧ (Sys.runs s e1).now ≤ s.now + 2 * L := by
  rcases g with g2 | ⟨hob, d, hd, hr⟩
  · obtain ⟨e1, e2, q1, q2, q3⟩ := ch2_completes h hs hf g2 (by omega) (by omega)
    exact ⟨e1, e2, q1, q2, by omega⟩
  · obtain ⟨i, hi, he⟩ := mem_getElem_lt hd
    have hdel : DeliveredBy (s.now + L) s es i := hf [] es rfl i hi (by show s.now + L < _; omega)
    have := mbrt_pos
    obtain ⟨e1, e2, q1, q2, q3⟩ := req_hop h hs (Or.inr hob) he hr hdel (by omega)
    subst q1
    have h1 := h.runs hs.head
    rw [Sys.runs_append] at hend
    obtain ⟨f1, f2, r1, r2, r3⟩ := ch2_completes h1 hs.tail hf.tail q2 (by omega) (by omega)
    subst r1
    refine ⟨e1 ++ f1, f2, by rw [List.append_assoc], ?_, ?_⟩
    · rw [Sys.runs_append]; exact r2
    · rw [Sys.runs_append]; omega

/-- progress of the controlled agent with time to spare: a selected pair, or its own transaction on a marked pair,
young enough to complete -/
def DPY (c : Bool) (L : Nat) (s : Sys) : Prop :=
  Sel s (!c) ∨ ∃ tid lb rb ts, Ch1 c s (!c) tid lb rb false true ts ∧ s.now + 2 * L < ts + maxBindingRequestTimeout

theorem DP.dpy {L : Nat} {s : Sys} (g : DP c s true) (hL : 2 * L < maxBindingRequestTimeout) : DPY c L s := by
  rcases g with g | ⟨tid, lb, rb, ts, g, hf⟩
  · exact Or.inl g
  · exact Or.inr ⟨tid, lb, rb, ts, g, by rw [hf rfl]; omega⟩

theorem dpy_completes {L : Nat} {s : Sys} {es : List SysEv} (h : FInv nat blocked SLA SLB SR liteA liteB T0 H J c s)
    (hs : SufOK c H J s es) (hf : FairL L s es) (g : DPY c L s) (hend : s.now + 2 * L < (Sys.runs s es).now) :
    ∃ e1 e2, es = e1 ++ e2 ∧ Sel (Sys.runs s e1) (!c) ∧ (Sys.runs s e1).now ≤ s.now + 2 * L := by
  rcases g with g | ⟨tid, lb, rb, ts, g, hy⟩
  · exact ⟨[], es, rfl, g, Nat.le_add_right _ _⟩
  · obtain ⟨e1, e2, q1, q2, q3⟩ := ch1_completes h hs hf g hend hy
    exact ⟨e1, e2, q1, q2.2 (by cases c <;> simp), q3⟩

/-! ## provenance: the first evidence of a nomination -/

/-- a clock advance on which the controlling agent's selection does not change creates no evidence of a nomination -/
theorem NomSeen.adv_back' {T : Nat} {s : Sys} (h : SysOK nat blocked SLA SLB SR liteA liteB T0 H c s) (hT : T ≤ H)
    (h1 : SysOK nat blocked SLA SLB SR liteA liteB T0 H c (s.advance T).1) (he : AdvEffect T0 T s (s.advance T).1)
    (hsel : (step (s.agent c) (.advance T)).1.selected = (s.agent c).selected) (g : NomSeen c (s.advance T).1) :
    NomSeen c s := by
  rcases g with g | ⟨d, hd, m, hm, hc, pd, hpd, hpt, hpu⟩
  · left
    unfold Sel at *
    rw [he.agent c, hsel] at g
    exact g
  · right
    rcases he.new_req h hT hd with hold | ⟨m', hm', hc'⟩
    · obtain ⟨LA, LB, hsi⟩ := h.sinv
      obtain ⟨LA', LB', hsi'⟩ := h1.sinv
      obtain ⟨z, n, hn, en⟩ := sinv_resp_tid hsi hold hm hc
      exact ⟨d, hold, m, hm, hc, pd, pending_old_step hsi hsi' (he.agent c) hpd hn (hpt.trans en), hpt, hpu⟩
    · rw [hm] at hm'; cases hm'; rw [hc] at hc'; cases hc'

/-- if there is no evidence of a nomination at the start of a suffix and there is some at its end, then at the moment
it first appears the controlled agent has just handled the nomination -/
theorem first_seen {s : Sys} {es : List SysEv} (h : FInv nat blocked SLA SLB SR liteA liteB T0 H J c s) (hs : SufOK c H J s es)
    (hns : ¬ NomSeen c s) (hend : NomSeen c (Sys.runs s es)) :
    ∃ e1 e2, es = e1 ++ e2 ∧ DP c (Sys.runs s e1) true := by
  induction es generalizing s with
  | nil => exact absurd hend hns
  | cons e es ih =>
    by_cases hn1 : NomSeen c (Sys.run s e)
    · refine ⟨[e], es, rfl, ?_⟩
      show DP c (Sys.run s e) true
      rcases ev_view hs.1 with e' | ⟨k, keep, hd, hk, e'⟩ | ⟨T, t, _, hle, hH, ht, hT, e'⟩
      · rw [e'] at hn1; exact absurd hn1 hns
      · rw [e'] at hn1 ⊢
        obtain ⟨h', eff, _⟩ := h.deliver keep hk
        have hmem : hd ∈ s.inflight := List.mem_of_getElem? hk
        have hj : LinkedJ c False s := fun hx => absurd hx hns
        have hj' := hj.keep h.ok h'.ok eff hmem (fun d hd' => mem_restOf_or hk hd') (fun d hd' => by
          unfold restOf at hd'
          cases keep with
          | true => simpa using hd'
          | false => exact mem_removeAt (by simpa using hd'))
        rcases hj' hn1 with g | g
        · exact g
        · exact g.elim
      · rw [e'] at hn1
        obtain ⟨h', eff, _, _, hselc⟩ := h.advance hle hH ht hT
        have hsel : (step (s.agent c) (.advance T)).1.selected = (s.agent c).selected := by
          rw [← eff.agent c]; exact hselc
        exact absurd (NomSeen.adv_back' h.ok hH h'.ok eff hsel hn1) hns
    · obtain ⟨e1, e2, q1, q2⟩ := ih (h.run hs.1) hs.2 hn1 hend
      exact ⟨e :: e1, e2, by rw [q1]; rfl, q2⟩

end

end IceProofs.C01Live
