import IceProofs.Sys2C01LiveMain
/-!
# C01 liveness, layer 10 — reachable states

* the bookkeeping invariant of C06 holds for both agents in every state of the two-agent system (`c06_runs`);
* the decidable predicate `Ready` on a reachable state gives the round invariant `RInv` (`ready_rinv`);
* the rounds are a schedule: `rounds c n s = Sys.runs s (roundsEvs c n s)` — one clock advance and three times "as
  many `deliver 0` as datagrams in flight" per round; no loss, no duplication.
-/
namespace IceProofs.C01Live
open IceModel.AgentCore IceModel.Sys2 IceProofs.Sys2Run IceProofs.C01 IceProofs.Agent

/-! ## C06 for both agents along every schedule -/

theorem c06_agentEv {s : Sys} (h : ∀ x, IceProofs.AgentC06.Inv (s.agent x)) (z : Bool) (e : Ev) :
    ∀ x, IceProofs.AgentC06.Inv ((s.agentEv z e).1.agent x) := by
  intro x
  by_cases hx : x = z
  · subst hx; rw [agentEv_agent_same]; exact (h x).step e
  · rw [bool_ne_eq_not hx, agentEv_agent_other]; exact h _

theorem c06_handOver {s : Sys} (h : ∀ x, IceProofs.AgentC06.Inv (s.agent x)) (d : Dgram) :
    ∀ x, IceProofs.AgentC06.Inv ((s.handOver d).1.agent x) := by
  rw [handOver_eq]
  split
  · exact h
  · split
    · exact h
    · rename_i z _
      have := c06_agentEv h z (evOf s d)
      cases z <;> exact this

theorem c06_run {s : Sys} (h : ∀ x, IceProofs.AgentC06.Inv (s.agent x)) (ev : SysEv) :
    ∀ x, IceProofs.AgentC06.Inv ((Sys.run s ev).agent x) := by
  cases ev with
  | api isB e =>
    simp only [Sys.run, Sys.runOut]
    split
    · have := c06_agentEv h isB e
      cases isB <;> exact this
    · exact h
  | deliver k =>
    simp only [Sys.run, Sys.runOut]
    rw [deliver_eq]
    split
    · exact h
    · exact c06_handOver (s := { s with inflight := removeAt s.inflight k }) (fun x => by cases x <;> exact h _) _
  | dup k =>
    simp only [Sys.run, Sys.runOut]
    rw [deliver_eq]
    split
    · exact h
    · exact c06_handOver h _
  | drop k => exact fun x => by cases x <;> exact h _
  | advance now =>
    simp only [Sys.run, Sys.runOut]
    rw [advance_eq]
    have h0 : ∀ x, IceProofs.AgentC06.Inv (({ s with now := now } : Sys).agent x) := fun x => by cases x <;> exact h _
    have h1 := c06_agentEv h0 false (.advance now)
    split
    · exact c06_agentEv h1 true (.advance now)
    · exact h1

theorem c06_runs {s : Sys} (h : ∀ x, IceProofs.AgentC06.Inv (s.agent x)) (evs : List SysEv) :
    ∀ x, IceProofs.AgentC06.Inv ((Sys.runs s evs).agent x) := by
  induction evs generalizing s with
  | nil => exact h
  | cons e es ih => exact ih (c06_run h e)

/-- the initial state has no selection bookkeeping left over (in addition to `Sys.Init`) -/
def FreshSel (s : Sys) : Prop :=
  s.a.caches = [] ∧ s.a.nominatedPair = none ∧ s.b.caches = [] ∧ s.b.nominatedPair = none

instance (s : Sys) : Decidable (FreshSel s) := by unfold FreshSel; infer_instance

theorem c06_init {s0 : Sys} (hi : Sys.Init s0) (hf : FreshSel s0) : ∀ x, IceProofs.AgentC06.Inv (s0.agent x) := by
  intro x
  cases x
  · exact IceProofs.AgentC06.Inv.init ⟨hi.a_checklist, hi.a_locals, hi.a_remotes, hf.1, hi.a_selected, hf.2.1⟩
  · exact IceProofs.AgentC06.Inv.init ⟨hi.b_checklist, hi.b_locals, hi.b_remotes, hf.2.2.1, hi.b_selected, hf.2.2.2⟩

/-! ## the rounds as a schedule -/

/-- the events of a wave -/
def waveEvs (s : Sys) : List SysEv := List.replicate s.inflight.length (.deliver 0)

theorem wave_runs (s : Sys) : wave s = Sys.runs s (waveEvs s) := flushN_runs _ _

/-- the events of a round: one clock advance, three waves -/
def roundEvs (c : Bool) (s : Sys) : List SysEv :=
  let s1 := Sys.run s (.advance (roundT c s))
  let s2 := wave s1
  let s3 := wave s2
  [.advance (roundT c s)] ++ waveEvs s1 ++ waveEvs s2 ++ waveEvs s3

theorem round_runs (c : Bool) (s : Sys) : round c s = Sys.runs s (roundEvs c s) := by
  unfold round roundEvs
  simp only [Sys.runs_append]
  have e : Sys.runs s [SysEv.advance (roundT c s)] = Sys.run s (.advance (roundT c s)) := rfl
  rw [e, ← wave_runs, ← wave_runs, ← wave_runs]
  rfl

def roundsEvs (c : Bool) : Nat → Sys → List SysEv
  | 0, _ => []
  | n + 1, s => roundEvs c s ++ roundsEvs c n (round c s)

theorem rounds_runs (c : Bool) (n : Nat) (s : Sys) : rounds c n s = Sys.runs s (roundsEvs c n s) := by
  induction n generalizing s with
  | zero => rfl
  | succ n ih =>
    show rounds c n (round c s) = _
    rw [ih, roundsEvs, Sys.runs_append, round_runs]

/-- the schedule of the rounds is loss-free and duplication-free: clock advances and deliveries only -/
def isFairEv : SysEv → Bool
  | .advance _ => true
  | .deliver _ => true
  | _ => false

theorem roundsEvs_fair (c : Bool) (n : Nat) (s : Sys) : ∀ e ∈ roundsEvs c n s, isFairEv e = true := by
  induction n generalizing s with
  | zero => intro e he; cases he
  | succ n ih =>
    intro e he
    rw [roundsEvs] at he
    rcases List.mem_append.mp he with he | he
    · unfold roundEvs waveEvs at he
      simp only [List.mem_append, List.mem_singleton, List.mem_replicate] at he
      rcases he with ((rfl | ⟨_, rfl⟩) | ⟨_, rfl⟩) | ⟨_, rfl⟩ <;> rfl
    · exact ih _ e he

end IceProofs.C01Live
