import IceProofs.Sys2C01LiveNoise
import IceProofs.Sys2C01LiveBudget
/-!
# C01 liveness, layer 13 — fair schedules

An abstract fairness notion on INDEX-BASED schedules (`SysEv` lists): the events of the suffix are deliveries,
duplications and clock advances that are monotone, stay within the horizon and do not jump over a tick of the
controlling agent (`SufOK`); every datagram that is in flight at some point of the schedule is delivered — its
position tracked through the removals before it — before the clock has moved by more than `L` (`FairL`).

`tracked`: the general leads-to principle for a witness datagram.  `FInv`: the invariant of such a suffix.
-/
namespace IceProofs.C01Live
open IceModel.AgentCore IceModel.Sys2 IceProofs.Sys2Run IceProofs.C01 IceProofs.Agent

/-! ## schedules -/

/-- event `e` delivers (a copy of) the datagram at position `i` -/
def hits : SysEv → Nat → Bool
  | .deliver k, i => k == i
  | .dup k, i => k == i
  | _, _ => false

/-- the position of the datagram at `i` after an event that does not deliver it -/
def shift : SysEv → Nat → Nat
  | .deliver k, i => if k < i then i - 1 else i
  | _, i => i

/-- an event of a loss-free suffix: a delivery, a duplication, or a clock advance that is monotone, within the horizon
`H`, and goes at most `J` beyond the next tick of the controlling agent `c` (`J = 0`: its timer fires exactly when it is
due; `J > 0`: an advance may run several of its ticks; the controlled agent may always run any number of due ticks).  No drop, no API call (Restart, Close, signalling). -/
def sufOK (c : Bool) (H J : Nat) (s : Sys) : SysEv → Prop
  | .deliver _ => True
  | .dup _ => True
  | .advance T => s.now ≤ T ∧ T ≤ H ∧ ∃ t, (s.agent c).nextTick = some t ∧ T ≤ t + J
  | _ => False

instance (c : Bool) (H J : Nat) (s : Sys) (e : SysEv) : Decidable (sufOK c H J s e) := by
  cases e <;> unfold sufOK
  · exact isFalse (fun h => h)
  · exact isTrue trivial
  · exact isTrue trivial
  · exact isFalse (fun h => h)
  · rename_i T
    cases ht : (s.agent c).nextTick with
    | none => exact isFalse (fun ⟨_, _, t, h, _⟩ => by cases h)
    | some t =>
      exact decidable_of_iff (s.now ≤ T ∧ T ≤ H ∧ T ≤ t + J)
        ⟨fun ⟨a, b, c'⟩ => ⟨a, b, t, rfl, c'⟩, fun ⟨a, b, t', h, c'⟩ => by cases h; exact ⟨a, b, c'⟩⟩

def SufOK (c : Bool) (H J : Nat) : Sys → List SysEv → Prop
  | _, [] => True
  | s, e :: es => sufOK c H J s e ∧ SufOK c H J (Sys.run s e) es

def SufOK.dec (c : Bool) (H J : Nat) : (s : Sys) → (es : List SysEv) → Decidable (SufOK c H J s es)
  | _, [] => isTrue trivial
  | s, e :: es => @instDecidableAnd _ _ _ (SufOK.dec c H J (Sys.run s e) es)

instance (c : Bool) (H J : Nat) (s : Sys) (es : List SysEv) : Decidable (SufOK c H J s es) := SufOK.dec c H J s es

/-- the datagram at position `i` of `s` is delivered by the schedule, and the clock does not pass `dl` before -/
def DeliveredBy (dl : Nat) : Sys → List SysEv → Nat → Prop
  | _, [], _ => False
  | s, e :: es, i => s.now ≤ dl ∧ (hits e i = true ∨ DeliveredBy dl (Sys.run s e) es (shift e i))

def DeliveredBy.dec (dl : Nat) : (s : Sys) → (es : List SysEv) → (i : Nat) → Decidable (DeliveredBy dl s es i)
  | _, [], _ => isFalse (fun h => h)
  | s, e :: es, i => @instDecidableAnd _ _ _ (@instDecidableOr _ _ _ (DeliveredBy.dec dl (Sys.run s e) es (shift e i)))

instance (dl : Nat) (s : Sys) (es : List SysEv) (i : Nat) : Decidable (DeliveredBy dl s es i) := DeliveredBy.dec dl s es i

/-- **fair delivery within `L`**: whatever is in flight at some point of the schedule, more than `L` before its end, is
delivered before the clock has moved by more than `L`. -/
def FairL (L : Nat) (s : Sys) (evs : List SysEv) : Prop :=
  ∀ e1 e2, evs = e1 ++ e2 → ∀ i, i < (Sys.runs s e1).inflight.length →
    (Sys.runs s e1).now + L < (Sys.runs s evs).now →
    DeliveredBy ((Sys.runs s e1).now + L) (Sys.runs s e1) e2 i

/-- `FairL`, decidable: the split points are the lengths `0 … evs.length` -/
def FairLD (L : Nat) (s : Sys) (evs : List SysEv) : Prop :=
  ∀ n, n < evs.length + 1 → ∀ i, i < (Sys.runs s (evs.take n)).inflight.length →
    (Sys.runs s (evs.take n)).now + L < (Sys.runs s evs).now →
    DeliveredBy ((Sys.runs s (evs.take n)).now + L) (Sys.runs s (evs.take n)) (evs.drop n) i

instance (L : Nat) (s : Sys) (evs : List SysEv) : Decidable (FairLD L s evs) := by unfold FairLD; infer_instance

theorem FairLD.fair {L : Nat} {s : Sys} {evs : List SysEv} (h : FairLD L s evs) : FairL L s evs := by
  intro e1 e2 he i hi hn
  subst he
  have := h e1.length (by rw [List.length_append]; omega)
  rw [List.take_left', List.drop_left'] at this
  · exact this i hi hn
  · rfl
  · rfl

theorem FairL.tail {L : Nat} {s : Sys} {e1 e2 : List SysEv} (h : FairL L s (e1 ++ e2)) : FairL L (Sys.runs s e1) e2 := by
  intro f1 f2 hf i hi hn
  have := h (e1 ++ f1) f2 (by rw [hf, List.append_assoc]) i (by rw [Sys.runs_append]; exact hi)
    (by rw [Sys.runs_append, Sys.runs_append]; exact hn)
  rw [Sys.runs_append] at this
  exact this

theorem SufOK.tail {c : Bool} {H J : Nat} {s : Sys} {e1 e2 : List SysEv} (h : SufOK c H J s (e1 ++ e2)) :
    SufOK c H J (Sys.runs s e1) e2 := by
  induction e1 generalizing s with
  | nil => exact h
  | cons e es ih => exact ih h.2

theorem SufOK.head {c : Bool} {H J : Nat} {s : Sys} {e1 e2 : List SysEv} (h : SufOK c H J s (e1 ++ e2)) : SufOK c H J s e1 := by
  induction e1 generalizing s with
  | nil => trivial
  | cons e es ih => exact ⟨h.1, ih h.2⟩

/-- a loss-free suffix contains no API call -/
theorem SufOK.not_api {c : Bool} {H J : Nat} {s : Sys} {es : List SysEv} (h : SufOK c H J s es) {e : SysEv} (he : e ∈ es) :
    ∀ b ev, e ≠ SysEv.api b ev := by
  induction es generalizing s with
  | nil => cases he
  | cons x xs ih =>
    rcases List.mem_cons.mp he with hx | hm
    · intro b ev hb
      rw [← hx, hb] at h
      exact h.1
    · exact ih h.2 hm

end IceProofs.C01Live
