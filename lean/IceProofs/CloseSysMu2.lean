import IceProofs.CloseSysMu1
/-! # CloseSys — the measure strictly decreases on every statement of a user thread (once `done` is closed) -/
namespace IceProofs.CloseSys
open IceModel.CloseSys

theorem mu_setNdone (s : State) (i : Nat) : mu (setNdone s i) = mu s ∧ HdlSame s (setNdone s i) := by
  have hh : HdlSame s (setNdone s i) := by
    refine ⟨by simp [setNdone], fun j => ?_⟩
    simp only [setNdone, List.getElem?_modify]
    cases s.streams[j]? with
    | none => rfl
    | some st => simp; split <;> rfl
  refine ⟨?_, hh⟩
  unfold mu
  rw [loopPot_congr hh rfl, hh.1]
  have : sumBy (streamPot s.streams.length) (setNdone s i).streams = sumBy (streamPot s.streams.length) s.streams := by
    simp only [setNdone]
    exact sumBy_modify_same _ _ _ _ (fun st => by simp [streamPot, hdlOf])
  rw [this]
  rfl

theorem getTh_setNdone {s : State} {t : Tid} {th : Th} (i : Nat) (hget : getTh s t = some th) :
    getTh (setNdone s i) t = some th := by
  cases t with
  | api n => exact hget
  | dr j =>
    simp only [getTh, setNdone, List.getElem?_modify] at hget ⊢
    cases hx : s.streams[j]? with
    | none => simp [hx] at hget
    | some st => simp [hx] at hget ⊢; subst hget; split <;> rfl
  | rl c => exact hget

theorem candPot_abort_le (cd : Cand) : candPot { cd with aborted := true } ≤ candPot cd := by
  cases h : cd.aborted <;> simp [candPot, rlPot, h]

theorem sumCand_abort_le (s : State) (k : Nat) : sumBy candPot (abortCand s k).cands ≤ sumBy candPot s.cands := by
  simp only [abortCand]
  cases h : s.cands[k]? with
  | none => rw [sumBy_modify_none _ _ _ _ h]; exact Nat.le_refl _
  | some cd =>
    have h1 := sumBy_modify candPot s.cands k (fun cd => { cd with aborted := true }) cd h
    have h2 := candPot_abort_le cd
    omega

theorem callStep_mu {s s1 : State} {t : Tid} {th x : Th} {alt : Bool} (h : Inv s) (hd : s.done = true)
    (hget : getTh s t = some th) (hs : callStep s t th alt = some (s1, x)) :
    HdlSame s s1 ∧ getTh s1 t = some th ∧
      mu s1 + thPot s.streams.length x < mu s + thPot s.streams.length th := by
  have hfree : s.once ≠ .free := h.doneOnce.1 hd
  have simple : ∀ y : Th, thPot s.streams.length y < thPot s.streams.length th →
      HdlSame s s ∧ getTh s t = some th ∧ mu s + thPot s.streams.length y < mu s + thPot s.streams.length th :=
    fun y hy => ⟨.of_eq rfl, hget, by omega⟩
  unfold callStep at hs
  split at hs
  · rename_i hloc
    split at hs
    · simp at hs
    · rename_i c tk r hp
      simp only [hd, if_true] at hs
      obtain ⟨rfl, rfl⟩ := Prod.mk.inj (Option.some.inj hs)
      exact simple _ (by rw [thPot_ret, thPot_idle _ th _ r hloc hp, hp]; simp [potU])
    · rename_i g r hp
      obtain ⟨rfl, rfl⟩ := Prod.mk.inj (Option.some.inj hs)
      exact simple _ (by rw [thPot_setLoc _ _ _ (by simp), thPot_idle _ th _ r hloc hp, hp]; simp [potU, locPot])
    · rename_i r hp
      simp only [hd, if_true] at hs
      obtain ⟨rfl, rfl⟩ := Prod.mk.inj (Option.some.inj hs)
      exact simple _ (by rw [thPot_ret, thPot_idle _ th _ r hloc hp, hp]; simp [potU])
    · rename_i c r hp
      simp only [hd, if_true] at hs
      obtain ⟨rfl, rfl⟩ := Prod.mk.inj (Option.some.inj hs)
      exact simple _ (by rw [thPot_ret, thPot_idle _ th _ r hloc hp, hp]; simp [potU])
    · rename_i r hp
      obtain ⟨rfl, rfl⟩ := Prod.mk.inj (Option.some.inj hs)
      exact simple _ (by rw [thPot_setLoc _ _ _ (by simp), thPot_idle _ th _ r hloc hp, hp]; simp [potU, locPot])
    · rename_i r hp
      obtain ⟨rfl, rfl⟩ := Prod.mk.inj (Option.some.inj hs)
      exact simple _ (by rw [thPot_ret, thPot_idle _ th _ r hloc hp, hp]; simp [potU])
  · rename_i c tk hloc
    have hne : th.loc ≠ .idle := by simp [hloc]
    cases alt with
    | true => simp [hd] at hs
    | false =>
      simp only [hd, if_true, Bool.false_eq_true, if_false] at hs
      obtain ⟨rfl, rfl⟩ := Prod.mk.inj (Option.some.inj hs)
      exact simple _ (by rw [thPot_ret, thPot_loc _ _ hne, hloc]; simp [locPot])
  · rename_i hloc
    have hne : th.loc ≠ .idle := by simp [hloc]
    split at hs
    · obtain ⟨rfl, rfl⟩ := Prod.mk.inj (Option.some.inj hs)
      exact simple _ (by rw [thPot_ret, thPot_loc _ _ hne, hloc]; simp [locPot])
    · simp at hs
  · rename_i g hloc
    have hne : th.loc ≠ .idle := by simp [hloc]
    split at hs
    · rename_i ho; exact absurd ho hfree
    · simp at hs
    · obtain ⟨rfl, rfl⟩ := Prod.mk.inj (Option.some.inj hs)
      exact simple _ (by rw [thPot_setLoc _ _ _ (by simp), thPot_loc _ _ hne, hloc]; simp [locPot])
  · rename_i g hloc
    have hne : th.loc ≠ .idle := by simp [hloc]
    split at hs
    · rename_i o k ho
      split at hs
      · split at hs
        · rename_i hk
          obtain ⟨rfl, rfl⟩ := Prod.mk.inj (Option.some.inj hs)
          refine ⟨.of_eq rfl, by cases t <;> exact hget, ?_⟩
          have hc := sumCand_abort_le s k
          have : mu { abortCand s k with once := .running t (k + 1) } < mu s := by
            unfold mu
            have hl : loopPot { abortCand s k with once := .running t (k + 1) } = loopPot s := rfl
            rw [hl]
            simp only [oncePot, ho]
            show _ + sumBy candPot (abortCand s k).cands + (s.snap - (k + 1) + 1) + _ + _ < _
            simp only [abortCand] at hc ⊢
            omega
          omega
        · rename_i hk
          obtain ⟨rfl, rfl⟩ := Prod.mk.inj (Option.some.inj hs)
          refine ⟨.of_eq rfl, by cases t <;> exact hget, ?_⟩
          have : mu { s with once := .finished } < mu s := by
            unfold mu
            have hl : loopPot { s with once := .finished } = loopPot s := rfl
            rw [hl]
            simp only [oncePot, ho]
            omega
          have : thPot s.streams.length { th with loc := .cWaitLoop g } < thPot s.streams.length th := by
            rw [thPot_setLoc _ _ _ (by simp), thPot_loc _ _ hne, hloc]; simp [locPot]
          omega
      · simp at hs
    · simp at hs
  · rename_i g hloc
    have hne : th.loc ≠ .idle := by simp [hloc]
    split at hs
    · obtain ⟨rfl, rfl⟩ := Prod.mk.inj (Option.some.inj hs)
      exact simple _ (by rw [thPot_setLoc _ _ _ (by simp), thPot_loc _ _ hne, hloc]; simp [locPot])
    · simp at hs
  · rename_i g i hloc
    have hne : th.loc ≠ .idle := by simp [hloc]
    split at hs
    · rename_i hi
      obtain ⟨rfl, rfl⟩ := Prod.mk.inj (Option.some.inj hs)
      obtain ⟨h1, h2⟩ := mu_setNdone s i
      refine ⟨h2, getTh_setNdone i hget, ?_⟩
      rw [h1]
      have : thPot s.streams.length { th with loc := if g = true then Loc.cWait g i else Loc.cNotif g (i + 1) } <
          thPot s.streams.length th := by
        rw [thPot_setLoc _ _ _ (by split <;> simp), thPot_loc _ _ hne, hloc]
        cases g <;> simp [locPot] <;> omega
      omega
    · obtain ⟨rfl, rfl⟩ := Prod.mk.inj (Option.some.inj hs)
      refine ⟨.of_eq rfl, by cases t <;> exact hget, ?_⟩
      have h1 : mu { s with closeRet := true, gcloseRet := s.gcloseRet || g } = mu s := rfl
      rw [h1, thPot_ret, thPot_loc _ _ hne, hloc]; simp [locPot]; omega
  · rename_i g i hloc
    have hne : th.loc ≠ .idle := by simp [hloc]
    split at hs
    · obtain ⟨rfl, rfl⟩ := Prod.mk.inj (Option.some.inj hs)
      exact simple _ (by rw [thPot_setLoc _ _ _ (by simp), thPot_loc _ _ hne, hloc]; simp [locPot])
    · simp at hs
  · rename_i hloc
    have hne : th.loc ≠ .idle := by simp [hloc]
    split at hs
    · obtain ⟨rfl, rfl⟩ := Prod.mk.inj (Option.some.inj hs)
      exact simple _ (by rw [thPot_ret, thPot_loc _ _ hne, hloc]; simp [locPot])
    · simp at hs
  · rename_i c hloc
    have hne : th.loc ≠ .idle := by simp [hloc]
    split at hs
    · obtain ⟨rfl, rfl⟩ := Prod.mk.inj (Option.some.inj hs)
      exact simple _ (by rw [thPot_ret, thPot_loc _ _ hne, hloc]; simp [locPot])
    · simp at hs
  · rename_i hloc
    have hne : th.loc ≠ .idle := by simp [hloc]
    simp only [hd, if_true] at hs
    obtain ⟨rfl, rfl⟩ := Prod.mk.inj (Option.some.inj hs)
    exact simple _ (by rw [thPot_ret, thPot_loc _ _ hne, hloc]; simp [locPot])

end IceProofs.CloseSys
