import IceModel.AgentCore
/-!
# The decisions of `AddRemoteCandidate` / `addRemoteCandidate` as the model takes them

Small facts about `IceModel.AgentCore.step (.addRemote …)` and `Agent.addRemoteCandidate`, stated in the shape of
the effect lists regenerated from agent.go (`IceTie/AgentRemote.lean`): which candidates reach the task, when the
task returns without touching the agent, and the pairing rule for passive remotes.  Core-only.
-/
namespace IceProofs.Agent
open IceModel.AgentCore

/-- the public entry ignores a candidate with tcptype active: the state does not change, nothing is emitted -/
theorem addRemote_active_ignored (a : Agent) (now : Nat) (c : Cand) (hc : a.closed = false) (h : c.tt = 1) :
    step a (.addRemote now c) = (a, []) := by
  simp [step, hc, h]

/-- any other candidate is handed to `addRemoteCandidate` (followed by the forced tick it requested) -/
theorem addRemote_other_handed (a : Agent) (now : Nat) (c : Cand) (hc : a.closed = false) (h : c.tt ≠ 1) :
    step a (.addRemote now c) =
      (((a.addRemoteCandidate c).1.runForced now).1, (a.addRemoteCandidate c).2.1 ++ ((a.addRemoteCandidate c).1.runForced now).2) := by
  simp [step, hc, h]

/-- `shouldAcceptRemoteCandidate` false: the task returns false, the agent is untouched -/
theorem addRemoteCandidate_filtered (a : Agent) (c : Cand) (h : a.cfg.blockedIPs.contains (ipOf c.addr) = true) :
    a.addRemoteCandidate c = (a, [], none) := by
  unfold Agent.addRemoteCandidate
  rw [if_pos h]

/-- an `Equal` candidate is already listed: the task returns true, the agent is untouched -/
theorem addRemoteCandidate_duplicate (a : Agent) (c e : Cand) (h : a.cfg.blockedIPs.contains (ipOf c.addr) = false)
    (hd : (a.remotes.filter (·.net == c.net)).find? (·.equal c) = some e) :
    a.addRemoteCandidate c = (a, [], some e) := by
  unfold Agent.addRemoteCandidate
  rw [if_neg (by rw [h]; exact Bool.false_ne_true)]
  simp only [hd]

/-- "some listed candidate of the network type is `Equal`" is `any` of the per-candidate tests, as the Go loop -/
theorem duplicate_iff_any (a : Agent) (c : Cand) :
    ((a.remotes.filter (·.net == c.net)).find? (·.equal c)).isSome
      = ((a.remotes.filter (·.net == c.net)).map (·.equal c)).any id := by
  induction (a.remotes.filter (·.net == c.net)) with
  | nil => rfl
  | cons x xs ih =>
    simp only [List.find?_cons, List.map_cons, List.any_cons, id]
    cases h : x.equal c
    · simpa using ih
    · simp

/-- the pairing rule: the local candidates a new remote candidate `c` is paired with are those of its network type
— and none at all when `c` is tcptype passive (`if cand.TCPType() != TCPTypePassive`) -/
theorem pairing_locals (a : Agent) (c : Cand) :
    (a.locals.filter fun (x : Cand) => x.net == c.net && c.tt != 2)
      = if c.tt != 2 then a.locals.filter (fun x => x.net == c.net) else [] := by
  cases h : (c.tt != 2)
  · simp
  · simp

end IceProofs.Agent
