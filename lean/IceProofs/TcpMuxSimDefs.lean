import IceProofs.TcpMuxCauseStep
import IceProofs.TcpMuxDrained
import IceSpec.C15View
/-!
# Simulation between the TCP-mux model and the spec monitor of C15: the relation

`Sim s m` relates a state `s` of `IceModel.TcpMux` to the state `m` the monitor `IceSpec.C15.observeT`
is in after it has read the lines the model printed on its way to `s`:

* the monitor's packet-connection records and handles are the model's, forgetting queues (`absPc`, `absH`);
* per client: address, routing target, frames sent, frames read, "client is gone" … (`CRel`, `NRead`, `Flags`);
* joint facts about the order in which connections were routed (`MClient.seq`), needed to show that the
  monitor attributes every packet that is read to the connection it really came from:
  `last`  — an attached connection is the most recently routed one of its packet connection and address,
  `ho`    — in the history of a packet connection, data from one address is ordered by routing order,
  `cc`    — a closed routed connection has delivered everything up to a frame the mux refuses (> 8192
            bytes), unless it was cut off by the closing of its packet connection (then it is the last one),
  and two facts about the model alone (`pl`, `plb`: delivered data fits the read buffer; `endLast`: nothing
  follows an end-of-stream marker in an inbox).

`Quiet s s'` describes the model transformations that need no bookkeeping in the monitor (closing,
draining, queue manipulation) and `quiet_simU` shows that they preserve the relation.
-/
namespace IceProofs.TcpMux
open IceModel.TcpMux IceSpec.C15 IceSpec.C15.View

/-! ## list helpers -/

theorem any_range_false {n : Nat} {f : Nat → Bool} (h : ∀ k, k < n → f k = false) : (List.range n).any f = false := by
  rw [List.any_eq_false]
  intro k hk
  rw [List.mem_range] at hk
  simp [h k hk]

theorem mem_indexed {α : Type} {l : List α} {k : Nat} {a : α} : (k, a) ∈ indexed l ↔ l[k]? = some a := by
  unfold indexed
  rw [List.mem_filterMap]
  constructor
  · rintro ⟨j, _, hj⟩
    cases h : l[j]? with
    | none => simp [h] at hj
    | some b =>
      simp only [h, Option.map_some, Option.some.injEq, Prod.mk.injEq] at hj
      obtain ⟨rfl, rfl⟩ := hj
      exact h
  · intro h
    refine ⟨k, ?_, by simp [h]⟩
    rw [List.mem_range]
    apply Nat.lt_of_not_le
    intro hle
    rw [List.getElem?_eq_none_iff.2 hle] at h
    cases h

theorem mem_indexed' {α : Type} {l : List α} {x : Nat × α} : x ∈ indexed l ↔ l[x.1]? = some x.2 := by
  obtain ⟨k, a⟩ := x
  exact mem_indexed

theorem getElem?_lt {α : Type} {l : List α} {k : Nat} {a : α} (h : l[k]? = some a) : k < l.length := by
  apply Nat.lt_of_not_le
  intro hle
  rw [List.getElem?_eq_none_iff.2 hle] at h
  cases h

theorem getElem?_of_lt {α : Type} {l : List α} {k : Nat} (h : k < l.length) : ∃ a, l[k]? = some a :=
  ⟨l[k], List.getElem?_eq_getElem h⟩

/-! ## abstraction of packet connections and handles -/

def absPc (pc : PConn) : MPc :=
  { ufrag := pc.key.ufrag, v6 := pc.key.v6, lip := pc.key.lip, provisional := pc.provisional,
    expires := pc.alive, refs := pc.refs, isOpen := !pc.closed }

def absH (h : Handle) : MHandle := { pc := h.pc, closed := h.closed }

def mframes (l : List Frame) : List MFrame := l.map (fun f => ⟨f.fid, f.len⟩)

/-- the client sent a frame the mux refuses to read (larger than the read buffer) -/
def big (t : Tcp) : Bool := t.sent.any (fun f => decide (8192 < f.len))

/-- number of data packets from TCP connection `k` that have been read from its packet connection -/
def nreadOf (s : State) (k : Nat) (t : Tcp) : Nat :=
  match t.pc with
  | some p => (match s.pcs[p]? with
    | some pc => (dataIds (fromConn k pc.readLog)).length
    | none => 0)
  | none => 0

/-- routing stamp of client `k` in the monitor -/
def seqOf (m : Mon) (k : Nat) : Nat := match m.clients[k]? with | some c => c.seq | none => 0

/-- everything `k` sent up to the first frame the mux refuses has entered the receive channel -/
def Complete (k : Nat) (t : Tcp) (pc : PConn) : Prop :=
  ∀ f, (sentIds t.sent)[(dataIds (fromConn k pc.hist)).length]? = some f → 8192 < f.2

structure CRel (t : Tcp) (c : MClient) : Prop where
  ip : c.ip = t.peer.ip
  port : c.port = t.peer.port
  lip : c.lip = t.lip
  pend : ∀ d, t.phase = .pending d → c.accepted = true ∧ c.hasFirst = false ∧ c.deadline = d
  first : c.hasFirst = false → ∀ p, t.phase ≠ .attached p
  target : c.target = t.pc
  done : c.done = (t.cEnd || t.stuck)
  gone : c.gone = (t.cEnd || (t.pc.isSome && big t))
  sent : t.pc.isSome = true → c.sent = mframes t.sent
  acc : c.accepted = false → t.phase = .closed

/-- the relation, up to the clients' `closed` flags (taken over from the observation at the end of every
step), their `nread` counters and `returned` -/
structure SimU (s : State) (m : Mon) : Prop where
  active : m.active = true
  t1 : m.t1 = effTimeout s.cfg.t1
  t2 : m.t2 = effTimeout s.cfg.t2
  now : m.now = s.now
  called : m.closeCalled = s.muxClosed
  ctime : s.muxClosed = true → m.closeTime = s.closedAt
  pcs : m.pcs = s.pcs.map absPc
  handles : m.handles = s.handles.map absH
  len : m.clients.length = s.tcps.length
  cl : ∀ (k : Nat) (t : Tcp) (c : MClient), s.tcps[k]? = some t → m.clients[k]? = some c → CRel t c
  stamp : ∀ (k : Nat) (c : MClient), m.clients[k]? = some c → c.target.isSome = true → c.seq < m.stamp
  last : ∀ (k k' : Nat) (t t' : Tcp) (p : Nat), s.tcps[k]? = some t → s.tcps[k']? = some t' →
    t.phase = .attached p → t'.pc = some p → t'.peer = t.peer → k' ≠ k → seqOf m k' < seqOf m k
  ho : ∀ (p : Nat) (pc : PConn) (h1 h2 : List Pkt) (x y : Pkt), s.pcs[p]? = some pc → pc.hist = h1 ++ x :: h2 → y ∈ h2 →
    x.err = none → y.err = none → x.src = y.src → x.conn ≠ y.conn → seqOf m x.conn < seqOf m y.conn
  cc : ∀ (k : Nat) (t : Tcp) (p : Nat) (pc : PConn), s.tcps[k]? = some t → t.pc = some p → t.phase = .closed →
    s.pcs[p]? = some pc →
    Complete k t pc ∨ (pc.closed = true ∧ ∀ (k' : Nat) (t' : Tcp), s.tcps[k']? = some t' → t'.pc = some p →
      t'.peer = t.peer → seqOf m k' ≤ seqOf m k)
  pl : ∀ (p : Nat) (pc : PConn) (pkt : Pkt), s.pcs[p]? = some pc → pkt ∈ pc.hist → pkt.err = none → pkt.len ≤ 8192
  plb : ∀ (k : Nat) (t : Tcp) (bp : Pkt), s.tcps[k]? = some t → t.reader = .blocked bp false → bp.len ≤ 8192
  endLast : ∀ (k : Nat) (t : Tcp) (a b : List Item) (it : Item), s.tcps[k]? = some t → t.inbox = a ++ it :: b →
    isEnd it = true → b = []
  uniq : ∀ (k k' : Nat) (c c' : MClient), m.clients[k]? = some c → m.clients[k']? = some c' →
    c.target.isSome = true → c'.target.isSome = true → c.seq = c'.seq → k = k'

/-- the monitor's read counters are the model's -/
def NRead (s : State) (m : Mon) : Prop :=
  ∀ (k : Nat) (t : Tcp) (c : MClient), s.tcps[k]? = some t → m.clients[k]? = some c → c.nread = nreadOf s k t

/-- the monitor's `closed` flags are those of the connections `tc` -/
def Flags (tc : List Tcp) (m : Mon) : Prop :=
  ∀ (k : Nat) (t : Tcp) (c : MClient), tc[k]? = some t → m.clients[k]? = some c → c.closed = t.isClosed

structure Sim (s : State) (m : Mon) : Prop where
  u : SimU s m
  nread : NRead s m
  flags : Flags s.tcps m
  ret : m.returned = closeReturned s

/-! ## model transformations that need no bookkeeping -/

structure TcpQ (t t' : Tcp) : Prop where
  peer : t'.peer = t.peer
  lip : t'.lip = t.lip
  pc : t'.pc = t.pc
  cEnd : t'.cEnd = t.cEnd
  stuck : t'.stuck = t.stuck
  sent : t'.sent = t.sent
  phase : t'.phase = t.phase ∨ t'.phase = .closed
  inbox : ∃ pre, t.inbox = pre ++ t'.inbox
  blk : ∀ bp, t'.reader = .blocked bp false → t.reader = .blocked bp false ∨ bp.len ≤ 8192

theorem TcpQ.refl (t : Tcp) : TcpQ t t :=
  ⟨rfl, rfl, rfl, rfl, rfl, rfl, Or.inl rfl, ⟨[], rfl⟩, fun _ h => Or.inl h⟩

structure Quiet (s s' : State) : Prop where
  cfg : s'.cfg = s.cfg
  mux : s'.muxClosed = s.muxClosed
  cat : s'.closedAt = s.closedAt
  tlen : s'.tcps.length = s.tcps.length
  tcps : ∀ (k : Nat) (t : Tcp), s.tcps[k]? = some t → ∃ t', s'.tcps[k]? = some t' ∧ TcpQ t t'
  plen : s.pcs.length ≤ s'.pcs.length
  pcs : ∀ (p : Nat) (pc : PConn), s.pcs[p]? = some pc → ∃ pc', s'.pcs[p]? = some pc' ∧
    (pc.closed = true → pc'.closed = true) ∧
    ∃ new, pc'.hist = pc.hist ++ new ∧ ∀ y, y ∈ new → y.err = none →
      y.len ≤ 8192 ∧ ∃ t, s.tcps[y.conn]? = some t ∧ t.phase = .attached p ∧ y.src = t.peer
  fresh : ∀ (p : Nat) (pc' : PConn), s.pcs.length ≤ p → s'.pcs[p]? = some pc' → pc'.hist = []
  done : ∀ (k : Nat) (t t' : Tcp) (p : Nat) (pc' : PConn), s.tcps[k]? = some t → t.phase = .attached p →
    s'.tcps[k]? = some t' → t'.phase = .closed → s'.pcs[p]? = some pc' → Complete k t' pc' ∨ pc'.closed = true

/-- inverse lookup through `Quiet` -/
theorem Quiet.tback {s s' : State} (q : Quiet s s') {k : Nat} {t' : Tcp} (h : s'.tcps[k]? = some t') :
    ∃ t, s.tcps[k]? = some t ∧ TcpQ t t' := by
  have hlt : k < s.tcps.length := by rw [← q.tlen]; exact getElem?_lt h
  obtain ⟨t, ht⟩ := getElem?_of_lt hlt
  obtain ⟨t2, ht2, hq⟩ := q.tcps k t ht
  rw [h] at ht2; cases ht2
  exact ⟨t, ht, hq⟩

theorem seqOf_eq {m m' : Mon} (h : ∀ k : Nat, (m'.clients[k]?).map MClient.seq = (m.clients[k]?).map MClient.seq) (k : Nat) :
    seqOf m' k = seqOf m k := by
  unfold seqOf
  have := h k
  cases h1 : m'.clients[k]? <;> cases h2 : m.clients[k]? <;> simp [h1, h2] at this ⊢
  exact this

theorem dataIds_fromConn_length_le (k : Nat) (a b : List Pkt) :
    dataIds (fromConn k (a ++ b)) = dataIds (fromConn k a) ++ dataIds (fromConn k b) := by
  rw [fromConn_append, dataIds_append]

/-- appending packets that are not data of `k` does not change what `k` has delivered -/
theorem dataIds_fromConn_append_irrel (k : Nat) (a new : List Pkt)
    (h : ∀ y, y ∈ new → y.err = none → y.conn ≠ k) :
    dataIds (fromConn k (a ++ new)) = dataIds (fromConn k a) := by
  rw [fromConn_append, dataIds_append]
  have : dataIds (fromConn k new) = [] := by
    unfold dataIds fromConn
    simp only [List.map_eq_nil_iff, List.filter_eq_nil_iff, List.mem_filter, decide_eq_true_eq]
    intro y ⟨hy, hk⟩ hn
    have he : y.err = none := by cases h' : y.err <;> simp [h'] at hn ⊢
    exact h y hy he hk
  rw [this, List.append_nil]

/-- **Quiet transformations preserve the relation**; the monitor's records and handles are re-read from
the new state (they are functions of it), the clock too. -/
theorem quiet_simU {s s' : State} {m : Mon} (q : Quiet s s') (hi : Inv s) (h2 : Inv2 s) (hs : SimU s m) :
    SimU s' { m with pcs := s'.pcs.map absPc, handles := s'.handles.map absH, now := s'.now } := by
  have sq : ∀ k, seqOf { m with pcs := s'.pcs.map absPc, handles := s'.handles.map absH, now := s'.now } k = seqOf m k :=
    fun k => rfl
  -- a connection routed to `p` with the peer of a connection attached to `p` is that connection, if attached
  have att_unique : ∀ (k k' p : Nat) (t t' : Tcp), s.tcps[k]? = some t → s.tcps[k']? = some t' →
      t.phase = .attached p → t'.phase = .attached p → t'.peer = t.peer → k' = k := by
    intro k k' p t t' ht ht' hph hph' hpe
    have a := hi.phase k t ht
    have b := hi.phase k' t' ht'
    simp only [PhaseOk, hph] at a
    simp only [PhaseOk, hph'] at b
    obtain ⟨_, pc, hp, _, hm⟩ := a
    obtain ⟨_, pc2, hp2, _, hm2⟩ := b
    rw [hp] at hp2; cases hp2
    rw [hpe] at hm2
    exact nodup_fst_unique (hi.pc p pc hp).2.1 hm2 hm
  constructor
  · exact hs.active
  · show m.t1 = _; rw [q.cfg]; exact hs.t1
  · show m.t2 = _; rw [q.cfg]; exact hs.t2
  · rfl
  · show m.closeCalled = _; rw [q.mux]; exact hs.called
  · intro h; show m.closeTime = _; rw [q.cat]; rw [q.mux] at h; exact hs.ctime h
  · rfl
  · rfl
  · show m.clients.length = _; rw [q.tlen]; exact hs.len
  · intro k t' c ht' hc
    obtain ⟨t, ht, tq⟩ := q.tback ht'
    have r := hs.cl k t c ht hc
    constructor
    · rw [tq.peer]; exact r.ip
    · rw [tq.peer]; exact r.port
    · rw [tq.lip]; exact r.lip
    · intro d hd
      rcases tq.phase with e | e
      · rw [e] at hd; exact r.pend d hd
      · rw [e] at hd; cases hd
    · intro hf p hp
      rcases tq.phase with e | e
      · rw [e] at hp; exact r.first hf p hp
      · rw [e] at hp; cases hp
    · rw [tq.pc]; exact r.target
    · rw [tq.cEnd, tq.stuck]; exact r.done
    · unfold big; rw [tq.cEnd, tq.pc, tq.sent]; exact r.gone
    · rw [tq.pc, tq.sent]; exact r.sent
    · intro ha
      rcases tq.phase with e | e
      · rw [e]; exact r.acc ha
      · exact e
  · exact hs.stamp
  · intro k k' t1 t1' p ht1 ht1' hph hpc hpe hne
    rw [sq, sq]
    obtain ⟨t, ht, tq⟩ := q.tback ht1
    obtain ⟨t', ht', tq'⟩ := q.tback ht1'
    have hph0 : t.phase = .attached p := by
      rcases tq.phase with e | e
      · rw [← e]; exact hph
      · rw [e] at hph; cases hph
    exact hs.last k k' t t' p ht ht' hph0 (by rw [← tq'.pc]; exact hpc) (by rw [← tq'.peer, ← tq.peer]; exact hpe) hne
  · -- ho
    intro p pc' h1 h2' x y hp' hh hy hxe hye hsrc hne
    rw [sq, sq]
    by_cases hlt : p < s.pcs.length
    · obtain ⟨pc, hp⟩ := getElem?_of_lt hlt
      obtain ⟨pc2, hp2, _, new, hnew, hprop⟩ := q.pcs p pc hp
      rw [hp'] at hp2; cases hp2
      -- where is the split point?
      rw [hnew] at hh
      have srcOld : ∀ z, z ∈ pc.hist → ∃ tz, s.tcps[z.conn]? = some tz ∧ tz.pc = some p ∧ z.src = tz.peer :=
        (h2.pc p pc hp).src
      have ynew_case : ∀ z, z ∈ pc.hist → z.err = none → z.src = y.src → z.conn ≠ y.conn → y ∈ new →
          seqOf m z.conn < seqOf m y.conn := by
        intro z hz _ hzs hzc hyn
        obtain ⟨_, ty, hty, hphy, hsy⟩ := hprop y hyn hye
        obtain ⟨tz, htz, hpcz, hsz⟩ := srcOld z hz
        exact hs.last y.conn z.conn ty tz p hty htz hphy hpcz (by rw [← hsz, ← hsy]; exact hzs) hzc
      rcases List.append_eq_append_iff.1 hh with ⟨a', ha1, ha2⟩ | ⟨c', hc1, hc2⟩
      · -- h1 = pc.hist ++ a', new = a' ++ x :: h2' : both in new
        have hxn : x ∈ new := by rw [ha2]; simp
        have hyn : y ∈ new := by rw [ha2]; simp [hy]
        obtain ⟨_, tx, htx, hphx, hsx⟩ := hprop x hxn hxe
        obtain ⟨_, ty, hty, hphy, hsy⟩ := hprop y hyn hye
        exact absurd (att_unique y.conn x.conn p ty tx hty htx hphy hphx (by rw [← hsx, ← hsy]; exact hsrc)) hne
      · -- pc.hist = h1 ++ c', x :: h2' = c' ++ new
        cases c' with
        | nil =>
          simp only [List.nil_append] at hc2
          have hxn : x ∈ new := by rw [← hc2]; simp
          have hyn : y ∈ new := by rw [← hc2]; simp [hy]
          obtain ⟨_, tx, htx, hphx, hsx⟩ := hprop x hxn hxe
          obtain ⟨_, ty, hty, hphy, hsy⟩ := hprop y hyn hye
          exact absurd (att_unique y.conn x.conn p ty tx hty htx hphy hphx (by rw [← hsx, ← hsy]; exact hsrc)) hne
        | cons c0 cs =>
          simp only [List.cons_append, List.cons.injEq] at hc2
          obtain ⟨rfl, hc3⟩ := hc2
          -- pc.hist = h1 ++ x :: cs, h2' = cs ++ new
          rw [hc3] at hy
          rcases List.mem_append.1 hy with hy1 | hy2
          · exact hs.ho p pc h1 cs x y hp hc1 hy1 hxe hye hsrc hne
          · exact ynew_case x (by rw [hc1]; simp) hxe hsrc hne hy2
    · have := q.fresh p pc' (Nat.le_of_not_lt hlt) hp'
      rw [this] at hh
      exact absurd hh (by simp)
  · -- cc
    intro k t1 p pc' ht1 hpc1 hph1 hp'
    obtain ⟨t, ht, tq⟩ := q.tback ht1
    have hpc0 : t.pc = some p := by rw [← tq.pc]; exact hpc1
    obtain ⟨pc, hp⟩ := (h2.tcp k t ht).ref p hpc0
    obtain ⟨pc2, hp2, hcl, new, hnew, hprop⟩ := q.pcs p pc hp
    rw [hp'] at hp2; cases hp2
    have lastOf : (∀ (k' : Nat) (t' : Tcp), s.tcps[k']? = some t' → t'.pc = some p → t'.peer = t.peer → seqOf m k' ≤ seqOf m k) →
        ∀ (k' : Nat) (t' : Tcp), s'.tcps[k']? = some t' → t'.pc = some p → t'.peer = t1.peer →
          seqOf { m with pcs := s'.pcs.map absPc, handles := s'.handles.map absH, now := s'.now } k' ≤
          seqOf { m with pcs := s'.pcs.map absPc, handles := s'.handles.map absH, now := s'.now } k := by
      intro h k' t1' ht1' hpc1' hpe1
      rw [sq, sq]
      obtain ⟨t', ht', tq'⟩ := q.tback ht1'
      exact h k' t' ht' (by rw [← tq'.pc]; exact hpc1') (by rw [← tq'.peer, hpe1, tq.peer])
    cases hph0 : t.phase with
    | pending d =>
      have := ((h2.tcp k t ht).fresh d hph0).1
      rw [hpc0] at this; cases this
    | closed =>
      rcases hs.cc k t p pc ht hpc0 hph0 hp with hc | ⟨hcl0, hlast⟩
      · left
        intro f hf
        apply hc f
        rw [← tq.sent]
        rw [hnew, dataIds_fromConn_append_irrel] at hf
        · exact hf
        · intro y hy hye hyk
          obtain ⟨_, ty, hty, hphy, _⟩ := hprop y hy hye
          rw [hyk, ht] at hty; cases hty
          rw [hph0] at hphy; cases hphy
      · right
        exact ⟨hcl hcl0, lastOf hlast⟩
    | attached p0 =>
      have hpp : p0 = p := by
        have := hi.phase k t ht
        simp only [PhaseOk, hph0] at this
        rw [hpc0] at this
        have := this.1; cases this; rfl
      subst hpp
      rcases q.done k t t1 p0 pc' ht hph0 ht1 hph1 hp' with hc | hc
      · exact Or.inl hc
      · right
        refine ⟨hc, lastOf ?_⟩
        intro k' t' ht' hpc' hpe'
        by_cases hkk : k' = k
        · subst hkk; exact Nat.le_refl _
        · exact Nat.le_of_lt (hs.last k k' t t' p0 ht ht' hph0 hpc' hpe' hkk)
  · -- pl
    intro p pc' pkt hp' hmem herr
    by_cases hlt : p < s.pcs.length
    · obtain ⟨pc, hp⟩ := getElem?_of_lt hlt
      obtain ⟨pc2, hp2, _, new, hnew, hprop⟩ := q.pcs p pc hp
      rw [hp'] at hp2; cases hp2
      rw [hnew] at hmem
      rcases List.mem_append.1 hmem with h | h
      · exact hs.pl p pc pkt hp h herr
      · exact (hprop pkt h herr).1
    · have := q.fresh p pc' (Nat.le_of_not_lt hlt) hp'
      rw [this] at hmem; cases hmem
  · -- plb
    intro k t' bp ht' hrd
    obtain ⟨t, ht, tq⟩ := q.tback ht'
    rcases tq.blk bp hrd with h | h
    · exact hs.plb k t bp ht h
    · exact h
  · -- endLast
    intro k t' a b it ht' hin he
    obtain ⟨t, ht, tq⟩ := q.tback ht'
    obtain ⟨pre, hpre⟩ := tq.inbox
    rw [hin] at hpre
    exact hs.endLast k t (pre ++ a) b it ht (by rw [hpre]; simp) he
  · exact hs.uniq

end IceProofs.TcpMux
