import IceProofs.AgentC07Ctl
/-!
# The cache invariant of the data plane and its preservation by every event

`InvC a`: uids of current local / remote candidates are below `nextUid` and pairwise distinct, and every
cache entry `(l, s, r)` names a current local candidate `l` and a current remote candidate `r` with
`r.addr = s` and `r.net = l.net`.  It only looks at (uid, net, addr) of candidates (`ckey`), the caches and
`nextUid`, so it is carried along any `Fr` step; candidate insertion (`addLocalCandidate`,
`addRemoteCandidate` with prflx supersession and cache rewriting) is proved directly.
-/
namespace IceProofs.AgentC07
open IceModel.AgentCore

def InvK (ls rs cs : List (Nat × Nat × Nat)) (n : Nat) : Prop :=
  (∀ k ∈ ls, k.1 < n) ∧ ls.Pairwise (fun x y => x.1 ≠ y.1) ∧
  (∀ k ∈ rs, k.1 < n) ∧ rs.Pairwise (fun x y => x.1 ≠ y.1) ∧
  ∀ e ∈ cs, ∃ lk ∈ ls, lk.1 = e.1 ∧ (e.2.2, lk.2.1, e.2.1) ∈ rs

def InvC (a : Agent) : Prop := InvK (a.locals.map ckey) (a.remotes.map ckey) a.caches a.nextUid

/-- the invariant in terms of candidates -/
theorem InvC_iff (a : Agent) : InvC a ↔
    (∀ c ∈ a.locals, c.uid < a.nextUid) ∧ a.locals.Pairwise (fun x y => x.uid ≠ y.uid) ∧
    (∀ c ∈ a.remotes, c.uid < a.nextUid) ∧ a.remotes.Pairwise (fun x y => x.uid ≠ y.uid) ∧
    ∀ e ∈ a.caches, ∃ l ∈ a.locals, l.uid = e.1 ∧ ∃ r ∈ a.remotes, r.uid = e.2.2 ∧ r.addr = e.2.1 ∧ r.net = l.net := by
  unfold InvC InvK
  rw [List.pairwise_map, List.pairwise_map]
  constructor
  · rintro ⟨h1, h2, h3, h4, h5⟩
    refine ⟨fun c hc => h1 _ (List.mem_map_of_mem hc), h2, fun c hc => h3 _ (List.mem_map_of_mem hc), h4, fun e he => ?_⟩
    obtain ⟨lk, hlk, e1, hrk⟩ := h5 e he
    obtain ⟨l, hl, rfl⟩ := List.mem_map.mp hlk
    obtain ⟨r, hr, er⟩ := List.mem_map.mp hrk
    simp only [ckey, Prod.mk.injEq] at er e1
    exact ⟨l, hl, e1, r, hr, er.1, er.2.2, er.2.1⟩
  · rintro ⟨h1, h2, h3, h4, h5⟩
    refine ⟨fun k hk => ?_, h2, fun k hk => ?_, h4, fun e he => ?_⟩
    · obtain ⟨c, hc, rfl⟩ := List.mem_map.mp hk
      exact h1 c hc
    · obtain ⟨c, hc, rfl⟩ := List.mem_map.mp hk
      exact h3 c hc
    · obtain ⟨l, hl, e1, r, hr, e2, e3, e4⟩ := h5 e he
      refine ⟨ckey l, List.mem_map_of_mem hl, e1, ?_⟩
      have : (e.2.2, (ckey l).2.1, e.2.1) = ckey r := by simp [ckey, e2, e3, e4]
      rw [this]
      exact List.mem_map_of_mem hr

theorem InvC_of_Fr {a b : Agent} (h : Fr a b) (hi : InvC a) : InvC b := by
  rcases h.cands with ⟨k1, k2, k3⟩ | ⟨w1, w2, w3⟩
  · unfold InvC at *
    rw [k1, k2, k3, h.nuid]
    exact hi
  · unfold InvC InvK
    rw [w1, w2, w3]
    simp

theorem Fr0.of_fields {a b : Agent} (h1 : b.rx = a.rx) (h2 : b.connBytesSent = a.connBytesSent)
    (h3 : b.connBytesRecv = a.connBytesRecv) (h4 : b.nextPairID = a.nextPairID) (h5 : b.checklist = a.checklist)
    (h6 : b.closed = a.closed) : Fr0 a b where
  rx := h1
  sent := h2
  recv := h3
  npid := Nat.le_of_eq h4.symm
  ctr := fun id q h => Or.inl ⟨q, by simpa [Agent.pairById, h5] using h, rfl⟩
  bnd := fun h => by unfold IdsBounded; rw [h4, h5]; exact h
  closed := fun h => h6.trans h

/-- the whole invariant: cache invariant, pair ids issued and distinct, pairs resolvable -/
def InvA (a : Agent) : Prop := InvC a ∧ IdsBounded a ∧ Res a

/-- what every non-data event guarantees -/
def Ok (a b : Agent) : Prop := InvA a → Fr0 a b ∧ InvA b

theorem Ok.refl (a : Agent) : Ok a a := fun h => ⟨Fr0.refl a, h⟩
theorem Ok.trans {a b c : Agent} (h1 : Ok a b) (h2 : Ok b c) : Ok a c :=
  fun h => ⟨(h1 h).1.trans (h2 (h1 h).2).1, (h2 (h1 h).2).2⟩
theorem Ok.of_Fr {a b : Agent} (h : Fr a b) : Ok a b :=
  fun ⟨i, b, r⟩ => ⟨h.toFr0, InvC_of_Fr h i, h.bnd b, h.rsv r⟩

/-- a loop that only adds pairs between current candidates -/
theorem foldl_addPair_Fr {α : Type} (f : Agent → α → Agent) (xs : List α) (a0 : Agent)
    (hf : ∀ a x, x ∈ xs → luids a = luids a0 → ruids a = ruids a0 →
      Fr a (f a x) ∧ luids (f a x) = luids a ∧ ruids (f a x) = ruids a) :
    Fr a0 (xs.foldl f a0) ∧ luids (xs.foldl f a0) = luids a0 ∧ ruids (xs.foldl f a0) = ruids a0 := by
  suffices h : ∀ a, luids a = luids a0 → ruids a = ruids a0 →
      Fr a (xs.foldl f a) ∧ luids (xs.foldl f a) = luids a0 ∧ ruids (xs.foldl f a) = ruids a0 from h a0 rfl rfl
  induction xs with
  | nil => intro a h1 h2; exact ⟨Fr.refl _, h1, h2⟩
  | cons x xs ih =>
    intro a h1 h2
    rw [List.foldl_cons]
    obtain ⟨g1, g2, g3⟩ := hf a x List.mem_cons_self h1 h2
    obtain ⟨i1, i2, i3⟩ := ih (fun a y hy => hf a y (List.mem_cons_of_mem _ hy)) _ (g2.trans h1) (g3.trans h2)
    exact ⟨g1.trans i1, i2, i3⟩

theorem uid_inj {l : List Cand} (h : l.Pairwise (fun x y => x.uid ≠ y.uid)) {x y : Cand} (hx : x ∈ l) (hy : y ∈ l)
    (e : x.uid = y.uid) : x = y := by
  induction l with
  | nil => cases hx
  | cons z l ih =>
    rw [List.pairwise_cons] at h
    rcases List.mem_cons.mp hx with hx1 | hx1 <;> rcases List.mem_cons.mp hy with hy1 | hy1
    · rw [hx1, hy1]
    · subst hx1; exact absurd e (h.1 _ hy1)
    · subst hy1; exact absurd e.symm (h.1 _ hx1)
    · exact ih h.2 hx1 hy1


theorem InvC_addLocal_core (a : Agent) (c : Cand) (hi : InvC a) :
    InvC { a with nextUid := a.nextUid + 1, locals := a.locals ++ [{ c with uid := a.nextUid }] } := by
  rw [InvC_iff] at hi ⊢
  obtain ⟨h1, h2, h3, h4, h5⟩ := hi
  refine ⟨?_, ?_, ?_, h4, ?_⟩
  · intro x hx
    rcases List.mem_append.mp hx with hx | hx
    · exact Nat.lt_succ_of_lt (h1 x hx)
    · rw [List.mem_singleton.mp hx]; exact Nat.lt_succ_self _
  · refine List.pairwise_append.mpr ⟨h2, List.pairwise_singleton _ _, ?_⟩
    intro x hx y hy
    rw [List.mem_singleton.mp hy]
    exact Nat.ne_of_lt (h1 x hx)
  · intro x hx
    exact Nat.lt_succ_of_lt (h3 x hx)
  · intro e he
    obtain ⟨l, hl, e1, r, hr, e2⟩ := h5 e he
    exact ⟨l, List.mem_append_left _ hl, e1, r, hr, e2⟩

theorem addLocal_spec (a : Agent) (c : Cand) : Ok a (a.addLocalCandidate c).1 := by
  unfold Agent.addLocalCandidate
  split
  · exact Ok.refl _
  · split
    · exact Ok.refl _
    · dsimp only
      generalize h0 : ({ a with nextUid := a.nextUid + 1, locals := a.locals ++ [{ c with uid := a.nextUid }] } : Agent) = a1
      have f1 : Fr0 a a1 := by subst h0; exact Fr0.of_fields rfl rfl rfl rfl rfl rfl
      have i1 : InvC a → InvC a1 := by subst h0; exact InvC_addLocal_core a c
      have r1 : Res a → Res a1 := by
        subst h0
        intro h p hp
        have := h p hp
        refine ⟨?_, this.2⟩
        show p.l ∈ List.map _ (a.locals ++ _)
        rw [List.map_append]
        exact List.mem_append_left _ this.1
      have hc : a.nextUid ∈ luids a1 := by
        subst h0
        show a.nextUid ∈ List.map _ (a.locals ++ _)
        rw [List.map_append]
        exact List.mem_append_right _ (List.mem_singleton.mpr rfl)
      have hrm : a1.remotes = a.remotes := by subst h0; rfl
      have f2 : Fr a1 (List.foldl (fun a_1 r => (a_1.addPair { c with uid := a.nextUid } r).fst) a1
          (List.filter (fun x => x.net == c.net) a.remotes)).requestCheck := by
        refine Fr.trans (foldl_addPair_Fr _ _ _ (fun x r hr h1 h2 => ⟨Fr.addPair _ _ _ ?_ ?_, rfl, rfl⟩)).1 (by fr_same)
        · rw [h1]; exact hc
        · rw [h2]
          unfold ruids
          rw [hrm]
          exact List.mem_map_of_mem (List.mem_filter.mp hr).1
      exact fun ⟨i, b, r⟩ => ⟨f1.trans f2.toFr0, InvC_of_Fr f2 (i1 i), f2.bnd (f1.bnd b), f2.rsv (r1 r)⟩

/-- the cache rewrite of one supersession round -/
def rwCache (cu : Nat) (cs : List (Nat × Nat × Nat)) (old : Cand) : List (Nat × Nat × Nat) :=
  cs.map fun x => if x.2.2 == old.uid then (x.1, x.2.1, cu) else x

/-- one round of the supersession loop of `addRemoteCandidate` -/
def ssRound (c : Cand) (acc : Agent × List Out) (old : Cand) : Agent × List Out :=
  let r := acc.1.replaceRemoteInPairs old c
  let a : Agent := r.1
  let a : Agent := { a with caches := a.caches.map fun (x : Nat × Nat × Nat) => if x.2.2 == old.uid then (x.1, x.2.1, c.uid) else x }
  (a, acc.2 ++ r.2)

theorem ssRound_spec (c : Cand) (acc : Agent × List Out) (old : Cand) (hc : c.uid ∈ ruids acc.1) :
    Fr0 acc.1 (ssRound c acc old).1 ∧ (Res acc.1 → Res (ssRound c acc old).1) ∧
    (ssRound c acc old).1.locals = acc.1.locals ∧
    (ssRound c acc old).1.remotes = acc.1.remotes ∧ (ssRound c acc old).1.nextUid = acc.1.nextUid ∧
    (ssRound c acc old).1.caches = rwCache c.uid acc.1.caches old := by
  have k := KeepEq_replaceRemoteInPairs acc.1 old c
  have f := Fr_replaceRemoteInPairs acc.1 old c hc
  unfold ssRound
  dsimp only
  refine ⟨f.toFr0.trans (Fr0.of_fields rfl rfl rfl rfl rfl rfl), f.rsv, k.1, k.2.1, k.2.2.2, ?_⟩
  rw [k.2.2.1]
  rfl

theorem supersede_spec (c : Cand) (rep : List Cand) (acc : Agent × List Out) (hc : c.uid ∈ ruids acc.1) :
    Fr0 acc.1 (rep.foldl (ssRound c) acc).1 ∧ (Res acc.1 → Res (rep.foldl (ssRound c) acc).1) ∧
    (rep.foldl (ssRound c) acc).1.locals = acc.1.locals ∧
    (rep.foldl (ssRound c) acc).1.remotes = acc.1.remotes ∧ (rep.foldl (ssRound c) acc).1.nextUid = acc.1.nextUid ∧
    (rep.foldl (ssRound c) acc).1.caches = rep.foldl (rwCache c.uid) acc.1.caches := by
  induction rep generalizing acc with
  | nil => exact ⟨Fr0.refl _, id, rfl, rfl, rfl, rfl⟩
  | cons old rep ih =>
    rw [List.foldl_cons, List.foldl_cons]
    obtain ⟨g1, g0, g2, g3, g4, g5⟩ := ssRound_spec c acc old hc
    obtain ⟨h1, h0, h2, h3, h4, h5⟩ := ih (ssRound c acc old) (by unfold ruids at hc ⊢; rw [g3]; exact hc)
    exact ⟨g1.trans h1, fun r => h0 (g0 r), h2.trans g2, h3.trans g3, h4.trans g4, by rw [h5, g5]⟩

/-! ### after the supersession loop no pair points to a superseded candidate -/

theorem pairById_of_mem (a : Agent) (hb : IdsBounded a) {p : Pair} (hp : p ∈ a.checklist) :
    a.pairById p.id = some p := by
  unfold Agent.pairById
  have h := hb.2
  generalize a.checklist = l at hp h
  induction l with
  | nil => cases hp
  | cons x l ih =>
    rw [List.pairwise_cons] at h
    rcases List.mem_cons.mp hp with e | hp'
    · subst e; simp
    · have : (x.id == p.id) = false := by
        simp only [beq_eq_false_iff_ne, ne_eq]
        exact h.1 p hp'
      rw [List.find?_cons, this]
      exact ih hp' h.2

theorem rr_fold_noref (old c : Cand) (hne : c.uid ≠ old.uid) (ids : List Nat) :
    ∀ acc : Agent × List Out, IdsBounded acc.1 → c.uid ∈ ruids acc.1 →
      (∀ p ∈ acc.1.checklist, p.r = old.uid → p.id ∈ ids) →
      ∀ p ∈ (ids.foldl (rrRound old c) acc).1.checklist, p.r ≠ old.uid := by
  induction ids with
  | nil =>
    intro acc _ _ h p hp e
    cases h p hp e
  | cons id ids ih =>
    intro acc hb hc h
    rw [List.foldl_cons]
    have k := KeepEq_rrRound old c acc id
    refine ih _ ((Fr_rrRound old c acc id hc).bnd hb) (by unfold ruids at hc ⊢; rw [k.2.1]; exact hc) ?_
    obtain ⟨a, o⟩ := acc
    intro p' hp' e'
    obtain ⟨p, hp, e1, e2⟩ := rrRound_rel old c a o id p' hp'
    rcases e2 with ⟨e2, hn⟩ | e2
    · have hpr : p.r = old.uid := by rw [← e2]; exact e'
      rcases List.mem_cons.mp (h p hp hpr) with hid | hid
      · exact absurd ⟨hid, p, hid ▸ pairById_of_mem a hb hp, hpr⟩ hn
      · rw [e1]; exact hid
    · exact absurd (e2.symm.trans e') hne

theorem rr_fold_keepref (old c : Cand) (u : Nat) (hu : u ≠ c.uid) (ids : List Nat) :
    ∀ acc : Agent × List Out, (∀ p ∈ acc.1.checklist, p.r ≠ u) →
      ∀ p ∈ (ids.foldl (rrRound old c) acc).1.checklist, p.r ≠ u := by
  induction ids with
  | nil => intro acc h; exact h
  | cons id ids ih =>
    intro acc h
    rw [List.foldl_cons]
    refine ih _ ?_
    obtain ⟨a, o⟩ := acc
    intro p' hp' e'
    obtain ⟨p, hp, _, e2⟩ := rrRound_rel old c a o id p' hp'
    rcases e2 with ⟨e2, _⟩ | e2
    · exact h p hp (e2.symm.trans e')
    · exact hu (e'.symm.trans e2)

theorem supersede_noref (c : Cand) (rep : List Cand) (acc : Agent × List Out) (hb : IdsBounded acc.1)
    (hc : c.uid ∈ ruids acc.1) (hne : ∀ old ∈ rep, c.uid ≠ old.uid) :
    (∀ old ∈ rep, ∀ p ∈ (rep.foldl (ssRound c) acc).1.checklist, p.r ≠ old.uid) ∧
    ∀ u, u ≠ c.uid → (∀ p ∈ acc.1.checklist, p.r ≠ u) → ∀ p ∈ (rep.foldl (ssRound c) acc).1.checklist, p.r ≠ u := by
  induction rep generalizing acc with
  | nil => exact ⟨fun _ h => (by cases h), fun _ _ h => h⟩
  | cons old rep ih =>
    rw [List.foldl_cons]
    obtain ⟨g1, _, _, g3, _, _⟩ := ssRound_spec c acc old hc
    have hcl : (ssRound c acc old).1.checklist =
        ((acc.1.checklist.map (·.id)).foldl (rrRound old c) (acc.1, [])).1.checklist := rfl
    obtain ⟨i1, i2⟩ := ih (ssRound c acc old) (g1.bnd hb) (by unfold ruids at hc ⊢; rw [g3]; exact hc)
      (fun o ho => hne o (List.mem_cons_of_mem _ ho))
    have hne0 := hne old List.mem_cons_self
    refine ⟨fun o ho => ?_, fun u hu h => ?_⟩
    · rcases List.mem_cons.mp ho with e | ho
      · subst e
        refine i2 _ (fun e => hne0 e.symm) ?_
        rw [hcl]
        exact rr_fold_noref o c hne0 _ (acc.1, []) hb hc
          (fun p hp _ => List.mem_map_of_mem (f := (·.id)) hp)
      · exact i1 o ho
    · refine i2 u hu ?_
      rw [hcl]
      exact rr_fold_keepref old c u hu _ (acc.1, []) h

theorem rwCache_spec (cu : Nat) (rep : List Cand) (cs : List (Nat × Nat × Nat)) :
    ∀ e' ∈ rep.foldl (rwCache cu) cs, ∃ e ∈ cs, e'.1 = e.1 ∧ e'.2.1 = e.2.1 ∧
      ((e'.2.2 = e.2.2 ∧ ∀ old ∈ rep, e.2.2 ≠ old.uid) ∨ (e'.2.2 = cu ∧ (e.2.2 = cu ∨ ∃ old ∈ rep, e.2.2 = old.uid))) := by
  induction rep generalizing cs with
  | nil =>
    intro e' he'
    exact ⟨e', he', rfl, rfl, Or.inl ⟨rfl, fun _ h => by cases h⟩⟩
  | cons old rep ih =>
    intro e' he'
    rw [List.foldl_cons] at he'
    obtain ⟨e1, he1, a1, a2, a3⟩ := ih _ e' he'
    unfold rwCache at he1
    obtain ⟨e0, he0, rfl⟩ := List.mem_map.mp he1
    refine ⟨e0, he0, ?_⟩
    by_cases hc : e0.2.2 = old.uid
    · have hb : (e0.2.2 == old.uid) = true := by simp [hc]
      rw [if_pos hb] at a1 a2 a3
      refine ⟨a1, a2, Or.inr ⟨?_, Or.inr ⟨old, List.mem_cons_self, hc⟩⟩⟩
      rcases a3 with ⟨h, _⟩ | ⟨h, _⟩
      · exact h
      · exact h
    · have hb : ¬ (e0.2.2 == old.uid) = true := by simp [hc]
      rw [if_neg hb] at a1 a2 a3
      refine ⟨a1, a2, ?_⟩
      rcases a3 with ⟨h, h'⟩ | ⟨h, h'⟩
      · left
        refine ⟨h, fun o ho => ?_⟩
        rcases List.mem_cons.mp ho with rfl | ho
        · exact hc
        · exact h' o ho
      · right
        refine ⟨h, ?_⟩
        rcases h' with h' | ⟨o, ho, h'⟩
        · exact Or.inl h'
        · exact Or.inr ⟨o, List.mem_cons_of_mem _ ho, h'⟩

theorem ckey_copyActivity (d s : Cand) : ckey (copyActivity d s) = ckey d := by
  unfold copyActivity
  dsimp only
  repeat' split
  all_goals rfl

theorem ckey_foldl_copyActivity (rep : List Cand) (c : Cand) : ckey (rep.foldl copyActivity c) = ckey c := by
  induction rep generalizing c with
  | nil => rfl
  | cons x rep ih => rw [List.foldl_cons, ih, ckey_copyActivity]

/-- the candidate-table part of `addRemoteCandidate` when the candidate is new: `c2` (uid `nextUid`, same
transport address as every superseded prflx candidate) is appended, caches are re-pointed, superseded
candidates are dropped. -/
theorem InvC_supersede (a a4 : Agent) (c2 : Cand) (replaced : List Cand) (hi : InvC a)
    (hu : c2.uid = a.nextUid)
    (hrep : ∀ old ∈ replaced, old ∈ a.remotes ∧ old.net = c2.net ∧ old.addr = c2.addr)
    (hl : a4.locals = a.locals) (hn : a4.nextUid = a.nextUid + 1)
    (hr : a4.remotes = (a.remotes ++ [c2]).filter fun e => !(replaced.any fun x => x.uid == e.uid))
    (hc : a4.caches = replaced.foldl (rwCache c2.uid) a.caches) : InvC a4 := by
  rw [InvC_iff] at hi ⊢
  obtain ⟨h1, h2, h3, h4, h5⟩ := hi
  rw [hl, hn, hr, hc]
  have hc2 : c2 ∈ (a.remotes ++ [c2]).filter fun e => !(replaced.any fun x => x.uid == e.uid) := by
    refine List.mem_filter.mpr ⟨List.mem_append_right _ List.mem_cons_self, ?_⟩
    simp only [Bool.not_eq_true', List.any_eq_false, beq_iff_eq]
    intro x hx e
    have := h3 x (hrep x hx).1
    omega
  refine ⟨fun x hx => Nat.lt_succ_of_lt (h1 x hx), h2, ?_, ?_, ?_⟩
  · intro x hx
    rcases List.mem_append.mp (List.mem_filter.mp hx).1 with hx | hx
    · exact Nat.lt_succ_of_lt (h3 x hx)
    · rw [List.mem_singleton.mp hx, hu]; exact Nat.lt_succ_self _
  · refine List.Pairwise.filter _ (List.pairwise_append.mpr ⟨h4, List.pairwise_singleton _ _, ?_⟩)
    intro x hx y hy
    rw [List.mem_singleton.mp hy, hu]
    exact Nat.ne_of_lt (h3 x hx)
  · intro e' he'
    obtain ⟨e, he, e1, e2, e3⟩ := rwCache_spec c2.uid replaced a.caches e' he'
    obtain ⟨l, hl', el, r, hr', er1, er2, er3⟩ := h5 e he
    refine ⟨l, hl', by rw [e1]; exact el, ?_⟩
    rcases e3 with ⟨e3, hno⟩ | ⟨e3, hyes⟩
    · refine ⟨r, ?_, by rw [e3]; exact er1, by rw [e2]; exact er2, er3⟩
      refine List.mem_filter.mpr ⟨List.mem_append_left _ hr', ?_⟩
      simp only [Bool.not_eq_true', List.any_eq_false, beq_iff_eq]
      intro x hx ex
      exact hno x hx (by rw [← er1, ex])
    · refine ⟨c2, hc2, e3.symm, ?_⟩
      rcases hyes with hy | ⟨old, ho, hy⟩
      · have := h3 r hr'
        omega
      · obtain ⟨m1, m2, m3⟩ := hrep old ho
        have : r = old := uid_inj h4 hr' m1 (by rw [er1, hy])
        subst this
        exact ⟨by rw [e2, ← m3]; exact er2, by rw [← m2]; exact er3⟩

/-- resolvability after the superseded candidates are dropped -/
theorem Res_supersede (a3 a4 : Agent) (replaced : List Cand) (h3 : Res a3)
    (hno : ∀ old ∈ replaced, ∀ p ∈ a3.checklist, p.r ≠ old.uid)
    (hl : a4.locals = a3.locals) (hc : a4.checklist = a3.checklist)
    (hr : a4.remotes = a3.remotes.filter fun e => !(replaced.any fun x => x.uid == e.uid)) : Res a4 := by
  intro p hp
  rw [hc] at hp
  obtain ⟨g1, g2⟩ := h3 p hp
  refine ⟨by unfold luids at g1 ⊢; rw [hl]; exact g1, ?_⟩
  unfold ruids at g2 ⊢
  rw [hr]
  obtain ⟨r, hr', er⟩ := List.mem_map.mp g2
  refine List.mem_map.mpr ⟨r, List.mem_filter.mpr ⟨hr', ?_⟩, er⟩
  simp only [Bool.not_eq_true', List.any_eq_false, beq_iff_eq]
  intro x hx ex
  exact hno x hx p hp (by rw [← er, ex])

/-- `addRemoteCandidate`: frame, invariant, the returned candidate is a current remote candidate and local
candidates are untouched. -/
theorem addRemote_spec (a : Agent) (c : Cand) (hi : InvA a) :
    Fr0 a (a.addRemoteCandidate c).1 ∧ InvA (a.addRemoteCandidate c).1 ∧
    luids (a.addRemoteCandidate c).1 = luids a ∧
    ∀ r, (a.addRemoteCandidate c).2.2 = some r → r.uid ∈ ruids (a.addRemoteCandidate c).1 := by
  unfold Agent.addRemoteCandidate
  split
  · exact ⟨Fr0.refl _, hi, rfl, fun r h => by cases h⟩
  · split
    · rename_i e he
      refine ⟨Fr0.refl _, hi, rfl, fun r h => ?_⟩
      cases h
      exact List.mem_map_of_mem (List.mem_filter.mp (List.mem_of_find?_eq_some he)).1
    · extract_lets c1 a1 replaced c2 a2 res a3 o a4 a5
      obtain ⟨hic, hib, hir⟩ := hi
      have hres : res = replaced.foldl (ssRound c2) (a2, []) := rfl
      have hc2a2 : c2.uid ∈ ruids a2 := by
        show c2.uid ∈ List.map _ (a.remotes ++ [c2])
        rw [List.map_append]
        exact List.mem_append_right _ (List.mem_singleton.mpr rfl)
      obtain ⟨s1, s0, s2, s3, s4, s5⟩ := supersede_spec c2 replaced (a2, []) hc2a2
      rw [← hres] at s1 s0 s2 s3 s4 s5
      have k2 : ckey c2 = ckey c1 := ckey_foldl_copyActivity replaced c1
      have hu : c2.uid = a.nextUid := congrArg (·.1) k2
      have hnet : c2.net = c.net := congrArg (·.2.1) k2
      have haddr : c2.addr = c.addr := congrArg (·.2.2) k2
      have hrep : ∀ old ∈ replaced, old ∈ a.remotes ∧ old.net = c2.net ∧ old.addr = c2.addr := by
        intro old ho
        unfold replaced at ho
        split at ho
        · cases ho
        · have := List.mem_filter.mp ho
          refine ⟨this.1, ?_⟩
          have h2 := this.2
          simp only [Cand.taEqual, Bool.and_eq_true, beq_iff_eq] at h2
          rw [hnet, haddr]
          exact ⟨h2.1.1, h2.2.1.2⟩
      have hrub := ((InvC_iff a).mp hic).2.2.1
      have hne : ∀ old ∈ replaced, c2.uid ≠ old.uid := by
        intro old ho
        have := hrub old (hrep old ho).1
        omega
      have hl4 : luids a4 = luids a := by
        show List.map _ a3.locals = _
        rw [s2]; rfl
      have hc2a4 : c2.uid ∈ ruids a4 := by
        refine List.mem_map_of_mem (f := (·.uid)) (a := c2) (List.mem_filter.mpr ⟨?_, ?_⟩)
        · show c2 ∈ a3.remotes
          rw [s3]
          exact List.mem_append_right _ List.mem_cons_self
        · simp only [Bool.not_eq_true', List.any_eq_false, beq_iff_eq]
          intro x hx e
          exact hne x hx e.symm
      have f02 : Fr0 a a2 := Fr0.of_fields rfl rfl rfl rfl rfl rfl
      have f34 : Fr0 a3 a4 := Fr0.of_fields rfl rfl rfl rfl rfl rfl
      have f45 : Fr a4 a5 ∧ luids a5 = luids a4 ∧ ruids a5 = ruids a4 := foldl_addPair_Fr _ _ _ (fun x l hl h1 h2 => by
        refine ⟨?_, ?_, ?_⟩
        · split
          · exact Fr.refl _
          · refine Fr.addPair _ _ _ ?_ ?_
            · rw [h1]; exact List.mem_map_of_mem (List.mem_filter.mp hl).1
            · rw [h2]; exact hc2a4
        · split <;> rfl
        · split <;> rfl)
      have f5 : Fr a5 a5.requestCheck := by fr_same
      have f04 : Fr0 a a4 := (f02.trans s1).trans f34
      -- invariant at a4
      have i4 : InvC a4 := InvC_supersede a a4 c2 replaced hic hu hrep s2 s4 (by
        show List.filter _ a3.remotes = _
        rw [s3]) s5
      have r2 : Res a2 := by
        intro p hp
        have := hir p hp
        refine ⟨this.1, ?_⟩
        show p.r ∈ List.map _ (a.remotes ++ [c2])
        rw [List.map_append]
        exact List.mem_append_left _ this.2
      have b2 : IdsBounded a2 := hib
      have hno := (supersede_noref c2 replaced (a2, []) b2 hc2a2 hne).1
      rw [← hres] at hno
      have r4 : Res a4 := Res_supersede a3 a4 replaced (s0 r2) hno rfl rfl rfl
      have f45t := f45.1.trans f5
      refine ⟨f04.trans f45t.toFr0, ⟨InvC_of_Fr f45t i4, f45t.bnd (f04.bnd hib), f45t.rsv r4⟩, ?_, ?_⟩
      · exact f45.2.1.trans hl4
      · intro r hr
        cases hr
        show c2.uid ∈ ruids a5
        rw [f45.2.2]
        exact hc2a4

theorem mem_ruids_of_findRemote {a : Agent} {net addr : Nat} {r : Cand} (h : a.findRemote net addr = some r) :
    r.uid ∈ ruids a := List.mem_map_of_mem (List.mem_of_find?_eq_some h)

theorem Ok_handleInbound (a : Agent) (now : Nat) (l : Cand) (src : Nat) (m : Msg) (hl : l.uid ∈ luids a) :
    Ok a (a.handleInbound now l src m).1 := by
  unfold Agent.handleInbound
  split
  · exact Ok.refl _
  · extract_lets rc cp
    have hrc : rc = a.findRemote l.net src := rfl
    clear_value rc cp
    split
    · split
      · exact Ok.refl _
      · split
        · exact Ok.refl _
        · dsimp only
          exact Ok.of_Fr ((Fr_handleSuccess _ _ _ _ _ _).trans (Fr.seenRemoteRecv _ _ _))
    · split
      · split
        · exact Ok.refl _
        · split
          · exact Ok.refl _
          · split
            rename_i a1 o0 rc1 heq
            intro hi
            have h1 : Fr0 a a1 ∧ InvA a1 ∧ luids a1 = luids a ∧ ∀ r, rc1 = some r → r.uid ∈ ruids a1 := by
              split at heq
              · rename_i r
                cases heq
                exact ⟨Fr0.refl _, hi, rfl, fun r' h => by cases h; exact mem_ruids_of_findRemote hrc.symm⟩
              · have := addRemote_spec a cp hi
                rw [heq] at this
                exact this
            obtain ⟨f1, i1, l1, r1⟩ := h1
            clear heq
            have hreq : ∀ r : Cand, r.uid ∈ ruids a1 → Fr a1 ((if a1.controlling = true then a1.ctlHandleRequest now m l r
                else a1.cldHandleRequest now m l r).1.seenRemoteRecv r.uid now) := by
              intro r hr
              refine Fr.trans ?_ (Fr.seenRemoteRecv _ _ _)
              split
              · exact Fr_ctlHandleRequest _ _ _ _ _ (by rw [l1]; exact hl) hr
              · exact Fr_cldHandleRequest _ _ _ _ _ (by rw [l1]; exact hl) hr
            suffices h : Fr a1 _ from ⟨f1.trans h.toFr0, (Ok.of_Fr h i1).2⟩
            split
            · exact Fr.refl _
            · rename_i r
              have hr := r1 r rfl
              split
              · split
                · split
                  · exact Fr.seenLocalSent _ _ _
                  · exact Fr.trans (b := { a1 with controlling := !a1.controlling }) (by fr_same) (Fr_resetSelector _ _)
                · exact hreq _ hr
              · exact hreq _ hr
      · split
        · exact Ok.of_Fr (Fr.seenRemoteRecv _ _ _)
        · exact Ok.refl _

/-- the four data-plane events -/
def isData : Ev → Bool
  | .write .. | .writeToPair .. | .inboundData .. | .read .. => true
  | _ => false

def isClose : Ev → Bool
  | .close => true
  | _ => false

theorem Ok_step (a : Agent) (e : Ev) (h : isData e = false) (hc : isClose e = false) : Ok a (step a e).1 := by
  cases e with
  | write | writeToPair | inboundData | read => simp [isData] at h
  | close => simp [isClose] at hc
  | addLocal now c =>
    unfold step
    dsimp only
    exact Ok.trans (addLocal_spec a c) (Ok.of_Fr (Fr_runForced _ _))
  | addRemote now c =>
    unfold step
    dsimp only
    split
    · exact Ok.refl _
    · split
      · exact Ok.refl _
      · exact Ok.trans (fun hi => ⟨(addRemote_spec a c hi).1, (addRemote_spec a c hi).2.1⟩) (Ok.of_Fr (Fr_runForced _ _))
  | start now ctl ru rp =>
    unfold step
    dsimp only
    repeat' split
    all_goals first | exact Ok.refl _ | skip
    apply Ok.of_Fr
    refine Fr.trans ?_ (Fr_runForced _ _)
    refine Fr.trans (b := ({ a with controlling := ctl, remoteUfrag := ru, remotePwd := rp, started := true } : Agent).resetSelector now) (by fr_same) ?_
    refine Fr.trans (Fr_setConnState _ .checking) (by fr_same)
  | setRemoteCreds ru rp =>
    unfold step
    dsimp only
    repeat' split
    all_goals first | exact Ok.refl _ | exact Ok.of_Fr (by fr_same)
  | advance now => exact Ok.of_Fr (Fr_runTimers _ _ _)
  | inbound now la src m =>
    unfold step
    dsimp only
    split
    · exact Ok.refl _
    · split
      · exact Ok.refl _
      · rename_i l hl
        have hl' : l.uid ∈ luids a := List.mem_map_of_mem (List.mem_of_find?_eq_some hl)
        exact Ok.trans (Ok_handleInbound _ _ _ _ _ hl') (Ok.of_Fr (Fr_runForced _ _))
  | renominate now la ri v =>
    unfold step
    dsimp only
    repeat' split
    all_goals first | exact Ok.refl _ | exact Ok.of_Fr ((Fr_sendRequest _ _ _ _ _ _).trans (by fr_same))
  | restart now u p =>
    unfold step
    dsimp only
    split
    · exact Ok.refl _
    · exact Ok.of_Fr (Fr_doRestart _ _ _ _)

/-- `Close`: frame (the agent becomes closed), candidate tables emptied -/
theorem close_spec (a : Agent) :
    Fr0 a (step a .close).1 ∧ (InvC a → InvC (step a .close).1) ∧ (step a .close).1.closed = true := by
  unfold step
  dsimp only
  split
  · rename_i h
    exact ⟨Fr0.refl _, id, h⟩
  · have h1 : Fr0 a { a with locals := [], remotes := [], caches := [], closed := true } :=
      ⟨rfl, rfl, rfl, Nat.le_refl _, fun _ q hq => Or.inl ⟨q, hq, rfl⟩, id, fun _ => rfl⟩
    have h2 := Fr_setConnState { a with locals := [], remotes := [], caches := [], closed := true } .closed
    refine ⟨h1.trans h2.toFr0, fun _ => InvC_of_Fr h2 ?_, h2.closed rfl⟩
    unfold InvC InvK
    simp

/-- a closed agent: every event is a frame step (nothing but `renominate` changes anything) -/
theorem step_closed (a : Agent) (e : Ev) (h : a.closed = true) : Fr a (step a e).1 := by
  cases e with
  | addLocal now c =>
    unfold step Agent.addLocalCandidate
    simp only [h, if_true]
    exact Fr_runForced _ _
  | addRemote now c => unfold step; simp only [h, if_true]; exact Fr.refl _
  | start now ctl ru rp => unfold step; simp only [h, if_true]; exact Fr.refl _
  | setRemoteCreds ru rp =>
    unfold step
    dsimp only
    repeat' split
    all_goals first | exact Fr.refl _ | (rename_i h'; exact absurd h h')
  | advance now => exact Fr_runTimers _ _ _
  | inbound now la src m => unfold step; simp only [h, Bool.true_or, if_true]; exact Fr.refl _
  | inboundData now la src len s => unfold step; simp only [h, Bool.true_or, if_true]; exact Fr.refl _
  | write now len s => unfold step Agent.write; simp only [h, if_true]; exact Fr.refl _
  | writeToPair now id len s => unfold step Agent.writeToPair; simp only [h, if_true]; exact Fr.refl _
  | read => unfold step; simp only [h, if_true]; exact Fr.refl _
  | renominate now la ri v =>
    unfold step
    dsimp only
    repeat' split
    all_goals first | exact Fr.refl _ | exact (Fr_sendRequest _ _ _ _ _ _).trans (by fr_same)
  | restart now u p => unfold step; simp only [h, if_true]; exact Fr.refl _
  | close => unfold step; simp only [h, if_true]; exact Fr.refl _

end IceProofs.AgentC07
