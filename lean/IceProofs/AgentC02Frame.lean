import IceModel.AgentCore
import IceProofs.AgentAuto
/-!
# Frame lemmas for C02: what the timer-driven part of the model never touches

`Frame a b` relates a state `a` to a later state `b`: `started`, `closed`, `forcePending`, `tag` are equal,
`nextTid` has not decreased, and every pending transaction of `b` is either one of `a`'s or has an id
at least `2 * a.nextTid + a.tag` (the next id `a` would issue).  It is reflexive and transitive and
holds across every function reached from `Agent.contact` (the tick closure).
`TidFrame` is the part about transaction ids only; it holds across every event of `step`.
-/
namespace IceProofs.AgentC02
open IceModel.AgentCore

structure TidFrame (a b : Agent) : Prop where
  tag : b.tag = a.tag
  tid : a.nextTid ≤ b.nextTid
  pend : ∀ pd ∈ b.pending, pd ∈ a.pending ∨ 2 * a.nextTid + a.tag ≤ pd.tid

structure Frame (a b : Agent) : Prop extends TidFrame a b where
  started : b.started = a.started
  closed : b.closed = a.closed
  fp : b.forcePending = a.forcePending

theorem TidFrame.refl (a : Agent) : TidFrame a a := ⟨rfl, Nat.le_refl _, fun _ h => Or.inl h⟩
theorem Frame.refl (a : Agent) : Frame a a := ⟨TidFrame.refl a, rfl, rfl, rfl⟩

theorem TidFrame.trans {a b c : Agent} (h1 : TidFrame a b) (h2 : TidFrame b c) : TidFrame a c where
  tag := h2.tag.trans h1.tag
  tid := Nat.le_trans h1.tid h2.tid
  pend := fun pd h => by
    rcases h2.pend pd h with h | h
    · exact h1.pend pd h
    · right
      have := h1.tid; have := h1.tag
      omega

theorem Frame.trans {a b c : Agent} (h1 : Frame a b) (h2 : Frame b c) : Frame a c :=
  ⟨h1.toTidFrame.trans h2.toTidFrame, h2.started.trans h1.started, h2.closed.trans h1.closed, h2.fp.trans h1.fp⟩

/-- a state that differs from `a` only in fields outside the frame, with a sub-list of `pending` -/
theorem TidFrame.of_fields {a b : Agent} (h4 : b.tag = a.tag) (h5 : b.nextTid = a.nextTid)
    (h6 : ∀ pd ∈ b.pending, pd ∈ a.pending) : TidFrame a b :=
  ⟨h4, Nat.le_of_eq h5.symm, fun pd h => Or.inl (h6 pd h)⟩

theorem Frame.of_fields {a b : Agent} (h1 : b.started = a.started) (h2 : b.closed = a.closed)
    (h3 : b.forcePending = a.forcePending) (h4 : b.tag = a.tag) (h5 : b.nextTid = a.nextTid)
    (h6 : ∀ pd ∈ b.pending, pd ∈ a.pending) : Frame a b :=
  ⟨TidFrame.of_fields h4 h5 h6, h1, h2, h3⟩

/-- `c` agrees with `b` on the framed fields -/
theorem Frame.congr {a b c : Agent} (h : Frame a b) (h1 : c.started = b.started) (h2 : c.closed = b.closed)
    (h3 : c.forcePending = b.forcePending) (h4 : c.tag = b.tag) (h5 : c.nextTid = b.nextTid)
    (h6 : c.pending = b.pending) : Frame a c :=
  h.trans (Frame.of_fields h1 h2 h3 h4 h5 (fun _ hp => h6 ▸ hp))

theorem frame_modPair (a : Agent) (id : Nat) (f : Pair → Pair) : Frame a (a.modPair id f) :=
  Frame.of_fields rfl rfl rfl rfl rfl (fun _ h => h)

theorem frame_wipe (a : Agent) : Frame a a.wipe :=
  Frame.of_fields rfl rfl rfl rfl rfl (fun _ h => by simp [Agent.wipe] at h)

theorem frame_setConnState (a : Agent) (s : ConnState) : Frame a (a.setConnState s).1 := by
  unfold Agent.setConnState
  split
  · exact Frame.refl a
  · split
    · exact (frame_wipe a).trans (Frame.of_fields rfl rfl rfl rfl rfl (fun _ h => h))
    · exact Frame.of_fields rfl rfl rfl rfl rfl (fun _ h => h)

theorem frame_select (a : Agent) (id : Nat) : Frame a (a.select id).1 := by
  unfold Agent.select
  dsimp only
  refine Frame.trans ?_ (frame_setConnState _ _)
  exact (frame_modPair a id fun p => { p with nominated := true }).congr rfl rfl rfl rfl rfl rfl

theorem frame_seenLocalSent (a : Agent) (uid now : Nat) : Frame a (a.seenLocalSent uid now) :=
  Frame.of_fields rfl rfl rfl rfl rfl (fun _ h => h)

theorem frame_seenRemoteRecv (a : Agent) (uid now : Nat) : Frame a (a.seenRemoteRecv uid now) :=
  Frame.of_fields rfl rfl rfl rfl rfl (fun _ h => h)

theorem frame_invalidatePending (a : Agent) (now : Nat) : Frame a (a.invalidatePending now) :=
  Frame.of_fields rfl rfl rfl rfl rfl (fun _ h => (List.mem_filter.mp h).1)

theorem frame_sendRequest (a : Agent) (now : Nat) (l r : Cand) (uc : Bool) (nom : Option Nat) :
    Frame a (a.sendRequest now l r uc nom).1 := by
  unfold Agent.sendRequest
  dsimp only
  refine Frame.trans ?_ (frame_seenLocalSent _ _ _)
  have h2 : Frame a { (a.invalidatePending now) with
      nextTid := (a.invalidatePending now).nextTid + 1,
      pending := (a.invalidatePending now).pending ++
        [{ tid := 2 * a.nextTid + a.tag, src := l.addr, dest := r.addr, net := r.net, useCand := uc, nom := nom, ts := now }] } := by
    refine ⟨⟨rfl, Nat.le_succ _, ?_⟩, rfl, rfl, rfl⟩
    intro pd h
    rcases List.mem_append.mp h with h | h
    · exact Or.inl (List.mem_filter.mp h).1
    · right
      have : pd.tid = 2 * a.nextTid + a.tag := by
        rw [List.mem_singleton.mp h]
      omega
  split
  · exact h2.trans (frame_modPair _ _ _)
  · exact h2

theorem foldl_frame {α : Type} (f : Agent × List Out → α → Agent × List Out) (xs : List α)
    (hf : ∀ acc x, Frame acc.1 (f acc x).1) (acc : Agent × List Out) : Frame acc.1 (xs.foldl f acc).1 := by
  induction xs generalizing acc with
  | nil => exact Frame.refl _
  | cons x xs ih => exact (hf acc x).trans (ih _)

theorem frame_ping (a : Agent) (now : Nat) (l r : Cand) : Frame a (a.ping now l r).1 :=
  frame_sendRequest a now l r false none

theorem frame_pingAll (a : Agent) (now : Nat) : Frame a (a.pingAll now).1 := by
  unfold Agent.pingAll
  refine foldl_frame _ _ ?_ (a, [])
  rintro ⟨a, o⟩ id
  dsimp only
  split
  · exact Frame.refl _
  · rename_i p hp
    split
    · -- Waiting → InProgress
      dsimp only
      have h1 := frame_modPair a id fun q => { q with state := .inProgress }
      split
      · exact h1
      · split
        · exact h1.trans (frame_modPair _ _ _)
        · split
          · exact h1.trans ((frame_ping _ _ _ _).trans (frame_modPair _ _ _))
          · exact h1
    · dsimp only
      split
      · exact Frame.refl _
      · split
        · exact frame_modPair _ _ _
        · split
          · exact (frame_ping _ _ _ _).trans (frame_modPair _ _ _)
          · exact Frame.refl _

theorem frame_validateSelected (a : Agent) (now : Nat) : Frame a (a.validateSelected now).1 := by
  unfold Agent.validateSelected
  split
  · exact Frame.refl _
  · dsimp only
    exact frame_setConnState _ _

theorem frame_keepalive (a : Agent) (now : Nat) : Frame a (a.keepalive now).1 := by
  unfold Agent.keepalive
  split
  · exact Frame.refl _
  · split
    · split
      · exact frame_ping _ _ _ _
      · exact Frame.refl _
    · exact Frame.refl _

theorem frame_nominate (a : Agent) (now : Nat) (p : Pair) : Frame a (a.nominate now p).1 := by
  unfold Agent.nominate
  split
  · exact frame_sendRequest _ _ _ _ _ _
  · exact Frame.refl _

theorem frame_validate_keepalive (a : Agent) (now : Nat) :
    Frame a (let (a, o, ok) := a.validateSelected now
      if ok then let (a, o') := a.keepalive now; (a, o ++ o') else (a, o)).1 := by
  have h := frame_validateSelected a now
  generalize a.validateSelected now = x at *
  obtain ⟨a1, o, ok⟩ := x
  dsimp only
  split
  · exact h.trans (frame_keepalive _ _)
  · exact h

theorem frame_autoRenom (a : Agent) (now : Nat) : Frame a (a.autoRenom now).1 := by
  refine IceProofs.Auto.autoRenom_parts (P := fun x => Frame a x.1) ?_ a (Frame.refl a)
  exact {
    mark := fun b _ id _ h _ _ => h.trans (frame_modPair b id _)
    ping := fun b _ l r h _ _ => h.trans (frame_ping b now l r)
    time := fun _ _ h => h.trans (Frame.of_fields rfl rfl rfl rfl rfl (fun _ h => h))
    count := fun _ _ h => h.trans (Frame.of_fields rfl rfl rfl rfl rfl (fun _ h => h))
    issue := fun b _ l r nom h _ _ _ _ _ => h.trans (frame_sendRequest b now l r true nom)
    log := fun _ _ _ h => h.trans (Frame.of_fields rfl rfl rfl rfl rfl (fun _ h => h)) }

theorem frame_validate_keepalive_auto (a : Agent) (now : Nat) :
    Frame a (let (a, o, ok) := a.validateSelected now
      if ok then let (a, o') := a.keepalive now; let (a, o'') := a.autoRenom now; (a, o ++ o' ++ o'') else (a, o)).1 := by
  have h := frame_validateSelected a now
  generalize a.validateSelected now = x at *
  obtain ⟨a1, o, ok⟩ := x
  dsimp only
  split
  · exact (h.trans (frame_keepalive _ _)).trans (frame_autoRenom _ _)
  · exact h

theorem frame_contactCandidates (a : Agent) (now : Nat) : Frame a (a.contactCandidates now).1 := by
  unfold Agent.contactCandidates
  split
  · split
    · exact frame_validate_keepalive_auto a now
    · split
      · exact frame_nominate _ _ _
      · split
        · exact Frame.refl _
        · split
          · split
            · split
              · refine Frame.trans ?_ (frame_nominate _ _ _)
                exact Frame.of_fields rfl rfl rfl rfl rfl (fun _ h => h)
              · exact frame_pingAll _ _
            · exact frame_pingAll _ _
          · exact frame_pingAll _ _
  · split
    · dsimp only
      exact frame_validateSelected a now
    · split
      · exact frame_validate_keepalive a now
      · exact frame_pingAll _ _

theorem frame_lastSeen (a : Agent) (s : ConnState) : Frame a { a with lastSeen := s } :=
  Frame.of_fields rfl rfl rfl rfl rfl (fun _ h => h)

theorem frame_contact (a : Agent) (now : Nat) : Frame a (a.contact now).1 := by
  unfold Agent.contact
  split
  · exact Frame.refl _
  · dsimp only
    have h1 : Frame a (if a.lastSeen != .checking then { a with checkingStart := now } else a) := by
      split
      · exact Frame.of_fields rfl rfl rfl rfl rfl (fun _ h => h)
      · exact Frame.refl _
    generalize (if a.lastSeen != .checking then { a with checkingStart := now } else a) = a1 at *
    split
    · exact frame_lastSeen _ _
    · split
      · exact (h1.trans (frame_setConnState _ _)).trans (frame_lastSeen _ _)
      · exact (h1.trans (frame_contactCandidates _ _)).trans (frame_lastSeen _ _)
    · exact (frame_contactCandidates _ _).trans (frame_lastSeen _ _)

theorem frame_nextTick (a : Agent) (t : Option Nat) : Frame a { a with nextTick := t } :=
  Frame.of_fields rfl rfl rfl rfl rfl (fun _ h => h)

theorem frame_runTimers (a : Agent) (now fuel : Nat) : Frame a (a.runTimers now fuel).1 := by
  induction fuel generalizing a with
  | zero => exact Frame.refl _
  | succ n ih =>
    unfold Agent.runTimers
    split
    · split
      · dsimp only
        exact ((frame_contact _ _).trans (frame_nextTick _ _)).trans (ih _)
      · exact Frame.refl _
    · exact Frame.refl _

/-- `runForced` either leaves the state alone (nothing forced) or clears `forcePending` for good. -/
theorem runForced_cases (a : Agent) (now : Nat) :
    (a.runForced now = (a, []) ∧ ¬ (a.started = true ∧ a.closed = false ∧ a.forcePending = true)) ∨
    ((a.runForced now).1.forcePending = false ∧ (a.runForced now).1.started = a.started ∧
      (a.runForced now).1.closed = a.closed) := by
  unfold Agent.runForced
  split
  · right
    dsimp only
    have h := frame_contact { a with forcePending := false } now
    exact ⟨h.fp, h.started, h.closed⟩
  · left
    rename_i h
    refine ⟨rfl, ?_⟩
    intro ⟨h1, h2, h3⟩
    simp [h1, h2, h3] at h

theorem tid_runForced (a : Agent) (now : Nat) : TidFrame a (a.runForced now).1 := by
  unfold Agent.runForced
  split
  · dsimp only
    have h := frame_contact { a with forcePending := false } now
    exact TidFrame.trans (b := { a with forcePending := false })
      (TidFrame.of_fields rfl rfl (fun _ h => h)) (h.trans (frame_nextTick _ _)).toTidFrame
  · exact TidFrame.refl _

/-! ## The rest of `step`: data plane, restart (full frame) -/

theorem frame_writeVia (a : Agent) (now : Nat) (p : Pair) (len : Nat) : Frame a (a.writeVia now p len).1 := by
  unfold Agent.writeVia
  split
  · dsimp only
    split
    · exact (frame_seenLocalSent _ _ _).trans (frame_modPair _ _ _)
    · exact frame_seenLocalSent _ _ _
  · exact Frame.refl _

theorem frame_write (a : Agent) (now len : Nat) (s : Bool) : Frame a (a.write now len s).1 := by
  unfold Agent.write
  split
  · exact Frame.refl _
  · split
    · exact Frame.refl _
    · split
      · exact Frame.refl _
      · dsimp only
        exact (frame_writeVia _ _ _ _).congr rfl rfl rfl rfl rfl rfl

theorem frame_writeToPair (a : Agent) (now id len : Nat) (s : Bool) : Frame a (a.writeToPair now id len s).1 := by
  unfold Agent.writeToPair
  split
  · exact Frame.refl _
  · split
    · exact Frame.refl _
    · split
      · exact Frame.refl _
      · split
        · exact Frame.refl _
        · exact frame_writeVia _ _ _ _

theorem frame_inboundData (a : Agent) (now : Nat) (l : Cand) (src len : Nat) :
    Frame a (a.inboundData now l src len).1 := by
  unfold Agent.inboundData Agent.enqueue
  dsimp only
  repeat' split
  all_goals first
    | exact Frame.refl _
    | exact Frame.of_fields rfl rfl rfl rfl rfl (fun _ h => h)

theorem frame_resetSelector (a : Agent) (now : Nat) : Frame a (a.resetSelector now) :=
  Frame.of_fields rfl rfl rfl rfl rfl (fun _ h => h)

theorem frame_doRestart (a : Agent) (now : Nat) (u p : String) : Frame a (a.doRestart now u p).1 := by
  unfold Agent.doRestart
  dsimp only
  have h : Frame a { (({ a with localUfrag := u, localPwd := p, remoteUfrag := "", remotePwd := "" } : Agent).wipe.resetSelector now) with
      generation := (({ a with localUfrag := u, localPwd := p, remoteUfrag := "", remotePwd := "" } : Agent).wipe.resetSelector now).generation + 1 } :=
    Frame.of_fields rfl rfl rfl rfl rfl (fun _ h => by simp [Agent.wipe, Agent.resetSelector] at h)
  split
  · exact h.trans (frame_setConnState _ _)
  · exact h

/-! ## Inbound STUN and candidate bookkeeping -/

theorem frame_addPair (a : Agent) (l r : Cand) : Frame a (a.addPair l r).1 :=
  Frame.of_fields rfl rfl rfl rfl rfl (fun _ h => h)

theorem frame_sendSuccess (a : Agent) (now : Nat) (m : Msg) (l r : Cand) : Frame a (a.sendSuccess now m l r).1 := by
  unfold Agent.sendSuccess
  dsimp only
  refine Frame.trans ?_ (frame_seenLocalSent _ _ _)
  split
  · exact frame_modPair _ _ _
  · exact Frame.refl _

theorem frame_replaceRemoteInPairs (a : Agent) (old c : Cand) : Frame a (a.replaceRemoteInPairs old c).1 := by
  unfold Agent.replaceRemoteInPairs
  refine foldl_frame _ _ ?_ (a, [])
  rintro ⟨a, o⟩ id
  dsimp only
  split
  · split
    · split
      · exact (frame_modPair _ _ _).trans (frame_select _ _)
      · exact frame_modPair _ _ _
    · exact Frame.refl _
  · exact Frame.refl _

theorem foldl_frame' {α : Type} (f : Agent → α → Agent) (xs : List α)
    (hf : ∀ a x, Frame a (f a x)) (a : Agent) : Frame a (xs.foldl f a) := by
  induction xs generalizing a with
  | nil => exact Frame.refl _
  | cons x xs ih => exact (hf a x).trans (ih _)

theorem frame_takePending (a : Agent) (now tid : Nat) : Frame a (a.takePending now tid).1 := by
  unfold Agent.takePending
  dsimp only
  split
  · exact (frame_invalidatePending a now).trans
      (Frame.of_fields rfl rfl rfl rfl rfl (fun _ h => (List.mem_filter.mp h).1))
  · exact frame_invalidatePending a now

theorem frame_answered (a : Agent) (v : Option Nat) : Frame a { a with answeredNomination := v } :=
  Frame.of_fields rfl rfl rfl rfl rfl (fun _ h => h)

theorem frame_handleSuccess (a : Agent) (now : Nat) (m : Msg) (l r : Cand) (src : Nat) :
    Frame a (a.handleSuccess now m l r src).1 := by
  unfold Agent.handleSuccess
  have h0 := frame_takePending a now m.tid
  generalize a.takePending now m.tid = x at *
  obtain ⟨a1, pend⟩ := x
  dsimp only at *
  split
  · exact h0
  · rename_i pd
    split
    · exact h0
    · split
      · exact h0
      · refine h0.trans ?_
        refine Frame.trans ?_ (frame_modPair _ _ _)
        rename_i p _
        have h2 := frame_modPair a1 p.id fun p =>
          { p with state := .succeeded, gResp := true, gRespUC := p.gRespUC || pd.useCand }
        generalize (a1.modPair p.id fun p =>
          { p with state := .succeeded, gResp := true, gRespUC := p.gRespUC || pd.useCand }) = a2 at *
        refine h2.trans ?_
        repeat' split
        all_goals first
          | exact Frame.refl _
          | exact frame_select _ _
          | exact (frame_answered _ _).trans (frame_select _ _)
          | exact frame_modPair _ _ _
          | exact (frame_select _ _).trans (frame_modPair _ _ _)

theorem frame_ctlHandleRequest (a : Agent) (now : Nat) (m : Msg) (l r : Cand) :
    Frame a (a.ctlHandleRequest now m l r).1 := by
  unfold Agent.ctlHandleRequest
  have h0 := frame_sendSuccess a now m l r
  generalize a.sendSuccess now m l r = x at *
  obtain ⟨a1, o⟩ := x
  dsimp only at *
  refine h0.trans ?_
  repeat' split
  all_goals first
    | exact frame_modPair _ _ _
    | exact (frame_addPair _ _ _).trans (frame_modPair _ _ _)
    | (refine Frame.trans ?_ (frame_nominate _ _ _)
       exact Frame.of_fields rfl rfl rfl rfl rfl (fun _ h => h))

theorem frame_lastNomination (a : Agent) (v : Option Nat) : Frame a { a with lastNomination := v } :=
  Frame.of_fields rfl rfl rfl rfl rfl (fun _ h => h)

/-- peel one model function off the outside of the state expression -/
macro "frame_peel" : tactic => `(tactic| first
  | exact Frame.refl _
  | refine Frame.trans ?_ (frame_modPair _ _ _)
  | refine Frame.trans ?_ (frame_select _ _)
  | refine Frame.trans ?_ (frame_sendSuccess _ _ _ _ _)
  | refine Frame.trans ?_ (frame_ping _ _ _ _)
  | refine Frame.trans ?_ (frame_addPair _ _ _)
  | refine Frame.trans ?_ (frame_lastNomination _ _))

/-! `cldHandleRequest` cut into its stages (the equation `cld_eq` is checked by `rfl`) -/

def cldFind (a : Agent) (l r : Cand) : Agent × Pair :=
  match a.findPair l r with
  | some p => (a, p)
  | none => a.addPair l r

def cldAccept (a : Agent) (m : Msg) : Agent × Bool :=
  if !(m.useCand || m.nom.isSome) then (a, true) else
  match m.nom with
  | none => (a, true)
  | some v =>
    match a.lastNomination with
    | none => ({ a with lastNomination := some v }, true)
    | some last => if v > last then ({ a with lastNomination := some v }, true) else (a, false)

def cldNominated (a : Agent) (m : Msg) (id : Nat) : Agent × List Out :=
  if (m.useCand || m.nom.isSome) then
    let a := if a.cfg.lite then a.modPair id fun p => { p with state := .succeeded } else a
    match a.pairById id with
    | none => (a, [])
    | some p =>
      if p.state == .succeeded then
        let sw := match a.selected.bind a.pairById with
          | none => true
          | some sp =>
            if sp.id == id then false
            else if m.nom.isSome then true
            else if a.lastNomination.isSome then false
            else !needsPrioCheck a.cfg || a.pairPrio sp < a.pairPrio p
        if sw then a.select id else (a, [])
      else if m.nom.isSome || p.deferredNom.isNone then
        (a.modPair id fun p => { p with nomOnSuccess := true, deferredNom := m.nom }, [])
      else (a, [])
  else (a, [])

def cldTrigger (a : Agent) (now : Nat) (l r : Cand) (id : Nat) : Agent × List Out :=
  match a.pairById id with
  | some p =>
    if !a.cfg.lite && (p.state != .succeeded || a.selected.isNone) then a.ping now l r else (a, [])
  | none => (a, [])

theorem cld_eq (a : Agent) (now : Nat) (m : Msg) (l r : Cand) :
    a.cldHandleRequest now m l r =
      (let x1 := cldFind a l r
       let id := x1.2.id
       let a2 := x1.1.modPair id fun p =>
         { p with reqRecv := p.reqRecv + 1, gReq := true, gNomReq := p.gNomReq || m.useCand || m.nom.isSome }
       let x3 := cldAccept a2 m
       if (m.useCand || m.nom.isSome) && !x3.2 then x3.1.sendSuccess now m l r
       else
         let x4 := cldNominated x3.1 m id
         let x5 := x4.1.sendSuccess now m l r
         let x6 := cldTrigger x5.1 now l r id
         (x6.1, x4.2 ++ x5.2 ++ x6.2)) := rfl

theorem frame_cldFind (a : Agent) (l r : Cand) : Frame a (cldFind a l r).1 := by
  unfold cldFind
  split
  · exact Frame.refl _
  · exact frame_addPair _ _ _

theorem frame_cldAccept (a : Agent) (m : Msg) : Frame a (cldAccept a m).1 := by
  unfold cldAccept
  repeat' split
  all_goals first
    | exact Frame.refl _
    | exact frame_lastNomination _ _

theorem frame_cldNominated (a : Agent) (m : Msg) (id : Nat) : Frame a (cldNominated a m id).1 := by
  unfold cldNominated
  split
  · dsimp only
    have h1 : Frame a (if a.cfg.lite then a.modPair id fun p => { p with state := .succeeded } else a) := by
      split
      · exact frame_modPair _ _ _
      · exact Frame.refl _
    generalize (if a.cfg.lite then a.modPair id fun p => { p with state := .succeeded } else a) = a1 at *
    refine h1.trans ?_
    repeat' split
    all_goals first
      | exact Frame.refl _
      | exact frame_select _ _
      | exact frame_modPair _ _ _
  · exact Frame.refl _

theorem frame_cldTrigger (a : Agent) (now : Nat) (l r : Cand) (id : Nat) : Frame a (cldTrigger a now l r id).1 := by
  unfold cldTrigger
  repeat' split
  all_goals first
    | exact Frame.refl _
    | exact frame_ping _ _ _ _

theorem frame_cldHandleRequest (a : Agent) (now : Nat) (m : Msg) (l r : Cand) :
    Frame a (a.cldHandleRequest now m l r).1 := by
  rw [cld_eq]
  dsimp only
  have h3 : Frame a (cldAccept ((cldFind a l r).1.modPair (cldFind a l r).2.id fun p =>
      { p with reqRecv := p.reqRecv + 1, gReq := true, gNomReq := p.gNomReq || m.useCand || m.nom.isSome }) m).1 :=
    ((frame_cldFind a l r).trans (frame_modPair _ _ _)).trans (frame_cldAccept _ _)
  split
  · exact h3.trans (frame_sendSuccess _ _ _ _ _)
  · exact ((h3.trans (frame_cldNominated _ _ _)).trans (frame_sendSuccess _ _ _ _ _)).trans (frame_cldTrigger _ _ _ _ _)

theorem tid_requestCheck (a : Agent) : TidFrame a a.requestCheck :=
  TidFrame.of_fields rfl rfl (fun _ h => h)

/-! `addRemoteCandidate` cut into its stages (`arc_eq` is checked by `rfl`) -/

def arcSupersede (a : Agent) (replaced : List Cand) (c : Cand) : Agent × List Out :=
  replaced.foldl (fun (acc : Agent × List Out) (old : Cand) =>
    let r := acc.1.replaceRemoteInPairs old c
    let a : Agent := r.1
    let a : Agent := { a with caches := a.caches.map fun (x : Nat × Nat × Nat) => if x.2.2 == old.uid then (x.1, x.2.1, c.uid) else x }
    (a, acc.2 ++ r.2)) (a, [])

def arcPairUp (a : Agent) (c : Cand) : Agent :=
  (a.locals.filter fun (x : Cand) => x.net == c.net && c.tt != 2).foldl (fun (a : Agent) (l : Cand) =>
    match a.findPair l c with
    | some _ => a
    | none => (a.addPair l c).1) a

theorem arc_eq (a : Agent) (c : Cand) :
    a.addRemoteCandidate c =
      (if a.cfg.blockedIPs.contains (ipOf c.addr) then (a, [], none)
       else
         match (a.remotes.filter (·.net == c.net)).find? (·.equal c) with
         | some e => (a, [], some e)
         | none =>
           let c0 := { c with uid := a.nextUid }
           let replaced := if c0.ty == 3 then [] else a.remotes.filter fun e => e.net == c0.net && e.ty == 3 && e.taEqual c0
           let c1 : Cand := replaced.foldl copyActivity c0
           let x := arcSupersede { a with nextUid := a.nextUid + 1, remotes := a.remotes ++ [c1] } replaced c1
           let a3 : Agent := { x.1 with remotes := x.1.remotes.filter fun (e : Cand) => !(replaced.any fun (x : Cand) => x.uid == e.uid) }
           ((arcPairUp a3 c1).requestCheck, x.2, some c1)) := rfl

theorem frame_arcSupersede (a : Agent) (replaced : List Cand) (c : Cand) : Frame a (arcSupersede a replaced c).1 := by
  unfold arcSupersede
  refine foldl_frame _ _ ?_ (a, [])
  intro acc old
  dsimp only
  exact (frame_replaceRemoteInPairs _ _ _).trans (Frame.of_fields rfl rfl rfl rfl rfl (fun _ h => h))

theorem frame_arcPairUp (a : Agent) (c : Cand) : Frame a (arcPairUp a c) := by
  unfold arcPairUp
  refine foldl_frame' _ _ ?_ _
  intro a l
  split
  · exact Frame.refl _
  · exact frame_addPair _ _ _

theorem frame_remotes (a : Agent) (rs : List Cand) : Frame a { a with remotes := rs } :=
  Frame.of_fields rfl rfl rfl rfl rfl (fun _ h => h)

theorem tid_addRemoteCandidate (a : Agent) (c : Cand) : TidFrame a (a.addRemoteCandidate c).1 := by
  rw [arc_eq]
  split
  · exact TidFrame.refl _
  · split
    · exact TidFrame.refl _
    · dsimp only
      refine TidFrame.trans (Frame.toTidFrame ?_) (tid_requestCheck _)
      refine Frame.trans ?_ (frame_arcPairUp _ _)
      refine Frame.trans ?_ (frame_remotes _ _)
      refine Frame.trans ?_ (frame_arcSupersede _ _ _)
      exact Frame.of_fields rfl rfl rfl rfl rfl (fun _ h => h)

theorem tid_addLocalCandidate (a : Agent) (c : Cand) : TidFrame a (a.addLocalCandidate c).1 := by
  unfold Agent.addLocalCandidate
  split
  · exact TidFrame.refl _
  · split
    · exact TidFrame.refl _
    · dsimp only
      refine TidFrame.trans (Frame.toTidFrame ?_) (tid_requestCheck _)
      refine Frame.trans ?_ (foldl_frame' _ _ (fun a r => frame_addPair a _ r) _)
      exact Frame.of_fields rfl rfl rfl rfl rfl (fun _ h => h)

theorem frame_controlling (a : Agent) (b : Bool) : Frame a { a with controlling := b } :=
  Frame.of_fields rfl rfl rfl rfl rfl (fun _ h => h)

theorem frame_handleRequest (a : Agent) (now : Nat) (m : Msg) (l r : Cand) :
    Frame a (if a.controlling then a.ctlHandleRequest now m l r else a.cldHandleRequest now m l r).1 := by
  split
  · exact frame_ctlHandleRequest _ _ _ _ _
  · exact frame_cldHandleRequest _ _ _ _ _

/-! the authenticated-request branch of `handleInbound` cut into stages (`handleInbound_eq` is checked by `rfl`) -/

def hiDiscover (a : Agent) (l : Cand) (src : Nat) (m : Msg) : Agent × List Out × Option Cand :=
  match a.findRemote l.net src with
  | some r => (a, [], some r)
  | none =>
    let c : Cand := { uid := 0, ty := 3, net := l.net, addr := src, comp := l.comp, rel := some 0,
                      prio := match m.prio with | some p => if p == 0 then prflxPriority l.net l.comp else p | none => prflxPriority l.net l.comp }
    a.addRemoteCandidate c

def hiRequest (a : Agent) (now : Nat) (l : Cand) (m : Msg) (o0 : List Out) (rc : Option Cand) : Agent × List Out :=
  match rc with
  | none => (a, o0)
  | some r =>
    match m.role with
    | some (ctl, tb) =>
      if ctl == a.controlling then
        if roleConflictKeeps a.controlling a.tieBreaker tb then
          let a := a.seenLocalSent l.uid now
          (a, o0 ++ [.dgram l.addr r.addr { cls := 3, tid := m.tid, key := some a.localPwd, errCode := some 487 }])
        else
          (({ a with controlling := !a.controlling }).resetSelector now, o0)
      else
        let (a, o) := if a.controlling then a.ctlHandleRequest now m l r else a.cldHandleRequest now m l r
        (a.seenRemoteRecv r.uid now, o0 ++ o)
    | none =>
      let (a, o) := if a.controlling then a.ctlHandleRequest now m l r else a.cldHandleRequest now m l r
      (a.seenRemoteRecv r.uid now, o0 ++ o)

theorem handleInbound_eq (a : Agent) (now : Nat) (l : Cand) (src : Nat) (m : Msg) :
    a.handleInbound now l src m =
      (if !(m.method == 1 && (m.cls == 2 || m.cls == 0 || m.cls == 1)) then (a, [])
       else if m.cls == 2 then
         if m.key != some a.remotePwd then (a, [])
         else match a.findRemote l.net src with
           | none => (a, [])
           | some r => ((a.handleSuccess now m l r src).1.seenRemoteRecv r.uid now, (a.handleSuccess now m l r src).2)
       else if m.cls == 0 then
         if m.user != some (a.localUfrag ++ ":" ++ a.remoteUfrag) then (a, [])
         else if m.key != some a.localPwd then (a, [])
         else
           let x := hiDiscover a l src m
           hiRequest x.1 now l m x.2.1 x.2.2
       else
         match a.findRemote l.net src with
         | some r => (a.seenRemoteRecv r.uid now, [])
         | none => (a, [])) := rfl

theorem tid_hiDiscover (a : Agent) (l : Cand) (src : Nat) (m : Msg) : TidFrame a (hiDiscover a l src m).1 := by
  unfold hiDiscover
  split
  · exact TidFrame.refl _
  · exact tid_addRemoteCandidate _ _

theorem frame_hiRequest (a : Agent) (now : Nat) (l : Cand) (m : Msg) (o0 : List Out) (rc : Option Cand) :
    Frame a (hiRequest a now l m o0 rc).1 := by
  unfold hiRequest
  dsimp only
  repeat' split
  all_goals first
    | exact Frame.refl _
    | exact frame_seenLocalSent _ _ _
    | exact (frame_controlling _ _).trans (frame_resetSelector _ _)
    | exact (frame_ctlHandleRequest _ _ _ _ _).trans (frame_seenRemoteRecv _ _ _)
    | exact (frame_cldHandleRequest _ _ _ _ _).trans (frame_seenRemoteRecv _ _ _)

theorem tid_handleInbound (a : Agent) (now : Nat) (l : Cand) (src : Nat) (m : Msg) :
    TidFrame a (a.handleInbound now l src m).1 := by
  rw [handleInbound_eq]
  repeat' split
  all_goals first
    | exact TidFrame.refl _
    | exact (frame_seenRemoteRecv _ _ _).toTidFrame
    | exact ((frame_handleSuccess _ _ _ _ _ _).trans (frame_seenRemoteRecv _ _ _)).toTidFrame
    | exact (tid_hiDiscover _ _ _ _).trans (frame_hiRequest _ _ _ _ _ _).toTidFrame
