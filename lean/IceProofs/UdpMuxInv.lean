import IceProofs.UdpMuxBasic
/-!
The state invariant `Inv` of the sequential UDP-mux model, `Inv init`, and one preservation lemma per
operation.
-/
namespace IceProofs.UdpMux
open IceModel.UdpMux

/-- the family map of the connection's own key still points to it -/
def registered (m : Mux) (c : Nat) : Prop :=
  m.conns4.get? (m.conn c).key = some c ∨ m.conns6.get? (m.conn c).key = some c

/-- number of open handles on connection `c` -/
def openCount (m : Mux) (c : Nat) : Nat :=
  cnt (fun h => decide (m.hconn h = c) && !m.hclosed h) m.nhandles

structure Inv (m : Mux) : Prop where
  /-- family maps have no duplicate keys -/
  wf4 : AMap.WF m.conns4
  wf6 : AMap.WF m.conns6
  /-- family maps are consistent: an entry `u ↦ c` points to an existing connection created under
  `u` in that family -/
  fam4 : ∀ u c, m.conns4.get? u = some c → c < m.nconns ∧ (m.conn c).key = u ∧ (m.conn c).v6 = false
  fam6 : ∀ u c, m.conns6.get? u = some c → c < m.nconns ∧ (m.conn c).key = u ∧ (m.conn c).v6 = true
  /-- an address-map entry points to an existing connection whose address list contains the address -/
  amap : ∀ a c, m.addrMap a = some c → c < m.nconns ∧ a ∈ (m.conn c).addrs
  /-- the address-list entries of a registered connection map back to it (a taken-over address
  leaves the list) -/
  back : ∀ c a, c < m.nconns → registered m c → a ∈ (m.conn c).addrs → m.addrMap a = some c
  hnd : ∀ h, h < m.nhandles → m.hconn h < m.nconns
  /-- `refs` counts the open handles -/
  refs : ∀ c, c < m.nconns → (m.conn c).refs = (openCount m c : Int)
  /-- a closed connection holds no packet -/
  cfifo : ∀ c, (m.conn c).closed = true → (m.conn c).fifo = []
  /-- once its watcher has run, a connection is closed, unregistered and owns no address binding -/
  watched : ∀ c, c < m.nconns → (m.conn c).watched = true →
    (m.conn c).closed = true ∧ ¬ registered m c ∧ ∀ a, m.addrMap a ≠ some c
  /-- an open connection is registered -/
  openReg : ∀ c, c < m.nconns → (m.conn c).closed = false → registered m c
  muxClosed : m.closed = true → m.conns4 = [] ∧ m.conns6 = []

theorem inv_init : Inv init := by
  constructor <;> simp [init, AMap.WF, AMap.get?_nil, emptyConn]

/-! ## helpers -/

theorem registered_congr {m m' : Mux} (c : Nat) (h4 : m'.conns4 = m.conns4) (h6 : m'.conns6 = m.conns6)
    (hk : (m'.conn c).key = (m.conn c).key) : registered m' c ↔ registered m c := by
  simp [registered, h4, h6, hk]

theorem openCount_ge (m : Mux) (hi : Inv m) (c : Nat) (hc : m.nconns ≤ c) : openCount m c = 0 := by
  unfold openCount
  rw [cnt_zero_iff]
  intro h hh
  have := hi.hnd h hh
  have : m.hconn h ≠ c := by omega
  simp [this]

/-- a closed mux has only closed connections -/
theorem all_closed_of_muxClosed (m : Mux) (hi : Inv m) (hc : m.closed = true) (c : Nat) (h : c < m.nconns) :
    (m.conn c).closed = true := by
  cases hcl : (m.conn c).closed
  · have := hi.openReg c h hcl
    obtain ⟨h4, h6⟩ := hi.muxClosed hc
    simp [registered, h4, h6, AMap.get?_nil] at this
  · rfl


/-! ## `addHandle` -/

theorem addHandle_conn (m : Mux) (c c' : Nat) :
    (addHandle m c).conn c' = if c' = c then { m.conn c with refs := (m.conn c).refs + 1 } else m.conn c' := rfl

@[simp] theorem addHandle_key (m : Mux) (c c' : Nat) : ((addHandle m c).conn c').key = (m.conn c').key := by
  rw [addHandle_conn]; split <;> (try subst_vars) <;> rfl
@[simp] theorem addHandle_v6 (m : Mux) (c c' : Nat) : ((addHandle m c).conn c').v6 = (m.conn c').v6 := by
  rw [addHandle_conn]; split <;> (try subst_vars) <;> rfl
@[simp] theorem addHandle_addrs (m : Mux) (c c' : Nat) : ((addHandle m c).conn c').addrs = (m.conn c').addrs := by
  rw [addHandle_conn]; split <;> (try subst_vars) <;> rfl
@[simp] theorem addHandle_fifo (m : Mux) (c c' : Nat) : ((addHandle m c).conn c').fifo = (m.conn c').fifo := by
  rw [addHandle_conn]; split <;> (try subst_vars) <;> rfl
@[simp] theorem addHandle_closed (m : Mux) (c c' : Nat) : ((addHandle m c).conn c').closed = (m.conn c').closed := by
  rw [addHandle_conn]; split <;> (try subst_vars) <;> rfl
@[simp] theorem addHandle_watched (m : Mux) (c c' : Nat) : ((addHandle m c).conn c').watched = (m.conn c').watched := by
  rw [addHandle_conn]; split <;> (try subst_vars) <;> rfl
@[simp] theorem addHandle_conns4 (m : Mux) (c : Nat) : (addHandle m c).conns4 = m.conns4 := rfl
@[simp] theorem addHandle_conns6 (m : Mux) (c : Nat) : (addHandle m c).conns6 = m.conns6 := rfl
@[simp] theorem addHandle_addrMap (m : Mux) (c : Nat) : (addHandle m c).addrMap = m.addrMap := rfl
@[simp] theorem addHandle_nconns (m : Mux) (c : Nat) : (addHandle m c).nconns = m.nconns := rfl
@[simp] theorem addHandle_mclosed (m : Mux) (c : Nat) : (addHandle m c).closed = m.closed := rfl
@[simp] theorem addHandle_nhandles (m : Mux) (c : Nat) : (addHandle m c).nhandles = m.nhandles + 1 := rfl

theorem addHandle_registered (m : Mux) (c c' : Nat) : registered (addHandle m c) c' ↔ registered m c' := by
  simp [registered]

theorem addHandle_openCount (m : Mux) (c c' : Nat) :
    openCount (addHandle m c) c' = openCount m c' + (if c' = c then 1 else 0) := by
  unfold openCount
  simp only [addHandle_nhandles, cnt]
  have h1 : cnt (fun h => decide ((addHandle m c).hconn h = c') && !(addHandle m c).hclosed h) m.nhandles
      = cnt (fun h => decide (m.hconn h = c') && !m.hclosed h) m.nhandles := by
    apply cnt_congr
    intro i hi
    have : i ≠ m.nhandles := by omega
    simp [addHandle, upd_ne, this]
  rw [h1]
  simp only [addHandle, upd_same]
  by_cases h : c' = c
  · subst h; simp
  · have : ¬ c = c' := fun e => h e.symm
    simp [h, this]

theorem inv_addHandle (m : Mux) (hi : Inv m) (c : Nat) (hc : c < m.nconns) : Inv (addHandle m c) where
  wf4 := hi.wf4
  wf6 := hi.wf6
  fam4 := by intro u c' h; simpa using hi.fam4 u c' h
  fam6 := by intro u c' h; simpa using hi.fam6 u c' h
  amap := by intro a c' h; simpa using hi.amap a c' h
  back := by
    intro c' a h1 h2 h3
    rw [addHandle_registered] at h2
    simpa using hi.back c' a h1 h2 (by simpa using h3)
  hnd := by
    intro h hh
    simp only [addHandle_nhandles] at hh
    simp only [addHandle, upd_apply]
    split
    · exact hc
    · exact hi.hnd h (by omega)
  refs := by
    intro c' h
    rw [addHandle_openCount, addHandle_conn]
    have := hi.refs c' h
    by_cases e : c' = c
    · subst e; simp [this]
    · simp [e, this]
  cfifo := by intro c' h; simpa using hi.cfifo c' (by simpa using h)
  watched := by
    intro c' h1 h2
    have := hi.watched c' h1 (by simpa using h2)
    simpa [addHandle_registered] using this
  openReg := by
    intro c' h1 h2
    rw [addHandle_registered]
    exact hi.openReg c' h1 (by simpa using h2)
  muxClosed := hi.muxClosed

/-! ## `getConn` -/

/-- the state after `GetConn` created a connection, before the handle is made -/
def mkConn (m : Mux) (u : Name) (v6 : Bool) : Mux :=
  { m with
    nconns := m.nconns + 1
    conn := upd m.conn m.nconns { emptyConn with key := u, v6 := v6 }
    conns4 := if v6 then m.conns4 else m.conns4.set u m.nconns
    conns6 := if v6 then m.conns6.set u m.nconns else m.conns6 }

theorem getConn_eq (m : Mux) (u : Name) (v6 : Bool) :
    getConn m u v6 =
      if m.closed then (m, .errClosed) else
      match (famMap m v6).get? u with
      | some c => (addHandle m c, .conn m.nhandles c)
      | none => (addHandle (mkConn m u v6) m.nconns, .conn m.nhandles m.nconns) := rfl

theorem mkConn_conn_old (m : Mux) (u : Name) (v6 : Bool) (c : Nat) (h : c < m.nconns) :
    (mkConn m u v6).conn c = m.conn c := by
  simp [mkConn, upd_ne _ _ (Nat.ne_of_lt h)]

theorem mkConn_conn_new (m : Mux) (u : Name) (v6 : Bool) :
    (mkConn m u v6).conn m.nconns = { emptyConn with key := u, v6 := v6 } := by
  simp [mkConn]

theorem mkConn_get4 (m : Mux) (u : Name) (v6 : Bool) (x : Name) :
    (mkConn m u v6).conns4.get? x = if v6 = false ∧ x = u then some m.nconns else m.conns4.get? x := by
  cases v6 <;> simp [mkConn, AMap.get?_set]

theorem mkConn_get6 (m : Mux) (u : Name) (v6 : Bool) (x : Name) :
    (mkConn m u v6).conns6.get? x = if v6 = true ∧ x = u then some m.nconns else m.conns6.get? x := by
  cases v6 <;> simp [mkConn, AMap.get?_set]

/-- for an old connection, being registered is unchanged by the creation of a new one under a free key -/
theorem mkConn_registered_old (m : Mux) (_hi : Inv m) (u : Name) (v6 : Bool)
    (hfree : (famMap m v6).get? u = none) (c : Nat) (h : c < m.nconns) :
    registered (mkConn m u v6) c ↔ registered m c := by
  unfold registered
  rw [mkConn_conn_old m u v6 c h, mkConn_get4, mkConn_get6]
  have hne : m.nconns ≠ c := by omega
  constructor
  · rintro (h4 | h6)
    · split at h4
      · injection h4 with h4; exact absurd h4 hne
      · exact Or.inl h4
    · split at h6
      · injection h6 with h6; exact absurd h6 hne
      · exact Or.inr h6
  · rintro (h4 | h6)
    · left
      split
      · next hh =>
        obtain ⟨hv, hk⟩ := hh
        subst hv
        simp only [famMap] at hfree
        rw [hk] at h4; simp [h4] at hfree
      · exact h4
    · right
      split
      · next hh =>
        obtain ⟨hv, hk⟩ := hh
        subst hv
        simp only [famMap] at hfree
        rw [hk] at h6; simp [h6] at hfree
      · exact h6

theorem mkConn_openCount (m : Mux) (u : Name) (v6 : Bool) (c : Nat) :
    openCount (mkConn m u v6) c = openCount m c := rfl

theorem inv_mkConn (m : Mux) (hi : Inv m) (u : Name) (v6 : Bool) (hcl : m.closed = false)
    (hfree : (famMap m v6).get? u = none) : Inv (mkConn m u v6) where
  wf4 := by
    cases v6
    · exact AMap.wf_set _ hi.wf4 _ _
    · exact hi.wf4
  wf6 := by
    cases v6
    · exact hi.wf6
    · exact AMap.wf_set _ hi.wf6 _ _
  fam4 := by
    intro x c h
    rw [mkConn_get4] at h
    split at h
    · next hh =>
      injection h with h; subst h
      rw [mkConn_conn_new]
      exact ⟨Nat.lt_succ_self _, hh.2.symm, hh.1⟩
    · obtain ⟨h1, h2, h3⟩ := hi.fam4 x c h
      rw [mkConn_conn_old m u v6 c h1]
      exact ⟨Nat.lt_succ_of_lt h1, h2, h3⟩
  fam6 := by
    intro x c h
    rw [mkConn_get6] at h
    split at h
    · next hh =>
      injection h with h; subst h
      rw [mkConn_conn_new]
      exact ⟨Nat.lt_succ_self _, hh.2.symm, hh.1⟩
    · obtain ⟨h1, h2, h3⟩ := hi.fam6 x c h
      rw [mkConn_conn_old m u v6 c h1]
      exact ⟨Nat.lt_succ_of_lt h1, h2, h3⟩
  amap := by
    intro a c h
    obtain ⟨h1, h2⟩ := hi.amap a c h
    rw [mkConn_conn_old m u v6 c h1]
    exact ⟨Nat.lt_succ_of_lt h1, h2⟩
  back := by
    intro c a h1 h2 h3
    by_cases e : c = m.nconns
    · subst e; rw [mkConn_conn_new] at h3; simp [emptyConn] at h3
    · have hc : c < m.nconns := by simp only [mkConn] at h1; omega
      rw [mkConn_conn_old m u v6 c hc] at h3
      exact hi.back c a hc ((mkConn_registered_old m hi u v6 hfree c hc).mp h2) h3
  hnd := by
    intro h hh
    exact Nat.lt_succ_of_lt (hi.hnd h hh)
  refs := by
    intro c h
    rw [mkConn_openCount]
    by_cases e : c = m.nconns
    · subst e; rw [mkConn_conn_new, openCount_ge m hi _ (Nat.le_refl _)]; rfl
    · have hc : c < m.nconns := by simp only [mkConn] at h; omega
      rw [mkConn_conn_old m u v6 c hc]; exact hi.refs c hc
  cfifo := by
    intro c h
    by_cases e : c = m.nconns
    · subst e; rw [mkConn_conn_new]; rfl
    · simp only [mkConn, upd_ne _ _ e] at h ⊢; exact hi.cfifo c h
  watched := by
    intro c h1 h2
    by_cases e : c = m.nconns
    · subst e; rw [mkConn_conn_new] at h2; simp [emptyConn] at h2
    · have hc : c < m.nconns := by simp only [mkConn] at h1; omega
      rw [mkConn_conn_old m u v6 c hc] at h2 ⊢
      rw [mkConn_registered_old m hi u v6 hfree c hc]
      exact hi.watched c hc h2
  openReg := by
    intro c h1 h2
    by_cases e : c = m.nconns
    · subst e
      unfold registered
      rw [mkConn_conn_new, mkConn_get4, mkConn_get6]
      cases v6 <;> simp
    · have hc : c < m.nconns := by simp only [mkConn] at h1; omega
      rw [mkConn_conn_old m u v6 c hc] at h2
      rw [mkConn_registered_old m hi u v6 hfree c hc]
      exact hi.openReg c hc h2
  muxClosed := by
    intro h
    have : m.closed = true := h
    rw [hcl] at this; cases this

theorem inv_getConn (m : Mux) (hi : Inv m) (u : Name) (v6 : Bool) : Inv (getConn m u v6).1 := by
  rw [getConn_eq]
  cases hcl : m.closed
  · simp only [Bool.false_eq_true, if_false]
    cases hg : (famMap m v6).get? u with
    | some c =>
      have hc : c < m.nconns := by
        cases v6
        · exact (hi.fam4 u c hg).1
        · exact (hi.fam6 u c hg).1
      exact inv_addHandle m hi c hc
    | none =>
      exact inv_addHandle _ (inv_mkConn m hi u v6 hcl hg) _ (Nat.lt_succ_self _)
  · simpa using hi

/-! ## `writeTo` / `addAddress` -/

/-- connection record after `addAddress m c a` (mux open) -/
def addrConn (m : Mux) (c : Nat) (a : Addr) (c' : Nat) : Conn :=
  let k0 : Conn := if c' = c then { m.conn c with addrs := (m.conn c).addrs ++ [a] } else m.conn c'
  if m.addrMap a = some c' then removeAddress k0 a else k0

theorem addAddress_eq (m : Mux) (c : Nat) (a : Addr) (hcl : m.closed = false)
    (hopen : (m.conn c).closed = false) (hnew : a ∉ (m.conn c).addrs) (hne : m.addrMap a ≠ some c) :
    addAddress m c a =
      { m with conn := addrConn m c a, addrMap := fun k => if k = a then some c else m.addrMap k } := by
  unfold addAddress registerConnForAddress
  simp only [hcl, hopen, Bool.false_eq_true, if_false]
  cases hm : m.addrMap a with
  | none =>
    simp only
    congr 1
    funext c'
    simp only [addrConn, hm, upd_apply, appendAddress, hnew, if_false]
    split <;> simp_all
  | some e =>
    have hec : ¬ e = c := fun x => hne (by rw [hm, x])
    simp only [hec, if_false]
    congr 1
    funext c'
    have hce : ¬ c = e := fun x => hec x.symm
    simp only [addrConn, hm, upd_apply, Option.some.injEq, hce, if_false, appendAddress, hnew]
    by_cases h1 : c' = c
    · subst h1; simp; intro x; exact absurd x hec
    · by_cases h2 : c' = e
      · subst h2; simp [h1]
      · have : ¬ e = c' := fun x => h2 x.symm
        simp [h1, h2, this]

theorem addrConn_key (m : Mux) (c : Nat) (a : Addr) (c' : Nat) : (addrConn m c a c').key = (m.conn c').key := by
  unfold addrConn removeAddress; dsimp only; split <;> split <;> (try subst_vars) <;> rfl
theorem addrConn_v6 (m : Mux) (c : Nat) (a : Addr) (c' : Nat) : (addrConn m c a c').v6 = (m.conn c').v6 := by
  unfold addrConn removeAddress; dsimp only; split <;> split <;> (try subst_vars) <;> rfl
theorem addrConn_fifo (m : Mux) (c : Nat) (a : Addr) (c' : Nat) : (addrConn m c a c').fifo = (m.conn c').fifo := by
  unfold addrConn removeAddress; dsimp only; split <;> split <;> (try subst_vars) <;> rfl
theorem addrConn_closed (m : Mux) (c : Nat) (a : Addr) (c' : Nat) : (addrConn m c a c').closed = (m.conn c').closed := by
  unfold addrConn removeAddress; dsimp only; split <;> split <;> (try subst_vars) <;> rfl
theorem addrConn_refs (m : Mux) (c : Nat) (a : Addr) (c' : Nat) : (addrConn m c a c').refs = (m.conn c').refs := by
  unfold addrConn removeAddress; dsimp only; split <;> split <;> (try subst_vars) <;> rfl
theorem addrConn_watched (m : Mux) (c : Nat) (a : Addr) (c' : Nat) : (addrConn m c a c').watched = (m.conn c').watched := by
  unfold addrConn removeAddress; dsimp only; split <;> split <;> (try subst_vars) <;> rfl

/-- membership in the address list after `addAddress` -/
theorem addrConn_mem (m : Mux) (c : Nat) (a : Addr) (c' : Nat) (x : Addr) :
    x ∈ (addrConn m c a c').addrs ↔
      (x ∈ (m.conn c').addrs ∨ (c' = c ∧ x = a)) ∧ (m.addrMap a = some c' → x ≠ a) := by
  unfold addrConn removeAddress
  dsimp only
  by_cases h1 : m.addrMap a = some c' <;> by_cases h2 : c' = c
  · subst h2; simp [h1, List.mem_filter]; intro h3 h4; exact absurd h4 h3
  · simp [h1, h2, List.mem_filter]
  · subst h2; simp [h1]
  · simp [h1, h2]

theorem inv_addAddress (m : Mux) (hi : Inv m) (c : Nat) (a : Addr) (hcl : m.closed = false)
    (hc : c < m.nconns) (hopen : (m.conn c).closed = false) (hnew : a ∉ (m.conn c).addrs) :
    Inv (addAddress m c a) := by
  have hnotc0 : m.addrMap a ≠ some c := fun h => hnew (hi.amap a c h).2
  rw [addAddress_eq m c a hcl hopen hnew hnotc0]
  have hreg : ∀ c', registered { m with conn := addrConn m c a, addrMap := fun k => if k = a then some c else m.addrMap k } c'
      ↔ registered m c' := by
    intro c'; simp [registered, addrConn_key]
  have hnotc : m.addrMap a ≠ some c := fun h => hnew (hi.amap a c h).2
  constructor
  · exact hi.wf4
  · exact hi.wf6
  · intro u c' h; simpa [addrConn_key, addrConn_v6] using hi.fam4 u c' h
  · intro u c' h; simpa [addrConn_key, addrConn_v6] using hi.fam6 u c' h
  · -- amap
    intro k c' h
    dsimp only at h ⊢
    rw [addrConn_mem]
    by_cases hk : k = a
    · subst hk
      simp only [if_true, Option.some.injEq] at h
      subst h
      exact ⟨hc, Or.inr ⟨rfl, rfl⟩, fun h' => absurd h' hnotc⟩
    · simp only [hk, if_false] at h
      obtain ⟨h1, h2⟩ := hi.amap k c' h
      exact ⟨h1, Or.inl h2, fun _ => hk⟩
  · -- back
    intro c' x h1 h2 h3
    dsimp only at h1 h3 ⊢
    rw [hreg] at h2
    rw [addrConn_mem] at h3
    obtain ⟨h3a, h3b⟩ := h3
    by_cases hx : x = a
    · subst hx
      simp only [if_true, Option.some.injEq]
      rcases h3a with h | ⟨h, _⟩
      · exact absurd rfl (h3b (hi.back c' x h1 h2 h))
      · exact h.symm
    · simp only [hx, if_false]
      rcases h3a with h | ⟨_, h⟩
      · exact hi.back c' x h1 h2 h
      · exact absurd h hx
  · exact hi.hnd
  · intro c' h
    dsimp only at h ⊢
    rw [addrConn_refs]
    exact hi.refs c' h
  · intro c' h
    dsimp only at h ⊢
    rw [addrConn_closed] at h; rw [addrConn_fifo]; exact hi.cfifo c' h
  · -- watched
    intro c' h1 h2
    dsimp only at h1 h2 ⊢
    rw [addrConn_watched] at h2
    rw [addrConn_closed, hreg]
    obtain ⟨w1, w2, w3⟩ := hi.watched c' h1 h2
    refine ⟨w1, w2, ?_⟩
    intro k
    by_cases hk : k = a
    · subst hk
      simp only [if_true, ne_eq, Option.some.injEq]
      intro e; subst e; rw [hopen] at w1; cases w1
    · simp only [hk, if_false]; exact w3 k
  · intro c' h1 h2
    dsimp only at h1 h2 ⊢
    rw [addrConn_closed] at h2
    rw [hreg]; exact hi.openReg c' h1 h2
  · exact hi.muxClosed

theorem writeTo_state (m : Mux) (h : Nat) (dst : Addr) :
    (writeTo m h dst).1 =
      if h ≥ m.nhandles then m else if m.hclosed h then m else
      if (m.conn (m.hconn h)).closed then m else
      if canonAddr dst ∈ (m.conn (m.hconn h)).addrs then m else addAddress m (m.hconn h) (canonAddr dst) := by
  unfold writeTo
  split
  · rfl
  · split
    · rfl
    · dsimp only
      split
      · rfl
      · split <;> rfl

theorem inv_writeTo (m : Mux) (hi : Inv m) (h : Nat) (dst : Addr) : Inv (writeTo m h dst).1 := by
  rw [writeTo_state]
  split
  · exact hi
  · next hh =>
    split
    · exact hi
    · split
      · exact hi
      · next hop =>
        split
        · exact hi
        · next hnew =>
          have hc := hi.hnd h (by omega)
          have hop' : (m.conn (m.hconn h)).closed = false := by simpa using hop
          have hcl : m.closed = false := by
            cases hm : m.closed
            · rfl
            · have := all_closed_of_muxClosed m hi hm _ hc
              rw [hop'] at this; cases this
          exact inv_addAddress m hi _ _ hcl hc hop' hnew

/-! ## updates of connection records that keep key, family, address list, refs and watcher flag -/

theorem inv_conn_update (m : Mux) (hi : Inv m) (f : Nat → Conn)
    (hkey : ∀ c, (f c).key = (m.conn c).key) (hv6 : ∀ c, (f c).v6 = (m.conn c).v6)
    (haddrs : ∀ c, (f c).addrs = (m.conn c).addrs) (hrefs : ∀ c, (f c).refs = (m.conn c).refs)
    (hwatched : ∀ c, (f c).watched = (m.conn c).watched)
    (hclosed : ∀ c, (m.conn c).closed = true → (f c).closed = true)
    (hfifo : ∀ c, (f c).closed = true → (f c).fifo = []) : Inv { m with conn := f } := by
  have hreg : ∀ c, registered { m with conn := f } c ↔ registered m c := by
    intro c; simp [registered, hkey]
  constructor
  · exact hi.wf4
  · exact hi.wf6
  · intro u c h; simpa [hkey, hv6] using hi.fam4 u c h
  · intro u c h; simpa [hkey, hv6] using hi.fam6 u c h
  · intro a c h; simpa [haddrs] using hi.amap a c h
  · intro c a h1 h2 h3
    rw [hreg] at h2
    dsimp only at h3; rw [haddrs] at h3
    exact hi.back c a h1 h2 h3
  · exact hi.hnd
  · intro c h; dsimp only; rw [hrefs]; exact hi.refs c h
  · intro c h; exact hfifo c h
  · intro c h1 h2
    dsimp only at h2; rw [hwatched] at h2
    obtain ⟨w1, w2, w3⟩ := hi.watched c h1 h2
    rw [hreg]
    exact ⟨hclosed c w1, w2, w3⟩
  · intro c h1 h2
    rw [hreg]
    apply hi.openReg c h1
    cases hc : (m.conn c).closed
    · rfl
    · have := hclosed c hc
      dsimp only at h2; rw [h2] at this; cases this
  · exact hi.muxClosed

theorem closeC_key (k : Conn) : (closeC k).key = k.key := by unfold closeC; split <;> rfl
theorem closeC_v6 (k : Conn) : (closeC k).v6 = k.v6 := by unfold closeC; split <;> rfl
theorem closeC_addrs (k : Conn) : (closeC k).addrs = k.addrs := by unfold closeC; split <;> rfl
theorem closeC_refs (k : Conn) : (closeC k).refs = k.refs := by unfold closeC; split <;> rfl
theorem closeC_watched (k : Conn) : (closeC k).watched = k.watched := by unfold closeC; split <;> rfl
theorem closeC_closed (k : Conn) : (closeC k).closed = true := by
  unfold closeC; split
  · assumption
  · rfl
theorem closeC_fifo (k : Conn) (h : k.closed = true → k.fifo = []) : (closeC k).fifo = [] := by
  unfold closeC; split
  · next hc => exact h hc
  · rfl

/-- closing any set of connections preserves the invariant -/
theorem inv_closeSet (m : Mux) (hi : Inv m) (p : Nat → Prop) [DecidablePred p] :
    Inv { m with conn := fun i => if p i then closeC (m.conn i) else m.conn i } := by
  apply inv_conn_update m hi
  · intro c; split <;> simp [closeC_key]
  · intro c; split <;> simp [closeC_v6]
  · intro c; split <;> simp [closeC_addrs]
  · intro c; split <;> simp [closeC_refs]
  · intro c; split <;> simp [closeC_watched]
  · intro c h; split
    · exact closeC_closed _
    · exact h
  · intro c h; split
    · exact closeC_fifo _ (hi.cfifo c)
    · next hp => rw [if_neg hp] at h; exact hi.cfifo c h

/-! ## `inbound`, `read` -/

theorem inv_inbound (m : Mux) (hi : Inv m) (src : Addr) (k : Kind) (pid : Nat) : Inv (inbound m src k pid).1 := by
  unfold inbound
  split
  · exact hi
  · dsimp only
    split
    · exact hi
    · next c _ =>
      split
      · exact hi
      · next hop =>
        apply inv_conn_update m hi
        · intro c'; rw [upd_apply]; split <;> (try subst_vars) <;> rfl
        · intro c'; rw [upd_apply]; split <;> (try subst_vars) <;> rfl
        · intro c'; rw [upd_apply]; split <;> (try subst_vars) <;> rfl
        · intro c'; rw [upd_apply]; split <;> (try subst_vars) <;> rfl
        · intro c'; rw [upd_apply]; split <;> (try subst_vars) <;> rfl
        · intro c' h; rw [upd_apply]; split
          · subst_vars; exact h
          · exact h
        · intro c' h; rw [upd_apply] at h ⊢; split
          · next e => subst e; simp at h; exact absurd h hop
          · next e => rw [if_neg e] at h; exact hi.cfifo c' h

theorem inv_read (m : Mux) (hi : Inv m) (h : Nat) : Inv (IceModel.UdpMux.read m h).1 := by
  unfold IceModel.UdpMux.read
  split
  · exact hi
  · split
    · exact hi
    · dsimp only
      split
      · next p rest hq =>
        apply inv_conn_update m hi
        · intro c'; rw [upd_apply]; split <;> (try subst_vars) <;> rfl
        · intro c'; rw [upd_apply]; split <;> (try subst_vars) <;> rfl
        · intro c'; rw [upd_apply]; split <;> (try subst_vars) <;> rfl
        · intro c'; rw [upd_apply]; split <;> (try subst_vars) <;> rfl
        · intro c'; rw [upd_apply]; split <;> (try subst_vars) <;> rfl
        · intro c' hc; rw [upd_apply]; split
          · subst_vars; exact hc
          · exact hc
        · intro c' hc; rw [upd_apply] at hc ⊢; split
          · next e =>
            subst e; simp at hc
            have := hi.cfifo _ hc
            rw [hq] at this; cases this
          · next e => rw [if_neg e] at hc; exact hi.cfifo c' hc
      · exact hi

/-! ## `closeHandle` -/

/-- first half of `sharedPacketConn.Close`: cancel the handle's context, `refs.Add(-1)` -/
def dropRef (m : Mux) (h : Nat) : Mux :=
  { m with hclosed := upd m.hclosed h true
           conn := upd m.conn (m.hconn h) { m.conn (m.hconn h) with refs := (m.conn (m.hconn h)).refs - 1 } }

theorem dropRef_conn (m : Mux) (h c' : Nat) :
    (dropRef m h).conn c' =
      if c' = m.hconn h then { m.conn (m.hconn h) with refs := (m.conn (m.hconn h)).refs - 1 } else m.conn c' := rfl

theorem dropRef_openCount (m : Mux) (h : Nat) (hh : h < m.nhandles) (hop : m.hclosed h = false) (c' : Nat) :
    openCount (dropRef m h) c' + (if c' = m.hconn h then 1 else 0) = openCount m c' := by
  unfold openCount
  by_cases e : c' = m.hconn h
  · subst e
    simp only [if_true]
    apply cnt_off _ _ _ h hh
    · simp [hop]
    · simp [dropRef]
    · intro i hi; simp only [dropRef, upd_ne _ _ hi]; rfl
  · simp only [e, if_false, Nat.add_zero]
    apply cnt_congr
    intro i _
    by_cases hi : i = h
    · subst hi
      have : ¬ m.hconn i = c' := fun x => e x.symm
      simp [dropRef, this]
    · simp only [dropRef, upd_ne _ _ hi]; rfl

theorem inv_dropRef (m : Mux) (hi : Inv m) (h : Nat) (hh : h < m.nhandles) (hop : m.hclosed h = false) :
    Inv (dropRef m h) := by
  have hkey : ∀ c', ((dropRef m h).conn c').key = (m.conn c').key := by
    intro c'; rw [dropRef_conn]; split <;> (try subst_vars) <;> rfl
  have hreg : ∀ c', registered (dropRef m h) c' ↔ registered m c' := by
    intro c'; simp only [registered, hkey]; rfl
  constructor
  · exact hi.wf4
  · exact hi.wf6
  · intro u c' hg
    obtain ⟨h1, h2, h3⟩ := hi.fam4 u c' hg
    refine ⟨h1, (hkey c').trans h2, ?_⟩
    rw [dropRef_conn]; split
    · subst_vars; exact h3
    · exact h3
  · intro u c' hg
    obtain ⟨h1, h2, h3⟩ := hi.fam6 u c' hg
    refine ⟨h1, (hkey c').trans h2, ?_⟩
    rw [dropRef_conn]; split
    · subst_vars; exact h3
    · exact h3
  · intro a c' hg
    obtain ⟨h1, h2⟩ := hi.amap a c' hg
    refine ⟨h1, ?_⟩
    rw [dropRef_conn]; split
    · subst_vars; exact h2
    · exact h2
  · intro c' a h1 h2 h3
    rw [hreg] at h2
    apply hi.back c' a h1 h2
    rw [dropRef_conn] at h3; split at h3
    · subst_vars; exact h3
    · exact h3
  · exact hi.hnd
  · intro c' hc
    have h1 := dropRef_openCount m h hh hop c'
    have h2 := hi.refs c' hc
    rw [dropRef_conn]
    by_cases e : c' = m.hconn h
    · subst e
      simp only [if_true] at h1 ⊢
      omega
    · simp only [e, if_false, Nat.add_zero] at h1 ⊢
      rw [h2, h1]
  · intro c' hc
    rw [dropRef_conn] at hc ⊢; split
    · next e => subst e; rw [if_pos rfl] at hc; exact hi.cfifo _ hc
    · next e => rw [if_neg e] at hc; exact hi.cfifo _ hc
  · intro c' h1 h2
    rw [hreg]
    have hw : (m.conn c').watched = true := by
      rw [dropRef_conn] at h2; split at h2
      · subst_vars; exact h2
      · exact h2
    obtain ⟨w1, w2, w3⟩ := hi.watched c' h1 hw
    refine ⟨?_, w2, w3⟩
    rw [dropRef_conn]; split
    · subst_vars; exact w1
    · exact w1
  · intro c' h1 h2
    rw [hreg]
    apply hi.openReg c' h1
    rw [dropRef_conn] at h2; split at h2
    · subst_vars; exact h2
    · exact h2
  · exact hi.muxClosed

theorem closeHandle_state (m : Mux) (h : Nat) :
    (closeHandle m h).1 =
      if h ≥ m.nhandles then m else if m.hclosed h then m else
      { dropRef m h with
        conn := fun i => if i = m.hconn h ∧ ((dropRef m h).conn i).refs ≤ 0
                         then closeC ((dropRef m h).conn i) else (dropRef m h).conn i } := by
  unfold closeHandle
  split
  · rfl
  · split
    · rfl
    · simp only [dropRef]
      congr 1
      funext i
      by_cases e : i = m.hconn h
      · subst e; simp
      · simp [upd_ne _ _ e, e]

theorem inv_closeHandle (m : Mux) (hi : Inv m) (h : Nat) : Inv (closeHandle m h).1 := by
  rw [closeHandle_state]
  split
  · exact hi
  · next hh =>
    split
    · exact hi
    · next hop =>
      exact inv_closeSet _ (inv_dropRef m hi h (by omega) (by simpa using hop)) _

/-! ## `watcherRun` -/

/-- identity-based removal from a family map -/
def wmap (mp : AMap) (key : Name) (c : Nat) : AMap := if mp.get? key = some c then mp.del key else mp

theorem wmap_get? (mp : AMap) (key : Name) (c : Nat) (x : Name) :
    (wmap mp key c).get? x = if x = key ∧ mp.get? key = some c then none else mp.get? x := by
  unfold wmap
  by_cases h : mp.get? key = some c
  · simp only [h, if_true, and_true, AMap.get?_del]
  · simp [h]

theorem wmap_wf (mp : AMap) (hw : AMap.WF mp) (key : Name) (c : Nat) : AMap.WF (wmap mp key c) := by
  unfold wmap; split
  · exact AMap.wf_del _ hw _
  · exact hw

/-- the state after the watcher of `c` ran -/
def reap (m : Mux) (c : Nat) : Mux :=
  { m with
    conn := upd m.conn c { m.conn c with watched := true }
    conns4 := wmap m.conns4 (m.conn c).key c
    conns6 := wmap m.conns6 (m.conn c).key c
    addrMap := fun a => if a ∈ (m.conn c).addrs ∧ m.addrMap a = some c then none else m.addrMap a }

theorem watcherRun_state (m : Mux) (c : Nat) :
    (watcherRun m c).1 =
      if c ≥ m.nconns then m else if !(m.conn c).closed || (m.conn c).watched then m else reap m c := by
  unfold watcherRun
  split
  · rfl
  · dsimp only
    split <;> rfl

theorem reap_conn (m : Mux) (c c' : Nat) :
    (reap m c).conn c' = if c' = c then { m.conn c with watched := true } else m.conn c' := rfl

theorem reap_key (m : Mux) (c c' : Nat) : ((reap m c).conn c').key = (m.conn c').key := by
  rw [reap_conn]; split <;> (try subst_vars) <;> rfl
theorem reap_v6 (m : Mux) (c c' : Nat) : ((reap m c).conn c').v6 = (m.conn c').v6 := by
  rw [reap_conn]; split <;> (try subst_vars) <;> rfl
theorem reap_addrs (m : Mux) (c c' : Nat) : ((reap m c).conn c').addrs = (m.conn c').addrs := by
  rw [reap_conn]; split <;> (try subst_vars) <;> rfl
theorem reap_fifo (m : Mux) (c c' : Nat) : ((reap m c).conn c').fifo = (m.conn c').fifo := by
  rw [reap_conn]; split <;> (try subst_vars) <;> rfl
theorem reap_closed (m : Mux) (c c' : Nat) : ((reap m c).conn c').closed = (m.conn c').closed := by
  rw [reap_conn]; split <;> (try subst_vars) <;> rfl
theorem reap_refs (m : Mux) (c c' : Nat) : ((reap m c).conn c').refs = (m.conn c').refs := by
  rw [reap_conn]; split <;> (try subst_vars) <;> rfl
theorem reap_watched (m : Mux) (c c' : Nat) :
    ((reap m c).conn c').watched = (if c' = c then true else (m.conn c').watched) := by
  rw [reap_conn]; split <;> (try subst_vars) <;> rfl

theorem reap_get4 (m : Mux) (c : Nat) (x : Name) :
    (reap m c).conns4.get? x = if x = (m.conn c).key ∧ m.conns4.get? (m.conn c).key = some c then none else m.conns4.get? x :=
  wmap_get? _ _ _ _
theorem reap_get6 (m : Mux) (c : Nat) (x : Name) :
    (reap m c).conns6.get? x = if x = (m.conn c).key ∧ m.conns6.get? (m.conn c).key = some c then none else m.conns6.get? x :=
  wmap_get? _ _ _ _

theorem reap_registered (m : Mux) (c c' : Nat) : registered (reap m c) c' ↔ registered m c' ∧ c' ≠ c := by
  unfold registered
  rw [reap_key, reap_get4, reap_get6]
  constructor
  · rintro (h | h)
    · split at h
      · cases h
      · next hn =>
        refine ⟨Or.inl h, ?_⟩
        intro e; subst e; exact hn ⟨rfl, h⟩
    · split at h
      · cases h
      · next hn =>
        refine ⟨Or.inr h, ?_⟩
        intro e; subst e; exact hn ⟨rfl, h⟩
  · rintro ⟨h | h, hne⟩
    · left
      rw [if_neg]
      · exact h
      · rintro ⟨e1, e2⟩
        rw [← e1, h] at e2; injection e2 with e2; exact hne e2
    · right
      rw [if_neg]
      · exact h
      · rintro ⟨e1, e2⟩
        rw [← e1, h] at e2; injection e2 with e2; exact hne e2

theorem inv_reap (m : Mux) (hi : Inv m) (c : Nat) (hc : c < m.nconns) (hcl : (m.conn c).closed = true) :
    Inv (reap m c) := by
  constructor
  · exact wmap_wf _ hi.wf4 _ _
  · exact wmap_wf _ hi.wf6 _ _
  · intro u c' h
    rw [reap_get4] at h; split at h
    · cases h
    · rw [reap_key, reap_v6]; exact hi.fam4 u c' h
  · intro u c' h
    rw [reap_get6] at h; split at h
    · cases h
    · rw [reap_key, reap_v6]; exact hi.fam6 u c' h
  · intro a c' h
    simp only [reap] at h
    split at h
    · cases h
    · rw [reap_addrs]; exact hi.amap a c' h
  · intro c' a h1 h2 h3
    rw [reap_registered] at h2
    rw [reap_addrs] at h3
    have := hi.back c' a h1 h2.1 h3
    simp only [reap]
    rw [if_neg]
    · exact this
    · rintro ⟨_, e⟩
      rw [this] at e; injection e with e; exact h2.2 e
  · exact hi.hnd
  · intro c' h; rw [reap_refs]; exact hi.refs c' h
  · intro c' h; rw [reap_closed] at h; rw [reap_fifo]; exact hi.cfifo c' h
  · intro c' h1 h2
    rw [reap_closed, reap_registered]
    rw [reap_watched] at h2
    by_cases e : c' = c
    · subst e
      refine ⟨hcl, fun h => h.2 rfl, ?_⟩
      intro a h
      simp only [reap] at h
      split at h
      · cases h
      · next hn => exact hn ⟨(hi.amap a c' h).2, h⟩
    · simp only [e, if_false] at h2
      obtain ⟨w1, w2, w3⟩ := hi.watched c' h1 h2
      refine ⟨w1, fun h => w2 h.1, ?_⟩
      intro a h
      simp only [reap] at h
      split at h
      · cases h
      · exact w3 a h
  · intro c' h1 h2
    rw [reap_closed] at h2
    rw [reap_registered]
    refine ⟨hi.openReg c' h1 h2, ?_⟩
    intro e; subst e; rw [hcl] at h2; cases h2
  · intro h
    obtain ⟨h4, h6⟩ := hi.muxClosed h
    simp only [reap, wmap, h4, h6]
    constructor <;> (split <;> rfl)

theorem inv_watcherRun (m : Mux) (hi : Inv m) (c : Nat) : Inv (watcherRun m c).1 := by
  rw [watcherRun_state]
  split
  · exact hi
  · next hc =>
    split
    · exact hi
    · next hh =>
      simp only [Bool.or_eq_true, Bool.not_eq_true', not_or, Bool.not_eq_false] at hh
      exact inv_reap m hi c (by omega) hh.1

/-! ## `closeMux` -/

theorem registered_mem_vals (m : Mux) (c : Nat) (h : registered m c) : c ∈ m.conns4.vals ++ m.conns6.vals := by
  rcases h with h | h
  · exact List.mem_append_left _ (List.mem_map.mpr ⟨(_, c), AMap.mem_of_get? _ _ _ h, rfl⟩)
  · exact List.mem_append_right _ (List.mem_map.mpr ⟨(_, c), AMap.mem_of_get? _ _ _ h, rfl⟩)

theorem mem_vals_registered (m : Mux) (hi : Inv m) (c : Nat) (h : c ∈ m.conns4.vals ++ m.conns6.vals) :
    registered m c ∧ c < m.nconns := by
  rcases List.mem_append.mp h with h | h
  · obtain ⟨k, hk⟩ := (AMap.mem_vals_iff _ hi.wf4 c).mp h
    obtain ⟨h1, h2, _⟩ := hi.fam4 k c hk
    exact ⟨Or.inl (by rw [h2]; exact hk), h1⟩
  · obtain ⟨k, hk⟩ := (AMap.mem_vals_iff _ hi.wf6 c).mp h
    obtain ⟨h1, h2, _⟩ := hi.fam6 k c hk
    exact ⟨Or.inr (by rw [h2]; exact hk), h1⟩

/-- emptying the family maps of a state whose connections are all closed -/
theorem inv_clearMaps (m : Mux) (hi : Inv m) (hall : ∀ c, c < m.nconns → (m.conn c).closed = true) :
    Inv { m with conns4 := [], conns6 := [], closed := true } := by
  have hreg : ∀ c, ¬ registered { m with conns4 := [], conns6 := [], closed := true } c := by
    intro c h; simp [registered, AMap.get?_nil] at h
  constructor
  · exact AMap.wf_nil
  · exact AMap.wf_nil
  · intro u c h; simp [AMap.get?_nil] at h
  · intro u c h; simp [AMap.get?_nil] at h
  · exact hi.amap
  · intro c a _ h2 _; exact absurd h2 (hreg c)
  · exact hi.hnd
  · exact hi.refs
  · exact hi.cfifo
  · intro c h1 h2
    obtain ⟨w1, _, w3⟩ := hi.watched c h1 h2
    exact ⟨w1, hreg c, w3⟩
  · intro c h1 h2
    have := hall c h1
    dsimp only at h2; rw [h2] at this; cases this
  · intro _; exact ⟨rfl, rfl⟩

theorem closeMux_eq (m : Mux) :
    closeMux m =
      if m.closed then m else
      { ({ m with conn := fun i => if i ∈ m.conns4.vals ++ m.conns6.vals then closeC (m.conn i) else m.conn i } : Mux) with
        conns4 := [], conns6 := [], closed := true } := rfl

theorem inv_closeMux (m : Mux) (hi : Inv m) : Inv (closeMux m) := by
  rw [closeMux_eq]
  split
  · exact hi
  · apply inv_clearMaps _ (inv_closeSet m hi _)
    intro c hc
    dsimp only at hc ⊢
    split
    · exact closeC_closed _
    · next hn =>
      cases hcl : (m.conn c).closed
      · exact absurd (registered_mem_vals m c (hi.openReg c hc hcl)) hn
      · rfl

/-! ## `removeByUfrag` -/

theorem closeOpt_eq (m : Mux) (r : Option Nat) :
    closeOpt m r = { m with conn := fun i => if r = some i then closeC (m.conn i) else m.conn i } := by
  cases r with
  | none => simp [closeOpt]
  | some c =>
    simp only [closeOpt]
    congr 1
    funext i
    by_cases e : i = c
    · subst e; simp
    · have : ¬ c = i := fun x => e x.symm
      simp [upd_ne _ _ e, this]

theorem inv_closeOpt (m : Mux) (hi : Inv m) (r : Option Nat) : Inv (closeOpt m r) := by
  rw [closeOpt_eq]; exact inv_closeSet m hi _

@[simp] theorem closeOpt_conns4 (m : Mux) (r : Option Nat) : (closeOpt m r).conns4 = m.conns4 := by cases r <;> rfl
@[simp] theorem closeOpt_conns6 (m : Mux) (r : Option Nat) : (closeOpt m r).conns6 = m.conns6 := by cases r <;> rfl
@[simp] theorem closeOpt_addrMap (m : Mux) (r : Option Nat) : (closeOpt m r).addrMap = m.addrMap := by cases r <;> rfl
@[simp] theorem closeOpt_nconns (m : Mux) (r : Option Nat) : (closeOpt m r).nconns = m.nconns := by cases r <;> rfl
@[simp] theorem closeOpt_nhandles (m : Mux) (r : Option Nat) : (closeOpt m r).nhandles = m.nhandles := by cases r <;> rfl
@[simp] theorem closeOpt_hconn (m : Mux) (r : Option Nat) : (closeOpt m r).hconn = m.hconn := by cases r <;> rfl
@[simp] theorem closeOpt_hclosed (m : Mux) (r : Option Nat) : (closeOpt m r).hclosed = m.hclosed := by cases r <;> rfl
@[simp] theorem closeOpt_mclosed (m : Mux) (r : Option Nat) : (closeOpt m r).closed = m.closed := by cases r <;> rfl

theorem closeOpt_conn (m : Mux) (r : Option Nat) (i : Nat) :
    (closeOpt m r).conn i = if r = some i then closeC (m.conn i) else m.conn i := by
  rw [closeOpt_eq]

@[simp] theorem closeOpt_key (m : Mux) (r : Option Nat) (i : Nat) : ((closeOpt m r).conn i).key = (m.conn i).key := by
  rw [closeOpt_conn]; split <;> simp [closeC_key]
@[simp] theorem closeOpt_v6 (m : Mux) (r : Option Nat) (i : Nat) : ((closeOpt m r).conn i).v6 = (m.conn i).v6 := by
  rw [closeOpt_conn]; split <;> simp [closeC_v6]
@[simp] theorem closeOpt_addrs (m : Mux) (r : Option Nat) (i : Nat) : ((closeOpt m r).conn i).addrs = (m.conn i).addrs := by
  rw [closeOpt_conn]; split <;> simp [closeC_addrs]
@[simp] theorem closeOpt_refs (m : Mux) (r : Option Nat) (i : Nat) : ((closeOpt m r).conn i).refs = (m.conn i).refs := by
  rw [closeOpt_conn]; split <;> simp [closeC_refs]
@[simp] theorem closeOpt_watched (m : Mux) (r : Option Nat) (i : Nat) : ((closeOpt m r).conn i).watched = (m.conn i).watched := by
  rw [closeOpt_conn]; split <;> simp [closeC_watched]

theorem closeOpt_closed (m : Mux) (r : Option Nat) (i : Nat) :
    ((closeOpt m r).conn i).closed = (decide (r = some i) || (m.conn i).closed) := by
  rw [closeOpt_conn]
  by_cases h : r = some i
  · simp [h, closeC_closed]
  · simp [h]

@[simp] theorem addrsOf_closeOpt (m : Mux) (r r' : Option Nat) : addrsOf (closeOpt m r) r' = addrsOf m r' := by
  cases r' <;> simp [addrsOf]

/-- drop the family-map entries of `u` and the address bindings listed in `l4`, `l6` -/
def unreg (m : Mux) (u : Name) (l4 l6 : List Addr) : Mux :=
  { m with conns4 := m.conns4.del u, conns6 := m.conns6.del u,
           addrMap := fun k => if k ∈ l6 then none else if k ∈ l4 then none else m.addrMap k }

def delAddrs (m : Mux) (l : List Addr) : Mux :=
  { m with addrMap := fun k => if k ∈ l then none else m.addrMap k }

/-- `removeByUfrag` with UNCONDITIONAL deletion of the listed addresses (what the code did before the F18
fix); equal to `removeByUfrag` in every state satisfying `Inv` (`removeByUfrag_eq_U`). -/
def removeByUfragU (m : Mux) (u : Name) : Mux :=
  let r4 := m.conns4.get? u
  let r6 := m.conns6.get? u
  let m1 : Mux := { m with conns4 := m.conns4.del u, conns6 := m.conns6.del u }
  closeOpt (closeOpt (delAddrs (delAddrs m1 (addrsOf m r4)) (addrsOf m r6)) r4) r6

theorem removeByUfrag_eq_U (m : Mux) (hi : Inv m) (u : Name) : removeByUfrag m u = removeByUfragU m u := by
  unfold removeByUfrag removeByUfragU
  dsimp only
  congr 2
  simp only [delOwned, delAddrs]
  congr 1
  funext k
  have h4 : ∀ c4, m.conns4.get? u = some c4 → k ∈ (m.conn c4).addrs → m.addrMap k = some c4 := by
    intro c4 g hm
    obtain ⟨f1, f2, _⟩ := hi.fam4 u c4 g
    exact hi.back c4 k f1 (Or.inl (by rw [f2]; exact g)) hm
  have h6 : ∀ c6, m.conns6.get? u = some c6 → k ∈ (m.conn c6).addrs → m.addrMap k = some c6 := by
    intro c6 g hm
    obtain ⟨f1, f2, _⟩ := hi.fam6 u c6 g
    exact hi.back c6 k f1 (Or.inr (by rw [f2]; exact g)) hm
  cases g4 : m.conns4.get? u with
  | none =>
    cases g6 : m.conns6.get? u with
    | none => simp [addrsOf]
    | some c6 =>
      simp only [addrsOf]
      by_cases d6 : k ∈ (m.conn c6).addrs
      · simp [d6, h6 c6 g6 d6]
      · simp [d6]
  | some c4 =>
    cases g6 : m.conns6.get? u with
    | none =>
      simp only [addrsOf]
      by_cases d4 : k ∈ (m.conn c4).addrs
      · simp [d4, h4 c4 g4 d4]
      · simp [d4]
    | some c6 =>
      simp only [addrsOf]
      by_cases d4 : k ∈ (m.conn c4).addrs <;> by_cases d6 : k ∈ (m.conn c6).addrs
      · simp [d4, d6, h4 c4 g4 d4]
      · simp [d4, d6, h4 c4 g4 d4]
      · simp [d4, d6, h6 c6 g6 d6]
      · simp [d4, d6]

theorem removeByUfrag_eq (m : Mux) (u : Name) :
    removeByUfragU m u =
      let m' := closeOpt (closeOpt m (m.conns4.get? u)) (m.conns6.get? u)
      unreg m' u (addrsOf m' (m'.conns4.get? u)) (addrsOf m' (m'.conns6.get? u)) := by
  simp only [closeOpt_conns4, closeOpt_conns6, addrsOf_closeOpt]
  unfold removeByUfragU unreg delAddrs
  cases m.conns4.get? u <;> cases m.conns6.get? u <;> rfl

theorem unreg_registered (m : Mux) (u : Name) (l4 l6 : List Addr) (c : Nat) :
    registered (unreg m u l4 l6) c ↔ registered m c ∧ (m.conn c).key ≠ u := by
  simp only [registered, unreg, AMap.get?_del]
  by_cases h : (m.conn c).key = u
  · simp [h]
  · simp [h]

theorem inv_unreg (m : Mux) (hi : Inv m) (u : Name)
    (hc4 : ∀ c, m.conns4.get? u = some c → (m.conn c).closed = true)
    (hc6 : ∀ c, m.conns6.get? u = some c → (m.conn c).closed = true) :
    Inv (unreg m u (addrsOf m (m.conns4.get? u)) (addrsOf m (m.conns6.get? u))) := by
  have hsub : ∀ a c, (unreg m u (addrsOf m (m.conns4.get? u)) (addrsOf m (m.conns6.get? u))).addrMap a = some c →
      m.addrMap a = some c := by
    intro a c h
    simp only [unreg] at h
    split at h
    · cases h
    · split at h
      · cases h
      · exact h
  constructor
  · exact AMap.wf_del _ hi.wf4 _
  · exact AMap.wf_del _ hi.wf6 _
  · intro x c h
    simp only [unreg, AMap.get?_del] at h ⊢
    split at h
    · cases h
    · exact hi.fam4 x c h
  · intro x c h
    simp only [unreg, AMap.get?_del] at h ⊢
    split at h
    · cases h
    · exact hi.fam6 x c h
  · intro a c h; exact hi.amap a c (hsub a c h)
  · intro c a h1 h2 h3
    rw [unreg_registered] at h2
    have hb := hi.back c a h1 h2.1 h3
    simp only [unreg]
    rw [if_neg, if_neg]
    · exact hb
    · intro hm
      cases h4 : m.conns4.get? u with
      | none => simp [h4, addrsOf] at hm
      | some c4 =>
        simp only [h4, addrsOf] at hm
        obtain ⟨f1, f2, _⟩ := hi.fam4 u c4 h4
        have := hi.back c4 a f1 (Or.inl (by rw [f2]; exact h4)) hm
        rw [hb] at this; injection this with this; subst this
        exact h2.2 f2
    · intro hm
      cases h6 : m.conns6.get? u with
      | none => simp [h6, addrsOf] at hm
      | some c6 =>
        simp only [h6, addrsOf] at hm
        obtain ⟨f1, f2, _⟩ := hi.fam6 u c6 h6
        have := hi.back c6 a f1 (Or.inr (by rw [f2]; exact h6)) hm
        rw [hb] at this; injection this with this; subst this
        exact h2.2 f2
  · exact hi.hnd
  · exact hi.refs
  · exact hi.cfifo
  · intro c h1 h2
    obtain ⟨w1, w2, w3⟩ := hi.watched c h1 h2
    refine ⟨w1, ?_, ?_⟩
    · rw [unreg_registered]; exact fun h => w2 h.1
    · intro a h; exact w3 a (hsub a c h)
  · intro c h1 h2
    rw [unreg_registered]
    have hr := hi.openReg c h1 h2
    refine ⟨hr, ?_⟩
    intro hk
    rcases hr with h | h
    · rw [hk] at h; have := hc4 c h; dsimp only [unreg] at h2; rw [h2] at this; cases this
    · rw [hk] at h; have := hc6 c h; dsimp only [unreg] at h2; rw [h2] at this; cases this
  · intro h
    obtain ⟨h4, h6⟩ := hi.muxClosed h
    simp [unreg, h4, h6, AMap.del]

theorem inv_removeByUfrag (m : Mux) (hi : Inv m) (u : Name) : Inv (removeByUfrag m u) := by
  rw [removeByUfrag_eq_U m hi, removeByUfrag_eq]
  dsimp only
  apply inv_unreg _ (inv_closeOpt _ (inv_closeOpt m hi _) _)
  · intro c h
    simp only [closeOpt_conns4] at h
    rw [closeOpt_closed, closeOpt_closed]
    simp [h]
  · intro c h
    simp only [closeOpt_conns6] at h
    rw [closeOpt_closed]
    simp [h]

/-! ## all operations -/

theorem inv_step (m : Mux) (hi : Inv m) (op : Op) : Inv (step m op).1 := by
  cases op with
  | getConn u v6 => exact inv_getConn m hi u v6
  | writeTo h dst => exact inv_writeTo m hi h dst
  | inbound src k pid => exact inv_inbound m hi src k pid
  | removeByUfrag u => exact inv_removeByUfrag m hi u
  | closeHandle h => exact inv_closeHandle m hi h
  | watcherRun c => exact inv_watcherRun m hi c
  | closeMux => exact inv_closeMux m hi
  | read h => exact inv_read m hi h

theorem run_fst (m : Mux) (op : Op) (ops : List Op) : (run m (op :: ops)).1 = (run (step m op).1 ops).1 := rfl

theorem inv_run (ops : List Op) : ∀ m, Inv m → Inv (run m ops).1 := by
  induction ops with
  | nil => intro m h; exact h
  | cons op ops ih => intro m h; rw [run_fst]; exact ih _ (inv_step m h op)

end IceProofs.UdpMux
