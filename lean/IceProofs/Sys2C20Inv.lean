import IceProofs.Sys2C20Hist
import IceProofs.Sys2C20Frame
import IceProofs.Sys2C20Ans
import IceProofs.Sys2C20Outs
/-!
# C20 on `Sys2` — the invariant of a renomination exchange and its preservation by one agent event

`Session s`: both agents started and open, A controlling, B controlled and full, neither Failed.
`QInv nat h s`: what holds in every state of an exchange with history `h` (see the fields).  `qinv_stepA` /
`qinv_stepB`: one agent event preserves it; `qinv_frame`: so do clock changes and the removal of datagrams.
-/
namespace IceProofs.C20S
open IceModel.AgentCore IceModel.Sys2 IceProofs.Sys2Run IceProofs.Agent IceProofs.Sys2C05

/-- the roles and liveness assumed of an exchange: A controlling, B controlled and a full agent, both started, open
and not Failed -/
def Session (s : Sys) : Prop :=
  s.a.started = true ∧ s.b.started = true ∧ s.a.closed = false ∧ s.b.closed = false ∧
  s.a.controlling = true ∧ s.b.controlling = false ∧ s.a.connState ≠ .failed ∧ s.b.connState ≠ .failed ∧
  s.b.cfg.lite = false

instance (s : Sys) : Decidable (Session s) := by unfold Session; infer_instance

/-- what the invariant says of a datagram in flight: a nomination value is carried only by a Binding request A issued
from `d.src` to `d.dst` with that value -/
def DgramOK (h : Hist) (d : Dgram) : Prop :=
  ∀ m, d.p = .stun m → ∀ v, m.nom = some v → m.cls = 0 ∧ (v, d.src, d.dst) ∈ h.issued

theorem DgramOK.mono {h h' : Hist} {d : Dgram} (hd : DgramOK h d) (hsub : ∀ x ∈ h.issued, x ∈ h'.issued) :
    DgramOK h' d := by
  intro m hm v hv
  exact ⟨(hd m hm v hv).1, hsub _ (hd m hm v hv).2⟩

/-- the mark clause of the invariant for one pair of B: a deferred value is at most the highest accepted value -/
def MarkOK (last : Option Nat) (p : Pair) : Prop :=
  ∀ v', p.deferredNom = some v' → ∃ l, last = some l ∧ v' ≤ l

/-- the invariant of an exchange (`nat` = the NAT mapping of the topology) -/
structure QInv (nat : List (Nat × Nat)) (h : Hist) (s : Sys) : Prop where
  topo : s.nat = nat
  invA : AgentC06.Inv s.a
  invB : AgentC06.Inv s.b
  sess : Session s
  /-- datagrams in flight -/
  fl : ∀ d ∈ s.inflight, DgramOK h d
  /-- every outstanding transaction of A that carries a value belongs to an issued nomination -/
  pendA : ∀ pd ∈ s.a.pending, ∀ v, pd.nom = some v → (v, pd.src, pd.dest) ∈ h.issued
  /-- every answered nomination was issued, and A's `answeredNomination` is at least its value -/
  ansA : ∀ x ∈ h.answered, x ∈ h.issued ∧ ∃ w, s.a.answeredNomination = some w ∧ x.1 ≤ w
  /-- A's `answeredNomination` is the value of an answered nomination, and A's selected pair is that nomination's -/
  selA : ∀ w, s.a.answeredNomination = some w →
    ∃ x ∈ h.answered, x.1 = w ∧ selAddrs s.a = some (x.2.1, x.2.2)
  /-- B's highest accepted value is the value accepted last -/
  lastB : s.b.lastNomination = h.accepted.map (·.1)
  /-- it was issued by A, arrived on the mirror image (modulo NAT) of the pair A issued it on, and the pair it arrived
  on is selected or carries it as a deferred nomination waiting for validation; no other pair carries that value -/
  accB : ∀ v lb rb, h.accepted = some (v, lb, rb) →
    (∃ la ra, (v, la, ra) ∈ h.issued ∧ lb = unmappedL nat ra ∧ rb = mappedL nat la) ∧
    ∃ id, pairAddrs s.b id = some (lb, rb) ∧
      (s.b.selected = some id ∨ ∃ p ∈ s.b.checklist, p.id = id ∧ nk p = (false, true, some v)) ∧
      ∀ p ∈ s.b.checklist, p.deferredNom = some v → p.id = id
  /-- deferred values of B never exceed the highest accepted one -/
  defB : ∀ p ∈ s.b.checklist, MarkOK s.b.lastNomination p

/-! ## small tools -/

theorem pair_eq_of_id' {l : List Pair} (hu : l.Pairwise (fun p q => p.id ≠ q.id)) {p q : Pair} (hp : p ∈ l)
    (hq : q ∈ l) (h : p.id = q.id) : p = q := by
  induction l with
  | nil => cases hp
  | cons d l ih =>
    rw [List.pairwise_cons] at hu
    rcases List.mem_cons.mp hp with hp' | hp' <;> rcases List.mem_cons.mp hq with hq' | hq'
    · rw [hp', hq']
    · rw [hp'] at h; exact absurd h (hu.1 q hq')
    · rw [hq'] at h; exact absurd h.symm (hu.1 p hp')
    · exact ih hu.2 hp' hq'

theorem ids_unique {a : Agent} (hi : AgentC06.Inv a) {p q : Pair} (hp : p ∈ a.checklist) (hq : q ∈ a.checklist)
    (h : p.id = q.id) : p = q := by
  have hn := (AgentC06.Inv.read_ids hi).1
  have hpw : a.checklist.Pairwise (fun x y => x.id ≠ y.id) := by
    have := hn
    unfold List.Nodup at this
    rw [List.pairwise_map] at this
    exact this
  exact pair_eq_of_id' hpw hp hq h

theorem pairById_of_mem {a : Agent} (hi : AgentC06.Inv a) {p : Pair} (hp : p ∈ a.checklist) :
    a.pairById p.id = some p := by
  cases hf : a.pairById p.id with
  | none =>
    unfold Agent.pairById at hf
    rw [List.find?_eq_none] at hf
    exact absurd (hf p hp) (by simp)
  | some q =>
    obtain ⟨hq, hid⟩ := IceProofs.C03.pairById_mem hf
    rw [ids_unique hi hq hp hid]

theorem selAddrs_of_selected {a : Agent} {id : Nat} (h : a.selected = some id) : selAddrs a = pairAddrs a id := by
  unfold selAddrs; rw [h]; rfl

theorem mem_dgramsOf_stun {o : List Out} {d : Dgram} (hd : d ∈ dgramsOf o) {m : Msg} (hp : d.p = .stun m) :
    Out.dgram d.src d.dst m ∈ o := by
  simp only [dgramsOf, List.mem_filterMap] at hd
  obtain ⟨x, hx, hxd⟩ := hd
  cases x with
  | dgram f t m' =>
    simp only [Option.some.injEq] at hxd
    subst hxd
    simp only [Payload.stun.injEq] at hp
    subst hp
    exact hx
  | data f t n =>
    simp only [Option.some.injEq] at hxd
    subst hxd
    cases hp
  | cbState _ => cases hxd
  | cbPair _ _ => cases hxd
  | cbCand _ => cases hxd
  | res _ => cases hxd

theorem selAddrs_keep {ex : Option Nat} {iss : Option (Nat × Nat × Nat)} {a a' : Agent} (hq : NomQ ex iss a a')
    (hs : a'.selected = a.selected) (x : Nat × Nat) (hx : selAddrs a = some x) : selAddrs a' = some x := by
  unfold selAddrs at hx ⊢
  rw [hs]
  cases hsel : a.selected with
  | none => rw [hsel] at hx; cases hx
  | some id =>
    rw [hsel] at hx
    exact hq.addrs id x hx

theorem selAddrs_some_selected {a : Agent} {x : Nat × Nat} (h : selAddrs a = some x) : a.selected.isNone = false := by
  unfold selAddrs at h
  cases hs : a.selected with
  | none => rw [hs] at h; cases h
  | some _ => rfl

end IceProofs.C20S
