import IceProofs.Sys2C01Sys
/-!
# C01, layer 4 — what the invariant says about an agent, and the instantiation of the abstract
address predicates by the addresses that occur in the schedule.
-/
namespace IceProofs.C01
open IceModel.AgentCore IceModel.Sys2 IceProofs.Sys2Run

theorem AInv.final {Good : Nat → Nat → Prop} {Sane SaneR : Nat → Prop} {tag : Nat} {lite : Bool} {a : Agent} {L : Log}
    (h : AInv Good Sane SaneR tag lite (view a) L) (hl : a.cfg.lite = false) :
    (∀ p ∈ a.checklist, p.state = .succeeded →
        ∃ la ra, Good la ra ∧ (∀ l, a.localOf p.l = some l → l.addr = la) ∧ (∀ r, a.remoteOf p.r = some r → r.addr = ra))
    ∧ (∀ id, a.selected = some id → ∃ p ∈ a.checklist, p.id = id ∧ p.state = .succeeded)
    ∧ (a.connState = .connected ∨ a.connState = .disconnected → ∃ id, a.selected = some id)
    ∧ a.checklist.Pairwise (fun p q => p.id ≠ q.id) := by
  have hlite : lite = false := by rw [← h.lite_eq]; exact hl
  refine ⟨?_, ?_, ?_, ?_⟩
  rotate_right
  · have := h.pairUniq
    show a.checklist.Pairwise _
    have e : (view a).pairs = a.checklist.map pv := rfl
    rw [e, List.pairwise_map] at this
    exact this
  · intro p hp hs
    obtain ⟨la, ra, hg, h1, h2⟩ := h.succOK hlite (pv p) (mem_checklist_pv hp) (by simp [pv, hs])
    refine ⟨la, ra, hg, ?_, ?_⟩
    · intro l hl'
      exact h1 _ (addrOf_locs_of_localOf hl')
    · intro r hr'
      exact h2 _ (addrOf_rems_of_remoteOf hr')
  · intro id hid
    obtain ⟨q, hq, hqid, hqs⟩ := h.selOK id hid
    obtain ⟨p, hp, rfl⟩ := List.mem_map.mp hq
    refine ⟨p, hp, hqid, ?_⟩
    simpa [pv] using hqs
  · intro hc
    have hlive : (view a).live = true := by
      show isLive a.connState = true
      rcases hc with hc | hc <;> rw [hc] <;> rfl
    have := h.connOK hlive
    cases hsel : a.selected with
    | none =>
      have e : (view a).sel = a.selected := rfl
      rw [e, hsel] at this
      cases this
    | some id => exact ⟨id, rfl⟩

/-! ## the addresses of a schedule -/

/-- addresses at which local candidates are added during the schedule (either agent). -/
def localAddrs (evs : List SysEv) : List Nat :=
  evs.filterMap fun | .api _ (.addLocal _ c) => some c.addr | _ => none

/-- addresses of signalled remote candidates. -/
def signalledAddrs (evs : List SysEv) : List Nat :=
  evs.filterMap fun | .api _ (.addRemote _ c) => some c.addr | _ => none

/-- every address a remote candidate can carry: signalled, or a local address as seen through the NAT
(peer-reflexive discovery). -/
def remoteAddrs (nat : List (Nat × Nat)) (evs : List SysEv) : List Nat :=
  signalledAddrs evs ++ (localAddrs evs).map (mappedL nat)

/-- schedule hypothesis: every local candidate address survives the NAT round trip. -/
def LocalsSane (nat : List (Nat × Nat)) (evs : List SysEv) : Prop := ∀ x ∈ localAddrs evs, SaneAddr nat x

instance (nat : List (Nat × Nat)) (evs : List SysEv) : Decidable (LocalsSane nat evs) := by
  unfold LocalsSane; infer_instance

/-- addresses at which agent `isB` adds local candidates. -/
def localAddrsOf (isB : Bool) (evs : List SysEv) : List Nat :=
  evs.filterMap fun | .api b (.addLocal _ c) => if b = isB then some c.addr else none | _ => none

theorem localAddrsOf_sub {isB : Bool} {evs : List SysEv} {x : Nat} (h : x ∈ localAddrsOf isB evs) : x ∈ localAddrs evs := by
  obtain ⟨e, he, hx⟩ := List.mem_filterMap.mp h
  refine List.mem_filterMap.mpr ⟨e, he, ?_⟩
  split at hx
  · split at hx
    · exact hx
    · cases hx
  · cases hx

def SLof (nat : List (Nat × Nat)) (evs : List SysEv) (isB : Bool) (x : Nat) : Prop :=
  SaneAddr nat x ∧ x ∈ localAddrsOf isB evs
def SRof (nat : List (Nat × Nat)) (evs : List SysEv) (x : Nat) : Prop := x ∈ remoteAddrs nat evs

theorem localAddrs_split {evs : List SysEv} {x : Nat} (h : x ∈ localAddrs evs) :
    x ∈ localAddrsOf false evs ∨ x ∈ localAddrsOf true evs := by
  obtain ⟨e, he, hx⟩ := List.mem_filterMap.mp h
  split at hx
  · rename_i b now c
    cases b with
    | false => exact Or.inl (List.mem_filterMap.mpr ⟨_, he, by simpa using hx⟩)
    | true => exact Or.inr (List.mem_filterMap.mpr ⟨_, he, by simpa using hx⟩)
  · cases hx

theorem pair_eq_of_id {l : List Pair} (hu : l.Pairwise (fun p q => p.id ≠ q.id)) {p q : Pair} (hp : p ∈ l) (hq : q ∈ l)
    (h : p.id = q.id) : p = q := by
  induction l with
  | nil => cases hp
  | cons d l ih =>
    rw [List.pairwise_cons] at hu
    rcases List.mem_cons.mp hp with hp' | hp' <;> rcases List.mem_cons.mp hq with hq' | hq'
    · rw [hp', hq']
    · rw [hp'] at h; exact absurd h (hu.1 q hq')
    · rw [hq'] at h; exact absurd h.symm (hu.1 p hp')
    · exact ih hu.2 hp' hq'

theorem SLor_SLof {nat : List (Nat × Nat)} {evs : List SysEv} {x : Nat}
    (h : SLor (SLof nat evs false) (SLof nat evs true) x) : SaneAddr nat x ∧ x ∈ localAddrs evs := by
  rcases h with h | h <;> exact ⟨h.1, localAddrsOf_sub h.2⟩

theorem evSane_of_mem {nat : List (Nat × Nat)} {evs : List SysEv} (hs : LocalsSane nat evs) {e : SysEv} (he : e ∈ evs) :
    evSane (SLof nat evs false) (SLof nat evs true) (SRof nat evs) e := by
  unfold evSane
  split
  · rename_i now c
    have hm : c.addr ∈ localAddrsOf false evs := List.mem_filterMap.mpr ⟨_, he, by simp⟩
    exact ⟨hs _ (localAddrsOf_sub hm), hm⟩
  · rename_i now c
    have hm : c.addr ∈ localAddrsOf true evs := List.mem_filterMap.mpr ⟨_, he, by simp⟩
    exact ⟨hs _ (localAddrsOf_sub hm), hm⟩
  · rename_i isB now c
    have hm : c.addr ∈ signalledAddrs evs := List.mem_filterMap.mpr ⟨_, he, rfl⟩
    exact List.mem_append_left _ hm
  · trivial

theorem SLof_sane {nat : List (Nat × Nat)} {evs : List SysEv} :
    ∀ x, SLor (SLof nat evs false) (SLof nat evs true) x → SaneAddr nat x := fun _ h => (SLor_SLof h).1

theorem SLof_SRof {nat : List (Nat × Nat)} {evs : List SysEv} :
    ∀ x, SLor (SLof nat evs false) (SLof nat evs true) x → SRof nat evs (mappedL nat x) :=
  fun x h => List.mem_append_right _ (List.mem_map.mpr ⟨x, (SLor_SLof h).2, rfl⟩)

/-- the invariant in every state reached from an initial state along a prefix of a sane schedule. -/
theorem reach_inv {s0 : Sys} (hi : Sys.Init s0) {evs pre : List SysEv} (hs : LocalsSane s0.nat evs)
    (hpre : ∀ e ∈ pre, e ∈ evs) :
    ∃ LA LB, SInv s0.nat s0.blocked (SLof s0.nat evs false) (SLof s0.nat evs true) (SRof s0.nat evs)
      s0.a.cfg.lite s0.b.cfg.lite (Sys.runs s0 pre) LA LB :=
  runs_inv hi SLof_sane SLof_SRof pre (fun e he => evSane_of_mem hs (hpre e he))

/-- what the system invariant says about a full agent. -/
theorem SInv.agent_final {nat blocked : List (Nat × Nat)} {SLA SLB SR : Nat → Prop} {liteA liteB : Bool} {s : Sys} {LA LB : Log}
    (h : SInv nat blocked SLA SLB SR liteA liteB s LA LB) (isB : Bool) (hfull : (s.agent isB).cfg.lite = false) :
    (∀ p ∈ (s.agent isB).checklist, p.state = .succeeded →
        ∃ la ra, GoodS nat blocked (if isB then SLB else SLA) (SLor SLA SLB) SR la ra
          ∧ (∀ l, (s.agent isB).localOf p.l = some l → l.addr = la)
          ∧ (∀ r, (s.agent isB).remoteOf p.r = some r → r.addr = ra))
    ∧ (∀ id, (s.agent isB).selected = some id → ∃ p ∈ (s.agent isB).checklist, p.id = id ∧ p.state = .succeeded)
    ∧ ((s.agent isB).connState = .connected ∨ (s.agent isB).connState = .disconnected → ∃ id, (s.agent isB).selected = some id)
    ∧ (s.agent isB).checklist.Pairwise (fun p q => p.id ≠ q.id) := by
  cases isB with
  | false => exact h.invA.final hfull
  | true => exact h.invB.final hfull

/-- the configuration of an agent never changes. -/
theorem SInv.lite_eq {nat blocked : List (Nat × Nat)} {SLA SLB SR : Nat → Prop} {liteA liteB : Bool} {s : Sys} {LA LB : Log}
    (h : SInv nat blocked SLA SLB SR liteA liteB s LA LB) (isB : Bool) :
    (s.agent isB).cfg.lite = if isB then liteB else liteA := by
  cases isB with
  | false => exact h.invA.lite_eq
  | true => exact h.invB.lite_eq

end IceProofs.C01
