import IceProofs.AgentC04Sel
import IceProofs.AgentAuto
/-!
# C04 — the timer side: `stateForDisconnection`, `validateSelected`, `contactCandidates`, `contact`,
`runForced`, `runTimers`; the tick rule and the checking deadline.
-/
namespace IceProofs.AgentC04
open IceModel.AgentCore

/-- edges a timer tick can take -/
def tickEdge (cfg : Config) : ConnState → ConnState → Bool
  | .checking, .failed => true
  | .connected, .disconnected => true
  | .disconnected, .connected => true
  | .disconnected, .failed => true
  | .connected, .failed => cfg.disconnectedTimeout == 0
  | _, _ => false

/-- `totalTimeToFailure` of `validateSelectedPair` -/
def totalToFailure (cfg : Config) : Nat :=
  if cfg.failedTimeout != 0 then cfg.failedTimeout + cfg.disconnectedTimeout else 0

/-- everything `updateConnectionState(Failed)` releases -/
def Wiped (a : Agent) : Prop :=
  a.checklist = [] ∧ a.locals = [] ∧ a.remotes = [] ∧ a.selected = none ∧ a.pending = []

theorem wipe_wiped (a : Agent) : Wiped a.wipe := ⟨rfl, rfl, rfl, rfl, rfl⟩

/-! ## the silence → state function -/

theorem sfd_range (cfg : Config) (cur : ConnState) (d : Option Nat) (total : Nat) :
    stateForDisconnection cfg cur d total = .connected ∨ stateForDisconnection cfg cur d total = .disconnected ∨
    stateForDisconnection cfg cur d total = .failed := by
  unfold stateForDisconnection
  simp only
  repeat' split
  all_goals simp

/-- `stateForDisconnection` on a known silence, written with propositions -/
theorem sfd_some (cfg : Config) (cur : ConnState) (d total : Nat) :
    stateForDisconnection cfg cur (some d) total =
      if total ≠ 0 ∧ total < d then
        (if (cfg.disconnectedTimeout ≠ 0 ∧ cfg.disconnectedTimeout < d) ∧ cur ≠ .disconnected ∧ cur ≠ .failed
          then .disconnected else .failed)
      else if cfg.disconnectedTimeout ≠ 0 ∧ cfg.disconnectedTimeout < d then .disconnected else .connected := by
  unfold stateForDisconnection
  by_cases h1 : total = 0 <;> by_cases h2 : total < d <;> by_cases h3 : cfg.disconnectedTimeout = 0 <;>
    by_cases h4 : cfg.disconnectedTimeout < d <;> by_cases h5 : cur = .disconnected <;> by_cases h6 : cur = .failed <;>
    simp [h1, h2, h3, h4, h5, h6]

/-- … and on "never heard" (`none`): longer than every timeout -/
theorem sfd_none (cfg : Config) (cur : ConnState) (total : Nat) :
    stateForDisconnection cfg cur none total =
      if total ≠ 0 then
        (if cfg.disconnectedTimeout ≠ 0 ∧ cur ≠ .disconnected ∧ cur ≠ .failed then .disconnected else .failed)
      else if cfg.disconnectedTimeout ≠ 0 then .disconnected else .connected := by
  unfold stateForDisconnection
  by_cases h1 : total = 0 <;> by_cases h3 : cfg.disconnectedTimeout = 0 <;>
    by_cases h5 : cur = .disconnected <;> by_cases h6 : cur = .failed <;>
    simp [h1, h3, h5, h6]

theorem totalToFailure_eq (cfg : Config) :
    totalToFailure cfg = if cfg.failedTimeout ≠ 0 then cfg.failedTimeout + cfg.disconnectedTimeout else 0 := by
  unfold totalToFailure
  by_cases h : cfg.failedTimeout = 0 <;> simp [h]

/-- from Connected or Disconnected, `validateSelectedPair` either keeps the state or takes a tick edge -/
theorem sfd_edge (cfg : Config) (cur : ConnState) (d : Option Nat) (hcur : cur = .connected ∨ cur = .disconnected) :
    stateForDisconnection cfg cur d (totalToFailure cfg) = cur ∨
    tickEdge cfg cur (stateForDisconnection cfg cur d (totalToFailure cfg)) = true := by
  have ht := totalToFailure_eq cfg
  generalize totalToFailure cfg = total at ht
  have ht' : (cfg.failedTimeout = 0 ∧ total = 0) ∨ (cfg.failedTimeout ≠ 0 ∧ total = cfg.failedTimeout + cfg.disconnectedTimeout) := by
    by_cases hf : cfg.failedTimeout = 0 <;> simp [hf] at ht <;> simp [hf, ht]
  clear ht
  cases d with
  | none =>
    rw [sfd_none]
    rcases hcur with h | h <;> subst h <;> (repeat' split) <;> simp_all [tickEdge] <;> omega
  | some d =>
    rw [sfd_some]
    rcases hcur with h | h <;> subst h <;> (repeat' split) <;> simp_all [tickEdge] <;> omega

/-- with `failedTimeout = 0` the silence function never answers Failed -/
theorem sfd_not_failed (cfg : Config) (cur : ConnState) (d : Option Nat) (h : cfg.failedTimeout = 0) :
    stateForDisconnection cfg cur d (totalToFailure cfg) ≠ .failed := by
  have ht : totalToFailure cfg = 0 := by rw [totalToFailure_eq]; simp [h]
  rw [ht]
  cases d with
  | none => rw [sfd_none]; simp only [ne_eq, not_true_eq_false, if_false]; split <;> simp
  | some d => rw [sfd_some]; simp only [ne_eq, not_true_eq_false, false_and, if_false]; split <;> simp

/-! ## effect of timer-driven functions -/

structure TickEff (a : Agent) (r : Agent × List Out) : Prop where
  frame : Frame a r.1
  good : Good r.1
  path : pathFrom (tickEdge a.cfg) a.connState (states r.2) = true
  last : endState a.connState (states r.2) = r.1.connState
  released : ConnState.failed ∈ states r.2 → Wiped r.1 ∧ r.1.connState = .failed
  nofail : a.cfg.failedTimeout = 0 → (a.started = true → a.checkingTimeout = 0) → ConnState.failed ∉ states r.2

theorem TickEff.of_quiet {a : Agent} {r : Agent × List Out} (g : Good a) (q : QuietO a r) : TickEff a r :=
  ⟨q.1.frame, g.of_quiet q.1, by rw [q.2]; rfl, by rw [q.2]; exact q.1.connState.symm, by rw [q.2]; simp,
   by rw [q.2]; simp⟩

theorem TickEff.refl {a : Agent} (g : Good a) : TickEff a (a, []) := TickEff.of_quiet g (QuietO.refl a)

theorem TickEff.comp {a : Agent} {r r' : Agent × List Out} (h1 : TickEff a r) (h2 : TickEff r.1 r')
    (hstay : r.1.connState = .failed → Wiped r.1 → states r'.2 = [] ∧ Wiped r'.1) :
    TickEff a (r'.1, r.2 ++ r'.2) := by
  refine ⟨h1.frame.trans h2.frame, h2.good, ?_, ?_, ?_, ?_⟩
  rotate_left 3
  · intro hf hct
    simp only [states_append, List.mem_append]
    rintro (hm | hm)
    · exact h1.nofail hf hct hm
    · exact h2.nofail (h1.frame.cfg ▸ hf) (fun hs => by rw [h1.frame.ctimeout]; exact hct (h1.frame.started ▸ hs)) hm
  · simp only [states_append]
    rw [pathFrom_append, h1.path, h1.last, ← h1.frame.cfg, h2.path]; rfl
  · simp only [states_append]
    rw [endState_append, h1.last, h2.last]
  · simp only [states_append, List.mem_append]
    intro hm
    by_cases h2m : ConnState.failed ∈ states r'.2
    · exact h2.released h2m
    · have h1m : ConnState.failed ∈ states r.2 := by
        rcases hm with h | h
        · exact h
        · exact absurd h h2m
      obtain ⟨w, c⟩ := h1.released h1m
      obtain ⟨e, w'⟩ := hstay c w
      refine ⟨w', ?_⟩
      have := h2.last
      rw [e, c] at this
      exact this.symm

/-- precompose with a change of fields the tick functions do not read for the state -/
theorem TickEff.after {a b : Agent} {r : Agent × List Out} (f : Frame a b) (hc : b.connState = a.connState)
    (h : TickEff b r) : TickEff a r := by
  refine ⟨f.trans h.frame, h.good, ?_, ?_, h.released, ?_⟩
  · rw [← f.cfg, ← hc]; exact h.path
  · rw [← hc]; exact h.last
  · intro hf hct
    exact h.nofail (f.cfg ▸ hf) (fun hs => by rw [f.ctimeout]; exact hct (f.started ▸ hs))

/-- postcompose with a change that keeps `Frame`, `Good`, the state and what was wiped -/
theorem TickEff.then' {a : Agent} {r : Agent × List Out} {c : Agent} (h : TickEff a r) (f : Frame r.1 c) (g : Good c)
    (hc : c.connState = r.1.connState) (hw : Wiped r.1 → Wiped c) : TickEff a (c, r.2) :=
  ⟨h.frame.trans f, g, h.path, by rw [hc]; exact h.last, fun hm => ⟨hw (h.released hm).1, hc.trans (h.released hm).2⟩,
   h.nofail⟩

/-- `validateSelectedPair` -/
theorem validateSelected_eff (a : Agent) (now : Nat) (g : Good a) :
    TickEff a ((a.validateSelected now).1, (a.validateSelected now).2.1) := by
  unfold Agent.validateSelected
  split
  · exact TickEff.refl g
  · rename_i p hp
    have hsel : a.selected.isSome = true := by
      cases hs : a.selected with
      | none => simp [hs] at hp
      | some _ => rfl
    have hcur := g.sel.mp hsel
    have hst := g.started_of_sel hsel
    simp only
    have htot : (if a.cfg.failedTimeout != 0 then a.cfg.failedTimeout + a.cfg.disconnectedTimeout else 0) = totalToFailure a.cfg := rfl
    rw [htot]
    generalize hX : stateForDisconnection a.cfg a.connState ((a.remoteOf p.r).bind (silence now)) (totalToFailure a.cfg) = X
    have hedge := sfd_edge a.cfg a.connState ((a.remoteOf p.r).bind (silence now)) hcur
    have hrange := sfd_range a.cfg a.connState ((a.remoteOf p.r).bind (silence now)) (totalToFailure a.cfg)
    rw [hX] at hedge hrange
    by_cases hsame : a.connState = X
    · rw [setConnState_same a X hsame]; exact TickEff.refl g
    · have hedge' : tickEdge a.cfg a.connState X = true := by
        rcases hedge with h | h
        · exact absurd h.symm hsame
        · exact h
      by_cases hf : X = .failed
      · subst hf
        rw [setConnState_failed a hsame]
        refine ⟨⟨rfl, rfl, rfl, rfl, fun _ => rfl⟩, ⟨g.notClosed, by simp, ?_, by simp [Agent.wipe]⟩, ?_, rfl, ?_, ?_⟩
        · constructor
          · intro h; simp at h
          · intro h; exact absurd (show a.started = false from h) (by simp [hst])
        · simp [pathFrom, hedge']
        · intro _; exact ⟨wipe_wiped a, rfl⟩
        · intro hf0 _
          exact absurd hX (sfd_not_failed a.cfg a.connState _ hf0)
      · have e1 : (a.setConnState X).1 = { a with connState := X } := setConnState_nf a X hf
        have e2 : states (a.setConnState X).2 = [X] := by rw [setConnState_states]; simp [hsame]
        have hX' : X = .connected ∨ X = .disconnected := by
          rcases hrange with h | h | h
          · exact Or.inl h
          · exact Or.inr h
          · exact absurd h hf
        refine ⟨by rw [e1]; exact ⟨rfl, rfl, rfl, rfl, fun h => h⟩, ?_, ?_, ?_, ?_, ?_⟩
        rotate_left 4
        · intro _ _; rw [e2]; intro hm; simp at hm; exact absurd hm.symm hf
        · rw [e1]
          refine ⟨g.notClosed, ?_, ?_, ?_⟩
          · rcases hX' with h | h <;> subst h <;> simp
          · constructor
            · intro h; rcases hX' with h' | h' <;> subst h' <;> simp at h
            · intro h; exact absurd (show a.started = false from h) (by simp [hst])
          · simp [hsel, hX']
        · rw [e2]; simp [pathFrom, hedge']
        · rw [e2, e1]; rfl
        · rw [e2]; intro hm; simp at hm; exact absurd hm.symm hf

/-! ## `contactCandidates` cut into stages -/

/-- `validateSelectedPair` followed by the keepalive -/
def vk (a : Agent) (now : Nat) : Agent × List Out :=
  let x := a.validateSelected now
  if x.2.2 then
    let y := x.1.keepalive now
    (y.1, x.2.1 ++ y.2)
  else (x.1, x.2.1)

/-- `validateSelectedPair`, the keepalive and the automatic-renomination block (controlling selector) -/
def vka (a : Agent) (now : Nat) : Agent × List Out :=
  let x := a.validateSelected now
  if x.2.2 then
    let y := x.1.keepalive now
    let z := y.1.autoRenom now
    (z.1, x.2.1 ++ y.2 ++ z.2)
  else (x.1, x.2.1)

/-- the controlling selector without a selected pair -/
def ccNominate (a : Agent) (now : Nat) : Agent × List Out :=
  match a.nominatedPair.bind a.pairById with
  | some p => a.nominate now p
  | none =>
    match a.nominatedPair with
    | some _ => (a, [])
    | none =>
    match a.bestValid with
    | some p =>
      match a.localOf p.l, a.remoteOf p.r with
      | some l, some r =>
        if a.nominatable now l && a.nominatable now r then
          let a := a.modPair p.id fun p => { p with nominated := true }
          let a := { a with nominatedPair := some p.id }
          a.nominate now p
        else a.pingAll now
      | _, _ => a.pingAll now
    | none => a.pingAll now

theorem cc_eq (a : Agent) (now : Nat) :
    a.contactCandidates now =
      (if a.controlling then
        if a.selected.isSome then vka a now else ccNominate a now
      else if a.cfg.lite then ((a.validateSelected now).1, (a.validateSelected now).2.1)
      else if a.selected.isSome then vk a now else a.pingAll now) := rfl

theorem nominate_after (a x : Agent) (np : Option Nat) (now : Nat) (p : Pair) (hx : Quiet a x) :
    QuietO a (({ x with nominatedPair := np } : Agent).nominate now p) := by
  have hq : Quiet x ({ x with nominatedPair := np } : Agent) := ⟨⟨rfl, rfl, rfl, rfl, fun h => h⟩, rfl, rfl, rfl, rfl⟩
  exact QuietO.after_quiet (hx.trans hq) (nominate_quiet _ _ _)

theorem ccNominate_quiet (a : Agent) (now : Nat) : QuietO a (ccNominate a now) := by
  unfold ccNominate
  split
  · exact nominate_quiet _ _ _
  · split
    · exact QuietO.refl a
    · split
      · split
        · split
          · exact nominate_after _ _ _ _ _ (modPair_quiet _ _ _)
          · exact pingAll_quiet _ _
        · exact pingAll_quiet _ _
      · exact pingAll_quiet _ _

theorem validateSelected_none (a : Agent) (now : Nat) (h : a.selected = none) : a.validateSelected now = (a, [], false) := by
  unfold Agent.validateSelected
  simp [h]

theorem vk_eff (a : Agent) (now : Nat) (g : Good a) : TickEff a (vk a now) := by
  unfold vk
  have hv := validateSelected_eff a now g
  generalize a.validateSelected now = x at hv
  obtain ⟨b, o, ok⟩ := x
  simp only at hv ⊢
  cases ok
  · exact hv
  · simp only [if_true]
    by_cases hf : b.connState = .failed
    · have hn : b.selected = none := by
        have := hv.good.sel
        cases hs : b.selected with
        | none => rfl
        | some _ => rw [hs, hf] at this; simp at this
      rw [keepalive_none b now hn]
      simpa using hv
    · exact hv.comp (TickEff.of_quiet hv.good (keepalive_quiet b now)) (fun h => absurd h hf)

/-- the automatic-renomination block only sends requests and marks waiting pairs: quiet -/
theorem autoRenom_quiet (a : Agent) (now : Nat) : QuietO a (a.autoRenom now) := by
  refine IceProofs.Auto.autoRenom_parts (P := fun x => QuietO a x) ?_ a (QuietO.refl a)
  exact {
    mark := fun b _ id _ h _ _ => QuietO.then_quiet h (modPair_quiet b id _)
    ping := fun b _ l r h _ _ => QuietO.trans h (ping_quiet b now l r)
    time := fun _ _ h => QuietO.then_quiet h ⟨⟨rfl, rfl, rfl, rfl, fun h => h⟩, rfl, rfl, rfl, rfl⟩
    count := fun _ _ h => QuietO.then_quiet h ⟨⟨rfl, rfl, rfl, rfl, fun h => h⟩, rfl, rfl, rfl, rfl⟩
    issue := fun b _ l r nom h _ _ _ _ _ => QuietO.trans h (sendRequest_quiet b now l r true nom)
    log := fun _ _ _ h => QuietO.then_quiet h ⟨⟨rfl, rfl, rfl, rfl, fun h => h⟩, rfl, rfl, rfl, rfl⟩ }

theorem vka_eff (a : Agent) (now : Nat) (g : Good a) : TickEff a (vka a now) := by
  unfold vka
  have hv := validateSelected_eff a now g
  generalize a.validateSelected now = x at hv
  obtain ⟨b, o, ok⟩ := x
  simp only at hv ⊢
  cases ok
  · exact hv
  · simp only [if_true]
    have h2 : TickEff b (((b.keepalive now).1.autoRenom now).1, (b.keepalive now).2 ++ ((b.keepalive now).1.autoRenom now).2) :=
      TickEff.of_quiet hv.good (QuietO.trans (keepalive_quiet b now) (autoRenom_quiet _ now))
    have h3 := hv.comp h2 (fun _ hw => by
      have e1 : b.keepalive now = (b, []) := keepalive_none b now hw.2.2.2.1
      have e2 : b.autoRenom now = (b, []) := IceProofs.Auto.autoRenom_wiped b now hw.1 hw.2.2.2.1
      simp only [e1, e2]
      exact ⟨rfl, hw⟩)
    simp only [List.append_assoc] at h3 ⊢
    exact h3

theorem contactCandidates_eff (a : Agent) (now : Nat) (g : Good a) : TickEff a (a.contactCandidates now) := by
  rw [cc_eq]
  repeat' split
  all_goals first
    | exact vka_eff a now g
    | exact vk_eff a now g
    | exact TickEff.of_quiet g (ccNominate_quiet a now)
    | exact validateSelected_eff a now g
    | exact TickEff.of_quiet g (pingAll_quiet a now)

/-- without a selected pair the selector does not touch the connection state -/
theorem contactCandidates_quiet (a : Agent) (now : Nat) (h : a.selected = none) : QuietO a (a.contactCandidates now) := by
  rw [cc_eq]
  simp only [h, Option.isSome_none, Bool.false_eq_true, if_false, validateSelected_none a now h]
  repeat' split
  all_goals first
    | exact ccNominate_quiet a now
    | exact QuietO.refl a
    | exact pingAll_quiet a now

/-! ## `contact`, `runForced`, `runTimers` -/

def finTick (x : Agent × List Out) : Agent × List Out := ({ x.1 with lastSeen := x.1.connState }, x.2)

def ckStart (a : Agent) (now : Nat) : Agent :=
  if a.lastSeen != .checking then { a with checkingStart := now } else a

theorem contact_eq (a : Agent) (now : Nat) :
    a.contact now =
      (if a.closed then (a, [])
       else match a.connState with
        | .failed => finTick (a, [])
        | .checking =>
          if (ckStart a now).checkingTimeout != 0 && now - (ckStart a now).checkingStart > (ckStart a now).checkingTimeout then
            finTick ((ckStart a now).setConnState .failed)
          else finTick ((ckStart a now).contactCandidates now)
        | _ => finTick (a.contactCandidates now)) := rfl

theorem wiped_lastSeen {a : Agent} (s : ConnState) (h : Wiped a) : Wiped { a with lastSeen := s } := h

theorem good_lastSeen {a : Agent} (s : ConnState) (g : Good a) : Good { a with lastSeen := s } :=
  ⟨g.notClosed, g.live, g.newIff, g.sel⟩

theorem TickEff.fin {a : Agent} {r : Agent × List Out} (h : TickEff a r) : TickEff a (finTick r) :=
  h.then' ⟨rfl, rfl, rfl, rfl, fun h => h⟩ (good_lastSeen _ h.good) rfl (fun w => w)

theorem ckStart_frame (a : Agent) (now : Nat) : Frame a (ckStart a now) := by
  unfold ckStart; split
  · exact ⟨rfl, rfl, rfl, rfl, fun h => h⟩
  · exact Frame.refl a

theorem ckStart_connState (a : Agent) (now : Nat) : (ckStart a now).connState = a.connState := by
  unfold ckStart; split <;> rfl

theorem ckStart_selected (a : Agent) (now : Nat) : (ckStart a now).selected = a.selected := by
  unfold ckStart; split <;> rfl

theorem ckStart_good (a : Agent) (now : Nat) (g : Good a) : Good (ckStart a now) := by
  unfold ckStart; split
  · exact ⟨g.notClosed, g.live, g.newIff, g.sel⟩
  · exact g

/-- entering Failed on the checking deadline -/
theorem deadline_eff (a : Agent) (g : Good a) (hc : a.connState = .checking) (hct : a.checkingTimeout ≠ 0) :
    TickEff a (a.setConnState .failed) := by
  have hst : a.started = true := by
    cases hs : a.started
    · have := g.newIff.mpr hs; rw [hc] at this; cases this
    · rfl
  rw [setConnState_failed a (by rw [hc]; decide)]
  refine ⟨⟨rfl, rfl, rfl, rfl, fun _ => rfl⟩, ⟨g.notClosed, by simp, ?_, by simp [Agent.wipe]⟩, ?_, rfl, fun _ => ⟨wipe_wiped a, rfl⟩,
    fun _ h0 => absurd (h0 hst) hct⟩
  · constructor
    · intro h; simp at h
    · intro h; exact absurd (show a.started = false from h) (by simp [hst])
  · simp [pathFrom, hc, tickEdge]

theorem contact_eff (a : Agent) (now : Nat) (g : Good a) : TickEff a (a.contact now) := by
  rw [contact_eq]
  simp only [g.notClosed, Bool.false_eq_true, if_false]
  split
  · exact (TickEff.refl g).fin
  · rename_i hc
    split
    · rename_i hdl
      have hct : (ckStart a now).checkingTimeout ≠ 0 := by
        intro h0; rw [h0] at hdl; simp at hdl
      exact (TickEff.after (ckStart_frame a now) (ckStart_connState a now)
        (deadline_eff _ (ckStart_good a now g) ((ckStart_connState a now).trans hc) hct)).fin
    · exact (TickEff.after (ckStart_frame a now) (ckStart_connState a now)
        (contactCandidates_eff _ now (ckStart_good a now g))).fin
  · exact (contactCandidates_eff a now g).fin

/-- a Failed agent ignores ticks -/
theorem contact_stay (a : Agent) (now : Nat) (h : a.connState = .failed) :
    states (a.contact now).2 = [] ∧ (a.contact now).1.connState = .failed ∧ (Wiped a → Wiped (a.contact now).1) := by
  rw [contact_eq]
  split
  · exact ⟨rfl, h, fun w => w⟩
  · simp only [h]
    exact ⟨rfl, h, fun w => w⟩

theorem runForced_eff (a : Agent) (now : Nat) (g : Good a) : TickEff a (a.runForced now) := by
  unfold Agent.runForced
  split
  · have g' : Good { a with forcePending := false } := ⟨g.notClosed, g.live, g.newIff, g.sel⟩
    have h := TickEff.after (a := a) (b := { a with forcePending := false }) ⟨rfl, rfl, rfl, rfl, fun h => h⟩ rfl
      (contact_eff _ now g')
    generalize ({ a with forcePending := false } : Agent).contact now = x at h
    exact h.then' ⟨rfl, rfl, rfl, rfl, fun h => h⟩ ⟨h.good.notClosed, h.good.live, h.good.newIff, h.good.sel⟩ rfl (fun w => w)
  · exact TickEff.refl g

theorem runForced_stay (a : Agent) (now : Nat) (h : a.connState = .failed) :
    states (a.runForced now).2 = [] ∧ (a.runForced now).1.connState = .failed ∧ (Wiped a → Wiped (a.runForced now).1) := by
  unfold Agent.runForced
  split
  · have hs := contact_stay ({ a with forcePending := false }) now h
    generalize ({ a with forcePending := false } : Agent).contact now = x at hs
    exact ⟨hs.1, hs.2.1, fun w => hs.2.2 w⟩
  · exact ⟨rfl, h, fun w => w⟩

theorem runTimers_stay (a : Agent) (now fuel : Nat) (h : a.connState = .failed) :
    states (a.runTimers now fuel).2 = [] ∧ (a.runTimers now fuel).1.connState = .failed ∧
      (Wiped a → Wiped (a.runTimers now fuel).1) := by
  induction fuel generalizing a with
  | zero => exact ⟨rfl, h, fun w => w⟩
  | succ n ih =>
    unfold Agent.runTimers
    split
    · rename_i t _
      split
      · have hs := contact_stay a t h
        generalize a.contact t = x at hs
        obtain ⟨b, o⟩ := x
        have ih' := ih ({ b with nextTick := some (t + b.interval) }) hs.2.1
        simp only at hs ⊢
        generalize ({ b with nextTick := some (t + b.interval) } : Agent).runTimers now n = y at ih'
        obtain ⟨c, o'⟩ := y
        exact ⟨by simp [hs.1, ih'.1], ih'.2.1, fun w => ih'.2.2 (hs.2.2 w)⟩
      · exact ⟨rfl, h, fun w => w⟩
    · exact ⟨rfl, h, fun w => w⟩

theorem runTimers_eff (a : Agent) (now fuel : Nat) (g : Good a) : TickEff a (a.runTimers now fuel) := by
  induction fuel generalizing a with
  | zero => exact TickEff.refl g
  | succ n ih =>
    unfold Agent.runTimers
    split
    · rename_i t _
      split
      · have h := contact_eff a t g
        generalize a.contact t = x at h
        obtain ⟨b, o⟩ := x
        have g1 : Good ({ b with nextTick := some (t + b.interval) } : Agent) :=
          ⟨h.good.notClosed, h.good.live, h.good.newIff, h.good.sel⟩
        have h1 : TickEff a (({ b with nextTick := some (t + b.interval) } : Agent), o) :=
          h.then' ⟨rfl, rfl, rfl, rfl, fun h => h⟩ g1 rfl (fun w => w)
        have h2 := ih _ g1
        have hst := runTimers_stay ({ b with nextTick := some (t + b.interval) } : Agent) now n
        simp only
        generalize ({ b with nextTick := some (t + b.interval) } : Agent).runTimers now n = y at h2 hst
        obtain ⟨c, o'⟩ := y
        exact h1.comp h2 (fun hf w => ⟨(hst hf).1, (hst hf).2.2 w⟩)
      · exact TickEff.refl g
    · exact TickEff.refl g

/-! ## the tick rule -/

theorem validateSelected_some (a : Agent) (now : Nat) (p : Pair) (hp : a.selected.bind a.pairById = some p) :
    a.validateSelected now =
      ((a.setConnState (stateForDisconnection a.cfg a.connState ((a.remoteOf p.r).bind (silence now)) (totalToFailure a.cfg))).1,
       (a.setConnState (stateForDisconnection a.cfg a.connState ((a.remoteOf p.r).bind (silence now)) (totalToFailure a.cfg))).2,
       true) := by
  unfold Agent.validateSelected
  simp only [hp]
  rfl

theorem vk_connState (a : Agent) (now : Nat) (p : Pair) (hp : a.selected.bind a.pairById = some p) :
    (vk a now).1.connState =
      stateForDisconnection a.cfg a.connState ((a.remoteOf p.r).bind (silence now)) (totalToFailure a.cfg) := by
  unfold vk
  simp only [validateSelected_some a now p hp, if_true]
  rw [(keepalive_quiet _ now).1.connState, setConnState_connState]

theorem vka_connState (a : Agent) (now : Nat) (p : Pair) (hp : a.selected.bind a.pairById = some p) :
    (vka a now).1.connState =
      stateForDisconnection a.cfg a.connState ((a.remoteOf p.r).bind (silence now)) (totalToFailure a.cfg) := by
  unfold vka
  simp only [validateSelected_some a now p hp, if_true]
  rw [(autoRenom_quiet _ now).1.connState, (keepalive_quiet _ now).1.connState, setConnState_connState]

theorem contactCandidates_connState (a : Agent) (now : Nat) (p : Pair) (hp : a.selected.bind a.pairById = some p) :
    (a.contactCandidates now).1.connState =
      stateForDisconnection a.cfg a.connState ((a.remoteOf p.r).bind (silence now)) (totalToFailure a.cfg) := by
  have hsel : a.selected.isSome = true := by
    cases hs : a.selected with
    | none => simp [hs] at hp
    | some _ => rfl
  rw [cc_eq]
  simp only [hsel, if_true]
  split
  · exact vka_connState a now p hp
  · split
    · rw [validateSelected_some a now p hp]; exact setConnState_connState _ _
    · exact vk_connState a now p hp

/-- **Tick rule.** One timer tick on an open agent in Connected/Disconnected with a selected pair: the new
state is `connectionStateForDisconnection` of the selected remote's silence. -/
theorem contact_tick_rule (a : Agent) (now : Nat) (p : Pair) (hcl : a.closed = false)
    (hcur : a.connState = .connected ∨ a.connState = .disconnected)
    (hp : a.selected.bind a.pairById = some p) :
    (a.contact now).1.connState =
      stateForDisconnection a.cfg a.connState ((a.remoteOf p.r).bind (silence now)) (totalToFailure a.cfg) := by
  rw [contact_eq]
  simp only [hcl, Bool.false_eq_true, if_false]
  rcases hcur with h | h <;> simp only [h] <;> rw [← h] <;> exact contactCandidates_connState a now p hp

/-! ## the checking deadline -/

theorem contact_checking_eq (a : Agent) (now : Nat) (hcl : a.closed = false) (hc : a.connState = .checking) :
    a.contact now =
      (if ((ckStart a now).checkingTimeout != 0 && now - (ckStart a now).checkingStart > (ckStart a now).checkingTimeout) = true then
        finTick ((ckStart a now).setConnState .failed)
      else finTick ((ckStart a now).contactCandidates now)) := by
  rw [contact_eq]
  simp only [hcl, Bool.false_eq_true, if_false, hc]

/-- **Checking deadline.** One tick on an open agent in Checking without a selected pair. -/
theorem contact_checking (a : Agent) (now : Nat) (hcl : a.closed = false) (hc : a.connState = .checking)
    (hsel : a.selected = none) :
    let start := if a.lastSeen = .checking then a.checkingStart else now
    let r := a.contact now
    r.1.connState = (if a.checkingTimeout ≠ 0 ∧ now - start > a.checkingTimeout then .failed else .checking) ∧
    r.1.checkingStart = start ∧ r.1.lastSeen = r.1.connState ∧ r.1.checkingTimeout = a.checkingTimeout ∧
    states r.2 = (if a.checkingTimeout ≠ 0 ∧ now - start > a.checkingTimeout then [.failed] else []) := by
  have e1 : (ckStart a now).checkingStart = (if a.lastSeen = .checking then a.checkingStart else now) := by
    unfold ckStart
    by_cases h : a.lastSeen = .checking <;> simp [h]
  have e2 : (ckStart a now).checkingTimeout = a.checkingTimeout := (ckStart_frame a now).ctimeout
  simp only
  rw [contact_checking_eq a now hcl hc]
  generalize (if a.lastSeen = .checking then a.checkingStart else now) = start at e1
  by_cases hd : a.checkingTimeout ≠ 0 ∧ now - start > a.checkingTimeout
  · have hd' : ((ckStart a now).checkingTimeout != 0 && decide (now - (ckStart a now).checkingStart > (ckStart a now).checkingTimeout)) = true := by
      rw [e1, e2]; simp [hd.1, hd.2]
    rw [if_pos hd', if_pos hd, if_pos hd]
    rw [setConnState_failed _ (by rw [ckStart_connState, hc]; decide)]
    exact ⟨rfl, e1, rfl, e2, rfl⟩
  · have hd' : ¬ ((ckStart a now).checkingTimeout != 0 && decide (now - (ckStart a now).checkingStart > (ckStart a now).checkingTimeout)) = true := by
      rw [e1, e2]
      by_cases h0 : a.checkingTimeout = 0
      · simp [h0]
      · have : ¬ now - start > a.checkingTimeout := fun h => hd ⟨h0, h⟩
        simp [this]
    rw [if_neg hd', if_neg hd, if_neg hd]
    have q := contactCandidates_quiet (ckStart a now) now ((ckStart_selected a now).trans hsel)
    generalize (ckStart a now).contactCandidates now = x at q
    exact ⟨q.1.connState.trans ((ckStart_connState a now).trans hc), q.1.cstart.trans e1, rfl,
      q.1.frame.ctimeout.trans e2, q.2⟩

end IceProofs.AgentC04
