import IceProofs.UniMux
/-!
One-step lemmas about the universal layer's released calls, used by `C12_uni_waiter_answer_fresh` (IceProps/C12.lean):
who is released with an address by `tap`, that `cached` releases with `errNoXorAddrMapping` only, that a cache hit is
not expired, and the combination for `xorStart`.
-/
namespace IceProofs.UniMuxConc
open IceModel.UdpMux IceModel.UniMux IceProofs.UdpMux IceProofs.UniMux

theorem tap_woke_fresh (m : UMux) (src : Addr) (k : Kind) (x : XView) (w v : Nat)
    (h : (w, WRes.ok v) ∈ (tap m src k x).2.woke) :
    ∃ e, (tap m src k x).1.xmap ((tap m src k x).1.waiter w).srv = some e ∧ e.addr = some v ∧
      (tap m src k x).2.learned = some (((tap m src k x).1.waiter w).srv, v) := by
  rw [tap_eq] at h ⊢
  by_cases hd : (!decodable k) = true
  · rw [if_pos hd] at h; cases h
  · rw [if_neg hd] at h ⊢
    cases hx : x.xa with
    | absent => rw [hx] at h; cases h
    | malformed => rw [hx] at h; cases h
    | value v' =>
      cases he : m.xmap (canonAddr src) with
      | none => rw [hx, he] at h; cases h
      | some e =>
        rw [hx, he] at h
        dsimp only [] at h ⊢
        unfold tapW at h ⊢
        rcases Bool.eq_false_or_eq_true e.signalled with hs | hs
        · rw [if_pos hs] at h; cases h
        · rw [if_neg (by simp [hs])] at h ⊢
          rw [wakeAll_snd, List.mem_map] at h
          obtain ⟨i, hi, hiw⟩ := h
          simp only [Prod.mk.injEq, WRes.ok.injEq] at hiw
          obtain ⟨rfl, rfl⟩ := hiw
          rw [mem_blockedOn] at hi
          have hsrv : ((wakeAll m (canonAddr src) (WRes.ok v')).1 i).srv = canonAddr src := by
            rw [wakeAll_fst, if_pos hi]; exact hi.2.2
          rw [hsrv]
          exact ⟨{ e with addr := some v', signalled := true }, by simp [setX], rfl, rfl⟩

theorem cached_woke_nomap (m : UMux) (a : Addr) (i : Nat) (r : WRes) (h : (i, r) ∈ (cached m a).2.1) : r = .noMap := by
  rw [cached_eq] at h
  cases he : m.xmap a with
  | none => rw [he] at h; cases h
  | some e =>
    rw [he] at h
    dsimp only [] at h
    by_cases hx : e.expiresAt < m.now
    · rw [if_pos hx] at h
      unfold cachedW at h
      dsimp only [] at h
      split at h
      · cases h
      · rw [wakeAll_snd, List.mem_map] at h
        obtain ⟨j, _, hj⟩ := h
        simp only [Prod.mk.injEq] at hj
        exact hj.2.symm
    · rw [if_neg hx] at h; cases h

theorem cached_hit_fresh (m : UMux) (a : Addr) (v : Nat) (h : (cached m a).2.2 = some v) :
    ∃ e, m.xmap a = some e ∧ e.addr = some v ∧ m.now ≤ e.expiresAt := by
  rw [cached_eq] at h
  cases he : m.xmap a with
  | none => rw [he] at h; cases h
  | some e =>
    rw [he] at h
    dsimp only [] at h
    by_cases hx : e.expiresAt < m.now
    · rw [if_pos hx] at h; cases h
    · rw [if_neg hx] at h
      exact ⟨e, rfl, h, Nat.le_of_not_lt hx⟩

theorem xorStart_woke_fresh (m : UMux) (srv : Addr) (d w v : Nat)
    (h : (w, WRes.ok v) ∈ (xorStart m srv d).2.fx.woke) :
    ∃ e, (xorStart m srv d).1.xmap ((xorStart m srv d).1.waiter w).srv = some e ∧ e.addr = some v ∧
      (xorStart m srv d).1.now ≤ e.expiresAt := by
  have hn : ∀ r, (w, r) ∈ (cached m (canonAddr srv)).2.1 → r = .noMap := fun r => cached_woke_nomap m _ w r
  rw [xorStart_eq] at h ⊢
  simp only [] at h ⊢
  split at h
  · next v' hv =>
    obtain ⟨h1, h2, _⟩ := cached_hit m _ v' hv
    obtain ⟨e, he1, he2, he3⟩ := cached_hit_fresh m _ v' hv
    simp only [h2, List.nil_append, List.mem_singleton, Prod.mk.injEq, WRes.ok.injEq] at h
    obtain ⟨rfl, rfl⟩ := h
    simp only [h1, upd, if_true]
    exact ⟨e, he1, he2, he3⟩
  · exfalso
    split at h
    · simp only [List.mem_append, List.mem_singleton, Prod.mk.injEq] at h
      rcases h with h | h
      · cases hn _ h
      · cases h.2
    · split at h
      · simp only [List.mem_append, List.mem_singleton, Prod.mk.injEq] at h
        rcases h with h | h
        · cases hn _ h
        · cases h.2
      · cases hn _ h


end IceProofs.UniMuxConc
