import IceProofs.AgentC03Request
/-!
# C03 — `handleInbound` and `step`
-/
namespace IceProofs.C03
open IceModel.AgentCore

theorem cldNom_noReq (a : Agent) (id : Nat) (m : Msg) : NoReq (cldNom a id m).2 := by
  rcases cldNom_cases a id m with ⟨h, _⟩ | ⟨_, h | ⟨p, _, _, _, h⟩ | ⟨p, _, _, h⟩⟩
  · rw [h]; exact NoReq.nil
  · rw [h]; exact NoReq.nil
  · rw [h]; exact select_noReq _ _
  · rw [h]; exact NoReq.nil

theorem cldNom_cfg (a : Agent) (id : Nat) (m : Msg) : (cldNom a id m).1.cfg = a.cfg := by
  rcases cldNom_cases a id m with ⟨h, _⟩ | ⟨_, h | ⟨p, _, _, _, h⟩ | ⟨p, _, _, h⟩⟩
  · rw [h]
  · rw [h]; exact (cldLite_frame a id).1
  · rw [h]; exact ((select_cc _ _).1).trans (cldLite_frame a id).1
  · rw [h]; exact (cldLite_frame a id).1

/-- a lite agent in the controlled role answers, but never sends a Binding request of its own -/
theorem cldHandleRequest_noReq (a : Agent) (now : Nat) (m : Msg) (l r : Cand) (hl : a.cfg.lite = true) :
    NoReq (a.cldHandleRequest now m l r).2 := by
  rw [cldHandleRequest_eq]
  split
  · exact sendSuccess_noReq _ _ _ _ _
  · unfold cldTail
    refine ((cldNom_noReq _ _ _).append (sendSuccess_noReq _ _ _ _ _)).append (cldPing_noReq _ _ _ _ _ ?_)
    rw [(sendSuccess_hok (wp := True) (ex := True) _ now m l r).cfg, cldNom_cfg,
      (cldAccept_hok (wp := True) (ex := True) _ m).cfg, (cldPre_hok a m l r).1.cfg]
    exact hl

/-! ## `handleInbound`, decomposed -/

/-- the selector's `HandleBindingRequest` + liveness refresh (the non-conflict branch, verbatim) -/
def hiReq (a : Agent) (now : Nat) (l r : Cand) (m : Msg) (o0 : List Out) : Agent × List Out :=
              let (a, o) := if a.controlling then a.ctlHandleRequest now m l r else a.cldHandleRequest now m l r
              (a.seenRemoteRecv r.uid now, o0 ++ o)

/-- role-conflict test + dispatch (verbatim) -/
def hiRole (a : Agent) (now : Nat) (l r : Cand) (m : Msg) (o0 : List Out) : Agent × List Out :=
          match m.role with
          | some (ctl, tb) =>
            if ctl == a.controlling then
              if roleConflictKeeps a.controlling a.tieBreaker tb then
                let a := a.seenLocalSent l.uid now
                (a, o0 ++ [.dgram l.addr r.addr { cls := 3, tid := m.tid, key := some a.localPwd, errCode := some 487 }])
              else
                (({ a with controlling := !a.controlling }).resetSelector now, o0)
            else hiReq a now l r m o0
          | none => hiReq a now l r m o0

/-- peer-reflexive discovery (verbatim) -/
def hiDisc (a : Agent) (l : Cand) (src : Nat) (m : Msg) : Agent × List Out × Option Cand :=
        match a.findRemote l.net src with
          | some r => (a, [], some r)
          | none =>
            let c : Cand := { uid := 0, ty := 3, net := l.net, addr := src, comp := l.comp, rel := some 0,
                              prio := match m.prio with | some p => if p == 0 then prflxPriority l.net l.comp else p | none => prflxPriority l.net l.comp }
            a.addRemoteCandidate c

theorem handleInbound_eq (a : Agent) (now : Nat) (l : Cand) (src : Nat) (m : Msg) :
    a.handleInbound now l src m =
  if !(m.method == 1 && (m.cls == 2 || m.cls == 0 || m.cls == 1)) then (a, [])
  else
    if m.cls == 2 then
      if m.key != some a.remotePwd then (a, [])
      else match a.findRemote l.net src with
        | none => (a, [])
        | some r => ((a.handleSuccess now m l r src).1.seenRemoteRecv r.uid now, (a.handleSuccess now m l r src).2)
    else if m.cls == 0 then
      if m.user != some (a.localUfrag ++ ":" ++ a.remoteUfrag) then (a, [])
      else if m.key != some a.localPwd then (a, [])
      else
        match (hiDisc a l src m).2.2 with
        | none => ((hiDisc a l src m).1, (hiDisc a l src m).2.1)
        | some r => hiRole (hiDisc a l src m).1 now l r m (hiDisc a l src m).2.1
    else
      match a.findRemote l.net src with
      | some r => (a.seenRemoteRecv r.uid now, [])
      | none => (a, []) := by
  unfold Agent.handleInbound hiDisc hiRole hiReq
  cases a.findRemote l.net src <;> rfl

theorem hiReq_hsel (a : Agent) (now : Nat) (l r : Cand) (m : Msg) :
    HSel True a (hiReq a now l r m []) := by
  unfold hiReq
  cases hc : a.controlling
  · have h := cldHandleRequest_hsel a now m l r hc
    simp only [Bool.false_eq_true, if_false, List.nil_append]
    exact HSel.andThen (a1 := (a.cldHandleRequest now m l r).1) (o1 := (a.cldHandleRequest now m l r).2) h
      (seenRemoteRecv_pres _ _ _) rfl rfl
  · have h := (ctlHandleRequest_hok a now m l r hc).hsel
    simp only [if_true, List.nil_append]
    exact HSel.andThen (a1 := (a.ctlHandleRequest now m l r).1) (o1 := (a.ctlHandleRequest now m l r).2) h
      (seenRemoteRecv_pres _ _ _) rfl rfl

theorem hiReq_out (a : Agent) (now : Nat) (l r : Cand) (m : Msg) (o0 : List Out) :
    (hiReq a now l r m o0).1 = (hiReq a now l r m []).1 ∧
    (hiReq a now l r m o0).2 = o0 ++ (hiReq a now l r m []).2 := by
  unfold hiReq
  simp

theorem hiRole_hsel (a : Agent) (now : Nat) (l r : Cand) (m : Msg) : HSel True a (hiRole a now l r m []) := by
  have hflip : HSel True a (({ a with controlling := !a.controlling }).resetSelector now, []) := by
    have hp : Pres True True a (({ a with controlling := !a.controlling }).resetSelector now) :=
      Pres.of_eq rfl rfl rfl rfl fun _ => rfl
    refine ⟨fun hi => (hp hi).1, fun hi => (hp hi).2.toRel, rfl, OutR.nil _, ?_, fun _ _ => Fwd.of_eq rfl⟩
    intro _ id hs hn
    exact absurd hs hn
  have h487 : ∀ tb : Nat, HSel True a (a.seenLocalSent l.uid now,
      [] ++ [.dgram l.addr r.addr { cls := 3, tid := m.tid, key := some (a.seenLocalSent l.uid now).localPwd, errCode := some 487 }]) := by
    intro _
    have hk : HOK True True a (a.seenLocalSent l.uid now,
        [] ++ [.dgram l.addr r.addr { cls := 3, tid := m.tid, key := some (a.seenLocalSent l.uid now).localPwd, errCode := some 487 }]) := by
      refine ⟨seenLocalSent_pres _ _ _, rfl, rfl, ?_⟩
      intro f t m' hm h0
      simp only [List.nil_append, List.mem_singleton, Out.dgram.injEq] at hm
      obtain ⟨_, _, rfl⟩ := hm
      cases h0
    exact hk.hsel
  unfold hiRole
  split
  · split
    · split
      · exact h487 0
      · exact hflip
    · exact hiReq_hsel a now l r m
  · exact hiReq_hsel a now l r m

theorem hiRole_out (a : Agent) (now : Nat) (l r : Cand) (m : Msg) (o0 : List Out) :
    (hiRole a now l r m o0).1 = (hiRole a now l r m []).1 ∧
    (hiRole a now l r m o0).2 = o0 ++ (hiRole a now l r m []).2 := by
  unfold hiRole
  have := hiReq_out a now l r m o0
  repeat' split
  all_goals first
    | exact this
    | exact ⟨rfl, by simp⟩

theorem hiDisc_hok (a : Agent) (l : Cand) (src : Nat) (m : Msg) :
    HOK False True a ((hiDisc a l src m).1, (hiDisc a l src m).2.1) ∧ NoReq (hiDisc a l src m).2.1 := by
  unfold hiDisc
  split
  · exact ⟨HOK.refl _ _ _, NoReq.nil⟩
  · exact addRemoteCandidate_hok a _

theorem handleInbound_hsel (a : Agent) (now : Nat) (l : Cand) (src : Nat) (m : Msg) :
    HSel False a (a.handleInbound now l src m) := by
  rw [handleInbound_eq]
  have hrefl : HSel False a (a, []) := (HOK.refl False True a).hsel
  split
  · exact hrefl
  · split
    · split
      · exact hrefl
      · split
        · exact hrefl
        · rename_i r _
          exact ((handleSuccess_hsel a now m l r src).andThen (a1 := (a.handleSuccess now m l r src).1)
            (o1 := (a.handleSuccess now m l r src).2) (seenRemoteRecv_pres _ _ _) rfl rfl).weaken False.elim
    · split
      · split
        · exact hrefl
        · split
          · exact hrefl
          · obtain ⟨hd, hn⟩ := hiDisc_hok a l src m
            split
            · exact hd.hsel
            · rename_i r _
              have h2 := (hiRole_hsel (hiDisc a l src m).1 now l r m).weaken (wp' := False) False.elim
              have h3 := HSel.after_hok hd hn (a2 := (hiRole (hiDisc a l src m).1 now l r m []).1)
                (o2 := (hiRole (hiDisc a l src m).1 now l r m []).2) h2
              have e : hiRole (hiDisc a l src m).1 now l r m (hiDisc a l src m).2.1 =
                  ((hiRole (hiDisc a l src m).1 now l r m []).1,
                   (hiDisc a l src m).2.1 ++ (hiRole (hiDisc a l src m).1 now l r m []).2) :=
                Prod.ext (hiRole_out _ now l r m _).1 (hiRole_out _ now l r m _).2
              rw [e]
              exact h3
      · split
        · exact (HOK.silent (wp := False) (ex := True) (seenRemoteRecv_pres _ _ _) rfl rfl).hsel
        · exact hrefl

end IceProofs.C03
