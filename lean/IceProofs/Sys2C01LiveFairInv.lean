import IceProofs.Sys2C01LiveFair
/-!
# C01 liveness, layer 14 — the invariant of a fair suffix

(The invariant `FInv` itself is in `Sys2C01LiveFairSys`; it no longer contains `KnownSrc`, which is kept as a definition.)

`KnownSrc c s`: the controlling agent `c` knows (as a remote candidate) every address its peer can appear from, so no
inbound request makes it discover a peer-reflexive candidate — hence no forced tick: its timer is re-armed by its own
ticks only.  `FInv`: `SysOK` + the timer of `c` is due within 2 s + `KnownSrc`.  Every event of a loss-free suffix
(`sufOK`) keeps it.
-/
namespace IceProofs.C01Live
open IceModel.AgentCore IceModel.Sys2 IceProofs.Sys2Run IceProofs.C01 IceProofs.Agent IceProofs.C03

/-! ## agent level -/

/-- nothing forced: `runForced` is the identity -/
theorem runForced_of_noForce (b : Agent) (now : Nat) (h : b.forcePending = false) : b.runForced now = (b, []) := by
  unfold Agent.runForced
  rw [h]
  simp

/-- `handleInbound` sets `forcePending` only when it discovers a peer-reflexive candidate -/
theorem handleInbound_fp (a : Agent) (now : Nat) (l : Cand) (src : Nat) (m : Msg)
    (hk : AuthRequest a m → (a.findRemote l.net src).isSome = true) :
    (a.handleInbound now l src m).1.forcePending = a.forcePending := by
  rw [IceProofs.AgentC02.handleInbound_eq]
  split
  · rfl
  · split
    · split
      · rfl
      · split
        · rfl
        · exact ((IceProofs.AgentC02.frame_handleSuccess _ _ _ _ _ _).trans (IceProofs.AgentC02.frame_seenRemoteRecv _ _ _)).fp
    · split
      · split
        · rfl
        · split
          · rfl
          · rename_i h1 h2 h3 h4 h5
            have ha : AuthRequest a m := by
              refine ⟨?_, ?_, ?_, ?_⟩
              · simp at h1; exact h1.1
              · simpa using h3
              · simpa using h4
              · simpa using h5
            obtain ⟨r, hr⟩ := Option.isSome_iff_exists.mp (hk ha)
            have hd : IceProofs.AgentC02.hiDiscover a l src m = (a, [], some r) := by
              unfold IceProofs.AgentC02.hiDiscover; rw [hr]
            simp only [hd]
            exact (IceProofs.AgentC02.frame_hiRequest _ _ _ _ _ _).fp
      · split
        · rfl
        · rfl

section
variable {T0 H : Nat} {a : Agent}

/-- an inbound message that does not make the agent discover a new remote candidate (the source of an authenticated
request is a known remote candidate) runs no forced tick: the timer stays, and the checklist changes as in
`handleInbound_bk`. -/
theorem step_inbound_quiet (hg : Good T0 H a) (now la src : Nat) (m : Msg)
    (hk : AuthRequest a m → (a.findRemote 0 src).isSome = true) :
    (step a (.inbound now la src m)).1.nextTick = a.nextTick ∧ BK a (step a (.inbound now la src m)).1 := by
  rw [step_inbound_proj]
  simp only [hg.open_, hg.started, Bool.not_true, Bool.or_self, Bool.false_eq_true, if_false]
  cases hl : a.localByAddr la with
  | none => exact ⟨rfl, IdxKeep.refl BKp.refl _⟩
  | some l =>
    simp only []
    have hnet : l.net = 0 := (hg.locOK.1 l (localByAddr_spec hl).1).1
    have hfp := handleInbound_fp a now l src m (by rw [hnet]; exact hk)
    rw [runForced_of_noForce _ now (hfp.trans hg.noForce)]
    exact ⟨congrArg TF.nextTick (tf_handleInbound a now l src m), handleInbound_bk a now l src m⟩

/-- an `advance` before the next tick is due does nothing -/
theorem step_advance_early (hg : Good T0 H a) {t T : Nat} (ht : a.nextTick = some t) (hlt : T < t) :
    step a (.advance T) = (a, []) := by
  show a.runTimers T (99998 + 2) = (a, [])
  unfold Agent.runTimers
  rw [ht]
  have : ¬ (t ≤ T) := by omega
  simp [this]

end

/-! ## system level -/

/-- a Binding request in flight that verifies at `c` comes from an address `c` knows -/
def KnownD (c : Bool) (s : Sys) (d : Dgram) : Prop :=
  match d.p with
  | .stun m => m.cls = 0 → m.key = some (s.agent c).localPwd → ((s.agent c).findRemote 0 (s.mapped d.src)).isSome = true
  | .data _ => True

instance (c : Bool) (s : Sys) (d : Dgram) : Decidable (KnownD c s d) := by unfold KnownD; split <;> infer_instance

/-- the controlling agent `c` knows every (mapped) address of a local candidate of its peer, and the source of every
request in flight that verifies under its password -/
def KnownSrc (c : Bool) (s : Sys) : Prop :=
  (∀ l ∈ (s.agent (!c)).locals, ((s.agent c).findRemote 0 (s.mapped l.addr)).isSome = true) ∧
  ∀ d ∈ s.inflight, KnownD c s d

instance (c : Bool) (s : Sys) : Decidable (KnownSrc c s) := by unfold KnownSrc; infer_instance

/-! ## transferring `KnownSrc` -/

theorem mem_of_mem_restOf {s : Sys} {k : Nat} {keep : Bool} {d : Dgram} (h : d ∈ restOf s k keep) : d ∈ s.inflight := by
  unfold restOf at h
  split at h
  · exact h
  · exact mem_removeAt h

/-- `KnownSrc` survives an event in which both agents keep their local candidates, their credentials and their remote
candidates, the NAT is unchanged, and everything new in flight that is a Binding request was emitted by one of the
two agents from one of its local addresses (`ReqOut`) -/
theorem KnownSrc.keep {s s' : Sys} {c : Bool} (hk : KnownSrc c s) (hp : Paired s c)
    (hloc : (s'.agent (!c)).locals.map ckey = (s.agent (!c)).locals.map ckey)
    (hrem : ∀ y r, (s.agent c).findRemote 0 y = some r → ∃ r', (s'.agent c).findRemote 0 y = some r')
    (hmap : ∀ y, s'.mapped y = s.mapped y)
    (hpwd : (s'.agent c).localPwd = (s.agent c).localPwd)
    (hfl : ∀ d ∈ s'.inflight, d ∈ s.inflight ∨
      ∃ (x : Bool) (o : List Out), d ∈ dgramsOf o ∧ ∀ f t m, Out.dgram f t m ∈ o → m.cls = 0 → ReqOut (s.agent x) f t m) :
    KnownSrc c s' := by
  have hsome : ∀ y, ((s.agent c).findRemote 0 y).isSome = true → ((s'.agent c).findRemote 0 y).isSome = true := by
    intro y hy
    obtain ⟨r, hr⟩ := Option.isSome_iff_exists.mp hy
    obtain ⟨r', hr'⟩ := hrem y r hr
    rw [hr']; rfl
  refine ⟨?_, ?_⟩
  · intro l' hl'
    obtain ⟨l, hl, e⟩ := mem_locals_congr hloc hl'
    rw [hmap, ckey_addr e]
    exact hsome _ (hk.1 l hl)
  · intro d hd
    rcases hfl d hd with hold | ⟨x, o, hdo, hreq⟩
    · have := hk.2 d hold
      unfold KnownD at this ⊢
      split
      · rename_i m hm
        rw [hm] at this
        intro hc hkey
        rw [hpwd] at hkey
        rw [hmap]
        exact hsome _ (this hc hkey)
      · trivial
    · unfold KnownD
      split
      · rename_i m hm
        intro hc hkey
        have hro := hreq _ _ _ (mem_dgramsOf_stun hdo hm) hc
        rw [hro.isReq.key, hpwd] at hkey
        have hkey' : (s.agent x).remotePwd = (s.agent c).localPwd := by simpa using hkey
        have hxc : x = !c := by
          by_cases hx : x = c
          · exfalso
            subst hx
            rw [hp.pwd] at hkey'
            cases x
            · exact hp.pwdNe hkey'.symm
            · exact hp.pwdNe hkey'
          · exact bool_ne_eq_not hx
        subst hxc
        obtain ⟨l, hl, hla⟩ := hro.src
        rw [hmap, ← hla]
        exact hsome _ (hk.1 l hl)
      · trivial

end IceProofs.C01Live
