import IceProofs.CloseSysAfter
/-! # CloseSys — the documented contract "GracefulClose is not called synchronously from a handler"
(agent.go:1509-1511) as a predicate on states, and its preservation -/
namespace IceProofs.CloseSys
open IceModel.CloseSys

def NoG (p : List UOp) : Prop := UOp.close true ∉ p

def LocNoG : Loc → Prop
  | .cOnce true | .cPre true | .cWaitLoop true | .cNotif true _ | .cWait true _ => False
  | _ => True

/-- no handler program contains `GracefulClose`, and no drainer is inside one. -/
def Contract (s : State) : Prop :=
  ∀ (i : Nat) (st : Stream), s.streams[i]? = some st → (∀ p ∈ st.hdl, NoG p) ∧ NoG st.th.prog ∧ LocNoG st.th.loc

instance : DecidablePred LocNoG := fun l => by
  unfold LocNoG; split <;> infer_instance

/-- handler tables and drainer threads are the same in `s'` as in `s`. -/
def StreamsCk (s s' : State) : Prop :=
  ∀ (j : Nat) (st' : Stream), s'.streams[j]? = some st' → ∃ st : Stream, s.streams[j]? = some st ∧
    st'.hdl = st.hdl ∧ st'.th = st.th

theorem StreamsCk.of_eq {s s' : State} (h : s'.streams = s.streams) : StreamsCk s s' :=
  fun j st' hj => ⟨st', by rw [← h]; exact hj, rfl, rfl⟩

theorem Contract.ck {s s' : State} (h : Contract s) (c : StreamsCk s s') : Contract s' := by
  intro j st' hj
  obtain ⟨st, h1, h2, h3⟩ := c j st' hj
  rw [h2, h3]; exact h j st h1

theorem setNdone_ck (s : State) (i : Nat) : StreamsCk s (setNdone s i) := by
  intro j st' hj
  simp only [setNdone, List.getElem?_modify] at hj
  cases hx : s.streams[j]? with
  | none => simp [hx] at hj
  | some st => simp [hx] at hj; subst hj; exact ⟨st, rfl, by split <;> rfl, by split <;> rfl⟩

theorem NoG.tail {p : List UOp} (h : NoG p) : NoG p.tail := fun hm => h (List.mem_of_mem_tail hm)

theorem callStep_noG {s s1 : State} {t : Tid} {th th' : Th} {alt : Bool}
    (hs : callStep s t th alt = some (s1, th')) (h1 : NoG th.prog) (h2 : LocNoG th.loc) :
    NoG th'.prog ∧ LocNoG th'.loc ∧ StreamsCk s s1 := by
  unfold callStep at hs
  split at hs
  · split at hs
    · simp at hs
    · split at hs <;> obtain ⟨rfl, rfl⟩ := Prod.mk.inj (Option.some.inj hs) <;>
        exact ⟨by first | exact h1.tail | exact h1, by simp [Th.ret, LocNoG], .of_eq rfl⟩
    · rename_i g r hp
      obtain ⟨rfl, rfl⟩ := Prod.mk.inj (Option.some.inj hs)
      refine ⟨h1, ?_, .of_eq rfl⟩
      cases g with
      | false => simp [LocNoG]
      | true => exact absurd (by simp [hp]) h1
    · split at hs <;> obtain ⟨rfl, rfl⟩ := Prod.mk.inj (Option.some.inj hs) <;>
        exact ⟨by first | exact h1.tail | exact h1, by simp [Th.ret, LocNoG], .of_eq rfl⟩
    · split at hs <;> obtain ⟨rfl, rfl⟩ := Prod.mk.inj (Option.some.inj hs) <;>
        exact ⟨by first | exact h1.tail | exact h1, by simp [Th.ret, LocNoG], .of_eq rfl⟩
    · obtain ⟨rfl, rfl⟩ := Prod.mk.inj (Option.some.inj hs)
      exact ⟨h1, by simp [LocNoG], .of_eq rfl⟩
    · obtain ⟨rfl, rfl⟩ := Prod.mk.inj (Option.some.inj hs)
      exact ⟨h1.tail, by simp [Th.ret, LocNoG], .of_eq rfl⟩
  · split at hs
    · split at hs
      · obtain ⟨rfl, rfl⟩ := Prod.mk.inj (Option.some.inj hs)
        exact ⟨h1, by simp [LocNoG], .of_eq rfl⟩
      · simp at hs
    · split at hs
      · obtain ⟨rfl, rfl⟩ := Prod.mk.inj (Option.some.inj hs)
        exact ⟨h1.tail, by simp [Th.ret, LocNoG], .of_eq rfl⟩
      · split at hs
        · obtain ⟨rfl, rfl⟩ := Prod.mk.inj (Option.some.inj hs)
          exact ⟨h1.tail, by simp [Th.ret, LocNoG], .of_eq rfl⟩
        · simp at hs
  · split at hs
    · obtain ⟨rfl, rfl⟩ := Prod.mk.inj (Option.some.inj hs)
      exact ⟨h1.tail, by simp [Th.ret, LocNoG], .of_eq rfl⟩
    · simp at hs
  · rename_i g hloc
    have hg : g = false := by cases g <;> simp_all [LocNoG]
    subst hg
    split at hs
    · obtain ⟨rfl, rfl⟩ := Prod.mk.inj (Option.some.inj hs)
      exact ⟨h1, by simp [LocNoG], .of_eq rfl⟩
    · simp at hs
    · obtain ⟨rfl, rfl⟩ := Prod.mk.inj (Option.some.inj hs)
      exact ⟨h1, by simp [LocNoG], .of_eq rfl⟩
  · rename_i g hloc
    have hg : g = false := by cases g <;> simp_all [LocNoG]
    subst hg
    split at hs
    · split at hs
      · split at hs
        · obtain ⟨rfl, rfl⟩ := Prod.mk.inj (Option.some.inj hs)
          exact ⟨h1, h2, .of_eq rfl⟩
        · obtain ⟨rfl, rfl⟩ := Prod.mk.inj (Option.some.inj hs)
          exact ⟨h1, by simp [LocNoG], .of_eq rfl⟩
      · simp at hs
    · simp at hs
  · rename_i g hloc
    have hg : g = false := by cases g <;> simp_all [LocNoG]
    subst hg
    split at hs
    · obtain ⟨rfl, rfl⟩ := Prod.mk.inj (Option.some.inj hs)
      exact ⟨h1, by simp [LocNoG], .of_eq rfl⟩
    · simp at hs
  · rename_i g i hloc
    have hg : g = false := by cases g <;> simp_all [LocNoG]
    subst hg
    split at hs
    · obtain ⟨rfl, rfl⟩ := Prod.mk.inj (Option.some.inj hs)
      exact ⟨h1, by simp [LocNoG], setNdone_ck s i⟩
    · obtain ⟨rfl, rfl⟩ := Prod.mk.inj (Option.some.inj hs)
      exact ⟨h1.tail, by simp [Th.ret, LocNoG], .of_eq rfl⟩
  · rename_i g i hloc
    have hg : g = false := by cases g <;> simp_all [LocNoG]
    subst hg
    split at hs
    · obtain ⟨rfl, rfl⟩ := Prod.mk.inj (Option.some.inj hs)
      exact ⟨h1, by simp [LocNoG], .of_eq rfl⟩
    · simp at hs
  · split at hs
    · obtain ⟨rfl, rfl⟩ := Prod.mk.inj (Option.some.inj hs)
      exact ⟨h1.tail, by simp [Th.ret, LocNoG], .of_eq rfl⟩
    · simp at hs
  · split at hs
    · obtain ⟨rfl, rfl⟩ := Prod.mk.inj (Option.some.inj hs)
      exact ⟨h1.tail, by simp [Th.ret, LocNoG], .of_eq rfl⟩
    · simp at hs
  · split at hs
    · obtain ⟨rfl, rfl⟩ := Prod.mk.inj (Option.some.inj hs)
      exact ⟨h1.tail, by simp [Th.ret, LocNoG], .of_eq rfl⟩
    · simp at hs


theorem enqueue_ck (s : State) (i e : Nat) : StreamsCk s (enqueue s i e) := by
  intro j st' hj
  obtain ⟨st, h1, h2, _, h4, _⟩ := enqueue_stream s i e j st' hj
  exact ⟨st, h1, h4, h2⟩

theorem delStep_streams {s s' : State} {fin : Bool} (h : delStep s = some (s', fin)) : s'.streams = s.streams := by
  rcases delStep_cases h with ⟨_, rfl, _⟩ | ⟨_, c, cd, _, rfl | ⟨_, _, rfl⟩⟩ <;> rfl

theorem loopStep_ck {s s' : State} (hs : loopStep s = some s') : StreamsCk s s' := by
  unfold loopStep at hs
  split at hs
  · split at hs
    · obtain rfl := Option.some.inj hs; exact .of_eq rfl
    · simp at hs
  · obtain rfl := Option.some.inj hs; exact .of_eq rfl
  · simp only at hs
    split at hs
    · split at hs
      · obtain rfl := Option.some.inj hs; exact .of_eq rfl
      · simp at hs
    · obtain rfl := Option.some.inj hs; exact .of_eq rfl
    · obtain rfl := Option.some.inj hs; exact .of_eq rfl
    · obtain rfl := Option.some.inj hs; exact enqueue_ck _ _ _
    · split at hs
      · split at hs
        · obtain rfl := Option.some.inj hs; exact .of_eq (by simp)
        · obtain rfl := Option.some.inj hs; exact .of_eq rfl
      · obtain rfl := Option.some.inj hs; exact .of_eq rfl
    · obtain rfl := Option.some.inj hs; exact .of_eq (by simp)
    · obtain rfl := Option.some.inj hs; exact .of_eq rfl
    · obtain rfl := Option.some.inj hs; exact .of_eq rfl
  · split at hs
    · simp at hs
    · rename_i hd; obtain rfl := Option.some.inj hs; exact .of_eq (delStep_streams hd :)
  · obtain rfl := Option.some.inj hs; exact .of_eq (by simp)
  · split at hs
    · obtain rfl := Option.some.inj hs; exact .of_eq rfl
    · simp at hs
  · split at hs
    · simp at hs
    · rename_i hd; obtain rfl := Option.some.inj hs; exact .of_eq (delStep_streams hd :)
  · obtain rfl := Option.some.inj hs; exact .of_eq rfl
  · obtain rfl := Option.some.inj hs; exact .of_eq rfl
  · obtain rfl := Option.some.inj hs; exact enqueue_ck _ _ _
  · obtain rfl := Option.some.inj hs; exact .of_eq rfl
  · simp at hs

theorem rlStep_streams {s s' : State} {c : Nat} {alt : Bool} (hs : rlStep s c alt = some s') : s'.streams = s.streams := by
  unfold rlStep at hs
  (repeat' split at hs) <;> first
    | (simp at hs; done)
    | (obtain rfl := Option.some.inj hs; rfl)

/-- `Contract` after thread `t` has been replaced by a thread that respects it. -/
theorem Contract.setTh {s s1 : State} (h : Contract s) (ck : StreamsCk s s1) (t : Tid) (x : Th)
    (hx : ∀ i, t = .dr i → NoG x.prog ∧ LocNoG x.loc) : Contract (setTh s1 t x) := by
  intro j st' hj
  obtain ⟨st1, h1, _, _, _, h5, h6⟩ := setTh_streams s1 t x j st' hj
  obtain ⟨st, h0, h2, h3⟩ := ck j st1 h1
  obtain ⟨a1, a2, a3⟩ := h j st h0
  refine ⟨by rw [h5, h2]; exact a1, ?_⟩
  rcases h6 with ⟨rfl, e⟩ | ⟨_, e⟩
  · rw [e]; exact hx j rfl
  · rw [e, h3]; exact ⟨a2, a3⟩

theorem NoG_hdlOf {st : Stream} (h : ∀ p ∈ st.hdl, NoG p) (e : Nat) : NoG (hdlOf st e) := by
  unfold hdlOf
  rcases Nat.lt_or_ge e st.hdl.length with h1 | h1
  · rw [List.getD_eq_getElem?_getD, List.getElem?_eq_getElem h1]; exact h _ (List.getElem_mem h1)
  · rw [List.getD_eq_getElem?_getD, List.getElem?_eq_none h1]; simp [NoG]

theorem contract_env {s s' : State} {a : Action} (h : Contract s) (hs : envStep s a = some s') : Contract s' := by
  cases a with
  | envData c =>
    simp only [envStep] at hs
    split at hs
    · split at hs
      · obtain rfl := Option.some.inj hs; exact h.ck (.of_eq rfl)
      · simp at hs
    · simp at hs
  | envLoopWrite =>
    simp only [envStep] at hs
    split at hs
    · obtain rfl := Option.some.inj hs; exact h.ck (.of_eq rfl)
    · simp at hs
  | envTh t =>
    simp only [envStep] at hs
    split at hs
    · simp at hs
    · rename_i th hget
      have hx : ∀ i, t = Tid.dr i → NoG (th.ret .ok).prog ∧ LocNoG (th.ret .ok).loc := by
        intro i e; subst e
        simp only [getTh] at hget
        cases hst : s.streams[i]? with
        | none => simp [hst] at hget
        | some st =>
          simp [hst] at hget; subst hget
          exact ⟨(h i st hst).2.1.tail, by simp [Th.ret, LocNoG]⟩
      split at hs
      · obtain rfl := Option.some.inj hs; exact h.setTh (.of_eq rfl) _ _ hx
      · split at hs
        · obtain rfl := Option.some.inj hs
          exact h.setTh (s1 := { s with bufData := s.bufData - 1 }) (.of_eq rfl) _ _ hx
        · simp at hs
      · obtain rfl := Option.some.inj hs; exact h.setTh (.of_eq rfl) _ _ hx
      · simp at hs
  | loop => simp [envStep] at hs
  | th t alt => simp [envStep] at hs
  | rl c alt => simp [envStep] at hs

theorem contract_step {s s' : State} {a : Action} (h : Contract s) (hs : step s a = some s') : Contract s' := by
  unfold step at hs
  split at hs
  · exact h.ck (loopStep_ck hs)
  · rename_i t alt
    unfold thStep at hs
    split at hs
    · simp at hs
    · rename_i n
      split at hs
      · simp at hs
      · split at hs
        · simp at hs
        · split at hs
          · obtain rfl := Option.some.inj hs
            exact h.setTh (.of_eq rfl) _ _ (fun i e => by cases e)
          · split at hs
            · simp at hs
            · rename_i th _ _ _ s1 th' hc
              obtain rfl := Option.some.inj hs
              -- an API thread: the streams of `s1` differ from those of `s` by `ndone` flags at most
              have ck : StreamsCk s s1 := by
                unfold callStep at hc
                (repeat' split at hc) <;> first
                  | (simp at hc; done)
                  | (obtain ⟨rfl, _⟩ := Prod.mk.inj (Option.some.inj hc); first | exact .of_eq rfl | exact setNdone_ck _ _)
              exact h.setTh ck _ _ (fun i e => by cases e)
    · rename_i i
      split at hs
      · simp at hs
      · rename_i st hst
        obtain ⟨a1, a2, a3⟩ := h i st hst
        have hlt : i < s.streams.length := by
          rcases Nat.lt_or_ge i s.streams.length with h1 | h1
          · exact h1
          · simp [List.getElem?_eq_none h1] at hst
        have ckset : ∀ st2 : Stream, st2.hdl = st.hdl → st2.th = st.th →
            StreamsCk s { s with streams := s.streams.set i st2 } := by
          intro st2 e1 e2 j st' hj
          simp only [List.getElem?_set] at hj
          split at hj
          · subst_vars; simp at hj; subst hj; exact ⟨st, hst, e1, e2⟩
          · exact ⟨st', hj, rfl, rfl⟩
        split at hs
        · simp at hs
        · split at hs
          · rename_i hidle
            simp at hidle
            split at hs
            · obtain rfl := Option.some.inj hs
              exact h.ck (ckset _ rfl rfl)
            · rename_i e q _
              obtain rfl := Option.some.inj hs
              refine h.setTh (ckset { st with queue := q } rfl rfl) (.dr i) { st.th with prog := hdlOf st e } (fun _ _ => ⟨NoG_hdlOf a1 e, ?_⟩)
              show LocNoG st.th.loc
              rw [hidle.1]; simp [LocNoG]
          · split at hs
            · simp at hs
            · rename_i s1 th' hc
              obtain rfl := Option.some.inj hs
              obtain ⟨b1, b2, b3⟩ := callStep_noG hc a2 a3
              exact h.setTh b3 _ _ (fun _ _ => ⟨b1, b2⟩)
  · exact h.ck (.of_eq (rlStep_streams hs))
  · exact contract_env h hs

theorem reach_contract {s0 s : State} (h0 : Contract s0) (hr : Reach s0 s) : Contract s := by
  induction hr with
  | init => exact h0
  | step a _ hs ih => exact contract_step ih hs

end IceProofs.CloseSys
