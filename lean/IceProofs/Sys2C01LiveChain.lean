import IceProofs.Sys2C01LiveSys
/-!
# C01 liveness, layer 5 — obligations in flight

An agent `x` that has sent a check `la → ra` over a `Link` holds an open transaction (`Ob`).  While the request, or
the peer's answer, is in flight the transaction stays open (`ob_stable`), delivering the request makes the peer
answer (`hop_req`), delivering the answer validates the pair — and selects it for a nomination (`hop_resp`).
-/
namespace IceProofs.C01Live
open IceModel.AgentCore IceModel.Sys2 IceProofs.Sys2Run IceProofs.C01 IceProofs.Agent

section
variable {nat blocked : List (Nat × Nat)} {SLA SLB SR : Nat → Prop} {liteA liteB : Bool} {T0 H : Nat} {c : Bool}

/-! ## the effect of one delivery of the head of the queue -/

/-- what happened to agent `x` -/
def Touched (T0 : Nat) (s s' : Sys) (hd : Dgram) (t : List Dgram) (x : Bool) : Prop :=
  ∃ m, hd.p = .stun m ∧ s.owner (s.unmapped hd.dst) = some x ∧ (hd.src, hd.dst) ∉ s.blocked ∧
    s'.agent x = (step (s.agent x) (.inbound s.now (s.unmapped hd.dst) (s.mapped hd.src) m)).1 ∧
    s'.agent (!x) = s.agent (!x) ∧
    LK T0 s.now (if m.cls = 2 then some m.tid else none) (s.agent x) (s'.agent x) ∧
    s'.inflight = t ++ dgramsOf (step (s.agent x) (.inbound s.now (s.unmapped hd.dst) (s.mapped hd.src) m)).2

structure Effect (T0 : Nat) (s s' : Sys) (hd : Dgram) (t : List Dgram) : Prop where
  net : SameNet s s'
  now : s'.now = s.now
  ids : ∀ x, SameId (s.agent x) (s'.agent x)
  cases : (s'.inflight = t ∧ (∀ x, s'.agent x = s.agent x) ∧
      ((hd.src, hd.dst) ∈ s.blocked ∨ s.owner (s.unmapped hd.dst) = none)) ∨ ∃ x, Touched T0 s s' hd t x

theorem sameNet_of {s s' : Sys} (hn : s'.nat = s.nat) (hb : s'.blocked = s.blocked) (hh : s'.hasB = s.hasB)
    (hl : ∀ x, (s'.agent x).locals.map ckey = (s.agent x).locals.map ckey)
    (hc : ∀ x, (s'.agent x).closed = (s.agent x).closed) : SameNet s s' := by
  refine ⟨hn, hb, fun x => ?_⟩
  rw [owner_eq, owner_eq, hh]
  have ea := localByAddr_isSome_congr (hl false) x
  have eb := localByAddr_isSome_congr (hl true) x
  have ca := hc false
  have cb := hc true
  simp only [Sys.agent, Bool.false_eq_true, if_false, if_true] at ea eb ca cb
  rw [ea, eb, ca, cb]

theorem deliver0_effect {s : Sys} (h : SysOK nat blocked SLA SLB SR liteA liteB T0 H c s) {hd : Dgram} {t : List Dgram}
    (hs : s.inflight = hd :: t) :
    SysOK nat blocked SLA SLB SR liteA liteB T0 H c (Sys.run s (.deliver 0)) ∧ Effect T0 s (Sys.run s (.deliver 0)) hd t := by
  refine ⟨h.deliver 0 false, ?_⟩
  rcases deliver0_cases s hd t hs with ⟨e, hwhy⟩ | ⟨z, hnb, hown, e⟩
  · rw [e]
    exact ⟨⟨rfl, rfl, fun _ => rfl⟩, rfl, fun x => by cases x <;> exact SameId.refl _,
      Or.inl ⟨rfl, fun x => by cases x <;> rfl, hwhy⟩⟩
  · rw [e]
    obtain ⟨m, hm⟩ := (h.flight hd (by rw [hs]; exact List.mem_cons_self)).1
    have hev : evOf s hd = .inbound s.now (s.unmapped hd.dst) (s.mapped hd.src) m := by unfold evOf; rw [hm]
    rw [hev]
    have hok := (h.flight hd (by rw [hs]; exact List.mem_cons_self)).hok hm z
    obtain ⟨g1, k1, i1⟩ := step_inbound_good h.time0 h.timeH (h.good z) (s.unmapped hd.dst) (s.mapped hd.src) m hok
    have hsame := agentEv_agent_same ({ s with inflight := t } : Sys) z (.inbound s.now (s.unmapped hd.dst) (s.mapped hd.src) m)
    have hother := agentEv_agent_other ({ s with inflight := t } : Sys) z (.inbound s.now (s.unmapped hd.dst) (s.mapped hd.src) m)
    have hag : ∀ x, ({ s with inflight := t } : Sys).agent x = s.agent x := fun x => by cases x <;> rfl
    rw [hag] at hsame hother
    obtain ⟨q1, q2, q3, q4⟩ := agentEv_static ({ s with inflight := t } : Sys) z (.inbound s.now (s.unmapped hd.dst) (s.mapped hd.src) m)
    have hidx : ∀ x, SameId (s.agent x) ((({ s with inflight := t } : Sys).agentEv z
        (.inbound s.now (s.unmapped hd.dst) (s.mapped hd.src) m)).1.agent x) := by
      intro x
      by_cases hx : x = z
      · subst hx; rw [hsame]; exact i1
      · rw [bool_ne_eq_not hx, hother]; exact SameId.refl _
    have hlocx : ∀ x, ((({ s with inflight := t } : Sys).agentEv z
        (.inbound s.now (s.unmapped hd.dst) (s.mapped hd.src) m)).1.agent x).locals.map ckey = (s.agent x).locals.map ckey := by
      intro x
      by_cases hx : x = z
      · subst hx; rw [hsame]; exact k1.locals
      · rw [bool_ne_eq_not hx, hother]
    refine ⟨sameNet_of q1 q2 q3 hlocx (fun x => (hidx x).closed), q4, hidx, Or.inr ⟨z, m, hm, hown, hnb, hsame, hother, ?_, ?_⟩⟩
    · rw [hsame]; exact k1
    · rw [agentEv_inflight]; rfl

/-- the datagrams that stay in flight when datagram `k` is delivered (`keep`: a copy is delivered) -/
def restOf (s : Sys) (k : Nat) (keep : Bool) : List Dgram := if keep then s.inflight else removeAt s.inflight k

theorem mem_restOf_or {s : Sys} {k : Nat} {keep : Bool} {hd d : Dgram} (hk : s.inflight[k]? = some hd) (hd' : d ∈ s.inflight) :
    d ∈ restOf s k keep ∨ d = hd := by
  unfold restOf
  cases keep with
  | true => exact Or.inl hd'
  | false =>
    simp only [Bool.false_eq_true, if_false]
    obtain ⟨i, hi⟩ := List.getElem?_of_mem hd'
    by_cases hik : i = k
    · subst hik; rw [hk] at hi; cases hi; exact Or.inr rfl
    · left
      unfold removeAt
      rcases Nat.lt_or_ge i k with hlt | hge
      · exact List.mem_append_left _ (List.mem_of_getElem? (by rw [List.getElem?_take_of_lt hlt]; exact hi))
      · have : i = (k + 1) + (i - (k + 1)) := by omega
        exact List.mem_append_right _ (List.mem_of_getElem? (i := i - (k + 1)) (by rw [List.getElem?_drop, ← this]; exact hi))

/-- one delivery (or duplication) of the datagram at position `k` -/
theorem deliver_effect {s : Sys} (h : SysOK nat blocked SLA SLB SR liteA liteB T0 H c s) {k : Nat} (keep : Bool) {hd : Dgram}
    (hk : s.inflight[k]? = some hd) :
    SysOK nat blocked SLA SLB SR liteA liteB T0 H c (s.deliver k keep).1 ∧
    Effect T0 s (s.deliver k keep).1 hd (restOf s k keep) := by
  refine ⟨h.deliver k keep, ?_⟩
  have hmem : hd ∈ s.inflight := List.mem_of_getElem? hk
  rw [deliver_eq, hk]
  simp only []
  -- the state the datagram is handed over in
  have hs1 : ∀ keep : Bool, (if keep then s else { s with inflight := removeAt s.inflight k }) =
      ({ s with inflight := restOf s k keep } : Sys) := by
    intro keep; cases keep <;> simp [restOf]
  rw [hs1 keep, handOver_eq]
  have hag : ∀ x, ({ s with inflight := restOf s k keep } : Sys).agent x = s.agent x := fun x => by cases x <;> rfl
  split
  · rename_i hb
    exact ⟨⟨rfl, rfl, fun _ => rfl⟩, rfl, fun x => by cases x <;> exact SameId.refl _,
      Or.inl ⟨rfl, fun x => by cases x <;> rfl, Or.inl (by simpa using hb)⟩⟩
  · rename_i hb
    cases ho : ({ s with inflight := restOf s k keep } : Sys).owner (({ s with inflight := restOf s k keep } : Sys).unmapped hd.dst) with
    | none =>
      exact ⟨⟨rfl, rfl, fun _ => rfl⟩, rfl, fun x => by cases x <;> exact SameId.refl _,
        Or.inl ⟨rfl, fun x => by cases x <;> rfl, Or.inr ho⟩⟩
    | some z =>
      simp only []
      obtain ⟨m, hm⟩ := (h.flight hd hmem).1
      have hev : evOf ({ s with inflight := restOf s k keep } : Sys) hd = .inbound s.now (s.unmapped hd.dst) (s.mapped hd.src) m := by
        unfold evOf; rw [hm]; rfl
      have hok := (h.flight hd hmem).hok hm z
      obtain ⟨g1, k1, i1⟩ := step_inbound_good h.time0 h.timeH (h.good z) (s.unmapped hd.dst) (s.mapped hd.src) m hok
      have hsame := agentEv_agent_same ({ s with inflight := restOf s k keep } : Sys) z (.inbound s.now (s.unmapped hd.dst) (s.mapped hd.src) m)
      have hother := agentEv_agent_other ({ s with inflight := restOf s k keep } : Sys) z (.inbound s.now (s.unmapped hd.dst) (s.mapped hd.src) m)
      rw [hag] at hsame hother
      obtain ⟨q1, q2, q3, q4⟩ := agentEv_static ({ s with inflight := restOf s k keep } : Sys) z (.inbound s.now (s.unmapped hd.dst) (s.mapped hd.src) m)
      have hidx : ∀ x, SameId (s.agent x) ((({ s with inflight := restOf s k keep } : Sys).agentEv z
          (.inbound s.now (s.unmapped hd.dst) (s.mapped hd.src) m)).1.agent x) := by
        intro x
        by_cases hx : x = z
        · subst hx; rw [hsame]; exact i1
        · rw [bool_ne_eq_not hx, hother]; exact SameId.refl _
      have hlocx : ∀ x, ((({ s with inflight := restOf s k keep } : Sys).agentEv z
          (.inbound s.now (s.unmapped hd.dst) (s.mapped hd.src) m)).1.agent x).locals.map ckey = (s.agent x).locals.map ckey := by
        intro x
        by_cases hx : x = z
        · subst hx; rw [hsame]; exact k1.locals
        · rw [bool_ne_eq_not hx, hother]
      have key : Effect T0 s (({ s with inflight := restOf s k keep } : Sys).agentEv z
          (.inbound s.now (s.unmapped hd.dst) (s.mapped hd.src) m)).1 hd (restOf s k keep) := by
        refine ⟨sameNet_of q1 q2 q3 hlocx (fun x => (hidx x).closed), q4, hidx,
          Or.inr ⟨z, m, hm, ho, by simpa using hb, hsame, hother, ?_, ?_⟩⟩
        · rw [hsame]; exact k1
        · rw [agentEv_inflight]; rfl
      rw [hev]
      cases z <;> exact key

/-! ## open transactions -/

/-- agent `x` has the transaction `tid` pending: an ordinary / nominating check sent at `ts` from `la` to `ra` -/
def PendFor (s : Sys) (x : Bool) (tid la ra : Nat) (uc : Bool) (ts : Nat) : Prop :=
  ∃ pd, (s.agent x).pending.find? (·.tid == tid) = some pd ∧ pd.src = la ∧ pd.dest = ra ∧ pd.net = 0 ∧
    pd.useCand = uc ∧ pd.nom = none ∧ pd.ts = ts

/-- the pair a response on the route `la → ra` will be looked up to (`nomOn`: it carries the deferred-nomination
mark — or the mark has been acted upon by another response on this pair and the agent has a selected pair) -/
def Slot (s : Sys) (x : Bool) (la ra : Nat) (nomOn : Bool) : Prop :=
  ∃ l r p, (s.agent x).localByAddr la = some l ∧ (s.agent x).findRemote 0 ra = some r ∧
    (s.agent x).findPair l r = some p ∧ (nomOn = true → p.nomOnSuccess = true ∨ (s.agent x).selected.isSome = true)

structure Ob (s : Sys) (x : Bool) (tid la ra : Nat) (uc nomOn : Bool) (ts : Nat) : Prop where
  link : Link s x la ra
  pend : PendFor s x tid la ra uc ts
  slot : Slot s x la ra nomOn
  young : s.now - ts < maxBindingRequestTimeout

/-- datagram `d` is the Binding request of that transaction … -/
def ReqD (s : Sys) (x : Bool) (tid la ra : Nat) (uc : Bool) (d : Dgram) : Prop :=
  d.src = la ∧ d.dst = ra ∧ ∃ m, d.p = .stun m ∧ IsReq (s.agent x) uc m ∧ m.tid = tid

/-- … resp. a success response to it that verifies at `x` -/
def RespD (s : Sys) (x : Bool) (tid la ra : Nat) (d : Dgram) : Prop :=
  d.src = s.unmapped ra ∧ d.dst = s.mapped la ∧
    ∃ m, d.p = .stun m ∧ m.cls = 2 ∧ m.method = 1 ∧ m.tid = tid ∧ m.key = some (s.agent x).remotePwd

def HasSucc (s : Sys) (x : Bool) : Prop := ∃ p ∈ (s.agent x).checklist, p.state = .succeeded
def Sel (s : Sys) (x : Bool) : Prop := (s.agent x).selected.isSome = true

/-- what the completed transaction gives: a valid pair; a selected pair for the controlling agent's nomination and
for a marked pair of the controlled agent -/
def Goal (c : Bool) (s : Sys) (x : Bool) (uc nomOn : Bool) : Prop :=
  HasSucc s x ∧ ((((x == c) && uc) || ((x != c) && nomOn)) = true → Sel s x)

theorem Effect.mem_tail {s s' : Sys} {hd : Dgram} {t : List Dgram} (he : Effect T0 s s' hd t) {d : Dgram} (hd' : d ∈ t) :
    d ∈ s'.inflight := by
  rcases he.cases with ⟨e, _, _⟩ | ⟨x, m, _, _, _, _, _, _, e⟩
  · rw [e]; exact hd'
  · rw [e]; exact List.mem_append_left _ hd'

theorem Effect.agent_ne {s s' : Sys} {hd : Dgram} {t : List Dgram} (he : Effect T0 s s' hd t) {x : Bool}
    (hx : s.owner (s.unmapped hd.dst) ≠ some x) : s'.agent x = s.agent x := by
  rcases he.cases with ⟨_, e, _⟩ | ⟨y, m, _, hown, _, _, ho, _, _⟩
  · exact e x
  · by_cases hxy : x = y
    · subst hxy; exact absurd hown hx
    · rw [bool_ne_eq_not hxy]; exact ho

theorem ReqD.keep {s s' : Sys} {hd : Dgram} {t : List Dgram} (he : Effect T0 s s' hd t) {x : Bool} {tid la ra : Nat}
    {uc : Bool} {d : Dgram} (h : ReqD s x tid la ra uc d) : ReqD s' x tid la ra uc d := by
  obtain ⟨h1, h2, m, h3, h4, h5⟩ := h
  exact ⟨h1, h2, m, h3, h4.congr (he.ids x), h5⟩

theorem RespD.keep {s s' : Sys} {hd : Dgram} {t : List Dgram} (he : Effect T0 s s' hd t) {x : Bool} {tid la ra : Nat}
    {d : Dgram} (h : RespD s x tid la ra d) : RespD s' x tid la ra d := by
  obtain ⟨h1, h2, m, h3, h4, h5, h6, h7⟩ := h
  have hm : ∀ y, s'.mapped y = s.mapped y := fun y => by simp [Sys.mapped, he.net.1]
  have hu : ∀ y, s'.unmapped y = s.unmapped y := fun y => by simp [Sys.unmapped, he.net.1]
  exact ⟨by rw [hu]; exact h1, by rw [hm]; exact h2, m, h3, h4, h5, h6, by rw [(he.ids x).remotePwd]; exact h7⟩

theorem young_lt {now ts : Nat} (h : now - ts ≤ 2000000000) : now - ts < maxBindingRequestTimeout := by
  unfold maxBindingRequestTimeout; omega

/-- the transaction stays open across a delivery — unless the delivered datagram is a success response with its
transaction id, handed to `x`. -/
theorem Ob.keep {s s' : Sys} (h : SysOK nat blocked SLA SLB SR liteA liteB T0 H c s) {hd : Dgram} {t : List Dgram}
    (he : Effect T0 s s' hd t) {x : Bool} {tid la ra : Nat} {uc nomOn : Bool} {ts : Nat} (hob : Ob s x tid la ra uc nomOn ts)
    (hne : ∀ m, hd.p = .stun m → m.cls = 2 → m.tid = tid → s.owner (s.unmapped hd.dst) ≠ some x) :
    Ob s' x tid la ra uc nomOn ts := by
  refine ⟨he.net.link hob.link, ?_, ?_, by rw [he.now]; exact hob.young⟩
  · obtain ⟨pd, h1, h2⟩ := hob.pend
    rcases he.cases with ⟨_, e, _⟩ | ⟨y, m, hm, hown, _, _, ho, k, _⟩
    · exact ⟨pd, by rw [e]; exact h1, h2⟩
    · by_cases hxy : x = y
      · subst hxy
        refine ⟨pd, k.pend tid pd h1 (by rw [h2.2.2.2.2.2]; exact hob.young) ?_, h2⟩
        split
        · rename_i hc
          intro e
          simp only [Option.some.injEq] at e
          exact hne m hm hc e.symm hown
        · simp
      · have e : s'.agent x = s.agent x := by rw [bool_ne_eq_not hxy]; exact ho
        exact ⟨pd, by rw [e]; exact h1, h2⟩
  · obtain ⟨l, r, p, h1, h2, h3, h4⟩ := hob.slot
    rcases he.cases with ⟨_, e, _⟩ | ⟨y, m, hm, hown, _, _, ho, k, _⟩
    · exact ⟨l, r, p, by rw [e]; exact h1, by rw [e]; exact h2, by rw [e]; exact h3, by rw [e]; exact h4⟩
    · by_cases hxy : x = y
      · subst hxy
        obtain ⟨l', hl', el⟩ := k.localByAddr h1
        obtain ⟨r', hr', er⟩ := k.findRemote h2
        obtain ⟨p', hp', kp⟩ := k.findPair (endsOK_of_c06 (h.c06 x) (h.good x).open_) el er.key h3
        exact ⟨l', r', p', hl', hr', hp', fun hn => (h4 hn).elim
          (fun hm => (kp.nomOn hm).imp (fun y => y) (fun f => f (h.good x).linv)) (fun hs => Or.inr (k.sel hs))⟩
      · have e : s'.agent x = s.agent x := by rw [bool_ne_eq_not hxy]; exact ho
        exact ⟨l, r, p, by rw [e]; exact h1, by rw [e]; exact h2, by rw [e]; exact h3, by rw [e]; exact h4⟩

/-- success responses in flight for a pending transaction travel on its route (C01 safety invariant K2/K3). -/
theorem resp_route {s : Sys} {LA LB : Log} (hsi : SInv nat blocked SLA SLB SR liteA liteB s LA LB) {x : Bool} {pd : Pending}
    (hpd : pd ∈ (s.agent x).pending) {d : Dgram} (hd : d ∈ s.inflight) {m : Msg} (hm : d.p = .stun m) (hc : m.cls = 2)
    (ht : m.tid = pd.tid) : d.src = s.unmapped pd.dest ∧ d.dst = s.mapped pd.src := by
  obtain ⟨l0, r0, hlog, h1, h2, _, _⟩ := hsi.k2 d hd m hm hc
  have hun : ∀ y, s.unmapped y = unmappedL nat y := fun y => by rw [unmapped_eq, hsi.nat_eq]
  have hma : ∀ y, s.mapped y = mappedL nat y := fun y => by rw [mapped_eq, hsi.nat_eq]
  have key : l0 = pd.src ∧ r0 = pd.dest := by
    cases x with
    | false =>
      have hp := hsi.invA.pendOK (pdv pd) (List.mem_map.mpr ⟨pd, hpd, rfl⟩)
      rcases List.mem_append.mp hlog with hl | hl
      · have := hsi.invA.logFun _ hl _ hp (by simp [pdv, ht])
        simp [pdv] at this
        exact ⟨this.2.1, this.2.2⟩
      · obtain ⟨n1, _, e1⟩ := hsi.invA.logOK _ hp
        obtain ⟨n2, _, e2⟩ := hsi.invB.logOK _ hl
        simp only [pdv] at e1 e2
        omega
    | true =>
      have hp := hsi.invB.pendOK (pdv pd) (List.mem_map.mpr ⟨pd, hpd, rfl⟩)
      rcases List.mem_append.mp hlog with hl | hl
      · obtain ⟨n1, _, e1⟩ := hsi.invB.logOK _ hp
        obtain ⟨n2, _, e2⟩ := hsi.invA.logOK _ hl
        simp only [pdv] at e1 e2
        omega
      · have := hsi.invB.logFun _ hl _ hp (by simp [pdv, ht])
        simp [pdv] at this
        exact ⟨this.2.1, this.2.2⟩
  rw [hun, hma, ← key.1, ← key.2]
  exact ⟨h1, h2⟩

/-! ## the two hops -/

theorem mem_dgramsOf_of_dgram {o : List Out} {f t : Nat} {m : Msg} (h : Out.dgram f t m ∈ o) :
    ({ src := f, dst := t, p := .stun m } : Dgram) ∈ dgramsOf o := by
  unfold dgramsOf
  exact List.mem_filterMap.mpr ⟨_, h, rfl⟩

/-- nothing changed for agent `x` -/
theorem Ob.of_agent_eq {s s' : Sys} (hn : SameNet s s') (hnow : s'.now = s.now) {x : Bool} (e : s'.agent x = s.agent x)
    {tid la ra : Nat} {uc nomOn : Bool} {ts : Nat} (hob : Ob s x tid la ra uc nomOn ts) : Ob s' x tid la ra uc nomOn ts := by
  obtain ⟨pd, h1, h2⟩ := hob.pend
  obtain ⟨l, r, p, g1, g2, g3, g4⟩ := hob.slot
  exact ⟨hn.link hob.link, ⟨pd, by rw [e]; exact h1, h2⟩, ⟨l, r, p, by rw [e]; exact g1, by rw [e]; exact g2, by rw [e]; exact g3, by rw [e]; exact g4⟩,
    by rw [hnow]; exact hob.young⟩

/-- a success response with the transaction id of an open transaction of `x` arrives at the head of the queue:
it is handed to `x` on the transaction's route; either it does not verify (nothing changes) or the transaction
completes. -/
theorem hop_resp {s s' : Sys} (h : SysOK nat blocked SLA SLB SR liteA liteB T0 H c s) {hd : Dgram} {t : List Dgram}
    (he : Effect T0 s s' hd t) (hmem : hd ∈ s.inflight) {x : Bool} {tid la ra : Nat} {uc nomOn : Bool} {ts : Nat}
    (hob : Ob s x tid la ra uc nomOn ts) {m : Msg} (hm : hd.p = .stun m) (hc : m.cls = 2) (ht : m.tid = tid) :
    (Goal c s' x uc nomOn ∨ Ob s' x tid la ra uc nomOn ts) ∧
    (m.method = 1 → m.key = some (s.agent x).remotePwd → Goal c s' x uc nomOn) := by
  obtain ⟨LA, LB, hsi⟩ := h.sinv
  obtain ⟨pd, hpd, p1, p2, p3, p4, p5, p6⟩ := hob.pend
  have hpdm : pd ∈ (s.agent x).pending := List.mem_of_find?_eq_some hpd
  have hpt : pd.tid = tid := by simpa using List.find?_some hpd
  obtain ⟨r1, r2⟩ := resp_route hsi hpdm hmem hm hc (ht.trans hpt.symm)
  rw [p1] at r2
  rw [p2] at r1
  have hnb : (hd.src, hd.dst) ∉ s.blocked := by rw [r1, r2]; exact hob.link.back
  have hown : s.owner (s.unmapped hd.dst) = some x := by rw [r2, hob.link.saneL]; exact hob.link.ownL
  rcases he.cases with ⟨_, _, hw⟩ | ⟨y, m', hm', hown', _, hst, ho, k, _⟩
  · rcases hw with hw | hw
    · exact absurd hw hnb
    · rw [hown] at hw; cases hw
  · rw [hown] at hown'
    cases hown'
    rw [hm] at hm'
    cases hm'
    rw [r2, hob.link.saneL, r1, hob.link.saneR] at hst
    obtain ⟨l, r, p, g1, g2, g3, g4⟩ := hob.slot
    by_cases hv : m.method = 1 ∧ m.key = some (s.agent x).remotePwd
    · suffices hg : Goal c s' x uc nomOn from ⟨Or.inl hg, fun _ _ => hg⟩
      obtain ⟨v1, v2, v3⟩ := step_response_validates h.time0 h.timeH (h.good x) g1 hc hv.1 hv.2 g2 (by rw [ht]; exact hpd)
        (by rw [p6]; exact hob.young) p3 p2 p1 g3
      rw [← hst] at v1 v2 v3
      refine ⟨v1, fun hcond => ?_⟩
      have hrole := h.paired.role x
      simp only [Bool.or_eq_true, Bool.and_eq_true, beq_iff_eq, bne_iff_ne, ne_eq] at hcond
      rcases hcond with ⟨hxc, hu⟩ | ⟨hxc, hn⟩
      · exact v2 (by rw [hrole]; simp [hxc]) (by rw [p4]; exact hu) p5
      · rcases g4 hn with hmark | hsel
        · exact v3 (by rw [hrole]; simp [hxc]) hmark
        · exact k.sel hsel
    · refine ⟨Or.inr ?_, fun h1 h2 => absurd ⟨h1, h2⟩ hv⟩
      have hnoop := step_response_noop (now := s.now) (h.good x) (la := la) (src := ra) hc (by
        by_cases h1 : m.method = 1
        · right; left; intro hk; exact hv ⟨h1, hk⟩
        · left; exact h1)
      rw [hnoop] at hst
      exact hob.of_agent_eq he.net he.now hst

/-- the request of an open transaction of `x` arrives at the head of the queue: the peer answers; if it is the
controlling agent's nomination, the controlled agent selects a pair or opens a transaction of its own on the
marked pair. -/
theorem hop_req {s s' : Sys} (h : SysOK nat blocked SLA SLB SR liteA liteB T0 H c s) {hd : Dgram} {t : List Dgram}
    (he : Effect T0 s s' hd t) (hmem : hd ∈ s.inflight) {x : Bool} {tid la ra : Nat} {uc nomOn : Bool} {ts : Nat}
    (hob : Ob s x tid la ra uc nomOn ts) (hreq : ReqD s x tid la ra uc hd) :
    Ob s' x tid la ra uc nomOn ts ∧
    (∃ d' ∈ s'.inflight, RespD s' x tid la ra d') ∧
    (uc = true → x = c → Sel s' (!c) ∨
      ∃ tid', Ob s' (!c) tid' (s.unmapped ra) (s.mapped la) false true s'.now ∧
        ∃ d'' ∈ s'.inflight, ReqD s' (!c) tid' (s.unmapped ra) (s.mapped la) false d'') := by
  obtain ⟨e1, e2, m, hm, hreqm, hmt⟩ := hreq
  have hnb : (hd.src, hd.dst) ∉ s.blocked := by rw [e1, e2]; exact hob.link.fwd
  have hown : s.owner (s.unmapped hd.dst) = some (!x) := by rw [e2]; exact hob.link.ownR
  have hkeep : Ob s' x tid la ra uc nomOn ts :=
    hob.keep h he (fun m' hm' hc' _ => by rw [hm] at hm'; cases hm'; rw [hreqm.cls] at hc'; cases hc')
  refine ⟨hkeep, ?_⟩
  rcases he.cases with ⟨_, _, hw⟩ | ⟨y, m', hm', hown', _, hst, ho, k, hfl⟩
  · rcases hw with hw | hw
    · exact absurd hw hnb
    · rw [hown] at hw; cases hw
  · rw [hown] at hown'
    cases hown'
    rw [hm] at hm'
    cases hm'
    rw [e1, e2] at hst hfl
    -- the peer `y = !x`
    have hux := h.paired.ufrag x
    have hpx := h.paired.pwd x
    have huy := h.paired.ufrag (!x)
    rw [Bool.not_not] at huy
    have hauth : AuthRequest (s.agent (!x)) m :=
      ⟨hreqm.method, hreqm.cls, by rw [hreqm.user, hux, huy], by rw [hreqm.key, hpx]⟩
    have hnc : NoConflict (s.agent (!x)) m := by
      intro ctl tb hr
      rw [hreqm.role] at hr
      simp only [Option.some.injEq, Prod.mk.injEq] at hr
      rw [← hr.1, h.paired.role, h.paired.role]
      cases x <;> cases c <;> decide
    have hflt : (s.agent (!x)).cfg.blockedIPs.contains (ipOf (s.mapped la)) = false := by
      have := ((h.flight hd hmem).2 m hm hreqm.cls (!x) (by rw [hreqm.key, hpx])).2.2
      rw [e1] at this
      exact this
    obtain ⟨l, hl⟩ := Option.isSome_iff_exists.mp (owner_some_local s hob.link.ownR)
    have hans := step_request_answered h.time0 h.timeH (h.good (!x)) hl hauth hnc hflt
    have hm' : ∀ y, s'.mapped y = s.mapped y := fun y => by simp [Sys.mapped, he.net.1]
    have hu' : ∀ y, s'.unmapped y = s.unmapped y := fun y => by simp [Sys.unmapped, he.net.1]
    have hxs : s'.agent x = s.agent x := by
      have := ho; rw [Bool.not_not] at this; exact this
    refine ⟨⟨_, by rw [hfl]; exact List.mem_append_right _ (mem_dgramsOf_of_dgram hans), ?_⟩, ?_⟩
    · refine ⟨by rw [hu'], by rw [hm'], respMsg (s.agent (!x)) m, rfl, rfl, rfl, hmt, ?_⟩
      rw [hxs, hpx]; rfl
    · intro huc hxc
      subst hxc
      subst huc
      have hctl : (s.agent (!x)).controlling = false := by rw [h.paired.role]; cases x <;> rfl
      rcases step_request_nominates h.time0 h.timeH (h.good (!x)) (h.c06 (!x)) hl hauth hnc hflt hctl hreqm.uc hreqm.nom with
        hsel | ⟨l', rc, q, mt, f1, f2, f3, f4, f5, f6, f7⟩
      · left
        show (s'.agent (!x)).selected.isSome = true
        rw [hst]; exact hsel
      · right
        rw [← hst] at f1 f2 f3 f7
        refine ⟨mt.tid, ⟨he.net.link hob.link.mirror, ⟨_, f7, rfl, rfl, rfl, rfl, rfl, ?_⟩, ⟨l', rc, q, f1, f2, f3, fun _ => Or.inl f4⟩, ?_⟩,
          _, by rw [hfl]; exact List.mem_append_right _ (mem_dgramsOf_of_dgram f5), rfl, rfl, mt, rfl, f6.congr (he.ids (!x)), rfl⟩
        · simp [pendOf, he.now]
        · simp [maxBindingRequestTimeout]

end

end IceProofs.C01Live
