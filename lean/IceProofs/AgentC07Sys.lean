import IceProofs.AgentC07Run
import IceModel.Sys2
/-!
# C07 on the two-agent system: what the hub does with an application datagram
-/
namespace IceProofs.AgentC07
open IceModel.AgentCore IceModel.Sys2

theorem findRemote_isSome_iff (a : Agent) (net addr : Nat) :
    (a.findRemote net addr).isSome = true ↔ ∃ r ∈ a.remotes, r.net = net ∧ r.addr = addr := by
  unfold Agent.findRemote
  rw [List.find?_isSome]
  constructor
  · rintro ⟨r, hr, h⟩
    simp only [Bool.and_eq_true, beq_iff_eq] at h
    exact ⟨r, hr, h⟩
  · rintro ⟨r, hr, h⟩
    exact ⟨r, hr, by simp [h.1, h.2]⟩

/-- under the invariant the source check is: a CURRENT remote candidate of the receiving candidate's
network type has this address (the cache adds nothing) -/
theorem accepts_iff_known (a : Agent) (l : Cand) (src : Nat) (h : Inv a) (hl : l ∈ a.locals) :
    accepts a l src = true ↔ ∃ r ∈ a.remotes, r.net = l.net ∧ r.addr = src := by
  rw [← findRemote_isSome_iff]
  unfold accepts
  constructor
  · intro hacc
    rcases Bool.or_eq_true_iff.mp hacc with hc | hf
    · obtain ⟨e, he⟩ := Option.isSome_iff_exists.mp hc
      unfold cacheHit at he
      have hm := List.mem_of_find?_eq_some he
      have hp := List.find?_some he
      obtain ⟨lu, s, ru⟩ := e
      simp only [Bool.and_eq_true, beq_iff_eq] at hp
      obtain ⟨_, i2, _, _, i5⟩ := (InvC_iff a).mp h.1
      obtain ⟨l', hl', el, r, hr, _, er2, er3⟩ := i5 _ hm
      have : l' = l := uid_inj i2 hl' hl (by rw [el]; exact hp.1)
      subst this
      rw [findRemote_isSome_iff]
      exact ⟨r, hr, er3, by rw [er2]; exact hp.2⟩
    · exact hf
  · intro hf
    rw [hf]; simp

theorem inboundData_outs (a : Agent) (now la src len : Nat) (stun : Bool) :
    (step a (.inboundData now la src len stun)).2 = [] := by
  by_cases hd : a.closed = true ∨ a.started = false ∨ stun = true ∨ a.localByAddr la = none
  · rw [step_inboundData_drop a now la src len stun hd]
  · have hc : a.closed = false := by
      cases h : a.closed with
      | false => rfl
      | true => exact absurd (Or.inl h) hd
    have hs : a.started = true := by
      cases h : a.started with
      | true => rfl
      | false => exact absurd (Or.inr (Or.inl h)) hd
    have hst : stun = false := by
      cases stun with
      | false => rfl
      | true => exact absurd (Or.inr (Or.inr (Or.inl rfl))) hd
    subst hst
    cases hl : a.localByAddr la with
    | none => exact absurd (Or.inr (Or.inr (Or.inr hl))) hd
    | some l =>
      rw [step_inboundData a now la src len l hc hs hl]
      cases hacc : accepts a l src with
      | false => rw [inboundData_reject a now l src len hacc]
      | true =>
        cases hf : rxFits a.rx len with
        | true => exact (inboundData_accept a now l src len hacc hf).1
        | false => exact (inboundData_full a now l src len hacc hf).1

/-- the datagram the hub receives for an accepted write -/
theorem dgramsOf_sent (f t n : Nat) (s : String) : dgramsOf [.data f t n, .res s] = [{ src := f, dst := t, p := .data n }] := rfl

theorem dgramsOf_res (s : String) : dgramsOf [.res s] = [] := rfl

/-- an agent event only appends the emitted datagrams to the in-flight list and moves that agent -/
theorem agentEv_spec (s : Sys) (isB : Bool) (e : Ev) :
    (s.agentEv isB e).2 = (step (s.agent isB) e).2 ∧
    (s.agentEv isB e).1.inflight = s.inflight ++ dgramsOf (step (s.agent isB) e).2 ∧
    (s.agentEv isB e).1.agent isB = (step (s.agent isB) e).1 ∧
    (s.agentEv isB e).1.agent (!isB) = s.agent (!isB) := by
  unfold Sys.agentEv
  cases isB <;> exact ⟨rfl, rfl, rfl, rfl⟩

/-- who gets a datagram: nobody if the link drops it or no open agent listens at the (un-NATed) destination -/
def receiver (s : Sys) (f t : Nat) : Option Bool :=
  if s.blocked.contains (f, t) then none else s.owner (s.unmapped t)

/-- `deliver` / `dup` of an application datagram: the in-flight list loses exactly that entry (or keeps it,
for `dup`), the receiver — if any — processes one `inboundData` from the NAT-mapped source, nobody else moves,
nothing new is in flight. -/
theorem deliver_data (s : Sys) (k : Nat) (keep : Bool) (f t n : Nat)
    (hk : s.inflight[k]? = some { src := f, dst := t, p := .data n }) :
    (s.deliver k keep).1.inflight = (if keep then s.inflight else removeAt s.inflight k) ∧
    match receiver s f t with
    | none => (s.deliver k keep).1.a = s.a ∧ (s.deliver k keep).1.b = s.b
    | some y =>
      (s.deliver k keep).1.agent y = (step (s.agent y) (.inboundData s.now (s.unmapped t) (s.mapped f) n false)).1 ∧
      (s.deliver k keep).1.agent (!y) = s.agent (!y) := by
  unfold Sys.deliver
  rw [hk]
  dsimp only
  generalize hs0 : (if keep = true then s else { s with inflight := removeAt s.inflight k }) = s0
  have e1 : s0.inflight = (if keep then s.inflight else removeAt s.inflight k) := by
    subst hs0; cases keep <;> rfl
  have e2 : s0.a = s.a ∧ s0.b = s.b ∧ s0.blocked = s.blocked ∧ s0.nat = s.nat ∧ s0.hasB = s.hasB ∧ s0.now = s.now := by
    subst hs0; cases keep <;> exact ⟨rfl, rfl, rfl, rfl, rfl, rfl⟩
  obtain ⟨ea, eb, ebl, en, eh, enow⟩ := e2
  have erec : receiver s0 f t = receiver s f t := by
    unfold receiver Sys.owner Sys.unmapped
    rw [ea, eb, ebl, en, eh]
  have eag : ∀ y, s0.agent y = s.agent y := by intro y; cases y <;> simp [Sys.agent, ea, eb]
  have emap : s0.mapped f = s.mapped f := by unfold Sys.mapped; rw [en]
  have eunm : s0.unmapped t = s.unmapped t := by unfold Sys.unmapped; rw [en]
  rw [← erec, ← e1, ← emap, ← eunm, ← enow]
  clear hk
  unfold Sys.handOver receiver
  dsimp only
  split
  · exact ⟨rfl, ea, eb⟩
  · rename_i hb
    cases ho : s0.owner (s0.unmapped t) with
    | none => exact ⟨rfl, ea, eb⟩
    | some y =>
      have ho' := inboundData_outs (s0.agent y) s0.now (s0.unmapped t) (s0.mapped f) n false
      obtain ⟨g1, g2, g3, g4⟩ := agentEv_spec s0 y (.inboundData s0.now (s0.unmapped t) (s0.mapped f) n false)
      rw [ho'] at g2
      have g2' : (s0.agentEv y (.inboundData s0.now (s0.unmapped t) (s0.mapped f) n false)).1.inflight = s0.inflight := by
        simpa [dgramsOf] using g2
      dsimp only
      rw [← eag y, ← eag (!y)]
      cases y with
      | false => exact ⟨g2', g3, g4⟩
      | true => exact ⟨g2', g3, g4⟩

/-- `drop`: the datagram disappears and no agent moves -/
theorem drop_data (s : Sys) (k : Nat) :
    (s.drop k).a = s.a ∧ (s.drop k).b = s.b ∧ (s.drop k).inflight = removeAt s.inflight k := ⟨rfl, rfl, rfl⟩

/-! ## Reachable system states -/

/-- states of the two-agent system reachable by the driver's operations; the environment may change the
topology, the clock and the in-flight list arbitrarily and may replace an agent by a fresh one -/
inductive Reach : Sys → Prop
  | init (s : Sys) : Initial s.a → Initial s.b → Reach s
  | agentEv (s : Sys) (isB : Bool) (e : Ev) : Reach s → Reach (s.agentEv isB e).1
  | deliver (s : Sys) (k : Nat) (keep : Bool) : Reach s → Reach (s.deliver k keep).1
  | drop (s : Sys) (k : Nat) : Reach s → Reach (s.drop k)
  | advance (s : Sys) (now : Nat) : Reach s → Reach (s.advance now).1
  | env (s s' : Sys) : Reach s → (s'.a = s.a ∨ Initial s'.a) → (s'.b = s.b ∨ Initial s'.b) → Reach s'

theorem Inv_agentEv (s : Sys) (isB : Bool) (e : Ev) (h : Inv s.a ∧ Inv s.b) :
    Inv (s.agentEv isB e).1.a ∧ Inv (s.agentEv isB e).1.b := by
  unfold Sys.agentEv
  cases isB
  · exact ⟨Inv_step s.a e h.1, h.2⟩
  · exact ⟨h.1, Inv_step s.b e h.2⟩

theorem Inv_handOver (s : Sys) (d : Dgram) (h : Inv s.a ∧ Inv s.b) :
    Inv (s.handOver d).1.a ∧ Inv (s.handOver d).1.b := by
  unfold Sys.handOver
  split
  · exact h
  · dsimp only
    split
    · exact h
    · rename_i y _
      have := Inv_agentEv s y (match d.p with
        | .stun m => .inbound s.now (s.unmapped d.dst) (s.mapped d.src) m
        | .data n => .inboundData s.now (s.unmapped d.dst) (s.mapped d.src) n false) h
      cases y <;> exact this

theorem Reach_inv (s : Sys) (h : Reach s) : Inv s.a ∧ Inv s.b := by
  induction h with
  | init s ha hb => exact ⟨Inv_init _ ha, Inv_init _ hb⟩
  | agentEv s isB e _ ih => exact Inv_agentEv s isB e ih
  | deliver s k keep _ ih =>
    unfold Sys.deliver
    split
    · exact ih
    · dsimp only
      refine Inv_handOver _ _ ?_
      cases keep <;> exact ih
  | drop s k _ ih => exact ih
  | advance s now _ ih =>
    unfold Sys.advance
    dsimp only
    have h1 := Inv_agentEv { s with now := now } false (.advance now) ih
    split
    · exact Inv_agentEv _ true (.advance now) h1
    · exact h1
  | env s s' _ ha hb ih =>
    refine ⟨?_, ?_⟩
    · rcases ha with e | i
      · rw [e]; exact ih.1
      · exact Inv_init _ i
    · rcases hb with e | i
      · rw [e]; exact ih.2
      · exact Inv_init _ i

end IceProofs.AgentC07
