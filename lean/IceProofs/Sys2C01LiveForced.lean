import IceProofs.Sys2C01LiveFairInv
/-!
# C01 liveness, layer 14b — the forced tick inside an inbound step

When `handleInbound` discovers a peer-reflexive candidate it sets `forcePending`; `step` then runs the tick closure
`contact` at the time of the delivery (`runForced`).  `contact_ping` / `contact_nominate`: what `agent_tick_ping` /
`agent_tick_nominate` say about the timer tick holds for `contact` on every `Good0` agent; `forced_ping` /
`forced_nominate`: hence for the inbound step with a forced tick.
-/
namespace IceProofs.C01Live
open IceModel.AgentCore IceModel.Sys2 IceProofs.Sys2Run IceProofs.C01 IceProofs.Agent IceProofs.C03

section
variable {T0 H T : Nat} {a : Agent}

theorem contact_ping (hg : Good0 T0 H a) (hT : T ≤ H) (hc : a.controlling = true)
    (hs : a.selected = none) (hns : ∀ p ∈ a.checklist, p.state ≠ .succeeded)
    {p0 : Pair} (hp0 : p0 ∈ a.checklist) (hst : p0.state = .waiting ∨ p0.state = .inProgress)
    (hb : p0.reqCount ≤ a.cfg.maxBindingRequests) {l r : Cand} (hl : a.localOf p0.l = some l) (hr : a.remoteOf p0.r = some r) :
    ∃ m, Out.dgram l.addr r.addr m ∈ (a.contact T).2 ∧ IsReq a false m := by
  obtain ⟨x, hx⟩ := contact_cc a T hg.open_ hg.alive (hg.timely.ckOK hT)
  rw [hx]
  show ∃ m, Out.dgram l.addr r.addr m ∈ ((withCS a x).contactCandidates T).2 ∧ IsReq a false m
  have hnom : a.nominatedPair = none := by
    cases hn : a.nominatedPair with
    | none => rfl
    | some id =>
      obtain ⟨p, hp, _, hps⟩ := hg.linv.nomOK id hn
      exact absurd hps (hns p hp)
  rcases cc_cases (withCS a x) T hc hs with ⟨id, p, h1, _⟩ | ⟨id, h1, _⟩ | ⟨_, h2, _⟩ |
      ⟨p, _, _, _, h2, _⟩
  · rw [show (withCS a x).nominatedPair = a.nominatedPair from rfl, hnom] at h1; cases h1
  · rw [show (withCS a x).nominatedPair = a.nominatedPair from rfl, hnom] at h1; cases h1
  · rw [h2]
    obtain ⟨m, q1, q2, _⟩ := pingAll_emits (withCS a x) T ⟨hg.linv.ids.le, hg.linv.ids.uniq⟩ hg.linv.pendOK p0 hp0 hst hb l r hl hr
    exact ⟨m, q1, q2.of_withCS⟩
  · have := bestValid_some h2
    exact absurd this.2 (hns p this.1)

theorem contact_nominate (hg : Good0 T0 H a) (hT : T ≤ H) (hc : a.controlling = true)
    (hs : a.selected = none) (hsucc : ∃ p ∈ a.checklist, p.state = .succeeded)
    (htime : a.selStart + Config.maxWait a.cfg ≤ T) :
    ∃ f t m, Out.dgram f t m ∈ (a.contact T).2 ∧ IsReq a true m := by
  obtain ⟨x, hx⟩ := contact_cc a T hg.open_ hg.alive (hg.timely.ckOK hT)
  rw [hx]
  show ∃ f t m, Out.dgram f t m ∈ ((withCS a x).contactCandidates T).2 ∧ IsReq a true m
  have ends : ∀ p ∈ a.checklist, p.state = .succeeded → ∃ l r, a.localOf p.l = some l ∧ a.remoteOf p.r = some r := by
    intro p hp hps
    obtain ⟨h1, h2⟩ := hg.linv.succEnds p hp hps
    obtain ⟨l, hl⟩ := Option.isSome_iff_exists.mp h1
    obtain ⟨r, hr⟩ := Option.isSome_iff_exists.mp h2
    exact ⟨l, r, hl, hr⟩
  have emit : ∀ (b : Agent) (p : Pair) (l r : Cand), b.localOf p.l = some l → b.remoteOf p.r = some r → PendOK b →
      ∃ m, Out.dgram l.addr r.addr m ∈ (b.nominate T p).2 ∧ IsReq b true m := by
    intro b p l r hl hr hpo
    rw [nominate_eq b T p l r hl hr]
    obtain ⟨m, h1, h2, _, _⟩ := sendRequest_emits b T l r true hpo
    exact ⟨m, by rw [h1]; exact List.mem_singleton.mpr rfl, h2⟩
  have nomable : ∀ cd : Cand, (cd ∈ a.locals ∨ cd ∈ a.remotes) → (withCS a x).nominatable T cd = true := by
    intro cd hcd
    apply nominatable_of_time
    · rcases hcd with h | h
      · exact (hg.locOK.1 cd h).2
      · exact (hg.linv.remOK.1 cd h).2
    · exact htime
  rcases cc_cases (withCS a x) T hc hs with ⟨id, p, h1, h2, h3⟩ | ⟨id, h1, h2, _⟩ | ⟨_, _, h3⟩ |
      ⟨p, l, r, _, h2, hl, hr, _, h3⟩
  · rw [h3]
    obtain ⟨hpm, hpid⟩ := IceProofs.C03.pairById_mem h2
    obtain ⟨p', hp', hid', hps'⟩ := hg.linv.nomOK id h1
    have : p' = p := mem_unique hg.linv.ids hp' hpm (hid'.trans hpid.symm)
    subst this
    obtain ⟨l, r, hl, hr⟩ := ends p' hpm hps'
    obtain ⟨m, q1, q2⟩ := emit (withCS a x) p' l r hl hr hg.linv.pendOK
    exact ⟨l.addr, r.addr, m, q1, q2.of_withCS⟩
  · exfalso
    obtain ⟨p', hp', hid', _⟩ := hg.linv.nomOK id h1
    have := pairById_of_mem hg.linv.ids hp'
    rw [hid'] at this
    rw [show (withCS a x).pairById id = a.pairById id from rfl, this] at h2
    cases h2
  · exfalso
    obtain ⟨p, hp, hps⟩ := hsucc
    have hb := bestValid_isSome (a := (withCS a x)) hp hps
    obtain ⟨q, hq⟩ := Option.isSome_iff_exists.mp hb
    obtain ⟨hqm, hqs⟩ := bestValid_some hq
    obtain ⟨l, r, hl, hr⟩ := ends q hqm hqs
    have := h3 q l r hq hl hr
    rw [nomable l (Or.inl (IceProofs.C01.localOf_mem hl)), nomable r (Or.inr (IceProofs.C01.remoteOf_mem hr))] at this
    cases this
  · rw [h3]
    obtain ⟨m, q1, q2⟩ := emit ({ ((withCS a x).modPair p.id fun p => { p with nominated := true }) with
      nominatedPair := some p.id } : Agent) p l r hl hr hg.linv.pendOK
    exact ⟨l.addr, r.addr, m, q1, ⟨q2.cls, q2.method, q2.user, q2.key, q2.role, q2.nom, q2.uc⟩⟩

end

/-- the inbound message makes the agent discover a remote candidate: a forced tick follows within the step -/
def Forced (a : Agent) (now la src : Nat) (m : Msg) : Prop :=
  ∃ l, a.localByAddr la = some l ∧ (a.handleInbound now l src m).1.forcePending = true

/-- a forced tick: `runForced` is `contact` on the agent with the flag cleared, then the timer is re-armed -/
theorem runForced_of_force (b : Agent) (now : Nat) (hs : b.started = true) (hc : b.closed = false)
    (hf : b.forcePending = true) :
    b.runForced now =
      ({ (Agent.contact { b with forcePending := false } now).1 with
          nextTick := some (now + (Agent.contact { b with forcePending := false } now).1.interval) },
       (Agent.contact { b with forcePending := false } now).2) := by
  unfold Agent.runForced
  simp only [hs, hc, hf, Bool.not_false, Bool.and_self, if_true]

section
variable {T0 H now : Nat} {a : Agent}

/-- an inbound step is quiet (timer untouched, pairs keep state and request count or become Succeeded) or runs a forced
tick -/
theorem step_inbound_qf (hg : Good T0 H a) (now la src : Nat) (m : Msg) :
    ((step a (.inbound now la src m)).1.nextTick = a.nextTick ∧ BK a (step a (.inbound now la src m)).1) ∨
    Forced a now la src m := by
  cases hl : a.localByAddr la with
  | none =>
    left
    rw [step_inbound_proj]
    simp only [hg.open_, hg.started, Bool.not_true, Bool.or_self, Bool.false_eq_true, if_false]
    rw [hl]
    exact ⟨rfl, IdxKeep.refl BKp.refl _⟩
  | some l =>
    cases hfp : (a.handleInbound now l src m).1.forcePending with
    | true => exact Or.inr ⟨l, hl, hfp⟩
    | false =>
      left
      rw [step_inbound_proj]
      simp only [hg.open_, hg.started, Bool.not_true, Bool.or_self, Bool.false_eq_true, if_false]
      rw [hl]
      simp only []
      rw [runForced_of_noForce _ now hfp]
      exact ⟨congrArg TF.nextTick (tf_handleInbound a now l src m), handleInbound_bk a now l src m⟩

/-- the anatomy of an inbound step with a forced tick: `b'` is the agent after `handleInbound` with the flag cleared -/
theorem forced_core (h0 : T0 ≤ now) (hg : Good T0 H a) {la src : Nat} {m : Msg}
    (hok : AuthRequest a m → m.nom = none ∧ NoConflict a m) (hf : Forced a now la src m) :
    ∃ b' : Agent, Good0 T0 H b' ∧ LK T0 now (if m.cls = 2 then some m.tid else none) a b' ∧ BK a b' ∧ SameId a b' ∧
      (step a (.inbound now la src m)).1 =
        { (b'.contact now).1 with nextTick := some (now + (b'.contact now).1.interval) } ∧
      ∀ o ∈ (b'.contact now).2, o ∈ (step a (.inbound now la src m)).2 := by
  obtain ⟨l0, hl0, hfp⟩ := hf
  obtain ⟨hlm, _⟩ := IceProofs.C01.localByAddr_spec hl0
  have hnet : l0.net = 0 := (hg.locOK.1 l0 hlm).1
  have g0 : Good0 T0 H (a.handleInbound now l0 src m).1 := handleInbound_good0 h0 hg l0 hlm src m hok
  have k1 := handleInbound_lk' (T0 := T0) (now := now) a l0 src m h0 hnet hg.full hok
  have id1 := handleInbound_sameId a now l0 src m (fun h => (hok h).2)
  have bk : BK a (a.handleInbound now l0 src m).1 := handleInbound_bk a now l0 src m
  have kf : LK T0 now (if m.cls = 2 then some m.tid else none) (a.handleInbound now l0 src m).1
      { (a.handleInbound now l0 src m).1 with forcePending := false } :=
    LK.of_fields rfl rfl rfl rfl rfl rfl rfl rfl rfl rfl rfl
  have g0' : Good0 T0 H { (a.handleInbound now l0 src m).1 with forcePending := false } :=
    g0.of_lk kf (sameId_forcePending _ false) ⟨g0.timely.ck, g0.timely.span, g0.timely.sel⟩
  refine ⟨{ (a.handleInbound now l0 src m).1 with forcePending := false }, g0', k1.trans kf, bk,
    id1.trans (sameId_forcePending _ false), ?_, ?_⟩
  · rw [step_inbound_proj]
    simp only [hg.open_, hg.started, Bool.not_true, Bool.or_self, Bool.false_eq_true, if_false]
    rw [hl0]
    simp only []
    rw [runForced_of_force _ now g0.started g0.open_ hfp]
  · intro o ho
    rw [step_inbound_proj]
    simp only [hg.open_, hg.started, Bool.not_true, Bool.or_self, Bool.false_eq_true, if_false]
    rw [hl0]
    simp only []
    rw [runForced_of_force _ now g0.started g0.open_ hfp]
    exact List.mem_append_right _ ho

theorem forced_ping (h0 : T0 ≤ now) (hn : now ≤ H) (hg : Good T0 H a) {la src : Nat} {m : Msg}
    (hok : AuthRequest a m → m.nom = none ∧ NoConflict a m) (hf : Forced a now la src m) (hc : a.controlling = true)
    {p0 : Pair} (hp0 : p0 ∈ a.checklist) (hst : p0.state = .waiting ∨ p0.state = .inProgress)
    (hb : p0.reqCount ≤ a.cfg.maxBindingRequests) {l r : Cand} (hl : a.localOf p0.l = some l) (hr : a.remoteOf p0.r = some r) :
    (step a (.inbound now la src m)).1.selected.isSome = true ∨
    (∃ p ∈ (step a (.inbound now la src m)).1.checklist, p.state = .succeeded) ∨
    ∃ mt, Out.dgram l.addr r.addr mt ∈ (step a (.inbound now la src m)).2 ∧ mt.cls = 0 ∧ mt.useCand = false := by
  obtain ⟨b', g0', k, bk, id, hstep, hout⟩ := forced_core h0 hg hok hf
  obtain ⟨_, k1, _, _⟩ := contact_good0 g0' h0 hn
  rw [hstep]
  by_cases hsel : b'.selected.isSome = true
  · exact Or.inl (k1.sel hsel)
  by_cases hsu : ∃ p ∈ b'.checklist, p.state = .succeeded
  · obtain ⟨p, hp, hps⟩ := hsu
    obtain ⟨p', hp', kp⟩ := k1.mem_pair hp
    exact Or.inr (Or.inl ⟨p', hp', kp.succ hps⟩)
  right; right
  have hs : b'.selected = none := by
    cases h : b'.selected with
    | none => rfl
    | some _ => rw [h] at hsel; exact absurd rfl hsel
  have hns : ∀ p ∈ b'.checklist, p.state ≠ .succeeded := fun p hp hps => hsu ⟨p, hp, hps⟩
  obtain ⟨i, hi⟩ := List.getElem?_of_mem hp0
  obtain ⟨p1, hp1, kp⟩ := k.pairs i p0 hi
  obtain ⟨p1', hp1', bp⟩ := bk i p0 hi
  rw [hp1] at hp1'
  cases hp1'
  have hp1m : p1 ∈ b'.checklist := List.mem_of_getElem? hp1
  rcases bp.keep with ⟨e1, e2⟩ | e
  · obtain ⟨l', hl', el⟩ := k.localOf hl
    obtain ⟨r', hr', er⟩ := k.remoteOf hr
    obtain ⟨mt, hm, hreq⟩ := contact_ping g0' hn (id.controlling.trans hc) hs hns hp1m (by rw [e1]; exact hst)
      (by rw [e2, id.cfg]; exact hb) (by rw [kp.l]; exact hl') (by rw [kp.r]; exact hr')
    rw [ckey_addr el, ckey_addr er.key] at hm
    exact ⟨mt, hout _ hm, hreq.cls, hreq.uc⟩
  · exact absurd e (hns p1 hp1m)

theorem forced_nominate (h0 : T0 ≤ now) (hn : now ≤ H) (hg : Good T0 H a) {la src : Nat} {m : Msg}
    (hok : AuthRequest a m → m.nom = none ∧ NoConflict a m) (hf : Forced a now la src m) (hc : a.controlling = true)
    (hsucc : ∃ p ∈ a.checklist, p.state = .succeeded) (htime : a.selStart + Config.maxWait a.cfg ≤ now) :
    (step a (.inbound now la src m)).1.selected.isSome = true ∨
    ∃ f t mt, Out.dgram f t mt ∈ (step a (.inbound now la src m)).2 ∧ mt.cls = 0 ∧ mt.useCand = true := by
  obtain ⟨b', g0', k, _, id, hstep, hout⟩ := forced_core h0 hg hok hf
  obtain ⟨_, k1, _, _⟩ := contact_good0 g0' h0 hn
  by_cases hsel : b'.selected.isSome = true
  · left
    rw [hstep]
    exact k1.sel hsel
  right
  have hs : b'.selected = none := by
    cases h : b'.selected with
    | none => rfl
    | some _ => rw [h] at hsel; exact absurd rfl hsel
  obtain ⟨p, hp, hps⟩ := hsucc
  obtain ⟨p', hp', kp⟩ := k.mem_pair hp
  obtain ⟨f, t, mt, hm, hreq⟩ := contact_nominate g0' hn (id.controlling.trans hc) hs ⟨p', hp', kp.succ hps⟩
    (by rw [k.selStart, id.cfg]; exact htime)
  exact ⟨f, t, mt, hout _ hm, hreq.cls, hreq.uc⟩

end

end IceProofs.C01Live
