import IceProofs.TaskLoopSteps
import IceSpec.C10
/-!
# The event trace of every execution of the task-loop model passes the C10 monitor

`Rel s m`: the monitor state `m` (what an observer has seen) agrees with the ghost fields of the model
state `s`.  `sim_step`: under the invariant, an internal transition keeps `Rel`, an observable one is
accepted by `mstep` and re-establishes `Rel`.
-/
namespace IceProofs.TaskLoop
open IceModel.TaskLoop IceSpec.C10
set_option linter.unusedSimpArgs false

/-- The task the loop thread is executing right now. -/
def execOf : LoopPc → Option Nat
  | .running i => some i
  | .nested i _ => some i
  | _ => none

@[simp] theorem execOf_resume (lp : LoopPc) (k : Nat) : execOf (resume lp k) = execOf lp := by
  rcases resume_cases lp k with h | ⟨i, h1, h2⟩
  · rw [h]
  · rw [h2, h1]; simp [execOf]

def SubRel (m : M) (i : Nat) (u : Sub) : Prop :=
  m.submitted i = decide (u.pc ≠ .idle) ∧ m.cancelled i = u.ctxDone ∧ m.starts i = u.started ∧
  m.ends i = u.finished ∧ m.ret i = u.returned

def CloserRel (m : M) (j : Nat) (c : Closer) : Prop :=
  m.closeCalled j = decide (c.pc ≠ .idle) ∧ m.closeRet j = decide (c.pc = .returned)

structure Rel (s : State) (m : M) : Prop where
  subs : ∀ i, SubRel m i (s.subs i)
  closers : ∀ j, CloserRel m j (s.closers j)
  running : m.running = execOf s.loop
  anyCloseCalled : m.anyCloseCalled = s.anyCloseCalled
  anyCloseRet : m.anyCloseRet = s.closeReturned
  onclose : m.onclose = s.oncloseRuns
  oncloseEnd : m.oncloseEnd = s.oncloseEnds
  prestop : m.prestop = s.prestopRuns

theorem rel_init : Rel init M.init := by
  refine ⟨?_, ?_, rfl, rfl, rfl, rfl, rfl, rfl⟩
  · intro i; simp [SubRel, init, M.init]
  · intro j; simp [CloserRel, init, M.init]

/-- What one transition must establish. -/
def StepSim (s' : State) (m : M) (a : Action) : Prop :=
  match label a with
  | none => Rel s' m
  | some e => ∃ m', mstep m e = .ok m' ∧ Rel s' m'

theorem sim_cancel {s s' : State} {m : M} (r : Rel s m) (i : Nat)
    (hs : step s (.cancel i) = some s') : StepSim s' m (.cancel i) := by
  simp only [step, Option.some.injEq] at hs
  subst hs
  simp only [StepSim, label, mstep]
  refine ⟨_, rfl, ⟨?_, r.closers, r.running, r.anyCloseCalled, r.anyCloseRet, r.onclose, r.oncloseEnd, r.prestop⟩⟩
  intro x
  have := r.subs x
  by_cases hx : x = i
  · subst hx; simp_all [SubRel, setAt]
  · simp_all [SubRel, setAt, upd_other]

/-! ## facts read off the invariant -/

theorem sub_not_offered_facts {v : View} {u : Sub} (h : SubOK v u)
    (hpc : u.pc = .check ∨ u.pc = .select ∨ u.pc = .idle) :
    u.started = 0 ∧ u.finished = 0 ∧ u.returned = none ∧ u.taken = 0 := by
  sub_cases u v

theorem sub_woken_facts {v : View} {u : Sub} (h : SubOK v u) (hpc : u.pc = .handedOff) (hpd : u.privDone = true) :
    u.started = 1 ∧ u.finished = 1 ∧ u.returned = none := by
  sub_cases u v

theorem sub_got_facts {u : Sub} (h : SubOK .got u) :
    u.pc = .handedOff ∧ u.started = 0 ∧ u.finished = 0 ∧ u.returned = none := by
  sub_cases1 u

theorem sub_running_facts {u : Sub} (h : SubOK .running u) :
    u.pc = .handedOff ∧ u.started = 1 ∧ u.finished = 0 ∧ u.returned = none := by
  sub_cases1 u

theorem done_anyCloseCalled {s : State} (h : Inv s) (hd : s.done = true) : s.anyCloseCalled = true := by
  obtain ⟨_, _, _, _, g4, g5, _, _⟩ := h.glob
  apply g5
  intro ho; rw [ho] at g4; simp [hd] at g4

/-- Facts that hold while the loop thread has not left its `for`. -/
theorem working_facts {s : State} (h : Inv s) (hl : left s.loop = false) :
    s.closeReturned = false ∧ s.oncloseRuns = 0 := by
  obtain ⟨_, g2, g3, _, _, _, g6, _⟩ := h.glob
  have hne : s.loop ≠ .exited := by intro e; rw [e] at hl; simp [left] at hl
  have ho : onclosed s.loop = false := by
    cases hlp : s.loop <;> simp_all [left, onclosed]
  constructor
  · cases hc : s.closeReturned
    · rfl
    · have := (g6 hc).1; exact absurd (g2.mp this) hne
  · simpa [ho] using g3

/-- Rel for a transition that rewrites one submitter record and the loop pc, given the new monitor
state agrees at `i` and everywhere else is unchanged. -/
theorem rel_sub_action {s : State} {m m' : M} (r : Rel s m) (i : Nat) (u : Sub) (lp : LoopPc)
    (hi : SubRel m' i u)
    (hsub : ∀ x, x ≠ i → m'.submitted x = m.submitted x) (hcan : ∀ x, x ≠ i → m'.cancelled x = m.cancelled x)
    (hst : ∀ x, x ≠ i → m'.starts x = m.starts x) (hen : ∀ x, x ≠ i → m'.ends x = m.ends x)
    (hret : ∀ x, x ≠ i → m'.ret x = m.ret x)
    (hcc : m'.closeCalled = m.closeCalled) (hcr : m'.closeRet = m.closeRet)
    (hrun : m'.running = execOf lp) (h1 : m'.anyCloseCalled = m.anyCloseCalled)
    (h2 : m'.anyCloseRet = m.anyCloseRet) (h3 : m'.onclose = m.onclose) (h3e : m'.oncloseEnd = m.oncloseEnd)
    (h4 : m'.prestop = m.prestop) :
    Rel { s with subs := upd s.subs i u, loop := lp } m' := by
  refine ⟨?_, ?_, hrun, ?_, ?_, ?_, ?_, ?_⟩
  · intro x
    by_cases hx : x = i
    · subst hx; simpa using hi
    · have := r.subs x
      simp only [upd_other _ _ hx]
      simp only [SubRel, hsub x hx, hcan x hx, hst x hx, hen x hx, hret x hx]
      exact this
  · intro j; have := r.closers j; simp only [CloserRel, hcc, hcr]; exact this
  · rw [h1]; exact r.anyCloseCalled
  · rw [h2]; exact r.anyCloseRet
  · rw [h3]; exact r.onclose
  · rw [h3e]; exact r.oncloseEnd
  · rw [h4]; exact r.prestop

theorem sim_call {s s' : State} {m : M} (_h : Inv s) (r : Rel s m) (i : Nat)
    (hs : step s (.call i) = some s') : StepSim s' m (.call i) := by
  simp only [step] at hs
  split at hs
  · rename_i hpc; cases hs
    have ri := r.subs i
    simp only [StepSim, label, mstep]
    have h0 : m.submitted i = false := by simp [ri.1, hpc]
    rw [if_neg (by simp [h0])]
    refine ⟨_, rfl, ?_⟩
    apply rel_sub_action r i _ s.loop <;> try (intros; simp_all [setAt])
    · simp_all [SubRel, setAt]
    · exact r.running
  · cases hs

theorem sim_callNested {s s' : State} {m : M} (_h : Inv s) (r : Rel s m) (i k : Nat)
    (hs : step s (.callNested i k) = some s') : StepSim s' m (.callNested i k) := by
  simp only [step] at hs
  split at hs
  · rename_i hg; cases hs
    obtain ⟨hloop, hpc⟩ := hg
    have ri := r.subs k
    simp only [StepSim, label, mstep]
    have h0 : m.submitted k = false := by simp [ri.1, hpc]
    rw [if_neg (by simp [h0])]
    refine ⟨_, rfl, ?_⟩
    apply rel_sub_action r k _ (.nested i k) <;> try (intros; simp_all [setAt])
    · simp_all [SubRel, setAt]
    · have := r.running; simp_all [execOf]
  · cases hs

theorem sim_errCheckPass {s s' : State} {m : M} (_h : Inv s) (r : Rel s m) (i : Nat)
    (hs : step s (.errCheckPass i) = some s') : StepSim s' m (.errCheckPass i) := by
  simp only [step] at hs
  split at hs
  · rename_i hg; cases hs
    have ri := r.subs i
    simp only [StepSim, label]
    apply rel_sub_action r i _ s.loop <;> try (intros; rfl)
    · simp_all [SubRel]
    · exact r.running
  · cases hs

/-- Common part of the three error exits and the nil exit of `Run`. -/
theorem sim_ret {s : State} {m : M} (h : Inv s) (r : Rel s m) (i : Nat) (res : RunRes)
    (hpc : (s.subs i).pc ≠ .idle) (hret : (s.subs i).returned = none)
    (hnil : res = .nil → (s.subs i).started = 1 ∧ (s.subs i).finished = 1)
    (herr : res ≠ .nil → (s.subs i).started = 0)
    (hctx : res = .ctx → (s.subs i).ctxDone = true)
    (hclosed : res = .closed → s.done = true) :
    ∃ m', mstep m (.runReturn i res) = .ok m' ∧ Rel (retSub s i res) m' := by
  have ri := r.subs i
  obtain ⟨r1, r2, r3, r4, r5⟩ := ri
  simp only [mstep]
  rw [if_neg (by simp [r1, hpc]), if_neg (by simp [r5, hret])]
  rw [if_neg (by rw [r3, r4]; intro ⟨a, b⟩; exact b (hnil a))]
  rw [if_neg (by rw [r3]; intro ⟨a, b⟩; exact b (herr a))]
  rw [if_neg (by rw [r2]; intro ⟨a, b⟩; rw [hctx a] at b; cases b)]
  rw [if_neg (by
    intro ⟨a, b⟩
    have := done_anyCloseCalled h (hclosed a)
    rw [r.anyCloseCalled, this] at b; cases b)]
  refine ⟨_, rfl, ?_⟩
  unfold retSub
  apply rel_sub_action r i _ (resume s.loop i) <;> try (intros; simp_all [setAt])
  · simp_all [SubRel, setAt]
  · exact r.running

theorem sim_errCheckFail {s s' : State} {m : M} (h : Inv s) (r : Rel s m) (i : Nat)
    (hs : step s (.errCheckFail i) = some s') : StepSim s' m (.errCheckFail i) := by
  simp only [step] at hs
  split at hs
  · rename_i hg; cases hs
    obtain ⟨hpc, hd⟩ := hg
    have f := sub_not_offered_facts (h.subs i) (Or.inl hpc)
    simp only [StepSim, label]
    exact sim_ret h r i .closed (by simp [hpc]) f.2.2.1 (by simp) (fun _ => f.1) (by simp) (fun _ => hd)
  · cases hs

theorem sim_selCtx {s s' : State} {m : M} (h : Inv s) (r : Rel s m) (i : Nat)
    (hs : step s (.selCtx i) = some s') : StepSim s' m (.selCtx i) := by
  simp only [step] at hs
  split at hs
  · rename_i hg; cases hs
    obtain ⟨hpc, hd⟩ := hg
    have f := sub_not_offered_facts (h.subs i) (Or.inr (Or.inl hpc))
    simp only [StepSim, label]
    exact sim_ret h r i .ctx (by simp [hpc]) f.2.2.1 (by simp) (fun _ => f.1) (fun _ => hd) (by simp)
  · cases hs

theorem sim_selDone {s s' : State} {m : M} (h : Inv s) (r : Rel s m) (i : Nat)
    (hs : step s (.selDone i) = some s') : StepSim s' m (.selDone i) := by
  simp only [step] at hs
  split at hs
  · rename_i hg; cases hs
    obtain ⟨hpc, hd⟩ := hg
    have f := sub_not_offered_facts (h.subs i) (Or.inr (Or.inl hpc))
    simp only [StepSim, label]
    exact sim_ret h r i .closed (by simp [hpc]) f.2.2.1 (by simp) (fun _ => f.1) (by simp) (fun _ => hd)
  · cases hs

theorem sim_wake {s s' : State} {m : M} (h : Inv s) (r : Rel s m) (i : Nat)
    (hs : step s (.wake i) = some s') : StepSim s' m (.wake i) := by
  simp only [step] at hs
  split at hs
  · rename_i hg; cases hs
    obtain ⟨hpc, hpd⟩ := hg
    have f := sub_woken_facts (h.subs i) hpc hpd
    simp only [StepSim, label]
    exact sim_ret h r i .nil (by simp [hpc]) f.2.2 (fun _ => ⟨f.1, f.2.1⟩) (by simp) (by simp) (by simp)
  · cases hs

theorem sim_handoff {s s' : State} {m : M} (_h : Inv s) (r : Rel s m) (i : Nat)
    (hs : step s (.handoff i) = some s') : StepSim s' m (.handoff i) := by
  simp only [step] at hs
  split at hs
  · rename_i hg; cases hs
    obtain ⟨hpc, hloop⟩ := hg
    have ri := r.subs i
    simp only [StepSim, label]
    apply rel_sub_action r i _ (.got i) <;> try (intros; rfl)
    · simp_all [SubRel]
    · have := r.running; simp_all [execOf]
  · cases hs

theorem sim_closePriv {s s' : State} {m : M} (_h : Inv s) (r : Rel s m) (i : Nat)
    (hs : step s (.closePriv i) = some s') : StepSim s' m (.closePriv i) := by
  simp only [step] at hs
  split at hs
  · rename_i hg; cases hs
    obtain ⟨hloop, hpd⟩ := hg
    have ri := r.subs i
    simp only [StepSim, label]
    apply rel_sub_action r i _ .select <;> try (intros; rfl)
    · simp_all [SubRel]
    · have := r.running; simp_all [execOf]
  · cases hs

theorem sim_start {s s' : State} {m : M} (h : Inv s) (r : Rel s m) (i : Nat)
    (hs : step s (.start i) = some s') : StepSim s' m (.start i) := by
  simp only [step] at hs
  split at hs
  · rename_i hloop; cases hs
    have hi := h.subs i
    rw [hloop] at hi; simp only [view, if_true] at hi
    have f := sub_got_facts hi
    have w := working_facts h (by rw [hloop]; rfl)
    obtain ⟨r1, r2, r3, r4, r5⟩ := r.subs i
    have hrun := r.running; rw [hloop] at hrun
    simp only [StepSim, label, mstep]
    rw [if_neg (by simp [r1, f.1]), if_neg (by simp [hrun, execOf]), if_neg (by simp [r3, f.2.1]),
      if_neg (by simp [r5, f.2.2.2]), if_neg (by simp [r.anyCloseRet, w.1]), if_neg (by simp [r.onclose, w.2])]
    refine ⟨_, rfl, ?_⟩
    apply rel_sub_action r i _ (.running i) <;> try (intros; simp_all [setAt])
    · simp_all [SubRel, setAt]
    · simp [execOf]
  · cases hs

theorem sim_finish {s s' : State} {m : M} (_h : Inv s) (r : Rel s m) (i : Nat)
    (hs : step s (.finish i) = some s') : StepSim s' m (.finish i) := by
  simp only [step] at hs
  split at hs
  · rename_i hloop; cases hs
    obtain ⟨r1, r2, r3, r4, r5⟩ := r.subs i
    have hrun := r.running; rw [hloop] at hrun
    simp only [StepSim, label, mstep]
    rw [if_neg (by simp [hrun, execOf])]
    refine ⟨_, rfl, ?_⟩
    apply rel_sub_action r i _ (.closePriv i) <;> try (intros; simp_all [setAt])
    · simp_all [SubRel, setAt]
    · simp [execOf]
  · cases hs

theorem sim_loopDone {s s' : State} {m : M} (_h : Inv s) (r : Rel s m)
    (hs : step s .loopDone = some s') : StepSim s' m .loopDone := by
  simp only [step] at hs
  split at hs
  · rename_i hg; cases hs
    simp only [StepSim, label]
    refine ⟨r.subs, r.closers, ?_, r.anyCloseCalled, r.anyCloseRet, r.onclose, r.oncloseEnd, r.prestop⟩
    have := r.running; simp_all [execOf]
  · cases hs

theorem sim_closeTLD {s s' : State} {m : M} (_h : Inv s) (r : Rel s m)
    (hs : step s .closeTLD = some s') : StepSim s' m .closeTLD := by
  simp only [step] at hs
  split at hs
  · rename_i hg; cases hs
    simp only [StepSim, label]
    refine ⟨r.subs, r.closers, ?_, r.anyCloseCalled, r.anyCloseRet, r.onclose, r.oncloseEnd, r.prestop⟩
    have := r.running; simp_all [execOf]
  · cases hs

theorem sim_onClose {s s' : State} {m : M} (h : Inv s) (r : Rel s m)
    (hs : step s .onClose = some s') : StepSim s' m .onClose := by
  simp only [step] at hs
  split at hs
  · rename_i hloop; cases hs
    obtain ⟨g1, _, g3, _, _, _, _, _⟩ := h.glob
    rw [hloop] at g1 g3
    have hacc := done_anyCloseCalled h (g1 rfl)
    have hrun := r.running; rw [hloop] at hrun
    simp only [StepSim, label, mstep]
    rw [if_neg (by rw [r.onclose, g3]; simp [onclosed]), if_neg (by simp [hrun, execOf]),
      if_neg (by simp [r.anyCloseCalled, hacc])]
    refine ⟨_, rfl, ⟨r.subs, r.closers, ?_, r.anyCloseCalled, r.anyCloseRet, ?_, r.oncloseEnd, r.prestop⟩⟩
    · simp [hrun, execOf]
    · simp [r.onclose]
  · cases hs

theorem sim_onCloseEnd {s s' : State} {m : M} (h : Inv s) (r : Rel s m)
    (hs : step s .onCloseEnd = some s') : StepSim s' m .onCloseEnd := by
  simp only [step] at hs
  split at hs
  · rename_i hloop; cases hs
    obtain ⟨_, _, g3, g3e, _, _, _, _⟩ := h.glob
    rw [hloop] at g3 g3e
    have hrun := r.running; rw [hloop] at hrun
    simp only [StepSim, label, mstep]
    rw [if_neg (by rw [r.onclose, g3]; simp [onclosed]), if_neg (by rw [r.oncloseEnd, g3e]; simp [oncloseEnded])]
    refine ⟨_, rfl, ⟨r.subs, r.closers, ?_, r.anyCloseCalled, r.anyCloseRet, r.onclose, ?_, r.prestop⟩⟩
    · simp [hrun, execOf]
    · simp [r.oncloseEnd]
  · cases hs

/-- Rel for a transition of closer `j` that only moves its pc (between non-idle, non-returned pcs) and
touches shared fields the monitor does not see. -/
theorem rel_closer_internal {s s' : State} {m : M} (r : Rel s m) (j : Nat) (pc : CloserPc)
    (hold : (s.closers j).pc ≠ .idle ∧ (s.closers j).pc ≠ .returned) (hnew : pc ≠ .idle ∧ pc ≠ .returned)
    (hsubs : s'.subs = s.subs) (hloop : s'.loop = s.loop)
    (hcl : s'.closers = upd s.closers j { s.closers j with pc := pc })
    (h1 : s'.anyCloseCalled = s.anyCloseCalled) (h2 : s'.closeReturned = s.closeReturned)
    (h3 : s'.oncloseRuns = s.oncloseRuns) (h3e : s'.oncloseEnds = s.oncloseEnds)
    (h4 : s'.prestopRuns = s.prestopRuns) : Rel s' m := by
  refine ⟨?_, ?_, ?_, ?_, ?_, ?_, ?_, ?_⟩
  · rw [hsubs]; exact r.subs
  · intro j'
    rw [hcl]
    by_cases hj : j' = j
    · subst hj; have := r.closers j'; simp_all [CloserRel]
    · rw [upd_other _ _ hj]; exact r.closers j'
  · rw [hloop]; exact r.running
  · rw [h1]; exact r.anyCloseCalled
  · rw [h2]; exact r.anyCloseRet
  · rw [h3]; exact r.onclose
  · rw [h3e]; exact r.oncloseEnd
  · rw [h4]; exact r.prestop

theorem sim_onceWin {s s' : State} {m : M} (_h : Inv s) (r : Rel s m) (j : Nat)
    (hs : step s (.onceWin j) = some s') : StepSim s' m (.onceWin j) := by
  simp only [step] at hs
  split at hs
  · rename_i hg; cases hs
    simp only [StepSim, label]
    exact rel_closer_internal r j .inStore (by simp [hg.1]) (by simp) rfl rfl rfl rfl rfl rfl rfl rfl
  · cases hs

theorem sim_onceSkip {s s' : State} {m : M} (_h : Inv s) (r : Rel s m) (j : Nat)
    (hs : step s (.onceSkip j) = some s') : StepSim s' m (.onceSkip j) := by
  simp only [step] at hs
  split at hs
  · rename_i hg; cases hs
    simp only [StepSim, label]
    exact rel_closer_internal r j .waitTLD (by simp [hg.1]) (by simp) rfl rfl rfl rfl rfl rfl rfl rfl
  · cases hs

theorem sim_storeErr {s s' : State} {m : M} (_h : Inv s) (r : Rel s m) (j : Nat)
    (hs : step s (.storeErr j) = some s') : StepSim s' m (.storeErr j) := by
  simp only [step] at hs
  split at hs
  · rename_i hg; cases hs
    simp only [StepSim, label]
    exact rel_closer_internal r j .inCloseDone (by simp [hg]) (by simp) rfl rfl rfl rfl rfl rfl rfl rfl
  · cases hs

theorem sim_closeDoneCh {s s' : State} {m : M} (_h : Inv s) (r : Rel s m) (j : Nat)
    (hs : step s (.closeDoneCh j) = some s') : StepSim s' m (.closeDoneCh j) := by
  simp only [step] at hs
  split at hs
  · rename_i hg; cases hs
    simp only [StepSim, label]
    exact rel_closer_internal r j .inPreStop (by simp [hg.1]) (by simp) rfl rfl rfl rfl rfl rfl rfl rfl
  · cases hs

theorem sim_preStopNil {s s' : State} {m : M} (_h : Inv s) (r : Rel s m) (j : Nat)
    (hs : step s (.preStopNil j) = some s') : StepSim s' m (.preStopNil j) := by
  simp only [step] at hs
  split at hs
  · rename_i hg; cases hs
    simp only [StepSim, label]
    exact rel_closer_internal r j .inOnceExit (by simp [hg.1]) (by simp) rfl rfl rfl rfl rfl rfl rfl rfl
  · cases hs

theorem sim_onceExit {s s' : State} {m : M} (_h : Inv s) (r : Rel s m) (j : Nat)
    (hs : step s (.onceExit j) = some s') : StepSim s' m (.onceExit j) := by
  simp only [step] at hs
  split at hs
  · rename_i hg; cases hs
    simp only [StepSim, label]
    exact rel_closer_internal r j .waitTLD (by simp [hg]) (by simp) rfl rfl rfl rfl rfl rfl rfl rfl
  · cases hs

theorem sim_closeCall {s s' : State} {m : M} (_h : Inv s) (r : Rel s m) (j : Nat) (pre : Bool)
    (hs : step s (.closeCall j pre) = some s') : StepSim s' m (.closeCall j pre) := by
  simp only [step] at hs
  split at hs
  · rename_i hpc; cases hs
    have rj := r.closers j
    simp only [StepSim, label, mstep]
    rw [if_neg (by simp [rj.1, hpc])]
    refine ⟨_, rfl, ⟨r.subs, ?_, r.running, rfl, r.anyCloseRet, r.onclose, r.oncloseEnd, r.prestop⟩⟩
    intro j'
    by_cases hj : j' = j
    · subst hj; simp_all [CloserRel, setAt]
    · have := r.closers j'; simp_all [CloserRel, setAt, upd_other]
  · cases hs

theorem sim_preStopRun {s s' : State} {m : M} (h : Inv s) (r : Rel s m) (j : Nat)
    (hs : step s (.preStopRun j) = some s') : StepSim s' m (.preStopRun j) := by
  simp only [step] at hs
  split at hs
  · rename_i hg; cases hs
    obtain ⟨hpc, hpre⟩ := hg
    have hc := h.closers j
    simp only [CloserOK, hpc] at hc
    obtain ⟨_, _, _, _, _, g5, g6, _⟩ := h.glob
    have hacc : s.anyCloseCalled = true := g5 (by rw [hc.1]; simp)
    have hcr : s.closeReturned = false := by
      cases hx : s.closeReturned
      · rfl
      · have := (g6 hx).2; rw [hc.1] at this; cases this
    simp only [StepSim, label, mstep]
    rw [if_neg (by simp [r.prestop, hc.2.2]), if_neg (by simp [r.anyCloseCalled, hacc]),
      if_neg (by simp [r.anyCloseRet, hcr])]
    refine ⟨_, rfl, ⟨r.subs, ?_, r.running, r.anyCloseCalled, r.anyCloseRet, r.onclose, r.oncloseEnd, ?_⟩⟩
    · intro j'
      by_cases hj : j' = j
      · subst hj; have := r.closers j'; simp_all [CloserRel, setCloserPc]
      · have := r.closers j'; simp_all [CloserRel, setCloserPc, upd_other]
    · simp [r.prestop, setCloserPc]
  · cases hs

theorem sim_waitTLD {s s' : State} {m : M} (h : Inv s) (r : Rel s m) (j : Nat)
    (hs : step s (.waitTLD j) = some s') : StepSim s' m (.waitTLD j) := by
  simp only [step] at hs
  split at hs
  · rename_i hg; cases hs
    obtain ⟨hpc, htld⟩ := hg
    obtain ⟨_, g2, g3, g3e, _, _, _, _⟩ := h.glob
    have hex := g2.mp htld
    rw [hex] at g3 g3e
    have rj := r.closers j
    have hrun := r.running; rw [hex] at hrun
    simp only [StepSim, label, mstep]
    rw [if_neg (by simp [rj.1, hpc]), if_neg (by simp [rj.2, hpc]),
      if_neg (by rw [r.onclose, g3]; simp [onclosed]), if_neg (by rw [r.oncloseEnd, g3e]; simp [oncloseEnded]),
      if_neg (by simp [hrun, execOf])]
    refine ⟨_, rfl, ⟨r.subs, ?_, r.running, r.anyCloseCalled, rfl, r.onclose, r.oncloseEnd, r.prestop⟩⟩
    intro j'
    by_cases hj : j' = j
    · subst hj; simp_all [CloserRel, setCloserPc, setAt]
    · have := r.closers j'; simp_all [CloserRel, setCloserPc, setAt, upd_other]
  · cases hs

/-- One transition: internal ones keep `Rel`, observable ones are accepted by the monitor. -/
theorem sim_step {s s' : State} {m : M} (h : Inv s) (r : Rel s m) (a : Action)
    (hs : step s a = some s') : StepSim s' m a := by
  cases a with
  | cancel i => exact sim_cancel r i hs
  | call i => exact sim_call h r i hs
  | callNested i k => exact sim_callNested h r i k hs
  | closeCall j pre => exact sim_closeCall h r j pre hs
  | errCheckPass i => exact sim_errCheckPass h r i hs
  | errCheckFail i => exact sim_errCheckFail h r i hs
  | selCtx i => exact sim_selCtx h r i hs
  | selDone i => exact sim_selDone h r i hs
  | handoff i => exact sim_handoff h r i hs
  | wake i => exact sim_wake h r i hs
  | loopDone => exact sim_loopDone h r hs
  | start i => exact sim_start h r i hs
  | finish i => exact sim_finish h r i hs
  | closePriv i => exact sim_closePriv h r i hs
  | onClose => exact sim_onClose h r hs
  | onCloseEnd => exact sim_onCloseEnd h r hs
  | closeTLD => exact sim_closeTLD h r hs
  | onceWin j => exact sim_onceWin h r j hs
  | onceSkip j => exact sim_onceSkip h r j hs
  | storeErr j => exact sim_storeErr h r j hs
  | closeDoneCh j => exact sim_closeDoneCh h r j hs
  | preStopRun j => exact sim_preStopRun h r j hs
  | preStopNil j => exact sim_preStopNil h r j hs
  | onceExit j => exact sim_onceExit h r j hs
  | waitTLD j => exact sim_waitTLD h r j hs

/-- Executions: the monitor, started in a state related to `s`, accepts the whole trace. -/
theorem sim_run {s s' : State} {m : M} (h : Inv s) (r : Rel s m) (as : List Action)
    (hs : run s as = some s') : ∃ m', mrun m (trace as) = .ok m' ∧ Rel s' m' := by
  induction as generalizing s m with
  | nil => simp [run] at hs; subst hs; exact ⟨m, rfl, r⟩
  | cons a as ih =>
    simp only [run] at hs
    split at hs
    · rename_i s1 h1
      have hsim := sim_step h r a h1
      have hinv := inv_step h a h1
      unfold StepSim at hsim
      cases hl : label a with
      | none =>
        rw [hl] at hsim
        have : trace (a :: as) = trace as := by simp [trace, List.filterMap_cons, hl]
        rw [this]; exact ih hinv hsim hs
      | some e =>
        rw [hl] at hsim
        obtain ⟨m1, hm1, r1⟩ := hsim
        have : trace (a :: as) = e :: trace as := by simp [trace, List.filterMap_cons, hl]
        rw [this]
        obtain ⟨m', hm', r'⟩ := ih hinv r1 hs
        exact ⟨m', by simp [mrun, hm1, hm'], r'⟩
    · cases hs

/-! ## small lemmas used by the property theorems -/

/-- `executing` forces the loop thread to be inside that very task. -/
theorem executing_loop {s : State} (h : Reachable s) {i : Nat} (he : executing s i) :
    view s.loop i = .running := by
  have hi := (inv_reachable h).subs i
  unfold executing at he
  revert hi he
  generalize s.subs i = u
  generalize view s.loop i = v
  intro hi he
  rcases u with ⟨pc, cd, pd, off, tk, st, fi, rt⟩
  cases v <;> rcases pc with _ | _ | _ | _ | ⟨_ | _ | _⟩ <;> simp_all [SubOK]

theorem view_running {lp : LoopPc} {i : Nat} (h : view lp i = .running) : execOf lp = some i := by
  cases lp <;> simp [view] at h <;> simp [execOf, h]
  all_goals (split at h <;> simp_all)

/-- Once some `Close` has returned this stays so. -/
theorem closeReturned_mono {s s' : State} (a : Action) (hs : step s a = some s')
    (hc : s.closeReturned = true) : s'.closeReturned = true := by
  cases a <;> simp only [step] at hs <;> (try split at hs) <;> cases hs <;>
    (try simp_all [retSub, setCloserPc])


end IceProofs.TaskLoop
