import IceProofs.AgentC20
/-!
# `lastNomination` along arbitrary event sequences

`step_lastNomination`: in one step `lastNomination` is reset (effective start / restart / lost role
conflict), or passed through `shouldAcceptNomination` (a request handed to the controlled selector), or
untouched.  By induction over the event list: between resets it is the maximum of the accepted values and
a valued nomination is accepted iff it exceeds all of them.
-/
namespace IceProofs.Agent
open IceModel.AgentCore

/-- the events that install a fresh selector (`lastNomination := none`) -/
def resetsSelector (a : Agent) (ev : Ev) : Bool :=
  startTakesEffect a ev || restartTakesEffect a ev || conflictSwitchEv a ev

/-- the nomination value the event offers to the controlled selector, if any -/
def offer (a : Agent) (ev : Ev) : Option Nat := (cldDeliversEv a ev).bind (·.nom)

theorem step_lastNomination (a : Agent) (ev : Ev) :
    (step a ev).1.lastNomination =
      if resetsSelector a ev then none
      else match cldDeliversEv a ev with
        | some m => (shouldAcceptNomination m.nom a.lastNomination).1
        | none => a.lastNomination := by
  have h := congrArg Core.lastNomination (core_step a ev)
  rw [core_lastNomination] at h
  rw [h]
  clear h
  unfold resetsSelector
  cases ev with
  | start now c ru rp =>
    simp only [startTakesEffect, restartTakesEffect, conflictSwitchEv, cldDeliversEv, inboundOn]
    by_cases hc : (a.closed || a.started || ru == "" || rp == "") = true <;> simp [hc]
  | restart now u p =>
    simp only [startTakesEffect, restartTakesEffect, conflictSwitchEv, cldDeliversEv, inboundOn]
    by_cases hc : a.closed = true <;> simp [hc]
  | inbound now la src m =>
    simp only [startTakesEffect, restartTakesEffect, conflictSwitchEv, cldDeliversEv, inboundOn, Bool.false_or]
    by_cases h1 : (a.closed || !a.started) = true
    · simp [h1]
    · simp only [h1]
      cases hl : a.localByAddr la with
      | none => simp
      | some l =>
        simp only [Option.map_some, core_handleInbound]
        by_cases hs : conflictSwitch a l src m = true
        · simp [hs]
        · by_cases hd : cldDelivers a l src m = true <;> simp [hs, hd]
  | setRemoteCreds ru rp =>
    simp only [startTakesEffect, restartTakesEffect, conflictSwitchEv, cldDeliversEv, inboundOn]
    split <;> simp
  | close => simp [startTakesEffect, restartTakesEffect, conflictSwitchEv, cldDeliversEv, inboundOn]
  | addLocal now c => simp [startTakesEffect, restartTakesEffect, conflictSwitchEv, cldDeliversEv, inboundOn]
  | addRemote now c => simp [startTakesEffect, restartTakesEffect, conflictSwitchEv, cldDeliversEv, inboundOn]
  | advance now => simp [startTakesEffect, restartTakesEffect, conflictSwitchEv, cldDeliversEv, inboundOn]
  | inboundData now la src len s =>
    simp [startTakesEffect, restartTakesEffect, conflictSwitchEv, cldDeliversEv, inboundOn]
  | write now len s => simp [startTakesEffect, restartTakesEffect, conflictSwitchEv, cldDeliversEv, inboundOn]
  | writeToPair now id len s =>
    simp [startTakesEffect, restartTakesEffect, conflictSwitchEv, cldDeliversEv, inboundOn]
  | read => simp [startTakesEffect, restartTakesEffect, conflictSwitchEv, cldDeliversEv, inboundOn]
  | renominate now la ri v =>
    simp [startTakesEffect, restartTakesEffect, conflictSwitchEv, cldDeliversEv, inboundOn]

/-- in terms of the offered value -/
theorem step_lastNomination_offer (a : Agent) (ev : Ev) (hr : resetsSelector a ev = false) :
    (step a ev).1.lastNomination =
      match offer a ev with
      | some v => (shouldAcceptNomination (some v) a.lastNomination).1
      | none => a.lastNomination := by
  rw [step_lastNomination, hr]
  simp only [Bool.false_eq_true, if_false]
  unfold offer
  cases hd : cldDeliversEv a ev with
  | none => rfl
  | some m =>
    simp only [Option.bind_some]
    cases hn : m.nom with
    | none => rfl
    | some v => rfl

/-- the value accepted at this step, if any (the decision of `shouldAcceptNomination` in the arrival state) -/
def accepted (a : Agent) (ev : Ev) : Option Nat :=
  match offer a ev with
  | some v => if (shouldAcceptNomination (some v) a.lastNomination).2 then some v else none
  | none => none

/-- values accepted along a run, oldest first -/
def acceptedLog (a : Agent) : List Ev → List Nat
  | [] => []
  | e :: es => (accepted a e).toList ++ acceptedLog (step a e).1 es

/-- no event of the run installs a fresh selector -/
def stable (a : Agent) : List Ev → Bool
  | [] => true
  | e :: es => !resetsSelector a e && stable (step a e).1 es

/-- order on `Option Nat` with `none` (nothing accepted yet) at the bottom -/
def optLe : Option Nat → Option Nat → Prop
  | none, _ => True
  | some _, none => False
  | some x, some y => x ≤ y

instance : DecidableRel optLe := fun a b => by
  cases a <;> cases b <;> unfold optLe <;> infer_instance

theorem optLe_refl (x : Option Nat) : optLe x x := by cases x <;> simp [optLe]
theorem optLe_trans {x y z : Option Nat} (h1 : optLe x y) (h2 : optLe y z) : optLe x z := by
  cases x <;> cases y <;> cases z <;> simp_all [optLe]
  omega

/-- maximum of an optional start value and a list -/
def maxStep (acc : Option Nat) (v : Nat) : Option Nat :=
  match acc with
  | none => some v
  | some x => some (max x v)

def optMax (init : Option Nat) (l : List Nat) : Option Nat := l.foldl maxStep init

/-- one step: `lastNomination` after = max(before, accepted value) and an offered value is accepted iff it is
greater than `lastNomination` -/
theorem step_accept (a : Agent) (ev : Ev) (hr : resetsSelector a ev = false) :
    (step a ev).1.lastNomination = optMax a.lastNomination (accepted a ev).toList := by
  rw [step_lastNomination_offer a ev hr]
  unfold accepted
  cases ho : offer a ev with
  | none => rfl
  | some v =>
    simp only []
    rw [accept_some_fst]
    cases hacc : (shouldAcceptNomination (some v) a.lastNomination).2 with
    | false => rfl
    | true =>
      have := (accept_some_iff v a.lastNomination).1 hacc
      simp only [if_true, Option.toList_some, optMax, List.foldl_cons, List.foldl_nil, maxStep]
      cases hl : a.lastNomination with
      | none => rfl
      | some last =>
        have := this last hl
        simp only []
        congr 1
        omega

theorem optMax_append (init : Option Nat) (xs ys : List Nat) :
    optMax init (xs ++ ys) = optMax (optMax init xs) ys := by
  unfold optMax; rw [List.foldl_append]

/-- Between resets `lastNomination` is the maximum of its initial value and the values accepted. -/
theorem run_lastNomination (a : Agent) (evs : List Ev) (hst : stable a evs = true) :
    (run a evs).lastNomination = optMax a.lastNomination (acceptedLog a evs) := by
  induction evs generalizing a with
  | nil => rfl
  | cons e es ih =>
    simp only [stable, Bool.and_eq_true, Bool.not_eq_true'] at hst
    show (run (step a e).1 es).lastNomination = _
    rw [ih _ hst.2, step_accept a e hst.1]
    simp only [acceptedLog]
    rw [optMax_append]

theorem optMax_ge_init (init : Option Nat) (l : List Nat) : optLe init (optMax init l) := by
  induction l generalizing init with
  | nil => exact optLe_refl _
  | cons x xs ih =>
    show optLe init (optMax _ xs)
    refine optLe_trans ?_ (ih _)
    cases init <;> simp [optLe, maxStep]
    omega

/-- `optMax` is an upper bound of the list, and it is attained (by the start value or a list element) -/
theorem optMax_spec (init : Option Nat) (l : List Nat) :
    (∀ w ∈ l, optLe (some w) (optMax init l)) ∧
    (∀ x, optMax init l = some x → init = some x ∨ x ∈ l) := by
  induction l generalizing init with
  | nil => exact ⟨by simp, fun x h => Or.inl h⟩
  | cons y ys ih =>
    have hstep : optMax init (y :: ys) = optMax (maxStep init y) ys := rfl
    rw [hstep]
    obtain ⟨h1, h2⟩ := ih (maxStep init y)
    refine ⟨?_, ?_⟩
    · intro w hw
      simp only [List.mem_cons] at hw
      rcases hw with rfl | hw
      · refine optLe_trans ?_ (optMax_ge_init _ ys)
        cases init <;> simp [optLe, maxStep]
        omega
      · exact h1 w hw
    · intro x hx
      rcases h2 x hx with h | h
      · cases init with
        | none =>
          simp only [maxStep, Option.some.injEq] at h
          right; simp [h]
        | some i =>
          simp only [maxStep, Option.some.injEq] at h
          by_cases hle : i ≤ y
          · right
            have : x = y := by omega
            simp [this]
          · left
            have : x = i := by omega
            rw [this]
      · right; simp [h]

/-- monotone: between resets `lastNomination` never decreases -/
theorem run_lastNomination_mono (a : Agent) (evs : List Ev) (hst : stable a evs = true) :
    optLe a.lastNomination (run a evs).lastNomination := by
  rw [run_lastNomination a evs hst]
  exact optMax_ge_init _ _

/-- accepted iff greater than everything accepted before (and than the initial value) -/
theorem accepted_iff_greater (a0 : Agent) (pre : List Ev) (ev : Ev) (v : Nat) (hst : stable a0 pre = true)
    (hoff : offer (run a0 pre) ev = some v) :
    accepted (run a0 pre) ev = some v ↔
      (∀ w ∈ acceptedLog a0 pre, w < v) ∧ (∀ l0, a0.lastNomination = some l0 → l0 < v) := by
  have hmax := run_lastNomination a0 pre hst
  obtain ⟨hub, hatt⟩ := optMax_spec a0.lastNomination (acceptedLog a0 pre)
  have hinit := optMax_ge_init a0.lastNomination (acceptedLog a0 pre)
  rw [← hmax] at hub hatt hinit
  unfold accepted
  rw [hoff]
  simp only []
  have hiff := accept_some_iff v (run a0 pre).lastNomination
  constructor
  · intro h
    have hacc : (shouldAcceptNomination (some v) (run a0 pre).lastNomination).2 = true := by
      cases hx : (shouldAcceptNomination (some v) (run a0 pre).lastNomination).2 <;> simp [hx] at h ⊢
    have hgt := hiff.1 hacc
    refine ⟨?_, ?_⟩
    · intro w hw
      have := hub w hw
      cases hl : (run a0 pre).lastNomination with
      | none => rw [hl] at this; simp [optLe] at this
      | some last =>
        rw [hl] at this
        have h2 := hgt last hl
        simp only [optLe] at this
        omega
    · intro l0 hl0
      rw [hl0] at hinit
      cases hl : (run a0 pre).lastNomination with
      | none => rw [hl] at hinit; simp [optLe] at hinit
      | some last =>
        rw [hl] at hinit
        have h2 := hgt last hl
        simp only [optLe] at hinit
        omega
  · rintro ⟨h1, h2⟩
    have hacc : (shouldAcceptNomination (some v) (run a0 pre).lastNomination).2 = true := by
      apply hiff.2
      intro last hl
      rcases hatt last hl with h | h
      · exact h2 last h
      · exact h1 last h
    simp [hacc]

end IceProofs.Agent
