import IceProofs.AgentC03Handlers
/-!
# C03 — `handleSuccess` (both selectors): a pair is selected only when it has just been validated by an
authenticated, transaction-matched response and carries the nomination proof of the agent's role
-/
namespace IceProofs.C03
open IceModel.AgentCore

theorem select_mem {a : Agent} {id : Nat} {p : Pair} (hp : p ∈ a.checklist) (e : p.id = id) :
    ({ p with nominated := true } : Pair) ∈ (a.select id).1.checklist := by
  rw [select_fst]
  have := mem_updPair_of_mem (id := id) (f := fun p : Pair => { p with nominated := true }) hp
  simpa [e] using this

/-- selecting a valid pair that carries the nomination proof of the agent's role -/
theorem select_hsel (a : Agent) (id : Nat)
    (hp : ∃ p ∈ a.checklist, p.id = id ∧ p.state = .succeeded ∧ NomProof a.controlling p) :
    HSel True a (a.select id) := by
  obtain ⟨p, hpm, hpid, hst, hn⟩ := hp
  refine ⟨fun hi => select_inv a id hi ⟨p, hpm, hpid, hst, ?_⟩, fun _ => select_rel a id, (select_cc a id).1,
    (select_noReq a id).outR _, ?_, fun _ _ => select_fwd a id⟩
  · unfold NomProof at hn
    cases hc : a.controlling <;> simp only [hc, if_true, Bool.false_eq_true, if_false] at hn
    · exact Or.inr hn
    · exact Or.inl hn
  · intro _ sid hs _
    rw [select_selected] at hs
    cases hs
    refine ⟨(select_cc a id).2, _, select_mem hpm hpid, hpid, ?_⟩
    unfold NomProof at hn ⊢
    cases hc : a.controlling <;> simp only [hc, if_true, Bool.false_eq_true, if_false] at hn ⊢ <;> exact hn

/-- the selection decision of `HandleSuccessResponse` (both selectors).  Controlling: a response to a USE-CANDIDATE
check selects when it carried a nomination value that is not superseded by a greater answered value, or when nothing
is selected.  Controlled: a deferred nomination mark — with a value: unless superseded; without: not once a value has
been accepted and another pair is selected, else by priority. -/
def hsSel (a : Agent) (p : Pair) (pd : Pending) : Agent × List Out :=
          if a.controlling then
            if pd.useCand then
              match pd.nom with
              | some v =>
                let superseded := match a.answeredNomination with | none => false | some w => v ≤ w
                if superseded then (a, [])
                else a.select p.id
              | none => if a.selected.isNone then a.select p.id else (a, [])
            else (a, [])
          else
            if p.nomOnSuccess then
              match p.deferredNom with
              | some v =>
                let superseded := match a.lastNomination with | none => true | some last => v < last
                if superseded then (a, [])
                else if a.selected != some p.id then a.select p.id else (a, [])
              | none =>
                match a.selected.bind a.pairById with
                | none => a.select p.id
                | some sp =>
                  if sp.id != p.id && a.lastNomination.isSome then (a, [])
                  else if sp.id != p.id && (!needsPrioCheck a.cfg || a.pairPrio sp ≤ a.pairPrio p) then a.select p.id
                  else (a, [])
            else (a, [])

/-- the ghost/validity update of `HandleSuccessResponse` -/
def hsMark (pd : Pending) (p : Pair) : Pair :=
  { p with state := .succeeded, gResp := true, gRespUC := p.gRespUC || pd.useCand }

/-- the value the controlling selector records as answered (`a` = state in which the decision is taken) -/
def hsAnswered (a : Agent) (pd : Pending) : Option Nat :=
  if a.controlling then
    if pd.useCand then
      match pd.nom with
      | some v => if (match a.answeredNomination with | none => false | some w => decide (v ≤ w)) then none else some v
      | none => none
    else none
  else none

/-- the deferred mark of a controlled agent's pair is consumed by the response that completes it -/
def hsClear (p : Pair) : Pair := { p with nomOnSuccess := false, deferredNom := none }

/-- bookkeeping after the decision (`a` = state in which the decision was taken, `x` = state after it): the
controlling selector records the answered value, the controlled selector clears the deferred mark -/
def hsFin (a : Agent) (p : Pair) (pd : Pending) (x : Agent) : Agent :=
  if a.controlling then
    match hsAnswered a pd with
    | some v => { x with answeredNomination := some v }
    | none => x
  else if p.nomOnSuccess then x.modPair p.id hsClear else x

theorem select_answered (a : Agent) (w : Option Nat) (id : Nat) :
    ({ a with answeredNomination := w } : Agent).select id =
      ({ (a.select id).1 with answeredNomination := w }, (a.select id).2) := by
  unfold Agent.select Agent.setConnState Agent.modPair
  simp only []
  split <;> rfl

/-- the block of `handleSuccess` that follows the validity update (verbatim) -/
def hsRaw (a : Agent) (p : Pair) (pd : Pending) : Agent × List Out :=
          if a.controlling then
            if pd.useCand then
              match pd.nom with
              | some v =>
                let superseded := match a.answeredNomination with | none => false | some w => v ≤ w
                if superseded then (a, [])
                else ({ a with answeredNomination := some v }).select p.id
              | none => if a.selected.isNone then a.select p.id else (a, [])
            else (a, [])
          else
            if p.nomOnSuccess then
              let (a, o) : Agent × List Out :=
                match p.deferredNom with
                | some v =>
                  let superseded := match a.lastNomination with | none => true | some last => v < last
                  if superseded then (a, [])
                  else if a.selected != some p.id then a.select p.id else (a, [])
                | none =>
                  match a.selected.bind a.pairById with
                  | none => a.select p.id
                  | some sp =>
                    if sp.id != p.id && a.lastNomination.isSome then (a, [])
                    else if sp.id != p.id && (!needsPrioCheck a.cfg || a.pairPrio sp ≤ a.pairPrio p) then a.select p.id
                    else (a, [])
              (a.modPair p.id fun p => { p with nomOnSuccess := false, deferredNom := none }, o)
            else (a, [])

theorem hsRaw_eq (a : Agent) (p : Pair) (pd : Pending) :
    hsRaw a p pd = (hsFin a p pd (hsSel a p pd).1, (hsSel a p pd).2) := by
  unfold hsRaw hsFin hsSel hsAnswered
  by_cases hc : a.controlling = true
  · simp only [if_pos hc]
    by_cases hu : pd.useCand = true
    · simp only [if_pos hu]
      cases hn : pd.nom with
      | none => simp only []
      | some v =>
        simp only []
        cases ha : a.answeredNomination with
        | none =>
          simp only [Bool.false_eq_true, if_false]
          rw [select_answered]
        | some w =>
          simp only []
          by_cases hle : v ≤ w
          · simp only [hle, decide_true, if_true]
          · simp only [hle, decide_false, Bool.false_eq_true, if_false]
            rw [select_answered]
    · simp only [if_neg hu]
  · simp only [if_neg hc]
    by_cases hn : p.nomOnSuccess = true
    · simp only [if_pos hn]
      rfl
    · simp only [if_neg hn]

theorem handleSuccess_raw (a : Agent) (now : Nat) (m : Msg) (l r : Cand) (src : Nat) :
    a.handleSuccess now m l r src =
    match (a.takePending now m.tid).2 with
    | none => ((a.takePending now m.tid).1, [])
    | some pd =>
      if !(pd.net == l.net && pd.dest == src && pd.src == l.addr) then ((a.takePending now m.tid).1, [])
      else
        match (a.takePending now m.tid).1.findPair l r with
        | none => ((a.takePending now m.tid).1, [])
        | some p =>
          ((hsRaw ((a.takePending now m.tid).1.modPair p.id (hsMark pd)) p pd).1.modPair p.id
              (Pair.gotResponse now pd.ts),
           (hsRaw ((a.takePending now m.tid).1.modPair p.id (hsMark pd)) p pd).2) := by
  unfold Agent.handleSuccess
  rcases a.takePending now m.tid with ⟨a1, pend⟩
  cases pend with
  | none => rfl
  | some pd =>
    simp only []
    split
    · rfl
    · cases a1.findPair l r <;> rfl

theorem handleSuccess_eq (a : Agent) (now : Nat) (m : Msg) (l r : Cand) (src : Nat) :
    a.handleSuccess now m l r src =
    match (a.takePending now m.tid).2 with
    | none => ((a.takePending now m.tid).1, [])
    | some pd =>
      if !(pd.net == l.net && pd.dest == src && pd.src == l.addr) then ((a.takePending now m.tid).1, [])
      else
        match (a.takePending now m.tid).1.findPair l r with
        | none => ((a.takePending now m.tid).1, [])
        | some p =>
          ((hsFin ((a.takePending now m.tid).1.modPair p.id (hsMark pd)) p pd
              (hsSel ((a.takePending now m.tid).1.modPair p.id (hsMark pd)) p pd).1).modPair p.id
              (Pair.gotResponse now pd.ts),
           (hsSel ((a.takePending now m.tid).1.modPair p.id (hsMark pd)) p pd).2) := by
  rw [handleSuccess_raw]
  simp only [hsRaw_eq]

theorem takePending_hok {wp ex : Prop} (a : Agent) (now tid : Nat) : HOK wp ex a ((a.takePending now tid).1, []) := by
  unfold Agent.takePending
  simp only []
  split
  · exact HOK.silent (Pres.of_eq rfl rfl rfl rfl fun _ => rfl) rfl rfl
  · exact HOK.silent (Pres.of_eq rfl rfl rfl rfl fun _ => rfl) rfl rfl

theorem takePending_frame (a : Agent) (now tid : Nat) :
    (a.takePending now tid).1.checklist = a.checklist ∧ (a.takePending now tid).1.selected = a.selected := by
  unfold Agent.takePending
  simp only []
  split <;> exact ⟨rfl, rfl⟩

theorem takePending_mem (a : Agent) (now tid : Nat) (pd : Pending) (h : (a.takePending now tid).2 = some pd) :
    pd ∈ a.pending ∧ pd.tid = tid := by
  unfold Agent.takePending at h
  simp only [] at h
  split at h
  · rename_i q hq
    simp only [Option.some.injEq] at h
    subst h
    have hm := List.mem_of_find?_eq_some hq
    have ht := List.find?_some hq
    simp only [Agent.invalidatePending, List.mem_filter] at hm
    exact ⟨hm.1, by simpa using ht⟩
  · cases h

/-- `hsSel` either does nothing or selects the pair — and then for the reason of the agent's role -/
theorem hsSel_cases (a : Agent) (p : Pair) (pd : Pending) :
    hsSel a p pd = (a, []) ∨ (hsSel a p pd = a.select p.id ∧
      ((a.controlling = true ∧ pd.useCand = true) ∨ (a.controlling = false ∧ p.nomOnSuccess = true))) := by
  unfold hsSel
  simp only []
  repeat' split
  all_goals first
    | exact Or.inl rfl
    | exact Or.inr ⟨rfl, Or.inl ⟨by assumption, by assumption⟩⟩
    | exact Or.inr ⟨rfl, Or.inr ⟨by simp_all, by assumption⟩⟩

theorem hsSel_hsel (a : Agent) (p : Pair) (pd : Pending)
    (hq : ∃ q ∈ a.checklist, q.id = p.id ∧ q.state = .succeeded ∧
      (a.controlling = true → pd.useCand = true → q.gRespUC = true) ∧
      (a.controlling = false → p.nomOnSuccess = true → q.gNomReq = true)) :
    HSel True a (hsSel a p pd) := by
  obtain ⟨q, hqm, hqid, hqs, hq1, hq2⟩ := hq
  rcases hsSel_cases a p pd with h | ⟨h, hr⟩
  · rw [h]; exact (HOK.refl True True a).hsel
  · rw [h]
    refine select_hsel a p.id ⟨q, hqm, hqid, hqs, ?_⟩
    unfold NomProof
    rcases hr with ⟨hc, hu⟩ | ⟨hc, hu⟩
    · rw [hc]; exact hq1 hc hu
    · rw [hc]; exact hq2 hc hu

theorem hsMark_pres {wp ex : Prop} (a : Agent) (id : Nat) (pd : Pending) : Pres wp ex a (a.modPair id (hsMark pd)) :=
  modPair_pres a id (hsMark pd) (fun _ => rfl)
    (fun q _ _ => ⟨fun x => x, fun x => x, fun _ => rfl, fun h => by simp [hsMark, h], fun _ => rfl⟩)
    (fun _ q _ _ => ⟨rfl, rfl, rfl, rfl⟩)
    (fun q _ _ h => ⟨fun _ => Or.inl rfl, h.deferred, fun _ => rfl⟩)
    (fun _ q _ _ h => ⟨rfl, h.nominated, h.nom.imp (fun h => by simp [hsMark, h]) fun x => x⟩)

theorem hsFin_cfg (a : Agent) (p : Pair) (pd : Pending) (x : Agent) :
    (hsFin a p pd x).cfg = x.cfg ∧ (hsFin a p pd x).controlling = x.controlling := by
  unfold hsFin
  split
  · split <;> exact ⟨rfl, rfl⟩
  · split <;> exact ⟨rfl, rfl⟩

theorem hsFin_selected (a : Agent) (p : Pair) (pd : Pending) (x : Agent) : (hsFin a p pd x).selected = x.selected := by
  unfold hsFin
  split
  · split <;> rfl
  · split <;> rfl

theorem hsFin_controlled (a : Agent) (p : Pair) (pd : Pending) (x : Agent) (hc : a.controlling = false) :
    hsFin a p pd x = if p.nomOnSuccess then x.modPair p.id hsClear else x := by
  unfold hsFin
  simp [hc]

/-- the bookkeeping after the decision touches nothing the invariant reads (the cleared mark only weakens it) -/
theorem hsFin_pres {wp ex : Prop} (a : Agent) (p : Pair) (pd : Pending) (x : Agent) : Pres wp ex x (hsFin a p pd x) := by
  unfold hsFin
  split
  · split
    · exact Pres.of_eq rfl rfl rfl rfl fun _ => rfl
    · exact Pres.refl _ _ _
  · split
    · exact modPair_pres x p.id hsClear (fun _ => rfl)
        (fun q _ _ => ⟨fun h => h, fun h => h, fun h => h, fun h => h, fun h => h⟩)
        (fun _ q _ _ => ⟨rfl, rfl, rfl, rfl⟩)
        (fun q _ _ h => ⟨h.valid, fun hn => by simp [hsClear] at hn, h.respUC⟩)
        (fun _ q _ _ h => ⟨h.succ, h.nominated, h.nom⟩)
    · exact Pres.refl _ _ _

theorem handleSuccess_hsel (a : Agent) (now : Nat) (m : Msg) (l r : Cand) (src : Nat) :
    HSel True a (a.handleSuccess now m l r src) := by
  rw [handleSuccess_eq]
  have h0 := takePending_hok (wp := True) (ex := True) a now m.tid
  have hf := takePending_frame a now m.tid
  generalize (a.takePending now m.tid).1 = a1 at h0 hf ⊢
  split
  · exact h0.hsel
  · rename_i pd _
    split
    · exact h0.hsel
    · split
      · exact h0.hsel
      · rename_i p hfp
        have hpm : p ∈ a1.checklist := findPair_mem hfp
        have h1 : HOK True True a (a1.modPair p.id (hsMark pd), []) :=
          h0.andThen (hsMark_pres a1 p.id pd) rfl rfl
        -- facts about the marked pair need the invariant of `a1`; package as an `HSel` from `a`
        refine ⟨?_, ?_, ?_, ?_, ?_, ?_⟩
        all_goals
          have key : Inv3 a → HSel True (a1.modPair p.id (hsMark pd))
              (hsSel (a1.modPair p.id (hsMark pd)) p pd) := by
            intro hi
            have hi1 := (h0.pres hi).1
            apply hsSel_hsel
            refine ⟨hsMark pd p, ?_, rfl, rfl, ?_, ?_⟩
            · have := mem_updPair_of_mem (id := p.id) (f := hsMark pd) hpm
              simp only [beq_self_eq_true, if_true] at this
              exact this
            · intro _ hu; simp [hsMark, hu]
            · intro _ hn; exact (hi1.pairs p hpm).deferred hn
          have full : Inv3 a → HSel True a
              ((hsFin (a1.modPair p.id (hsMark pd)) p pd (hsSel (a1.modPair p.id (hsMark pd)) p pd).1).modPair p.id
                  (Pair.gotResponse now pd.ts),
               (hsSel (a1.modPair p.id (hsMark pd)) p pd).2) := by
            intro hi
            have k := key hi
            rcases hk : hsSel (a1.modPair p.id (hsMark pd)) p pd with ⟨a3, o3⟩
            rw [hk] at k
            have := HSel.after_hok h1 NoReq.nil k
            simp only [List.nil_append] at this
            exact (this.andThen (hsFin_pres (a1.modPair p.id (hsMark pd)) p pd a3)
                (hsFin_cfg _ p pd a3).1 (hsFin_cfg _ p pd a3).2).andThen
              (modPair_core _ _ (Pair.gotResponse now pd.ts)
                fun p => ⟨rfl, rfl, rfl, rfl, rfl, rfl, rfl, rfl, rfl, rfl, rfl, rfl⟩) rfl rfl
        · exact fun hi => (full hi).inv hi
        · exact fun hi => (full hi).rel hi
        · show (hsFin _ p pd _).cfg = a.cfg
          rw [(hsFin_cfg _ p pd _).1]
          rcases hsSel_cases (a1.modPair p.id (hsMark pd)) p pd with h | ⟨h, _⟩
          · rw [h]; exact h1.cfg
          · rw [h]; exact ((select_cc _ _).1).trans h1.cfg
        · rcases hsSel_cases (a1.modPair p.id (hsMark pd)) p pd with h | ⟨h, _⟩
          · rw [h]; exact OutR.nil _
          · rw [h]; exact (select_noReq _ _).outR _
        · exact fun hi => (full hi).sel hi
        · exact fun hi => (full hi).fwd hi

end IceProofs.C03
