import IceProofs.CloseSysStep
/-! # CloseSys — consequences of `Inv` once a `Close` has returned -/
namespace IceProofs.CloseSys
open IceModel.CloseSys

theorem delStep_tasksRun {s s' : State} {fin : Bool} (h : delStep s = some (s', fin)) : s'.tasksRun = s.tasksRun := by
  rcases delStep_cases h with ⟨_, rfl, _⟩ | ⟨_, c, cd, _, rfl | ⟨_, _, rfl⟩⟩ <;> rfl

theorem loopStep_tasksRun {s s' : State} (hs : loopStep s = some s') : s'.tasksRun = s.tasksRun := by
  unfold loopStep at hs
  split at hs
  · split at hs
    · obtain rfl := Option.some.inj hs; rfl
    · simp at hs
  · obtain rfl := Option.some.inj hs; rfl
  · simp only at hs
    split at hs
    · split at hs
      · obtain rfl := Option.some.inj hs; rfl
      · simp at hs
    · obtain rfl := Option.some.inj hs; rfl
    · obtain rfl := Option.some.inj hs; rfl
    · obtain rfl := Option.some.inj hs; simp
    · split at hs
      · split at hs
        · obtain rfl := Option.some.inj hs; simp
        · obtain rfl := Option.some.inj hs; rfl
      · obtain rfl := Option.some.inj hs; rfl
    · obtain rfl := Option.some.inj hs; simp
    · obtain rfl := Option.some.inj hs; rfl
    · obtain rfl := Option.some.inj hs; rfl
  · split at hs
    · simp at hs
    · rename_i hd; obtain rfl := Option.some.inj hs; exact (delStep_tasksRun hd :)
  · obtain rfl := Option.some.inj hs; simp
  · split at hs
    · obtain rfl := Option.some.inj hs; rfl
    · simp at hs
  · split at hs
    · simp at hs
    · rename_i hd; obtain rfl := Option.some.inj hs; exact (delStep_tasksRun hd :)
  · obtain rfl := Option.some.inj hs; rfl
  · obtain rfl := Option.some.inj hs; rfl
  · obtain rfl := Option.some.inj hs; simp
  · obtain rfl := Option.some.inj hs; rfl
  · simp at hs

theorem callStep_tasksRun {s s1 : State} {t : Tid} {th th' : Th} {alt : Bool} (hd : s.done = true)
    (hs : callStep s t th alt = some (s1, th')) : s1.tasksRun = s.tasksRun := by
  unfold callStep at hs
  (repeat' split at hs) <;> first
    | (simp at hs; done)
    | (obtain ⟨rfl, _⟩ := Prod.mk.inj (Option.some.inj hs); first | rfl | (simp_all; done) | simp [abortCand, setNdone])

/-- once `done` is closed no transition hands a task to the loop (R1): the hand-off counter is frozen. -/
theorem step_tasksRun {s s' : State} {a : Action} (hd : s.done = true) (hs : step s a = some s') :
    s'.tasksRun = s.tasksRun := by
  unfold step at hs
  split at hs
  · exact loopStep_tasksRun hs
  · rename_i t alt
    unfold thStep at hs
    split at hs
    · simp at hs
    · split at hs
      · simp at hs
      · split at hs
        · simp at hs
        · split at hs
          · obtain rfl := Option.some.inj hs; simp
          · split at hs
            · simp at hs
            · rename_i hc; obtain rfl := Option.some.inj hs; simp [callStep_tasksRun hd hc]
    · split at hs
      · simp at hs
      · split at hs
        · simp at hs
        · split at hs
          · split at hs
            · obtain rfl := Option.some.inj hs; rfl
            · obtain rfl := Option.some.inj hs; simp
          · split at hs
            · simp at hs
            · rename_i hc; obtain rfl := Option.some.inj hs; simp [callStep_tasksRun hd hc]
  · rename_i c alt
    unfold rlStep at hs
    (repeat' split at hs) <;> first
      | (simp at hs; done)
      | (obtain rfl := Option.some.inj hs; first | rfl | simp_all)
  · unfold envStep at hs
    (repeat' split at hs) <;> first
      | (simp at hs; done)
      | (obtain rfl := Option.some.inj hs; first | rfl | simp)


/-- the state of the agent once some `Close` has returned. -/
structure AfterClose (s : State) : Prop where
  done : s.done = true
  /-- `taskLoopDone` is closed: the loop goroutine has run onClose and is gone -/
  loopGone : s.loop = .exited
  /-- every receive loop has returned (`closedCh` closed) and every candidate's I/O is aborted -/
  recvGone : ∀ (c : Nat) (cd : Cand), s.cands[c]? = some cd → cd.rl = .exited ∧ cd.aborted = true
  /-- the gather cycle awaited by onClose has ended -/
  gatherGone : gatherFinished s = true
  bufClosed : s.bufClosed = true
  /-- the last state accepted by the connection-state notifier is Closed (event 0) -/
  lastClosed : ∀ st : Stream, s.streams[0]? = some st → s.lastAcc = some 0
  notifClosed : ∀ (i : Nat) (st : Stream), s.streams[i]? = some st → st.ndone = true

theorem Inv.afterClose {s : State} (h : Inv s) (hc : s.closeRet = true) : AfterClose s := by
  obtain ⟨hl, hn⟩ := h.ghost.1 hc
  have h8 : stage s.loop = 8 := by rw [hl]; rfl
  refine ⟨h.closing (by omega), hl, ?_, h.stages.2.2 (by omega), h.stages.1 (by omega), h.stages.2.1 (by omega), hn⟩
  intro c cd hcd
  obtain ⟨_, a2, a3⟩ := h.candOK c cd hcd
  exact ⟨a3 (by omega), a2 (a3 (by omega))⟩

/-- a blocked or new state-dependent call returns at once, with an error, without touching the shared state. -/
def ErrReturn (s : State) (t : Tid) (th : Th) : Prop :=
  ∃ r : Ret, (r = .closed ∨ r = .ioerr) ∧ callStep s t th false = some (s, th.ret r)

/-- the calls the property speaks about: a new `Run`/`Read`/`Write`, or one blocked in `Run`, `Read`, `Write`,
`AwaitConnect`. -/
def StateCall (th : Th) : Prop :=
  (th.loc = .idle ∧ ∃ r, (∃ c task, th.prog = .run c task :: r) ∨ th.prog = .read :: r ∨ (∃ c, th.prog = .write c :: r)) ∨
  (∃ c task, th.loc = .rSel c task) ∨ th.loc = .rdBlk ∨ (∃ c, th.loc = .wrBlk c) ∨ th.loc = .awBlk

theorem AfterClose.errReturn {s : State} (h : AfterClose s) (t : Tid) (th : Th) (hc : StateCall th) : ErrReturn s t th := by
  have hd := h.done
  have hb := h.bufClosed
  unfold ErrReturn callStep
  rcases hc with ⟨hl, r, ⟨c, task, hp⟩ | hp | ⟨c, hp⟩⟩ | ⟨c, task, hl⟩ | hl | ⟨c, hl⟩ | hl
  · exact ⟨.closed, Or.inl rfl, by simp [hl, hp, hd]⟩
  · exact ⟨.closed, Or.inl rfl, by simp [hl, hp, hd]⟩
  · exact ⟨.closed, Or.inl rfl, by simp [hl, hp, hd]⟩
  · exact ⟨.closed, Or.inl rfl, by simp [hl, hd]⟩
  · exact ⟨.ioerr, Or.inr rfl, by simp [hl, hb]⟩
  · refine ⟨.ioerr, Or.inr rfl, ?_⟩
    cases hcd : s.cands[c]? with
    | none => simp [hl, sockFree, hcd]
    | some cd => simp [hl, sockFree, hcd, (h.recvGone c cd hcd).2]
  · exact ⟨.closed, Or.inl rfl, by simp [hl, hd]⟩

end IceProofs.CloseSys
