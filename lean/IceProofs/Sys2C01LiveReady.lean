import IceProofs.Sys2C01LiveReach
/-!
# C01 liveness, layer 11 — the decidable start condition `ReadyD` and the explicit round bound
-/
namespace IceProofs.C01Live
open IceModel.AgentCore IceModel.Sys2 IceProofs.Sys2Run IceProofs.C01 IceProofs.Agent IceProofs.C03

/-! ## decidable forms -/

/-- the remote candidate of the selected pair (if any) was heard recently enough (decidable form of `Timely.sel`) -/
def SelHeard (H : Nat) (a : Agent) : Prop :=
  match a.selected with
  | none => True
  | some id =>
    match a.pairById id with
    | none => False
    | some p =>
      match a.remoteOf p.r with
      | none => False
      | some r =>
        match r.lastRecv with
        | none => False
        | some t => QuietFor a.cfg (H - t)

instance (H : Nat) (a : Agent) : Decidable (SelHeard H a) := by
  unfold SelHeard
  repeat' split
  all_goals infer_instance

/-- the timer is armed, not before `T0` -/
def TickFrom (T0 : Nat) (a : Agent) : Prop := match a.nextTick with | some t => T0 ≤ t | none => False

instance (T0 : Nat) (a : Agent) : Decidable (TickFrom T0 a) := by unfold TickFrom; split <;> infer_instance

/-- `Good`, as a decidable conjunction -/
def GoodD (T0 H : Nat) (a : Agent) : Prop :=
  a.cfg.lite = false ∧ a.started = true ∧ a.closed = false ∧ a.forcePending = false ∧ a.connState ≠ .failed ∧
  CandsOK a.locals ∧ (∀ p ∈ a.checklist, p.id ≤ a.nextPairID) ∧ a.checklist.Pairwise (fun p q => p.id ≠ q.id) ∧
  CandsOK a.remotes ∧ NoDefer a ∧ SuccEnds a ∧ NomOK a ∧ PendOK a ∧ SelConn a ∧
  (a.checkingTimeout = 0 ∨ (H - T0 ≤ a.checkingTimeout ∧ (a.lastSeen = .checking → H ≤ a.checkingStart + a.checkingTimeout))) ∧
  QuietFor a.cfg (H - T0) ∧ SelHeard H a ∧ TickFrom T0 a

instance (T0 H : Nat) (a : Agent) : Decidable (GoodD T0 H a) := by
  unfold GoodD CandsOK NoDefer SuccEnds NomOK PendOK SelConn
  infer_instance

theorem GoodD.good {T0 H : Nat} {a : Agent} (h : GoodD T0 H a) : Good T0 H a := by
  obtain ⟨h1, h2, h3, h4, h5, h6, h7, h8, h9, h10, h11, h12, h13, h14, h15, h16, h17, h18⟩ := h
  refine ⟨h1, h2, h3, h4, h5, h6, ⟨⟨h7, h8⟩, h9, h10, h11, h12, h13, h14⟩, ⟨h15, h16, ?_⟩, ?_⟩
  · intro sid hid
    unfold SelHeard at h17
    rw [hid] at h17
    simp only [] at h17
    cases hp : a.pairById sid with
    | none => rw [hp] at h17; exact h17.elim
    | some p =>
      rw [hp] at h17
      simp only [] at h17
      cases hr : a.remoteOf p.r with
      | none => rw [hr] at h17; exact h17.elim
      | some r =>
        rw [hr] at h17
        simp only [] at h17
        cases ht : r.lastRecv with
        | none => rw [ht] at h17; exact h17.elim
        | some t =>
          rw [ht] at h17
          exact ⟨p, r, t, rfl, hr, ht, h17⟩
  · unfold TickFrom at h18
    cases ht : a.nextTick with
    | none => rw [ht] at h18; exact h18.elim
    | some t => rw [ht] at h18; exact ⟨t, rfl, h18⟩

/-- `DgOK`, decidable -/
def DgOKd (s : Sys) (d : Dgram) : Prop :=
  match d.p with
  | .data _ => False
  | .stun m => m.cls = 0 → ∀ x : Bool, m.key = some (s.agent x).localPwd →
      m.nom = none ∧ NoConflict (s.agent x) m ∧ (s.agent x).cfg.blockedIPs.contains (ipOf (s.mapped d.src)) = false

instance (s : Sys) (d : Dgram) : Decidable (DgOKd s d) := by unfold DgOKd; split <;> infer_instance

theorem DgOKd.ok {s : Sys} {d : Dgram} (h : DgOKd s d) : DgOK s d := by
  unfold DgOKd at h
  cases hp : d.p with
  | data n => rw [hp] at h; exact h.elim
  | stun m =>
    rw [hp] at h
    exact ⟨⟨m, hp⟩, fun m' hm' => by rw [hp] at hm'; cases hm'; exact h⟩

/-- the timer of the controlling agent is due within the next two seconds -/
def TickSoon (now : Nat) (a : Agent) : Prop :=
  match a.nextTick with | some t => now ≤ t ∧ t ≤ now + 2000000000 | none => False

instance (now : Nat) (a : Agent) : Decidable (TickSoon now a) := by unfold TickSoon; split <;> infer_instance

/-- a pair of the controlling agent waiting / in progress, under its request budget, on a `Link` (decidable) -/
def BudgetPairD (c : Bool) (s : Sys) : Prop :=
  ∃ p ∈ (s.agent c).checklist, (p.state = .waiting ∨ p.state = .inProgress) ∧ p.reqCount ≤ (s.agent c).cfg.maxBindingRequests ∧
    match (s.agent c).localOf p.l, (s.agent c).remoteOf p.r with
    | some l, some r => Link s c l.addr r.addr
    | _, _ => False

instance (c : Bool) (s : Sys) : Decidable (BudgetPairD c s) := by
  unfold BudgetPairD
  refine @List.decidableBEx _ _ (fun p => ?_) _
  refine @instDecidableAnd _ _ _ (@instDecidableAnd _ _ _ ?_)
  split <;> infer_instance

theorem BudgetPairD.budget {c : Bool} {s : Sys} (h : BudgetPairD c s) : BudgetPair c s := by
  obtain ⟨p, hp, h1, h2, h3⟩ := h
  cases hl : (s.agent c).localOf p.l with
  | none => rw [hl] at h3; exact h3.elim
  | some l =>
    cases hr : (s.agent c).remoteOf p.r with
    | none => rw [hl, hr] at h3; exact h3.elim
    | some r =>
      rw [hl, hr] at h3
      exact ⟨p, hp, h1, h2, l, r, hl, hr, h3⟩

instance (s : Sys) (x : Bool) : Decidable (HasSucc s x) := by unfold HasSucc; infer_instance

/-- **the start condition** (decidable): on the state `s` reached by the prefix `pre` — both agents present, in
opposite roles (`c` controls) with each other's credentials, distinct passwords, disjoint local addresses; both `GoodD`
(started, open, full, not Failed, UDP4 candidates of known types with pairwise distinct addresses, bookkeeping
invariants, timeouts beyond the horizon `H`); nothing but acceptable STUN in flight; no remote-IP filter hits the
peer; the controlling agent has no selected pair and no USE-CANDIDATE transaction pending; its timer is due within
2 s; it cannot be answered from one of its own addresses; every address the controlled agent ever had a local
candidate at still carries one. -/
def ReadyD (pre : List SysEv) (c : Bool) (T0 H : Nat) (s : Sys) : Prop :=
  s.hasB = true ∧ (∀ x, (s.agent x).controlling = (x == c)) ∧
  (∀ x, (s.agent x).remoteUfrag = (s.agent (!x)).localUfrag) ∧ (∀ x, (s.agent x).remotePwd = (s.agent (!x)).localPwd) ∧
  s.a.localPwd ≠ s.b.localPwd ∧ Disj s ∧
  (∀ x, GoodD T0 H (s.agent x)) ∧
  (∀ d ∈ s.inflight, DgOKd s d) ∧ FilterOK s ∧
  (s.agent c).selected = none ∧ (∀ pd ∈ (s.agent c).pending, pd.useCand = false) ∧
  T0 ≤ s.now ∧ s.now ≤ H ∧ TickSoon s.now (s.agent c) ∧
  (∀ la ∈ localAddrsOf c pre, ∀ x ∈ localAddrsOf c pre, (x, mappedL s.nat la) ∈ s.blocked) ∧
  (∀ x ∈ localAddrsOf (!c) pre, ((s.agent (!c)).localByAddr x).isSome = true)

instance (pre : List SysEv) (c : Bool) (T0 H : Nat) (s : Sys) : Decidable (ReadyD pre c T0 H s) := by
  unfold ReadyD Disj FilterOK
  infer_instance

/-- a reachable state satisfying `ReadyD` satisfies the round invariant -/
theorem ready_rinv {s0 : Sys} {pre : List SysEv} (hi : Sys.Init s0) (hf : FreshSel s0) (hs : LocalsSane s0.nat pre)
    {c : Bool} {T0 H : Nat} (hr : ReadyD pre c T0 H (Sys.runs s0 pre)) :
    RInv s0.nat s0.blocked (SLof s0.nat pre false) (SLof s0.nat pre true) (SRof s0.nat pre) s0.a.cfg.lite s0.b.cfg.lite
      T0 H c (Sys.runs s0 pre) := by
  obtain ⟨r1, r2, r3, r4, r5, r6, r7, r8, r9, r10, r11, r12, r13, r14, r15, r16⟩ := hr
  obtain ⟨tn, tb, _⟩ := Sys.runs_topology s0 pre
  have hnosel : ¬ NomSeen c (Sys.runs s0 pre) := by
    rintro (h | ⟨_, _, _, _, _, pd, hpd, _, hu⟩)
    · unfold Sel at h; rw [r10] at h; cases h
    · rw [r11 pd hpd] at hu; cases hu
  refine ⟨⟨reach_inv hi hs (fun e he => he), ⟨SLof_sane, SLof_SRof, ?_, ?_⟩, c06_runs (c06_init hi hf) pre,
    fun x => (r7 x).good, ⟨r1, r2, r3, r4, r5, r6⟩, fun d hd => (r8 d hd).ok, r9, ?_, r12, r13⟩,
    fun h => absurd h hnosel, ?_⟩
  · intro la x hla hx
    have : ∀ y, (if c then SLof s0.nat pre true else SLof s0.nat pre false) y → y ∈ localAddrsOf c pre := by
      intro y hy; cases c <;> exact hy.2
    have := r15 la (this la hla) x (this x hx)
    rw [tn, tb] at this
    exact this
  · intro x hx
    have : x ∈ localAddrsOf (!c) pre := by cases c <;> exact hx.2
    exact r16 x this
  · intro d _ m _ _ pd hpd _ hu
    rw [r11 pd hpd] at hu; cases hu
  · unfold TickSoon at r14
    cases ht : ((Sys.runs s0 pre).agent c).nextTick with
    | none => rw [ht] at r14; exact r14.elim
    | some t => rw [ht] at r14; exact ⟨t, ht, r14.1, r14.2⟩

/-! ## the explicit bound -/

section
variable {nat blocked : List (Nat × Nat)} {SLA SLB SR : Nat → Prop} {liteA liteB : Bool} {T0 H : Nat} {c : Bool}

/-- tick times of the first `n + 1` rounds: at least `minInterval` and at most 2 s apart -/
theorem tick_bounds {s : Sys} (h : RInv nat blocked SLA SLB SR liteA liteB T0 H c s) (n : Nat)
    (hb : tickTime c 0 s + 2000000000 * n ≤ H) :
    ∀ k, k ≤ n → tickTime c k s ≤ tickTime c 0 s + 2000000000 * k ∧
      tickTime c 0 s + Config.minInterval (s.agent c).cfg * k ≤ tickTime c k s := by
  have key : ∀ k, k ≤ n → ∀ j, j ≤ k → tickTime c j s ≤ tickTime c 0 s + 2000000000 * j ∧
      tickTime c 0 s + Config.minInterval (s.agent c).cfg * j ≤ tickTime c j s := by
    intro k
    induction k with
    | zero =>
      intro _ j hj
      have : j = 0 := by omega
      subst this
      simp
    | succ k ih =>
      intro hk j hj
      by_cases hjk : j ≤ k
      · exact ih (by omega) j hjk
      · have : j = k + 1 := by omega
        subst this
        obtain ⟨_, _, _, _, _, b1, b2⟩ := h.after_rounds (k + 1) (fun i hi => by
          have := (ih (by omega) i (by omega)).1
          have h2 : 2000000000 * i ≤ 2000000000 * n := Nat.mul_le_mul_left _ (by omega)
          omega)
        exact ⟨b2, b1⟩
  intro k hk
  exact key k hk k (Nat.le_refl _)

/-- **convergence with an explicit number of rounds.**  `n ≥ 1` rounds of at least `minInterval` each take the
controlling agent's clock past `selStart + maxWait`; the horizon covers `n` more rounds of at most 2 s each: after
`n + 1` rounds both agents have a selected pair and are Connected. -/
theorem converge_explicit {s : Sys} (h : RInv nat blocked SLA SLB SR liteA liteB T0 H c s) (n : Nat) (hn : 1 ≤ n)
    (hstart : HasSucc s c ∨ BudgetPair c s)
    (htime : (s.agent c).selStart + Config.maxWait (s.agent c).cfg ≤ tickTime c 0 s + Config.minInterval (s.agent c).cfg * n)
    (hb : tickTime c 0 s + 2000000000 * n ≤ H) :
    ∀ x, Sel (rounds c (n + 1) s) x ∧ ((rounds c (n + 1) s).agent x).connState = .connected := by
  have tb := tick_bounds h n hb
  apply converge h n
  · intro k hk
    have := (tb k hk).1
    have h2 : 2000000000 * k ≤ 2000000000 * n := Nat.mul_le_mul_left _ hk
    omega
  · rcases hstart with g | g
    · exact Or.inl g
    · exact Or.inr (Or.inr ⟨g, hn⟩)
  · exact Nat.le_trans htime (tb n (Nat.le_refl _)).2

end

section
variable {nat blocked : List (Nat × Nat)} {SLA SLB SR : Nat → Prop} {liteA liteB : Bool} {T0 H : Nat} {c : Bool}

/-- the time the controlling agent may nominate from: selector start + the longest acceptance wait -/
def nomTime (c : Bool) (s : Sys) : Nat := (s.agent c).selStart + Config.maxWait (s.agent c).cfg

/-- the round bound: `(nomTime − first tick) / minInterval + 1` ticks take the clock past `nomTime` -/
def roundBound (c : Bool) (s : Sys) : Nat := (nomTime c s - tickTime c 0 s) / Config.minInterval (s.agent c).cfg + 1

/-- **convergence within an explicit number of rounds.**  If the horizon reaches 2 s beyond the later of the first
tick and `nomTime`, then for some `1 ≤ n ≤ roundBound`, after `n + 1` rounds both agents have a selected pair and
are Connected. -/
theorem converge_bound {s : Sys} (h : RInv nat blocked SLA SLB SR liteA liteB T0 H c s)
    (hstart : HasSucc s c ∨ BudgetPair c s)
    (hH : max (tickTime c 0 s) (nomTime c s) + 2000000000 ≤ H) :
    ∃ n, 1 ≤ n ∧ n ≤ roundBound c s ∧
      ∀ x, Sel (rounds c (n + 1) s) x ∧ ((rounds c (n + 1) s).agent x).connState = .connected := by
  -- search for the first round whose tick is late enough
  have key : ∀ m, (∀ j, j ≤ m → tickTime c j s ≤ H) ∨
      ∃ n, n ≤ m ∧ 1 ≤ n ∧ nomTime c s ≤ tickTime c n s ∧ ∀ j, j ≤ n → tickTime c j s ≤ H := by
    intro m
    induction m with
    | zero =>
      left
      intro j hj
      have : j = 0 := by omega
      subst this
      have := Nat.le_max_left (tickTime c 0 s) (nomTime c s)
      omega
    | succ m ih =>
      rcases ih with hall | ⟨n, hn, h1, h2, h3⟩
      · by_cases hdone : 1 ≤ m ∧ nomTime c s ≤ tickTime c m s
        · exact Or.inr ⟨m, by omega, hdone.1, hdone.2, hall⟩
        · left
          obtain ⟨i1, _, _, _, _, _, _⟩ := h.after_rounds m (fun k hk => hall k (by omega))
          obtain ⟨_, _, _, _, r5, _, _⟩ := i1.after_round (hall m (Nat.le_refl _))
          have e : tickTime c (m + 1) s = roundT c (round c (rounds c m s)) := by unfold tickTime; rw [rounds_succ]
          have hm : tickTime c m s ≤ max (tickTime c 0 s) (nomTime c s) := by
            by_cases hm0 : m = 0
            · subst hm0; exact Nat.le_max_left _ _
            · have : tickTime c m s < nomTime c s := by
                rcases Nat.lt_or_ge (tickTime c m s) (nomTime c s) with hlt | hge
                · exact hlt
                · exact absurd ⟨by omega, hge⟩ hdone
              have := Nat.le_max_right (tickTime c 0 s) (nomTime c s)
              omega
          intro j hj
          by_cases hjm : j ≤ m
          · exact hall j hjm
          · have : j = m + 1 := by omega
            subst this
            rw [e]
            have r5' : roundT c (round c (rounds c m s)) ≤ tickTime c m s + 2000000000 := r5
            omega
      · exact Or.inr ⟨n, by omega, h1, h2, h3⟩
  have hpos := minInterval_pos (s.agent c).cfg
  have finish : ∀ n, 1 ≤ n → n ≤ roundBound c s → nomTime c s ≤ tickTime c n s → (∀ j, j ≤ n → tickTime c j s ≤ H) →
      ∃ n, 1 ≤ n ∧ n ≤ roundBound c s ∧
        ∀ x, Sel (rounds c (n + 1) s) x ∧ ((rounds c (n + 1) s).agent x).connState = .connected := by
    intro n h1 h2 h3 h4
    refine ⟨n, h1, h2, converge h n h4 ?_ h3⟩
    rcases hstart with g | g
    · exact Or.inl g
    · exact Or.inr (Or.inr ⟨g, h1⟩)
  rcases key (roundBound c s) with hall | ⟨n, hn, h1, h2, h3⟩
  · -- all ticks up to the bound are within the horizon: the last one is late enough
    obtain ⟨_, _, _, _, _, b1, _⟩ := h.after_rounds (roundBound c s) (fun k hk => hall k (by omega))
    refine finish (roundBound c s) (by unfold roundBound; exact Nat.succ_le_succ (Nat.zero_le _)) (Nat.le_refl _) ?_ hall
    have hdiv : nomTime c s - tickTime c 0 s < Config.minInterval (s.agent c).cfg * roundBound c s := by
      unfold roundBound
      exact Nat.lt_mul_div_succ _ hpos
    omega
  · exact finish n h1 hn h2 h3

end

end IceProofs.C01Live
