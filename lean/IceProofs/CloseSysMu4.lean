import IceProofs.CloseSysMu3
/-! # CloseSys — the measure decreases on every statement of the loop thread; `mu_step` -/
namespace IceProofs.CloseSys
open IceModel.CloseSys

@[simp] theorem enqCost_setLoop (s : State) (l : LoopLoc) (i e : Nat) : enqCost { s with loop := l } i e = enqCost s i e := rfl

theorem mu_cancelCur (s : State) : mu (cancelCur s) = mu s := by
  have hh : HdlSame s (cancelCur s) := .of_eq (cancelCur_streams s)
  unfold mu
  rw [loopPot_congr hh (cancelCur_loop s), hh.1, cancelCur_cands, cancelCur_streams]
  have ho : oncePot (cancelCur s) = oncePot s := by simp [oncePot]
  rw [ho]
  have : sumBy (thPot s.streams.length) (cancelCur s).thr = sumBy (thPot s.streams.length) s.thr := by
    unfold cancelCur
    split
    · rfl
    · exact sumBy_modify_same _ _ _ _ (fun th => by simp [thPot])
  rw [this]

theorem mu_enqueue (s : State) (i e : Nat) : mu (enqueue s i e) ≤ mu s + enqCost s i e := by
  unfold enqueue enqCost
  cases hst : s.streams[i]? with
  | none => simp
  | some st =>
    simp only
    split
    · omega
    · rename_i hnd
      have h1 := mu_setStream hst { st with queue := st.queue ++ [e], running := true } rfl
      have h2 : streamPot s.streams.length { st with queue := st.queue ++ [e], running := true } ≤
          streamPot s.streams.length st + (2 + hpot s.streams.length (hdlOf st e)) := by
        simp only [streamPot, hdlOf, sumBy_append, sumBy_cons, sumBy_nil]
        split <;> simp <;> omega
      have h3 : mu { s with streams := s.streams.set i { st with queue := st.queue ++ [e], running := true },
                            lastAcc := if i = 0 then some e else s.lastAcc } =
          mu { s with streams := s.streams.set i { st with queue := st.queue ++ [e], running := true } } := rfl
      rw [h3]
      omega

/-- the effects of one `delStep`, with the facts that make the measure drop. -/
theorem delStep_mu {s s1 : State} {fin : Bool} (h : delStep s = some (s1, fin)) :
    (fin = true ∧ s1 = s) ∨ (fin = false ∧ mu s1 < mu s ∧ s1.loop = s.loop ∧ HdlSame s s1) := by
  unfold delStep at h
  split at h
  · simp at h; exact Or.inl ⟨h.2, h.1.symm⟩
  · rename_i c cd hf
    obtain ⟨_, h2, hlisted⟩ := firstListed_some hf
    simp at h2
    split at h
    · rename_i hab
      simp at h
      obtain ⟨rfl, rfl⟩ := h
      refine Or.inr ⟨rfl, ?_, rfl, .of_eq rfl⟩
      have h1 := sumBy_modify candPot s.cands c (fun cd => { cd with aborted := true }) cd h2
      have h3 : candPot { cd with aborted := true } + 1 = candPot cd := by
        simp at hab; simp [candPot, rlPot, hab]; omega
      have e := mu_expand s (abortCand s c) rfl rfl rfl
      rw [e]; unfold mu; simp only [abortCand] at *; omega
    · split at h
      · simp at h
        obtain ⟨rfl, rfl⟩ := h
        refine Or.inr ⟨rfl, ?_, rfl, .of_eq rfl⟩
        have h1 := mu_setCand h2 { cd with listed := false }
        have h3 : candPot { cd with listed := false } + 1 = candPot cd := by
          simp [candPot, rlPot, hlisted]; omega
        omega
      · simp at h


/-- measure of a state that differs from `k` in candidates, thread table, `gcur` (the latter is ignored). -/
theorem mu_candsThr (k : State) (cands' : List Cand) (thr' : List Th) (g : Option Nat) :
    mu { k with cands := cands', thr := thr', gcur := g } + sumBy candPot k.cands + sumBy (thPot k.streams.length) k.thr =
      mu k + sumBy candPot cands' + sumBy (thPot k.streams.length) thr' := by
  have h1 : loopPot { k with cands := cands', thr := thr', gcur := g } = loopPot k := rfl
  have h2 : oncePot { k with cands := cands', thr := thr', gcur := g } = oncePot k := rfl
  unfold mu
  simp only [h1, h2]
  omega

theorem sumPotT_cons (s : State) (op : TOp) (ops : List TOp) : sumBy (potT s) (op :: ops) = potT s op + sumBy (potT s) ops := by
  simp

theorem mu_loopStep {s s' : State} (hs : loopStep s = some s') : mu s' < mu s := by
  unfold loopStep at hs
  split at hs
  · rename_i hl
    split at hs
    · obtain rfl := Option.some.inj hs
      have := mu_setLoop s .ocCancel
      simp [loopPot, hl] at this; omega
    · simp at hs
  · rename_i o hl
    obtain rfl := Option.some.inj hs
    have := mu_setLoop s .idle
    simp [loopPot, hl] at this; omega
  · rename_i o op ops hl
    simp only at hs
    have hk := mu_setLoop s (.task o ops)
    have hkl : loopPot { s with loop := .task o ops } + potT s op = loopPot s := by
      simp [loopPot, hl, potT_setLoop]; omega
    split at hs
    · split at hs
      · obtain rfl := Option.some.inj hs
        simp [potT] at hkl; omega
      · simp at hs
    · rename_i b n f
      obtain rfl := Option.some.inj hs
      have e := mu_candsThr { s with loop := .task o ops }
        (s.cands ++ [{ blocking := b, inb := n, closeFails := f }]) s.thr s.gcur
      simp [potT] at hkl
      have : candPot { blocking := b, inb := n, closeFails := f } = 4 + 2 * n := by simp [candPot, rlPot] <;> omega
      simp only [sumBy_append, sumBy_cons, sumBy_nil] at e
      omega
    · obtain rfl := Option.some.inj hs
      have h2 := mu_setLoop s (.tclose o ops)
      have : loopPot { s with loop := .tclose o ops } + 1 = loopPot s := by
        simp [loopPot, hl, potT_setLoop, potT]; omega
      omega
    · rename_i i e
      obtain rfl := Option.some.inj hs
      have h2 := mu_enqueue { s with loop := .task o ops } i e
      simp [potT] at hkl
      simp at h2
      omega
    · rename_i t
      simp [potT] at hkl
      split at hs
      · rename_i th hth
        split at hs
        · obtain rfl := Option.some.inj hs
          generalize hk1 : ({ s with loop := .task o ops } : State) = k at hk hkl ⊢
          have hc := mu_cancelCur k
          have hthk : k.thr[t]? = some th := by rw [← hk1]; exact hth
          obtain ⟨th1, h1⟩ : ∃ th1, (cancelCur k).thr[t]? = some th1 := by
            have : (cancelCur k).thr.length = k.thr.length := by simp only [cancelCur]; split <;> simp
            exact getElem?_of_length_eq this hthk
          obtain ⟨th0, h0, e1, e2, _, _⟩ := cancelCur_thr k t th1 h1
          rw [hthk] at h0; cases h0
          have e := mu_candsThr (cancelCur k) (cancelCur k).cands
            ((cancelCur k).thr.set t { th with live := true }) (some t)
          have h3 := sumBy_set (thPot (cancelCur k).streams.length) (cancelCur k).thr t th1 { th with live := true } h1
          have h4 : thPot (cancelCur k).streams.length th1 = thPot (cancelCur k).streams.length { th with live := true } := by
            simp [thPot, e1, e2]
          have e' : mu { cancelCur k with gcur := some t, thr := (cancelCur k).thr.set t { th with live := true } } = mu k := by
            have e2 : mu { cancelCur k with cands := (cancelCur k).cands, thr := (cancelCur k).thr.set t { th with live := true }, gcur := some t } +
                sumBy candPot (cancelCur k).cands + sumBy (thPot (cancelCur k).streams.length) (cancelCur k).thr =
                mu (cancelCur k) + sumBy candPot (cancelCur k).cands +
                  sumBy (thPot (cancelCur k).streams.length) ((cancelCur k).thr.set t { th with live := true }) := e
            have : mu { cancelCur k with cands := (cancelCur k).cands, thr := (cancelCur k).thr.set t { th with live := true }, gcur := some t } =
                mu { cancelCur k with gcur := some t, thr := (cancelCur k).thr.set t { th with live := true } } := rfl
            omega
          show mu { cancelCur k with gcur := some t, thr := (cancelCur k).thr.set t { th with live := true } } < mu s
          rw [e']; omega
        · obtain rfl := Option.some.inj hs; omega
      · obtain rfl := Option.some.inj hs; omega
    · obtain rfl := Option.some.inj hs
      have := mu_cancelCur { s with loop := .task o ops }
      simp [potT] at hkl; omega
    · rename_i t
      obtain rfl := Option.some.inj hs
      simp [potT] at hkl
      have e := mu_candsThr { s with loop := .task o ops } s.cands
        (s.thr.modify t (fun th => { th with live := true })) s.gcur
      have h3 : sumBy (thPot s.streams.length) (s.thr.modify t (fun th => { th with live := true })) =
          sumBy (thPot s.streams.length) s.thr := sumBy_modify_same _ _ _ _ (fun th => by simp [thPot])
      simp only [h3] at e
      omega
    · obtain rfl := Option.some.inj hs
      simp [potT] at hkl
      have : mu { s with loop := .task o ops, startedCh := true } = mu { s with loop := .task o ops } := rfl
      omega
  · rename_i o ops hl
    split at hs
    · simp at hs
    · rename_i s1 fin hd
      obtain rfl := Option.some.inj hs
      rcases delStep_mu hd with ⟨hf, he⟩ | ⟨rfl, h1, h2, h3⟩
      · subst hf; rw [he]
        have := mu_setLoop s (.task o ops)
        simp [loopPot, hl, potT_setLoop] at this; simp; omega
      · have h4 := mu_setLoop s1 (.tclose o ops)
        have : loopPot { s1 with loop := .tclose o ops } = loopPot s1 := by
          have := loopPot_congr (s := s1) (s' := { s1 with loop := .tclose o ops }) (.of_eq rfl) (by simp [h2, hl])
          exact this
        simp; omega
  · rename_i hl
    obtain rfl := Option.some.inj hs
    have h1 := mu_cancelCur s
    have h2 := mu_setLoop (cancelCur s) .ocWaitGather
    have h3 : loopPot (cancelCur s) = loopPot s := loopPot_congr (.of_eq (cancelCur_streams s)) (cancelCur_loop s)
    have h4 : loopPot { cancelCur s with loop := .ocWaitGather } = 6 + enqCost (cancelCur s) 0 0 := rfl
    have h5 : enqCost (cancelCur s) 0 0 = enqCost s 0 0 := enqCost_congr (.of_eq (cancelCur_streams s)) 0 0
    have h6 : loopPot s = 7 + enqCost s 0 0 := by simp [loopPot, hl]
    have h2' : mu { cancelCur s with loop := .ocWaitGather } + loopPot (cancelCur s) =
        mu (cancelCur s) + loopPot { cancelCur s with loop := .ocWaitGather } := h2
    have e' : mu { cancelCur s with loop := .ocWaitGather } + 1 = mu s := by omega
    exact Nat.lt_of_lt_of_le (Nat.lt_succ_self _) (Nat.le_of_eq e')
  · rename_i hl
    split at hs
    · obtain rfl := Option.some.inj hs
      have := mu_setLoop s .ocDel
      simp [loopPot, hl] at this; omega
    · simp at hs
  · rename_i hl
    split at hs
    · simp at hs
    · rename_i s1 fin hd
      obtain rfl := Option.some.inj hs
      rcases delStep_mu hd with ⟨hf, he⟩ | ⟨rfl, h1, h2, h3⟩
      · subst hf; rw [he]
        have := mu_setLoop s .ocStarted
        simp [loopPot, hl] at this; simp; omega
      · have h4 := mu_setLoop s1 .ocDel
        have : loopPot { s1 with loop := .ocDel } = loopPot s1 := by
          have := loopPot_congr (s := s1) (s' := { s1 with loop := .ocDel }) (.of_eq rfl) (by simp [h2, hl])
          exact this
        simp; omega
  · rename_i hl
    obtain rfl := Option.some.inj hs
    have := mu_setLoop s .ocBuf
    have e : mu { s with startedCh := true, loop := .ocBuf } = mu { s with loop := .ocBuf } := rfl
    simp [loopPot, hl] at this; omega
  · rename_i hl
    obtain rfl := Option.some.inj hs
    have := mu_setLoop s .ocNotify
    have e : mu { s with bufClosed := true, loop := .ocNotify } = mu { s with loop := .ocNotify } := rfl
    simp [loopPot, hl] at this; omega
  · rename_i hl
    obtain rfl := Option.some.inj hs
    have h1 := mu_enqueue s 0 0
    have h2 := mu_setLoop (enqueue s 0 0) .ocDone
    have h3 : loopPot (enqueue s 0 0) = loopPot s :=
      loopPot_congr ⟨enqueue_streams_length s 0 0, fun j => by
        cases hx : (enqueue s 0 0).streams[j]? with
        | none =>
          have : j ≥ s.streams.length := by
            have := enqueue_streams_length s 0 0
            rcases Nat.lt_or_ge j s.streams.length with h | h
            · have h' : j < (enqueue s 0 0).streams.length := by omega
              simp [List.getElem?_eq_getElem h'] at hx
            · exact h
          simp [List.getElem?_eq_none this]
        | some st' =>
          obtain ⟨st, h1, _, _, h4, _⟩ := enqueue_stream s 0 0 j st' hx
          simp [h1, h4]⟩ (enqueue_loop s 0 0)
    have h4 : loopPot { enqueue s 0 0 with loop := .ocDone } = 1 := by simp [loopPot]
    have h5 : loopPot s = 2 + enqCost s 0 0 := by simp [loopPot, hl]
    have h2' : mu { enqueue s 0 0 with loop := .ocDone } + loopPot (enqueue s 0 0) =
        mu (enqueue s 0 0) + loopPot { enqueue s 0 0 with loop := .ocDone } := h2
    have e' : mu { enqueue s 0 0 with loop := .ocDone } + 1 ≤ mu s := by omega
    exact e'
  · rename_i hl
    obtain rfl := Option.some.inj hs
    have := mu_setLoop s .exited
    simp [loopPot, hl] at this; omega
  · simp at hs

/-- **Termination measure.** Once `done` is closed, EVERY transition — of the loop, of any thread, of any
receive loop, and of the environment — strictly decreases `mu`. -/
theorem mu_step {s s' : State} {a : Action} (h : Inv s) (hd : s.done = true) (hs : step s a = some s') :
    mu s' < mu s := by
  unfold step at hs
  split at hs
  · exact mu_loopStep hs
  · exact mu_thStep h hd hs
  · exact mu_rlStep hd hs
  · exact mu_envStep hs

end IceProofs.CloseSys
