import IceProofs.AgentC06Chain
/-!
# C06 — pair ids keep addressing the same transport-address pair; supersession keeps pair data; wipes
-/
namespace IceProofs.AgentC06
open IceModel.AgentCore

/-! ## id stability -/

/-- remote `u0` of the old state and remote `u` of the new state have the same network type and address -/
def addrOK (rc0 rc : List Cand) (u0 u : Nat) : Prop :=
  ∀ r ∈ rc0, r.uid = u0 → ∃ r' ∈ rc, r'.uid = u ∧ r'.net = r.net ∧ r'.addr = r.addr

structure StableTo (a0 b : Agent) : Prop where
  np : a0.nextPairID ≤ b.nextPairID
  cl : b.closed = false → a0.closed = false
  st : b.closed = false → ∀ k ∈ keysOf a0, ∀ k' ∈ keysOf b, k'.1 = k.1 →
    k'.2.1 = k.2.1 ∧ (∀ l ∈ lcsOf a0, l.uid = k.2.1 → l ∈ lcsOf b) ∧ addrOK (rcsOf a0) (rcsOf b) k.2.2 k'.2.2

theorem key_unique {ks : List Key} (hn : (ks.map (·.1)).Nodup) {k k' : Key} (hk : k ∈ ks) (hk' : k' ∈ ks)
    (h : k'.1 = k.1) : k' = k := by
  induction ks with
  | nil => cases hk
  | cons x xs ih =>
    simp only [List.map_cons, List.nodup_cons, List.mem_map, not_exists, not_and] at hn
    rcases List.mem_cons.1 hk with hk1 | hk1 <;> rcases List.mem_cons.1 hk' with hk2 | hk2
    · rw [hk1, hk2]
    · rw [hk1] at h; exact absurd h (hn.1 k' hk2)
    · rw [hk2] at h; exact absurd h.symm (hn.1 k hk1)
    · exact ih hn.2 hk1 hk2

theorem StableTo.refl {a : Agent} (h : Inv a) : StableTo a a := by
  refine ⟨Nat.le_refl _, fun h => h, fun _ k hk k' hk' hid => ?_⟩
  have := key_unique h.s.idsNodup hk hk' hid
  subst this
  exact ⟨rfl, fun l hl _ => hl, fun r hr hu => ⟨r, hr, hu, rfl, rfl⟩⟩

theorem arcA3_lcs (a : Agent) (c : Cand) (h : Inv a) : lcsOf (arcA3 a c) = lcsOf a := by
  obtain ⟨_, _, h3⟩ := arcA2_spec a c h
  show (arcA2 a c).1.locals.map core = _
  rw [h3.locals]; rfl

theorem stable_trans {e : Ev} {w : Bool} {a0 b c : Agent} (h0 : Inv a0) (hb : Inv b) (s : StableTo a0 b)
    (t : Trans e w b c) : StableTo a0 c := by
  cases t with
  | evo h =>
    refine ⟨h.nextPairID ▸ s.np, fun hc => s.cl (h.closed ▸ hc), ?_⟩
    rw [h.keys, h.lcs, h.rcs, h.closed]; exact s.st
  | addP h =>
    cases h with
    | none => exact s
    | add l r hl hr hn hfresh =>
      refine ⟨Nat.le_succ_of_le s.np, s.cl, fun hc k hk k' hk' hid => ?_⟩
      rw [keysOf_addPair] at hk'
      rcases List.mem_append.1 hk' with hk' | hk'
      · exact s.st hc k hk k' hk' hid
      · simp at hk'; subst hk'
        have := h0.s.idsLe k hk
        have := s.np
        simp at hid; omega
  | wf _ h =>
    obtain ⟨h1, _⟩ := h.wiped
    refine ⟨h.nextPairID ▸ s.np, fun hc => s.cl (h.closed ▸ hc), fun _ k _ k' hk' _ => ?_⟩
    simp [keysOf, h1] at hk'
  | connState st hs hn => exact ⟨s.np, s.cl, s.st⟩
  | «local» cand hc hf =>
    refine ⟨s.np, s.cl, fun hcl k hk k' hk' hid => ?_⟩
    obtain ⟨h1, h2, h3⟩ := s.st hc k hk k' hk' hid
    refine ⟨h1, fun l hl hu => ?_, h3⟩
    have : lcsOf (alA1 b cand) = lcsOf b ++ [core (alC b cand)] := by simp [lcsOf, alA1]
    rw [this]; exact List.mem_append_left _ (h2 l hl hu)
  | remote cand hc hbk hf hsrc =>
    obtain ⟨_, _, h5⟩ := arcA2_spec b cand hb
    have hcl : (arcA3 b cand).closed = b.closed := h5.closed
    have hnp : (arcA3 b cand).nextPairID = b.nextPairID := h5.nextPairID
    refine ⟨hnp ▸ s.np, fun h => s.cl (hcl ▸ h), fun hcc k hk k' hk' hid => ?_⟩
    rw [arcA3_keys b cand hb] at hk'
    obtain ⟨k1, hk1, rfl⟩ := List.mem_map.1 hk'
    obtain ⟨h1, h2, h3⟩ := s.st hc k hk k1 hk1 (by simpa using hid)
    rw [arcA3_lcs b cand hb]
    refine ⟨by simpa using h1, h2, fun r hr hu => ?_⟩
    obtain ⟨r1, hr1, hu1, hn1, ha1⟩ := h3 r hr hu
    obtain ⟨_, _, hcm⟩ := arcA4_spec hb cand hc hbk hf
    unfold rk
    split
    · rename_i hS
      obtain ⟨e1, he1, heu⟩ := List.mem_map.1 (List.contains_iff_mem.1 hS)
      obtain ⟨m1, n1, _, ad1, _⟩ := arcReplaced_mem he1
      have : r1 = core e1 := uid_inj hb.s.rcNodup hr1 (mem_rcsOf m1) (by simp [hu1, heu])
      subst this
      refine ⟨core (arcC b cand), hcm, by simp [arcC_uid], ?_, ?_⟩
      · simp [arcC_net]; rw [← hn1]; simp [n1]
      · simp [arcC_addr]; rw [← ha1]; simp [ad1]
    · rename_i hS
      refine ⟨r1, ?_, hu1, hn1, ha1⟩
      rw [arcA3_rcs b cand hb, List.mem_filter]
      refine ⟨List.mem_append_left _ hr1, ?_⟩
      rw [hu1]; simpa using hS
  | cache x hl hr hc => exact ⟨s.np, s.cl, s.st⟩
  | restart now u p _ _ =>
    refine ⟨s.np, s.cl, fun _ k _ k' hk' _ => ?_⟩
    simp [keysOf, restartCore, Agent.wipe, Agent.resetSelector] at hk'
  | close _ _ =>
    refine ⟨s.np, fun h => ?_, fun h => ?_⟩ <;> simp [closeCore] at h

theorem stable_step {a : Agent} (h : Inv a) (e : Ev) : StableTo a (step a e).1 :=
  Chain.preserves (fun x => StableTo a x) (fun _ _ hb hs t => stable_trans h hb hs t) h (StableTo.refl h)
    (step_chain h e)

/-- a current candidate (core) is found by its uid -/
theorem localOf_of_mem {a : Agent} (hs : InvS a) {x : Cand} (hx : x ∈ lcsOf a) :
    ∃ l, a.localOf x.uid = some l ∧ core l = x := by
  obtain ⟨y, hy, rfl⟩ := List.mem_map.1 hx
  obtain ⟨l, h1, h2⟩ := findCand_of_core_mem (l := a.locals) hs.lcNodup (c := y) (List.mem_map_of_mem hy)
  exact ⟨l, h1, h2⟩

theorem remoteOf_of_mem {a : Agent} (hs : InvS a) {x : Cand} (hx : x ∈ rcsOf a) :
    ∃ r, a.remoteOf x.uid = some r ∧ core r = x := by
  obtain ⟨y, hy, rfl⟩ := List.mem_map.1 hx
  obtain ⟨r, h1, h2⟩ := findCand_of_core_mem (l := a.remotes) hs.rcNodup (c := y) (List.mem_map_of_mem hy)
  exact ⟨r, h1, h2⟩

/-- **id stability**, for any two states related by `StableTo` -/
theorem StableTo.pairs {a a' : Agent} (h : Inv a) (h' : Inv a') (s : StableTo a a') {p p' : Pair}
    (hp : p ∈ a.checklist) (hp' : p' ∈ a'.checklist) (hid : p'.id = p.id) (hc : a'.closed = false) :
    p'.l = p.l ∧ ∃ l r l' r', a.localOf p.l = some l ∧ a.remoteOf p.r = some r ∧
      a'.localOf p'.l = some l' ∧ a'.remoteOf p'.r = some r' ∧
      core l' = core l ∧ r'.net = r.net ∧ r'.addr = r.addr := by
  have hk : key p ∈ keysOf a := List.mem_map_of_mem hp
  have hk' : key p' ∈ keysOf a' := List.mem_map_of_mem hp'
  obtain ⟨h1, h2, h3⟩ := s.st hc (key p) hk (key p') hk' hid
  obtain ⟨l0, hl0, r0, hr0, hu1, hu2, _⟩ := h.s.ends (s.cl hc) (key p) hk
  simp only [key_snd_fst, key_snd_snd] at h1 hu1 hu2
  obtain ⟨l, hl, hlc⟩ := localOf_of_mem h.s hl0
  obtain ⟨r, hr, hrc⟩ := remoteOf_of_mem h.s hr0
  obtain ⟨l', hl', hlc'⟩ := localOf_of_mem h'.s (h2 l0 hl0 hu1)
  obtain ⟨r1, hr1, hu1', hn1, ha1⟩ := h3 r0 hr0 hu2
  obtain ⟨r', hr', hrc'⟩ := remoteOf_of_mem h'.s hr1
  refine ⟨h1, l, r, l', r', hu1 ▸ hl, hu2 ▸ hr, ?_, ?_, hlc'.trans hlc.symm, ?_, ?_⟩
  · rw [h1, ← hu1]; exact hl'
  · simp only [key_snd_snd] at hu1'; rw [← hu1']; exact hr'
  · have e1 := congrArg Cand.net hrc'; have e2 := congrArg Cand.net hrc
    simp at e1 e2; rw [e1, e2, hn1]
  · have e1 := congrArg Cand.addr hrc'; have e2 := congrArg Cand.addr hrc
    simp at e1 e2; rw [e1, e2, ha1]

/-! ## supersession keeps the pair data -/

structure Grew (a b : Agent) : Prop where
  locals : b.locals = a.locals
  remotes : b.remotes = a.remotes
  ext : ∃ extra, b.checklist = a.checklist ++ extra

theorem AddP.grew {a b : Agent} (p : AddP a b) : Grew a b := by
  cases p with
  | none => exact ⟨rfl, rfl, [], by simp⟩
  | add l r _ _ _ _ => exact ⟨rfl, rfl, _, rfl⟩

theorem AddPs.grew {a b : Agent} (p : AddPs a b) : Grew a b := by
  induction p with
  | refl => exact ⟨rfl, rfl, [], by simp⟩
  | step _ p ih =>
    obtain ⟨x, hx⟩ := ih.ext
    obtain ⟨y, hy⟩ := p.grew.ext
    exact ⟨p.grew.locals.trans ih.locals, p.grew.remotes.trans ih.remotes, x ++ y, by rw [hy, hx, List.append_assoc]⟩

theorem findCand_append_of_some {l : List Cand} {u : Nat} {c : Cand} (h : findCand l u = some c) (l' : List Cand) :
    findCand (l ++ l') u = some c := by
  unfold findCand at *
  rw [List.find?_append, h]; rfl

theorem findCand_filter {l : List Cand} {u : Nat} (q : Cand → Bool) (h : ∀ x ∈ l, x.uid = u → q x = true) :
    findCand (l.filter q) u = findCand l u := by
  unfold findCand
  induction l with
  | nil => rfl
  | cons x xs ih =>
    have ih' := ih (fun y hy => h y (List.mem_cons_of_mem _ hy))
    by_cases hu : x.uid = u
    · have hq := h x List.mem_cons_self hu
      rw [List.filter_cons_of_pos hq, List.find?_cons, List.find?_cons]
      simp [hu]
    · by_cases hq : q x = true
      · rw [List.filter_cons_of_pos hq, List.find?_cons, List.find?_cons]
        have : (x.uid == u) = false := by simpa using hu
        rw [this]; exact ih'
      · rw [List.filter_cons_of_neg hq, List.find?_cons]
        have : (x.uid == u) = false := by simpa using hu
        rw [this]; exact ih'

theorem pairPrio_eq_of {a b : Agent} (p : Pair) (hl : b.localOf p.l = a.localOf p.l)
    (hr : b.remoteOf p.r = a.remoteOf p.r) : b.pairPrio p = a.pairPrio p := by
  unfold Agent.pairPrio
  rw [hl, hr]

/-- **supersession preserves**: after `addRemoteCandidate` every pair that existed is still listed with the same
id and the same data (state, nominated, deferred flags, counters …) — only its remote uid and its frozen priority
field may differ — and with the same priority VALUE; selection and nomination point at the same ids. -/
theorem supersession {a : Agent} (h : Inv a) (c : Cand) (hc : a.closed = false) :
    (a.addRemoteCandidate c).1.selected = a.selected ∧
    (a.addRemoteCandidate c).1.nominatedPair = a.nominatedPair ∧
    ∀ p ∈ a.checklist, ∃ p' ∈ (a.addRemoteCandidate c).1.checklist,
      { p' with r := p.r, prioOverride := p.prioOverride } = p ∧
      (a.addRemoteCandidate c).1.pairPrio p' = a.pairPrio p ∧
      (p'.r = p.r ∨ (p.r ∈ arcS a c ∧ p'.r = a.nextUid)) := by
  have hf := arc_frame h c hc
  refine ⟨hf.selected, hf.nominatedPair, ?_⟩
  cases hb : a.cfg.blockedIPs.contains (ipOf c.addr) with
  | true =>
    rw [arc_blocked a c hb]
    exact fun p hp => ⟨p, hp, rfl, rfl, Or.inl rfl⟩
  | false =>
    cases hfd : (a.remotes.filter (·.net == c.net)).find? (·.equal c) with
    | some x =>
      rw [arc_dup a c x hb hfd]
      exact fun p hp => ⟨p, hp, rfl, rfl, Or.inl rfl⟩
    | none =>
      rw [arc_eq a c hb hfd]
      obtain ⟨h1, _, _⟩ := arcA4_spec h c hc hb hfd
      obtain ⟨h3, _, h5⟩ := arcA2_spec a c h
      obtain ⟨extra, hext⟩ := h1.grew.ext
      intro p hp
      have hk : key p ∈ keysOf a := List.mem_map_of_mem hp
      obtain ⟨l0, hl0, r0, hr0, hu1, hu2, _⟩ := h.s.ends hc (key p) hk
      obtain ⟨r, hr, _⟩ := remoteOf_of_mem h.s hr0
      simp only [key_snd_snd] at hu2
      rw [hu2] at hr
      have hr' : findCand a.remotes p.r = some r := hr
      -- what the final agent looks like
      have hloc : (arcA4 a c).locals = a.locals := by
        rw [h1.grew.locals]; show (arcA2 a c).1.locals = _; rw [h5.locals]; rfl
      have hrem : (arcA4 a c).remotes =
          (a.remotes ++ [arcC a c]).filter (fun e => !((arcReplaced a c).any fun x => x.uid == e.uid)) := by
        rw [h1.grew.remotes]; show (arcA2 a c).1.remotes.filter _ = _; rw [h5.remotes]; rfl
      have hmem : retarget a.selected (arcA1 a c).pairPrio (arcS a c) a.nextUid p ∈ (arcA4 a c).checklist := by
        rw [hext]; apply List.mem_append_left
        show _ ∈ (arcA2 a c).1.checklist
        rw [h3]; exact List.mem_map_of_mem hp
      refine ⟨_, hmem, ?_⟩
      have hprio1 : (arcA1 a c).pairPrio p = a.pairPrio p := by
        refine pairPrio_eq_of (a := a) (b := arcA1 a c) p rfl ?_
        show findCand (a.remotes ++ [arcC a c]) p.r = findCand a.remotes p.r
        rw [hr', findCand_append_of_some hr']
      by_cases hS : (arcS a c).contains p.r = true
      · rw [retarget_of_mem _ _ _ _ _ hS]
        refine ⟨?_, ?_, Or.inr ⟨List.contains_iff_mem.1 hS, rfl⟩⟩
        · have : (p.nominated || (a.selected == some p.id)) = p.nominated := by
            by_cases hsel : a.selected = some p.id
            · rw [h.c.selNom p.id hsel p hp rfl]; rfl
            · have : (a.selected == some p.id) = false := by simpa using hsel
              rw [this]; simp
          simp only [this]
        · show Agent.pairPrio (arcA4 a c).requestCheck _ = _
          unfold Agent.pairPrio
          simp only []
          exact hprio1
      · have hS' : (arcS a c).contains p.r = false := by simpa using hS
        rw [retarget_of_not_mem _ _ _ _ _ hS']
        refine ⟨rfl, ?_, Or.inl rfl⟩
        refine pairPrio_eq_of (a := a) (b := (arcA4 a c).requestCheck) p ?_ ?_
        · show findCand (arcA4 a c).locals p.l = findCand a.locals p.l
          rw [hloc]
        · show findCand (arcA4 a c).remotes p.r = findCand a.remotes p.r
          rw [hrem, findCand_filter, findCand_append_of_some hr', hr']
          intro x _ hxu
          rw [any_uid_eq, hxu]
          show (!(arcS a c).contains p.r) = true
          rw [hS']; rfl

/-! ## wipes -/

theorem restart_wiped (a : Agent) (now : Nat) (u p : String) (hc : a.closed = false) :
    Wiped (step a (.restart now u p)).1 := by
  simp only [IceModel.AgentCore.step, hc]
  simp only [Bool.false_eq_true, if_false]
  unfold Agent.doRestart
  simp only []
  split
  · rw [setConnState_ne_failed _ _ (by simp)]
    split <;> exact ⟨rfl, rfl, rfl, rfl, rfl, rfl⟩
  · exact ⟨rfl, rfl, rfl, rfl, rfl, rfl⟩

theorem nofail_trans {e : Ev} {b c : Agent} (hi : Inv b) (hb : b.connState ≠ .failed) (t : Trans e false b c) :
    c.connState ≠ .failed := by
  cases t with
  | evo h =>
    rcases h.cs with h1 | ⟨h1, _⟩
    · rw [h1]; exact hb
    · exact h1
  | addP h =>
    rcases h.frame.connState with h1 | ⟨h1, _⟩
    · rw [h1]; exact hb
    · rw [h1]; simp
  | wf hw _ => cases hw
  | connState s hs _ => exact hs
  | «local» _ _ _ => exact hb
  | remote cand _ _ _ _ =>
    obtain ⟨_, _, h5⟩ := arcA2_spec b cand hi
    have : (arcA3 b cand).connState = (arcA2 b cand).1.connState := rfl
    rw [this]
    rcases h5.connState with h1 | ⟨h1, _⟩
    · rw [h1]; exact hb
    · rw [h1]; simp
  | cache _ _ _ _ => exact hb
  | restart _ _ _ _ _ => exact hb
  | close _ _ => exact hb

/-- **no residue after Failed**: a step that ends in Failed from a different state leaves everything wiped -/
theorem failed_wiped {a : Agent} (h : Inv a) (e : Ev) (ha : a.connState ≠ .failed)
    (hf : (step a e).1.connState = .failed) : Wiped (step a e).1 := by
  obtain ⟨b, h1, h2⟩ := step_split h e
  have hb : b.connState ≠ .failed :=
    Chain.preserves (fun x => x.connState ≠ .failed) (fun _ _ hi hx t => nofail_trans hi hx t) h ha h1
  cases h2 with
  | evo ev =>
    rcases ev.cs with h3 | ⟨h3, _⟩
    · rw [h3] at hf; exact absurd hf hb
    · exact absurd hf h3
  | wf w => exact w.wiped

end IceProofs.AgentC06
