import IceProofs.Sys2C20Defs
import IceProofs.Sys2C20OutsQ
import IceProofs.AgentC02Step
import IceProofs.AgentAuto
/-!
# C20 on `Sys2` — success responses and transaction ids through every helper of `step`

Part 1 (`OutsR`): which helpers emit a Binding success response, and with which transaction id.
Part 2 (`UP`): every outstanding transaction is old or carries an id handed out by the counter.
Part 3 (`nreq`, `Seq`): the Binding requests a helper emits are numbered consecutively from the counter, and the
counter moves by their number.
-/
namespace IceProofs.C20S
open IceModel.AgentCore IceProofs.Agent IceProofs.Sys2C05

/-! ## Part 1 — success responses -/

/-- a success response among the outputs carries a transaction id satisfying `P` -/
def OutR (P : Nat → Prop) : Out → Prop
  | .dgram _ _ m => m.cls = 2 → P m.tid
  | _ => True

def OutsR (P : Nat → Prop) (o : List Out) : Prop := ∀ x ∈ o, OutR P x

@[simp] theorem OutsR_nil (P : Nat → Prop) : OutsR P [] := by simp [OutsR]
@[simp] theorem OutsR_append (P : Nat → Prop) (o1 o2 : List Out) : OutsR P (o1 ++ o2) ↔ OutsR P o1 ∧ OutsR P o2 := by
  simp only [OutsR, List.mem_append]
  constructor
  · intro h; exact ⟨fun x hx => h x (Or.inl hx), fun x hx => h x (Or.inr hx)⟩
  · rintro ⟨h1, h2⟩ x (hx | hx)
    · exact h1 x hx
    · exact h2 x hx
@[simp] theorem OutsR_cons (P : Nat → Prop) (x : Out) (o : List Out) : OutsR P (x :: o) ↔ OutR P x ∧ OutsR P o := by
  simp [OutsR]
@[simp] theorem OutR_res (P : Nat → Prop) (s : String) : OutR P (.res s) := trivial
@[simp] theorem OutR_cbState (P : Nat → Prop) (s : ConnState) : OutR P (.cbState s) := trivial
@[simp] theorem OutR_cbPair (P : Nat → Prop) (x y : Nat) : OutR P (.cbPair x y) := trivial
@[simp] theorem OutR_cbCand (P : Nat → Prop) (x : Nat) : OutR P (.cbCand x) := trivial
@[simp] theorem OutR_data (P : Nat → Prop) (x y z : Nat) : OutR P (.data x y z) := trivial
@[simp] theorem OutR_dgram (P : Nat → Prop) (f t : Nat) (m : Msg) : OutR P (.dgram f t m) ↔ (m.cls = 2 → P m.tid) := Iff.rfl

theorem OutsR.mem {P : Nat → Prop} {o : List Out} (h : OutsR P o) {f t : Nat} {m : Msg} (hm : Out.dgram f t m ∈ o)
    (hc : m.cls = 2) : P m.tid := h _ hm hc

@[simp] theorem r_setConnState (a : Agent) (s : ConnState) (P : Nat → Prop) : OutsR P (a.setConnState s).2 := by
  unfold Agent.setConnState
  split <;> simp

@[simp] theorem r_select (a : Agent) (id : Nat) (P : Nat → Prop) : OutsR P (a.select id).2 := by
  unfold Agent.select
  simp

@[simp] theorem r_sendRequest (a : Agent) (now : Nat) (l r : Cand) (uc : Bool) (n : Option Nat) (P : Nat → Prop) :
    OutsR P (a.sendRequest now l r uc n).2 := by
  rw [sendRequest_out]
  simp

@[simp] theorem r_ping (a : Agent) (now : Nat) (l r : Cand) (P : Nat → Prop) : OutsR P (a.ping now l r).2 :=
  r_sendRequest a now l r false none P

@[simp] theorem r_sendSuccess (a : Agent) (now : Nat) (m : Msg) (l r : Cand) (P : Nat → Prop) (h : P m.tid) :
    OutsR P (a.sendSuccess now m l r).2 := by
  rw [sendSuccess_out]
  simp [h]

@[simp] theorem r_nominate (a : Agent) (now : Nat) (p : Pair) (P : Nat → Prop) : OutsR P (a.nominate now p).2 := by
  unfold Agent.nominate
  split <;> simp

@[simp] theorem r_keepalive (a : Agent) (now : Nat) (P : Nat → Prop) : OutsR P (a.keepalive now).2 := by
  unfold Agent.keepalive
  ok_cases

@[simp] theorem r_validateSelected (a : Agent) (now : Nat) (P : Nat → Prop) : OutsR P (a.validateSelected now).2.1 := by
  unfold Agent.validateSelected
  split <;> simp

@[simp] theorem r_pingAll (a : Agent) (now : Nat) (P : Nat → Prop) : OutsR P (a.pingAll now).2 := by
  unfold Agent.pingAll
  refine IceProofs.List.foldl_inv (fun acc : Agent × List Out => OutsR P acc.2) _ _ _ (by simp) ?_
  intro acc id h
  obtain ⟨b, o⟩ := acc
  simp only at h ⊢
  ok_cases

@[simp] theorem r_replaceRemoteInPairs (a : Agent) (old c : Cand) (P : Nat → Prop) :
    OutsR P (a.replaceRemoteInPairs old c).2 := by
  unfold Agent.replaceRemoteInPairs
  refine IceProofs.List.foldl_inv (fun acc : Agent × List Out => OutsR P acc.2) _ _ _ (by simp) ?_
  intro acc id h
  obtain ⟨b, o⟩ := acc
  simp only at h ⊢
  ok_cases

@[simp] theorem r_addRemoteCandidate (a : Agent) (c : Cand) (P : Nat → Prop) : OutsR P (a.addRemoteCandidate c).2.1 := by
  unfold Agent.addRemoteCandidate
  split
  · simp
  split
  · simp
  simp only []
  refine IceProofs.List.foldl_inv (fun acc : Agent × List Out => OutsR P acc.2) _ _ _ (by simp) ?_
  intro acc old h
  simp [h]

@[simp] theorem r_addLocalCandidate (a : Agent) (c : Cand) (P : Nat → Prop) : OutsR P (a.addLocalCandidate c).2 := by
  unfold Agent.addLocalCandidate
  split
  · simp
  split <;> simp

@[simp] theorem r_handleSuccess (a : Agent) (now : Nat) (m : Msg) (l r : Cand) (src : Nat) (P : Nat → Prop) :
    OutsR P (a.handleSuccess now m l r src).2 := by
  unfold Agent.handleSuccess
  ok_cases

@[simp] theorem r_cldNominate (a : Agent) (m : Msg) (id : Nat) (P : Nat → Prop) : OutsR P (cldNominate a m id).2 := by
  unfold cldNominate
  ok_cases

theorem r_cldProceed (a : Agent) (now : Nat) (m : Msg) (l r : Cand) (id : Nat) (P : Nat → Prop) (h : P m.tid) :
    OutsR P (cldProceed a now m l r id).2 := by
  unfold cldProceed
  ok_cases

theorem r_cldHandleRequest (a : Agent) (now : Nat) (m : Msg) (l r : Cand) (P : Nat → Prop) (h : P m.tid) :
    OutsR P (a.cldHandleRequest now m l r).2 := by
  rw [cldHandleRequest_nf]
  simp only []
  split
  · simp [h]
  · exact r_cldProceed _ _ _ _ _ _ _ h

theorem r_ctlHandleRequest (a : Agent) (now : Nat) (m : Msg) (l r : Cand) (P : Nat → Prop) (h : P m.tid) :
    OutsR P (a.ctlHandleRequest now m l r).2 := by
  unfold Agent.ctlHandleRequest
  ok_cases

@[simp] theorem r_writeVia (a : Agent) (now : Nat) (p : Pair) (len : Nat) (P : Nat → Prop) : OutsR P (a.writeVia now p len).2 := by
  unfold Agent.writeVia
  ok_cases

@[simp] theorem r_write (a : Agent) (now len : Nat) (s : Bool) (P : Nat → Prop) : OutsR P (a.write now len s).2 := by
  unfold Agent.write
  ok_cases

@[simp] theorem r_writeToPair (a : Agent) (now id len : Nat) (s : Bool) (P : Nat → Prop) :
    OutsR P (a.writeToPair now id len s).2 := by
  unfold Agent.writeToPair
  ok_cases

@[simp] theorem r_inboundData (a : Agent) (now : Nat) (l : Cand) (src len : Nat) (P : Nat → Prop) :
    OutsR P (a.inboundData now l src len).2 := by
  unfold Agent.inboundData
  ok_cases

@[simp] theorem r_doRestart (a : Agent) (now : Nat) (x p : String) (P : Nat → Prop) : OutsR P (a.doRestart now x p).2 := by
  unfold Agent.doRestart
  ok_cases

@[simp] theorem r_autoRenom (a : Agent) (now : Nat) (P : Nat → Prop) : OutsR P (a.autoRenom now).2 := by
  refine IceProofs.Auto.autoRenom_parts (P := fun x => OutsR P x.2) ?_ a (by simp)
  exact {
    mark := fun _ _ _ _ h _ _ => h
    ping := fun b _ l r h _ _ => by simp only [OutsR_append]; exact ⟨h, r_ping b now l r P⟩
    time := fun _ _ h => h
    count := fun _ _ h => h
    issue := fun b _ l r nom h _ _ _ _ _ => by simp only [OutsR_append]; exact ⟨h, r_sendRequest b now l r true nom P⟩
    log := fun _ _ _ h => h }

@[simp] theorem r_contactCandidates (a : Agent) (now : Nat) (P : Nat → Prop) : OutsR P (a.contactCandidates now).2 := by
  unfold Agent.contactCandidates
  ok_cases

@[simp] theorem r_contact (a : Agent) (now : Nat) (P : Nat → Prop) : OutsR P (a.contact now).2 := by
  unfold Agent.contact
  ok_cases

@[simp] theorem r_runForced (a : Agent) (now : Nat) (P : Nat → Prop) : OutsR P (a.runForced now).2 := by
  unfold Agent.runForced
  ok_cases

@[simp] theorem r_runTimers (a : Agent) (now fuel : Nat) (P : Nat → Prop) : OutsR P (a.runTimers now fuel).2 := by
  induction fuel generalizing a with
  | zero => simp [Agent.runTimers]
  | succ n ih =>
    unfold Agent.runTimers
    (try simp only []); (repeat' split) <;> (pair_subst; (try simp at *))
    exact ih _

/-! ### `handleInbound`: a success response answers an authenticated request that reaches a selector -/

theorem r_handleInbound_unauth (a : Agent) (now : Nat) (l : Cand) (src : Nat) (m : Msg) (P : Nat → Prop)
    (h : ¬ AuthRequest a m) : OutsR P (a.handleInbound now l src m).2 := by
  unfold AuthRequest at h
  unfold Agent.handleInbound
  split
  · simp
  simp only []
  split
  · ok_cases
  split
  · split
    · simp
    split
    · simp
    rename_i h1 h2 h3 h4 h5
    exfalso; apply h
    simp at h1 h2 h3 h4 h5
    simp_all
  · ok_cases

theorem r_afterResolve (a1 : Agent) (now : Nat) (l : Cand) (m : Msg) (o0 : List Out) (r : Cand) (P : Nat → Prop)
    (h0 : OutsR P o0) (h : roleConflict a1 m = none → P m.tid) : OutsR P (afterResolve a1 now l m o0 r).2 := by
  have hc := fun (hp : P m.tid) => r_ctlHandleRequest a1 now m l r P hp
  have hd := fun (hp : P m.tid) => r_cldHandleRequest a1 now m l r P hp
  unfold roleConflict at h
  unfold afterResolve
  ok_cases

/-- a success response in the outputs of `handleInbound` answers the message handled: an authenticated Binding
request whose source resolves and which is not a role conflict -/
theorem handleInbound_resp (a : Agent) (now : Nat) (l : Cand) (src : Nat) (m' : Msg) (f t : Nat) (m : Msg)
    (hm : Out.dgram f t m ∈ (a.handleInbound now l src m').2) (hc : m.cls = 2) :
    AuthRequest a m' ∧ (resolveSource a l src m').2.2.isSome = true ∧ roleConflict a m' = none ∧ m.tid = m'.tid := by
  suffices hs : OutsR (fun x => AuthRequest a m' ∧ (resolveSource a l src m').2.2.isSome = true ∧
      roleConflict a m' = none ∧ x = m'.tid) (a.handleInbound now l src m').2 from hs.mem hm hc
  by_cases h : AuthRequest a m'
  · rw [handleInbound_request a now l src m' h]
    have hcr := core_resolveSource a l src m'
    have ho := (resolveSource_discovered a l src m').2
    rcases hres : resolveSource a l src m' with ⟨a1, o0, rc⟩
    rw [hres] at hcr ho
    simp only at hcr ho
    subst ho
    cases rc with
    | none => simp
    | some r =>
      simp only []
      apply r_afterResolve _ _ _ _ _ _ _ (by simp)
      intro hn
      exact ⟨h, rfl, (roleConflict_congr hcr m').symm.trans hn, rfl⟩
  · exact r_handleInbound_unauth a now l src m' _ h

/-- every event but `.inbound`: no success response at all -/
theorem step_noresp (a : Agent) (e : Ev) (hne : ∀ now la src m, e ≠ .inbound now la src m) (P : Nat → Prop) :
    OutsR P (step a e).2 := by
  cases e with
  | addLocal now c => simp [step]
  | addRemote now c => simp only [step]; ok_cases
  | start now ctl ru rp => simp only [step]; ok_cases
  | setRemoteCreds ru rp => simp only [step]; ok_cases
  | advance now => simp [step]
  | inbound now la src m => exact absurd rfl (hne now la src m)
  | inboundData now la src len s => simp only [step]; ok_cases
  | write now len s => simp [step]
  | writeToPair now id len s => simp [step]
  | read => simp only [step]; ok_cases
  | renominate now la ri v => simp only [step]; ok_cases
  | restart now u p => simp only [step]; ok_cases
  | close => simp only [step]; ok_cases

/-! ## `sendRequest`, exactly; the step of a `RenominateCandidate` that is not refused -/

theorem sendRequest_nextTid (a : Agent) (now : Nat) (l r : Cand) (u : Bool) (n : Option Nat) :
    (a.sendRequest now l r u n).1.nextTid = a.nextTid + 1 := by
  unfold Agent.sendRequest
  simp only []
  split <;> rfl

theorem sendRequest_pending (a : Agent) (now : Nat) (l r : Cand) (u : Bool) (n : Option Nat) :
    (a.sendRequest now l r u n).1.pending = (a.invalidatePending now).pending ++
      [{ tid := 2 * a.nextTid + a.tag, src := l.addr, dest := r.addr, net := r.net, useCand := u, nom := n, ts := now }] := by
  unfold Agent.sendRequest
  simp only []
  split <;> rfl

theorem mem_invalidatePending {a : Agent} {now : Nat} {pd : Pending} (h : pd ∈ (a.invalidatePending now).pending) :
    pd ∈ a.pending := by
  unfold Agent.invalidatePending at h
  exact (List.mem_filter.mp h).1

theorem issueOf_inv {a : Agent} {e : Ev} {v la ra : Nat} (h : issueOf a e = some (v, la, ra)) :
    ∃ now ri l r, e = .renominate now la ri v ∧ a.controlling = true ∧ a.cfg.enableRenomination = true ∧
      a.localByAddr la = some l ∧ a.remotes[ri]? = some r ∧ (a.findPair l r).isSome = true ∧ ra = r.addr := by
  cases e with
  | renominate now la' ri v' =>
    simp only [issueOf] at h
    split at h
    · rename_i hce
      split at h
      · rename_i l r hl hr
        split at h
        · rename_i hp
          simp only [Option.some.injEq, Prod.mk.injEq] at h
          obtain ⟨rfl, rfl, rfl⟩ := h
          simp only [Bool.and_eq_true] at hce
          exact ⟨now, ri, l, r, rfl, hce.1, hce.2, hl, hr, hp, rfl⟩
        · cases h
      · cases h
    · cases h
  | _ => simp [issueOf] at h

theorem step_renominate_ok (a : Agent) (now la ri v : Nat) (l r : Cand) (hc : a.controlling = true)
    (hen : a.cfg.enableRenomination = true) (hl : a.localByAddr la = some l) (hr : a.remotes[ri]? = some r)
    (hp : (a.findPair l r).isSome = true) :
    step a (.renominate now la ri v) =
      ({ (a.sendRequest now l r true (if v > 0 then some v else none)).1 with
          nomIssued := (a.sendRequest now l r true (if v > 0 then some v else none)).1.nomIssued ++ [(v, l.addr, r.addr)] },
       (a.sendRequest now l r true (if v > 0 then some v else none)).2 ++ [.res "ok"]) := by
  obtain ⟨p, hp⟩ := Option.isSome_iff_exists.mp hp
  simp only [step, hc, hen, hl, hr, hp]
  rfl

/-! ## Part 2 — outstanding transactions: old, or an id handed out by the counter -/

/-- tag `t` is `g`; every transaction in `p` satisfies `P` or carries an id `2 * k + g` with `k` below the counter `n` -/
def UK (g : Nat) (P : Pending → Prop) (t n : Nat) (p : List Pending) : Prop :=
  t = g ∧ ∀ pd ∈ p, P pd ∨ ∃ k, pd.tid = 2 * k + g ∧ k < n

def UP (g : Nat) (P : Pending → Prop) (a : Agent) : Prop := UK g P a.tag a.nextTid a.pending

theorem UK.mono {g : Nat} {P : Pending → Prop} {t n n' : Nat} {p p' : List Pending} (h : UK g P t n p) (hn : n ≤ n')
    (hp : ∀ pd ∈ p', pd ∈ p) : UK g P t n' p' := by
  refine ⟨h.1, fun pd hpd => ?_⟩
  rcases h.2 pd (hp pd hpd) with h1 | ⟨k, h1, h2⟩
  · exact Or.inl h1
  · exact Or.inr ⟨k, h1, Nat.lt_of_lt_of_le h2 hn⟩

@[simp] theorem UP_mk (g : Nat) (P : Pending → Prop) (cfg tieBreaker controlling started closed connState localUfrag localPwd
    remoteUfrag remotePwd locals remotes checklist nextPairID nextUid nextTid tag pending selected selStart nominatedPair
    lastNomination lastSeen checkingStart checkingTimeout forcePending nextTick caches rx connBytesSent connBytesRecv
    onConnectedFired generation nomIssued lastRenomTime nomCounter) :
    UP g P (Agent.mk cfg tieBreaker controlling started closed connState localUfrag localPwd remoteUfrag remotePwd
    locals remotes checklist nextPairID nextUid nextTid tag pending selected selStart nominatedPair lastNomination answeredNomination
    lastSeen checkingStart checkingTimeout forcePending nextTick caches rx connBytesSent connBytesRecv
    onConnectedFired generation nomIssued lastRenomTime nomCounter) ↔ UK g P tag nextTid pending := Iff.rfl

@[simp] theorem UP_eta (g : Nat) (P : Pending → Prop) (a : Agent) : UK g P a.tag a.nextTid a.pending ↔ UP g P a := Iff.rfl

@[simp] theorem UK_nil (g : Nat) (P : Pending → Prop) (t n : Nat) : UK g P t n [] ↔ t = g := by simp [UK]

theorem UP.tag {g : Nat} {P : Pending → Prop} {a : Agent} (h : UP g P a) : a.tag = g := h.1

@[simp] theorem u_modPair (g : Nat) (P : Pending → Prop) (a : Agent) (id : Nat) (f : Pair → Pair) :
    UP g P (a.modPair id f) ↔ UP g P a := Iff.rfl
@[simp] theorem u_seenLocalSent (g : Nat) (P : Pending → Prop) (a : Agent) (x n : Nat) :
    UP g P (a.seenLocalSent x n) ↔ UP g P a := Iff.rfl
@[simp] theorem u_seenRemoteRecv (g : Nat) (P : Pending → Prop) (a : Agent) (x n : Nat) :
    UP g P (a.seenRemoteRecv x n) ↔ UP g P a := Iff.rfl
@[simp] theorem u_requestCheck (g : Nat) (P : Pending → Prop) (a : Agent) : UP g P a.requestCheck ↔ UP g P a := Iff.rfl
@[simp] theorem u_addPair (g : Nat) (P : Pending → Prop) (a : Agent) (l r : Cand) :
    UP g P (a.addPair l r).1 ↔ UP g P a := Iff.rfl
@[simp] theorem u_resetSelector (g : Nat) (P : Pending → Prop) (a : Agent) (n : Nat) :
    UP g P (a.resetSelector n) ↔ UP g P a := Iff.rfl

@[simp] theorem u_wipe (g : Nat) (P : Pending → Prop) (a : Agent) (h : UP g P a) : UP g P a.wipe :=
  UK.mono h (Nat.le_refl _) (fun _ hp => by cases hp)

@[simp] theorem u_invalidatePending (g : Nat) (P : Pending → Prop) (a : Agent) (now : Nat) (h : UP g P a) :
    UP g P (a.invalidatePending now) :=
  UK.mono h (Nat.le_refl _) (fun _ hp => mem_invalidatePending hp)

@[simp] theorem u_setConnState (g : Nat) (P : Pending → Prop) (a : Agent) (s : ConnState) (h : UP g P a) :
    UP g P (a.setConnState s).1 := by
  unfold Agent.setConnState
  ok_cases

@[simp] theorem u_select (g : Nat) (P : Pending → Prop) (a : Agent) (id : Nat) (h : UP g P a) : UP g P (a.select id).1 := by
  unfold Agent.select
  ok_cases

@[simp] theorem u_sendRequest (g : Nat) (P : Pending → Prop) (a : Agent) (now : Nat) (l r : Cand) (u : Bool) (n : Option Nat)
    (h : UP g P a) : UP g P (a.sendRequest now l r u n).1 := by
  have ht : (a.sendRequest now l r u n).1.tag = a.tag := congrArg Core.tag (core_sendRequest a now l r u n)
  unfold UP
  rw [ht, sendRequest_nextTid, sendRequest_pending]
  refine ⟨h.1, fun pd hpd => ?_⟩
  rcases List.mem_append.mp hpd with hpd | hpd
  · rcases h.2 pd (mem_invalidatePending hpd) with h1 | ⟨k, h1, h2⟩
    · exact Or.inl h1
    · exact Or.inr ⟨k, h1, Nat.lt_succ_of_lt h2⟩
  · right
    rw [List.mem_singleton.mp hpd]
    exact ⟨a.nextTid, by rw [h.1], Nat.lt_succ_self _⟩

@[simp] theorem u_ping (g : Nat) (P : Pending → Prop) (a : Agent) (now : Nat) (l r : Cand) (h : UP g P a) :
    UP g P (a.ping now l r).1 := u_sendRequest g P a now l r false none h

@[simp] theorem u_sendSuccess (g : Nat) (P : Pending → Prop) (a : Agent) (now : Nat) (m : Msg) (l r : Cand) (h : UP g P a) :
    UP g P (a.sendSuccess now m l r).1 := by
  unfold Agent.sendSuccess
  ok_cases

@[simp] theorem u_nominate (g : Nat) (P : Pending → Prop) (a : Agent) (now : Nat) (p : Pair) (h : UP g P a) :
    UP g P (a.nominate now p).1 := by
  unfold Agent.nominate
  ok_cases

@[simp] theorem u_keepalive (g : Nat) (P : Pending → Prop) (a : Agent) (now : Nat) (h : UP g P a) :
    UP g P (a.keepalive now).1 := by
  unfold Agent.keepalive
  ok_cases

@[simp] theorem u_validateSelected (g : Nat) (P : Pending → Prop) (a : Agent) (now : Nat) (h : UP g P a) :
    UP g P (a.validateSelected now).1 := by
  unfold Agent.validateSelected
  ok_cases

@[simp] theorem u_pingAll (g : Nat) (P : Pending → Prop) (a : Agent) (now : Nat) (h : UP g P a) :
    UP g P (a.pingAll now).1 := by
  unfold Agent.pingAll
  refine IceProofs.List.foldl_inv (fun acc : Agent × List Out => UP g P acc.1) _ _ _ h ?_
  intro acc id h
  obtain ⟨b, o⟩ := acc
  simp only at h ⊢
  ok_cases

@[simp] theorem u_replaceRemoteInPairs (g : Nat) (P : Pending → Prop) (a : Agent) (old c : Cand) (h : UP g P a) :
    UP g P (a.replaceRemoteInPairs old c).1 := by
  unfold Agent.replaceRemoteInPairs
  refine IceProofs.List.foldl_inv (fun acc : Agent × List Out => UP g P acc.1) _ _ _ h ?_
  intro acc id h
  obtain ⟨b, o⟩ := acc
  simp only at h ⊢
  ok_cases

@[simp] theorem u_addRemoteCandidate (g : Nat) (P : Pending → Prop) (a : Agent) (c : Cand) (h : UP g P a) :
    UP g P (a.addRemoteCandidate c).1 := by
  unfold Agent.addRemoteCandidate
  split
  · exact h
  split
  · exact h
  simp only [u_requestCheck]
  refine IceProofs.List.foldl_inv (fun b : Agent => UP g P b) _ _ _ ?_ ?_
  · simp only [UP_mk, UP_eta]
    refine IceProofs.List.foldl_inv (fun acc : Agent × List Out => UP g P acc.1) _ _ _ ?_ ?_
    · simpa using h
    · intro acc old h
      simp [h]
  · intro b l h
    split <;> simp [h]

@[simp] theorem u_addLocalCandidate (g : Nat) (P : Pending → Prop) (a : Agent) (c : Cand) (h : UP g P a) :
    UP g P (a.addLocalCandidate c).1 := by
  unfold Agent.addLocalCandidate
  split
  · exact h
  split
  · exact h
  simp only [u_requestCheck]
  refine IceProofs.List.foldl_inv (fun b : Agent => UP g P b) _ _ _ ?_ ?_
  · simpa using h
  · intro b l h
    simp [h]

@[simp] theorem u_takePending (g : Nat) (P : Pending → Prop) (a : Agent) (now tid : Nat) (h : UP g P a) :
    UP g P (a.takePending now tid).1 := by
  have h1 := u_invalidatePending g P a now h
  unfold Agent.takePending
  simp only []
  split
  · exact UK.mono h1 (Nat.le_refl _) (fun _ hp => (List.mem_filter.mp hp).1)
  · exact h1

@[simp] theorem u_handleSuccess (g : Nat) (P : Pending → Prop) (a : Agent) (now : Nat) (m : Msg) (l r : Cand) (src : Nat)
    (h : UP g P a) : UP g P (a.handleSuccess now m l r src).1 := by
  unfold Agent.handleSuccess
  ok_cases

@[simp] theorem u_cldNominate (g : Nat) (P : Pending → Prop) (a : Agent) (m : Msg) (id : Nat) (h : UP g P a) :
    UP g P (cldNominate a m id).1 := by
  unfold cldNominate
  ok_cases

@[simp] theorem u_cldProceed (g : Nat) (P : Pending → Prop) (a : Agent) (now : Nat) (m : Msg) (l r : Cand) (id : Nat)
    (h : UP g P a) : UP g P (cldProceed a now m l r id).1 := by
  unfold cldProceed
  ok_cases
  exact u_ping g P _ now l r (u_sendSuccess g P _ now m l r (u_cldNominate g P a m id h))

@[simp] theorem u_ensurePair (g : Nat) (P : Pending → Prop) (a : Agent) (l r : Cand) :
    UP g P (ensurePair a l r).1 ↔ UP g P a := by
  unfold ensurePair
  split <;> simp

@[simp] theorem u_cldHandleRequest (g : Nat) (P : Pending → Prop) (a : Agent) (now : Nat) (m : Msg) (l r : Cand)
    (h : UP g P a) : UP g P (a.cldHandleRequest now m l r).1 := by
  rw [cldHandleRequest_nf]
  simp only []
  split
  · simp [h]
  · exact u_cldProceed _ _ _ _ _ _ _ _ (by simpa using h)

@[simp] theorem u_ctlHandleRequest (g : Nat) (P : Pending → Prop) (a : Agent) (now : Nat) (m : Msg) (l r : Cand)
    (h : UP g P a) : UP g P (a.ctlHandleRequest now m l r).1 := by
  unfold Agent.ctlHandleRequest
  ok_cases

@[simp] theorem u_writeVia (g : Nat) (P : Pending → Prop) (a : Agent) (now : Nat) (p : Pair) (len : Nat) (h : UP g P a) :
    UP g P (a.writeVia now p len).1 := by
  unfold Agent.writeVia
  ok_cases

@[simp] theorem u_write (g : Nat) (P : Pending → Prop) (a : Agent) (now len : Nat) (s : Bool) (h : UP g P a) :
    UP g P (a.write now len s).1 := by
  unfold Agent.write
  ok_cases

@[simp] theorem u_writeToPair (g : Nat) (P : Pending → Prop) (a : Agent) (now id len : Nat) (s : Bool) (h : UP g P a) :
    UP g P (a.writeToPair now id len s).1 := by
  unfold Agent.writeToPair
  ok_cases

@[simp] theorem u_inboundData (g : Nat) (P : Pending → Prop) (a : Agent) (now : Nat) (l : Cand) (src len : Nat)
    (h : UP g P a) : UP g P (a.inboundData now l src len).1 := by
  unfold Agent.inboundData Agent.enqueue
  ok_cases

@[simp] theorem u_doRestart (g : Nat) (P : Pending → Prop) (a : Agent) (now : Nat) (x p : String) (h : UP g P a) :
    UP g P (a.doRestart now x p).1 := by
  unfold Agent.doRestart
  ok_cases

@[simp] theorem u_autoRenom (g : Nat) (P : Pending → Prop) (a : Agent) (now : Nat) (h : UP g P a) :
    UP g P (a.autoRenom now).1 := by
  refine IceProofs.Auto.autoRenom_parts (P := fun x => UP g P x.1) ?_ a h
  exact {
    mark := fun _ _ _ _ h _ _ => h
    ping := fun b _ l r h _ _ => u_ping g P b now l r h
    time := fun _ _ h => h
    count := fun _ _ h => h
    issue := fun b _ l r nom h _ _ _ _ _ => u_sendRequest g P b now l r true nom h
    log := fun _ _ _ h => h }

/-- (three nested side conditions are beyond `simp`'s discharge depth) -/
@[simp] theorem u_valKeepAuto (g : Nat) (P : Pending → Prop) (a : Agent) (now : Nat) (h : UP g P a) :
    UP g P (((a.validateSelected now).1.keepalive now).1.autoRenom now).1 :=
  u_autoRenom g P _ now (u_keepalive g P _ now (u_validateSelected g P a now h))

@[simp] theorem u_contactCandidates (g : Nat) (P : Pending → Prop) (a : Agent) (now : Nat) (h : UP g P a) :
    UP g P (a.contactCandidates now).1 := by
  unfold Agent.contactCandidates
  ok_cases

@[simp] theorem u_contact (g : Nat) (P : Pending → Prop) (a : Agent) (now : Nat) (h : UP g P a) :
    UP g P (a.contact now).1 := by
  unfold Agent.contact
  ok_cases

@[simp] theorem u_runForced (g : Nat) (P : Pending → Prop) (a : Agent) (now : Nat) (h : UP g P a) :
    UP g P (a.runForced now).1 := by
  unfold Agent.runForced
  ok_cases

@[simp] theorem u_runTimers (g : Nat) (P : Pending → Prop) (a : Agent) (now fuel : Nat) (h : UP g P a) :
    UP g P (a.runTimers now fuel).1 := by
  induction fuel generalizing a with
  | zero => simpa [Agent.runTimers] using h
  | succ n ih =>
    unfold Agent.runTimers
    (try simp only []); (repeat' split) <;> (pair_subst; (try simp at *)) <;> (try exact h)
    exact ih _ (by simp [h])

@[simp] theorem u_handleInbound (g : Nat) (P : Pending → Prop) (a : Agent) (now : Nat) (l : Cand) (src : Nat) (m : Msg)
    (h : UP g P a) : UP g P (a.handleInbound now l src m).1 := by
  unfold Agent.handleInbound
  ok_cases

theorem u_step (g : Nat) (P : Pending → Prop) (a : Agent) (e : Ev) (h : UP g P a) : UP g P (step a e).1 := by
  cases e with
  | addLocal now c => simp [step, h]
  | addRemote now c => simp only [step]; ok_cases
  | start now ctl ru rp => simp only [step]; ok_cases
  | setRemoteCreds ru rp => simp only [step]; ok_cases
  | advance now => simp [step, h]
  | inbound now la src m => simp only [step]; ok_cases
  | inboundData now la src len s => simp only [step]; ok_cases
  | write now len s => simp [step, h]
  | writeToPair now id len s => simp [step, h]
  | read => simp only [step]; ok_cases
  | renominate now la ri v => simp only [step]; ok_cases
  | restart now u p => simp only [step]; ok_cases
  | close => simp only [step]; ok_cases

/-! ## Part 3 — the Binding requests of a helper are numbered consecutively from the counter -/

/-- transaction id of a Binding request datagram -/
def rq : Out → Option Nat
  | .dgram _ _ m => if m.cls = 0 then some m.tid else none
  | _ => none

/-- number of Binding requests among some outputs -/
def nreq : List Out → Nat
  | [] => 0
  | x :: o => (if (rq x).isSome then 1 else 0) + nreq o

/-- the Binding requests in `o` carry, in order, the ids `2 * n + g`, `2 * (n + 1) + g`, … -/
def Seq (g : Nat) : Nat → List Out → Prop
  | _, [] => True
  | n, x :: o =>
    match rq x with
    | some t => t = 2 * n + g ∧ Seq g (n + 1) o
    | none => Seq g n o

@[simp] theorem nreq_nil : nreq [] = 0 := rfl
@[simp] theorem nreq_res (s : String) (o : List Out) : nreq (.res s :: o) = nreq o := by simp [nreq, rq]
@[simp] theorem nreq_cbState (s : ConnState) (o : List Out) : nreq (.cbState s :: o) = nreq o := by simp [nreq, rq]
@[simp] theorem nreq_cbPair (x y : Nat) (o : List Out) : nreq (.cbPair x y :: o) = nreq o := by simp [nreq, rq]
@[simp] theorem nreq_cbCand (x : Nat) (o : List Out) : nreq (.cbCand x :: o) = nreq o := by simp [nreq, rq]
@[simp] theorem nreq_data (x y z : Nat) (o : List Out) : nreq (.data x y z :: o) = nreq o := by simp [nreq, rq]
@[simp] theorem nreq_dgram (f t : Nat) (m : Msg) (o : List Out) :
    nreq (.dgram f t m :: o) = (if m.cls = 0 then 1 else 0) + nreq o := by
  simp only [nreq, rq]
  split <;> simp
@[simp] theorem nreq_append (o1 o2 : List Out) : nreq (o1 ++ o2) = nreq o1 + nreq o2 := by
  induction o1 with
  | nil => simp
  | cons x o ih => simp only [List.cons_append, nreq, ih]; omega

@[simp] theorem Seq_nil (g n : Nat) : Seq g n [] := trivial
@[simp] theorem Seq_res (g n : Nat) (s : String) (o : List Out) : Seq g n (.res s :: o) ↔ Seq g n o := Iff.rfl
@[simp] theorem Seq_cbState (g n : Nat) (s : ConnState) (o : List Out) : Seq g n (.cbState s :: o) ↔ Seq g n o := Iff.rfl
@[simp] theorem Seq_cbPair (g n : Nat) (x y : Nat) (o : List Out) : Seq g n (.cbPair x y :: o) ↔ Seq g n o := Iff.rfl
@[simp] theorem Seq_cbCand (g n : Nat) (x : Nat) (o : List Out) : Seq g n (.cbCand x :: o) ↔ Seq g n o := Iff.rfl
@[simp] theorem Seq_data (g n : Nat) (x y z : Nat) (o : List Out) : Seq g n (.data x y z :: o) ↔ Seq g n o := Iff.rfl
@[simp] theorem Seq_dgram (g n : Nat) (f t : Nat) (m : Msg) (o : List Out) :
    Seq g n (.dgram f t m :: o) ↔ if m.cls = 0 then m.tid = 2 * n + g ∧ Seq g (n + 1) o else Seq g n o := by
  by_cases hc : m.cls = 0 <;> simp [Seq, rq, hc]

@[simp] theorem Seq_append (g n : Nat) (o1 o2 : List Out) :
    Seq g n (o1 ++ o2) ↔ Seq g n o1 ∧ Seq g (n + nreq o1) o2 := by
  induction o1 generalizing n with
  | nil => simp
  | cons x o ih =>
    simp only [List.cons_append, Seq, nreq]
    cases hx : rq x with
    | none => simp [ih]
    | some t =>
      simp only [ih, Option.isSome_some, if_true, and_assoc]
      have : n + 1 + nreq o = n + (1 + nreq o) := by omega
      rw [this]

theorem Seq_of_nreq {g n : Nat} {o : List Out} (h : nreq o = 0) : Seq g n o := by
  induction o with
  | nil => trivial
  | cons x o ih =>
    simp only [nreq] at h
    cases hx : rq x with
    | none => simp only [Seq, hx]; exact ih (by simp [hx] at h; exact h)
    | some t => simp [hx] at h

theorem Seq.mem {g n : Nat} {o : List Out} (h : Seq g n o) {f t : Nat} {m : Msg} (hm : Out.dgram f t m ∈ o) (hc : m.cls = 0) :
    ∃ k, m.tid = 2 * k + g ∧ n ≤ k ∧ k < n + nreq o := by
  induction o generalizing n with
  | nil => cases hm
  | cons x o ih =>
    rcases List.mem_cons.mp hm with hx | hx
    · subst hx
      simp only [Seq_dgram, hc, if_true] at h
      exact ⟨n, h.1, Nat.le_refl _, by simp [hc]; omega⟩
    · cases hr : rq x with
      | none =>
        simp only [Seq, hr] at h
        obtain ⟨k, h1, h2, h3⟩ := ih h hx
        exact ⟨k, h1, h2, by simp only [nreq, hr]; simpa using h3⟩
      | some t' =>
        simp only [Seq, hr] at h
        obtain ⟨k, h1, h2, h3⟩ := ih h.2 hx
        exact ⟨k, h1, by omega, by simp only [nreq, hr]; simp; omega⟩

/-- split every `if`/`match`, replace destructured results by projections, simplify, finish with arithmetic -/
macro "tr_cases" : tactic =>
  `(tactic| ((try simp only []); (repeat' split) <;>
      (pair_subst; (try simp [Nat.add_assoc] at *) <;> (try simp_all [Nat.add_assoc]) <;> (try omega))))

/-! ### the tag and the counter through record updates -/

@[simp] theorem tg_modPair (a : Agent) (id : Nat) (f : Pair → Pair) : (a.modPair id f).tag = a.tag := rfl
@[simp] theorem tg_seenLocalSent (a : Agent) (x n : Nat) : (a.seenLocalSent x n).tag = a.tag := rfl
@[simp] theorem tg_seenRemoteRecv (a : Agent) (x n : Nat) : (a.seenRemoteRecv x n).tag = a.tag := rfl
@[simp] theorem tg_requestCheck (a : Agent) : a.requestCheck.tag = a.tag := rfl
@[simp] theorem tg_addPair (a : Agent) (l r : Cand) : (a.addPair l r).1.tag = a.tag := rfl
@[simp] theorem tg_resetSelector (a : Agent) (n : Nat) : (a.resetSelector n).tag = a.tag := rfl
@[simp] theorem tg_wipe (a : Agent) : a.wipe.tag = a.tag := rfl
@[simp] theorem tg_invalidatePending (a : Agent) (n : Nat) : (a.invalidatePending n).tag = a.tag := rfl
@[simp] theorem nt_modPair (a : Agent) (id : Nat) (f : Pair → Pair) : (a.modPair id f).nextTid = a.nextTid := rfl
@[simp] theorem nt_seenLocalSent (a : Agent) (x n : Nat) : (a.seenLocalSent x n).nextTid = a.nextTid := rfl
@[simp] theorem nt_seenRemoteRecv (a : Agent) (x n : Nat) : (a.seenRemoteRecv x n).nextTid = a.nextTid := rfl
@[simp] theorem nt_requestCheck (a : Agent) : a.requestCheck.nextTid = a.nextTid := rfl
@[simp] theorem nt_addPair (a : Agent) (l r : Cand) : (a.addPair l r).1.nextTid = a.nextTid := rfl
@[simp] theorem nt_resetSelector (a : Agent) (n : Nat) : (a.resetSelector n).nextTid = a.nextTid := rfl
@[simp] theorem nt_wipe (a : Agent) : a.wipe.nextTid = a.nextTid := rfl
@[simp] theorem nt_invalidatePending (a : Agent) (n : Nat) : (a.invalidatePending n).nextTid = a.nextTid := rfl

/-! ### helpers that send no Binding request -/

@[simp] theorem tg_setConnState (a : Agent) (s : ConnState) : (a.setConnState s).1.tag = a.tag :=
  congrArg Core.tag (core_setConnState a s)
@[simp] theorem nt_setConnState (a : Agent) (s : ConnState) : (a.setConnState s).1.nextTid = a.nextTid := by
  unfold Agent.setConnState
  tr_cases
@[simp] theorem nr_setConnState (a : Agent) (s : ConnState) : nreq (a.setConnState s).2 = 0 := by
  unfold Agent.setConnState
  tr_cases
@[simp] theorem sq_setConnState (g n : Nat) (a : Agent) (s : ConnState) : Seq g n (a.setConnState s).2 :=
  Seq_of_nreq (nr_setConnState a s)

@[simp] theorem tg_select (a : Agent) (id : Nat) : (a.select id).1.tag = a.tag := congrArg Core.tag (core_select a id)
@[simp] theorem nt_select (a : Agent) (id : Nat) : (a.select id).1.nextTid = a.nextTid := by
  unfold Agent.select
  tr_cases
@[simp] theorem nr_select (a : Agent) (id : Nat) : nreq (a.select id).2 = 0 := by
  unfold Agent.select
  tr_cases
@[simp] theorem sq_select (g n : Nat) (a : Agent) (id : Nat) : Seq g n (a.select id).2 := Seq_of_nreq (nr_select a id)

@[simp] theorem tg_sendSuccess (a : Agent) (now : Nat) (m : Msg) (l r : Cand) : (a.sendSuccess now m l r).1.tag = a.tag :=
  congrArg Core.tag (core_sendSuccess a now m l r)
@[simp] theorem nt_sendSuccess (a : Agent) (now : Nat) (m : Msg) (l r : Cand) :
    (a.sendSuccess now m l r).1.nextTid = a.nextTid := by
  unfold Agent.sendSuccess
  tr_cases
@[simp] theorem nr_sendSuccess (a : Agent) (now : Nat) (m : Msg) (l r : Cand) : nreq (a.sendSuccess now m l r).2 = 0 := by
  rw [sendSuccess_out]
  simp
@[simp] theorem sq_sendSuccess (g n : Nat) (a : Agent) (now : Nat) (m : Msg) (l r : Cand) :
    Seq g n (a.sendSuccess now m l r).2 := Seq_of_nreq (nr_sendSuccess a now m l r)

@[simp] theorem tg_validateSelected (a : Agent) (now : Nat) : (a.validateSelected now).1.tag = a.tag :=
  congrArg Core.tag (core_validateSelected a now)
@[simp] theorem nt_validateSelected (a : Agent) (now : Nat) : (a.validateSelected now).1.nextTid = a.nextTid := by
  unfold Agent.validateSelected
  tr_cases
@[simp] theorem nr_validateSelected (a : Agent) (now : Nat) : nreq (a.validateSelected now).2.1 = 0 := by
  unfold Agent.validateSelected
  tr_cases
@[simp] theorem sq_validateSelected (g n : Nat) (a : Agent) (now : Nat) : Seq g n (a.validateSelected now).2.1 :=
  Seq_of_nreq (nr_validateSelected a now)

/-! ### the sender -/

@[simp] theorem tg_sendRequest (a : Agent) (now : Nat) (l r : Cand) (u : Bool) (x : Option Nat) :
    (a.sendRequest now l r u x).1.tag = a.tag := congrArg Core.tag (core_sendRequest a now l r u x)
@[simp] theorem nr_sendRequest (a : Agent) (now : Nat) (l r : Cand) (u : Bool) (x : Option Nat) :
    nreq (a.sendRequest now l r u x).2 = 1 := by
  rw [sendRequest_out]
  simp
@[simp] theorem nt_sendRequest (a : Agent) (now : Nat) (l r : Cand) (u : Bool) (x : Option Nat) :
    (a.sendRequest now l r u x).1.nextTid = a.nextTid + 1 := sendRequest_nextTid a now l r u x
@[simp] theorem sq_sendRequest (g n : Nat) (a : Agent) (now : Nat) (l r : Cand) (u : Bool) (x : Option Nat)
    (hn : a.nextTid = n) (hg : a.tag = g) : Seq g n (a.sendRequest now l r u x).2 := by
  rw [sendRequest_out]
  simp [hn, hg]

@[simp] theorem tg_ping (a : Agent) (now : Nat) (l r : Cand) : (a.ping now l r).1.tag = a.tag := tg_sendRequest ..
@[simp] theorem nr_ping (a : Agent) (now : Nat) (l r : Cand) : nreq (a.ping now l r).2 = 1 := nr_sendRequest ..
@[simp] theorem nt_ping (a : Agent) (now : Nat) (l r : Cand) : (a.ping now l r).1.nextTid = a.nextTid + 1 := nt_sendRequest ..
@[simp] theorem sq_ping (g n : Nat) (a : Agent) (now : Nat) (l r : Cand) (hn : a.nextTid = n) (hg : a.tag = g) :
    Seq g n (a.ping now l r).2 := sq_sendRequest g n a now l r false none hn hg

@[simp] theorem tg_nominate (a : Agent) (now : Nat) (p : Pair) : (a.nominate now p).1.tag = a.tag :=
  congrArg Core.tag (core_nominate a now p)
@[simp] theorem nt_nominate (a : Agent) (now : Nat) (p : Pair) :
    (a.nominate now p).1.nextTid = a.nextTid + nreq (a.nominate now p).2 := by
  unfold Agent.nominate
  tr_cases
@[simp] theorem sq_nominate (g n : Nat) (a : Agent) (now : Nat) (p : Pair) (hn : a.nextTid = n) (hg : a.tag = g) :
    Seq g n (a.nominate now p).2 := by
  subst hn hg
  unfold Agent.nominate
  tr_cases

@[simp] theorem tg_keepalive (a : Agent) (now : Nat) : (a.keepalive now).1.tag = a.tag :=
  congrArg Core.tag (core_keepalive a now)
@[simp] theorem nt_keepalive (a : Agent) (now : Nat) :
    (a.keepalive now).1.nextTid = a.nextTid + nreq (a.keepalive now).2 := by
  unfold Agent.keepalive
  tr_cases
@[simp] theorem sq_keepalive (g n : Nat) (a : Agent) (now : Nat) (hn : a.nextTid = n) (hg : a.tag = g) :
    Seq g n (a.keepalive now).2 := by
  subst hn hg
  unfold Agent.keepalive
  tr_cases

@[simp] theorem tg_pingAll (a : Agent) (now : Nat) : (a.pingAll now).1.tag = a.tag := congrArg Core.tag (core_pingAll a now)

theorem pingAll_seq (a : Agent) (now : Nat) :
    (a.pingAll now).1.nextTid = a.nextTid + nreq (a.pingAll now).2 ∧ Seq a.tag a.nextTid (a.pingAll now).2 := by
  suffices h : (a.pingAll now).1.tag = a.tag ∧ (a.pingAll now).1.nextTid = a.nextTid + nreq (a.pingAll now).2 ∧
      Seq a.tag a.nextTid (a.pingAll now).2 from h.2
  unfold Agent.pingAll
  refine IceProofs.List.foldl_inv (fun acc : Agent × List Out => acc.1.tag = a.tag ∧
    acc.1.nextTid = a.nextTid + nreq acc.2 ∧ Seq a.tag a.nextTid acc.2) _ _ _ (by simp) ?_
  intro acc id h
  obtain ⟨b, o⟩ := acc
  obtain ⟨h1, h2, h3⟩ := h
  simp only at h1 h2 h3 ⊢
  tr_cases

@[simp] theorem nt_pingAll (a : Agent) (now : Nat) : (a.pingAll now).1.nextTid = a.nextTid + nreq (a.pingAll now).2 :=
  (pingAll_seq a now).1
@[simp] theorem sq_pingAll (g n : Nat) (a : Agent) (now : Nat) (hn : a.nextTid = n) (hg : a.tag = g) :
    Seq g n (a.pingAll now).2 := by
  subst hn hg
  exact (pingAll_seq a now).2

theorem autoRenom_seq (a : Agent) (now : Nat) :
    (a.autoRenom now).1.tag = a.tag ∧ (a.autoRenom now).1.nextTid = a.nextTid + nreq (a.autoRenom now).2 ∧
      Seq a.tag a.nextTid (a.autoRenom now).2 := by
  refine IceProofs.Auto.autoRenom_parts (P := fun x => x.1.tag = a.tag ∧ x.1.nextTid = a.nextTid + nreq x.2 ∧
    Seq a.tag a.nextTid x.2) ?_ a (by simp)
  exact {
    mark := fun _ _ _ _ h _ _ => h
    ping := fun b o l r h _ _ => by
      have h1 : b.tag = a.tag := h.1
      have h2 : b.nextTid = a.nextTid + nreq o := h.2.1
      have h3 : Seq a.tag a.nextTid o := h.2.2
      exact ⟨by rw [tg_ping]; exact h1, by rw [nt_ping, nreq_append, nr_ping, h2]; omega,
        by rw [Seq_append]; exact ⟨h3, sq_ping _ _ b now l r h2 h1⟩⟩
    time := fun _ _ h => h
    count := fun _ _ h => h
    issue := fun b o l r nom h _ _ _ _ _ => by
      have h1 : b.tag = a.tag := h.1
      have h2 : b.nextTid = a.nextTid + nreq o := h.2.1
      have h3 : Seq a.tag a.nextTid o := h.2.2
      exact ⟨by rw [tg_sendRequest]; exact h1, by rw [nt_sendRequest, nreq_append, nr_sendRequest, h2]; omega,
        by rw [Seq_append]; exact ⟨h3, sq_sendRequest _ _ b now l r true nom h2 h1⟩⟩
    log := fun _ _ _ h => h }

@[simp] theorem tg_autoRenom (a : Agent) (now : Nat) : (a.autoRenom now).1.tag = a.tag := (autoRenom_seq a now).1
@[simp] theorem nt_autoRenom (a : Agent) (now : Nat) :
    (a.autoRenom now).1.nextTid = a.nextTid + nreq (a.autoRenom now).2 := (autoRenom_seq a now).2.1
@[simp] theorem sq_autoRenom (g n : Nat) (a : Agent) (now : Nat) (hn : a.nextTid = n) (hg : a.tag = g) :
    Seq g n (a.autoRenom now).2 := by
  subst hn hg
  exact (autoRenom_seq a now).2.2

@[simp] theorem tg_contactCandidates (a : Agent) (now : Nat) : (a.contactCandidates now).1.tag = a.tag :=
  congrArg Core.tag (core_contactCandidates a now)
@[simp] theorem nt_contactCandidates (a : Agent) (now : Nat) :
    (a.contactCandidates now).1.nextTid = a.nextTid + nreq (a.contactCandidates now).2 := by
  unfold Agent.contactCandidates
  tr_cases
@[simp] theorem sq_contactCandidates (g n : Nat) (a : Agent) (now : Nat) (hn : a.nextTid = n) (hg : a.tag = g) :
    Seq g n (a.contactCandidates now).2 := by
  subst hn hg
  unfold Agent.contactCandidates
  tr_cases

/-! ### the tick -/

@[simp] theorem tg_contact (a : Agent) (now : Nat) : (a.contact now).1.tag = a.tag :=
  congrArg Core.tag (core_contact a now)
@[simp] theorem nt_contact (a : Agent) (now : Nat) :
    (a.contact now).1.nextTid = a.nextTid + nreq (a.contact now).2 := by
  unfold Agent.contact
  tr_cases
@[simp] theorem sq_contact (g n : Nat) (a : Agent) (now : Nat) (hn : a.nextTid = n) (hg : a.tag = g) :
    Seq g n (a.contact now).2 := by
  subst hn hg
  unfold Agent.contact
  tr_cases

@[simp] theorem tg_runForced (a : Agent) (now : Nat) : (a.runForced now).1.tag = a.tag :=
  congrArg Core.tag (core_runForced a now)
@[simp] theorem nt_runForced (a : Agent) (now : Nat) :
    (a.runForced now).1.nextTid = a.nextTid + nreq (a.runForced now).2 := by
  unfold Agent.runForced
  tr_cases
@[simp] theorem sq_runForced (g n : Nat) (a : Agent) (now : Nat) (hn : a.nextTid = n) (hg : a.tag = g) :
    Seq g n (a.runForced now).2 := by
  subst hn hg
  unfold Agent.runForced
  tr_cases

@[simp] theorem tg_runTimers (a : Agent) (now fuel : Nat) : (a.runTimers now fuel).1.tag = a.tag :=
  congrArg Core.tag (core_runTimers a now fuel)

theorem runTimers_seq (a : Agent) (now fuel : Nat) :
    (a.runTimers now fuel).1.nextTid = a.nextTid + nreq (a.runTimers now fuel).2 ∧
      Seq a.tag a.nextTid (a.runTimers now fuel).2 := by
  induction fuel generalizing a with
  | zero => simp [Agent.runTimers]
  | succ k ih =>
    unfold Agent.runTimers
    (try simp only []); (repeat' split) <;> (pair_subst; (try simp at *))
    rename_i t _ _
    have := ih { (a.contact t).1 with nextTick := some (t + (a.contact t).1.interval) }
    simp [Nat.add_assoc] at this
    exact this

@[simp] theorem nt_runTimers (a : Agent) (now fuel : Nat) :
    (a.runTimers now fuel).1.nextTid = a.nextTid + nreq (a.runTimers now fuel).2 := (runTimers_seq a now fuel).1
@[simp] theorem sq_runTimers (g n : Nat) (a : Agent) (now fuel : Nat) (hn : a.nextTid = n) (hg : a.tag = g) :
    Seq g n (a.runTimers now fuel).2 := by
  subst hn hg
  exact (runTimers_seq a now fuel).2

/-! ### candidates and pairs -/

@[simp] theorem tg_replaceRemoteInPairs (a : Agent) (old c : Cand) : (a.replaceRemoteInPairs old c).1.tag = a.tag :=
  congrArg Core.tag (core_replaceRemoteInPairs a old c)
@[simp] theorem nt_replaceRemoteInPairs (a : Agent) (old c : Cand) : (a.replaceRemoteInPairs old c).1.nextTid = a.nextTid := by
  unfold Agent.replaceRemoteInPairs
  refine IceProofs.List.foldl_inv (fun acc : Agent × List Out => acc.1.nextTid = a.nextTid) _ _ _ rfl ?_
  intro acc id h
  obtain ⟨b, o⟩ := acc
  simp only at h ⊢
  tr_cases
@[simp] theorem nr_replaceRemoteInPairs (a : Agent) (old c : Cand) : nreq (a.replaceRemoteInPairs old c).2 = 0 := by
  unfold Agent.replaceRemoteInPairs
  refine IceProofs.List.foldl_inv (fun acc : Agent × List Out => nreq acc.2 = 0) _ _ _ rfl ?_
  intro acc id h
  obtain ⟨b, o⟩ := acc
  simp only at h ⊢
  tr_cases
@[simp] theorem sq_replaceRemoteInPairs (g n : Nat) (a : Agent) (old c : Cand) : Seq g n (a.replaceRemoteInPairs old c).2 :=
  Seq_of_nreq (nr_replaceRemoteInPairs ..)

@[simp] theorem tg_addRemoteCandidate (a : Agent) (c : Cand) : (a.addRemoteCandidate c).1.tag = a.tag :=
  congrArg Core.tag (core_addRemoteCandidate a c)
@[simp] theorem nt_addRemoteCandidate (a : Agent) (c : Cand) : (a.addRemoteCandidate c).1.nextTid = a.nextTid := by
  unfold Agent.addRemoteCandidate
  split
  · rfl
  split
  · rfl
  simp only [nt_requestCheck]
  refine IceProofs.List.foldl_inv (fun b : Agent => b.nextTid = a.nextTid) _ _ _ ?_ ?_
  · refine IceProofs.List.foldl_inv (fun acc : Agent × List Out => acc.1.nextTid = a.nextTid) _ _ _ ?_ ?_
    · rfl
    · intro acc old h
      simp [h]
  · intro b l h
    split <;> simp [h]
@[simp] theorem nr_addRemoteCandidate (a : Agent) (c : Cand) : nreq (a.addRemoteCandidate c).2.1 = 0 := by
  unfold Agent.addRemoteCandidate
  split
  · simp
  split
  · simp
  simp only []
  refine IceProofs.List.foldl_inv (fun acc : Agent × List Out => nreq acc.2 = 0) _ _ _ (by simp) ?_
  intro acc old h
  simp [h]
@[simp] theorem sq_addRemoteCandidate (g n : Nat) (a : Agent) (c : Cand) : Seq g n (a.addRemoteCandidate c).2.1 :=
  Seq_of_nreq (nr_addRemoteCandidate ..)

@[simp] theorem tg_addLocalCandidate (a : Agent) (c : Cand) : (a.addLocalCandidate c).1.tag = a.tag :=
  congrArg Core.tag (core_addLocalCandidate a c)
@[simp] theorem nt_addLocalCandidate (a : Agent) (c : Cand) : (a.addLocalCandidate c).1.nextTid = a.nextTid := by
  unfold Agent.addLocalCandidate
  split
  · rfl
  split
  · rfl
  simp only [nt_requestCheck]
  refine IceProofs.List.foldl_inv (fun b : Agent => b.nextTid = a.nextTid) _ _ _ rfl ?_
  intro b l h
  simp [h]
@[simp] theorem nr_addLocalCandidate (a : Agent) (c : Cand) : nreq (a.addLocalCandidate c).2 = 0 := by
  unfold Agent.addLocalCandidate
  split
  · simp
  split <;> simp
@[simp] theorem sq_addLocalCandidate (g n : Nat) (a : Agent) (c : Cand) : Seq g n (a.addLocalCandidate c).2 :=
  Seq_of_nreq (nr_addLocalCandidate ..)

/-! ### inbound STUN -/

@[simp] theorem tg_takePending (a : Agent) (now tid : Nat) : (a.takePending now tid).1.tag = a.tag :=
  congrArg Core.tag (core_takePending a now tid)
@[simp] theorem nt_takePending (a : Agent) (now tid : Nat) : (a.takePending now tid).1.nextTid = a.nextTid := by
  unfold Agent.takePending
  tr_cases

@[simp] theorem tg_handleSuccess (a : Agent) (now : Nat) (m : Msg) (l r : Cand) (src : Nat) : (a.handleSuccess now m l r src).1.tag = a.tag :=
  congrArg Core.tag (core_handleSuccess a now m l r src)
@[simp] theorem nt_handleSuccess (a : Agent) (now : Nat) (m : Msg) (l r : Cand) (src : Nat) : (a.handleSuccess now m l r src).1.nextTid = a.nextTid := by
  unfold Agent.handleSuccess
  tr_cases
@[simp] theorem nr_handleSuccess (a : Agent) (now : Nat) (m : Msg) (l r : Cand) (src : Nat) : nreq (a.handleSuccess now m l r src).2 = 0 := by
  unfold Agent.handleSuccess
  tr_cases
@[simp] theorem sq_handleSuccess (g n : Nat) (a : Agent) (now : Nat) (m : Msg) (l r : Cand) (src : Nat) : Seq g n (a.handleSuccess now m l r src).2 :=
  Seq_of_nreq (nr_handleSuccess ..)

@[simp] theorem tg_cldNominate (a : Agent) (m : Msg) (id : Nat) : (cldNominate a m id).1.tag = a.tag :=
  congrArg Core.tag (core_cldNominate a m id)
@[simp] theorem nt_cldNominate (a : Agent) (m : Msg) (id : Nat) : (cldNominate a m id).1.nextTid = a.nextTid := by
  unfold cldNominate
  tr_cases
@[simp] theorem nr_cldNominate (a : Agent) (m : Msg) (id : Nat) : nreq (cldNominate a m id).2 = 0 := by
  unfold cldNominate
  tr_cases
@[simp] theorem sq_cldNominate (g n : Nat) (a : Agent) (m : Msg) (id : Nat) : Seq g n (cldNominate a m id).2 :=
  Seq_of_nreq (nr_cldNominate ..)

@[simp] theorem tg_ensurePair (a : Agent) (l r : Cand) : (ensurePair a l r).1.tag = a.tag :=
  congrArg Core.tag (core_ensurePair a l r)
@[simp] theorem nt_ensurePair (a : Agent) (l r : Cand) : (ensurePair a l r).1.nextTid = a.nextTid := by
  unfold ensurePair
  split <;> rfl

@[simp] theorem tg_cldProceed (a : Agent) (now : Nat) (m : Msg) (l r : Cand) (id : Nat) : (cldProceed a now m l r id).1.tag = a.tag :=
  congrArg Core.tag (core_cldProceed a now m l r id)
@[simp] theorem nt_cldProceed (a : Agent) (now : Nat) (m : Msg) (l r : Cand) (id : Nat) :
    (cldProceed a now m l r id).1.nextTid = a.nextTid + nreq (cldProceed a now m l r id).2 := by
  unfold cldProceed
  tr_cases
@[simp] theorem sq_cldProceed (g n : Nat) (a : Agent) (now : Nat) (m : Msg) (l r : Cand) (id : Nat) (hn : a.nextTid = n) (hg : a.tag = g) :
    Seq g n (cldProceed a now m l r id).2 := by
  subst hn hg
  unfold cldProceed
  tr_cases

@[simp] theorem tg_cldHandleRequest (a : Agent) (now : Nat) (m : Msg) (l r : Cand) : (a.cldHandleRequest now m l r).1.tag = a.tag :=
  congrArg Core.tag (core_cldHandleRequest a now m l r)
@[simp] theorem nt_cldHandleRequest (a : Agent) (now : Nat) (m : Msg) (l r : Cand) :
    (a.cldHandleRequest now m l r).1.nextTid = a.nextTid + nreq (a.cldHandleRequest now m l r).2 := by
  rw [cldHandleRequest_nf]
  tr_cases
@[simp] theorem sq_cldHandleRequest (g n : Nat) (a : Agent) (now : Nat) (m : Msg) (l r : Cand) (hn : a.nextTid = n)
    (hg : a.tag = g) : Seq g n (a.cldHandleRequest now m l r).2 := by
  subst hn hg
  rw [cldHandleRequest_nf]
  tr_cases

@[simp] theorem tg_ctlHandleRequest (a : Agent) (now : Nat) (m : Msg) (l r : Cand) : (a.ctlHandleRequest now m l r).1.tag = a.tag :=
  congrArg Core.tag (core_ctlHandleRequest a now m l r)
@[simp] theorem nt_ctlHandleRequest (a : Agent) (now : Nat) (m : Msg) (l r : Cand) :
    (a.ctlHandleRequest now m l r).1.nextTid = a.nextTid + nreq (a.ctlHandleRequest now m l r).2 := by
  unfold Agent.ctlHandleRequest
  tr_cases
@[simp] theorem sq_ctlHandleRequest (g n : Nat) (a : Agent) (now : Nat) (m : Msg) (l r : Cand) (hn : a.nextTid = n) (hg : a.tag = g) :
    Seq g n (a.ctlHandleRequest now m l r).2 := by
  subst hn hg
  unfold Agent.ctlHandleRequest
  tr_cases

@[simp] theorem tg_handleInbound (a : Agent) (now : Nat) (l : Cand) (src : Nat) (m : Msg) :
    (a.handleInbound now l src m).1.tag = a.tag := by
  have h := congrArg Core.tag (core_handleInbound a now l src m)
  simp only [core_tag] at h
  rw [h]
  split
  · rfl
  · split <;> rfl
@[simp] theorem nt_handleInbound (a : Agent) (now : Nat) (l : Cand) (src : Nat) (m : Msg) :
    (a.handleInbound now l src m).1.nextTid = a.nextTid + nreq (a.handleInbound now l src m).2 := by
  unfold Agent.handleInbound
  tr_cases
@[simp] theorem sq_handleInbound (g n : Nat) (a : Agent) (now : Nat) (l : Cand) (src : Nat) (m : Msg) (hn : a.nextTid = n)
    (hg : a.tag = g) : Seq g n (a.handleInbound now l src m).2 := by
  subst hn hg
  unfold Agent.handleInbound
  tr_cases

/-! ### data plane, restart -/

@[simp] theorem tg_writeVia (a : Agent) (now : Nat) (p : Pair) (len : Nat) : (a.writeVia now p len).1.tag = a.tag :=
  congrArg Core.tag (core_writeVia a now p len)
@[simp] theorem nt_writeVia (a : Agent) (now : Nat) (p : Pair) (len : Nat) : (a.writeVia now p len).1.nextTid = a.nextTid := by
  unfold Agent.writeVia
  tr_cases
@[simp] theorem nr_writeVia (a : Agent) (now : Nat) (p : Pair) (len : Nat) : nreq (a.writeVia now p len).2 = 0 := by
  unfold Agent.writeVia
  tr_cases
@[simp] theorem sq_writeVia (g n : Nat) (a : Agent) (now : Nat) (p : Pair) (len : Nat) : Seq g n (a.writeVia now p len).2 :=
  Seq_of_nreq (nr_writeVia ..)

@[simp] theorem tg_write (a : Agent) (now len : Nat) (s : Bool) : (a.write now len s).1.tag = a.tag :=
  congrArg Core.tag (core_write a now len s)
@[simp] theorem nt_write (a : Agent) (now len : Nat) (s : Bool) : (a.write now len s).1.nextTid = a.nextTid := by
  unfold Agent.write
  tr_cases
@[simp] theorem nr_write (a : Agent) (now len : Nat) (s : Bool) : nreq (a.write now len s).2 = 0 := by
  unfold Agent.write
  tr_cases
@[simp] theorem sq_write (g n : Nat) (a : Agent) (now len : Nat) (s : Bool) : Seq g n (a.write now len s).2 :=
  Seq_of_nreq (nr_write ..)

@[simp] theorem tg_writeToPair (a : Agent) (now id len : Nat) (s : Bool) : (a.writeToPair now id len s).1.tag = a.tag :=
  congrArg Core.tag (core_writeToPair a now id len s)
@[simp] theorem nt_writeToPair (a : Agent) (now id len : Nat) (s : Bool) : (a.writeToPair now id len s).1.nextTid = a.nextTid := by
  unfold Agent.writeToPair
  tr_cases
@[simp] theorem nr_writeToPair (a : Agent) (now id len : Nat) (s : Bool) : nreq (a.writeToPair now id len s).2 = 0 := by
  unfold Agent.writeToPair
  tr_cases
@[simp] theorem sq_writeToPair (g n : Nat) (a : Agent) (now id len : Nat) (s : Bool) : Seq g n (a.writeToPair now id len s).2 :=
  Seq_of_nreq (nr_writeToPair ..)

@[simp] theorem tg_inboundData (a : Agent) (now : Nat) (l : Cand) (src len : Nat) : (a.inboundData now l src len).1.tag = a.tag :=
  congrArg Core.tag (core_inboundData a now l src len)
@[simp] theorem nt_inboundData (a : Agent) (now : Nat) (l : Cand) (src len : Nat) : (a.inboundData now l src len).1.nextTid = a.nextTid := by
  unfold Agent.inboundData Agent.enqueue
  tr_cases
@[simp] theorem nr_inboundData (a : Agent) (now : Nat) (l : Cand) (src len : Nat) : nreq (a.inboundData now l src len).2 = 0 := by
  unfold Agent.inboundData
  tr_cases
@[simp] theorem sq_inboundData (g n : Nat) (a : Agent) (now : Nat) (l : Cand) (src len : Nat) : Seq g n (a.inboundData now l src len).2 :=
  Seq_of_nreq (nr_inboundData ..)

@[simp] theorem nt_doRestart (a : Agent) (now : Nat) (x p : String) : (a.doRestart now x p).1.nextTid = a.nextTid := by
  unfold Agent.doRestart
  tr_cases
@[simp] theorem nr_doRestart (a : Agent) (now : Nat) (x p : String) : nreq (a.doRestart now x p).2 = 0 := by
  unfold Agent.doRestart
  tr_cases
@[simp] theorem sq_doRestart (g n : Nat) (a : Agent) (now : Nat) (x p : String) : Seq g n (a.doRestart now x p).2 :=
  Seq_of_nreq (nr_doRestart ..)

/-! ### the whole step -/

/-- the counter moves by the number of Binding requests emitted -/
theorem nt_step (a : Agent) (e : Ev) : (step a e).1.nextTid = a.nextTid + nreq (step a e).2 := by
  cases e with
  | addLocal now c => simp [step]
  | addRemote now c => simp only [step]; tr_cases
  | start now ctl ru rp => simp only [step]; tr_cases
  | setRemoteCreds ru rp => simp only [step]; tr_cases
  | advance now => simp [step]
  | inbound now la src m => simp only [step]; tr_cases
  | inboundData now la src len s => simp only [step]; tr_cases
  | write now len s => simp [step]
  | writeToPair now id len s => simp [step]
  | read => simp only [step]; tr_cases
  | renominate now la ri v => simp only [step]; tr_cases
  | restart now u p => simp only [step]; tr_cases
  | close => simp only [step]; tr_cases

/-- the Binding requests emitted by a step are numbered consecutively from the counter -/
theorem sq_step (a : Agent) (e : Ev) : Seq a.tag a.nextTid (step a e).2 := by
  cases e with
  | addLocal now c => simp [step]
  | addRemote now c => simp only [step]; tr_cases
  | start now ctl ru rp => simp only [step]; tr_cases
  | setRemoteCreds ru rp => simp only [step]; tr_cases
  | advance now => simp [step]
  | inbound now la src m => simp only [step]; tr_cases
  | inboundData now la src len s => simp only [step]; tr_cases
  | write now len s => simp [step]
  | writeToPair now id len s => simp [step]
  | read => simp only [step]; tr_cases
  | renominate now la ri v => simp only [step]; tr_cases
  | restart now u p => simp only [step]; tr_cases
  | close => simp only [step]; tr_cases

/-! ## Part 4 — outstanding transactions: old, or without a nomination value

`NP P a`: every outstanding transaction satisfies `P` or carries no nomination value.  Every helper of `step` below the
timer ticks keeps it: they hand `sendRequest` no value (the values come from `step` on `.renominate` and from
`Agent.autoIssue`, the automatic check inside `contactCandidates`). -/

def NP (P : Pending → Prop) (a : Agent) : Prop := ∀ pd ∈ a.pending, P pd ∨ pd.nom = none

theorem NP.mono {P : Pending → Prop} {a b : Agent} (h : NP P a) (hp : ∀ pd ∈ b.pending, pd ∈ a.pending) : NP P b :=
  fun pd hpd => h pd (hp pd hpd)

@[simp] theorem NP_mk (P : Pending → Prop) (cfg tieBreaker controlling started closed connState localUfrag localPwd
    remoteUfrag remotePwd locals remotes checklist nextPairID nextUid nextTid tag pending selected selStart nominatedPair
    lastNomination lastSeen checkingStart checkingTimeout forcePending nextTick caches rx connBytesSent connBytesRecv
    onConnectedFired generation nomIssued lastRenomTime nomCounter) :
    NP P (Agent.mk cfg tieBreaker controlling started closed connState localUfrag localPwd remoteUfrag remotePwd
    locals remotes checklist nextPairID nextUid nextTid tag pending selected selStart nominatedPair lastNomination answeredNomination
    lastSeen checkingStart checkingTimeout forcePending nextTick caches rx connBytesSent connBytesRecv
    onConnectedFired generation nomIssued lastRenomTime nomCounter) ↔ ∀ pd ∈ pending, P pd ∨ pd.nom = none := Iff.rfl

@[simp] theorem NP_eta (P : Pending → Prop) (a : Agent) : (∀ pd ∈ a.pending, P pd ∨ pd.nom = none) ↔ NP P a := Iff.rfl

@[simp] theorem np_modPair (P : Pending → Prop) (a : Agent) (id : Nat) (f : Pair → Pair) :
    NP P (a.modPair id f) ↔ NP P a := Iff.rfl
@[simp] theorem np_seenLocalSent (P : Pending → Prop) (a : Agent) (x n : Nat) :
    NP P (a.seenLocalSent x n) ↔ NP P a := Iff.rfl
@[simp] theorem np_seenRemoteRecv (P : Pending → Prop) (a : Agent) (x n : Nat) :
    NP P (a.seenRemoteRecv x n) ↔ NP P a := Iff.rfl
@[simp] theorem np_requestCheck (P : Pending → Prop) (a : Agent) : NP P a.requestCheck ↔ NP P a := Iff.rfl
@[simp] theorem np_addPair (P : Pending → Prop) (a : Agent) (l r : Cand) :
    NP P (a.addPair l r).1 ↔ NP P a := Iff.rfl
@[simp] theorem np_resetSelector (P : Pending → Prop) (a : Agent) (n : Nat) :
    NP P (a.resetSelector n) ↔ NP P a := Iff.rfl

@[simp] theorem np_wipe (P : Pending → Prop) (a : Agent) (h : NP P a) : NP P a.wipe :=
  NP.mono h (fun _ hp => by cases hp)

@[simp] theorem np_invalidatePending (P : Pending → Prop) (a : Agent) (now : Nat) (h : NP P a) :
    NP P (a.invalidatePending now) :=
  NP.mono h (fun _ hp => mem_invalidatePending hp)

@[simp] theorem np_setConnState (P : Pending → Prop) (a : Agent) (s : ConnState) (h : NP P a) :
    NP P (a.setConnState s).1 := by
  unfold Agent.setConnState
  ok_cases

@[simp] theorem np_select (P : Pending → Prop) (a : Agent) (id : Nat) (h : NP P a) : NP P (a.select id).1 := by
  unfold Agent.select
  ok_cases

@[simp] theorem np_sendRequest (P : Pending → Prop) (a : Agent) (now : Nat) (l r : Cand) (u : Bool)
    (h : NP P a) : NP P (a.sendRequest now l r u none).1 := by
  unfold NP
  rw [sendRequest_pending]
  intro pd hpd
  rcases List.mem_append.mp hpd with hpd | hpd
  · exact h pd (mem_invalidatePending hpd)
  · right
    rw [List.mem_singleton.mp hpd]

@[simp] theorem np_ping (P : Pending → Prop) (a : Agent) (now : Nat) (l r : Cand) (h : NP P a) :
    NP P (a.ping now l r).1 := np_sendRequest P a now l r false h

@[simp] theorem np_sendSuccess (P : Pending → Prop) (a : Agent) (now : Nat) (m : Msg) (l r : Cand) (h : NP P a) :
    NP P (a.sendSuccess now m l r).1 := by
  unfold Agent.sendSuccess
  ok_cases

@[simp] theorem np_nominate (P : Pending → Prop) (a : Agent) (now : Nat) (p : Pair) (h : NP P a) :
    NP P (a.nominate now p).1 := by
  unfold Agent.nominate
  ok_cases

@[simp] theorem np_keepalive (P : Pending → Prop) (a : Agent) (now : Nat) (h : NP P a) :
    NP P (a.keepalive now).1 := by
  unfold Agent.keepalive
  ok_cases

@[simp] theorem np_validateSelected (P : Pending → Prop) (a : Agent) (now : Nat) (h : NP P a) :
    NP P (a.validateSelected now).1 := by
  unfold Agent.validateSelected
  ok_cases

@[simp] theorem np_pingAll (P : Pending → Prop) (a : Agent) (now : Nat) (h : NP P a) :
    NP P (a.pingAll now).1 := by
  unfold Agent.pingAll
  refine IceProofs.List.foldl_inv (fun acc : Agent × List Out => NP P acc.1) _ _ _ h ?_
  intro acc id h
  obtain ⟨b, o⟩ := acc
  simp only at h ⊢
  ok_cases

@[simp] theorem np_replaceRemoteInPairs (P : Pending → Prop) (a : Agent) (old c : Cand) (h : NP P a) :
    NP P (a.replaceRemoteInPairs old c).1 := by
  unfold Agent.replaceRemoteInPairs
  refine IceProofs.List.foldl_inv (fun acc : Agent × List Out => NP P acc.1) _ _ _ h ?_
  intro acc id h
  obtain ⟨b, o⟩ := acc
  simp only at h ⊢
  ok_cases

@[simp] theorem np_addRemoteCandidate (P : Pending → Prop) (a : Agent) (c : Cand) (h : NP P a) :
    NP P (a.addRemoteCandidate c).1 := by
  unfold Agent.addRemoteCandidate
  split
  · exact h
  split
  · exact h
  simp only [np_requestCheck]
  refine IceProofs.List.foldl_inv (fun b : Agent => NP P b) _ _ _ ?_ ?_
  · simp only [NP_mk, NP_eta]
    refine IceProofs.List.foldl_inv (fun acc : Agent × List Out => NP P acc.1) _ _ _ ?_ ?_
    · simpa using h
    · intro acc old h
      simp [h]
  · intro b l h
    split <;> simp [h]

@[simp] theorem np_addLocalCandidate (P : Pending → Prop) (a : Agent) (c : Cand) (h : NP P a) :
    NP P (a.addLocalCandidate c).1 := by
  unfold Agent.addLocalCandidate
  split
  · exact h
  split
  · exact h
  simp only [np_requestCheck]
  refine IceProofs.List.foldl_inv (fun b : Agent => NP P b) _ _ _ ?_ ?_
  · simpa using h
  · intro b l h
    simp [h]

@[simp] theorem np_takePending (P : Pending → Prop) (a : Agent) (now tid : Nat) (h : NP P a) :
    NP P (a.takePending now tid).1 := by
  have h1 := np_invalidatePending P a now h
  unfold Agent.takePending
  simp only []
  split
  · exact NP.mono h1 (fun _ hp => (List.mem_filter.mp hp).1)
  · exact h1

@[simp] theorem np_handleSuccess (P : Pending → Prop) (a : Agent) (now : Nat) (m : Msg) (l r : Cand) (src : Nat)
    (h : NP P a) : NP P (a.handleSuccess now m l r src).1 := by
  unfold Agent.handleSuccess
  ok_cases

@[simp] theorem np_cldNominate (P : Pending → Prop) (a : Agent) (m : Msg) (id : Nat) (h : NP P a) :
    NP P (cldNominate a m id).1 := by
  unfold cldNominate
  ok_cases

@[simp] theorem np_cldProceed (P : Pending → Prop) (a : Agent) (now : Nat) (m : Msg) (l r : Cand) (id : Nat)
    (h : NP P a) : NP P (cldProceed a now m l r id).1 := by
  unfold cldProceed
  ok_cases
  exact np_ping P _ now l r (np_sendSuccess P _ now m l r (np_cldNominate P a m id h))

@[simp] theorem np_ensurePair (P : Pending → Prop) (a : Agent) (l r : Cand) :
    NP P (ensurePair a l r).1 ↔ NP P a := by
  unfold ensurePair
  split <;> simp

@[simp] theorem np_cldHandleRequest (P : Pending → Prop) (a : Agent) (now : Nat) (m : Msg) (l r : Cand)
    (h : NP P a) : NP P (a.cldHandleRequest now m l r).1 := by
  rw [cldHandleRequest_nf]
  simp only []
  split
  · simp [h]
  · exact np_cldProceed _ _ _ _ _ _ _ (by simpa using h)

@[simp] theorem np_ctlHandleRequest (P : Pending → Prop) (a : Agent) (now : Nat) (m : Msg) (l r : Cand)
    (h : NP P a) : NP P (a.ctlHandleRequest now m l r).1 := by
  unfold Agent.ctlHandleRequest
  ok_cases

@[simp] theorem np_handleInbound (P : Pending → Prop) (a : Agent) (now : Nat) (l : Cand) (src : Nat) (m : Msg)
    (h : NP P a) : NP P (a.handleInbound now l src m).1 := by
  unfold Agent.handleInbound
  ok_cases

@[simp] theorem np_writeVia (P : Pending → Prop) (a : Agent) (now : Nat) (p : Pair) (len : Nat) (h : NP P a) :
    NP P (a.writeVia now p len).1 := by
  unfold Agent.writeVia
  ok_cases

@[simp] theorem np_write (P : Pending → Prop) (a : Agent) (now len : Nat) (s : Bool) (h : NP P a) :
    NP P (a.write now len s).1 := by
  unfold Agent.write
  ok_cases

@[simp] theorem np_writeToPair (P : Pending → Prop) (a : Agent) (now id len : Nat) (s : Bool) (h : NP P a) :
    NP P (a.writeToPair now id len s).1 := by
  unfold Agent.writeToPair
  ok_cases

@[simp] theorem np_inboundData (P : Pending → Prop) (a : Agent) (now : Nat) (l : Cand) (src len : Nat)
    (h : NP P a) : NP P (a.inboundData now l src len).1 := by
  unfold Agent.inboundData Agent.enqueue
  ok_cases

@[simp] theorem np_doRestart (P : Pending → Prop) (a : Agent) (now : Nat) (x p : String) (h : NP P a) :
    NP P (a.doRestart now x p).1 := by
  unfold Agent.doRestart
  ok_cases


/-! ## Part 5 — a valued transaction and its request

`VL a r`: every transaction outstanding after `r` that was not outstanding in `a` carries no nomination value, or its
request is among the outputs of `r`: from its source to its destination, with its id and its value.  (`sendRequest` adds the
transaction and emits the request in one go; the value is handed to it only by `step` on `.renominate` and by
`Agent.autoIssue`.) -/

def VL (a : Agent) (r : Agent × List Out) : Prop :=
  ∀ pd ∈ r.1.pending, pd ∈ a.pending ∨ pd.nom = none ∨
    ∃ m, Out.dgram pd.src pd.dest m ∈ r.2 ∧ m.cls = 0 ∧ m.tid = pd.tid ∧ m.nom = pd.nom

theorem VL.refl (a : Agent) : VL a (a, []) := fun _ h => Or.inl h

theorem VL.same (a : Agent) (o : List Out) : VL a (a, o) := fun _ h => Or.inl h

theorem VL.of_np {a : Agent} {r : Agent × List Out} (h : NP (fun pd => pd ∈ a.pending) r.1) : VL a r := by
  intro pd hpd
  rcases h pd hpd with h1 | h1
  · exact Or.inl h1
  · exact Or.inr (Or.inl h1)

theorem np_base (a : Agent) : NP (fun pd => pd ∈ a.pending) a := fun _ h => Or.inl h

theorem VL.seq {a : Agent} {r1 r2 : Agent × List Out} (h1 : VL a r1) (h2 : VL r1.1 r2) : VL a (r2.1, r1.2 ++ r2.2) := by
  intro pd hpd
  rcases h2 pd hpd with h | h | ⟨m, hm, h⟩
  · rcases h1 pd h with h | h | ⟨m, hm, h⟩
    · exact Or.inl h
    · exact Or.inr (Or.inl h)
    · exact Or.inr (Or.inr ⟨m, List.mem_append_left _ hm, h⟩)
  · exact Or.inr (Or.inl h)
  · exact Or.inr (Or.inr ⟨m, List.mem_append_right _ hm, h⟩)

/-- followed by an update that adds no transaction -/
theorem VL.andThen {a b : Agent} {r : Agent × List Out} (h : VL a r) (hp : ∀ pd ∈ b.pending, pd ∈ r.1.pending) :
    VL a (b, r.2) := fun pd hpd => h pd (hp pd hpd)

/-- preceded by an update that adds no transaction -/
theorem VL.after {a b : Agent} {r : Agent × List Out} (hp : ∀ pd ∈ b.pending, pd ∈ a.pending) (h : VL b r) : VL a r := by
  intro pd hpd
  rcases h pd hpd with h | h
  · exact Or.inl (hp pd h)
  · exact Or.inr h

/-- one request, whatever it carries -/
theorem vl_sendRequest (b : Agent) (now : Nat) (l r : Cand) (uc : Bool) (nom : Option Nat) :
    VL b (b.sendRequest now l r uc nom) := by
  intro pd hpd
  rw [sendRequest_pending] at hpd
  rcases List.mem_append.mp hpd with hpd | hpd
  · exact Or.inl (mem_invalidatePending hpd)
  · refine Or.inr (Or.inr ?_)
    rw [List.mem_singleton.mp hpd, sendRequest_out]
    exact ⟨_, List.mem_singleton.mpr rfl, rfl, rfl, rfl⟩

theorem vl_autoRenom (a : Agent) (now : Nat) : VL a (a.autoRenom now) := by
  refine IceProofs.Auto.autoRenom_closed (P := fun x => VL a x) ?_ a (VL.refl a)
  exact {
    mark := fun b o _ _ h _ _ => VL.andThen (r := (b, o)) h (fun _ hp => hp)
    ping := fun b o l r h _ _ => VL.seq (r1 := (b, o)) h (vl_sendRequest b now l r false none)
    time := fun b o h => VL.andThen (r := (b, o)) h (fun _ hp => hp)
    count := fun b o h => VL.andThen (r := (b, o)) h (fun _ hp => hp)
    issue := fun b o l r v h _ _ _ _ _ =>
      VL.andThen (r := ((b.sendRequest now l r true (if v > 0 then some v else none)).1,
          o ++ (b.sendRequest now l r true (if v > 0 then some v else none)).2))
        (VL.seq (r1 := (b, o)) h (vl_sendRequest b now l r true _)) (fun _ hp => hp) }

theorem vl_validateSelected (a : Agent) (now : Nat) : VL a ((a.validateSelected now).1, (a.validateSelected now).2.1) :=
  VL.of_np (np_validateSelected _ a now (np_base a))

theorem vl_valKeep (a : Agent) (now : Nat) : VL a (C03.valKeep a now) := by
  unfold C03.valKeep
  have h1 := vl_validateSelected a now
  generalize a.validateSelected now = r at h1 ⊢
  obtain ⟨a1, o1, ok⟩ := r
  simp only [] at h1 ⊢
  split
  · have h2 : VL a1 (a1.keepalive now) := VL.of_np (np_keepalive _ a1 now (np_base a1))
    generalize a1.keepalive now = r2 at h2 ⊢
    obtain ⟨a2, o2⟩ := r2
    exact VL.seq (r1 := (a1, o1)) h1 h2
  · exact h1

theorem vl_valKeepAuto (a : Agent) (now : Nat) : VL a (C03.valKeepAuto a now) := by
  unfold C03.valKeepAuto
  have h1 := vl_validateSelected a now
  generalize a.validateSelected now = r at h1 ⊢
  obtain ⟨a1, o1, ok⟩ := r
  simp only [] at h1 ⊢
  split
  · have h2 : VL a1 (a1.keepalive now) := VL.of_np (np_keepalive _ a1 now (np_base a1))
    generalize a1.keepalive now = r2 at h2 ⊢
    obtain ⟨a2, o2⟩ := r2
    have h3 := vl_autoRenom a2 now
    generalize a2.autoRenom now = r3 at h3 ⊢
    obtain ⟨a3, o3⟩ := r3
    exact VL.seq (r1 := (a2, o1 ++ o2)) (VL.seq (r1 := (a1, o1)) h1 h2) h3
  · exact h1

theorem vl_contactCandidates (a : Agent) (now : Nat) : VL a (a.contactCandidates now) := by
  unfold Agent.contactCandidates
  split
  · split
    · exact vl_valKeepAuto a now
    · split
      · exact VL.of_np (np_nominate _ a now _ (np_base a))
      · split
        · exact VL.refl _
        · split
          · split
            · split
              · exact VL.of_np (np_nominate _ _ now _ (np_base a))
              · exact VL.of_np (np_pingAll _ a now (np_base a))
            · exact VL.of_np (np_pingAll _ a now (np_base a))
          · exact VL.of_np (np_pingAll _ a now (np_base a))
  · split
    · exact vl_validateSelected a now
    · split
      · exact vl_valKeep a now
      · exact VL.of_np (np_pingAll _ a now (np_base a))

theorem chk_pending (a : Agent) (now : Nat) : (C03.chk a now).pending = a.pending := by
  unfold C03.chk
  split <;> rfl

theorem vl_contact (a : Agent) (now : Nat) : VL a (a.contact now) := by
  rw [C03.contact_eq]
  split
  · exact VL.refl _
  · split
    · exact VL.same a _
    · split
      · exact VL.andThen (r := (C03.chk a now).setConnState .failed)
          (VL.after (fun _ hp => by rw [chk_pending] at hp; exact hp)
            (VL.of_np (np_setConnState _ _ _ (np_base _)))) (fun _ hp => hp)
      · exact VL.andThen (r := (C03.chk a now).contactCandidates now)
          (VL.after (fun _ hp => by rw [chk_pending] at hp; exact hp) (vl_contactCandidates _ now)) (fun _ hp => hp)
    · exact VL.andThen (r := a.contactCandidates now) (vl_contactCandidates a now) (fun _ hp => hp)

theorem vl_runForced (a : Agent) (now : Nat) : VL a (a.runForced now) := by
  unfold Agent.runForced
  split
  · have h := vl_contact { a with forcePending := false } now
    generalize Agent.contact { a with forcePending := false } now = r at h ⊢
    obtain ⟨a1, o1⟩ := r
    exact VL.andThen (r := (a1, o1)) (VL.after (a := a) (fun _ hp => hp) h) (fun _ hp => hp)
  · exact VL.refl _

theorem vl_runTimers (a : Agent) (now fuel : Nat) : VL a (a.runTimers now fuel) := by
  induction fuel generalizing a with
  | zero => exact VL.refl _
  | succ n ih =>
    unfold Agent.runTimers
    split
    · rename_i t _
      split
      · have h1 := vl_contact a t
        generalize a.contact t = r at h1 ⊢
        obtain ⟨a1, o1⟩ := r
        simp only [] at h1 ⊢
        have h2 := ih { a1 with nextTick := some (t + a1.interval) }
        generalize Agent.runTimers { a1 with nextTick := some (t + a1.interval) } now n = r2 at h2 ⊢
        obtain ⟨a2, o2⟩ := r2
        exact VL.seq (r1 := ({ a1 with nextTick := some (t + a1.interval) }, o1))
          (VL.andThen (r := (a1, o1)) h1 (fun _ hp => hp)) h2
      · exact VL.refl _
    · exact VL.refl _

/-- **Every step**: a transaction with a nomination value that the step adds has its request among the step's outputs. -/
theorem step_valued_link (a : Agent) (e : Ev) : VL a (step a e) := by
  cases e with
  | addLocal now c =>
    simp only [step]
    have h1 : VL a (a.addLocalCandidate c) := VL.of_np (np_addLocalCandidate _ a c (np_base a))
    generalize a.addLocalCandidate c = r1 at h1 ⊢
    obtain ⟨a1, o1⟩ := r1
    have h2 := vl_runForced a1 now
    generalize a1.runForced now = r2 at h2 ⊢
    obtain ⟨a2, o2⟩ := r2
    exact VL.seq (r1 := (a1, o1)) h1 h2
  | addRemote now c =>
    simp only [step]
    split
    · exact VL.same a _
    · split
      · exact VL.refl _
      · have h1 : VL a ((a.addRemoteCandidate c).1, (a.addRemoteCandidate c).2.1) :=
          VL.of_np (np_addRemoteCandidate _ a c (np_base a))
        generalize a.addRemoteCandidate c = r1 at h1 ⊢
        obtain ⟨a1, o1, x⟩ := r1
        have h2 := vl_runForced a1 now
        generalize a1.runForced now = r2 at h2 ⊢
        obtain ⟨a2, o2⟩ := r2
        exact VL.seq (r1 := (a1, o1)) h1 h2
  | start now ctl ru rp =>
    rw [C03.step_start_eq]
    split
    · exact VL.same a _
    · split
      · exact VL.same a _
      · split
        · exact VL.same a _
        · split
          · exact VL.same a _
          · unfold C03.startCore
            have h1 : VL a (C03.startA1 ((C03.startA0 a now ctl ru rp).setConnState .checking).1,
                ((C03.startA0 a now ctl ru rp).setConnState .checking).2 ++ [.res "ok"]) :=
              VL.of_np (by
                show NP _ ((C03.startA0 a now ctl ru rp).setConnState .checking).1
                exact np_setConnState _ _ _ (np_base a))
            have h2 := vl_runForced (C03.startA1 ((C03.startA0 a now ctl ru rp).setConnState .checking).1) now
            exact VL.seq h1 h2
  | setRemoteCreds ru rp => exact VL.of_np (by simp only [step]; have := np_base a; ok_cases)
  | advance now => exact vl_runTimers a now 100000
  | inbound now la src m =>
    simp only [step]
    split
    · exact VL.refl _
    · split
      · exact VL.refl _
      · rename_i l _
        have h1 : VL a (a.handleInbound now l src m) := VL.of_np (np_handleInbound _ a now l src m (np_base a))
        generalize a.handleInbound now l src m = r1 at h1 ⊢
        obtain ⟨a1, o1⟩ := r1
        have h2 := vl_runForced a1 now
        generalize a1.runForced now = r2 at h2 ⊢
        obtain ⟨a2, o2⟩ := r2
        exact VL.seq (r1 := (a1, o1)) h1 h2
  | inboundData now la src len s => exact VL.of_np (by simp only [step]; have := np_base a; ok_cases)
  | write now len s => exact VL.of_np (by have := np_base a; simp [step, this])
  | writeToPair now id len s => exact VL.of_np (by have := np_base a; simp [step, this])
  | read cap => exact VL.of_np (by simp only [step]; have := np_base a; ok_cases)
  | renominate now la ri v =>
    by_cases hc : a.controlling = true
    · by_cases he : a.cfg.enableRenomination = true
      · cases hl : a.localByAddr la with
        | none => simp only [step, hc, he, hl, Bool.not_true, Bool.false_eq_true, if_false]; exact VL.same a _
        | some l =>
          cases hr : a.remotes[ri]? with
          | none => simp only [step, hc, he, hl, hr, Bool.not_true, Bool.false_eq_true, if_false]; exact VL.same a _
          | some r =>
            cases hp : a.findPair l r with
            | none => simp only [step, hc, he, hl, hr, hp, Bool.not_true, Bool.false_eq_true, if_false]; exact VL.same a _
            | some p =>
              rw [step_renominate_ok a now la ri v l r hc he hl hr (by rw [hp]; rfl)]
              have h := vl_sendRequest a now l r true (if v > 0 then some v else none)
              intro pd hpd
              rcases h pd hpd with h | h | ⟨m, hm, h⟩
              · exact Or.inl h
              · exact Or.inr (Or.inl h)
              · exact Or.inr (Or.inr ⟨m, List.mem_append_left _ hm, h⟩)
      · have he' : a.cfg.enableRenomination = false := by simpa using he
        simp only [step, hc, he', Bool.not_true, Bool.not_false, Bool.false_eq_true, if_false, if_true]; exact VL.same a _
    · have hc' : a.controlling = false := by simpa using hc
      simp only [step, hc', Bool.not_false, if_true]; exact VL.same a _
  | restart now u p => exact VL.of_np (by simp only [step]; have := np_base a; ok_cases)
  | close => exact VL.of_np (by simp only [step]; have := np_base a; ok_cases)

/-- in a sequence numbered consecutively two requests with the same id are the same message -/
theorem Seq.tid_inj {g n : Nat} {o : List Out} (h : Seq g n o) {f t f' t' : Nat} {m m' : Msg}
    (hm : Out.dgram f t m ∈ o) (hm' : Out.dgram f' t' m' ∈ o) (hc : m.cls = 0) (hc' : m'.cls = 0)
    (ht : m.tid = m'.tid) : m = m' := by
  induction o generalizing n with
  | nil => cases hm
  | cons x o ih =>
    cases hr : rq x with
    | none =>
      have hx : ∀ {f t : Nat} {m : Msg}, Out.dgram f t m ∈ x :: o → m.cls = 0 → Out.dgram f t m ∈ o := by
        intro f t m hmem hcls
        rcases List.mem_cons.mp hmem with e | e
        · subst e
          simp [rq, hcls] at hr
        · exact e
      simp only [Seq, hr] at h
      exact ih h (hx hm hc) (hx hm' hc')
    | some tx =>
      simp only [Seq, hr] at h
      obtain ⟨h0, h1⟩ := h
      rcases List.mem_cons.mp hm with e | e <;> rcases List.mem_cons.mp hm' with e' | e'
      · rw [← e] at e'; cases e'; rfl
      · subst e
        obtain ⟨k, hk, hk1, _⟩ := h1.mem e' hc'
        have : tx = m.tid := by simp [rq, hc] at hr; exact hr.symm
        omega
      · subst e'
        obtain ⟨k, hk, hk1, _⟩ := h1.mem e hc
        have : tx = m'.tid := by simp [rq, hc'] at hr; exact hr.symm
        omega
      · exact ih h1 e e'

end IceProofs.C20S
