import IceSpec.C17
