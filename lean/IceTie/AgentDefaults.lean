import IceModel.AgentCore
import IceGen.T_Round3
/-!
# Tie T, round 3: the defaults table of agent_config.go

`AgentConfig.initWithDefaults` is regenerated from the Go source in three groups of fields (`IceGen.T_Round3`,
`agentConfig_initWithDefaults_{nomination,timing,misc}`; the translator inlines the constants `defaultKeepaliveInterval`, …, so
a changed constant changes the generated term).  Each field is assigned exactly once: the default when the option pointer is
nil, the pointed-to value otherwise.  `defaults_model` states that the defaults are the field defaults of the model's `Config`
(ns), which every model agent starts from.
-/
namespace IceTie.AgentDefaults
open IceModel IceModel.AgentCore

def setI (f : String) (nil : Bool) (dflt v : Int64) : Eff := Eff.set f (Val.i (if nil then dflt else v).toInt)
def setN (f : String) (nil : Bool) (dflt v : UInt16) : Eff := Eff.set f (Val.n (if nil then dflt else v).toNat)

/-- **T: `initWithDefaults`, nomination group**: `maxBindingRequests` 7; acceptance waits host 0, srflx 500 ms, prflx 1 s,
relay `defaultRelayAcceptanceMinWaitFor(candidateTypes)` -/
theorem initWithDefaults_nomination_tie (n1 : Bool) (v1 : UInt16) (n2 : Bool) (v2 : Int64) (n3 : Bool) (v3 : Int64)
    (n4 : Bool) (v4 : Int64) (n5 : Bool) (v5 relayDefault : Int64) :
    IceGen.agentConfig_initWithDefaults_nomination n1 v1 n2 v2 n3 v3 n4 v4 n5 v5 relayDefault
      = [setN "agent.maxBindingRequests" n1 7 v1, setI "agent.hostAcceptanceMinWait" n2 0 v2,
         setI "agent.srflxAcceptanceMinWait" n3 500000000 v3, setI "agent.prflxAcceptanceMinWait" n4 1000000000 v4,
         setI "agent.relayAcceptanceMinWait" n5 relayDefault v5] := by
  cases n1 <;> cases n2 <;> cases n3 <;> cases n4 <;> cases n5 <;> rfl

/-- **T: `defaultRelayAcceptanceMinWaitFor`**: 0 for a relay-only agent (`CandidateTypeRelay` = 4), 2 s otherwise -/
theorem defaultRelayAcceptanceMinWaitFor_tie (one : Bool) (ty0 : UInt8) :
    IceGen.defaultRelayAcceptanceMinWaitFor one ty0 = if one && ty0 == 4 then 0 else 2000000000 := rfl

/-- **T: `initWithDefaults`, timing group**: disconnected 5 s (and whether it was given explicitly), failed 25 s, keepalive
2 s, check interval 200 ms -/
theorem initWithDefaults_timing_tie (n1 : Bool) (v1 : Int64) (n2 : Bool) (v2 : Int64) (n3 : Bool) (v3 : Int64)
    (n4 : Bool) (v4 : Int64) :
    IceGen.agentConfig_initWithDefaults_timing n1 v1 n2 v2 n3 v3 n4 v4
      = [setI "agent.disconnectedTimeout" n1 5000000000 v1, Eff.set "agent.disconnectedTimeoutExplicit" (Val.b (!n1)),
         setI "agent.failedTimeout" n2 25000000000 v2, setI "agent.keepaliveInterval" n3 2000000000 v3,
         setI "agent.checkInterval" n4 200000000 v4] := by
  cases n1 <;> cases n2 <;> cases n3 <;> cases n4 <;> rfl

/-- **T: `initWithDefaults`, remaining fields**: STUN gather timeout 5 s, TCP priority offset 27, candidate types -/
theorem initWithDefaults_misc_tie (n1 : Bool) (v1 : Int64) (n2 : Bool) (v2 : UInt16) (noTypes : Bool) :
    IceGen.agentConfig_initWithDefaults_misc n1 v1 n2 v2 noTypes
      = [setI "agent.stunGatherTimeout" n1 5000000000 v1, setN "agent.tcpPriorityOffset" n2 27 v2,
         Eff.set "agent.candidateTypes" (Val.s (if noTypes then "defaultCandidateTypes()" else "config.CandidateTypes"))] := by
  cases n1 <;> cases n2 <;> cases noTypes <;> rfl

/-- the model's `Config` starts from the same table: with every option nil (and a non-relay-only agent) the values the code
assigns are the field defaults of `IceModel.AgentCore.Config` -/
theorem defaults_model (v : Int64) (w : UInt16) :
    IceGen.agentConfig_initWithDefaults_nomination true w true v true v true v true v (IceGen.defaultRelayAcceptanceMinWaitFor false 0)
      = [Eff.set "agent.maxBindingRequests" (Val.n ({} : Config).maxBindingRequests),
         Eff.set "agent.hostAcceptanceMinWait" (Val.i ({} : Config).hostWait),
         Eff.set "agent.srflxAcceptanceMinWait" (Val.i ({} : Config).srflxWait),
         Eff.set "agent.prflxAcceptanceMinWait" (Val.i ({} : Config).prflxWait),
         Eff.set "agent.relayAcceptanceMinWait" (Val.i ({} : Config).relayWait)] ∧
    IceGen.agentConfig_initWithDefaults_timing true v true v true v true v
      = [Eff.set "agent.disconnectedTimeout" (Val.i ({} : Config).disconnectedTimeout),
         Eff.set "agent.disconnectedTimeoutExplicit" (Val.b ({} : Config).disconnectedExplicit),
         Eff.set "agent.failedTimeout" (Val.i ({} : Config).failedTimeout),
         Eff.set "agent.keepaliveInterval" (Val.i ({} : Config).keepaliveInterval),
         Eff.set "agent.checkInterval" (Val.i ({} : Config).checkInterval)] := by
  rw [initWithDefaults_nomination_tie, initWithDefaults_timing_tie]
  unfold setI setN
  simp only [if_true]
  constructor <;> decide

end IceTie.AgentDefaults
