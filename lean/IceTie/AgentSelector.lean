import IceProofs.AgentC20Accept
import IceGen.T_Select
/-!
# Tie T for `ContactCandidates` and `HandleBindingRequest` of both selectors, `checkForAutomaticRenomination` (selection.go) and `shouldRenominate` (agent.go)

Regenerated on every run in effect mode (`IceGen.T_Select`): the list of calls / field assignments in program order as a
function of the values read.  The theorems give the list for ALL arguments, in the shape of the model's handlers
(`Agent.contactCandidates`, `Agent.ctlHandleRequest`, and `cldHandleRequest` = `shouldAcceptNomination` → `cldNominate` →
success response → triggered check, `IceProofs/AgentC20Accept.lean`), and small lemmas state that the model takes its
decisions by the same tests.
-/
namespace IceTie.AgentSelector
open IceModel IceModel.AgentCore IceProofs.Agent

def c (name : String) : Eff := Eff.call name []

/-! ## `ContactCandidates` -/

/-- **T: `controllingSelector.ContactCandidates`**: with a selected pair validate it and, if it is still valid, keep it alive
(+ the automatic-renomination hooks); else re-send the nomination of the nominated pair; else nominate the best valid pair if
both its candidates are nominatable (marking it nominated and remembering it FIRST); else ping every pair -/
theorem ctlContactCandidates_tie (hasSelected selectedValid autoRenom enableRenom hasNominated hasBestValid localOk remoteOk : Bool) :
    IceGen.controllingSelector_ContactCandidates hasSelected selectedValid autoRenom enableRenom hasNominated hasBestValid
        localOk remoteOk
      = if hasSelected then
          c "validateSelectedPair" :: (if selectedValid then
            [c "checkKeepalive"] ++ (if autoRenom && enableRenom then [c "keepAliveCandidatesForRenomination"] else [])
              ++ [c "checkForAutomaticRenomination"] else [])
        else if hasNominated then [c "nominatePair"]
        else if hasBestValid && localOk && remoteOk then
          [Eff.set "p.nominated" (Val.b true), Eff.set "s.nominatedPair" (Val.s "bestValid"), c "nominatePair"]
        else [c "pingAllCandidates"] := by
  unfold IceGen.controllingSelector_ContactCandidates
  cases hasSelected <;> cases selectedValid <;> cases autoRenom <;> cases enableRenom <;> cases hasNominated <;>
    cases hasBestValid <;> cases localOk <;> cases remoteOk <;> rfl

/-- **T: `controlledSelector.ContactCandidates`** -/
theorem cldContactCandidates_tie (hasSelected selectedValid : Bool) :
    IceGen.controlledSelector_ContactCandidates hasSelected selectedValid
      = if hasSelected then c "validateSelectedPair" :: (if selectedValid then [c "checkKeepalive"] else [])
        else [c "pingAllCandidates"] := by
  cases hasSelected <;> cases selectedValid <;> rfl

/-- the model's tick takes the same decisions (definitional unfolding of `Agent.contactCandidates`): controlled full agent -/
theorem contactCandidates_controlled (a : Agent) (now : Nat) (hc : a.controlling = false) (hl : a.cfg.lite = false) :
    a.contactCandidates now =
      if a.selected.isSome then
        (if (a.validateSelected now).2.2 then
          (((a.validateSelected now).1.keepalive now).1, (a.validateSelected now).2.1 ++ ((a.validateSelected now).1.keepalive now).2)
         else ((a.validateSelected now).1, (a.validateSelected now).2.1))
      else a.pingAll now := by
  unfold Agent.contactCandidates
  rw [if_neg (by rw [hc]; exact Bool.false_ne_true), if_neg (by rw [hl]; exact Bool.false_ne_true)]

/-- … controlling agent: selected → validate / keepalive / the automatic-renomination block (`Agent.autoRenom` =
`keepAliveCandidatesForRenomination` under the same test `autoRenom && enableRenom`, then `checkForAutomaticRenomination`);
a listed nominated pair → nominate it again; no nominated pair → the best valid pair if both ends are nominatable (marked
nominated and remembered, then nominated), else ping all -/
theorem contactCandidates_controlling (a : Agent) (now : Nat) (hc : a.controlling = true) :
    a.contactCandidates now =
      if a.selected.isSome then
        (if (a.validateSelected now).2.2 then
          ((((a.validateSelected now).1.keepalive now).1.autoRenom now).1,
           (a.validateSelected now).2.1 ++ ((a.validateSelected now).1.keepalive now).2 ++
             (((a.validateSelected now).1.keepalive now).1.autoRenom now).2)
         else ((a.validateSelected now).1, (a.validateSelected now).2.1))
      else match a.nominatedPair.bind a.pairById with
        | some p => a.nominate now p
        | none =>
          match a.nominatedPair with
          | some _ => (a, [])
          | none =>
            match a.bestValid with
            | some p =>
              match a.localOf p.l, a.remoteOf p.r with
              | some l, some r =>
                if a.nominatable now l && a.nominatable now r then
                  ({ (a.modPair p.id fun p => { p with nominated := true }) with nominatedPair := some p.id }).nominate now p
                else a.pingAll now
              | _, _ => a.pingAll now
            | none => a.pingAll now := by
  unfold Agent.contactCandidates
  rw [if_pos hc]
  by_cases hs : a.selected.isSome = true
  · rw [if_pos hs, if_pos hs]
  · rw [if_neg hs, if_neg hs]
    rfl

/-! ## `checkForAutomaticRenomination` and `shouldRenominate` (automatic renomination) -/

/-- **T: `controllingSelector.checkForAutomaticRenomination`**: the only effects of the function are
`s.agent.lastRenominationTime = time.Now()` followed by `s.agent.renominateCandidate(bestPair.Local, bestPair.Remote)` (whose
error is only logged), and they happen iff both options are on, the interval has passed since the selector started, no
automatic renomination happened within the interval, a pair is selected, `findBestCandidatePair` found a pair, and
`shouldRenominate(current, best)` -/
theorem ctlAutoCheck_tie (autoRenom enableRenom : Bool) (sinceStart interval : Int64) (lastZero : Bool) (sinceLast : Int64)
    (hasCurrent hasBest should : Bool) :
    IceGen.controllingSelector_checkForAutomaticRenomination autoRenom enableRenom sinceStart interval lastZero sinceLast
        hasCurrent hasBest should
      = if autoRenom && enableRenom && !decide (sinceStart < interval) && (lastZero || !decide (sinceLast < interval))
            && hasCurrent && hasBest && should
        then [Eff.set "s.agent.lastRenominationTime" (Val.s "now"), c "renominateCandidate(best)"] else [] := by
  unfold IceGen.controllingSelector_checkForAutomaticRenomination
  cases autoRenom <;> cases enableRenom <;> cases (decide (sinceStart < interval)) <;> cases lastZero <;>
    cases (decide (sinceLast < interval)) <;> cases hasCurrent <;> cases hasBest <;> cases should <;> rfl

/-- … the model's `autoCheck` takes the same decisions in the same order (definitional unfolding): the gate `autoDue` is the
conjunction of the first four tests, then the selected pair, the best pair, `shouldRenominate`; the effects are
`lastRenomTime := now` and then `autoIssue` (= `renominateCandidate`) for the best pair's candidates -/
theorem autoCheck_decisions (a : Agent) (now : Nat) :
    a.autoCheck now =
      if a.cfg.autoRenom && a.cfg.enableRenomination && !decide (now - a.selStart < a.cfg.renomInterval) &&
          (match a.lastRenomTime with | none => true | some t => !decide (now - t < a.cfg.renomInterval)) then
        match a.selected.bind a.pairById with
        | none => (a, [])
        | some cur =>
          match a.findBest now with
          | none => (a, [])
          | some best =>
            if a.shouldRenominate now cur best then
              match a.localOf best.l, a.remoteOf best.r with
              | some l, some r => ({ a with lastRenomTime := some now }).autoIssue now l r
              | _, _ => ({ a with lastRenomTime := some now }, [])
            else (a, [])
      else (a, []) := by
  unfold Agent.autoCheck Agent.autoDue
  cases a.cfg.autoRenom <;> cases a.cfg.enableRenomination <;> cases (decide (now - a.selStart < a.cfg.renomInterval)) <;>
    try rfl
  cases a.lastRenomTime with
  | none => rfl
  | some t =>
    by_cases h : now - t < a.cfg.renomInterval
    · simp [h]
    · simp [h]; rfl

/-- **T: `Agent.shouldRenominate`** (the float64 expressions — `CurrentRoundTripTime() > 0`, the conversion of the round-trip
time to a `time.Duration`, the comparison of the two quality scores — are parameters): never for the same pair or a candidate
pair that has not succeeded; else relay → host/host, or both round-trip times measured and the improvement MORE than 10 ms,
or the score test -/
theorem shouldRenominate_tie (curNil candNil samePair : Bool) (candState : Int64) (curLocalTy curRemoteTy candLocalTy candRemoteTy : UInt8)
    (curRTTPos candRTTPos : Bool) (curRTT candRTT : Int64) (scoreBetter : Bool) :
    IceGen.Agent_shouldRenominate curNil candNil samePair candState curLocalTy curRemoteTy candLocalTy candRemoteTy curRTTPos
        candRTTPos curRTT candRTT scoreBetter
      = (!(curNil || candNil || samePair || candState != 4) &&
          (((curLocalTy == 4 || curRemoteTy == 4) && (candLocalTy == 1 && candRemoteTy == 1)) ||
           (curRTTPos && candRTTPos && decide (curRTT - candRTT > 10000000)) || scoreBetter)) := by
  unfold IceGen.Agent_shouldRenominate
  cases curNil <;> cases candNil <;> cases samePair <;> cases (candState != 4) <;> cases (curLocalTy == 4) <;>
    cases (curRemoteTy == 4) <;> cases (candLocalTy == 1) <;> cases (candRemoteTy == 1) <;> cases curRTTPos <;>
    cases candRTTPos <;> cases scoreBetter <;> simp

open IceModel.SoftFloat in
/-- … the model's `shouldRenominate` is the same Boolean function of the model's values (pairs always exist; pair state 4 =
succeeded; candidate types 1 = host, 4 = relay; round-trip times as `seconds rtt`, durations as `durationOfSeconds`, the
scores as `quality` — the float64 arithmetic of `IceModel.SoftFloat`) -/
theorem shouldRenominate_decisions (a : Agent) (now : Nat) (cur cand : Pair) :
    a.shouldRenominate now cur cand =
      (!(a.pairEqual cur cand || cand.state != .succeeded) &&
        (((a.localTy cur == 4 || a.remoteTy cur == 4) && (a.localTy cand == 1 && a.remoteTy cand == 1)) ||
         ((seconds cur.rtt).gt F.zero && (seconds cand.rtt).gt F.zero &&
            decide (durationOfSeconds (seconds cur.rtt) - durationOfSeconds (seconds cand.rtt) > 10000000)) ||
         (a.quality now cand).gt ((a.quality now cur).mul c115))) := by
  unfold Agent.shouldRenominate
  cases (a.pairEqual cur cand || cand.state != .succeeded) <;>
    cases ((a.localTy cur == 4 || a.remoteTy cur == 4) && (a.localTy cand == 1 && a.remoteTy cand == 1)) <;> simp

/-! ## `HandleBindingRequest` -/

/-- **T: `controllingSelector.HandleBindingRequest`**: answer first; a new pair is added and counted; on a listed pair count the
request and, when the pair has succeeded, nothing is nominated and nothing selected, nominate it iff it is the best available
pair and both its candidates are nominatable; finally the application's handler -/
theorem ctlHandleBindingRequest_tie (hasPair : Bool) (pairState : Int64) (hasNominated hasSelected hasBest bestIsPair localOk remoteOk : Bool) :
    IceGen.controllingSelector_HandleBindingRequest hasPair pairState hasNominated hasSelected hasBest bestIsPair localOk remoteOk
      = c "sendBindingSuccess" ::
        (if !hasPair then [c "addPair", c "updateRequestReceived"]
         else c "updateRequestReceived" ::
           ((if pairState == 4 && !hasNominated && !hasSelected && hasBest && bestIsPair && localOk && remoteOk
             then [Eff.set "s.nominatedPair" (Val.s "pair"), c "nominatePair"] else []) ++ [c "customHandler"])) := by
  unfold IceGen.controllingSelector_HandleBindingRequest
  cases hasPair <;> cases (pairState == 4) <;> cases hasNominated <;> cases hasSelected <;> cases hasBest <;>
    cases bestIsPair <;> cases localOk <;> cases remoteOk <;> rfl

/-- … the model's `ctlHandleRequest` nominates under the same test (definitional unfolding) -/
theorem ctlHandleRequest_known_pair (a : Agent) (now : Nat) (m : Msg) (l r : Cand) (p : Pair)
    (hp : (a.sendSuccess now m l r).1.findPair l r = some p) :
    a.ctlHandleRequest now m l r =
      let a1 := (a.sendSuccess now m l r).1
      let o := (a.sendSuccess now m l r).2
      let a2 := a1.modPair p.id fun p => { p with reqRecv := p.reqRecv + 1, gReq := true, gNomReq := p.gNomReq || m.useCand || m.nom.isSome }
      if p.state == .succeeded && a2.nominatedPair.isNone && a2.selected.isNone then
        match a2.bestAvailable with
        | none => (a2, o)
        | some b =>
          if (match a2.localOf b.l, a2.remoteOf b.r with
              | some bl, some br => bl.equal l && br.equal r
              | _, _ => false) && a2.nominatable now l && a2.nominatable now r then
            ((({ a2 with nominatedPair := some p.id }).nominate now p).1, o ++ (({ a2 with nominatedPair := some p.id }).nominate now p).2)
          else (a2, o)
      else (a2, o) := by
  unfold Agent.ctlHandleRequest
  simp only [hp]
  rfl

/-- the nomination of a request as the controlled selector reads it: USE-CANDIDATE or a well-formed nomination attribute -/
def nominated (useCand hasNomAttr nomParseErr : Bool) : Bool := useCand || (hasNomAttr && !nomParseErr)

/-- **T: `controlledSelector.HandleBindingRequest`**, all arguments: find or add the pair, count the request; a nominated
request goes through `shouldAcceptNomination` and, if REJECTED, is only answered; otherwise a lite agent marks the pair
Succeeded; on a succeeded pair `shouldSwitchSelectedPair` decides the selection; on any other pair the nomination is deferred
— unless it has no value and a deferred value is waiting; then the success response, a triggered check iff the agent is full
and the pair has not succeeded or nothing is selected, the application's handler -/
theorem cldHandleBindingRequest_tie (hasPair useCand hasNomAttr nomParseErr accepted lite : Bool) (pairState : Int64)
    (switchOk hasDeferred hasSelected : Bool) :
    IceGen.controlledSelector_HandleBindingRequest hasPair useCand hasNomAttr nomParseErr accepted lite pairState switchOk
        hasDeferred hasSelected
      = (if hasPair then [] else [c "addPair"]) ++ c "updateRequestReceived" ::
        (if nominated useCand hasNomAttr nomParseErr then
          c "shouldAcceptNomination" ::
          (if !accepted then [c "sendBindingSuccess"]
           else
             (if lite then [Eff.set "pair.state" (Val.i 4)] else []) ++
             (if lite || pairState == 4 then (if switchOk then [c "setSelectedPair"] else [])
              else if (hasNomAttr && !nomParseErr) || !hasDeferred then
                [Eff.set "pair.nominateOnBindingSuccess" (Val.b true),
                 Eff.set "pair.deferredNominationValue" (Val.s "nominationValue")]
              else []) ++
             c "sendBindingSuccess" ::
             ((if !lite && (pairState != 4 || !hasSelected) then [c "pingCandidate"] else []) ++ [c "customHandler"]))
         else
           c "sendBindingSuccess" ::
           ((if !lite && (pairState != 4 || !hasSelected) then [c "pingCandidate"] else []) ++ [c "customHandler"])) := by
  unfold IceGen.controlledSelector_HandleBindingRequest nominated
  have hne : (pairState != 4) = !(pairState == 4) := rfl
  simp only [hne]
  generalize (pairState == 4) = st
  have h44 : ((4 : Int64) == 4) = true := by decide
  simp only [h44]
  cases hasPair <;> cases useCand <;> cases hasNomAttr <;> cases nomParseErr <;> cases accepted <;> cases lite <;>
    cases st <;> cases switchOk <;> cases hasDeferred <;> cases hasSelected <;> rfl

/-- the model's deferral rule and triggered-check rule are these tests (definitional unfolding of `cldNominate` / `cldProceed`) -/
theorem cldNominate_not_succeeded (a : Agent) (m : Msg) (id : Nat) (p : Pair) (hn : (m.useCand || m.nom.isSome) = true)
    (hl : a.cfg.lite = false) (hp : a.pairById id = some p) (hs : (p.state == PairState.succeeded) = false) :
    cldNominate a m id =
      if m.nom.isSome || p.deferredNom.isNone then
        (a.modPair id fun p => { p with nomOnSuccess := true, deferredNom := m.nom }, [])
      else (a, []) := by
  unfold cldNominate
  simp only [hn, hl, if_true, Bool.false_eq_true, if_false, hp, hs]

theorem cldProceed_triggered_check (a : Agent) (now : Nat) (m : Msg) (l r : Cand) (id : Nat) :
    cldProceed a now m l r id =
      let a1 := (cldNominate a m id).1
      let a2 := (a1.sendSuccess now m l r).1
      let o2 := match a2.pairById id with
        | some p => if !a2.cfg.lite && (p.state != PairState.succeeded || a2.selected.isNone) then a2.ping now l r else (a2, [])
        | none => (a2, [])
      (o2.1, (cldNominate a m id).2 ++ (a1.sendSuccess now m l r).2 ++ o2.2) := by
  unfold cldProceed
  rfl

end IceTie.AgentSelector
