import IceModel.Gather
import IceGen.T_Gather
/-!
# Tie T for the address-class and network-type tests of gathering (net.go, gather.go, networktype.go, addr.go)

Regenerated from the Go source on every run (`IceGen.T_Gather`):

* `isSupportedIPv6Partial` (net.go) — the byte tests of the RFC 8445 §5.1.1.1 exclusions;
* `shouldFilterLocationTrackedIP`, `shouldFilterLocationTracked` (gather.go), `isIPv6LinkLocal` (addr.go);
* `supportedNetworkTypes`, `determineNetworkType` (networktype.go), `configuredNetworkTypes`,
  `networkTypeEnabled`, `hostNetworkTypeEnabled` (gather.go).

The `Gather` model works on address CLASSES (`AddrClass`).  What a class means in bytes is written down here
once (`Bytes6`, `LinkLocal`: the ranges of RFC 4291 / 3879 / 3927, the same ranges as the harness's independent
classifier `gTok`), and the theorems say: for EVERY address whose bytes lie in the range of its class, the
regenerated Go predicate returns what the model's class predicate (`supported6`, `isLinkLocal6`) returns.
The network-type functions are proved equal to the model's `hostNetEnabled` / `configured` for all lists.
A changed constant, mask, comparison or branch in the Go source changes the generated term and these
theorems stop checking.
-/
namespace IceTie.Gather
open IceModel.Gather

/-! ## `isSupportedIPv6Partial` -/

set_option maxRecDepth 20000 in
theorem and192 : ∀ n : Nat, n < 256 → ((n &&& 192 == 192) = decide (n ≥ 192)) := by decide

theorem u8_beq (x y : UInt8) : (x == y) = (x.toNat == y.toNat) := by
  by_cases h : x = y
  · subst h; rw [beq_self_eq_true, beq_self_eq_true]
  · have : x.toNat ≠ y.toNat := fun e => h (UInt8.toNat_inj.mp e)
    rw [beq_eq_false_iff_ne.mpr h, beq_eq_false_iff_ne.mpr this]

theorem siteLocalMask (b : UInt8) : ((b &&& 192) == 192) = decide (b.toNat ≥ 192) := by
  rw [u8_beq, UInt8.toNat_and]
  exact and192 b.toNat b.toNat_lt

/-- the regenerated function, explicitly, for ALL arguments: a 16-byte address whose first twelve bytes are
not all zero and which is not in `fec0::/10` (first byte `fe`, top two bits of the second set) -/
theorem isSupportedIPv6Partial_explicit (lenIP : Int64) (zeros12 : Bool) (b0 b1 : UInt8) :
    IceGen.isSupportedIPv6Partial lenIP zeros12 b0 b1
      = (lenIP == 16 && !zeros12 && !(b0.toNat == 254 && decide (b1.toNat ≥ 192))) := by
  unfold IceGen.isSupportedIPv6Partial
  rw [siteLocalMask, u8_beq, show (254 : UInt8).toNat = 254 from rfl]
  generalize (b0.toNat == 254) = p
  generalize decide (b1.toNat ≥ 192) = q
  by_cases h : lenIP = 16
  · subst h
    cases zeros12 <;> cases p <;> cases q <;> decide
  · have e : (lenIP == 16) = false := beq_eq_false_iff_ne.mpr h
    have e' : (lenIP != 16) = true := by simp [bne, e]
    rw [e, e']
    rfl

/-- What the bytes of a 16-byte address of IPv6 class `c` look like: `zeros12` = "bytes 0–11 are zero",
`b0`, `b1` = the first two bytes.  `u6` `::`, `l6` `::1`, `c6` `::a.b.c.d` lie in `::/96`; `k6` = `fe80::/10`;
`s6` = `fec0::/10`; the global / unique-local / reflexive classes `g6`, `x6` are outside `::/96` and outside
`fe80::/9`.  IPv4 classes have no 16-byte form that reaches the function (`To4() != nil` addresses are
unmapped first). -/
def Bytes6 (c : AddrClass) (zeros12 : Bool) (b0 b1 : UInt8) : Prop :=
  match c with
  | .u6 | .l6 | .c6 => zeros12 = true
  | .k6 => zeros12 = false ∧ b0.toNat = 254 ∧ 128 ≤ b1.toNat ∧ b1.toNat < 192
  | .s6 => zeros12 = false ∧ b0.toNat = 254 ∧ 192 ≤ b1.toNat
  | .g6 | .x6 => zeros12 = false ∧ ¬ (b0.toNat = 254 ∧ 128 ≤ b1.toNat)
  | _ => False

/-- for EVERY address in the byte range of its class the Go function returns the model's `supported6` -/
theorem isSupportedIPv6Partial_tie (c : AddrClass) (zeros12 : Bool) (b0 b1 : UInt8) (h : Bytes6 c zeros12 b0 b1) :
    IceGen.isSupportedIPv6Partial 16 zeros12 b0 b1 = c.supported6 := by
  rw [isSupportedIPv6Partial_explicit]
  cases c <;> simp only [Bytes6] at h
  all_goals first
    | (subst h; rfl)
    | (obtain ⟨hz, h0, h1⟩ := h; subst hz
       simp only [AddrClass.supported6, h0]
       first
         | (obtain ⟨h1, h2⟩ := h1
            have : decide (b1.toNat ≥ 192) = false := by simp; omega
            rw [this]; rfl)
         | (have : decide (b1.toNat ≥ 192) = true := by simp; omega
            rw [this]; rfl))
    | (obtain ⟨hz, hn⟩ := h; subst hz
       simp only [AddrClass.supported6]
       by_cases h0 : b0.toNat = 254
       · have : decide (b1.toNat ≥ 192) = false := by
           simp only [decide_eq_false_iff_not]; intro hh; exact hn ⟨h0, by omega⟩
         rw [this]; simp
       · have : (b0.toNat == 254) = false := beq_eq_false_iff_ne.mpr h0
         rw [this]; rfl)

/-- a slice that is not 16 bytes long (a 4-byte IPv4 address) is never "supported IPv6" -/
theorem isSupportedIPv6Partial_len (lenIP : Int64) (zeros12 : Bool) (b0 b1 : UInt8) (h : lenIP ≠ 16) :
    IceGen.isSupportedIPv6Partial lenIP zeros12 b0 b1 = false := by
  rw [isSupportedIPv6Partial_explicit, beq_eq_false_iff_ne.mpr h]; rfl

/-! ## the location-tracking filter -/

/-- `netip.Addr.IsLinkLocalUnicast` of a class: `169.254.0.0/16` and `fe80::/10`; no class of the model is
link-local multicast (`224.0.0.0/24`, `ff02::/16`) -/
def LinkLocalUnicast : AddrClass → Bool
  | .k4 | .k6 => true
  | _ => false

theorem shouldFilterLocationTrackedIP_tie (c : AddrClass) :
    IceGen.shouldFilterLocationTrackedIP c.is6 (LinkLocalUnicast c) false = c.isLinkLocal6 := by
  cases c <;> rfl

/-- the test itself, for all values of the three `netip` predicates (a link-local multicast IPv6 address is
filtered too; the model has no such class) -/
theorem shouldFilterLocationTrackedIP_explicit (is6 llu llm : Bool) :
    IceGen.shouldFilterLocationTrackedIP is6 llu llm = (is6 && (llu || llm)) := rfl

/-- `shouldFilterLocationTracked`: a slice that is not an IP is not filtered, otherwise the test on the UNMAPPED
address (a 16-byte IPv4 address is an IPv4 address) -/
theorem shouldFilterLocationTracked_tie (okSlice filteredUnmapped : Bool) :
    IceGen.shouldFilterLocationTracked okSlice filteredUnmapped = (okSlice && filteredUnmapped) := by
  cases okSlice <;> rfl

/-- `isIPv6LinkLocal` (addr.go; the zone rule of `canonicalAddr` / `addrWithOptionalZone`) is the same test -/
theorem isIPv6LinkLocal_tie (c : AddrClass) :
    IceGen.isIPv6LinkLocal c.is6 (LinkLocalUnicast c) false = c.isLinkLocal6 := by
  cases c <;> rfl

/-! ## network types -/

/-- the Go constants `NetworkTypeUDP4 … NetworkTypeTCP6` (`iota + 1`) -/
def code : NetType → Int64
  | .udp4 => 1 | .udp6 => 2 | .tcp4 => 3 | .tcp6 => 4

theorem code_inj (a b : NetType) : (code a == code b) = (a == b) := by
  cases a <;> cases b <;> rfl

theorem supportedNetworkTypes_tie : IceGen.supportedNetworkTypes = allNetTypes.map code := rfl

/-- `determineNetworkType(network, ip)` on the two transports the gatherers pass (`udp`, `tcp`; `is4` is
`ip.Unmap().Is4()`) is the model's `NetType.ofTransport`, without error -/
theorem determineNetworkType_tie (tcp v6 : Bool) :
    IceGen.determineNetworkType (!tcp) tcp (!v6) = (code (NetType.ofTransport tcp v6), false) := by
  cases tcp <;> cases v6 <;> rfl

/-- any other transport string is an error -/
theorem determineNetworkType_other (is4 : Bool) : (IceGen.determineNetworkType false false is4).2 = true := by
  cases is4 <;> rfl

theorem networkTypeEnabled_tie (nts : List NetType) (t : NetType) :
    IceGen.networkTypeEnabled (nts.map code) (code t) = nts.contains t := by
  unfold IceGen.networkTypeEnabled
  induction nts with
  | nil => rfl
  | cons x xs ih =>
    simp only [List.map_cons, List.any_cons, List.contains_cons, code_inj] at ih ⊢
    rw [show (x == t) = (t == x) from by cases x <;> cases t <;> rfl]
    cases (t == x)
    · simpa using ih
    · simp

/-- `hostNetworkTypeEnabled(networkTypes, network, ip)` composed with the regenerated `determineNetworkType`,
as the code composes them, is the model's `hostNetEnabled` — for every list of network types, transport and
address -/
theorem hostNetworkTypeEnabled_tie (nts : List NetType) (tcp : Bool) (a : Addr) :
    IceGen.hostNetworkTypeEnabled (nts.map code)
        (IceGen.determineNetworkType (!tcp) tcp (!a.cls.is6)).1 (IceGen.determineNetworkType (!tcp) tcp (!a.cls.is6)).2
      = hostNetEnabled nts tcp a := by
  rw [determineNetworkType_tie]
  unfold IceGen.hostNetworkTypeEnabled hostNetEnabled
  simp only [Bool.false_eq_true, if_false]
  exact networkTypeEnabled_tie nts _

/-- a failed `determineNetworkType` disables the candidate -/
theorem hostNetworkTypeEnabled_err (nts : List Int64) (nt : Int64) :
    IceGen.hostNetworkTypeEnabled nts nt true = false := rfl

/-- `configuredNetworkTypes` on the list left by `sanitizeTransportNetworkTypes` (duplicates removed) is the
model's `configured` -/
theorem configuredNetworkTypes_tie (nts : List NetType) :
    IceGen.configuredNetworkTypes (nts.eraseDups.map code) = (configured nts).map code := by
  unfold IceGen.configuredNetworkTypes configured
  cases nts with
  | nil => rfl
  | cons x xs =>
    rw [List.eraseDups_cons]
    rfl

/-- … and for any list: empty means all four, otherwise the list itself -/
theorem configuredNetworkTypes_explicit (nts : List Int64) :
    IceGen.configuredNetworkTypes nts = if nts.isEmpty then [1, 2, 3, 4] else nts := rfl

end IceTie.Gather
