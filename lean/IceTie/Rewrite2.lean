import IceTie.Rewrite
import IceGen.T_Rewrite2
/-!
# Tie T for the remaining pure pieces of the address rewrite rules (external_ip_mapper.go)

Regenerated on every run (`IceGen.T_Rewrite2`): `ruleMappingForLookup`, `addressRewriteRuleMapping.mappingForFamily`,
`addressRewriteMapper.shouldReplace` / `hasCandidateType` (search loops), `maybeMarkEmptyMapping` (effect mode) and ONE
iteration of the loop of `addExternalMappings` (effect mode: which family an external address is filed under and
whether it is filed at all).  Proved equal, for all arguments, to `IceModel.Rewrite.ruleMappingForLookup`,
`shouldReplace`, `hasCandidateType`, the empty-mapping branch of `catchAllMap` (External list empty) / the condition of `pinMap`, and
`targetFam` / the filter of `soleFor`.
-/
namespace IceTie.Rewrite2
open IceModel IceModel.Rewrite

/-! ## lookup -/

/-- `rule.cidr.Contains(locIP)` (read only when the rule has a CIDR) -/
def cidrContains (cidr : Option CIDR) (ip : IP) : Bool :=
  match cidr with
  | some c => c.contains ip
  | none => false

/-- **T: `ruleMappingForLookup`**: a mapping is returned (and `ok`) iff the model's lookup returns one, and it is the mapping
of the local address's family (`mappingForFamily`) -/
theorem ruleMappingForLookup_tie (r : CRule) (ip : IP) (iface : String) :
    IceGen.ruleMappingForLookup r.iface iface r.cidr.isSome (cidrContains r.cidr ip)
        (if IceGen.ruleMapping_mappingForFamily ip.v4 then r.m4 else r.m6).valid
      = ((ruleMappingForLookup r ip iface).isSome, (ruleMappingForLookup r ip iface).isSome) ∧
    (∀ fm, ruleMappingForLookup r ip iface = some fm →
      fm = if IceGen.ruleMapping_mappingForFamily ip.v4 then r.m4 else r.m6) := by
  unfold IceGen.ruleMappingForLookup IceGen.ruleMapping_mappingForFamily ruleMappingForLookup cidrExcludes cidrContains
  constructor
  · by_cases h1 : r.iface = "" <;> by_cases h2 : r.iface = iface <;> cases hc : r.cidr <;> cases hv : ip.v4 <;>
      simp [h1, h2] <;> (try split) <;> (try simp_all) <;>
      (first | (cases hm : r.m4.valid <;> simp_all) | (cases hm : r.m6.valid <;> simp_all))
  · intro fm
    by_cases h1 : r.iface ≠ "" ∧ r.iface ≠ iface
    · simp [h1]
    · rw [if_neg h1]
      split <;> cases hv : ip.v4 <;> simp <;> intros <;> simp_all

/-! ## `shouldReplace`, `hasCandidateType` -/

theorem any_map {α β : Type} (l : List α) (f : α → β) (p : β → Bool) : (l.map f).any p = l.any (fun x => p (f x)) := by
  induction l with
  | nil => rfl
  | cons x xs ih => simp [ih]

theorem any_congr_mem {α : Type} (l : List α) (f g : α → Bool) (h : ∀ x ∈ l, f x = g x) : l.any f = l.any g := by
  induction l with
  | nil => rfl
  | cons x xs ih =>
    rw [List.any_cons, List.any_cons, h x (List.mem_cons_self), ih (fun y hy => h y (List.mem_cons_of_mem _ hy))]

/-- **T: `shouldReplace`** on the modes of the rules stored for the candidate type (mode codes are Go `int`s) -/
theorem shouldReplace_tie (m : Mapper) (ct : Nat) (h : ∀ r ∈ rulesFor m ct, r.mode < 2 ^ 63) :
    IceGen.mapper_shouldReplace ((rulesFor m ct).map (fun r => Int64.ofNat r.mode)) = shouldReplace m ct := by
  unfold IceGen.mapper_shouldReplace shouldReplace
  rw [any_map]
  have : (rulesFor m ct).any (fun r => Int64.ofNat r.mode == 1) = (rulesFor m ct).any (fun r => r.mode == 1) :=
    any_congr_mem _ _ _ (fun r hr => IceTie.Rewrite.ofNat_eq_lit r.mode 1 (h r hr) (by decide))
  rw [this]
  cases (rulesFor m ct).any (fun r => r.mode == 1) <;> rfl

/-- **T: `hasCandidateType`** composed with the regenerated `hasMappings` -/
theorem hasCandidateType_tie (m : Mapper) (ct : Nat) :
    IceGen.mapper_hasCandidateType ((rulesFor m ct).map (fun r => IceGen.ruleMapping_hasMappings r.m4.valid r.m6.valid))
      = hasCandidateType m ct := by
  unfold IceGen.mapper_hasCandidateType hasCandidateType
  rw [any_map]
  have : (rulesFor m ct).any (fun r => IceGen.ruleMapping_hasMappings r.m4.valid r.m6.valid)
      = (rulesFor m ct).any CRule.hasMappings := rfl
  rw [this]
  cases (rulesFor m ct).any CRule.hasMappings <;> rfl

/-! ## `addExternalMappings` (one iteration), `maybeMarkEmptyMapping` -/

def eFor : Eff := Eff.call "for:externals" []
def eEnd : Eff := Eff.call "end:externals" []

/-- `targetLocalIPv4`: the local family an external address is filed under -/
def target (hasLocalAddr localIsIPv4 hasCIDR cidrIsIPv4 isExtIPv4 : Bool) : Bool :=
  if hasLocalAddr then localIsIPv4 else if hasCIDR then cidrIsIPv4 else isExtIPv4

/-- **T: one iteration of `addExternalMappings`**, all arguments: a `/` in the string or an unparsable address is an error;
otherwise the address is filed (`addImplicitMapping(target, hasLocalAddr)`, `added = true`) iff the target family is
allowed by the rule's networks, else skipped -/
theorem addExternalMappings_iter_tie (hasSlash parseErr isExtIPv4 hasLocalAddr localIsIPv4 hasCIDR cidrIsIPv4 a4 a6 : Bool) :
    IceGen.addExternalMappings_iter hasSlash parseErr isExtIPv4 hasLocalAddr localIsIPv4 hasCIDR cidrIsIPv4 a4 a6
      = if hasSlash then ([eFor], (false, "ErrInvalidNAT1To1IPMapping"))
        else if parseErr then ([eFor], (false, "err"))
        else if isFamilyAllowed a4 a6 (target hasLocalAddr localIsIPv4 hasCIDR cidrIsIPv4 isExtIPv4) then
          ([eFor, Eff.call "addImplicitMapping"
              [Val.b (target hasLocalAddr localIsIPv4 hasCIDR cidrIsIPv4 isExtIPv4), Val.b hasLocalAddr], eEnd], (true, "nil"))
        else ([eFor, eEnd], (false, "nil")) := by
  unfold IceGen.addExternalMappings_iter Eff.pre target
  simp only [IceTie.Rewrite.isFamilyAllowed_tie]
  cases hasSlash <;> cases parseErr <;> try rfl
  cases hasLocalAddr <;> cases hasCIDR <;> cases isExtIPv4 <;> cases localIsIPv4 <;> cases cidrIsIPv4 <;>
    cases a4 <;> cases a6 <;> rfl

/-- … for a rule WITHOUT `Local` the target is the model's `targetFam`, and the external address lands in the catch-all list
of family `fam` iff the predicate `soleFor` filters by holds -/
theorem addExternalMappings_iter_model (a4 a6 : Bool) (cidr : Option CIDR) (e : IP) (fam : Bool) :
    target false false cidr.isSome ((cidr.map (·.v4)).getD false) e.v4 = targetFam cidr e ∧
    ((IceGen.addExternalMappings_iter false false e.v4 false false cidr.isSome ((cidr.map (·.v4)).getD false) a4 a6).1.contains
        (Eff.call "addImplicitMapping" [Val.b fam, Val.b false])
      = ((targetFam cidr e == fam) && isFamilyAllowed a4 a6 fam)) := by
  have ht : target false false cidr.isSome ((cidr.map (·.v4)).getD false) e.v4 = targetFam cidr e := by
    unfold target targetFam; cases cidr <;> simp
  refine ⟨ht, ?_⟩
  rw [addExternalMappings_iter_tie, ht]
  simp only [Bool.false_eq_true, if_false]
  cases targetFam cidr e <;> cases fam <;> cases a4 <;> cases a6 <;> decide

/-- **T: `maybeMarkEmptyMapping`**, all arguments: nothing when an address was added; with `Local`: the local family's map gets
the empty entry and becomes valid iff that family is allowed; without `Local`: every allowed family becomes a valid, empty
catch-all -/
theorem maybeMarkEmptyMapping_tie (added hasLocalAddr localIsIPv4 a4 a6 : Bool) :
    IceGen.maybeMarkEmptyMapping added hasLocalAddr localIsIPv4 a4 a6
      = if added then []
        else if hasLocalAddr then
          (if isFamilyAllowed a4 a6 localIsIPv4
           then [Eff.set "family.ipMap[localAddr.String()]" (Val.s "nil"), Eff.set "family.valid" (Val.b true)] else [])
        else (if a4 then [Eff.set "ruleMapping.ipv4Mapping.valid" (Val.b true),
                          Eff.set "ruleMapping.ipv4Mapping.catchAllSet" (Val.b true)] else [])
          ++ (if a6 then [Eff.set "ruleMapping.ipv6Mapping.valid" (Val.b true),
                          Eff.set "ruleMapping.ipv6Mapping.catchAllSet" (Val.b true)] else []) := by
  unfold IceGen.maybeMarkEmptyMapping
  simp only [IceTie.Rewrite.isFamilyAllowed_tie]
  cases added <;> cases hasLocalAddr <;> cases localIsIPv4 <;> cases a4 <;> cases a6 <;> rfl

/-- the assignments of `maybeMarkEmptyMapping` applied to the two family mappings of a rule -/
def applyMark (effs : List Eff) (m : FamMap × FamMap) : FamMap × FamMap :=
  effs.foldl (fun acc e => match e with
    | Eff.set "ruleMapping.ipv4Mapping.valid" (Val.b v) => ({ acc.1 with valid := v }, acc.2)
    | Eff.set "ruleMapping.ipv4Mapping.catchAllSet" (Val.b v) => ({ acc.1 with catchAll := v }, acc.2)
    | Eff.set "ruleMapping.ipv6Mapping.valid" (Val.b v) => (acc.1, { acc.2 with valid := v })
    | Eff.set "ruleMapping.ipv6Mapping.catchAllSet" (Val.b v) => (acc.1, { acc.2 with catchAll := v })
    | _ => acc) m

/-- a rule without `Local` whose External list is EMPTY (since /repo d6a4f83 the only case in which `newAddressRewriteMapper`
calls `maybeMarkEmptyMapping`): the two mappings after `maybeMarkEmptyMapping` are the model's `catchAllMap` -/
theorem maybeMarkEmptyMapping_model (a4 a6 : Bool) (cidr : Option CIDR) :
    applyMark (IceGen.maybeMarkEmptyMapping false false false a4 a6) ({}, {})
      = (catchAllMap a4 a6 cidr [] true, catchAllMap a4 a6 cidr [] false) := by
  rw [maybeMarkEmptyMapping_tie]
  unfold catchAllMap
  simp only [List.isEmpty_nil, if_true]
  cases a4 <;> cases a6 <;> rfl

/-- a rule without `Local` that names externals of which none was added (all skipped by the family filter): the call is
skipped, the untouched mappings are the model's `catchAllMap` (no mapping for either family) -/
theorem unmarked_model (a4 a6 : Bool) (cidr : Option CIDR) (exts : List IP) (hne : exts ≠ [])
    (h4 : (soleFor a4 a6 cidr exts true).isEmpty = true) (h6 : (soleFor a4 a6 cidr exts false).isEmpty = true) :
    (({}, {}) : FamMap × FamMap) = (catchAllMap a4 a6 cidr exts true, catchAllMap a4 a6 cidr exts false) := by
  have he : exts.isEmpty = false := by cases exts; exact absurd rfl hne; rfl
  unfold catchAllMap
  rw [List.isEmpty_iff.mp h4, List.isEmpty_iff.mp h6]
  simp [he]

/-- a rule pinned by `Local = l`: the empty entry is made iff the model's `pinMap` is non-trivial for the local family -/
theorem maybeMarkEmptyMapping_pin (a4 a6 : Bool) (l : IP) :
    (IceGen.maybeMarkEmptyMapping false true l.v4 a4 a6 ≠ []) ↔ (pinMap a4 a6 l [] l.v4).valid = true := by
  rw [maybeMarkEmptyMapping_tie]
  unfold pinMap
  cases h : isFamilyAllowed a4 a6 l.v4 <;> simp [h]

end IceTie.Rewrite2
