import IceModel.AgentCore
import IceGen.T_Agent
import IceProofs.AgentC04Tick
/-!
# Tie T for the liveness timing of C04

`IceGen.agent_connectionStateForDisconnection` and `IceGen.agent_initialCheckingTimeout` are regenerated
from agent.go on every run (Go `time.Duration` = `Int64` nanoseconds, `ConnectionState` = its iota code).
For ALL `Int64` arguments in the non-negative range they equal the model's `stateForDisconnection` /
`Agent.initialCheckingTimeout` (which work on `Nat` nanoseconds).  A changed comparison, constant or branch
in the Go source changes the generated term and these proofs stop checking.
-/
namespace IceTie.AgentTiming
open IceModel.AgentCore IceProofs.AgentC04

/-- `ConnectionState` of ice.go (iota order; anything else is treated as Unknown) -/
def csOf (c : Int64) : ConnState :=
  if c = 1 then .new else if c = 2 then .checking else if c = 3 then .connected else if c = 4 then .completed
  else if c = 5 then .failed else if c = 6 then .disconnected else if c = 7 then .closed else .unknown

def csCode : ConnState → Int64
  | .unknown => 0 | .new => 1 | .checking => 2 | .connected => 3 | .completed => 4
  | .failed => 5 | .disconnected => 6 | .closed => 7

theorem csOf_code (s : ConnState) : csOf (csCode s) = s := by cases s <;> decide

/-- a non-negative `time.Duration` as `Nat` nanoseconds -/
def dur (x : Int64) : Nat := x.toInt.toNat

theorem ne_zero_iff (x : Int64) (h : 0 ≤ x.toInt) : (x != 0) = decide (dur x ≠ 0) := by
  have hz : x = 0 ↔ x.toInt = 0 := by rw [← Int64.toInt_zero, Int64.toInt_inj]
  by_cases hx : x = 0
  · subst hx; decide
  · have h' : x.toInt ≠ 0 := fun h => hx (hz.mpr h)
    have hd : dur x ≠ 0 := by unfold dur; omega
    rw [decide_eq_true hd]
    exact bne_iff_ne.mpr hx

theorem gt_iff (a b : Int64) (ha : 0 ≤ a.toInt) (hb : 0 ≤ b.toInt) : decide (a > b) = decide (dur b < dur a) := by
  have hlt : a > b ↔ b.toInt < a.toInt := Int64.lt_iff_toInt_lt
  by_cases h : a > b
  · have := hlt.mp h
    have h2 : dur b < dur a := by unfold dur; omega
    rw [decide_eq_true h, decide_eq_true h2]
  · have h1 : ¬ b.toInt < a.toInt := fun h' => h (hlt.mpr h')
    have h2 : ¬ dur b < dur a := by unfold dur; omega
    rw [decide_eq_false h, decide_eq_false h2]

theorem ne6_iff (c : Int64) : (c != 6) = decide (csOf c ≠ .disconnected) := by
  unfold csOf
  by_cases h1 : c = 1 <;> by_cases h2 : c = 2 <;> by_cases h3 : c = 3 <;> by_cases h4 : c = 4 <;>
    by_cases h5 : c = 5 <;> by_cases h6 : c = 6 <;> by_cases h7 : c = 7 <;> simp_all

theorem ne5_iff (c : Int64) : (c != 5) = decide (csOf c ≠ .failed) := by
  unfold csOf
  by_cases h1 : c = 1 <;> by_cases h2 : c = 2 <;> by_cases h3 : c = 3 <;> by_cases h4 : c = 4 <;>
    by_cases h5 : c = 5 <;> by_cases h6 : c = 6 <;> by_cases h7 : c = 7 <;> simp_all

/-- **T: `connectionStateForDisconnection`** — for all non-negative durations and every state code. -/
theorem connectionStateForDisconnection_tie (dt total disc cs : Int64)
    (h1 : 0 ≤ dt.toInt) (h2 : 0 ≤ total.toInt) (h3 : 0 ≤ disc.toInt)
    (cfg : Config) (hcfg : cfg.disconnectedTimeout = dur disc) :
    IceGen.agent_connectionStateForDisconnection dt total disc cs
      = csCode (stateForDisconnection cfg (csOf cs) (some (dur dt)) (dur total)) := by
  unfold IceGen.agent_connectionStateForDisconnection
  simp only
  rw [ne_zero_iff disc h3, gt_iff dt disc h1 h3, ne_zero_iff total h2, gt_iff dt total h1 h2, ne6_iff, ne5_iff,
    sfd_some, hcfg]
  by_cases p1 : dur disc = 0 <;> by_cases p2 : dur disc < dur dt <;> by_cases p3 : dur total = 0 <;>
    by_cases p4 : dur total < dur dt <;> by_cases p5 : csOf cs = .disconnected <;> by_cases p6 : csOf cs = .failed <;>
    simp [p1, p2, p3, p4, p5, p6, csCode]

/-- "Never heard from the remote": Go computes `time.Since(time.Time{})`, which saturates to the maximum
`Duration` 2^63−1.  The model's `none` silence behaves exactly like that value for all timeouts below it. -/
theorem silence_none_is_max (cfg : Config) (cur : ConnState) (total : Nat)
    (h1 : cfg.disconnectedTimeout < 2 ^ 63 - 1) (h2 : total < 2 ^ 63 - 1) :
    stateForDisconnection cfg cur none total = stateForDisconnection cfg cur (some (2 ^ 63 - 1)) total := by
  rw [sfd_none, sfd_some]
  by_cases p1 : cfg.disconnectedTimeout = 0 <;> by_cases p3 : total = 0 <;> simp [p1, p3, h1, h2]

/-- … so the generated function applied to the saturated duration is the model on `none`. -/
theorem connectionStateForDisconnection_tie_none (total disc cs : Int64)
    (h2 : 0 ≤ total.toInt) (h3 : 0 ≤ disc.toInt) (h2' : total.toInt < 2 ^ 63 - 1) (h3' : disc.toInt < 2 ^ 63 - 1)
    (cfg : Config) (hcfg : cfg.disconnectedTimeout = dur disc) :
    IceGen.agent_connectionStateForDisconnection Int64.maxValue total disc cs
      = csCode (stateForDisconnection cfg (csOf cs) none (dur total)) := by
  have hm : Int64.maxValue.toInt = 2 ^ 63 - 1 := Int64.toInt_maxValue
  have hd : dur Int64.maxValue = 2 ^ 63 - 1 := by unfold dur; rw [hm]; rfl
  rw [connectionStateForDisconnection_tie Int64.maxValue total disc cs (by rw [hm]; decide) h2 h3 cfg hcfg, hd,
    silence_none_is_max cfg (csOf cs) (dur total) (by rw [hcfg]; unfold dur; omega) (by unfold dur; omega)]

/-- **T: `initialCheckingTimeout`** — for all non-negative timeouts whose sum does not overflow `Int64`. -/
theorem initialCheckingTimeout_tie (failed disc : Int64) (lite explicit : Bool)
    (h1 : 0 ≤ failed.toInt) (h2 : 0 ≤ disc.toInt)
    (hov : (if lite && !explicit then 5000000000 else disc.toInt) + failed.toInt < 2 ^ 63)
    (a : Agent) (hf : a.cfg.failedTimeout = dur failed) (hd : a.cfg.disconnectedTimeout = dur disc)
    (hl : a.cfg.lite = lite) (he : a.cfg.disconnectedExplicit = explicit) :
    (IceGen.agent_initialCheckingTimeout failed disc lite explicit).toInt = (a.initialCheckingTimeout : Int) := by
  unfold IceGen.agent_initialCheckingTimeout Agent.initialCheckingTimeout
  rw [hf, hd, hl, he]
  have hz : failed = 0 ↔ failed.toInt = 0 := by rw [← Int64.toInt_zero, Int64.toInt_inj]
  have h5 : (5000000000 : Int64).toInt = 5000000000 := by decide
  by_cases hx : failed = 0
  · subst hx
    simp [dur]
  · have h' : failed.toInt ≠ 0 := fun h => hx (hz.mpr h)
    have hdf : dur failed ≠ 0 := by unfold dur; omega
    have hb : (failed == 0) = false := by simpa using hx
    have hb' : (dur failed == 0) = false := by simpa using hdf
    simp only [hb, hb', Bool.false_eq_true, if_false]
    cases hc : (lite && !explicit)
    · simp only [hc, Bool.false_eq_true, if_false] at hov ⊢
      rw [Int64.toInt_add, Int.bmod_eq_of_le (by omega) (by omega)]
      unfold dur; omega
    · simp only [hc, if_true] at hov ⊢
      rw [Int64.toInt_add, h5, Int.bmod_eq_of_le (by omega) (by omega)]
      unfold dur; omega

end IceTie.AgentTiming
