import IceModel.AgentCore
import IceModel.GatherCycle
import IceModel.Gather
import IceGen.T_Lifecycle
/-!
# Tie T, round 4: gathering-cycle lifecycle and release order (gather.go, agent.go, candidate_base.go)

The task of `Agent.GatherCandidates` (`closure`), the goroutine `Agent.gatherCandidates` (its `defer` statements are effects in
REGISTRATION order — they run in reverse), `Agent.removeUfragFromMux`, `Agent.deleteAllCandidates` (one iteration of each outer loop,
the inner close loop pinned) and `candidateBase.seen` are regenerated from the Go source on every run (`IceGen.T_Lifecycle`, effect
mode).  The theorems state the effect lists for all arguments and the order facts C09 / C18 rely on since the fix 83e8561:
`prevDone` is read BEFORE the new done channel is stored, and the goroutine registers `close(done)` first (so it runs LAST) and the
wait for `prevDone` second (so it runs before it): a cycle's done channel is closed after that of the cycle it superseded.
-/
namespace IceTie.Lifecycle
open IceModel

def c (name : String) : Eff := Eff.call name []

/-- position of the first occurrence of `e` (the length if there is none) -/
def pos (l : List Eff) (e : Eff) : Nat := (l.takeWhile (· != e)).length

/-! ## the task of `GatherCandidates` -/

def acceptEffs : List Eff :=
  [c "gatherCandidateCancel()", c "ctx, cancel := WithCancel(ctx + localUfrag + urls)", Eff.set "a.gatherCandidateCancel" (Val.s "cancel"),
   c "prevDone := a.gatherCandidateDone", c "done := make(chan)", Eff.set "a.gatherCandidateDone" (Val.s "done"),
   c "go gatherCandidates(ctx, done, prevDone)"]

/-- **T: the task of `Agent.GatherCandidates`**: refused unless the gathering state is New (`GatheringStateNew` = 1) and a candidate
handler is set — then nothing but the error; otherwise: cancel the previous cycle, new context (ufrag and URLs captured), store
its cancel func, READ the previous done channel, make and store the new one, spawn the goroutine with both -/
theorem GatherCandidates_task_tie (state : Int64) (noHandler : Bool) :
    IceGen.agent_GatherCandidates_task state noHandler
      = if state != 1 then [Eff.set "gatherErr" (Val.s "ErrMultipleGatherAttempted")]
        else if noHandler then [Eff.set "gatherErr" (Val.s "ErrNoOnCandidateHandler")]
        else acceptEffs := by
  unfold IceGen.agent_GatherCandidates_task
  cases (state != 1) <;> cases noHandler <;> rfl

/-- the previous cycle is cancelled first; `prevDone` is captured before the new channel overwrites the field; the goroutine is
spawned last -/
theorem GatherCandidates_task_order :
    pos acceptEffs (c "gatherCandidateCancel()") = 0 ∧
    pos acceptEffs (c "prevDone := a.gatherCandidateDone") < pos acceptEffs (Eff.set "a.gatherCandidateDone" (Val.s "done")) ∧
    pos acceptEffs (Eff.set "a.gatherCandidateDone" (Val.s "done")) < pos acceptEffs (c "go gatherCandidates(ctx, done, prevDone)") ∧
    acceptEffs.getLast? = some (c "go gatherCandidates(ctx, done, prevDone)") := by decide

/-- the model's `gatherCall`: refused (state unchanged) unless the state is New; otherwise the current cycle is cancelled and a new
cycle with the agent's ufrag becomes the current one -/
theorem gatherCall_model (s : GatherCycle.State) (hc : s.closed = false) :
    GatherCycle.step s .gatherCall =
      if s.gstate ≠ .new then some s
      else some { s with cycles := GatherCycle.cancelCur s ++ [{ ufrag := s.ufrag }], cur := some (GatherCycle.cancelCur s).length } := by
  unfold GatherCycle.step
  simp [hc]

/-! ## the goroutine `gatherCandidates` -/

def deferClose : Eff := c "defer close(done)"
def deferWait : Eff := c "defer (if prevDone != nil: <-prevDone)"

/-- **T: `Agent.gatherCandidates`**: `close(done)` is deferred FIRST and the wait for the superseded cycle's done channel SECOND
(deferred calls run last-in-first-out: the wait, then the close), before anything else; a failed or not-applied (cancelled)
`setGatheringState(Gathering)` ends the goroutine without gathering; otherwise the interface set is recorded (continual policy),
the gatherers run, and then Complete is set (`GatherOnce` = 0) or the network monitor runs on this goroutine
(`GatherContinually` = 1) -/
theorem gatherCandidates_tie (stateErr applied : Bool) (policy : Int64) :
    IceGen.agent_gatherCandidates stateErr applied policy
      = [deferClose, deferWait, c "setGatheringState(Gathering)"] ++
        (if stateErr || !applied then []
         else [c "if GatherContinually: record lastKnownInterfaces through the loop", c "gatherCandidatesInternal"] ++
           (if policy == 0 then [c "setGatheringState(Complete)"] else if policy == 1 then [c "startNetworkMonitoring"] else [])) := by
  unfold IceGen.agent_gatherCandidates
  cases stateErr <;> cases applied <;> cases (policy == 0) <;> cases (policy == 1) <;> rfl

/-- on EVERY path the two defers are registered, in this order, before the first statement that can return -/
theorem gatherCandidates_defers (stateErr applied : Bool) (policy : Int64) :
    (IceGen.agent_gatherCandidates stateErr applied policy).take 2 = [deferClose, deferWait] := by
  rw [gatherCandidates_tie]; rfl

/-- the model's `cycleStart`: a cycle cancelled before its Gathering task ends without gathering -/
theorem cycleStart_cancelled_model (s : GatherCycle.State) (cidx : Nat) (cy : GatherCycle.Cycle)
    (h : s.cycles[cidx]? = some cy) (hp : cy.pc = .start) (hc : s.closed = false) (hx : cy.cancelled = true) :
    GatherCycle.step s (.cycleStart cidx) = some { s with cycles := s.cycles.set cidx { cy with pc := .done } } := by
  unfold GatherCycle.step
  simp [h, hp, hc, hx]

theorem foldl_max_ge (l : List Nat) (a x : Nat) (h : x ∈ l ∨ x ≤ a) : x ≤ l.foldl max a := by
  induction l generalizing a with
  | nil =>
    cases h with
    | inl h => cases h
    | inr h => exact h
  | cons y ys ih =>
    apply ih
    cases h with
    | inl h =>
      cases h with
      | head => right; exact Nat.le_max_right _ _
      | tail _ h => left; exact h
    | inr h => right; exact Nat.le_trans h (Nat.le_max_left _ _)

/-- the consequence in the gather model (`Gather.closeDeadline`, the instant up to which Close waits): with the chained done
channels it is no earlier than the deadline of ANY parked gatherer of ANY cycle -/
theorem closeDeadline_covers_all (s : Gather.MState) (cur : Nat) (j : Gather.Job) (hj : j ∈ s.jobs) :
    j.deadline ≤ Gather.closeDeadline s false cur false := by
  unfold Gather.closeDeadline
  simp only [Bool.false_eq_true, if_false, Bool.not_false, Bool.true_or]
  apply foldl_max_ge
  left
  exact List.mem_map.mpr ⟨j, List.mem_filter.mpr ⟨hj, rfl⟩, rfl⟩

/-! ## `removeUfragFromMux`, `deleteAllCandidates` -/

/-- **T: `Agent.removeUfragFromMux`**: the local ufrag is removed from each configured mux — TCP, UDP, srflx UDP, in this order -/
theorem removeUfragFromMux_tie (hasTcp hasUdp hasSrflx : Bool) :
    IceGen.agent_removeUfragFromMux hasTcp hasUdp hasSrflx
      = (if hasTcp then [c "tcpMux.RemoveConnByUfrag(localUfrag)"] else []) ++
        (if hasUdp then [c "udpMux.RemoveConnByUfrag(localUfrag)"] else []) ++
        (if hasSrflx then [c "udpMuxSrflx.RemoveConnByUfrag(localUfrag)"] else []) := by
  cases hasTcp <;> cases hasUdp <;> cases hasSrflx <;> rfl

/-- **T: `Agent.deleteAllCandidates`** (one iteration of each outer loop): for every network type all LOCAL candidates are closed,
then the entry is deleted; then the same for the REMOTE candidates -/
theorem deleteAllCandidates_tie :
    IceGen.agent_deleteAllCandidates
      = [c "for:localCandidates", c "close every candidate of the network type", c "delete(localCandidates, net)", c "end:localCandidates",
         c "for:remoteCandidates", c "close every candidate of the network type", c "delete(remoteCandidates, net)", c "end:remoteCandidates"] := rfl

/-- the model's `wipe` (Failed / Restart) empties both candidate lists, the checklist, the pending transactions and the selection -/
theorem wipe_model (a : AgentCore.Agent) :
    a.wipe.locals = [] ∧ a.wipe.remotes = [] ∧ a.wipe.checklist = [] ∧ a.wipe.pending = [] ∧ a.wipe.selected = none :=
  ⟨rfl, rfl, rfl, rfl, rfl⟩

/-! ## `candidateBase.seen` -/

/-- **T: `candidateBase.seen`**: outbound traffic refreshes ONLY the last-sent time, inbound ONLY the last-received time (the one
`validateSelectedPair` measures the silence of) -/
theorem seen_tie (outbound : Bool) :
    IceGen.candidateBase_seen outbound = if outbound then [c "setLastSent(now)"] else [c "setLastReceived(now)"] := by
  cases outbound <;> rfl

/-- the model: `seenLocalSent` writes `lastSent` of local candidates only, `seenRemoteRecv` writes `lastRecv` of remote candidates only -/
theorem seen_model (a : AgentCore.Agent) (uid now : Nat) :
    (a.seenLocalSent uid now).remotes = a.remotes ∧
    (a.seenLocalSent uid now).locals = AgentCore.updCand a.locals uid (fun c => { c with lastSent := some now }) ∧
    (a.seenRemoteRecv uid now).locals = a.locals ∧
    (a.seenRemoteRecv uid now).remotes = AgentCore.updCand a.remotes uid (fun c => { c with lastRecv := some now }) :=
  ⟨rfl, rfl, rfl, rfl⟩

end IceTie.Lifecycle
