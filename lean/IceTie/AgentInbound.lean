import IceModel.AgentCore
import IceGen.T_Agent
/-!
# Tie T for the inbound STUN gates: the definitions regenerated from the Go source equal the conditions
the model uses

* `canHandleInbound` (agent.go): method Binding (0x001) and class ∈ {success response, request, indication}.
  pion/stun numbers the classes `ClassRequest = 0`, `ClassIndication = 1`, `ClassSuccessResponse = 2`,
  `ClassErrorResponse = 3` (stun/v3 message.go) and `MethodBinding = 0x001`; the model's `Msg.cls` /
  `Msg.method` use the same numbers, so the gate of `Agent.handleInbound` is literally this predicate.
* `responseSymmetric` (selection.go): same network type ∧ same canonical address; the model's
  `pd.net == l.net && pd.dest == src`.
-/
namespace IceTie.AgentInbound
open IceModel.AgentCore

theorem u16_beq (x y : UInt16) : (x == y) = (x.toNat == y.toNat) := by
  by_cases h : x = y
  · subst h; rw [beq_self_eq_true, beq_self_eq_true]
  · have : x.toNat ≠ y.toNat := fun e => h (UInt16.toNat_inj.mp e)
    rw [beq_eq_false_iff_ne.mpr h, beq_eq_false_iff_ne.mpr this]

theorem u8_beq (x y : UInt8) : (x == y) = (x.toNat == y.toNat) := by
  by_cases h : x = y
  · subst h; rw [beq_self_eq_true, beq_self_eq_true]
  · have : x.toNat ≠ y.toNat := fun e => h (UInt8.toNat_inj.mp e)
    rw [beq_eq_false_iff_ne.mpr h, beq_eq_false_iff_ne.mpr this]

/-- the class/method gate of the code, for all 2^16 × 2^8 arguments -/
theorem canHandleInbound_tie (method : UInt16) (cls : UInt8) :
    IceGen.canHandleInbound method cls
      = (method.toNat == 1 && (cls.toNat == 2 || cls.toNat == 0 || cls.toNat == 1)) := by
  unfold IceGen.canHandleInbound
  rw [u16_beq, u8_beq, u8_beq, u8_beq]
  rfl

/-- the model's gate in `Agent.handleInbound` is the code's predicate on the message's method and class -/
theorem gate_eq_code (m : Msg) (method : UInt16) (cls : UInt8) (hm : method.toNat = m.method) (hc : cls.toNat = m.cls) :
    (m.method == 1 && (m.cls == 2 || m.cls == 0 || m.cls == 1)) = IceGen.canHandleInbound method cls := by
  rw [canHandleInbound_tie, hm, hc]

theorem responseSymmetric_tie (sameNet sameAddr : Bool) :
    IceGen.responseSymmetric sameNet sameAddr = (sameNet && sameAddr) := rfl

end IceTie.AgentInbound
