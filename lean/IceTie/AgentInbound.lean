import IceModel.AgentCore
import IceGen.T_Agent
/-!
# Tie T for the inbound STUN gates: the definitions regenerated from the Go source equal the conditions
the model uses

* `canHandleInbound` (agent.go): method Binding (0x001) and class ∈ {success response, request, indication}.
  pion/stun numbers the classes `ClassRequest = 0`, `ClassIndication = 1`, `ClassSuccessResponse = 2`,
  `ClassErrorResponse = 3` (stun/v3 message.go) and `MethodBinding = 0x001`; the model's `Msg.cls` /
  `Msg.method` use the same numbers, so the gate of `Agent.handleInbound` is literally this predicate.
* `responseSymmetric` (selection.go): same network type ∧ the response's source is the request's destination
  ∧ (the request recorded no source ∨ the local candidate the response arrived on has the request's source
  address).  `sendBindingRequest` records the source of every request (`hasSource = true`; the zero value only
  occurs in hand-built `bindingRequest` literals of the in-package tests), which gives the model's
  `pd.net == l.net && pd.dest == src && pd.src == l.addr` (`src` = source of the response).
-/
namespace IceTie.AgentInbound
open IceModel.AgentCore

theorem u16_beq (x y : UInt16) : (x == y) = (x.toNat == y.toNat) := by
  by_cases h : x = y
  · subst h; rw [beq_self_eq_true, beq_self_eq_true]
  · have : x.toNat ≠ y.toNat := fun e => h (UInt16.toNat_inj.mp e)
    rw [beq_eq_false_iff_ne.mpr h, beq_eq_false_iff_ne.mpr this]

theorem u8_beq (x y : UInt8) : (x == y) = (x.toNat == y.toNat) := by
  by_cases h : x = y
  · subst h; rw [beq_self_eq_true, beq_self_eq_true]
  · have : x.toNat ≠ y.toNat := fun e => h (UInt8.toNat_inj.mp e)
    rw [beq_eq_false_iff_ne.mpr h, beq_eq_false_iff_ne.mpr this]

/-- the class/method gate of the code, for all 2^16 × 2^8 arguments -/
theorem canHandleInbound_tie (method : UInt16) (cls : UInt8) :
    IceGen.canHandleInbound method cls
      = (method.toNat == 1 && (cls.toNat == 2 || cls.toNat == 0 || cls.toNat == 1)) := by
  unfold IceGen.canHandleInbound
  rw [u16_beq, u8_beq, u8_beq, u8_beq]
  rfl

/-- the model's gate in `Agent.handleInbound` is the code's predicate on the message's method and class -/
theorem gate_eq_code (m : Msg) (method : UInt16) (cls : UInt8) (hm : method.toNat = m.method) (hc : cls.toNat = m.cls) :
    (m.method == 1 && (m.cls == 2 || m.cls == 0 || m.cls == 1)) = IceGen.canHandleInbound method cls := by
  rw [canHandleInbound_tie, hm, hc]

theorem responseSymmetric_tie (sameNet sameAddr hasSource sameSource : Bool) :
    IceGen.responseSymmetric sameNet sameAddr hasSource sameSource
      = (sameNet && sameAddr && (!hasSource || sameSource)) := rfl

/-- with a recorded source (every request sent by `sendBindingRequest`) the code's predicate is the
three-fold conjunction -/
theorem responseSymmetric_recorded (sameNet sameAddr sameSource : Bool) :
    IceGen.responseSymmetric sameNet sameAddr true sameSource = (sameNet && sameAddr && sameSource) := by
  rw [responseSymmetric_tie, Bool.not_true, Bool.false_or]

/-- … which is literally the test of the model's `handleSuccess` on the consumed pending entry `pd`, the
local candidate `l` the response arrived on and the response's source address `rsrc` -/
theorem responseSymmetric_model (pd : Pending) (l : Cand) (rsrc : Nat) :
    IceGen.responseSymmetric (pd.net == l.net) (pd.dest == rsrc) true (pd.src == l.addr)
      = (pd.net == l.net && pd.dest == rsrc && pd.src == l.addr) :=
  responseSymmetric_recorded _ _ _

end IceTie.AgentInbound
