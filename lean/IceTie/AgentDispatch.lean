import IceModel.AgentCore
import IceGen.T_Round3
import IceTie.AgentInbound
/-!
# Tie T, round 3: the inbound STUN dispatch of agent.go and the two senders

`Agent.handleInbound`, `Agent.handleInboundResponse`, `Agent.handleInboundRequest`, `Agent.sendBindingSuccess` (agent.go) and
`controllingSelector.nominatePair` (selection.go) are regenerated from the Go source on every run (`IceGen.T_Round3`, effect
mode): the calls in program order as a function of the tests made.  What an atom means (`AssertUsername` fails iff the
USERNAME is not `localUfrag:remoteUfrag`, `MessageIntegrity(pwd).Check` fails iff the key is not `pwd`, …) is the spec's
parameter table; the theorems are about the ORDER of the gates and what each outcome lets through.
-/
namespace IceTie.AgentDispatch
open IceModel IceModel.AgentCore

def c (name : String) : Eff := Eff.call name []
def seen : Eff := Eff.call "remoteCandidate.seen" [Val.b false]

/-! ## `handleInbound` -/

/-- **T: `Agent.handleInbound`**: nil message / nil local candidate and everything `canHandleInbound` rejects does nothing; a
success response (class 2) goes to `handleInboundResponse`, a request (class 0) to `handleInboundRequest`; the remote
candidate's last-received time is refreshed (`seen(false)`) AFTER the handler and only when the handler accepted the message —
for a request the candidate is the one the handler returns (possibly the newly discovered prflx); an indication refreshes a
known remote only. -/
theorem handleInbound_tie (msgNil localNil : Bool) (method : UInt16) (cls : UInt8) (hasRemote respOk reqOk hasRemoteAfter : Bool) :
    IceGen.agent_handleInbound msgNil localNil method cls hasRemote respOk reqOk hasRemoteAfter
      = if msgNil || localNil || !(IceGen.canHandleInbound method cls) then []
        else if cls == 2 then c "handleInboundResponse" :: (if respOk && hasRemote then [seen] else [])
        else if cls == 0 then c "handleInboundRequest" :: (if reqOk && hasRemoteAfter then [seen] else [])
        else if hasRemote then [seen] else [] := by
  unfold IceGen.agent_handleInbound
  cases msgNil <;> cases localNil <;> cases (IceGen.canHandleInbound method cls) <;> cases (cls == 2) <;> cases (cls == 0) <;>
    cases respOk <;> cases reqOk <;> cases hasRemote <;> cases hasRemoteAfter <;> rfl

/-- nothing is refreshed for a message a handler rejected -/
theorem handleInbound_rejected_no_seen (method : UInt16) (cls : UInt8) (hasRemote hasRemoteAfter : Bool) :
    seen ∉ IceGen.agent_handleInbound false false method cls hasRemote false false hasRemoteAfter ∨ (cls != 2 && cls != 0) = true := by
  rw [handleInbound_tie]
  cases (IceGen.canHandleInbound method cls) <;> cases h2 : (cls == 2) <;> cases h0 : (cls == 0) <;>
    simp [h2, h0, c, seen, bne]

/-- the model dispatches the same way: the gate first … -/
theorem handleInbound_model_gate (a : Agent) (now : Nat) (l : Cand) (src : Nat) (m : Msg)
    (h : (m.method == 1 && (m.cls == 2 || m.cls == 0 || m.cls == 1)) = false) :
    a.handleInbound now l src m = (a, []) := by
  unfold Agent.handleInbound
  rw [h]; rfl

/-- … an indication only refreshes a known remote -/
theorem handleInbound_model_indication (a : Agent) (now : Nat) (l : Cand) (src : Nat) (m : Msg)
    (hm : m.method = 1) (hc : m.cls = 1) :
    a.handleInbound now l src m =
      match a.findRemote l.net src with
      | some r => (a.seenRemoteRecv r.uid now, [])
      | none => (a, []) := by
  unfold Agent.handleInbound
  simp [hm, hc]
  cases a.findRemote l.net src <;> rfl

/-! ## `handleInboundResponse` -/

/-- **T: `Agent.handleInboundResponse`**: integrity under the REMOTE password first, then the remote candidate must be known;
only then the selector's `HandleSuccessResponse` runs and the answer is `true` -/
theorem handleInboundResponse_tie (integrityErr remoteNil : Bool) :
    IceGen.agent_handleInboundResponse integrityErr remoteNil
      = if !integrityErr && !remoteNil then ([c "selector.HandleSuccessResponse"], true) else ([], false) := by
  cases integrityErr <;> cases remoteNil <;> rfl

/-- the model's response branch: wrong key or unknown source → nothing -/
theorem handleInbound_model_response (a : Agent) (now : Nat) (l : Cand) (src : Nat) (m : Msg)
    (hm : m.method = 1) (hc : m.cls = 2) :
    a.handleInbound now l src m =
      if m.key != some a.remotePwd then (a, [])
      else match a.findRemote l.net src with
        | none => (a, [])
        | some r => (((a.handleSuccess now m l r src).1).seenRemoteRecv r.uid now, (a.handleSuccess now m l r src).2) := by
  unfold Agent.handleInbound
  simp only [hm, hc]
  cases (m.key != some a.remotePwd)
  · cases a.findRemote l.net src <;> rfl
  · rfl

/-! ## `handleInboundRequest` -/

inductive ReqOutcome where
  | dropped        -- username / integrity / prflx creation failed: nothing (beyond the attempts listed) happens
  | conflict       -- role conflict: handled, never treated as a check
  | check          -- handed to the selector's HandleBindingRequest
  deriving DecidableEq, Repr

/-- effects of discovering a peer-reflexive remote (the source was unknown) up to `addRemoteCandidate` -/
def prflxEffs (prioErr newErr : Bool) : List Eff :=
  [c "prflxConfig(net,canonical remote addr,port,local component)"] ++
  (if prioErr then [] else [Eff.set "prflxCandidateConfig.Priority" (Val.s "PRIORITY attribute")]) ++
  (if newErr then [] else [c "remoteCandidate = prflxCandidate", c "addRemoteCandidate"])

def roleEffs (roleErr sameRole : Bool) : List Eff × (String × Bool) :=
  if !roleErr && sameRole then ([c "handleRoleConflict"], ("nil", false))
  else ([c "selector.HandleBindingRequest"], ("remoteCandidate", true))

/-- **T: `Agent.handleInboundRequest`**: USERNAME first, then integrity under the LOCAL password — nothing else happens for a
message failing either; an unknown source is turned into a peer-reflexive candidate (priority from the PRIORITY attribute when
present) and must be accepted by `addRemoteCandidate`; a role conflict (`GetFrom` succeeded and same role) is handled and the
request is NOT a check (`ok = false`: no `seen`); otherwise the selector's `HandleBindingRequest` runs and the (possibly new)
remote candidate is returned with `ok = true` -/
theorem handleInboundRequest_tie (userErr integrityErr remoteNil netErr prioErr newErr added roleErr sameRole : Bool) :
    IceGen.agent_handleInboundRequest userErr integrityErr remoteNil netErr prioErr newErr added roleErr sameRole
      = if userErr || integrityErr then ([], ("nil", false))
        else if remoteNil then
          (if netErr then ([], ("nil", false))
           else if newErr || !added then (prflxEffs prioErr newErr, ("nil", false))
           else (prflxEffs prioErr newErr ++ (roleEffs roleErr sameRole).1, (roleEffs roleErr sameRole).2))
        else roleEffs roleErr sameRole := by
  unfold IceGen.agent_handleInboundRequest
  cases userErr <;> cases integrityErr <;> cases remoteNil <;> cases netErr <;> cases prioErr <;> cases newErr <;>
    cases added <;> cases roleErr <;> cases sameRole <;> rfl

/-- a request with a wrong USERNAME or a wrong key has no effect at all — in the code … -/
theorem handleInboundRequest_unauthenticated (userErr integrityErr remoteNil netErr prioErr newErr added roleErr sameRole : Bool)
    (h : (userErr || integrityErr) = true) :
    IceGen.agent_handleInboundRequest userErr integrityErr remoteNil netErr prioErr newErr added roleErr sameRole
      = ([], ("nil", false)) := by
  rw [handleInboundRequest_tie, if_pos h]

/-- … and in the model -/
theorem handleInbound_model_request_unauthenticated (a : Agent) (now : Nat) (l : Cand) (src : Nat) (m : Msg)
    (hm : m.method = 1) (hc : m.cls = 0)
    (h : m.user ≠ some (a.localUfrag ++ ":" ++ a.remoteUfrag) ∨ m.key ≠ some a.localPwd) :
    a.handleInbound now l src m = (a, []) := by
  unfold Agent.handleInbound
  simp only [hm, hc]
  by_cases hu : m.user = some (a.localUfrag ++ ":" ++ a.remoteUfrag)
  · have hk : m.key ≠ some a.localPwd := by
      cases h with
      | inl h => exact absurd hu h
      | inr h => exact h
    simp [hu, hk]
  · simp [hu]

/-- a role conflict never reaches the selector and never counts as received traffic -/
theorem handleInboundRequest_conflict (remoteNil prioErr : Bool) :
    IceGen.agent_handleInboundRequest false false remoteNil false prioErr false true false true
      = ((if remoteNil then prflxEffs prioErr false else []) ++ [c "handleRoleConflict"], ("nil", false)) := by
  rw [handleInboundRequest_tie]
  cases remoteNil <;> cases prioErr <;> rfl

/-! ## `sendBindingSuccess` -/

/-- **T: `Agent.sendBindingSuccess`**: the response carries the request's transaction (`m`), class success, the
XOR-MAPPED-ADDRESS of the REMOTE candidate, integrity under the LOCAL password and the fingerprint; the pair's response
counter (when the pair exists) is bumped BEFORE the one `sendSTUN`; an unparsable remote address or a build failure sends
nothing -/
theorem sendBindingSuccess_tie (parseErr buildErr hasPair : Bool) :
    IceGen.agent_sendBindingSuccess parseErr buildErr hasPair
      = if parseErr then []
        else [c "attrs(m,BindingSuccess,XORMappedAddress(remote))", c "attrs+=(Integrity(localPwd),Fingerprint)"] ++
          (if buildErr then [] else (if hasPair then [c "pair.UpdateResponseSent"] else []) ++ [c "sendSTUN"]) := by
  cases parseErr <;> cases buildErr <;> cases hasPair <;> rfl

/-- the model's `sendSuccess`: counter on the pair if listed, then exactly one datagram: class 2, the request's transaction
id, keyed with the local password, from the local to the remote candidate -/
theorem sendSuccess_model (a : Agent) (now : Nat) (m : Msg) (l r : Cand) :
    (a.sendSuccess now m l r).2 = [.dgram l.addr r.addr { cls := 2, tid := m.tid, key := some a.localPwd }] := by
  unfold Agent.sendSuccess
  cases a.findPair l r <;> rfl

/-! ## `controllingSelector.nominatePair` -/

/-- **T: `controllingSelector.nominatePair`**: a Binding request with USERNAME `remoteUfrag:localUfrag`, USE-CANDIDATE,
ICE-CONTROLLING(tie breaker), PRIORITY of the local candidate, integrity under the REMOTE password, fingerprint; sent through
`sendBindingRequest` (which records the transaction) unless the build fails -/
theorem nominatePair_tie (buildErr : Bool) :
    IceGen.controllingSelector_nominatePair buildErr
      = [c "attrs(BindingRequest,TransactionID,Username(remote:local),UseCandidate,Controlling,Priority)",
         c "attrs+=(Integrity(remotePwd),Fingerprint)"] ++ (if buildErr then [] else [c "sendBindingRequest"]) := by
  cases buildErr <;> rfl

/-- the model's `nominate` is `sendRequest` with `useCand = true` and no nomination value; its one datagram carries
USE-CANDIDATE, the username `remote:local`, the remote password as key, the local candidate's priority and the controlling
role with the tie breaker -/
theorem nominate_model (a : Agent) (now : Nat) (p : Pair) (l r : Cand) (hl : a.localOf p.l = some l) (hr : a.remoteOf p.r = some r) :
    a.nominate now p = a.sendRequest now l r true none := by
  unfold Agent.nominate
  rw [hl, hr]

theorem sendRequest_msg (a : Agent) (now : Nat) (l r : Cand) (uc : Bool) (nom : Option Nat) :
    ∃ tid, (a.sendRequest now l r uc nom).2 =
      [.dgram l.addr r.addr { cls := 0, tid := tid, user := some (a.remoteUfrag ++ ":" ++ a.localUfrag), key := some a.remotePwd,
                               prio := some l.prio, useCand := uc, role := some (a.controlling, a.tieBreaker), nom := nom }] := by
  refine ⟨2 * a.nextTid + a.tag, ?_⟩
  unfold Agent.sendRequest
  simp only [Agent.invalidatePending]
  cases hfp : Agent.findPair _ l r <;> rfl

end IceTie.AgentDispatch
