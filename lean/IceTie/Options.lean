import IceModel.AgentCore
import IceGen.T_Options
/-!
# Tie T, round 4: the option functions of agent_options.go that feed the (tied) defaults table

Every `WithX(v)` returns a closure `func(a *Agent) error`; the closure is regenerated from the Go source on every run
(`IceGen.T_Options`, effect mode with a result: the field assignments in program order and the error returned).  The theorems
state, for all arguments: an option applied to a constructed agent is refused (`ErrAgentOptionNotUpdatable`) and writes nothing;
otherwise its validation guard, and exactly the listed field writes.  `applyEffs` reads such a list of writes as an update of the
model's `Config` (ns as `Nat`; the field table is `applyEff`), and the `_cfg` lemmas give the `Config` each option produces — the
configuration space the model's agents are started with (`Agent.cfg`).
-/
namespace IceTie.Options
open IceModel IceModel.AgentCore

/-- the common frame of every option: refused once the agent is constructed -/
def guard (constructed : Bool) (r : List Eff × String) : List Eff × String :=
  if constructed then ([], "ErrAgentOptionNotUpdatable") else r

def setI (f : String) (v : Int64) : Eff := Eff.set f (Val.i v.toInt)
def setN (f : String) (v : UInt16) : Eff := Eff.set f (Val.n v.toNat)
def setB (f : String) (v : Bool) : Eff := Eff.set f (Val.b v)

/-- the field table: which `Config` field of the model an assignment of the code writes (durations in ns) -/
def applyEff (cfg : Config) : Eff → Config
  | .set f (.i v) =>
    if f == "a.disconnectedTimeout" then { cfg with disconnectedTimeout := v.toNat }
    else if f == "a.failedTimeout" then { cfg with failedTimeout := v.toNat }
    else if f == "a.keepaliveInterval" then { cfg with keepaliveInterval := v.toNat }
    else if f == "a.checkInterval" then { cfg with checkInterval := v.toNat }
    else if f == "a.hostAcceptanceMinWait" then { cfg with hostWait := v.toNat }
    else if f == "a.srflxAcceptanceMinWait" then { cfg with srflxWait := v.toNat }
    else if f == "a.prflxAcceptanceMinWait" then { cfg with prflxWait := v.toNat }
    else if f == "a.relayAcceptanceMinWait" then { cfg with relayWait := v.toNat }
    else if f == "a.renominationInterval" then { cfg with renomInterval := v.toNat }
    else cfg
  | .set f (.n v) =>
    if f == "a.maxBindingRequests" then { cfg with maxBindingRequests := v } else cfg
  | .set f (.b v) =>
    if f == "a.disconnectedTimeoutExplicit" then { cfg with disconnectedExplicit := v }
    else if f == "a.lite" then { cfg with lite := v }
    else if f == "a.enableUseCandidateCheckPriority" then { cfg with useCandCheckPriority := v }
    else if f == "a.enableRenomination" then { cfg with enableRenomination := v }
    else if f == "a.automaticRenomination" then { cfg with autoRenom := v }
    else cfg
  | _ => cfg

def applyEffs (cfg : Config) (l : List Eff) : Config := l.foldl applyEff cfg

/-! ## the options -/

theorem WithDisconnectedTimeout_tie (constructed : Bool) (timeout : Int64) :
    IceGen.opt_WithDisconnectedTimeout constructed timeout
      = guard constructed ([setI "a.disconnectedTimeout" timeout, setB "a.disconnectedTimeoutExplicit" true], "nil") := by
  cases constructed <;> rfl

theorem WithFailedTimeout_tie (constructed : Bool) (timeout : Int64) :
    IceGen.opt_WithFailedTimeout constructed timeout = guard constructed ([setI "a.failedTimeout" timeout], "nil") := by
  cases constructed <;> rfl

theorem WithKeepaliveInterval_tie (constructed : Bool) (interval : Int64) :
    IceGen.opt_WithKeepaliveInterval constructed interval = guard constructed ([setI "a.keepaliveInterval" interval], "nil") := by
  cases constructed <;> rfl

theorem WithCheckInterval_tie (constructed : Bool) (interval : Int64) :
    IceGen.opt_WithCheckInterval constructed interval = guard constructed ([setI "a.checkInterval" interval], "nil") := by
  cases constructed <;> rfl

theorem WithMaxBindingRequests_tie (constructed : Bool) (limit : UInt16) :
    IceGen.opt_WithMaxBindingRequests constructed limit = guard constructed ([setN "a.maxBindingRequests" limit], "nil") := by
  cases constructed <;> rfl

theorem WithTCPPriorityOffset_tie (constructed : Bool) (offset : UInt16) :
    IceGen.opt_WithTCPPriorityOffset constructed offset = guard constructed ([setN "a.tcpPriorityOffset" offset], "nil") := by
  cases constructed <;> rfl

theorem acceptanceWaits_tie (constructed : Bool) (wait : Int64) :
    IceGen.opt_WithHostAcceptanceMinWait constructed wait = guard constructed ([setI "a.hostAcceptanceMinWait" wait], "nil") ∧
    IceGen.opt_WithSrflxAcceptanceMinWait constructed wait = guard constructed ([setI "a.srflxAcceptanceMinWait" wait], "nil") ∧
    IceGen.opt_WithPrflxAcceptanceMinWait constructed wait = guard constructed ([setI "a.prflxAcceptanceMinWait" wait], "nil") ∧
    IceGen.opt_WithRelayAcceptanceMinWait constructed wait = guard constructed ([setI "a.relayAcceptanceMinWait" wait], "nil") := by
  cases constructed <;> exact ⟨rfl, rfl, rfl, rfl⟩

theorem WithICELite_tie (constructed lite : Bool) :
    IceGen.opt_WithICELite constructed lite = guard constructed ([setB "a.lite" lite], "nil") := by
  cases constructed <;> rfl

theorem WithEnableUseCandidateCheckPriority_tie (constructed : Bool) :
    IceGen.opt_WithEnableUseCandidateCheckPriority constructed
      = guard constructed ([setB "a.enableUseCandidateCheckPriority" true], "nil") := by
  cases constructed <;> rfl

/-- `WithRenomination`: a nil generator is refused; otherwise renomination is enabled and the generator stored -/
theorem WithRenomination_tie (constructed genNil : Bool) :
    IceGen.opt_WithRenomination constructed genNil
      = guard constructed (if genNil then ([], "ErrInvalidNominationValueGenerator")
          else ([setB "a.enableRenomination" true, Eff.set "a.nominationValueGenerator" (Val.s "generator")], "nil")) := by
  cases constructed <;> cases genNil <;> rfl

/-- `WithAutomaticRenomination`: always switches the automatic renomination on; the interval is written only when positive (0 or a
negative value keeps the default); it does NOT enable renomination itself -/
theorem WithAutomaticRenomination_tie (constructed : Bool) (interval : Int64) :
    IceGen.opt_WithAutomaticRenomination constructed interval
      = guard constructed (setB "a.automaticRenomination" true ::
          (if interval > 0 then [setI "a.renominationInterval" interval] else []), "nil") := by
  unfold IceGen.opt_WithAutomaticRenomination guard
  cases constructed
  · by_cases h : interval > 0 <;> simp [h, Eff.pre, setB, setI]
  · rfl

/-- `WithNominationAttribute`: the reserved attribute type 0 is refused -/
theorem WithNominationAttribute_tie (constructed : Bool) (attrType : UInt16) :
    IceGen.opt_WithNominationAttribute constructed attrType
      = guard constructed (if attrType == 0 then ([], "ErrInvalidNominationAttribute")
          else ([setN "a.nominationAttribute" attrType], "nil")) := by
  unfold IceGen.opt_WithNominationAttribute guard
  cases constructed <;> cases (attrType == 0) <;> rfl

/-! ## what the writes mean for the model's `Config` -/

theorem timing_cfg (cfg : Config) (t : Int64) :
    applyEffs cfg [setI "a.disconnectedTimeout" t, setB "a.disconnectedTimeoutExplicit" true]
      = { cfg with disconnectedTimeout := t.toInt.toNat, disconnectedExplicit := true } ∧
    applyEffs cfg [setI "a.failedTimeout" t] = { cfg with failedTimeout := t.toInt.toNat } ∧
    applyEffs cfg [setI "a.keepaliveInterval" t] = { cfg with keepaliveInterval := t.toInt.toNat } ∧
    applyEffs cfg [setI "a.checkInterval" t] = { cfg with checkInterval := t.toInt.toNat } := ⟨rfl, rfl, rfl, rfl⟩

theorem nomination_cfg (cfg : Config) (t : Int64) (n : UInt16) :
    applyEffs cfg [setN "a.maxBindingRequests" n] = { cfg with maxBindingRequests := n.toNat } ∧
    applyEffs cfg [setI "a.hostAcceptanceMinWait" t] = { cfg with hostWait := t.toInt.toNat } ∧
    applyEffs cfg [setI "a.srflxAcceptanceMinWait" t] = { cfg with srflxWait := t.toInt.toNat } ∧
    applyEffs cfg [setI "a.prflxAcceptanceMinWait" t] = { cfg with prflxWait := t.toInt.toNat } ∧
    applyEffs cfg [setI "a.relayAcceptanceMinWait" t] = { cfg with relayWait := t.toInt.toNat } := ⟨rfl, rfl, rfl, rfl, rfl⟩

theorem switches_cfg (cfg : Config) (b : Bool) (t : Int64) :
    applyEffs cfg [setB "a.lite" b] = { cfg with lite := b } ∧
    applyEffs cfg [setB "a.enableUseCandidateCheckPriority" true] = { cfg with useCandCheckPriority := true } ∧
    applyEffs cfg [setB "a.enableRenomination" true, Eff.set "a.nominationValueGenerator" (Val.s "generator")]
      = { cfg with enableRenomination := true } ∧
    applyEffs cfg [setB "a.automaticRenomination" true, setI "a.renominationInterval" t]
      = { cfg with autoRenom := true, renomInterval := t.toInt.toNat } ∧
    applyEffs cfg [setB "a.automaticRenomination" true] = { cfg with autoRenom := true } := ⟨rfl, rfl, rfl, rfl, rfl⟩

/-- automatic renomination alone leaves `enableRenomination` as it was: the model's `autoRenom` block runs only under both -/
theorem auto_does_not_enable (cfg : Config) (interval : Int64) :
    (applyEffs cfg (IceGen.opt_WithAutomaticRenomination false interval).1).enableRenomination = cfg.enableRenomination ∧
    (applyEffs cfg (IceGen.opt_WithAutomaticRenomination false interval).1).autoRenom = true := by
  rw [WithAutomaticRenomination_tie]
  unfold guard
  by_cases h : interval > 0 <;> simp [h] <;> exact ⟨rfl, rfl⟩

end IceTie.Options
