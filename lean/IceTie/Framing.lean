import IceProofs.Framing
import IceGen.T_Framing
/-!
# Tie T for the RFC 4571 framing (tcp_mux.go `writeStreamingPacket`, `readStreamingPacket`)

Both functions are regenerated from the Go source on every run in effect mode (`IceGen.T_Framing`).
`writeStreamingPacket`: the too-long test, the 16-bit length written (`uint16(len(buf))`), ONE `conn.Write`, the
result `n - 2`.  `readStreamingPacket`: the two short-read loops are cut out as the effects `fillHeader` /
`fillBody` (their exact source text is pinned by the spec: any edit inside them is a translation failure; their
behaviour is the model's `fill`), everything between and after them is translated: a failing header read returns
`(0, err)`, a declared length above `cap(buf)` returns `(length, io.ErrShortBuffer)` BEFORE any body read, the body
loop starts from 0, a failing body read returns `(0, err)`, otherwise the number of bytes read.

Proved equal to `IceModel.Framing.write` / `readPacket` for every packet, every connection (segment list) and
every buffer capacity.
-/
namespace IceTie.Framing
open IceModel IceModel.Framing IceProofs.Framing

/-! ## Go `int` arithmetic on lengths -/

theorem toInt_ofNat (n : Nat) (h : n < 2 ^ 63) : (Int64.ofNat n).toInt = n := Int64.toInt_ofNat_of_lt h

theorem gt_iff (n k : Nat) (h : n < 2 ^ 63) (hk : k < 2 ^ 63) :
    decide (Int64.ofNat n > Int64.ofNat k) = decide (n > k) := by
  have hlt : Int64.ofNat n > Int64.ofNat k ↔ (Int64.ofNat k).toInt < (Int64.ofNat n).toInt := Int64.lt_iff_toInt_lt
  rw [toInt_ofNat n h, toInt_ofNat k hk] at hlt
  by_cases hg : n > k
  · rw [decide_eq_true hg, decide_eq_true (hlt.mpr (by exact_mod_cast hg))]
  · rw [decide_eq_false hg, decide_eq_false (fun hh => hg (by exact_mod_cast hlt.mp hh))]

/-- `uint16(len(buf))`: the conversion truncates to 16 bits -/
theorem trunc16 (n : Nat) (h : n < 2 ^ 63) : (Int64.ofNat n).toUInt64.toUInt16.toNat = n % 65536 := by
  rw [UInt64.toNat_toUInt16, Int64.toUInt64_ofNat', UInt64.toNat_ofNat_of_lt' (by unfold UInt64.size; omega)]

theorem sub2 (n : Nat) (h : n + 2 < 2 ^ 63) : Int64.ofNat (n + 2) - 2 = Int64.ofNat n := by
  have := Int64.ofNat_sub (n + 2) 2 (by omega)
  rw [Nat.add_sub_cancel] at this
  exact this.symm

/-! ## writer -/

def ePut (v : Nat) : Eff := Eff.call "putLength" [Val.n v]
def eCopy : Eff := Eff.call "copyPayloadAt2" []
def eWrite : Eff := Eff.call "write" []

/-- **T: `writeStreamingPacket`** for every length that is a Go `int`, both outcomes of `conn.Write` and any count it
returns -/
theorem writeStreamingPacket_tie (len : Nat) (h : len < 2 ^ 63) (writeFails : Bool) (n : Int64) :
    IceGen.writeStreamingPacket (Int64.ofNat len) writeFails n
      = if len > 65535 then ([], (0, "ErrShortBuffer"))
        else ([ePut (len % 65536), eCopy, eWrite], if writeFails then (0, "err") else (n - 2, "nil")) := by
  unfold IceGen.writeStreamingPacket Eff.pre
  have hg := gt_iff len 65535 h (by decide)
  change decide (Int64.ofNat len > 65535) = _ at hg
  rw [hg, trunc16 len h]
  by_cases hl : len > 65535
  · simp [hl]
  · simp only [hl, decide_false, Bool.false_eq_true, if_false]
    cases writeFails <;> rfl

/-- the writer's result as the model records it: first result, error class, number of `conn.Write` calls, the value put in
the length field -/
def outOf (g : List Eff × (Int64 × String)) : Int × Option WErr × Nat × List Nat :=
  (g.2.1.toInt,
   (if g.2.2 == "ErrShortBuffer" then some .tooLong else if g.2.2 == "err" then some .io else none),
   (g.1.filter (· == eWrite)).length,
   g.1.filterMap (fun e => match e with | Eff.call "putLength" [Val.n v] => some v | _ => none))

/-- … is the model's `write` on a connection that accepts the whole buffer (`n = len(bufCopy)`) or fails: same result,
same error, one write of the encoded packet, and the length field holds what `header` encodes (`len mod 2^16`, which is
`len` for every accepted packet) -/
theorem writeStreamingPacket_model (connFails : Bool) (p : List UInt8) (h : p.length + 2 < 2 ^ 63) :
    outOf (IceGen.writeStreamingPacket (Int64.ofNat p.length) connFails (Int64.ofNat (encode p).length))
      = (((write connFails p).n : Int), (write connFails p).err, (write connFails p).wire.length,
         if p.length > 65535 then [] else [decodeLen (header p.length)]) := by
  rw [writeStreamingPacket_tie p.length (by omega)]
  unfold write outOf
  have hl : (encode p).length = p.length + 2 := by simp [encode, header]
  have hd : decodeLen (header p.length) = p.length % 65536 := by
    obtain ⟨hi, lo, e1, e2⟩ := header_toNat_mod p.length
    rw [e1, decodeLen_pair, e2]
  by_cases hg : p.length > 65535
  · simp [hg]
  · simp only [hg, if_false, hl, sub2 p.length h, hd]
    cases connFails
    · simp [toInt_ofNat p.length (by omega), eWrite, ePut, eCopy]
    · simp [eWrite, ePut, eCopy]

/-! ## reader -/

def eFillHeader : Eff := Eff.call "fillHeader" []
def eFillBody : Eff := Eff.call "fillBody" []

/-- **T: `readStreamingPacket`**, all arguments -/
theorem readStreamingPacket_tie (headerFails : Bool) (length capBuf : Int64) (bodyFails : Bool) (bodyRead : Int64) :
    IceGen.readStreamingPacket headerFails length capBuf bodyFails bodyRead
      = if headerFails then ([eFillHeader], (0, "err"))
        else if length > capBuf then ([eFillHeader], (length, "ErrShortBuffer"))
        else if bodyFails then ([eFillHeader, eFillBody], (0, "err"))
        else ([eFillHeader, eFillBody], (bodyRead, "nil")) := by
  unfold IceGen.readStreamingPacket Eff.pre
  cases headerFails <;> by_cases h : length > capBuf <;> cases bodyFails <;> simp [h, eFillHeader, eFillBody]

/-- the result of one call as the model records it -/
def resOf (g : List Eff × (Int64 × String)) (e : IoErr) (body : List UInt8) : Res :=
  if g.2.2 == "err" then .err e else if g.2.2 == "ErrShortBuffer" then .shortBuffer g.2.1.toInt.toNat else .pkt body

/-- … is the model's `readPacket`: with the header loop = `fill segs 2`, the length = `decodeLen` of the two bytes, the body
loop = `fill` of the rest for `length` bytes — for every segmentation of every stream, every capacity and terminal error.
The body loop is entered (`fillBody`) exactly when the header was read and the declared length fits the buffer. -/
theorem readStreamingPacket_model (cap : Nat) (hc : cap < 2 ^ 63) (e : IoErr) (segs : Segs) :
    let f1 := fill segs 2
    let len := decodeLen (f1.1.getD [])
    let f2 := fill f1.2.1 len
    let g := IceGen.readStreamingPacket f1.1.isNone (Int64.ofNat len) (Int64.ofNat cap) f2.1.isNone
                (Int64.ofNat (f2.1.getD []).length)
    resOf g e (f2.1.getD []) = (readPacket cap e segs).1 ∧
    (g.1.contains eFillBody = (f1.1.isSome && decide (len ≤ cap))) := by
  intro f1 len f2 g
  have hlen : len ≤ 65535 := decodeLen_le _
  have hgt : decide (Int64.ofNat len > Int64.ofNat cap) = decide (len > cap) := gt_iff len cap (by omega) hc
  simp only [g, readStreamingPacket_tie]
  unfold readPacket
  cases h1 : f1.1 with
  | none =>
    have : fill segs 2 = (none, (fill segs 2).2.1, (fill segs 2).2.2) := by
      have : (fill segs 2).1 = none := h1
      rw [← this]
    rw [this]
    simp [resOf, eFillHeader, eFillBody]
  | some hd =>
    have e1 : fill segs 2 = (some hd, (fill segs 2).2.1, (fill segs 2).2.2) := by
      have : (fill segs 2).1 = some hd := h1
      rw [← this]
    have hlen' : len = decodeLen hd := by simp only [len, h1, Option.getD_some]
    rw [e1]
    simp only [Option.isNone_some, Bool.false_eq_true, if_false, Option.isSome_some, Bool.true_and]
    by_cases hg : len > cap
    · have : Int64.ofNat len > Int64.ofNat cap := by
        have := hgt; simp only [hg, decide_true] at this; exact of_decide_eq_true this
      simp only [this, if_true, ← hlen', hg]
      refine ⟨?_, ?_⟩
      · simp [resOf, toInt_ofNat len (by omega)]
      · simp [eFillHeader, eFillBody]; omega
    · have : ¬ Int64.ofNat len > Int64.ofNat cap := by
        have := hgt; simp only [hg, decide_false] at this; exact of_decide_eq_false this
      simp only [this, if_false, ← hlen', hg]
      have hf2 : f2 = fill (fill segs 2).2.1 len := rfl
      cases h2 : f2.1 with
      | none =>
        have e2 : fill (fill segs 2).2.1 len = (none, (fill (fill segs 2).2.1 len).2.1, (fill (fill segs 2).2.1 len).2.2) := by
          have : (fill (fill segs 2).2.1 len).1 = none := by rw [← hf2]; exact h2
          rw [← this]
        rw [e2]
        simp [resOf, eFillHeader, eFillBody]
        omega
      | some b =>
        have e2 : fill (fill segs 2).2.1 len = (some b, (fill (fill segs 2).2.1 len).2.1, (fill (fill segs 2).2.1 len).2.2) := by
          have : (fill (fill segs 2).2.1 len).1 = some b := by rw [← hf2]; exact h2
          rw [← this]
        rw [e2]
        simp [resOf, eFillHeader, eFillBody]
        omega

end IceTie.Framing
