import IceGen.T_Agent
import IceProofs.AgentC03LiteNom
/-!
# Tie T for the controlled selector's switch rule

`controlledSelector.shouldSwitchSelectedPair`, `Agent.needsToCheckPriorityOnNominated` and
`controlledSelector.shouldAcceptNomination` are regenerated from selection.go / agent.go on every run
(`IceGen.T_Agent`).  Here they are proved equal, for ALL arguments, to the decisions the model takes:
`shouldSwitch` is the expression `cldHandleRequest` uses inline (`sw := …`, mirrored verbatim as
`IceProofs.C03.cldSw`; `cldHandleRequest_eq` — proved by `rfl` — shows that `Agent.cldHandleRequest`
is built from it), `needsPrioCheck` and `acceptsNomination`/`cldAccept`.
-/
set_option linter.unusedSimpArgs false
namespace IceTie.AgentSwitch
open IceModel.AgentCore IceProofs.C03

/-- model side of `shouldSwitchSelectedPair` (priorities as `Nat`) -/
def shouldSwitch (hasSelected samePair hasValue hasLast needsPrio : Bool) (selPrio pairPrio : Nat) : Bool :=
  if !hasSelected then true
  else if samePair then false
  else if hasValue then true
  else if hasLast then false
  else !needsPrio || decide (selPrio < pairPrio)

/-- the generated function equals the model's rule for all arguments -/
theorem shouldSwitch_gen_eq_model (hasSelected samePair hasValue hasLast needsPrio : Bool) (sp pp : UInt64) :
    IceGen.controlledSelector_shouldSwitchSelectedPair hasSelected samePair hasValue hasLast needsPrio sp pp =
    shouldSwitch hasSelected samePair hasValue hasLast needsPrio sp.toNat pp.toNat := by
  unfold IceGen.controlledSelector_shouldSwitchSelectedPair shouldSwitch
  simp only [UInt64.lt_iff_toNat_lt]

/-- the inline expression of `cldHandleRequest` (`cldSw`) is `shouldSwitch` of the corresponding arguments -/
theorem cldSw_eq_shouldSwitch (a : Agent) (id : Nat) (m : Msg) (p : Pair) :
    cldSw a id m p =
    match a.selected.bind a.pairById with
    | none => shouldSwitch false false m.nom.isSome a.lastNomination.isSome (needsPrioCheck a.cfg) 0 (a.pairPrio p)
    | some sp => shouldSwitch true (sp.id == id) m.nom.isSome a.lastNomination.isSome (needsPrioCheck a.cfg)
        (a.pairPrio sp) (a.pairPrio p) := by
  unfold cldSw shouldSwitch
  cases a.selected.bind a.pairById with
  | none => rfl
  | some sp => simp only [Bool.not_true, Bool.false_eq_true, if_false]

/-- … and `Agent.cldHandleRequest` is literally built from `cldSw` (definitional unfolding) -/
theorem cldHandleRequest_uses_cldSw (a : Agent) (now : Nat) (m : Msg) (l r : Cand) :
    a.cldHandleRequest now m l r =
    if (m.useCand || m.nom.isSome) && !(cldAccept (cldPre a m l r).1 m).2 then
      (cldAccept (cldPre a m l r).1 m).1.sendSuccess now m l r
    else
      cldTail (cldNom (cldAccept (cldPre a m l r).1 m).1 (cldPre a m l r).2 m).1 now m l r (cldPre a m l r).2
        (cldNom (cldAccept (cldPre a m l r).1 m).1 (cldPre a m l r).2 m).2 :=
  cldHandleRequest_eq a now m l r

theorem needsPrio_gen_eq_model (cfg : Config) :
    IceGen.agent_needsToCheckPriorityOnNominated cfg.lite cfg.useCandCheckPriority = needsPrioCheck cfg := rfl

theorem needsPrio_gen_eq_model' (lite ucp : Bool) :
    IceGen.agent_needsToCheckPriorityOnNominated lite ucp =
    needsPrioCheck { lite := lite, useCandCheckPriority := ucp } := rfl

/-- `shouldAcceptNomination`: the generated decision equals the model's (`acceptsNomination`), where the
arguments are the optional nomination value of the message and the selector's `lastNomination` -/
theorem shouldAccept_gen_eq_model (a : Agent) (m : Msg) (v last : UInt32)
    (hv : m.nom = none ∨ m.nom = some v.toNat) (hl : a.lastNomination = none ∨ a.lastNomination = some last.toNat) :
    (IceGen.controlledSelector_shouldAcceptNomination m.nom.isSome v a.lastNomination.isSome last).2 =
    acceptsNomination a m := by
  unfold IceGen.controlledSelector_shouldAcceptNomination acceptsNomination
  rcases hv with hv | hv <;> rcases hl with hl | hl <;>
    simp [hv, hl, IceModel.Eff.pre, UInt32.lt_iff_toNat_lt] <;> split <;> simp_all [IceModel.Eff.pre]

end IceTie.AgentSwitch
