import IceModel.Rewrite
import IceGen.T_Rewrite
/-!
# Tie T for the address rewrite rules: the definitions regenerated from the Go source equal the model

`catchAllSpecificity` (external_ip_mapper.go), `defaultAddressRewriteMode` (agent_options.go),
`addressRewriteRuleMapping.isFamilyAllowed` / `hasMappings`, `NetworkType.IsIPv4` / `IsIPv6`.
Each theorem is for ALL arguments; a changed constant, comparison or branch in the Go source changes
the generated term and the theorem stops checking.
-/
set_option linter.unusedSimpArgs false
namespace IceTie.Rewrite
open IceModel.Rewrite

theorem catchAllSpecificity_tie (ruleIface : String) (hasCIDR : Bool) (iface : String) :
    IceGen.catchAllSpecificity ruleIface hasCIDR iface
      = Int64.ofNat (catchAllSpecificity ruleIface hasCIDR iface) := by
  unfold IceGen.catchAllSpecificity catchAllSpecificity
  by_cases h1 : ruleIface = "" <;> by_cases h2 : iface = "" <;> cases hasCIDR <;> simp [h1, h2] <;> rfl

theorem catchAllSpecificity_toInt (ruleIface : String) (hasCIDR : Bool) (iface : String) :
    (IceGen.catchAllSpecificity ruleIface hasCIDR iface).toInt
      = (catchAllSpecificity ruleIface hasCIDR iface : Int) := by
  rw [catchAllSpecificity_tie]
  unfold catchAllSpecificity
  by_cases h1 : ruleIface = "" <;> by_cases h2 : iface = "" <;> cases hasCIDR <;> simp [h1, h2] <;> rfl

theorem defaultMode_tie (ct : UInt8) :
    IceGen.defaultAddressRewriteMode ct = Int64.ofNat (defaultMode ct.toNat) := by
  unfold IceGen.defaultAddressRewriteMode defaultMode
  by_cases h0 : ct = 0
  · subst h0; rfl
  by_cases h1 : ct = 1
  · subst h1; rfl
  have e0 : ct.toNat ≠ 0 := fun h => h0 (UInt8.toNat_inj.mp (by simpa using h))
  have e1 : ct.toNat ≠ 1 := fun h => h1 (UInt8.toNat_inj.mp (by simpa using h))
  simp [h0, h1, e0, e1]

theorem isFamilyAllowed_tie (a4 a6 isV4 : Bool) :
    IceGen.ruleMapping_isFamilyAllowed a4 a6 isV4 = isFamilyAllowed a4 a6 isV4 := by
  cases isV4 <;> rfl

theorem hasMappings_tie (r : CRule) :
    IceGen.ruleMapping_hasMappings r.m4.valid r.m6.valid = r.hasMappings := rfl

theorem ofNat_eq_lit (n k : Nat) (h : n < 2 ^ 63) (hk : k < 2 ^ 63) :
    (Int64.ofNat n == Int64.ofNat k) = (n == k) := by
  by_cases hnk : n = k
  · subst hnk; simp
  · have : Int64.ofNat n ≠ Int64.ofNat k := by
      intro he
      have := congrArg Int64.toInt he
      rw [Int64.toInt_ofNat_of_lt h, Int64.toInt_ofNat_of_lt hk] at this
      exact hnk (by exact_mod_cast this)
    have h1 : (Int64.ofNat n == Int64.ofNat k) = false := by
      cases hb : (Int64.ofNat n == Int64.ofNat k)
      · rfl
      · exact absurd (eq_of_beq hb) this
    have h2 : (n == k) = false := by
      cases hb : (n == k)
      · rfl
      · exact absurd (eq_of_beq hb) hnk
    rw [h1, h2]

theorem netIsV4_tie (n : Nat) (h : n < 2 ^ 63) :
    IceGen.networkType_IsIPv4 (Int64.ofNat n) = netIsV4 n := by
  unfold IceGen.networkType_IsIPv4 netIsV4
  have e1 := ofNat_eq_lit n 1 h (by decide)
  have e2 := ofNat_eq_lit n 2 h (by decide)
  have e3 := ofNat_eq_lit n 3 h (by decide)
  have e4 := ofNat_eq_lit n 4 h (by decide)
  change (Int64.ofNat n == 1) = _ at e1
  change (Int64.ofNat n == 2) = _ at e2
  change (Int64.ofNat n == 3) = _ at e3
  change (Int64.ofNat n == 4) = _ at e4
  rw [e1, e2, e3, e4]
  cases h1 : (n == 1) <;> cases h3 : (n == 3) <;> simp

theorem netIsV6_tie (n : Nat) (h : n < 2 ^ 63) :
    IceGen.networkType_IsIPv6 (Int64.ofNat n) = netIsV6 n := by
  unfold IceGen.networkType_IsIPv6 netIsV6
  have e1 := ofNat_eq_lit n 1 h (by decide)
  have e2 := ofNat_eq_lit n 2 h (by decide)
  have e3 := ofNat_eq_lit n 3 h (by decide)
  have e4 := ofNat_eq_lit n 4 h (by decide)
  change (Int64.ofNat n == 1) = _ at e1
  change (Int64.ofNat n == 2) = _ at e2
  change (Int64.ofNat n == 3) = _ at e3
  change (Int64.ofNat n == 4) = _ at e4
  rw [e1, e2, e3, e4]
  cases h1 : (n == 1) <;> cases h2 : (n == 2) <;> cases h3 : (n == 3) <;> cases h4 : (n == 4) <;> simp_all

/-- Negative `NetworkType` values (not representable in the model's `Nat` codes) are of no family. -/
theorem netIs_neg (t : Int64) (h : t.toInt < 0) :
    IceGen.networkType_IsIPv4 t = false ∧ IceGen.networkType_IsIPv6 t = false := by
  have ne : ∀ k : Int64, 0 ≤ k.toInt → (t == k) = false := by
    intro k hk
    cases hb : (t == k)
    · rfl
    · have := eq_of_beq hb; subst this; omega
  unfold IceGen.networkType_IsIPv4 IceGen.networkType_IsIPv6
  rw [ne 1 (by decide), ne 2 (by decide), ne 3 (by decide), ne 4 (by decide)]
  simp

end IceTie.Rewrite
