import IceProofs.AgentRemoteDecision
import IceGen.T_Remote
import IceGen.T_Cand
/-!
# Tie T for remote-candidate bookkeeping (agent.go `AddRemoteCandidate`, `addRemoteCandidate`) and for
`Cand.taEqual` / `Cand.equal` of the agent model (candidate_base.go)

`Agent.AddRemoteCandidate` and `Agent.addRemoteCandidate` are regenerated in effect mode (`IceGen.T_Remote`): the
list of effects in program order and the result, as a function of the values read.  The theorems give the list
for ALL arguments and relate it to the model: the TCP-active gate of `step (.addRemote …)`, the filter and
duplicate exits of `Agent.addRemoteCandidate`, the pairing rule for passive remotes.  The equality functions of
`IceGen.T_Cand`, with their parameters instantiated for two DISTINCT resolved candidates of the agent model, are
`Cand.taEqual` / `Cand.equal`.
-/
namespace IceTie.AgentRemote
open IceModel IceModel.AgentCore IceProofs.Agent

/-! ## `AddRemoteCandidate` (public entry) -/

def eGoAdd : Eff := Eff.call "go:addRemoteCandidate" []
def eGoResolve : Eff := Eff.call "go:resolveAndAddMulticastCandidate" []

/-- **T: `Agent.AddRemoteCandidate`**, all arguments: nil and tcptype-active candidates are dropped; an mDNS host
name is dropped when mDNS is disabled (mode 1), an error when it is not a `*CandidateHost`, otherwise resolved in a
goroutine; everything else is handed to the task loop.  (`TCPTypeActive` = 1, `CandidateTypeHost` = 1,
`MulticastDNSModeDisabled` = 1.) -/
theorem AddRemoteCandidate_tie (isNil : Bool) (tcpType : Int64) (ty : UInt8) (dotLocal : Bool) (mdnsMode : UInt8)
    (isHostObject : Bool) :
    IceGen.agent_AddRemoteCandidate isNil tcpType ty dotLocal mdnsMode isHostObject
      = if isNil || tcpType == 1 then ([], "nil")
        else if ty == 1 && dotLocal then
          (if mdnsMode == 1 then ([], "nil")
           else if !isHostObject then ([], "ErrAddressParseFailed") else ([eGoResolve], "nil"))
        else ([eGoAdd], "nil") := by
  unfold IceGen.agent_AddRemoteCandidate Eff.pre
  cases isNil <;> cases (tcpType == 1) <;> cases (ty == 1 && dotLocal) <;> cases (mdnsMode == 1) <;>
    cases isHostObject <;> rfl

theorem ofNat_beq (n k : Nat) (h : n < 2 ^ 63) (hk : k < 2 ^ 63) :
    (Int64.ofNat n == Int64.ofNat k) = (n == k) := by
  by_cases hnk : n = k
  · subst hnk; simp
  · have : Int64.ofNat n ≠ Int64.ofNat k := by
      intro he
      have := congrArg Int64.toInt he
      rw [Int64.toInt_ofNat_of_lt h, Int64.toInt_ofNat_of_lt hk] at this
      exact hnk (by exact_mod_cast this)
    rw [beq_eq_false_iff_ne.mpr this, beq_eq_false_iff_ne.mpr hnk]

/-- for a signalled candidate `c` of the model (not nil, an IP literal): it reaches the task iff its tcptype is not
active — the gate of `step (.addRemote now c)` -/
theorem AddRemoteCandidate_gate (c : Cand) (ty : UInt8) (mdnsMode : UInt8) (isHostObject : Bool) (h : c.tt < 2 ^ 63) :
    (IceGen.agent_AddRemoteCandidate false (Int64.ofNat c.tt) ty false mdnsMode isHostObject).1
      = if c.tt == 1 then [] else [eGoAdd] := by
  rw [AddRemoteCandidate_tie]
  have e : (Int64.ofNat c.tt == 1) = (c.tt == 1) := ofNat_beq c.tt 1 h (by decide)
  simp only [Bool.false_or, Bool.and_false, e]
  cases (c.tt == 1) <;> rfl

/-! ## `addRemoteCandidate` (the task) -/

def eReplace : Eff := Eff.call "replaceRedundantPrflx" []
def ePassive : Eff := Eff.call "addRemotePassiveTCPCandidate" []
def eAppend : Eff := Eff.call "appendRemote" []
def eStore : Eff := Eff.call "storeRemotes" []
def eFor : Eff := Eff.call "for:locals" []
def eAddPair : Eff := Eff.call "addPair" []
def eEnd : Eff := Eff.call "end:locals" []
def eCheck : Eff := Eff.call "requestConnectivityCheck" []

/-- **T: `Agent.addRemoteCandidate`**, all arguments: a filtered candidate → `false`, nothing touched; an `Equal`
candidate listed → `true`, nothing touched; otherwise supersede peer-reflexive candidates, (a passive candidate of an
enabled network type with active TCP on and the host candidate type enabled — fix of C18-G13 —: dial it), append and store, pair with every local candidate of the network
type that has no pair yet UNLESS the candidate is tcptype passive, request a check, `true`.  (`TCPTypePassive` = 2;
the loop over the local candidates is one iteration between `for:locals` and `end:locals`.) -/
theorem addRemoteCandidate_tie (accepted : Bool) (equalListed : List Bool) (disableActiveTCP : Bool) (tcpType : Int64)
    (hostEnabled netEnabled hasLocals noPair : Bool) :
    IceGen.agent_addRemoteCandidate accepted equalListed disableActiveTCP tcpType hostEnabled netEnabled hasLocals noPair
      = if !accepted then ([], false)
        else if equalListed.any id then ([], true)
        else ([eReplace] ++ (if !disableActiveTCP && tcpType == 2 && hostEnabled && netEnabled then [ePassive] else [])
              ++ [eAppend, eStore]
              ++ (if tcpType != 2 && hasLocals then [eFor] ++ (if noPair then [eAddPair] else []) ++ [eEnd] else [])
              ++ [eCheck], true) := by
  unfold IceGen.agent_addRemoteCandidate Eff.pre
  have hany : (equalListed.any fun candidate => candidate) = equalListed.any id := rfl
  rw [hany]
  cases accepted <;> cases (equalListed.any id) <;> try rfl
  have hne : (tcpType != 2) = !(tcpType == 2) := rfl
  rw [hne]
  cases disableActiveTCP <;> cases (tcpType == 2) <;> cases hostEnabled <;> cases netEnabled <;> cases hasLocals <;> cases noPair <;> rfl

/-- the model's filter and duplicate exits are the two exits of the Go task that touch nothing -/
theorem addRemoteCandidate_exits (a : Agent) (c : Cand) (dis : Bool) (tt : Int64) (he ne hl np : Bool) :
    (a.cfg.blockedIPs.contains (ipOf c.addr) = true →
      IceGen.agent_addRemoteCandidate false ((a.remotes.filter (·.net == c.net)).map (·.equal c)) dis tt he ne hl np = ([], false)
      ∧ a.addRemoteCandidate c = (a, [], none)) ∧
    (∀ e, a.cfg.blockedIPs.contains (ipOf c.addr) = false →
      (a.remotes.filter (·.net == c.net)).find? (·.equal c) = some e →
      IceGen.agent_addRemoteCandidate true ((a.remotes.filter (·.net == c.net)).map (·.equal c)) dis tt he ne hl np = ([], true)
      ∧ a.addRemoteCandidate c = (a, [], some e)) := by
  refine ⟨fun h => ⟨by rw [addRemoteCandidate_tie]; rfl, addRemoteCandidate_filtered a c h⟩, fun e h hd => ⟨?_, addRemoteCandidate_duplicate a c e h hd⟩⟩
  rw [addRemoteCandidate_tie]
  have := duplicate_iff_any a c
  rw [hd] at this
  simp only [Option.isSome_some] at this
  simp [← this]

/-- the pairing rule: the Go task runs the pairing loop iff the candidate is not tcptype passive, and the model pairs
with the local candidates of the network type iff `c.tt != 2` -/
theorem addRemoteCandidate_pairing (a : Agent) (c : Cand) (h : c.tt < 2 ^ 63) (eq : List Bool) (dis he ne np : Bool)
    (hnodup : eq.any id = false) :
    (IceGen.agent_addRemoteCandidate true eq dis (Int64.ofNat c.tt) he ne true np).1.contains eFor = (c.tt != 2) ∧
    (a.locals.filter fun (x : Cand) => x.net == c.net && c.tt != 2)
      = (if c.tt != 2 then a.locals.filter (fun x => x.net == c.net) else []) := by
  refine ⟨?_, pairing_locals a c⟩
  rw [addRemoteCandidate_tie]
  have e : (Int64.ofNat c.tt == 2) = (c.tt == 2) := ofNat_beq c.tt 2 h (by decide)
  have hne : (Int64.ofNat c.tt != 2) = !(Int64.ofNat c.tt == 2) := rfl
  have hne' : (c.tt != 2) = !(c.tt == 2) := rfl
  rw [hne, e, hnodup, hne']
  generalize (c.tt == 2) = b
  cases b <;> cases dis <;> cases he <;> cases ne <;> cases np <;> decide

/-! ## `Cand.taEqual`, `Cand.equal` of the agent model -/

/-- the kind of the resolved `net.Addr`: a `*net.TCPAddr` iff the network type is TCP and the candidate is host or
peer-reflexive (`createAddr`); server-reflexive and relay candidates resolve to a `*net.UDPAddr` -/
def tcpAddrKind (c : Cand) : Bool := isTCP c.net && !c.udpResolved

/-- address ids are tagged by the network (`AgentCore.tcpBase`): UDP ids below `tcpBase`, TCP ids in
`[tcpBase, 2·tcpBase)` -/
def AddrWF (c : Cand) : Prop :=
  (isTCP c.net = true → tcpBase ≤ c.addr ∧ c.addr < 2 * tcpBase) ∧ (isTCP c.net = false → c.addr < tcpBase)

theorem addr_eq_iff (a b : Cand) (ha : AddrWF a) (hb : AddrWF b) (hn : a.net = b.net) :
    (a.addr = b.addr) ↔ (ipOf a.addr = ipOf b.addr ∧ a.addr % 16 = b.addr % 16) := by
  unfold AddrWF at ha hb
  rw [← hn] at hb
  unfold ipOf tcpBase at *
  cases ht : isTCP a.net
  · have h1 := ha.2 ht; have h2 := hb.2 ht; omega
  · have h1 := ha.1 ht; have h2 := hb.1 ht; omega

/-- **T: `transportAddressEqual` on two distinct candidates of the agent model.**  `c.addr() != other.addr()` is true
(two objects) and neither is nil; `addrEqual` compares the kind of `net.Addr`, the canonical IP and the port;
`sameAddressLiteral` compares canonical IPs (`form` plays no role); the port is the id's port slot -/
theorem taEqual_tie (a b : Cand) (ha : AddrWF a) (hb : AddrWF b)
    (hna : a.net < 2 ^ 62) (hnb : b.net < 2 ^ 62) (hta : a.tt < 2 ^ 63) (htb : b.tt < 2 ^ 63) :
    IceGen.candidateBase_transportAddressEqual true false false
        (tcpAddrKind a == tcpAddrKind b && ipOf a.addr == ipOf b.addr && a.addr % 16 == b.addr % 16)
        (Int64.ofNat (a.net + 1)) (Int64.ofNat (b.net + 1)) (ipOf a.addr == ipOf b.addr)
        (Int64.ofNat (a.addr % 16)) (Int64.ofNat (b.addr % 16)) (Int64.ofNat a.tt) (Int64.ofNat b.tt)
      = a.taEqual b := by
  unfold IceGen.candidateBase_transportAddressEqual Cand.taEqual
  rw [ofNat_beq _ _ (by omega) (by omega), ofNat_beq _ _ (by omega) (by omega), ofNat_beq _ _ hta htb]
  simp only [if_true, Bool.or_self, Bool.false_eq_true, if_false]
  by_cases hn : a.net = b.net
  · have hiff := addr_eq_iff a b ha hb hn
    by_cases hadd : a.addr = b.addr
    · obtain ⟨h1, h2⟩ := hiff.mp hadd
      unfold tcpAddrKind
      simp only [hn, hadd, beq_self_eq_true, Bool.and_true, Bool.true_and]
      cases isTCP b.net <;> cases a.udpResolved <;> cases b.udpResolved <;> cases (a.tt == b.tt) <;> rfl
    · have hne : ¬ (ipOf a.addr = ipOf b.addr ∧ a.addr % 16 = b.addr % 16) := fun h => hadd (hiff.mpr h)
      have e1 : (a.addr == b.addr) = false := beq_eq_false_iff_ne.mpr hadd
      rw [e1]
      by_cases hi : ipOf a.addr = ipOf b.addr
      · have hp : (a.addr % 16 == b.addr % 16) = false := beq_eq_false_iff_ne.mpr (fun h => hne ⟨hi, h⟩)
        simp [hp]
      · have hp : (ipOf a.addr == ipOf b.addr) = false := beq_eq_false_iff_ne.mpr hi
        simp [hp]
  · have e1 : (a.net == b.net) = false := beq_eq_false_iff_ne.mpr hn
    have e2 : (a.net + 1 == b.net + 1) = false := beq_eq_false_iff_ne.mpr (by omega)
    rw [e1, e2]
    simp

theorem u8ofNat_beq (n k : Nat) (h : n < 256) (hk : k < 256) : (UInt8.ofNat n == UInt8.ofNat k) = (n == k) := by
  by_cases hnk : n = k
  · subst hnk; simp
  · have : UInt8.ofNat n ≠ UInt8.ofNat k := by
      intro he
      have := congrArg UInt8.toNat he
      rw [UInt8.toNat_ofNat_of_lt' h, UInt8.toNat_ofNat_of_lt' hk] at this
      exact hnk this
    rw [beq_eq_false_iff_ne.mpr this, beq_eq_false_iff_ne.mpr hnk]

/-- **T: `Equal`** composed with the regenerated `transportAddressEqual`, on the model's candidates: the related
address is compared as a whole (`rel`) -/
theorem equal_tie (a b : Cand) (ha : AddrWF a) (hb : AddrWF b)
    (hna : a.net < 2 ^ 62) (hnb : b.net < 2 ^ 62) (hta : a.tt < 2 ^ 63) (htb : b.tt < 2 ^ 63)
    (hya : a.ty < 256) (hyb : b.ty < 256) :
    IceGen.candidateBase_Equal
        (IceGen.candidateBase_transportAddressEqual true false false
          (tcpAddrKind a == tcpAddrKind b && ipOf a.addr == ipOf b.addr && a.addr % 16 == b.addr % 16)
          (Int64.ofNat (a.net + 1)) (Int64.ofNat (b.net + 1)) (ipOf a.addr == ipOf b.addr)
          (Int64.ofNat (a.addr % 16)) (Int64.ofNat (b.addr % 16)) (Int64.ofNat a.tt) (Int64.ofNat b.tt))
        (UInt8.ofNat a.ty) (UInt8.ofNat b.ty) (a.rel == b.rel)
      = a.equal b := by
  rw [taEqual_tie a b ha hb hna hnb hta htb]
  unfold IceGen.candidateBase_Equal Cand.equal
  rw [u8ofNat_beq _ _ hya hyb]

end IceTie.AgentRemote
