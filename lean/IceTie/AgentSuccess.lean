import IceProofs.AgentSuccessDecision
import IceGen.T_Select
/-!
# Tie T for `HandleSuccessResponse` of both selectors and `isNominatable` (selection.go)

`controllingSelector.HandleSuccessResponse`, `controlledSelector.HandleSuccessResponse` (effect mode: the whole
function becomes the list of its effects in program order, as a function of the values it reads) and
`controllingSelector.isNominatable` are regenerated from the Go source on every run (`IceGen.T_Select`).

For ALL arguments the effect list is: `takePending` (`handleInboundBindingSuccess`), and — only when the
transaction was found, the response is symmetric and the pair exists — `pair.state := Succeeded`, the
selector's decision, `UpdateRoundTripTime`.  The decision is `ctlSuccessDecision` / `cldSuccessDecision` of
`IceProofs/AgentSuccessDecision.lean`, which `Agent.handleSuccess` of the model is built from
(`handleSuccess_nf`).  A changed comparison, a dropped or reordered branch, a missing or additional
`setSelectedPair` in the Go source changes the generated list and these theorems stop checking.
-/
namespace IceTie.AgentSuccess
open IceModel IceModel.AgentCore IceProofs.Agent

/-- pointer encoding of the translator: (`p != nil`, `*p`) -/
def optOf (has : Bool) (v : UInt32) : Option Nat := if has then some v.toNat else none

def eTake : Eff := Eff.call "takePending" []
/-- `CandidatePairStateSucceeded` = 4 (`iota + 1`: Waiting, InProgress, Failed, Succeeded) -/
def eSucceeded : Eff := Eff.set "pair.state" (Val.i 4)
def eSelect : Eff := Eff.call "setSelectedPair" []
def eRTT : Eff := Eff.call "updateRTT" []
def eAnswered (v : UInt32) : Eff := Eff.set "s.answeredNomination" (Val.n v.toNat)
def eClear : List Eff :=
  [Eff.set "pair.nominateOnBindingSuccess" (Val.b false), Eff.set "pair.deferredNominationValue" (Val.s "nil")]

/-- effects of the controlling decision `d` = (new `answeredNomination`, select?) for a request whose nomination
value is (`hasValue`, `value`): the value is recorded exactly when a VALUED nomination is followed -/
def ctlEffs (d : Option Nat × Bool) (hasValue : Bool) (value : UInt32) : List Eff :=
  if d.2 then (if hasValue then [eAnswered value] else []) ++ [eSelect] else []

/-- **T: `controllingSelector.HandleSuccessResponse`**, all arguments -/
theorem ctlHandleSuccess_tie (found symmetric hasPair useCand hasSelected hasValue : Bool) (value : UInt32)
    (hasAnswered : Bool) (answered : UInt32) :
    IceGen.controllingSelector_HandleSuccessResponse found symmetric hasPair useCand hasSelected hasValue value
        hasAnswered answered
      = eTake :: (if found && symmetric && hasPair then
          eSucceeded :: (ctlEffs (ctlSuccessDecision useCand (optOf hasValue value) (optOf hasAnswered answered) hasSelected)
            hasValue value ++ [eRTT])
        else []) := by
  unfold IceGen.controllingSelector_HandleSuccessResponse ctlEffs ctlSuccessDecision optOf
  have h : decide (value ≤ answered) = decide (value.toNat ≤ answered.toNat) := by
    simp [UInt32.le_iff_toNat_le]
  rw [h]
  cases found <;> cases symmetric <;> cases hasPair <;> try rfl
  cases useCand <;> cases hasValue <;> cases hasSelected <;> cases hasAnswered <;> try rfl
  all_goals (by_cases hv : value.toNat ≤ answered.toNat <;> simp [hv, eTake, eSucceeded, eSelect, eRTT, eAnswered])

/-- the new `answeredNomination` of the decision is the old one, or the request's value when it is recorded -/
theorem ctl_answered (useCand hasSelected hasValue : Bool) (value : UInt32) (answered : Option Nat) :
    (ctlSuccessDecision useCand (optOf hasValue value) answered hasSelected).1
      = if (ctlSuccessDecision useCand (optOf hasValue value) answered hasSelected).2 && hasValue
        then some value.toNat else answered := by
  unfold ctlSuccessDecision optOf
  cases useCand <;> cases hasValue <;> cases hasSelected <;> cases answered <;> simp
  all_goals (split <;> simp_all)

/-- **T: `controlledSelector.HandleSuccessResponse`**, all arguments -/
theorem cldHandleSuccess_tie (found symmetric hasPair nomOnSuccess hasSelected samePair hasValue : Bool) (value : UInt32)
    (hasLast : Bool) (last : UInt32) (needsPrio : Bool) (selectedPrio pairPrio : UInt64) :
    IceGen.controlledSelector_HandleSuccessResponse found symmetric hasPair nomOnSuccess hasSelected samePair hasValue
        value hasLast last needsPrio selectedPrio pairPrio
      = eTake :: (if found && symmetric && hasPair then
          eSucceeded :: ((if nomOnSuccess then
              (if cldSuccessDecision (optOf hasValue value) (optOf hasLast last) hasSelected samePair needsPrio
                    selectedPrio.toNat pairPrio.toNat then [eSelect] else []) ++ eClear
            else []) ++ [eRTT])
        else []) := by
  unfold IceGen.controlledSelector_HandleSuccessResponse cldSuccessDecision optOf
  have h1 : decide (value < last) = decide (value.toNat < last.toNat) := by simp [UInt32.lt_iff_toNat_lt]
  have h2 : decide (selectedPrio ≤ pairPrio) = decide (selectedPrio.toNat ≤ pairPrio.toNat) := by
    simp [UInt64.le_iff_toNat_le]
  rw [h1, h2]
  cases found <;> cases symmetric <;> cases hasPair <;> try rfl
  cases nomOnSuccess <;> try rfl
  cases hasValue <;> cases hasLast <;> cases hasSelected <;> cases samePair <;> cases needsPrio <;>
    by_cases hv : value.toNat < last.toNat <;> by_cases hq : selectedPrio.toNat ≤ pairPrio.toNat <;>
    simp [hv, hq, eTake, eSucceeded, eSelect, eRTT, eClear]

/-! ## `isNominatable` -/

/-- a non-negative `time.Duration` (`Nanoseconds()`) as `Nat` nanoseconds -/
def dur (x : Int64) : Nat := x.toInt.toNat

theorem ge_iff (a b : Int64) (ha : 0 ≤ a.toInt) (hb : 0 ≤ b.toInt) : decide (a ≥ b) = decide (dur a ≥ dur b) := by
  have hle : a ≥ b ↔ b.toInt ≤ a.toInt := Int64.le_iff_toInt_le
  by_cases h : a ≥ b
  · have h2 : dur a ≥ dur b := by have := hle.mp h; unfold dur; omega
    rw [decide_eq_true h, decide_eq_true h2]
  · have h1 : ¬ b.toInt ≤ a.toInt := fun h' => h (hle.mpr h')
    have h2 : ¬ dur a ≥ dur b := by unfold dur; omega
    rw [decide_eq_false h, decide_eq_false h2]

theorem u8_beq (x y : UInt8) : (x == y) = (x.toNat == y.toNat) := by
  by_cases h : x = y
  · subst h; rw [beq_self_eq_true, beq_self_eq_true]
  · have : x.toNat ≠ y.toNat := fun e => h (UInt8.toNat_inj.mp e)
    rw [beq_eq_false_iff_ne.mpr h, beq_eq_false_iff_ne.mpr this]

/-- **T: `controllingSelector.isNominatable`** — every candidate type code, all non-negative durations -/
theorem isNominatable_tie (ty : UInt8) (elapsed hw sw pw rw : Int64)
    (h0 : 0 ≤ elapsed.toInt) (h1 : 0 ≤ hw.toInt) (h2 : 0 ≤ sw.toInt) (h3 : 0 ≤ pw.toInt) (h4 : 0 ≤ rw.toInt) :
    IceGen.controllingSelector_isNominatable ty elapsed hw sw pw rw
      = nominatableAt ty.toNat (dur elapsed) (dur hw) (dur sw) (dur pw) (dur rw) := by
  unfold IceGen.controllingSelector_isNominatable nominatableAt
  rw [ge_iff _ _ h0 h1, ge_iff _ _ h0 h2, ge_iff _ _ h0 h3, ge_iff _ _ h0 h4, u8_beq, u8_beq, u8_beq, u8_beq]
  rfl

/-- … which is the model's `Agent.nominatable` when the arguments are the agent's -/
theorem isNominatable_model (a : Agent) (now : Nat) (c : Cand) (ty : UInt8) (elapsed hw sw pw rw : Int64)
    (h0 : 0 ≤ elapsed.toInt) (h1 : 0 ≤ hw.toInt) (h2 : 0 ≤ sw.toInt) (h3 : 0 ≤ pw.toInt) (h4 : 0 ≤ rw.toInt)
    (ht : ty.toNat = c.ty) (he : dur elapsed = now - a.selStart) (e1 : dur hw = a.cfg.hostWait)
    (e2 : dur sw = a.cfg.srflxWait) (e3 : dur pw = a.cfg.prflxWait) (e4 : dur rw = a.cfg.relayWait) :
    IceGen.controllingSelector_isNominatable ty elapsed hw sw pw rw = a.nominatable now c := by
  rw [isNominatable_tie ty elapsed hw sw pw rw h0 h1 h2 h3 h4, nominatable_inline, ht, he, e1, e2, e3, e4]

end IceTie.AgentSuccess
