import IceModel.Prio
import IceGen.T_Prio
/-!
# Tie T for priorities: the definitions regenerated from the Go source equal the model

Every theorem here is `∀ arguments, (IceGen.f args).toNat = IceModel.Prio.f (args as Nat)`, proved by
case analysis and arithmetic (semantic, not syntactic: reordering cases or renaming locals in the Go
source does not break them; changing an operator, constant or branch does).
-/
set_option linter.unusedSimpArgs false
namespace IceTie.Prio
open IceModel.Prio

theorem ofCode_cases (ty : UInt8) :
    (ty = 1 ∧ CandType.ofCode ty.toNat = .host) ∨ (ty = 2 ∧ CandType.ofCode ty.toNat = .srflx) ∨
    (ty = 3 ∧ CandType.ofCode ty.toNat = .prflx) ∨ (ty = 4 ∧ CandType.ofCode ty.toNat = .relay) ∨
    (ty ≠ 1 ∧ ty ≠ 2 ∧ ty ≠ 3 ∧ ty ≠ 4 ∧ CandType.ofCode ty.toNat = .unspecified) := by
  by_cases h1 : ty = 1
  · subst h1; simp [CandType.ofCode]
  by_cases h2 : ty = 2
  · subst h2; simp [CandType.ofCode]
  by_cases h3 : ty = 3
  · subst h3; simp [CandType.ofCode]
  by_cases h4 : ty = 4
  · subst h4; simp [CandType.ofCode]
  right; right; right; right
  refine ⟨h1, h2, h3, h4, ?_⟩
  have e1 : ty.toNat ≠ 1 := fun h => h1 (UInt8.toNat_inj.mp (by simpa using h))
  have e2 : ty.toNat ≠ 2 := fun h => h2 (UInt8.toNat_inj.mp (by simpa using h))
  have e3 : ty.toNat ≠ 3 := fun h => h3 (UInt8.toNat_inj.mp (by simpa using h))
  have e4 : ty.toNat ≠ 4 := fun h => h4 (UInt8.toNat_inj.mp (by simpa using h))
  unfold CandType.ofCode
  split <;> simp_all

/-- TCP type of the Go `int` value (`tcptype.go` iota order). -/
def tcpOf (t : Int64) : TcpType :=
  if t = 1 then .active else if t = 2 then .passive else if t = 3 then .so else .unspecified

theorem candType_pref_tie (ty : UInt8) :
    (IceGen.candidateType_Preference ty).toNat = basePref (CandType.ofCode ty.toNat) := by
  unfold IceGen.candidateType_Preference
  rcases ofCode_cases ty with ⟨h, e⟩ | ⟨h, e⟩ | ⟨h, e⟩ | ⟨h, e⟩ | ⟨h1, h2, h3, h4, e⟩
  all_goals (rw [e]; try subst h)
  all_goals simp [basePref, *]

theorem relayPref_tie (s : String) :
    (IceGen.relayProtocolPreference s).toNat = relayPref s := by
  unfold IceGen.relayProtocolPreference relayPref
  by_cases h1 : s = "tls" <;> by_cases h2 : s = "tcp" <;> by_cases h3 : s = "dtls" <;> simp [*]

theorem typePref_tie (ty : UInt8) (isTCP ha : Bool) (off : UInt16) :
    (IceGen.candidateBase_TypePreference ty isTCP ha off).toNat
      = typePreference (CandType.ofCode ty.toNat) isTCP (if ha then off.toNat else defaultTCPPriorityOffset) := by
  unfold IceGen.candidateBase_TypePreference IceGen.candidateType_Preference typePreference defaultTCPPriorityOffset
  rcases ofCode_cases ty with ⟨h, e⟩ | ⟨h, e⟩ | ⟨h, e⟩ | ⟨h, e⟩ | ⟨h1, h2, h3, h4, e⟩
  all_goals (rw [e]; try subst h)
  all_goals cases isTCP <;> cases ha <;> simp [basePref, *]
  all_goals
    (have := off.toNat_lt
     split <;> rename_i hlt <;> rw [UInt16.lt_iff_toNat_lt] at hlt <;> simp at hlt
       <;> (try rw [UInt16.toNat_sub]) <;> simp <;> (first | omega | (split <;> omega)))

theorem tcpOf_cases (t : Int64) :
    (t = 1 ∧ tcpOf t = .active) ∨ (t = 2 ∧ tcpOf t = .passive) ∨ (t = 3 ∧ tcpOf t = .so) ∨
    (t ≠ 1 ∧ t ≠ 2 ∧ t ≠ 3 ∧ tcpOf t = .unspecified) := by
  unfold tcpOf
  by_cases h1 : t = 1
  · subst h1; simp
  by_cases h2 : t = 2
  · subst h2; simp
  by_cases h3 : t = 3
  · subst h3; simp
  simp [*]

theorem localPref_tie (ty : UInt8) (isTCP : Bool) (tt : Int64) (relayLP : UInt16) :
    (IceGen.candidateBase_LocalPreference ty isTCP tt relayLP).toNat
      = localPreference (CandType.ofCode ty.toNat) isTCP (tcpOf tt) relayLP.toNat := by
  unfold IceGen.candidateBase_LocalPreference localPreference
  rcases ofCode_cases ty with ⟨h, e⟩ | ⟨h, e⟩ | ⟨h, e⟩ | ⟨h, e⟩ | ⟨h1, h2, h3, h4, e⟩
  all_goals (rw [e]; try subst h)
  all_goals cases isTCP
  all_goals rcases tcpOf_cases tt with ⟨g, f⟩ | ⟨g, f⟩ | ⟨g, f⟩ | ⟨g1, g2, g3, f⟩
  all_goals (rw [f]; try subst g)
  all_goals simp [directionPref, *]
  all_goals (split <;> simp_all)

theorem priority_tie (tp lp comp : UInt16) :
    (IceGen.candidateBase_Priority 0 tp lp comp).toNat = priority tp.toNat lp.toNat comp.toNat := by
  unfold IceGen.candidateBase_Priority priority
  have h1 := tp.toNat_lt
  have h2 := lp.toNat_lt
  have h3 := comp.toNat_lt
  simp [UInt32.toNat_add, UInt32.toNat_mul, UInt32.toNat_sub]
  omega

theorem priority_override_tie (ov : UInt32) (tp lp comp : UInt16) (h : ov ≠ 0) :
    IceGen.candidateBase_Priority ov tp lp comp = ov := by
  unfold IceGen.candidateBase_Priority
  simp [h]

theorem pairPriority_tie (ov : UInt64) (c : Bool) (l r : UInt32) :
    (IceGen.candidatePair_priority false ov c l r).toNat = pairPriority c l.toNat r.toNat := by
  unfold IceGen.candidatePair_priority pairPriority pairPriorityGD
  have h1 := l.toNat_lt
  have h2 := r.toNat_lt
  cases c <;> simp
  all_goals
    (by_cases hlt : l < r <;> by_cases hgt : r < l
     all_goals (have hlt' := hlt; have hgt' := hgt)
     all_goals (rw [UInt32.lt_iff_toNat_lt] at hlt' hgt')
     all_goals simp [hlt, hgt, UInt64.toNat_add, UInt64.toNat_mul]
     all_goals (simp only [Nat.min_def, Nat.max_def]; (repeat' split) <;> omega))

theorem pairPriority_override_tie (ov : UInt64) (c : Bool) (l r : UInt32) :
    IceGen.candidatePair_priority true ov c l r = ov := by
  unfold IceGen.candidatePair_priority
  simp

end IceTie.Prio
