import IceModel.TcpMux
import IceGen.T_Mux
/-!
# Tie T, round 3: where a new TCP connection goes (tcp_mux.go `handleConn`)

`TCPMuxDefault.handleConn` (whole function) is regenerated from the Go source on every run (`IceGen.T_Mux`, effect mode).  The
ufrag extraction `strings.Split(string(attr), ":")[0]` and the family test are pinned statements; the theorem states the effect
list for all outcomes of the tests, the corollary that a connection is attached iff every test passed and closed exactly once
otherwise — the decision of the model's `TcpMux.classify`.
-/
namespace IceTie.MuxTcp
open IceModel

def c (name : String) : Eff := Eff.call name []

/-! ## `handleConn` -/

/-- every test of the first frame passed -/
def tcpAccepted (readErr decodeErr mNil : Bool) (method : UInt16) (noUsername hostErr localIsTCP known createErr : Bool) : Bool :=
  !readErr && !decodeErr && !mNil && method == 1 && !noUsername && !hostErr && localIsTCP && (known || !createErr)

def tcpRoute (known : Bool) : List Eff :=
  [c "ufrag := USERNAME up to the first ':'", c "isIPv6 := remote host is not IPv4", c "mu.Lock", c "getConn(ufrag, isIPv6, local IP)"] ++
  (if known then [] else [c "createConn(ufrag, isIPv6, local IP, fromStun)"]) ++ [c "mu.Unlock"]

def tcpClose : Eff := c "close(conn)"
def tcpAdd : Eff := c "AddConn(conn, first frame); close(conn) on error"

/-- **T: `TCPMuxDefault.handleConn`**: the first frame is read (under the first-bind deadline when configured); a read error, a
frame that does not decode, a non-Binding method, a missing USERNAME, an unparsable remote host or a non-TCP local address each
close the connection and nothing else; otherwise the ufrag is the USERNAME up to the first ':', the packet conn is looked up —
created if missing — under `mu`, a failed creation closes the connection, and the connection is handed over with its first frame
AFTER the unlock -/
theorem handleConn_tie (hasTimeout armErr readErr shortBuf disarmErr decodeErr mNil : Bool) (method : UInt16)
    (noUsername hostErr localIsTCP known createErr : Bool) :
    IceGen.tcpMux_handleConn hasTimeout armErr readErr shortBuf disarmErr decodeErr mNil method noUsername hostErr localIsTCP known createErr
      = if readErr then [tcpClose]
        else c "msg := copy of the first frame" ::
          (if decodeErr || mNil || method != 1 || noUsername then [tcpClose]
           else if hostErr then [c "ufrag := USERNAME up to the first ':'", tcpClose]
           else if !localIsTCP then [c "ufrag := USERNAME up to the first ':'", c "isIPv6 := remote host is not IPv4", tcpClose]
           else tcpRoute known ++ (if !known && createErr then [tcpClose] else [tcpAdd])) := by
  unfold IceGen.tcpMux_handleConn
  cases readErr
  · simp only [Bool.false_eq_true, if_false, ite_self]
    cases decodeErr <;> cases mNil <;> cases (method != 1) <;> cases noUsername <;> cases hostErr <;> cases localIsTCP <;>
      cases known <;> cases createErr <;> rfl
  · simp only [if_true, ite_self]
    rfl

/-- the connection is attached iff every test passed; otherwise it is closed exactly once and never attached -/
theorem handleConn_attach_iff (hasTimeout armErr readErr shortBuf disarmErr decodeErr mNil : Bool) (method : UInt16)
    (noUsername hostErr localIsTCP known createErr : Bool) :
    let l := IceGen.tcpMux_handleConn hasTimeout armErr readErr shortBuf disarmErr decodeErr mNil method noUsername hostErr localIsTCP known createErr
    (l.count tcpAdd = if tcpAccepted readErr decodeErr mNil method noUsername hostErr localIsTCP known createErr then 1 else 0) ∧
    (l.count tcpClose = if tcpAccepted readErr decodeErr mNil method noUsername hostErr localIsTCP known createErr then 0 else 1) := by
  intro l
  have hl : l = _ := handleConn_tie hasTimeout armErr readErr shortBuf disarmErr decodeErr mNil method noUsername hostErr localIsTCP known createErr
  rw [hl]
  unfold tcpAccepted
  have hb : (method != 1) = !(method == 1) := rfl
  rw [hb]
  cases readErr <;> cases decodeErr <;> cases mNil <;> cases (method == 1) <;> cases noUsername <;> cases hostErr <;>
    cases localIsTCP <;> cases known <;> cases createErr <;> decide

/-- the model's first-frame classifier accepts exactly the Binding frames with a USERNAME that fit the 512-byte buffer, and
routes by the text before the first ':' (`FKind.user`) -/
theorem classify_iff (f : TcpMux.Frame) (u : String) :
    TcpMux.classify f = some u ↔ f.len ≤ TcpMux.firstFrameMax ∧ f.kind = .user u := by
  unfold TcpMux.classify
  by_cases h : f.len ≤ TcpMux.firstFrameMax
  · cases hk : f.kind <;> simp [h]
  · simp [h]

end IceTie.MuxTcp
