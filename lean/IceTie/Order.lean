import IceModel.AgentCore
import IceGen.T_Order
/-!
# Tie T for the ORDER of effects (agent.go, candidate_base.go)

`Agent.setSelectedPair`, `Agent.updateConnectionState`, the task of `Agent.Restart`, the onClose function of the agent's task
loop (`newAgentWithConfig`), `Agent.close`, `candidateBase.handleInboundPacket`, `candidateBase.abortIO` (guard and the body it
runs once) and `candidateBase.close` are regenerated from the Go source on every run in effect mode (`IceGen.T_Order`): the
list of calls / field assignments IN PROGRAM ORDER as a function of the values read.  The theorems state the list for all
arguments, so a moved, dropped, duplicated or retargeted statement changes the generated term and the theorem stops checking;
corollaries spell out the order facts the properties rely on, and small lemmas show that the model takes its steps in the same
order.
-/
namespace IceTie.Order
open IceModel IceModel.AgentCore

def c (name : String) : Eff := Eff.call name []
def c1 (name : String) (v : Val) : Eff := Eff.call name [v]

/-- position of the first occurrence of `e` (the length if there is none) -/
def pos (l : List Eff) (e : Eff) : Nat := (l.takeWhile (· != e)).length

/-! ## `setSelectedPair` -/

/-- `ConnectionStateConnected` = 3, `Checking` = 2, `Failed` = 5, `Closed` = 7, `New` = 1 (`iota + 1`) -/
def eConnected : Eff := c1 "updateConnectionState" (Val.i 3)

/-- **T: `Agent.setSelectedPair`**: nil only stores nil; otherwise mark the pair nominated, STORE it, release the waiters of
`Connect` (once), update the connection state to Connected, enqueue the selected-pair notification — in this order -/
theorem setSelectedPair_tie (isNil : Bool) :
    IceGen.agent_setSelectedPair isNil
      = if isNil then [c1 "selectedPair.Store" (Val.s "nil")]
        else [Eff.set "pair.nominated" (Val.b true), c1 "selectedPair.Store" (Val.s "pair"),
              c "onConnectedOnce.Do(close onConnected)", eConnected,
              c1 "selectedCandidatePairNotifier.Enqueue" (Val.s "pair")] := by
  cases isNil <;> rfl

/-- the selected pair is stored BEFORE the state becomes Connected (C04: Connected is reported only while a selected pair
exists) and the pair notification comes after the state notification -/
theorem setSelectedPair_order :
    pos (IceGen.agent_setSelectedPair false) (c1 "selectedPair.Store" (Val.s "pair")) < pos (IceGen.agent_setSelectedPair false) eConnected ∧
    pos (IceGen.agent_setSelectedPair false) eConnected
      < pos (IceGen.agent_setSelectedPair false) (c1 "selectedCandidatePairNotifier.Enqueue" (Val.s "pair")) ∧
    (IceGen.agent_setSelectedPair false).count eConnected = 1 := by
  rw [setSelectedPair_tie]; decide

/-- the model's `Agent.select` does it in the same order: the state handed to `setConnState .connected` already has the pair
selected (and nominated), the state callback precedes the pair callback -/
theorem select_order (a : Agent) (id : Nat) :
    a.select id =
      let a1 : Agent := { (a.modPair id fun p => { p with nominated := true }) with selected := some id, onConnectedFired := true }
      let r := a1.setConnState .connected
      let ends : Nat × Nat := match r.1.pairById id with
        | some p => (((r.1.localOf p.l).map (·.addr)).getD 0, ((r.1.remoteOf p.r).map (·.addr)).getD 0)
        | none => (0, 0)
      (r.1, r.2 ++ [.cbPair ends.1 ends.2]) := rfl

/-! ## `updateConnectionState` -/

def releaseEffs : List Eff :=
  [c "removeUfragFromMux", Eff.set "a.checklist" (Val.s "empty"), Eff.set "a.pairsByID" (Val.s "empty"),
   Eff.set "a.pendingBindingRequests" (Val.s "empty"), c1 "setSelectedPair" (Val.s "nil"), c "deleteAllCandidates"]

/-- **T: `Agent.updateConnectionState`**: nothing when the state does not change; on Failed FIRST the release (mux ufrag,
checklist, pair index, pending transactions, selection, all candidates), THEN the state is set and the notification enqueued -/
theorem updateConnectionState_tie (cur newState : Int64) :
    IceGen.agent_updateConnectionState cur newState
      = if cur == newState then []
        else (if newState == 5 then releaseEffs else [])
          ++ [Eff.set "a.connectionState" (Val.i newState.toInt), c1 "connectionStateNotifier.Enqueue" (Val.i newState.toInt)] := by
  unfold IceGen.agent_updateConnectionState
  have : (cur != newState) = !(cur == newState) := rfl
  rw [this]
  cases (cur == newState) <;> cases (newState == 5) <;> rfl

/-- Failed is notified only after selection, pairs and candidates were released -/
theorem updateConnectionState_failed_order (cur : Int64) (h : (cur == 5) = false) :
    ∀ e ∈ releaseEffs, pos (IceGen.agent_updateConnectionState cur 5) e
      < pos (IceGen.agent_updateConnectionState cur 5) (c1 "connectionStateNotifier.Enqueue" (Val.i 5)) := by
  rw [updateConnectionState_tie, h]
  decide

/-- the model's `setConnState`: the wipe happens in the state that carries the new connection state; one callback -/
theorem setConnState_order (a : Agent) (s : ConnState) :
    a.setConnState s = if a.connState == s then (a, [])
      else ({ (if s == .failed then a.wipe else a) with connState := s }, [.cbState s]) := rfl

/-! ## the task of `Restart` -/

/-- **T: the task of `Agent.Restart`**: cancel gathering, release the mux ufrag, new local credentials, remote credentials
cleared, gathering state New, checklist / pair index / pending transactions emptied, selection cleared, candidates deleted, a
fresh selector — and only then, unless the agent is still New, the state goes to Checking -/
theorem restartTask_tie (ufrag pwd : String) (connState : Int64) :
    IceGen.agent_Restart_task ufrag pwd connState
      = [c "gatherCandidateCancel", c "removeUfragFromMux", Eff.set "a.localUfrag" (Val.s ufrag), Eff.set "a.localPwd" (Val.s pwd),
         Eff.set "a.remoteUfrag" (Val.s ""), Eff.set "a.remotePwd" (Val.s ""), Eff.set "a.gatheringState" (Val.i 1),
         Eff.set "a.checklist" (Val.s "empty"), Eff.set "a.pairsByID" (Val.s "empty"),
         Eff.set "a.pendingBindingRequests" (Val.s "empty"), c1 "setSelectedPair" (Val.s "nil"), c "deleteAllCandidates",
         c "setSelector"]
        ++ (if connState == 1 then [] else [c1 "updateConnectionState" (Val.i 2)]) := by
  unfold IceGen.agent_Restart_task
  have : (connState != 1) = !(connState == 1) := rfl
  rw [this]
  cases (connState == 1) <;> rfl

/-- the model's `doRestart`: credentials, wipe, fresh selector, next generation, then Checking unless New -/
theorem doRestart_order (a : Agent) (now : Nat) (ufrag pwd : String) :
    a.doRestart now ufrag pwd =
      let a1 : Agent := { (({ a with localUfrag := ufrag, localPwd := pwd, remoteUfrag := "", remotePwd := "" } : Agent).wipe).resetSelector now
                          with generation := a.generation + 1 }
      if a1.connState != .new then a1.setConnState .checking else (a1, []) := rfl

/-! ## Close: the onClose function of the task loop, `Agent.close`, `candidateBase.abortIO` / `close` -/

/-- **T: the onClose function** (runs once, after the last task): cancel gathering and WAIT for the gather goroutine (if there
is one), release the mux ufrag, delete (close) all candidates, release `startedCh`, close the receive buffer, close the mDNS
connection, and LAST the state Closed (whether or not closing the buffer failed) -/
theorem onClose_tie (hasGatherDone bufCloseFails : Bool) :
    IceGen.agent_onClose hasGatherDone bufCloseFails
      = c "gatherCandidateCancel" :: (if hasGatherDone then [c "wait gatherCandidateDone"] else [])
        ++ [c "removeUfragFromMux", c "deleteAllCandidates", c "startedFn", c "buf.Close", c "closeMulticastConn",
            c1 "updateConnectionState" (Val.i 7)] := by
  cases hasGatherDone <;> cases bufCloseFails <;> rfl

/-- Closed is the LAST effect, and the candidates (sockets) are closed before it -/
theorem onClose_closed_last (hasGatherDone bufCloseFails : Bool) :
    (IceGen.agent_onClose hasGatherDone bufCloseFails).getLast? = some (c1 "updateConnectionState" (Val.i 7)) ∧
    pos (IceGen.agent_onClose hasGatherDone bufCloseFails) (c "deleteAllCandidates")
      < pos (IceGen.agent_onClose hasGatherDone bufCloseFails) (c1 "updateConnectionState" (Val.i 7)) := by
  rw [onClose_tie]; cases hasGatherDone <;> decide

/-- **T: `Agent.close`**: the task loop first (with `abortStartedCandidateIO` as pre-stop), then the THREE notifiers, each a
different one, each with the caller's `graceful` -/
theorem agentClose_tie (graceful : Bool) :
    IceGen.agent_close graceful
      = ([c "loop.CloseWithPreStop(abortStartedCandidateIO)", c1 "connectionStateNotifier.Close" (Val.b graceful),
          c1 "candidateNotifier.Close" (Val.b graceful), c1 "selectedCandidatePairNotifier.Close" (Val.b graceful)], "nil") := rfl

/-- every notifier is closed exactly once -/
theorem agentClose_each_once (graceful : Bool) :
    (IceGen.agent_close graceful).1.count (c1 "connectionStateNotifier.Close" (Val.b graceful)) = 1 ∧
    (IceGen.agent_close graceful).1.count (c1 "candidateNotifier.Close" (Val.b graceful)) = 1 ∧
    (IceGen.agent_close graceful).1.count (c1 "selectedCandidatePairNotifier.Close" (Val.b graceful)) = 1 ∧
    (IceGen.agent_close graceful).1.head? = some (c "loop.CloseWithPreStop(abortStartedCandidateIO)") := by
  rw [agentClose_tie]; cases graceful <;> decide

/-- **T: `candidateBase.abortIO`**: a candidate that was never started returns nil; otherwise the once-body and the recorded
error.  The once-body: unblock recvLoop (`close(closeCh)`), `SetDeadline(now)`, `abortWrite` (mux handles only), `conn.Close`
— in this order, the first error is kept -/
theorem abortIO_tie (neverStarted isWriteAborter : Bool) :
    IceGen.candidateBase_abortIO neverStarted
      = (if neverStarted then ([], "nil") else ([c "closeOnce.Do(abort)"], "closeErr")) ∧
    IceGen.candidateBase_abortIO_once isWriteAborter
      = [c "close(closeCh)", c "conn.SetDeadline(now) [closeErr = err]"]
        ++ (if isWriteAborter then [c "abortWrite [closeErr = first err]"] else [])
        ++ [c "conn.Close [closeErr = first err]"] := by
  cases neverStarted <;> cases isWriteAborter <;> exact ⟨rfl, rfl⟩

/-- **T: `candidateBase.close`**: never started → nil; otherwise `abortIO`, WAIT for recvLoop, unregister, and `abortIO`'s error -/
theorem candidateClose_tie (neverStarted hasAgent : Bool) :
    IceGen.candidateBase_close neverStarted hasAgent
      = if neverStarted then ([], "nil")
        else ([c "abortIO", c "wait closedCh"] ++ (if hasAgent then [c "unregisterStartedCandidate"] else []), "abortIO err") := by
  cases neverStarted <;> cases hasAgent <;> rfl

/-! ## `handleInboundPacket` -/

/-- **T: `candidateBase.handleInboundPacket`**: a STUN message goes to the STUN handler and NOTHING else happens (no cache
probe); a data packet: probe the cache, on a miss ask the agent (`validateNonSTUNTraffic`) and drop the packet if the source is
no remote candidate, else remember it; then QUEUE the packet, and only when that succeeded and bytes were queued credit them to
the selected pair -/
theorem handleInboundPacket_tie (isSTUN cacheHit valid writeFails : Bool) (n : Int64) (hasSelected : Bool) :
    IceGen.candidateBase_handleInboundPacket isSTUN cacheHit valid writeFails n hasSelected
      = if isSTUN then [c "handleInboundSTUNMessage"]
        else c "validateSTUNTrafficCache" ::
          (if cacheHit then [] else c "validateNonSTUNTraffic" :: (if valid then [c "addRemoteCandidateCache"] else []))
          ++ (if cacheHit || valid then
                c "buf.Write" :: (if !writeFails && decide (n > 0) && hasSelected then [c1 "UpdatePacketReceived" (Val.i n.toInt)] else [])
              else []) := by
  unfold IceGen.candidateBase_handleInboundPacket
  cases isSTUN <;> cases cacheHit <;> cases valid <;> cases writeFails <;> cases decide (n > 0) <;> cases hasSelected <;> rfl

/-- the order facts: no cache probe on the STUN path; the pair is credited only after the packet was queued, with the number of
bytes QUEUED -/
theorem handleInboundPacket_order (cacheHit valid writeFails : Bool) (n : Int64) (hasSelected : Bool) :
    IceGen.candidateBase_handleInboundPacket true cacheHit valid writeFails n hasSelected = [c "handleInboundSTUNMessage"] ∧
    (∀ e ∈ IceGen.candidateBase_handleInboundPacket false cacheHit valid writeFails n hasSelected,
      e = c1 "UpdatePacketReceived" (Val.i n.toInt) →
      writeFails = false ∧
      pos (IceGen.candidateBase_handleInboundPacket false cacheHit valid writeFails n hasSelected) (c "buf.Write")
        < pos (IceGen.candidateBase_handleInboundPacket false cacheHit valid writeFails n hasSelected) e) := by
  refine ⟨by rw [handleInboundPacket_tie]; rfl, ?_⟩
  intro e he hE
  subst hE
  rw [handleInboundPacket_tie] at he ⊢
  cases cacheHit <;> cases valid <;> cases writeFails <;> cases hd : decide (n > 0) <;> cases hasSelected <;>
    simp [c, c1, pos, hd] at he ⊢

/-- the model's data plane has the same shape: an unknown source (no cache entry, no remote candidate) drops the packet; otherwise
it is queued and, if it has bytes and a pair is selected, credited -/
theorem inboundData_shape (a : Agent) (now : Nat) (l : Cand) (src len : Nat)
    (hc : (a.caches.find? fun (lu, s, _) => lu == l.uid && s == src) = none) (hr : a.findRemote l.net src = none) :
    a.inboundData now l src len = (a, []) := by
  unfold Agent.inboundData
  simp only [hc, hr]
  rfl

end IceTie.Order
