import IceProofs.AgentC20Accept
import IceGen.T_Agent
/-!
# Tie T for the renomination filter of the controlled selector (selection.go)

`controlledSelector.shouldAcceptNomination`, `shouldSwitchSelectedPair` and
`Agent.needsToCheckPriorityOnNominated` are regenerated from the Go source on every run.  The model
(`IceModel.AgentCore.cldHandleRequest`) has this logic inline; `IceProofs/AgentC20Accept.lean` (core-only, so
that the model proofs do not depend on regenerated files) writes it once more as stand-alone functions
`shouldAcceptNomination` / `shouldSwitch` and proves them equal to the inline code (`*_inline`,
`cldHandleRequest_nf`); here they are proved equal to the generated definitions for ALL arguments
(`*_gen_eq_model`).
-/
namespace IceTie.AgentNomination
open IceModel IceModel.AgentCore IceProofs.Agent

/-- pointer encoding of the translator: (`p != nil`, `*p`) -/
def optOf (has : Bool) (v : UInt32) : Option Nat := if has then some v.toNat else none

/-- interpretation of the effect list of the generated function on the `lastNomination` field -/
def applyEffs (effs : List Eff) (last : Option Nat) : Option Nat :=
  effs.foldl (fun acc e => match e with
    | Eff.set "s.lastNomination" (Val.n v) => some v
    | _ => acc) last

/-- the generated `shouldAcceptNomination`, explicitly: its effect list is one assignment of the new value
exactly when a valued nomination is accepted, and its result is the acceptance -/
theorem shouldAcceptNomination_gen_explicit (hasValue : Bool) (value : UInt32) (hasLast : Bool) (last : UInt32) :
    IceGen.controlledSelector_shouldAcceptNomination hasValue value hasLast last
      = (if hasValue && (!hasLast || decide (value.toNat > last.toNat))
           then [Eff.set "s.lastNomination" (Val.n value.toNat)] else [],
         !hasValue || !hasLast || decide (value.toNat > last.toNat)) := by
  unfold IceGen.controlledSelector_shouldAcceptNomination Eff.pre
  have h : decide (value > last) = decide (value.toNat > last.toNat) := by
    simp [UInt32.lt_iff_toNat_lt]
  cases hasValue <;> cases hasLast <;> simp [h]
  all_goals (by_cases hg : last.toNat < value.toNat <;> simp [hg])

/-- generated = model, for all arguments: same acceptance, and the effects applied to the old
`lastNomination` give the model's new `lastNomination` -/
theorem shouldAcceptNomination_gen_eq_model (hasValue : Bool) (value : UInt32) (hasLast : Bool) (last : UInt32) :
    let g := IceGen.controlledSelector_shouldAcceptNomination hasValue value hasLast last
    (applyEffs g.1 (optOf hasLast last), g.2) = shouldAcceptNomination (optOf hasValue value) (optOf hasLast last) := by
  simp only [shouldAcceptNomination_gen_explicit]
  unfold shouldAcceptNomination optOf applyEffs
  cases hasValue <;> cases hasLast <;> simp
  all_goals (by_cases hg : last.toNat < value.toNat <;> simp [hg])

theorem shouldSwitchSelectedPair_gen_eq_model (hasSelected samePair hasValue hasLast needsPrio : Bool)
    (selectedPrio pairPrio : UInt64) :
    IceGen.controlledSelector_shouldSwitchSelectedPair hasSelected samePair hasValue hasLast needsPrio selectedPrio pairPrio
      = shouldSwitch hasSelected samePair hasValue hasLast needsPrio selectedPrio.toNat pairPrio.toNat := by
  unfold IceGen.controlledSelector_shouldSwitchSelectedPair shouldSwitch
  have h : decide (selectedPrio < pairPrio) = decide (selectedPrio.toNat < pairPrio.toNat) := by
    simp [UInt64.lt_iff_toNat_lt]
  cases hasSelected <;> cases samePair <;> cases hasValue <;> cases hasLast <;> cases needsPrio <;> simp [h]

theorem needsPrioCheck_gen_eq_model (cfg : Config) :
    IceGen.agent_needsToCheckPriorityOnNominated cfg.lite cfg.useCandCheckPriority = needsPrioCheck cfg := rfl

end IceTie.AgentNomination
