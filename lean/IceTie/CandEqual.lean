import IceModel.CandText
import IceGen.T_Cand
/-!
# Tie T for candidate equality (candidate_base.go, candidaterelatedaddress.go, addr.go)

`sameAddressLiteral`, `candidateBase.transportAddressEqual`, `candidateBase.Equal`,
`CandidateRelatedAddress.Equal`, `canonicalAddr` and `addrPortEqual` are regenerated from the Go source on every
run (`IceGen.T_Cand`).  The calls into `net/netip` (`ParseAddr`, the comparison of two canonical addresses) and
the getters of the two candidates are parameters of the generated definitions; here they are instantiated with
the corresponding expressions of the model (`CandText.Env.canon`, `CandText.resolved`, the fields of
`CandText.Cand`) and the results are proved equal to `CandText.sameAddressLiteral`,
`transportAddressEqual`, `relEqual`, `equal` for ALL environments and candidates.
-/
namespace IceTie.CandEqual
open IceModel.CandText
open IceModel.Prio (TcpType)

/-! ## encodings of the enumerations (the Go constants) -/

/-- `NetworkTypeUDP4 … NetworkTypeTCP6` (`iota + 1`) -/
def netCode : NetType → Int64
  | .udp4 => 1 | .udp6 => 2 | .tcp4 => 3 | .tcp6 => 4

/-- `TCPTypeUnspecified … TCPTypeSimultaneousOpen` (`iota`) -/
def ttCode : TcpType → Int64
  | .unspecified => 0 | .active => 1 | .passive => 2 | .so => 3

/-- `CandidateTypeHost … CandidateTypeRelay` (`iota`, after `CandidateTypeUnspecified`) -/
def tyCode : CType → UInt8
  | .host => 1 | .srflx => 2 | .prflx => 3 | .relay => 4

theorem netCode_beq (a b : NetType) : (netCode a == netCode b) = (a == b) := by cases a <;> cases b <;> rfl
theorem ttCode_beq (a b : TcpType) : (ttCode a == ttCode b) = (a == b) := by cases a <;> cases b <;> rfl
theorem tyCode_beq (a b : CType) : (tyCode a == tyCode b) = (a == b) := by cases a <;> cases b <;> rfl

/-- a Go `int` port / length is a `Nat` below 2^63 -/
theorem ofNat_beq (n k : Nat) (h : n < 2 ^ 63) (hk : k < 2 ^ 63) :
    (Int64.ofNat n == Int64.ofNat k) = (n == k) := by
  by_cases hnk : n = k
  · subst hnk; simp
  · have : Int64.ofNat n ≠ Int64.ofNat k := by
      intro he
      have := congrArg Int64.toInt he
      rw [Int64.toInt_ofNat_of_lt h, Int64.toInt_ofNat_of_lt hk] at this
      exact hnk (by exact_mod_cast this)
    rw [beq_eq_false_iff_ne.mpr this, beq_eq_false_iff_ne.mpr hnk]

/-! ## `canonicalAddr`, `addrPortEqual` -/

/-- `canonicalAddr` (addr.go) over an abstract `netip.Addr`: unmap first; keep the zone exactly when the
UNMAPPED address is IPv6 link-local.  This is the function `CandText.Env.canon` stands for (after `ParseAddr`). -/
theorem canonicalAddr_tie {α : Type} (unmap : α → α) (isLL : α → Bool) (noZone : α → α) (addr : α) :
    IceGen.canonicalAddr α unmap isLL noZone addr
      = if isLL (unmap addr) then unmap addr else noZone (unmap addr) := rfl

/-- with an idempotent `Unmap`, a `WithZone("")` that is idempotent, commutes with `Unmap` and does not change the
class, `canonicalAddr` is idempotent: a canonical key is its own canonical key -/
theorem canonicalAddr_idem {α : Type} (unmap : α → α) (isLL : α → Bool) (noZone : α → α)
    (hu : ∀ a, unmap (unmap a) = unmap a) (hz : ∀ a, noZone (noZone a) = noZone a)
    (huz : ∀ a, unmap (noZone a) = noZone (unmap a)) (hll : ∀ a, isLL (noZone a) = isLL a) (addr : α) :
    IceGen.canonicalAddr α unmap isLL noZone (IceGen.canonicalAddr α unmap isLL noZone addr)
      = IceGen.canonicalAddr α unmap isLL noZone addr := by
  simp only [canonicalAddr_tie]
  cases h : isLL (unmap addr)
  · simp [huz, hu, hll, h, hz]
  · simp [hu, h]

theorem addrPortEqual_tie (aValid bValid sameCanon : Bool) :
    IceGen.addrPortEqual aValid bValid sameCanon = (aValid && bValid && sameCanon) := rfl

/-! ## `sameAddressLiteral` -/

/-- `netip.ParseAddr(s)` fails iff `env.canon s = none`; the comparison of the two canonical addresses is the
comparison of the keys -/
theorem sameAddressLiteral_tie (env : Env) (a b : Str) :
    IceGen.sameAddressLiteral (a == b) (env.canon a).isNone (env.canon b).isNone (env.canon a == env.canon b)
      = sameAddressLiteral env a b := by
  unfold IceGen.sameAddressLiteral sameAddressLiteral
  cases (a == b) <;> cases env.canon a <;> cases env.canon b <;> simp

/-! ## `transportAddressEqual` -/

/-- `c.addr() != other.addr()` compares two interface values: `differ` is any Boolean that is `false` when both
resolved addresses are nil and that is `false` only when the two candidates have the same resolved address (the
same pointer).  `addrEqual` on two non-nil addresses is the comparison of the model's `resolved` tuples. -/
theorem transportAddressEqual_tie (env : Env) (c o : Cand) (differ : Bool)
    (hnil : resolved env c = none → resolved env o = none → differ = false)
    (hsame : differ = false → resolved env c = resolved env o)
    (hpc : c.port < 2 ^ 63) (hpo : o.port < 2 ^ 63) :
    IceGen.candidateBase_transportAddressEqual differ (resolved env c).isNone (resolved env o).isNone
        (resolved env c == resolved env o) (netCode c.net) (netCode o.net)
        (IceGen.sameAddressLiteral (c.address == o.address) (env.canon c.address).isNone (env.canon o.address).isNone
          (env.canon c.address == env.canon o.address))
        (Int64.ofNat c.port) (Int64.ofNat o.port) (ttCode c.tcpType) (ttCode o.tcpType)
      = transportAddressEqual env c o := by
  unfold IceGen.candidateBase_transportAddressEqual transportAddressEqual
  rw [sameAddressLiteral_tie, netCode_beq, ttCode_beq, ofNat_beq _ _ hpc hpo]
  cases hd : differ
  · have e := hsame hd
    rw [e]
    cases resolved env o <;> simp
  · cases hc : resolved env c <;> cases ho : resolved env o
    · exact absurd (hnil hc ho) (by simp [hd])
    · simp
    · simp
    · rename_i va vb
      by_cases hv : va = vb <;> simp [hv, Bool.and_assoc]

/-! ## `CandidateRelatedAddress.Equal`, `Equal` -/

theorem relEqual_tie (x y : Option (Str × Nat))
    (hx : ∀ v, x = some v → v.2 < 2 ^ 63) (hy : ∀ v, y = some v → v.2 < 2 ^ 63) :
    IceGen.candidateRelatedAddress_Equal x.isNone y.isNone ((x.getD ([], 0)).1 == (y.getD ([], 0)).1)
        (Int64.ofNat (x.getD ([], 0)).2) (Int64.ofNat (y.getD ([], 0)).2)
      = relEqual x y := by
  unfold IceGen.candidateRelatedAddress_Equal relEqual
  cases x with
  | none => cases y <;> simp
  | some a =>
    cases y with
    | none => simp
    | some b =>
      have ha := hx a rfl
      have hb := hy b rfl
      simp only [Option.isNone_some, Option.getD_some, Bool.false_and, Bool.false_eq_true, if_false, Bool.not_false,
        Bool.true_and]
      rw [ofNat_beq _ _ ha hb]

/-- `Equal` composed with the regenerated `transportAddressEqual` and `CandidateRelatedAddress.Equal`, as the code
composes them, is the model's `equal` — for every environment and every two candidates whose ports are Go `int`s -/
theorem equal_tie (env : Env) (c o : Cand) (differ : Bool)
    (hnil : resolved env c = none → resolved env o = none → differ = false)
    (hsame : differ = false → resolved env c = resolved env o)
    (hpc : c.port < 2 ^ 63) (hpo : o.port < 2 ^ 63)
    (hrc : ∀ v, c.related = some v → v.2 < 2 ^ 63) (hro : ∀ v, o.related = some v → v.2 < 2 ^ 63) :
    IceGen.candidateBase_Equal
        (IceGen.candidateBase_transportAddressEqual differ (resolved env c).isNone (resolved env o).isNone
          (resolved env c == resolved env o) (netCode c.net) (netCode o.net)
          (IceGen.sameAddressLiteral (c.address == o.address) (env.canon c.address).isNone (env.canon o.address).isNone
            (env.canon c.address == env.canon o.address))
          (Int64.ofNat c.port) (Int64.ofNat o.port) (ttCode c.tcpType) (ttCode o.tcpType))
        (tyCode c.typ) (tyCode o.typ)
        (IceGen.candidateRelatedAddress_Equal c.related.isNone o.related.isNone
          ((c.related.getD ([], 0)).1 == (o.related.getD ([], 0)).1)
          (Int64.ofNat (c.related.getD ([], 0)).2) (Int64.ofNat (o.related.getD ([], 0)).2))
      = equal env c o := by
  rw [transportAddressEqual_tie env c o differ hnil hsame hpc hpo, relEqual_tie _ _ hrc hro]
  unfold IceGen.candidateBase_Equal equal
  rw [tyCode_beq]

end IceTie.CandEqual
