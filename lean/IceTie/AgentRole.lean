import IceModel.AgentCore
import IceGen.T_Agent
/-!
# Tie T for the role-conflict decision (agent.go `handleRoleConflict`)

`IceGen.agent_handleRoleConflict` is regenerated from the Go source on every run (effect mode: the
list of effects the function performs for given tie-breakers and role).  It is proved equal, for ALL
2^64 × 2^64 tie-breaker pairs and both roles, to the decision of RFC 8445 §7.3.1.1 written
independently (`rfcKeeps`), and the model's `roleConflictKeeps` is proved equal to the same decision
on all naturals.  Changing `>=` to `>`, swapping the operands, or exchanging the branches in the Go
source changes the generated term and `handleRoleConflict_gen_eq_rfc` stops checking.
-/
namespace IceTie.AgentRole
open IceModel IceModel.AgentCore

/-- RFC 8445 §7.3.1.1, written from the RFC text: on a role conflict a *controlling* agent keeps its
role (and answers 487) iff its tie-breaker is larger than or equal to the one in the request's
ICE-CONTROLLING attribute; a *controlled* agent keeps its role (and answers 487) iff its tie-breaker is
smaller than the one in the request's ICE-CONTROLLED attribute.  Otherwise the agent switches role. -/
def rfcKeeps (controlling : Bool) (own theirs : Nat) : Bool :=
  if controlling then decide (own ≥ theirs) else decide (own < theirs)

/-- effects of the keeping branch: one 487 Role Conflict error response -/
def effKeep : List Eff := [Eff.call "send487" []]
/-- effects of the switching branch: flip the role, install a fresh selector, send nothing -/
def effSwitch (controlling : Bool) : List Eff :=
  [Eff.call "setControlling" [Val.b (!controlling)], Eff.call "setSelector" []]

/-- the model's decision is the RFC's decision, for all naturals -/
theorem roleConflictKeeps_eq_rfc (controlling : Bool) (own theirs : Nat) :
    roleConflictKeeps controlling own theirs = rfcKeeps controlling own theirs := by
  unfold roleConflictKeeps rfcKeeps
  cases controlling
  · by_cases h : theirs ≤ own
    · have : ¬ own < theirs := by omega
      simp [h, this]
    · have : own < theirs := by omega
      simp [h, this]
  · simp

/-- the code's decision (regenerated) is the RFC's decision, for all 64-bit tie-breakers and both roles;
`buildFails = false`: `stun.Build` of the error response succeeds -/
theorem handleRoleConflict_gen_eq_rfc (own theirs : UInt64) (controlling : Bool) :
    IceGen.agent_handleRoleConflict false own theirs controlling
      = if rfcKeeps controlling own.toNat theirs.toNat then effKeep else effSwitch controlling := by
  unfold IceGen.agent_handleRoleConflict rfcKeeps effKeep effSwitch
  have h : (decide (own ≥ theirs)) = decide (own.toNat ≥ theirs.toNat) := by
    simp [UInt64.le_iff_toNat_le]
  cases controlling
  · by_cases hlt : own.toNat < theirs.toNat
    · have : ¬ (theirs.toNat ≤ own.toNat) := by omega
      simp [h, hlt, this]
    · have : theirs.toNat ≤ own.toNat := by omega
      simp [h, hlt, this]
  · by_cases hge : theirs.toNat ≤ own.toNat <;> simp [h, hge]

/-- … hence the code's decision is the model's -/
theorem handleRoleConflict_gen_eq_model (own theirs : UInt64) (controlling : Bool) :
    IceGen.agent_handleRoleConflict false own theirs controlling
      = if roleConflictKeeps controlling own.toNat theirs.toNat then effKeep else effSwitch controlling := by
  rw [roleConflictKeeps_eq_rfc]; exact handleRoleConflict_gen_eq_rfc own theirs controlling

/-- when building the error response fails the keeping branch sends nothing and still does not switch -/
theorem handleRoleConflict_gen_buildFails (own theirs : UInt64) (controlling : Bool) :
    IceGen.agent_handleRoleConflict true own theirs controlling
      = if rfcKeeps controlling own.toNat theirs.toNat then [] else effSwitch controlling := by
  have h := handleRoleConflict_gen_eq_rfc own theirs controlling
  unfold IceGen.agent_handleRoleConflict at h ⊢
  by_cases hk : rfcKeeps controlling own.toNat theirs.toNat = true
  · simp only [hk, if_true] at h ⊢
    split
    · rfl
    · rename_i hc; simp [hc, effKeep] at h
  · simp only [hk] at h ⊢
    split
    · rename_i hc; simp [hc, effSwitch] at h
    · rfl

end IceTie.AgentRole
