import IceModel.AgentCore
import IceGen.T_Round3
import IceTie.AgentTiming
/-!
# Tie T, round 3: the timer-driven helpers of agent.go and the lite selector

`Agent.validateSelectedPair`, `Agent.checkKeepalive`, ONE iteration of the checklist loops of `Agent.pingAllCandidates`,
`Agent.keepAliveCandidatesForRenomination`, `Agent.getBestValidCandidatePair`, `Agent.getBestAvailableCandidatePair`,
`Agent.addPair` and `liteSelector.ContactCandidates` are regenerated from the Go source on every run (`IceGen.T_Round3`, effect
mode).  Each theorem states the generated effect list for ALL arguments; the `_model` lemmas relate the decision to the branch
of `IceModel.AgentCore` that models it.  Pair states are the codes of candidatepair_state.go (`iota + 1`):
Waiting 1, InProgress 2, Failed 3, Succeeded 4.
-/
namespace IceTie.AgentTick
open IceModel IceModel.AgentCore IceProofs.AgentC04 IceTie.AgentTiming

def c (name : String) : Eff := Eff.call name []
def c1 (name : String) (v : Val) : Eff := Eff.call name [v]

/-! ## `validateSelectedPair` -/

/-- `totalTimeToFailure` as the code computes it: `failedTimeout`, plus `disconnectedTimeout` when it is non-zero -/
def totalCode (failed disc : Int64) : Int64 := if failed != 0 then failed + disc else failed

/-- **T: `Agent.validateSelectedPair`**: no selected pair → `false`, nothing happens; otherwise exactly one
`updateConnectionState` whose argument is `connectionStateForDisconnection(silence, total)` (itself tied in `AgentTiming`),
result `true` -/
theorem validateSelectedPair_tie (hasSelected : Bool) (silence failed disc cs : Int64) :
    IceGen.agent_validateSelectedPair hasSelected silence failed disc cs
      = if hasSelected then
          ([c1 "updateConnectionState"
              (Val.i (IceGen.agent_connectionStateForDisconnection silence (totalCode failed disc) disc cs).toInt)], true)
        else ([], false) := by
  unfold IceGen.agent_validateSelectedPair totalCode
  cases hasSelected
  · rfl
  · cases h : (failed != 0) <;> simp [h, Eff.pre, c1]

theorem dur_add (a b : Int64) (ha : 0 ≤ a.toInt) (hb : 0 ≤ b.toInt) (hov : a.toInt + b.toInt < 2 ^ 63) :
    dur (a + b) = dur a + dur b ∧ 0 ≤ (a + b).toInt := by
  unfold dur
  rw [Int64.toInt_add, Int.bmod_eq_of_le (by omega) (by omega)]
  omega

/-- the code's total is the model's `totalToFailure` (no overflow of the sum of the two timeouts) -/
theorem totalCode_model (failed disc : Int64) (h1 : 0 ≤ failed.toInt) (h2 : 0 ≤ disc.toInt)
    (hov : failed.toInt + disc.toInt < 2 ^ 63) (cfg : Config)
    (hf : cfg.failedTimeout = dur failed) (hd : cfg.disconnectedTimeout = dur disc) :
    dur (totalCode failed disc) = totalToFailure cfg ∧ 0 ≤ (totalCode failed disc).toInt := by
  unfold totalCode totalToFailure
  rw [ne_zero_iff failed h1, hf, hd]
  by_cases hz : dur failed = 0
  · simp [hz, h1]
  · have := dur_add failed disc h1 h2 hov
    have hb : (dur failed != 0) = true := by simpa using hz
    simp only [hb, decide_eq_true hz, if_true]
    exact this

/-- … so the state handed to `updateConnectionState` is the model's `stateForDisconnection` on the silence of the selected
pair's remote and `totalToFailure` — the argument of `setConnState` in `Agent.validateSelected` -/
theorem validateSelectedPair_model (silence failed disc cs : Int64)
    (h0 : 0 ≤ silence.toInt) (h1 : 0 ≤ failed.toInt) (h2 : 0 ≤ disc.toInt) (hov : failed.toInt + disc.toInt < 2 ^ 63)
    (cfg : Config) (hf : cfg.failedTimeout = dur failed) (hd : cfg.disconnectedTimeout = dur disc) :
    IceGen.agent_validateSelectedPair true silence failed disc cs
      = ([c1 "updateConnectionState"
            (Val.i (csCode (stateForDisconnection cfg (csOf cs) (some (dur silence)) (totalToFailure cfg))).toInt)], true) := by
  have ht := totalCode_model failed disc h1 h2 hov cfg hf hd
  rw [validateSelectedPair_tie, if_pos rfl,
    connectionStateForDisconnection_tie silence (totalCode failed disc) disc cs h0 ht.2 h2 cfg hd, ht.1]

/-- the model: without a (listed) selected pair nothing happens and the answer is `false`; with one the answer is `true` and
the only step is `setConnState` of that state -/
theorem validateSelected_model (a : Agent) (now : Nat) :
    a.validateSelected now =
      match a.selected.bind a.pairById with
      | none => (a, [], false)
      | some p =>
        ((a.setConnState (stateForDisconnection a.cfg a.connState ((a.remoteOf p.r).bind (silence now)) (totalToFailure a.cfg))).1,
         (a.setConnState (stateForDisconnection a.cfg a.connState ((a.remoteOf p.r).bind (silence now)) (totalToFailure a.cfg))).2,
         true) := by
  unfold Agent.validateSelected totalToFailure
  cases a.selected.bind a.pairById <;> rfl

/-! ## `checkKeepalive` -/

/-- **T: `Agent.checkKeepalive`**: one `PingCandidate` on the selected pair iff there is one and `keepaliveInterval ≠ 0` -/
theorem checkKeepalive_tie (hasSelected : Bool) (keepalive : Int64) :
    IceGen.agent_checkKeepalive hasSelected keepalive
      = if hasSelected && keepalive != 0 then [c "PingCandidate(selected)"] else [] := by
  unfold IceGen.agent_checkKeepalive
  cases hasSelected <;> cases (keepalive != 0) <;> rfl

/-- the model pings under the same two conditions -/
theorem keepalive_model (a : Agent) (now : Nat) :
    a.keepalive now =
      match a.selected.bind a.pairById with
      | none => (a, [])
      | some p =>
        if a.cfg.keepaliveInterval != 0 then
          (match a.localOf p.l, a.remoteOf p.r with
           | some l, some r => a.ping now l r
           | _, _ => (a, []))
        else (a, []) := rfl

theorem keepalive_off (a : Agent) (now : Nat) (h : a.cfg.keepaliveInterval = 0) : a.keepalive now = (a, []) := by
  rw [keepalive_model, h]
  cases a.selected.bind a.pairById <;> rfl

/-! ## one iteration of `pingAllCandidates` -/

inductive PingDecision where
  | skip | fail | ping
  deriving DecidableEq, Repr

/-- what the loop body does with a pair in state `st` (AFTER Waiting → InProgress), `count` requests sent, limit `maxReq` -/
def pingDecision (st : PairState) (count maxReq : Nat) : PingDecision :=
  if st == .waiting || st == .inProgress then (if count > maxReq then .fail else .ping) else .skip

def stOf (c : Int64) : PairState :=
  if c = 1 then .waiting else if c = 2 then .inProgress else if c = 3 then .failed else .succeeded

def pingEffs (waiting : Bool) (d : PingDecision) : List Eff :=
  [c "for:checklist"] ++ (if waiting then [Eff.set "p.state" (Val.i 2)] else []) ++
  (match d with
   | .skip => []
   | .fail => [Eff.set "p.state" (Val.i 3)]
   | .ping => [c "PingCandidate", c "bindingRequestCount++"]) ++ [c "end:checklist"]

theorem u16_gt (x y : UInt16) : decide (x > y) = decide (x.toNat > y.toNat) := by
  have : x > y ↔ y.toNat < x.toNat := UInt16.lt_iff_toNat_lt
  by_cases h : x > y
  · rw [decide_eq_true h, decide_eq_true (this.mp h)]
  · rw [decide_eq_false h, decide_eq_false (fun h' => h (this.mpr h'))]

/-- **T: `Agent.pingAllCandidates`, one iteration**: a Waiting pair becomes InProgress first; a pair that is then not
InProgress is skipped; beyond `maxBindingRequests` (strictly) the pair is marked Failed and NOT pinged; otherwise it is pinged
and its request count incremented after the ping.  The emptiness of the checklist only logs. -/
theorem pingAllCandidates_iter_tie (empty : Bool) (state : Int64) (count maxReq : UInt16) :
    IceGen.agent_pingAllCandidates_iter empty state count maxReq
      = pingEffs (state == 1) (pingDecision (stOf state) count.toNat maxReq.toNat) := by
  unfold IceGen.agent_pingAllCandidates_iter pingEffs pingDecision stOf
  rw [u16_gt]
  have hne : (state != 2) = !(state == 2) := rfl
  rw [hne]
  by_cases h1 : state = 1
  · subst h1
    cases empty <;> by_cases hc : count.toNat > maxReq.toNat <;> simp [hc, c]
  · by_cases h2 : state = 2
    · subst h2
      cases empty <;> by_cases hc : count.toNat > maxReq.toNat <;> simp [hc, c]
    · have e1 : (state == 1) = false := by simpa using h1
      have e2 : (state == 2) = false := by simpa using h2
      by_cases h3 : state = 3 <;> cases empty <;> simp [e1, e2, h1, h2, h3, c]

/-- the body of the model's fold in `Agent.pingAll`, as a function of one pair id -/
def pingStep (now : Nat) (acc : Agent × List Out) (id : Nat) : Agent × List Out :=
  let (a, o) := acc
  match a.pairById id with
  | none => (a, o)
  | some p =>
    let p' : Pair := { p with state := .inProgress }
    let (a, p, go) : Agent × Pair × Bool :=
      if p.state == .waiting then (a.modPair id fun q => { q with state := .inProgress }, p', true)
      else (a, p, p.state == .inProgress)
    if !go then (a, o)
    else if p.reqCount > a.cfg.maxBindingRequests then
      (a.modPair id fun p => { p with state := .failed }, o)
    else
      match a.localOf p.l, a.remoteOf p.r with
      | some l, some r =>
        let (a, o') := a.ping now l r
        (a.modPair id fun p => { p with reqCount := p.reqCount + 1 }, o ++ o')
      | _, _ => (a, o)

theorem pingAll_fold (a : Agent) (now : Nat) :
    a.pingAll now = (a.checklist.map (·.id)).foldl (pingStep now) (a, []) := rfl

/-- the model's iteration follows the same decision: skipped pairs change nothing; a pair over the limit is marked failed
without output -/
theorem pingStep_skip (now : Nat) (a : Agent) (o : List Out) (id : Nat) (p : Pair) (hp : a.pairById id = some p)
    (hd : pingDecision p.state p.reqCount a.cfg.maxBindingRequests = .skip) :
    pingStep now (a, o) id = (a, o) := by
  unfold pingStep
  simp only [hp]
  unfold pingDecision at hd
  cases hs : p.state <;> rw [hs] at hd <;> simp at hd
  all_goals (first | rfl | (split at hd <;> simp at hd))

theorem pingStep_fail (now : Nat) (a : Agent) (o : List Out) (id : Nat) (p : Pair) (hp : a.pairById id = some p)
    (hd : pingDecision p.state p.reqCount a.cfg.maxBindingRequests = .fail) :
    (pingStep now (a, o) id).2 = o := by
  unfold pingStep
  simp only [hp]
  unfold pingDecision at hd
  have hgt : p.reqCount > a.cfg.maxBindingRequests := by
    cases hs : p.state <;> rw [hs] at hd <;> simp at hd <;> (try (split at hd <;> simp at hd)) <;> assumption
  cases hs : p.state
  · have : ((a.modPair id fun q => { q with state := .inProgress }).cfg.maxBindingRequests) = a.cfg.maxBindingRequests := rfl
    simp [this, hgt]
  · simp [hgt]
  · rw [hs] at hd; simp at hd
  · rw [hs] at hd; simp at hd

/-! ## one iteration of `keepAliveCandidatesForRenomination` -/

/-- **T: `Agent.keepAliveCandidatesForRenomination`, one iteration**: empty checklist → nothing; a Failed pair is skipped; a
Waiting pair becomes InProgress; every non-failed pair is pinged (no request limit, no count) -/
theorem keepAliveCandidatesForRenomination_iter_tie (empty : Bool) (state : Int64) :
    IceGen.agent_keepAliveCandidatesForRenomination_iter empty state
      = if empty then []
        else [c "for:checklist"] ++
          (if state == 3 then []
           else (if state == 1 then [Eff.set "pair.state" (Val.i 2)] else []) ++ [c "PingCandidate"]) ++ [c "end:checklist"] := by
  unfold IceGen.agent_keepAliveCandidatesForRenomination_iter
  cases empty
  · by_cases h3 : state = 3
    · subst h3; rfl
    · by_cases h1 : state = 1
      · subst h1; rfl
      · have e1 : (state == 1) = false := by simpa using h1
        have e3 : (state == 3) = false := by simpa using h3
        simp only [e1, e3, Bool.false_eq_true, if_false]
        cases (state == 2 || state == 4) <;> rfl
  · rfl

/-- the body of the model's fold in `Agent.keepAliveAll` -/
def keepAliveStep (now : Nat) (acc : Agent × List Out) (id : Nat) : Agent × List Out :=
  let (a, o) := acc
  match a.pairById id with
  | none => (a, o)
  | some p =>
    if p.state == .failed then (a, o) else
    let a := if p.state == .waiting then a.modPair id fun q => { q with state := .inProgress } else a
    match a.localOf p.l, a.remoteOf p.r with
    | some l, some r =>
      let (a, o') := a.ping now l r
      (a, o ++ o')
    | _, _ => (a, o)

theorem keepAliveAll_fold (a : Agent) (now : Nat) :
    a.keepAliveAll now = (a.checklist.map (·.id)).foldl (keepAliveStep now) (a, []) := rfl

theorem keepAliveStep_failed (now : Nat) (a : Agent) (o : List Out) (id : Nat) (p : Pair) (hp : a.pairById id = some p)
    (hf : p.state = .failed) : keepAliveStep now (a, o) id = (a, o) := by
  unfold keepAliveStep
  simp [hp, hf]

/-! ## one iteration of `getBestValidCandidatePair` / `getBestAvailableCandidatePair` -/

/-- effects of one iteration of the two "best pair" loops: `take` = the pair passes the state filter and replaces `best` -/
def bestEffs (take : Bool) : List Eff × String :=
  ([c "for:checklist"] ++ (if take then [Eff.set "best" (Val.s "p")] else []) ++ [c "end:checklist"], "best")

theorem u64_lt (x y : UInt64) : decide (x < y) = decide (x.toNat < y.toNat) := by
  have : x < y ↔ x.toNat < y.toNat := UInt64.lt_iff_toNat_lt
  by_cases h : x < y
  · rw [decide_eq_true h, decide_eq_true (this.mp h)]
  · rw [decide_eq_false h, decide_eq_false (fun h' => h (this.mpr h'))]

/-- **T: `getBestValidCandidatePair`, one iteration**: only Succeeded pairs; the first one is taken, a later one only with a
STRICTLY higher priority (first wins among equals) -/
theorem getBestValidCandidatePair_iter_tie (state : Int64) (bestNil : Bool) (bestPrio pPrio : UInt64) :
    IceGen.agent_getBestValidCandidatePair_iter state bestNil bestPrio pPrio
      = bestEffs (state == 4 && (bestNil || decide (bestPrio.toNat < pPrio.toNat))) := by
  unfold IceGen.agent_getBestValidCandidatePair_iter bestEffs
  rw [u64_lt]
  have hne : (state != 4) = !(state == 4) := rfl
  rw [hne]
  cases (state == 4) <;> cases bestNil <;> cases (decide (bestPrio.toNat < pPrio.toNat)) <;> rfl

/-- **T: `getBestAvailableCandidatePair`, one iteration**: every pair that is not Failed, same replacement rule -/
theorem getBestAvailableCandidatePair_iter_tie (state : Int64) (bestNil : Bool) (bestPrio pPrio : UInt64) :
    IceGen.agent_getBestAvailableCandidatePair_iter state bestNil bestPrio pPrio
      = bestEffs (!(state == 3) && (bestNil || decide (bestPrio.toNat < pPrio.toNat))) := by
  unfold IceGen.agent_getBestAvailableCandidatePair_iter bestEffs
  rw [u64_lt]
  cases (state == 3) <;> cases bestNil <;> cases (decide (bestPrio.toNat < pPrio.toNat)) <;> rfl

/-- the body of the model's fold `Agent.bestBy`, and that it takes a pair under the same rule -/
def bestStep (a : Agent) (ok : Pair → Bool) (best : Option Pair) (p : Pair) : Option Pair :=
  if !ok p then best else
  match best with
  | none => some p
  | some b => if a.pairPrio b < a.pairPrio p then some p else some b

theorem bestBy_fold (a : Agent) (ok : Pair → Bool) : a.bestBy ok = a.checklist.foldl (bestStep a ok) none := rfl

theorem bestStep_take (a : Agent) (ok : Pair → Bool) (best : Option Pair) (p : Pair) :
    bestStep a ok best p =
      if ok p && (best.isNone || decide ((best.map a.pairPrio).getD 0 < a.pairPrio p)) then some p else best := by
  unfold bestStep
  cases ok p <;> cases best <;> simp

/-! ## `addPair` -/

/-- **T: `Agent.addPair`**: the id counter is advanced FIRST, the pair is created with the agent's current role, gets the new
id, is appended to the checklist and indexed by id; it is the result -/
theorem addPair_tie (nextPairID : UInt64) :
    IceGen.agent_addPair nextPairID
      = ([c "nextPairID++", c "p := newCandidatePair(local, remote, isControlling)", Eff.set "p.id" (Val.n nextPairID.toNat),
          Eff.set "a.checklist" (Val.s "checklist ++ [p]"), Eff.set "a.pairsByID[p.id]" (Val.s "p")], "p") := rfl

/-- the model does the same: new id = counter + 1 stored back, role of the agent, appended at the END -/
theorem addPair_model (a : Agent) (l r : Cand) :
    (a.addPair l r).2 = { id := a.nextPairID + 1, l := l.uid, r := r.uid, controlling := a.controlling } ∧
    (a.addPair l r).1.nextPairID = a.nextPairID + 1 ∧
    (a.addPair l r).1.checklist = a.checklist ++ [(a.addPair l r).2] := ⟨rfl, rfl, rfl⟩

/-! ## `liteSelector.ContactCandidates` -/

/-- **T: `liteSelector.ContactCandidates`**: over a controlling selector the full `ContactCandidates`; over a controlled
selector ONLY `validateSelectedPair` (no keepalive, no pings) -/
theorem liteContactCandidates_tie (isControlling isControlled : Bool) :
    IceGen.liteSelector_ContactCandidates isControlling isControlled
      = if isControlling then [c "inner.ContactCandidates"]
        else if isControlled then [c "validateSelectedPair"] else [] := by
  cases isControlling <;> cases isControlled <;> rfl

/-- the model's lite controlled tick: only `validateSelected` -/
theorem contactCandidates_lite_controlled (a : Agent) (now : Nat) (hc : a.controlling = false) (hl : a.cfg.lite = true) :
    a.contactCandidates now = ((a.validateSelected now).1, (a.validateSelected now).2.1) := by
  unfold Agent.contactCandidates
  rw [if_neg (by rw [hc]; exact Bool.false_ne_true), if_pos hl]

end IceTie.AgentTick
