import IceModel.CandText
import IceGen.T_Addr
/-!
# Tie T for the address helpers of addr.go

`portFitsInUint16`, `netAddrToAddrPort` (type switch: `*net.UDPAddr`, `*net.TCPAddr`, anything else), `createAddr`,
`addrEqual` and `toAddrPortKey` are regenerated from the Go source on every run (`IceGen.T_Addr`).  Values of `net` / `netip`
types are labels: `netAddrToAddrPort` returns `"zero"` (the invalid `netip.AddrPort{}`), `"a.AddrPort()"` (the allocation-free
conversion of the typed address, which keeps IP, zone and port) or the parsed string.  A changed bound, arm, guard or
conversion changes the generated term (or leaves the subset) and the theorems stop checking.
-/
namespace IceTie.Addr
open IceModel IceModel.CandText

/-! ## `portFitsInUint16`, `netAddrToAddrPort` -/

/-- **T: `portFitsInUint16`**, every Go `int`: exactly the ports 0 … 65535 (65535 included) -/
theorem portFitsInUint16_tie (port : Int64) :
    IceGen.portFitsInUint16 port = decide (0 ≤ port.toInt ∧ port.toInt ≤ 65535) := by
  unfold IceGen.portFitsInUint16
  have h0 : (port ≥ 0) ↔ (0 : Int64).toInt ≤ port.toInt := Int64.le_iff_toInt_le
  have h1 : (port ≤ 65535) ↔ port.toInt ≤ (65535 : Int64).toInt := Int64.le_iff_toInt_le
  have e0 : (0 : Int64).toInt = 0 := by decide
  have e1 : (65535 : Int64).toInt = 65535 := by decide
  rw [e0] at h0; rw [e1] at h1
  by_cases a : 0 ≤ port.toInt <;> by_cases b : port.toInt ≤ 65535 <;> simp [a, b, h0, h1]

/-- **T: `netAddrToAddrPort`**, all arguments: nil → zero; a `*net.UDPAddr` and a `*net.TCPAddr` alike → zero for a typed nil or
a port outside 0 … 65535, else the address's own `AddrPort()` (IP WITH its zone, port); any other address → its string parsed,
zero if that fails -/
theorem netAddrToAddrPort_tie (isNil isUDPAddr isTCPAddr typedNil : Bool) (port : Int64) (parseFails : Bool) :
    IceGen.netAddrToAddrPort isNil isUDPAddr isTCPAddr typedNil port parseFails
      = if isNil then "zero"
        else if isUDPAddr || isTCPAddr then
          (if typedNil || !decide (0 ≤ port.toInt ∧ port.toInt ≤ 65535) then "zero" else "a.AddrPort()")
        else if parseFails then "zero" else "ParseAddrPort(addr.String())" := by
  unfold IceGen.netAddrToAddrPort
  rw [portFitsInUint16_tie]
  cases isNil <;> cases isUDPAddr <;> cases isTCPAddr <;> rfl

/-- a real UDP or TCP source address — not nil, port in 0 … 65535 (a `uint16` from the socket) — is NEVER turned into the invalid
zero value, and both kinds take the same conversion (the TCP arm does not rebuild the address, so a zone survives) -/
theorem netAddrToAddrPort_valid (isUDPAddr isTCPAddr : Bool) (port : Int64) (parseFails : Bool)
    (hk : (isUDPAddr || isTCPAddr) = true) (h0 : 0 ≤ port.toInt) (h1 : port.toInt ≤ 65535) :
    IceGen.netAddrToAddrPort false isUDPAddr isTCPAddr false port parseFails = "a.AddrPort()" := by
  rw [netAddrToAddrPort_tie]
  simp [hk, h0, h1]

/-- **T: `createAddr`**: TCP network types give a `*net.TCPAddr`, all others a `*net.UDPAddr`, both with IP, port AND zone -/
theorem createAddr_tie (isTCP : Bool) :
    IceGen.createAddr isTCP = if isTCP then "TCPAddr{ip, port, zone}" else "UDPAddr{ip, port, zone}" := rfl

/-! ## `addrEqual` -/

/-- **T: `addrEqual`**: false if either address does not parse; else same network type, `Compare == 0`, same port -/
theorem addrEqual_tie (aErr bErr : Bool) (aType bType ipCompare aPort bPort : Int64) :
    IceGen.addrEqual aErr bErr aType bType ipCompare aPort bPort
      = (!aErr && !bErr && aType == bType && ipCompare == 0 && aPort == bPort) := by
  unfold IceGen.addrEqual
  cases aErr <;> cases bErr <;> simp

/-- the network type `parseAddr` derives from a resolved address: UDP/TCP from the kind of `net.Addr`, 4/6 from `Is4()` -/
def typeCode (isTCP : Bool) (cls : AddrClass) : Int64 :=
  if isTCP then (if cls = .v4 then 3 else 4) else (if cls = .v4 then 1 else 2)

theorem ofNat_beq (n k : Nat) (h : n < 2 ^ 63) (hk : k < 2 ^ 63) :
    (Int64.ofNat n == Int64.ofNat k) = (n == k) := by
  by_cases hnk : n = k
  · subst hnk; simp
  · have : Int64.ofNat n ≠ Int64.ofNat k := by
      intro he
      have := congrArg Int64.toInt he
      rw [Int64.toInt_ofNat_of_lt h, Int64.toInt_ofNat_of_lt hk] at this
      exact hnk (by exact_mod_cast this)
    rw [beq_eq_false_iff_ne.mpr this, beq_eq_false_iff_ne.mpr hnk]

/-- on two resolved candidate addresses of the text model (`CandText.resolved`: kind, class, canonical key, port) `addrEqual` is
the equality of the tuples, when `Compare == 0` means "same class and same canonical key" -/
theorem addrEqual_resolved (a b : Bool × AddrClass × Option Str × Nat) (cmp : Int64)
    (hc : (cmp == 0) = (a.2.1 == b.2.1 && a.2.2.1 == b.2.2.1)) (ha : a.2.2.2 < 2 ^ 63) (hb : b.2.2.2 < 2 ^ 63) :
    IceGen.addrEqual false false (typeCode a.1 a.2.1) (typeCode b.1 b.2.1) cmp (Int64.ofNat a.2.2.2) (Int64.ofNat b.2.2.2)
      = (a == b) := by
  rw [addrEqual_tie, hc, ofNat_beq _ _ ha hb]
  obtain ⟨k1, c1, n1, p1⟩ := a
  obtain ⟨k2, c2, n2, p2⟩ := b
  simp only [Bool.not_false, Bool.true_and]
  have hab : ((k1, c1, n1, p1) == (k2, c2, n2, p2)) = (k1 == k2 && (c1 == c2 && (n1 == n2 && p1 == p2))) := rfl
  rw [hab]
  generalize (n1 == n2) = x
  generalize (p1 == p2) = y
  cases k1 <;> cases k2 <;> cases c1 <;> cases c2 <;> cases x <;> cases y <;> decide

/-! ## `toAddrPortKey` -/

/-- **T: `toAddrPortKey`**: an invalid address is the all-zero key; otherwise the 16 address bytes, then the port big endian -/
theorem toAddrPortKey_tie (valid : Bool) (port : UInt16) :
    IceGen.toAddrPortKey valid port
      = if valid then
          ([Eff.call "copy(ap[:16], As16)" [], Eff.set "ap[16]" (Val.n (port.toNat / 256)), Eff.set "ap[17]" (Val.n (port.toNat % 256))], "ap")
        else ([], "ap") := by
  unfold IceGen.toAddrPortKey Eff.pre
  have h1 : ((port >>> (8 : UInt16)).toUInt8).toNat = port.toNat / 256 := by
    rw [UInt16.toNat_toUInt8, UInt16.toNat_shiftRight]
    have := port.toNat_lt
    simp
    omega
  have h2 : ((port &&& (255 : UInt16)).toUInt8).toNat = port.toNat % 256 := by
    rw [UInt16.toNat_toUInt8, UInt16.toNat_and]
    have e : (255 : UInt16).toNat = 2 ^ 8 - 1 := by decide
    rw [e, Nat.and_two_pow_sub_one_eq_mod]
    omega
  rw [h1, h2]
  cases valid <;> rfl

/-- the two port bytes determine the port: different ports give different keys -/
theorem toAddrPortKey_port_injective (p q : UInt16)
    (h : (p.toNat / 256, p.toNat % 256) = (q.toNat / 256, q.toNat % 256)) : p = q := by
  apply UInt16.toNat_inj.mp
  have h1 := (Prod.mk.inj h).1
  have h2 := (Prod.mk.inj h).2
  omega

end IceTie.Addr
