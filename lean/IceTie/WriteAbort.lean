import IceModel.WriteAbort
import IceGen.T_WriteAbort
/-!
# Tie T for the write-abort state word of the UDP mux (udp_mux.go `writeState`)

The six load / test / CAS loops `startWriteContext`, `finishWrite`, `abortWrite`, `setWriteDeadlineArmed`,
`clearWriteDeadlineAfterAbort`, `clearWriteAbortState` are regenerated from the Go source on every run in LOOP MODE
(`IceGen.T_WriteAbort`): ONE iteration of the loop as a function of the loaded word (`state`) and of the result of
its CAS (`casOk`) — the list of effects (`cas old new`, `gosched`, `store 0`, the socket calls) and `some result` if
the iteration returns, `none` if it goes round again.

`IceModel.WriteAbort.State` keeps the word as (`cnt`, `dbit`, `bbit`).  `word cnt dbit bbit` is the 64-bit value
(count in the low 62 bits, deadline bit 62, blocked bit 63).  For EVERY count below 2^62 and both bits the theorems
give the iteration on `word cnt dbit bbit`: the test it takes is the model's test on (`cnt`, `dbit`, `bbit`), and
the value it CASes in is the word of the model's successor state (`cnt ± 1`, a bit set, both bits cleared).  A
changed mask, bit, `±1`, comparison or branch in the Go source changes the generated term and these theorems stop
checking.
-/
namespace IceTie.WriteAbort
open IceModel IceModel.WriteAbort

/-! ## the word -/

theorem and_split (x y : Nat) :
    x &&& y = 2 ^ 62 * ((x / 2 ^ 62) &&& (y / 2 ^ 62)) + ((x % 2 ^ 62) &&& (y % 2 ^ 62)) := by
  have := Nat.div_add_mod (x &&& y) (2 ^ 62)
  rw [Nat.and_div_two_pow, Nat.and_mod_two_pow] at this
  omega

theorem or_split (x y : Nat) :
    x ||| y = 2 ^ 62 * ((x / 2 ^ 62) ||| (y / 2 ^ 62)) + ((x % 2 ^ 62) ||| (y % 2 ^ 62)) := by
  have := Nat.div_add_mod (x ||| y) (2 ^ 62)
  rw [Nat.or_div_two_pow, Nat.or_mod_two_pow] at this
  omega

/-- the two flag bits as a number 0–3 -/
def hi (d b : Bool) : Nat := (if d then 1 else 0) + (if b then 2 else 0)

/-- `writeState` as a number: count | deadline bit (2^62) | blocked bit (2^63) -/
def word (c : Nat) (d b : Bool) : Nat := 2 ^ 62 * hi d b + c

/-- … and as the `uint64` the code loads -/
def enc (c : Nat) (d b : Bool) : UInt64 := UInt64.ofNat (word c d b)

/-- the model's constants are the code's (`blockedBitPos`, `deadlineBitPos`, `countMask`) -/
theorem word_bits : word 0 false true = 2 ^ blockedBitPos ∧ word 0 true false = 2 ^ deadlineBitPos ∧
    word countMask false false = countMask ∧ word 0 false false = 0 := by decide

theorem word_div (c : Nat) (d b : Bool) (h : c < 2 ^ 62) : word c d b / 2 ^ 62 = hi d b := by
  unfold word; omega
theorem word_mod (c : Nat) (d b : Bool) (h : c < 2 ^ 62) : word c d b % 2 ^ 62 = c := by
  unfold word; omega
theorem word_lt (c : Nat) (d b : Bool) (h : c < 2 ^ 62) : word c d b < 2 ^ 64 := by
  unfold word hi; cases d <;> cases b <;> simp <;> omega

theorem lt_size {n : Nat} (h : n < 2 ^ 64) : n < UInt64.size := by unfold UInt64.size; omega

theorem enc_toNat (c : Nat) (d b : Bool) (h : c < 2 ^ 62) : (enc c d b).toNat = word c d b :=
  UInt64.toNat_ofNat_of_lt' (word_lt c d b h)

theorem word_and_B (c : Nat) (d b : Bool) (h : c < 2 ^ 62) :
    word c d b &&& 9223372036854775808 = if b then 9223372036854775808 else 0 := by
  rw [and_split, word_div c d b h, word_mod c d b h]
  cases d <;> cases b <;> simp [hi]

theorem word_and_D (c : Nat) (d b : Bool) (h : c < 2 ^ 62) :
    word c d b &&& 4611686018427387904 = if d then 4611686018427387904 else 0 := by
  rw [and_split, word_div c d b h, word_mod c d b h]
  cases d <;> cases b <;> simp [hi]

theorem word_and_C (c : Nat) (d b : Bool) (h : c < 2 ^ 62) : word c d b &&& 4611686018427387903 = c := by
  have := Nat.and_two_pow_sub_one_eq_mod (word c d b) 62
  rw [word_mod c d b h] at this
  exact this

theorem word_or_B (c : Nat) (d b : Bool) (h : c < 2 ^ 62) : word c d b ||| 9223372036854775808 = word c d true := by
  rw [or_split, word_div c d b h, word_mod c d b h]
  cases d <;> cases b <;> simp [hi, word]

theorem word_or_D (c : Nat) (d b : Bool) (h : c < 2 ^ 62) : word c d b ||| 4611686018427387904 = word c true b := by
  rw [or_split, word_div c d b h, word_mod c d b h]
  cases d <;> cases b <;> simp [hi, word]

theorem u64_eq (x y : UInt64) (h : x.toNat = y.toNat) : x = y := UInt64.toNat_inj.mp h

theorem u64_beq (x y : UInt64) : (x == y) = (x.toNat == y.toNat) := by
  by_cases h : x = y
  · subst h; rw [beq_self_eq_true, beq_self_eq_true]
  · have : x.toNat ≠ y.toNat := fun e => h (UInt64.toNat_inj.mp e)
    rw [beq_eq_false_iff_ne.mpr h, beq_eq_false_iff_ne.mpr this]

theorem u64_bne (x y : UInt64) : (x != y) = (x.toNat != y.toNat) := by
  simp only [bne, u64_beq]

/-- `state&udpMuxWriteBlockedBit != 0` is the model's `bbit` -/
theorem blocked_test (c : Nat) (d b : Bool) (h : c < 2 ^ 62) :
    ((enc c d b &&& 9223372036854775808) != 0) = b := by
  rw [u64_bne, UInt64.toNat_and, enc_toNat c d b h]
  change ((word c d b &&& 9223372036854775808) != 0) = b
  rw [word_and_B c d b h]
  cases b <;> rfl

theorem blocked_test0 (c : Nat) (d b : Bool) (h : c < 2 ^ 62) :
    ((enc c d b &&& 9223372036854775808) == 0) = !b := by
  have := blocked_test c d b h
  unfold bne at this
  cases hb : ((enc c d b &&& 9223372036854775808) == 0) <;> rw [hb] at this <;> rw [← this] <;> rfl

/-- `state&udpMuxWriteDeadlineBit != 0` is the model's `dbit` -/
theorem deadline_test (c : Nat) (d b : Bool) (h : c < 2 ^ 62) :
    ((enc c d b &&& 4611686018427387904) != 0) = d := by
  rw [u64_bne, UInt64.toNat_and, enc_toNat c d b h]
  change ((word c d b &&& 4611686018427387904) != 0) = d
  rw [word_and_D c d b h]
  cases d <;> rfl

theorem deadline_test0 (c : Nat) (d b : Bool) (h : c < 2 ^ 62) :
    ((enc c d b &&& 4611686018427387904) == 0) = !d := by
  have := deadline_test c d b h
  unfold bne at this
  cases hb : ((enc c d b &&& 4611686018427387904) == 0) <;> rw [hb] at this <;> rw [← this] <;> rfl

/-- `state & udpMuxWriteCountMask` is the model's `cnt` -/
theorem count_field (c : Nat) (d b : Bool) (h : c < 2 ^ 62) :
    enc c d b &&& 4611686018427387903 = UInt64.ofNat c := by
  apply u64_eq
  rw [UInt64.toNat_and, enc_toNat c d b h, UInt64.toNat_ofNat_of_lt' (lt_size (by omega))]
  exact word_and_C c d b h

theorem count_eq (c k : Nat) (h : c < 2 ^ 62) (hk : k < 2 ^ 62) : (UInt64.ofNat c == UInt64.ofNat k) = (c == k) := by
  rw [u64_beq, UInt64.toNat_ofNat_of_lt' (lt_size (by omega)), UInt64.toNat_ofNat_of_lt' (lt_size (by omega))]

/-- `state | udpMuxWriteBlockedBit` / `state | udpMuxWriteDeadlineBit` set the model's bit -/
theorem set_blocked (c : Nat) (d b : Bool) (h : c < 2 ^ 62) : enc c d b ||| 9223372036854775808 = enc c d true := by
  apply u64_eq
  rw [UInt64.toNat_or, enc_toNat c d b h, enc_toNat c d true h]
  exact word_or_B c d b h

theorem set_deadline (c : Nat) (d b : Bool) (h : c < 2 ^ 62) : enc c d b ||| 4611686018427387904 = enc c true b := by
  apply u64_eq
  rw [UInt64.toNat_or, enc_toNat c d b h, enc_toNat c true b h]
  exact word_or_D c d b h

/-- `state &^ (blocked | deadline)` clears both bits -/
theorem clear_bits (c : Nat) (d b : Bool) (h : c < 2 ^ 62) :
    enc c d b &&& (~~~(13835058055282163712 : UInt64)) = enc c false false := by
  have e : (~~~(13835058055282163712 : UInt64)) = 4611686018427387903 := by decide
  rw [e, count_field c d b h]
  unfold enc word hi
  simp

/-- `state + 1` / `state - 1` move the count and leave the bits -/
theorem inc_word (c : Nat) (d b : Bool) (h : c + 1 < 2 ^ 62) : enc c d b + 1 = enc (c + 1) d b := by
  apply u64_eq
  rw [UInt64.toNat_add, enc_toNat c d b (by omega), enc_toNat (c + 1) d b h]
  have := word_lt (c + 1) d b h
  unfold word at *
  change (2 ^ 62 * hi d b + c + 1) % 2 ^ 64 = _
  omega

theorem dec_word (c : Nat) (d b : Bool) (h : c + 1 < 2 ^ 62) : enc (c + 1) d b - 1 = enc c d b := by
  apply u64_eq
  rw [UInt64.toNat_sub, enc_toNat c d b (by omega), enc_toNat (c + 1) d b h]
  have := word_lt (c + 1) d b h
  unfold word at *
  change (2 ^ 64 - 1 + (2 ^ 62 * hi d b + (c + 1))) % 2 ^ 64 = _
  omega

/-! ## the iterations -/

def eCas (old new : Nat) : Eff := Eff.call "cas" [Val.n old, Val.n new]
def eYield : Eff := Eff.call "gosched" []

/-- **T: `startWriteContext`** (model actions `startCtxErr`, `start`): a cancelled context returns its error; a blocked
word yields and retries; otherwise CAS(word, word with count + 1) and return nil iff it succeeded -/
theorem startWriteContext_tie (c : Nat) (d b casOk : Bool) (h : c + 1 < 2 ^ 62) :
    IceGen.udpMux_startWriteContext_iter true (enc c d b) casOk = ([], some "ctxErr") ∧
    IceGen.udpMux_startWriteContext_iter false (enc c d b) casOk
      = if b then ([eYield], none)
        else ([eCas (word c d b) (word (c + 1) d b)], if casOk then some "nil" else none) := by
  unfold IceGen.udpMux_startWriteContext_iter Eff.pre
  refine ⟨rfl, ?_⟩
  simp only [Bool.false_eq_true, if_false]
  rw [blocked_test c d b (by omega), inc_word c d b h, enc_toNat c d b (by omega), enc_toNat (c + 1) d b h]
  cases b <;> cases casOk <;> rfl

/-- **T: `finishWrite`** (model action `finish`): count 0 returns; blocked ∧ count 1 → CAS(word, count − 1) then
`clearWriteDeadlineAfterAbort`; otherwise CAS(word, count − 1) and return -/
theorem finishWrite_tie (c : Nat) (d b casOk : Bool) (h : c < 2 ^ 62) :
    IceGen.udpMux_finishWrite_iter (enc c d b) casOk
      = if c = 0 then ([], some "writeErr")
        else if b ∧ c = 1 then
          ([eCas (word c d b) (word (c - 1) d b)], if casOk then some "clearWriteDeadlineAfterAbort(writeErr)" else none)
        else ([eCas (word c d b) (word (c - 1) d b)], if casOk then some "writeErr" else none) := by
  unfold IceGen.udpMux_finishWrite_iter Eff.pre
  simp only
  rw [count_field c d b h, blocked_test c d b h]
  have e0 : (UInt64.ofNat c == 0) = (c == 0) := count_eq c 0 h (by decide)
  have e1 : (UInt64.ofNat c == 1) = (c == 1) := count_eq c 1 h (by decide)
  rw [e0, e1]
  cases c with
  | zero => rfl
  | succ k =>
    rw [dec_word k d b h, enc_toNat k d b (by omega), enc_toNat (k + 1) d b h]
    have hk : (k + 1 == 0) = false := by simp
    simp only [hk, Bool.false_eq_true, if_false, Nat.add_sub_cancel, Nat.add_eq_zero_iff, Nat.succ_ne_zero, and_false]
    by_cases h1 : k = 0
    · subst h1; cases b <;> cases casOk <;> rfl
    · have : (k + 1 == 1) = false := by simp [h1]
      have h1' : ¬ (k + 1 = 1) := by omega
      simp only [this, Bool.and_false, Bool.false_eq_true, if_false, h1', and_false]
      cases casOk <;> rfl

/-- **T: `abortWrite`** (model actions `abortCas`, `abortSet`): blocked or count 0 returns nil; otherwise CAS(word, word with
blocked); after a successful CAS `SetWriteDeadline(now)`, on failure `clearWriteAbortState` and the error, on success
`setWriteDeadlineArmed` and nil -/
theorem abortWrite_tie (c : Nat) (d b casOk setFails : Bool) (h : c < 2 ^ 62) :
    IceGen.udpMux_abortWrite_iter (enc c d b) casOk setFails
      = if b ∨ c = 0 then ([], some "nil")
        else if !casOk then ([eCas (word c d b) (word c d true)], none)
        else if setFails then
          ([eCas (word c d b) (word c d true), Eff.call "setWriteDeadlineNow" [], Eff.call "clearWriteAbortState" []], some "err")
        else
          ([eCas (word c d b) (word c d true), Eff.call "setWriteDeadlineNow" [], Eff.call "setWriteDeadlineArmed" []], some "nil") := by
  unfold IceGen.udpMux_abortWrite_iter Eff.pre
  rw [count_field c d b h, blocked_test c d b h, set_blocked c d b h, enc_toNat c d b h, enc_toNat c d true h]
  have e0 : (UInt64.ofNat c == 0) = (c == 0) := count_eq c 0 h (by decide)
  rw [e0]
  by_cases hc : c = 0
  · subst hc; cases b <;> rfl
  · have : (c == 0) = false := by simp [hc]
    simp only [this, Bool.or_false, hc, or_false]
    cases b <;> cases casOk <;> cases setFails <;> rfl

/-- **T: `setWriteDeadlineArmed`** (model action `abortArm`): not blocked or already armed returns; otherwise CAS(word, word
with the deadline bit) -/
theorem setWriteDeadlineArmed_tie (c : Nat) (d b casOk : Bool) (h : c < 2 ^ 62) :
    IceGen.udpMux_setWriteDeadlineArmed_iter (enc c d b) casOk
      = if b = false ∨ d then ([], some ())
        else ([eCas (word c d b) (word c true b)], if casOk then some () else none) := by
  unfold IceGen.udpMux_setWriteDeadlineArmed_iter Eff.pre
  rw [blocked_test0 c d b h, deadline_test c d b h, set_deadline c d b h, enc_toNat c d b h, enc_toNat c true b h]
  cases b <;> cases d <;> cases casOk <;> rfl

/-- **T: `clearWriteDeadlineAfterAbort`** (model actions `clearLoad`, `clearSet`, `clearStore`): not blocked returns;
blocked without the deadline bit yields and retries; otherwise `SetWriteDeadline(zero)`, `Store(0)`, and the write's
error or, if there is none, the error of the clearing -/
theorem clearWriteDeadlineAfterAbort_tie (c : Nat) (d b writeOk : Bool) (h : c < 2 ^ 62) :
    IceGen.udpMux_clearWriteDeadlineAfterAbort_iter (enc c d b) writeOk
      = if b = false then ([], some "writeErr")
        else if d = false then ([eYield], none)
        else ([Eff.call "setWriteDeadlineZero" [], Eff.call "store" [Val.n (word 0 false false)]],
              some (if writeOk then "clearErr" else "writeErr")) := by
  unfold IceGen.udpMux_clearWriteDeadlineAfterAbort_iter Eff.pre
  rw [blocked_test0 c d b h, deadline_test0 c d b h]
  cases b <;> cases d <;> cases writeOk <;> rfl

/-- **T: `clearWriteAbortState`** (model action `abortClear`): no bit set returns; otherwise CAS(word, word with both bits
cleared) -/
theorem clearWriteAbortState_tie (c : Nat) (d b casOk : Bool) (h : c < 2 ^ 62) :
    IceGen.udpMux_clearWriteAbortState_iter (enc c d b) casOk
      = if d = false ∧ b = false then ([], some ())
        else ([eCas (word c d b) (word c false false)], if casOk then some () else none) := by
  unfold IceGen.udpMux_clearWriteAbortState_iter Eff.pre
  simp only
  rw [clear_bits c d b h, u64_beq, enc_toNat c d b h, enc_toNat c false false h]
  have hne : (word c d b == word c false false) = (!d && !b) := by
    cases d <;> cases b <;> simp [word, hi]
  rw [hne]
  cases d <;> cases b <;> cases casOk <;> rfl

/-! ## the iterations against the model's transitions

`wordOf s` is the word of a model state.  For every state and thread at the right location, the iteration whose CAS
succeeds performs exactly the model's transition: it takes the model's branch and the value it CASes (stores) is the
word of the model's successor state. -/

def wordOf (s : State) : Nat := word s.cnt s.dbit s.bbit
def encOf (s : State) : UInt64 := enc s.cnt s.dbit s.bbit

/-- W0 `start`: blocked → yield, the state stays; else CAS to the successor's word and return -/
theorem start_refines (s : State) (i : Nat) (hw : s.wr[i]? = some .w0) (h : s.cnt + 1 < 2 ^ 62) :
    ∃ s', step s (.start i) = some s' ∧
      IceGen.udpMux_startWriteContext_iter false (encOf s) true
        = if s.bbit then ([eYield], none) else ([eCas (wordOf s) (wordOf s')], some "nil") := by
  unfold encOf
  rw [(startWriteContext_tie s.cnt s.dbit s.bbit true h).2]
  cases hb : s.bbit
  · exact ⟨{ s with cnt := s.cnt + 1, wr := s.wr.set i .w1 }, by simp [step, hw, hb], by simp [wordOf, hb]⟩
  · exact ⟨s, by simp [step, hw, hb], by simp⟩

/-- W2 `finish`: count 0 → return; else CAS to the successor's word (count − 1, bits kept), then either
`clearWriteDeadlineAfterAbort` (blocked ∧ count 1: location W3) or return -/
theorem finish_refines (s : State) (i : Nat) (hw : s.wr[i]? = some .w2) (h : s.cnt < 2 ^ 62) :
    ∃ s', step s (.finish i) = some s' ∧
      IceGen.udpMux_finishWrite_iter (encOf s) true
        = if s.cnt = 0 then ([], some "writeErr")
          else ([eCas (wordOf s) (wordOf s')],
                some (if s.bbit ∧ s.cnt = 1 then "clearWriteDeadlineAfterAbort(writeErr)" else "writeErr")) := by
  unfold encOf
  rw [finishWrite_tie s.cnt s.dbit s.bbit true h]
  by_cases h0 : s.cnt = 0
  · exact ⟨{ s with wr := s.wr.set i .done }, by simp [step, hw, h0], by simp [h0]⟩
  · by_cases h1 : s.bbit = true ∧ s.cnt = 1
    · exact ⟨{ s with cnt := 0, wr := s.wr.set i (.w3 s.epoch) }, by simp [step, hw, h0, h1], by simp [wordOf, h1]⟩
    · exact ⟨{ s with cnt := s.cnt - 1, wr := s.wr.set i .done }, by simp [step, hw, h0, h1], by simp [wordOf, h0, h1]⟩

/-- A0 `abortCas`: blocked or count 0 → return nil, the state's word stays; else CAS to the successor's word (blocked set),
then `SetWriteDeadline(now)` and, by its outcome, `clearWriteAbortState` + the error or `setWriteDeadlineArmed` + nil -/
theorem abortCas_refines (s : State) (j : Nat) (setFails : Bool) (hw : s.ab[j]? = some .a0) (h : s.cnt < 2 ^ 62) :
    ∃ s', step s (.abortCas j) = some s' ∧
      IceGen.udpMux_abortWrite_iter (encOf s) true setFails
        = if s.bbit ∨ s.cnt = 0 then ([], some "nil")
          else ([eCas (wordOf s) (wordOf s'), Eff.call "setWriteDeadlineNow" [],
                 Eff.call (if setFails then "clearWriteAbortState" else "setWriteDeadlineArmed") []],
                some (if setFails then "err" else "nil")) := by
  unfold encOf
  rw [abortWrite_tie s.cnt s.dbit s.bbit true setFails h]
  by_cases h0 : s.bbit = true ∨ s.cnt = 0
  · exact ⟨{ s with ab := s.ab.set j (.done false) }, by simp [step, hw, h0], by simp [h0]⟩
  · refine ⟨{ s with bbit := true, epoch := s.epoch + 1, ab := s.ab.set j .a1 }, by simp [step, hw, h0], ?_⟩
    cases setFails <;> simp [wordOf, h0]

/-- A2 `abortArm`: not blocked or already armed → return; else CAS to the successor's word (deadline bit set) -/
theorem abortArm_refines (s : State) (j : Nat) (hw : s.ab[j]? = some .a2) (h : s.cnt < 2 ^ 62) :
    ∃ s', step s (.abortArm j) = some s' ∧
      IceGen.udpMux_setWriteDeadlineArmed_iter (encOf s) true
        = if s.bbit = false ∨ s.dbit then ([], some ()) else ([eCas (wordOf s) (wordOf s')], some ()) := by
  unfold encOf
  rw [setWriteDeadlineArmed_tie s.cnt s.dbit s.bbit true h]
  by_cases h0 : s.bbit = false ∨ s.dbit = true
  · exact ⟨{ s with ab := s.ab.set j (.done false) }, by simp [step, hw, h0], by simp [h0]⟩
  · exact ⟨{ s with dbit := true, ab := s.ab.set j (.done false) }, by simp [step, hw, h0], by simp [wordOf, h0]⟩

/-- A3 `abortClear`: CAS to the successor's word (both bits cleared) unless no bit is set -/
theorem abortClear_refines (s : State) (j : Nat) (hw : s.ab[j]? = some .a3) (h : s.cnt < 2 ^ 62) :
    ∃ s', step s (.abortClear j) = some s' ∧
      IceGen.udpMux_clearWriteAbortState_iter (encOf s) true
        = if s.dbit = false ∧ s.bbit = false then ([], some ()) else ([eCas (wordOf s) (wordOf s')], some ()) := by
  unfold encOf
  rw [clearWriteAbortState_tie s.cnt s.dbit s.bbit true h]
  exact ⟨{ s with bbit := false, dbit := false, ab := s.ab.set j (.done true) }, by simp [step, hw], by simp [wordOf]⟩

/-- W3 `clearLoad` and W4 `clearStore`: not blocked → return; blocked, not armed → yield, the state stays; armed → the
socket's deadline is cleared and `Store` writes the word of the state after `clearStore` (count 0, no bit) -/
theorem clear_refines (s : State) (i ep : Nat) (writeOk : Bool) (hw : s.wr[i]? = some (.w3 ep)) (h : s.cnt < 2 ^ 62) :
    ∃ s', step s (.clearLoad i) = some s' ∧
      IceGen.udpMux_clearWriteDeadlineAfterAbort_iter (encOf s) writeOk
        = (if s.bbit = false then ([], some "writeErr")
          else if s.dbit = false then ([eYield], none)
          else ([Eff.call "setWriteDeadlineZero" [],
                 Eff.call "store" [Val.n (wordOf { s with cnt := 0, dbit := false, bbit := false })]],
                some (if writeOk then "clearErr" else "writeErr"))) ∧
      (s.bbit = true → s.dbit = false → s' = s) := by
  unfold encOf
  rw [clearWriteDeadlineAfterAbort_tie s.cnt s.dbit s.bbit writeOk h]
  cases hb : s.bbit
  · exact ⟨{ s with wr := s.wr.set i .done }, by simp [step, hw, hb], by simp, by simp⟩
  · cases hd : s.dbit
    · exact ⟨s, by simp [step, hw, hb, hd], by simp, fun _ _ => rfl⟩
    · exact ⟨{ s with wr := s.wr.set i (.w3c ep) }, by simp [step, hw, hb, hd], by simp [wordOf], by simp⟩

end IceTie.WriteAbort
