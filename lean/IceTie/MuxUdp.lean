import IceModel.UdpMux
import IceGen.T_Mux
/-!
# Tie T, round 3: where a datagram goes (udp_mux.go `connWorker`)

`UDPMuxDefault.connWorker` (ONE iteration of its read loop, loop mode) is regenerated from the Go source on every run
(`IceGen.T_Mux`, effect mode).  The ufrag extraction `strings.Split(string(attr), ":")[0]` and the family test are pinned
statements (effects by their text); the theorem states the effect list for all outcomes of the tests, the corollaries the routing
decision the model `UdpMux.inbound` makes.
-/
namespace IceTie.MuxUdp
open IceModel

def c (name : String) : Eff := Eff.call name []

/-! ## `connWorker` -/

/-- the destination exists: the source is in the address map, or the datagram is STUN that decodes, has a USERNAME, and the
ufrag before the first ':' is registered for the family of the canonical source -/
def udpRouted (mapped isStun decodeErr noUsername byUfrag : Bool) : Bool :=
  mapped || (isStun && !decodeErr && !noUsername && byUfrag)

def udpLookup : List Eff :=
  [c "msg := copy of the datagram"]

def udpByUfrag : List Eff :=
  [c "ufrag := USERNAME up to the first ':'", c "isIPv6 := canonical source is IPv6", c "mu.Lock",
   c "destinationConn = getConn(ufrag, isIPv6)", c "mu.Unlock"]

def udpHead : List Eff :=
  [c "srcAddr := canonicalAddrPort(source)", c "addressMapMu.Lock", c "destinationConn := addressMap[srcAddr]", c "addressMapMu.Unlock"]

def udpWrite : Eff := c "destinationConn.writePacket(datagram, source)"

/-- **T: `UDPMuxDefault.connWorker`, one iteration**: read; a closed mux or a non-timeout read error ends the worker, a timeout
goes round again; the source is canonicalised and looked up in the address map FIRST; only an unmapped source with a STUN
payload is looked up by ufrag (Decode, USERNAME, text before the first ':', family of the canonical source, under `mu`); a
datagram without destination is dropped; otherwise exactly one `writePacket` to the destination; the loop continues -/
theorem connWorker_iter_tie (closed readErr isTimeout e1 e2 e3 mapped isStun decodeErr noUsername byUfrag : Bool) :
    IceGen.udpMux_connWorker_iter closed readErr isTimeout e1 e2 e3 mapped isStun decodeErr noUsername byUfrag
      = if closed then ([c "readFromUDPConn"], some ())
        else if readErr then ([c "readFromUDPConn"], if isTimeout then none else some ())
        else (c "readFromUDPConn" :: udpHead ++
               (if !mapped && isStun then
                  udpLookup ++ (if decodeErr || noUsername then [] else udpByUfrag ++ (if byUfrag then [udpWrite] else []))
                else if mapped then [udpWrite] else []), none) := by
  unfold IceGen.udpMux_connWorker_iter
  cases closed
  · cases readErr
    · simp only [Bool.false_eq_true, if_false]
      cases mapped <;> cases isStun <;> cases decodeErr <;> cases noUsername <;> cases byUfrag <;> rfl
    · simp only [Bool.false_eq_true, if_false, if_true, ite_self]
      cases isTimeout <;> rfl
  · rfl

/-- a datagram is written to a connection exactly when it is routed, and then once -/
theorem connWorker_delivers_iff (isTimeout e1 e2 e3 mapped isStun decodeErr noUsername byUfrag : Bool) :
    (IceGen.udpMux_connWorker_iter false false isTimeout e1 e2 e3 mapped isStun decodeErr noUsername byUfrag).1.count udpWrite
      = if udpRouted mapped isStun decodeErr noUsername byUfrag then 1 else 0 := by
  rw [connWorker_iter_tie]
  simp only [Bool.false_eq_true, if_false]
  cases mapped <;> cases isStun <;> cases decodeErr <;> cases noUsername <;> cases byUfrag <;> decide

/-- the model routes the same way: the address map first … -/
theorem inbound_mapped (m : UdpMux.Mux) (src : UdpMux.Addr) (k : UdpMux.Kind) (pid c : Nat) (hc : m.closed = false)
    (hm : m.addrMap (UdpMux.canonAddr src) = some c) (hl : (m.conn c).closed = false) :
    (UdpMux.inbound m src k pid).2 = .delivered c := by
  unfold UdpMux.inbound
  simp [hc, hm, hl]

/-- … and by ufrag only for STUN with a USERNAME, on the text before the first ':' and the family of the canonical source -/
theorem lookupUfrag_only_user (m : UdpMux.Mux) (a : UdpMux.Addr) (k : UdpMux.Kind) :
    UdpMux.lookupUfrag m a k =
      match k with
      | .stunUser n => (UdpMux.famMap m (!a.ip.is4)).get? (UdpMux.beforeColon n)
      | _ => none := by
  cases k <;> rfl

end IceTie.MuxUdp
