import Driver.Main
