import IceTie.Prio
