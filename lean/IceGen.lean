import IceGen.T_Prio
