// gotolean: typed translator from a small subset of Go to Lean 4 definitions.
//
// It is the "T" tie of /verif/DESIGN.md §3.1: every function named in the spec
// file is loaded from the CURRENT working tree of the repository (with full type
// information), translated to one total Lean `def`, and written to
// lean/IceGen/<Module>.lean.  IceTie/*.lean then proves each generated
// definition equal to the hand-written model for all arguments.
//
// Subset: typed unsigned/signed integer arithmetic with Go's wrap-around
// (UInt8/16/32/64, Int64), comparisons, boolean operators, if/else, tagged and
// tagless switch (no fallthrough), local var/:=/=/op=, early return, calls to
// other translated functions, closures (inlined as lambdas), conversions.
// Anything that is not a local, a constant, a translated callee or a declared
// atom (an expression whose source text is mapped to a parameter) is a
// translation FAILURE, never a guess.
//
// "Effect mode" (spec field "effects": true) translates a function without
// result, or with effects, into `List Eff`-valued term: every call statement
// that is listed under "effectCalls" is emitted as an effect with its
// (translated) arguments; see Eff in IceModel/Eff.lean.
package main

import (
	"bytes"
	"crypto/sha256"
	"encoding/json"
	"flag"
	"fmt"
	"go/ast"
	"go/constant"
	"go/printer"
	"go/token"
	"go/types"
	"os"
	"path/filepath"
	"sort"
	"strings"

	"golang.org/x/tools/go/packages"
)

type ParamSpec struct {
	Lean string `json:"lean"`
	Type string `json:"type"`
	Go   string `json:"go"` // source text of the Go expression this parameter stands for
}

type MacroSpec struct {
	Go   string `json:"go"`
	Expr string `json:"expr"` // Lean expression (may mention parameters)
	Type string `json:"type"` // Lean type of Expr (needed only when the macro is used as an effect argument)
}

type EffectSpec struct {
	Go   string   `json:"go"`   // printed text of call's Fun, e.g. "a.sendBindingError"
	Name string   `json:"name"` // label
	Args []int    `json:"args"` // indices of call arguments to translate and keep (must be translatable to Nat via toNat or Bool)
	Kind []string `json:"kind"` // optional
}

type FuncSpec struct {
	Pkg     string       `json:"pkg"`  // package path suffix ("" = root package)
	Go      string       `json:"go"`   // "Recv.Method" or "func"
	Lean    string       `json:"lean"` // Lean def name
	Params  []ParamSpec  `json:"params"`
	Macros  []MacroSpec  `json:"macros"`
	Ret     string       `json:"ret"`     // Lean result type; "" = derive
	Effects bool         `json:"effects"` // effect mode
	Calls   []EffectSpec `json:"effectCalls"`
	// Assigns: in effect mode, assignments to these lvalue texts are emitted as effects "set:<text>"
	Assigns []string `json:"effectAssigns"`
	// Ignore: statements whose printed text starts with one of these prefixes are skipped (logging)
	Ignore []string `json:"ignore"`
	// Site: translate only the body of the n-th (0-based) statement matching the prefix
	Note string `json:"note"`
}

type ModuleSpec struct {
	Module  string     `json:"module"`
	Imports []string   `json:"imports"`
	Funcs   []FuncSpec `json:"funcs"`
}

type failure struct{ msg string }

func failf(format string, a ...any) { panic(failure{fmt.Sprintf(format, a...)}) }

type tr struct {
	fset    *token.FileSet
	info    *types.Info
	spec    *FuncSpec
	atoms   map[string]string // go text -> lean expr
	atomTy  map[string]string // go text -> lean type (parameters, typed macros)
	locals  map[types.Object]string
	callees map[string]string // types.Func FullName -> lean name
	effects map[string]*EffectSpec
	assigns map[string]bool
	// effect mode for a function WITH a result: terms have type `List Eff × R`
	effRes bool
}

// cons renders "emit effect e, then rest" for the current mode.
func (t *tr) cons(e, rest string) string {
	if t.effRes {
		return "(Eff.pre " + e + " " + rest + ")"
	}
	return "(" + e + " :: " + rest + ")"
}

func (t *tr) text(n ast.Node) string {
	var b bytes.Buffer
	_ = printer.Fprint(&b, t.fset, n)
	return b.String()
}

func leanType(ty types.Type) string {
	switch u := ty.Underlying().(type) {
	case *types.Basic:
		switch u.Kind() {
		case types.Bool, types.UntypedBool:
			return "Bool"
		case types.Uint8:
			return "UInt8"
		case types.Uint16:
			return "UInt16"
		case types.Uint32:
			return "UInt32"
		case types.Uint64, types.Uint, types.Uintptr:
			return "UInt64"
		case types.Int64, types.Int:
			return "Int64"
		case types.Int32:
			return "Int32"
		case types.Int16:
			return "Int16"
		case types.Int8:
			return "Int8"
		case types.String, types.UntypedString:
			return "String"
		}
	}
	failf("unsupported type %s", ty.String())
	return ""
}

func constLit(v constant.Value, ty types.Type) string {
	lt := leanType(ty)
	switch lt {
	case "Bool":
		if constant.BoolVal(v) {
			return "true"
		}
		return "false"
	case "String":
		return fmt.Sprintf("%q", constant.StringVal(v))
	default:
		s := v.ExactString()
		if strings.HasPrefix(s, "-") {
			return fmt.Sprintf("(%s : %s)", s, lt)
		}
		return fmt.Sprintf("(%s : %s)", s, lt)
	}
}

func (t *tr) expr(e ast.Expr) string {
	if a, ok := t.atoms[t.text(e)]; ok {
		return a
	}
	if tv, ok := t.info.Types[e]; ok && tv.Value != nil {
		return constLit(tv.Value, tv.Type)
	}
	switch x := e.(type) {
	case *ast.ParenExpr:
		return t.expr(x.X)
	case *ast.Ident:
		obj := t.info.Uses[x]
		if obj == nil {
			obj = t.info.Defs[x]
		}
		if n, ok := t.locals[obj]; ok {
			return n
		}
		if x.Name == "true" || x.Name == "false" {
			return x.Name
		}
		failf("free identifier %q (not a local, constant or atom)", x.Name)
	case *ast.UnaryExpr:
		switch x.Op {
		case token.NOT:
			return "(!" + t.expr(x.X) + ")"
		case token.SUB:
			return "(-" + t.expr(x.X) + ")"
		case token.XOR:
			return "(~~~" + t.expr(x.X) + ")"
		}
		failf("unsupported unary %s", x.Op)
	case *ast.BinaryExpr:
		l, r := t.expr(x.X), t.expr(x.Y)
		switch x.Op {
		case token.ADD:
			if leanType(t.info.TypeOf(x)) == "String" {
				return "(" + l + " ++ " + r + ")"
			}
			return "(" + l + " + " + r + ")"
		case token.SUB:
			return "(" + l + " - " + r + ")"
		case token.MUL:
			return "(" + l + " * " + r + ")"
		case token.QUO:
			return "(" + l + " / " + r + ")"
		case token.REM:
			return "(" + l + " % " + r + ")"
		case token.AND:
			return "(" + l + " &&& " + r + ")"
		case token.OR:
			return "(" + l + " ||| " + r + ")"
		case token.XOR:
			return "(" + l + " ^^^ " + r + ")"
		case token.SHL, token.SHR:
			// only constant shift counts below the width are in the subset
			tv := t.info.Types[x.Y]
			if tv.Value == nil {
				failf("non-constant shift count in %s", t.text(x))
			}
			n, _ := constant.Uint64Val(tv.Value)
			lt := leanType(t.info.TypeOf(x))
			w := map[string]uint64{"UInt8": 8, "UInt16": 16, "UInt32": 32, "UInt64": 64, "Int64": 64}[lt]
			if n >= w {
				failf("shift count %d >= width in %s", n, t.text(x))
			}
			op := " <<< "
			if x.Op == token.SHR {
				op = " >>> "
			}
			return fmt.Sprintf("(%s%s(%d : %s))", l, op, n, lt)
		case token.LAND:
			return "(" + l + " && " + r + ")"
		case token.LOR:
			return "(" + l + " || " + r + ")"
		case token.EQL:
			return "(" + l + " == " + r + ")"
		case token.NEQ:
			return "(" + l + " != " + r + ")"
		case token.LSS:
			return "(decide (" + l + " < " + r + "))"
		case token.LEQ:
			return "(decide (" + l + " ≤ " + r + "))"
		case token.GTR:
			return "(decide (" + l + " > " + r + "))"
		case token.GEQ:
			return "(decide (" + l + " ≥ " + r + "))"
		}
		failf("unsupported binary %s", x.Op)
	case *ast.CallExpr:
		// conversion?
		if tv, ok := t.info.Types[x.Fun]; ok && tv.IsType() {
			if len(x.Args) != 1 {
				failf("bad conversion %s", t.text(x))
			}
			from := leanType(t.info.TypeOf(x.Args[0]))
			to := leanType(tv.Type)
			a := t.expr(x.Args[0])
			if from == to {
				return a
			}
			if strings.HasPrefix(from, "UInt") && strings.HasPrefix(to, "UInt") {
				return "(" + a + ".to" + to + ")"
			}
			if from == "Int64" && to == "UInt64" {
				return "(" + a + ".toUInt64)"
			}
			if from == "UInt64" && to == "Int64" {
				return "(" + a + ".toInt64)"
			}
			if strings.HasPrefix(from, "UInt") && to == "Int64" {
				return "(" + a + ".toUInt64.toInt64)"
			}
			failf("unsupported conversion %s -> %s in %s", from, to, t.text(x))
		}
		// immediately-invoked function literal
		if fl, ok := x.Fun.(*ast.FuncLit); ok {
			if len(x.Args) != 0 {
				failf("func literal call with args: %s", t.text(x))
			}
			return "(" + t.block(fl.Body.List, func() string { failf("closure falls off its end"); return "" }) + ")"
		}
		// call of a local closure
		if id, ok := x.Fun.(*ast.Ident); ok {
			if n, ok := t.locals[t.info.Uses[id]]; ok {
				parts := []string{n}
				for _, a := range x.Args {
					parts = append(parts, t.expr(a))
				}
				return "(" + strings.Join(parts, " ") + ")"
			}
		}
		// call of a translated function / method
		var fobj *types.Func
		var recv ast.Expr
		switch f := x.Fun.(type) {
		case *ast.Ident:
			fobj, _ = t.info.Uses[f].(*types.Func)
		case *ast.SelectorExpr:
			fobj, _ = t.info.Uses[f.Sel].(*types.Func)
			if sel, ok := t.info.Selections[f]; ok && sel.Kind() == types.MethodVal {
				recv = f.X
			}
		}
		if fobj != nil {
			if ln, ok := t.callees[fobj.FullName()]; ok {
				parts := []string{ln}
				if recv != nil {
					parts = append(parts, t.expr(recv))
				}
				for _, a := range x.Args {
					parts = append(parts, t.expr(a))
				}
				return "(" + strings.Join(parts, " ") + ")"
			}
			failf("call of untranslated function %s in %s", fobj.FullName(), t.text(x))
		}
		failf("unsupported call %s", t.text(x))
	case *ast.FuncLit:
		return t.lambda(x)
	}
	failf("unsupported expression %s (%T)", t.text(e), e)
	return ""
}

func (t *tr) lambda(fl *ast.FuncLit) string {
	var b strings.Builder
	b.WriteString("(fun")
	for _, f := range fl.Type.Params.List {
		lt := leanType(t.info.TypeOf(f.Type))
		for _, n := range f.Names {
			t.locals[t.info.Defs[n]] = n.Name
			fmt.Fprintf(&b, " (%s : %s)", n.Name, lt)
		}
	}
	if fl.Type.Params.NumFields() == 0 {
		b.WriteString(" (_ : Unit)")
	}
	rt := ""
	if fl.Type.Results != nil && len(fl.Type.Results.List) == 1 {
		rt = leanType(t.info.TypeOf(fl.Type.Results.List[0].Type))
	} else {
		failf("closure must have exactly one result")
	}
	b.WriteString(" => ((")
	b.WriteString(t.block(fl.Body.List, func() string { failf("closure falls off its end"); return "" }))
	b.WriteString(") : " + rt + "))")
	return b.String()
}

// block translates a statement list; k yields the translation of whatever
// follows the list in the enclosing context (continuation duplication).
func (t *tr) block(list []ast.Stmt, k func() string) string {
	if len(list) == 0 {
		return k()
	}
	s, rest := list[0], list[1:]
	next := func() string { return t.block(rest, k) }
	for _, p := range t.spec.Ignore {
		if strings.HasPrefix(t.text(s), p) {
			return next()
		}
	}
	switch x := s.(type) {
	case *ast.ReturnStmt:
		if t.spec.Effects && !t.effRes {
			if len(x.Results) == 0 {
				return "[]"
			}
			failf("effect mode: return with values in a function without result")
		}
		if t.effRes {
			if len(x.Results) != 1 {
				failf("effect mode: exactly one result supported")
			}
			return "([], " + t.expr(x.Results[0]) + ")"
		}
		if len(x.Results) == 1 {
			return t.expr(x.Results[0])
		}
		parts := []string{}
		for _, r := range x.Results {
			parts = append(parts, t.expr(r))
		}
		return "(" + strings.Join(parts, ", ") + ")"
	case *ast.BlockStmt:
		return t.block(append(append([]ast.Stmt{}, x.List...), rest...), k)
	case *ast.EmptyStmt:
		return next()
	case *ast.IfStmt:
		if x.Init != nil {
			return t.block(append([]ast.Stmt{x.Init, &ast.IfStmt{Cond: x.Cond, Body: x.Body, Else: x.Else}}, rest...), k)
		}
		c := t.expr(x.Cond)
		th := t.block(x.Body.List, next)
		var el string
		switch e := x.Else.(type) {
		case nil:
			el = next()
		case *ast.BlockStmt:
			el = t.block(e.List, next)
		case *ast.IfStmt:
			el = t.block([]ast.Stmt{e}, next)
		}
		return "(if " + c + " then " + th + " else " + el + ")"
	case *ast.DeclStmt:
		gd := x.Decl.(*ast.GenDecl)
		if gd.Tok == token.CONST {
			return next()
		}
		if gd.Tok != token.VAR {
			failf("unsupported decl %s", t.text(x))
		}
		var b strings.Builder
		for _, sp := range gd.Specs {
			vs := sp.(*ast.ValueSpec)
			for i, n := range vs.Names {
				obj := t.info.Defs[n]
				lt := leanType(obj.Type())
				var v string
				if i < len(vs.Values) {
					v = t.expr(vs.Values[i])
				} else {
					v = zero(lt)
				}
				t.locals[obj] = n.Name
				fmt.Fprintf(&b, "let %s : %s := %s\n", n.Name, lt, v)
			}
		}
		return "(" + b.String() + next() + ")"
	case *ast.AssignStmt:
		if len(x.Lhs) != 1 || len(x.Rhs) != 1 {
			failf("unsupported multi-assign %s", t.text(x))
		}
		if t.spec.Effects && t.assigns[t.text(x.Lhs[0])] {
			return t.cons(fmt.Sprintf("(Eff.set %q (%s))", t.text(x.Lhs[0]), t.toVal(x.Rhs[0])), next())
		}
		id, ok := x.Lhs[0].(*ast.Ident)
		if !ok {
			failf("assignment to non-local %s", t.text(x))
		}
		if fl, ok := x.Rhs[0].(*ast.FuncLit); ok && x.Tok == token.DEFINE {
			lam := t.lambda(fl)
			t.locals[t.info.Defs[id]] = id.Name
			return "(let " + id.Name + " := " + lam + "\n" + next() + ")"
		}
		var obj types.Object
		if x.Tok == token.DEFINE {
			obj = t.info.Defs[id]
		} else {
			obj = t.info.Uses[id]
			if _, ok := t.locals[obj]; !ok {
				failf("assignment to non-local %s", t.text(x))
			}
		}
		var v string
		switch x.Tok {
		case token.DEFINE, token.ASSIGN:
			v = t.expr(x.Rhs[0])
		default:
			opmap := map[token.Token]token.Token{token.ADD_ASSIGN: token.ADD, token.SUB_ASSIGN: token.SUB,
				token.MUL_ASSIGN: token.MUL, token.QUO_ASSIGN: token.QUO, token.REM_ASSIGN: token.REM,
				token.AND_ASSIGN: token.AND, token.OR_ASSIGN: token.OR, token.XOR_ASSIGN: token.XOR}
			op, ok := opmap[x.Tok]
			if !ok {
				failf("unsupported assign op %s", x.Tok)
			}
			be := &ast.BinaryExpr{X: x.Lhs[0], Op: op, Y: x.Rhs[0]}
			// types for the synthetic node
			t.info.Types[be] = types.TypeAndValue{Type: obj.Type()}
			v = t.expr(be)
		}
		lt := leanType(obj.Type())
		t.locals[obj] = id.Name
		return "(let " + id.Name + " : " + lt + " := " + v + "\n" + next() + ")"
	case *ast.IncDecStmt:
		id, ok := x.X.(*ast.Ident)
		if !ok {
			failf("inc/dec of non-local")
		}
		obj := t.info.Uses[id]
		lt := leanType(obj.Type())
		op := " + "
		if x.Tok == token.DEC {
			op = " - "
		}
		return "(let " + id.Name + " : " + lt + " := " + id.Name + op + "(1 : " + lt + ")\n" + next() + ")"
	case *ast.SwitchStmt:
		if x.Init != nil {
			failf("switch with init")
		}
		var tag string
		if x.Tag != nil {
			tag = t.expr(x.Tag)
		}
		var deflt *ast.CaseClause
		var clauses []*ast.CaseClause
		for _, c := range x.Body.List {
			cc := c.(*ast.CaseClause)
			for _, st := range cc.Body {
				if br, ok := st.(*ast.BranchStmt); ok && br.Tok == token.FALLTHROUGH {
					failf("fallthrough unsupported")
				}
			}
			if cc.List == nil {
				deflt = cc
			} else {
				clauses = append(clauses, cc)
			}
		}
		var build func(i int) string
		build = func(i int) string {
			if i == len(clauses) {
				if deflt != nil {
					return t.block(deflt.Body, next)
				}
				return next()
			}
			cc := clauses[i]
			conds := []string{}
			for _, v := range cc.List {
				if x.Tag != nil {
					conds = append(conds, "("+tag+" == "+t.expr(v)+")")
				} else {
					conds = append(conds, t.expr(v))
				}
			}
			return "(if " + strings.Join(conds, " || ") + " then " + t.block(cc.Body, next) + " else " + build(i+1) + ")"
		}
		return build(0)
	case *ast.ExprStmt:
		if t.spec.Effects {
			if call, ok := x.X.(*ast.CallExpr); ok {
				if es, ok := t.effects[t.text(call.Fun)]; ok {
					args := []string{}
					for _, i := range es.Args {
						args = append(args, t.toVal(call.Args[i]))
					}
					return t.cons(fmt.Sprintf("(Eff.call %q [%s])", es.Name, strings.Join(args, ", ")), next())
				}
			}
		}
		failf("unsupported statement %s", t.text(x))
	}
	failf("unsupported statement %s (%T)", t.text(s), s)
	return ""
}

// toVal renders an expression as a Val (Nat-coded) for effect arguments.
func (t *tr) toVal(e ast.Expr) string {
	var lt string
	if ty, ok := t.atomTy[t.text(e)]; ok && ty != "" {
		lt = ty
	} else {
		lt = leanType(t.info.TypeOf(e))
	}
	v := t.expr(e)
	switch lt {
	case "Bool":
		return "(Val.b " + v + ")"
	case "String":
		return "(Val.s " + v + ")"
	case "Int64":
		return "(Val.i " + v + ".toInt)"
	default:
		return "(Val.n " + v + ".toNat)"
	}
}

func zero(lt string) string {
	switch lt {
	case "Bool":
		return "false"
	case "String":
		return "\"\""
	}
	return "(0 : " + lt + ")"
}

func findFunc(pkgs []*packages.Package, spec *FuncSpec) (*packages.Package, *ast.FuncDecl) {
	for _, p := range pkgs {
		if spec.Pkg == "" && strings.Contains(strings.TrimPrefix(p.PkgPath, "github.com/pion/ice/v4"), "/") {
			continue
		}
		if spec.Pkg != "" && !strings.HasSuffix(p.PkgPath, spec.Pkg) {
			continue
		}
		for _, f := range p.Syntax {
			for _, d := range f.Decls {
				fd, ok := d.(*ast.FuncDecl)
				if !ok {
					continue
				}
				name := fd.Name.Name
				if fd.Recv != nil && len(fd.Recv.List) == 1 {
					rt := fd.Recv.List[0].Type
					if st, ok := rt.(*ast.StarExpr); ok {
						rt = st.X
					}
					if ix, ok := rt.(*ast.IndexExpr); ok {
						rt = ix.X
					}
					if id, ok := rt.(*ast.Ident); ok {
						name = id.Name + "." + name
					}
				}
				if name == spec.Go {
					return p, fd
				}
			}
		}
	}
	return nil, nil
}

type siteInfo struct {
	Lean   string `json:"lean"`
	Go     string `json:"go"`
	File   string `json:"file"`
	Line   int    `json:"line"`
	SHA256 string `json:"sha256"`
	Error  string `json:"error,omitempty"`
}

func main() {
	repo := flag.String("repo", "/repo", "repository root")
	specPath := flag.String("spec", "spec.json", "translation spec")
	out := flag.String("out", "", "output directory (lean/IceGen)")
	flag.Parse()

	raw, err := os.ReadFile(*specPath)
	if err != nil {
		fmt.Fprintln(os.Stderr, err)
		os.Exit(2)
	}
	var mods []ModuleSpec
	if err := json.Unmarshal(raw, &mods); err != nil {
		fmt.Fprintln(os.Stderr, "spec:", err)
		os.Exit(2)
	}
	cfg := &packages.Config{
		Mode: packages.NeedName | packages.NeedFiles | packages.NeedSyntax | packages.NeedTypes | packages.NeedTypesInfo | packages.NeedImports | packages.NeedDeps,
		Dir:  *repo,
		Env:  append(os.Environ(), "GOFLAGS=-mod=mod", "GOPROXY=off"),
	}
	pkgs, err := packages.Load(cfg, ".", "./internal/taskloop")
	if err != nil {
		fmt.Fprintln(os.Stderr, "load:", err)
		os.Exit(2)
	}
	nerr := 0
	for _, p := range pkgs {
		for _, e := range p.Errors {
			fmt.Fprintln(os.Stderr, "load error:", e)
			nerr++
		}
	}
	if nerr > 0 {
		os.Exit(3)
	}

	callees := map[string]string{}
	type located struct {
		p  *packages.Package
		fd *ast.FuncDecl
	}
	loc := map[*FuncSpec]located{}
	for mi := range mods {
		for fi := range mods[mi].Funcs {
			fs := &mods[mi].Funcs[fi]
			p, fd := findFunc(pkgs, fs)
			if fd == nil {
				continue
			}
			loc[fs] = located{p, fd}
			if obj, ok := p.TypesInfo.Defs[fd.Name].(*types.Func); ok && !fs.Effects {
				if _, dup := callees[obj.FullName()]; !dup {
					callees[obj.FullName()] = fs.Lean
				}
			}
		}
	}

	var sites []siteInfo
	failed := 0
	for _, m := range mods {
		var b strings.Builder
		fmt.Fprintf(&b, "-- GENERATED by /verif/harness/gotolean from the current source of /repo. Do not edit.\n")
		fmt.Fprintf(&b, "import IceModel.Eff\n")
		for _, im := range m.Imports {
			fmt.Fprintf(&b, "import %s\n", im)
		}
		fmt.Fprintf(&b, "\nnamespace IceGen\nopen IceModel\nset_option linter.unusedVariables false\n\n")
		for fi := range m.Funcs {
			fs := &m.Funcs[fi]
			l, ok := loc[fs]
			si := siteInfo{Lean: fs.Lean, Go: fs.Go}
			if !ok {
				si.Error = "function not found in source"
				sites = append(sites, si)
				fmt.Fprintf(&b, "-- TRANSLATION FAILURE %s: function %s not found\n\n", fs.Lean, fs.Go)
				failed++
				continue
			}
			pos := l.p.Fset.Position(l.fd.Pos())
			si.File, _ = filepath.Rel(*repo, pos.Filename)
			si.Line = pos.Line
			t := &tr{fset: l.p.Fset, info: l.p.TypesInfo, spec: fs, atoms: map[string]string{}, atomTy: map[string]string{},
				locals: map[types.Object]string{}, callees: callees, effects: map[string]*EffectSpec{}, assigns: map[string]bool{}}
			src := t.text(l.fd)
			si.SHA256 = fmt.Sprintf("%x", sha256.Sum256([]byte(src)))
			for _, p := range fs.Params {
				t.atoms[p.Go] = p.Lean
				t.atomTy[p.Go] = p.Type
			}
			for _, mc := range fs.Macros {
				t.atoms[mc.Go] = mc.Expr
				t.atomTy[mc.Go] = mc.Type
			}
			for i := range fs.Calls {
				t.effects[fs.Calls[i].Go] = &fs.Calls[i]
			}
			for _, a := range fs.Assigns {
				t.assigns[a] = true
			}
			t.effRes = fs.Effects && l.fd.Type.Results != nil && len(l.fd.Type.Results.List) == 1
			var body string
			func() {
				defer func() {
					if r := recover(); r != nil {
						if f, ok := r.(failure); ok {
							si.Error = f.msg
							return
						}
						panic(r)
					}
				}()
				body = t.block(l.fd.Body.List, func() string {
					if fs.Effects {
						return "[]"
					}
					failf("function falls off its end")
					return ""
				})
			}()
			sites = append(sites, si)
			if si.Error != "" {
				fmt.Fprintf(&b, "-- TRANSLATION FAILURE %s (%s:%d): %s\n\n", fs.Lean, si.File, si.Line, strings.Join(strings.Fields(si.Error), " "))
				failed++
				continue
			}
			ret := fs.Ret
			if fs.Effects && !t.effRes {
				ret = "List Eff"
			}
			if ret == "" {
				res := l.fd.Type.Results
				if res == nil || len(res.List) != 1 {
					fmt.Fprintf(&b, "-- TRANSLATION FAILURE %s: cannot derive result type\n\n", fs.Lean)
					failed++
					continue
				}
				func() {
					defer func() {
						if r := recover(); r != nil {
							si.Error = fmt.Sprint(r)
						}
					}()
					ret = leanType(l.p.TypesInfo.TypeOf(res.List[0].Type))
				}()
				if t.effRes {
					ret = "List Eff × " + ret
				}
			}
			fmt.Fprintf(&b, "/-- %s:%d  %s -/\n", si.File, si.Line, strings.SplitN(src, "\n", 2)[0])
			fmt.Fprintf(&b, "def %s", fs.Lean)
			for _, p := range fs.Params {
				fmt.Fprintf(&b, " (%s : %s)", p.Lean, p.Type)
			}
			fmt.Fprintf(&b, " : %s :=\n  %s\n\n", ret, strings.ReplaceAll(body, "\n", "\n  "))
		}
		fmt.Fprintf(&b, "end IceGen\n")
		if *out != "" {
			if err := os.WriteFile(filepath.Join(*out, m.Module+".lean"), []byte(b.String()), 0o644); err != nil {
				fmt.Fprintln(os.Stderr, err)
				os.Exit(2)
			}
		} else {
			fmt.Print(b.String())
		}
	}
	sort.Slice(sites, func(i, j int) bool { return sites[i].Lean < sites[j].Lean })
	js, _ := json.MarshalIndent(sites, "", " ")
	if *out != "" {
		_ = os.WriteFile(filepath.Join(*out, "sites.json"), js, 0o644)
	}
	if failed > 0 {
		fmt.Fprintf(os.Stderr, "gotolean: %d translation failure(s)\n", failed)
		for _, s := range sites {
			if s.Error != "" {
				fmt.Fprintf(os.Stderr, "  %s (%s): %s\n", s.Lean, s.Go, s.Error)
			}
		}
		os.Exit(4)
	}
}
