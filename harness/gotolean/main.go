// gotolean: typed translator from a small subset of Go to Lean 4 definitions.
//
// It is the "T" tie of /verif/DESIGN.md §3.1: every function named in the spec
// file is loaded from the CURRENT working tree of the repository (with full type
// information), translated to one total Lean `def`, and written to
// lean/IceGen/<Module>.lean.  IceTie/*.lean then proves each generated
// definition equal to the hand-written model for all arguments.
//
// Subset: typed unsigned/signed integer arithmetic with Go's wrap-around
// (UInt8/16/32/64, Int64), comparisons, boolean operators, if/else, tagged and
// tagless switch (no fallthrough), local var/:=/=/op=, early return, calls to
// other translated functions, closures (inlined as lambdas), conversions.
// Anything that is not a local, a constant, a translated callee or a declared
// atom (an expression whose source text is mapped to a parameter) is a
// translation FAILURE, never a guess.
//
// "Effect mode" (spec field "effects": true) translates a function without
// result, or with effects, into `List Eff`-valued term: every call statement
// that is listed under "effectCalls" is emitted as an effect with its
// (translated) arguments; see Eff in IceModel/Eff.lean.
//
// Extensions used by the gather / address / selector / mux / framing specs (none of them
// changes the output for a spec that does not use it):
//   - slices of basic types are `List T`; `len(xs) == 0` / `!= 0` / `> 0` of such a list is
//     (non-)emptiness, any other `len(xs)` is `Int64.ofNat xs.length`; slice literals;
//   - the search loop `for _, x := range xs { if c { return v } }` is
//     `if xs.any (fun x => c) then v else <rest>` (v must not depend on x);
//   - "binds": an assignment statement recognised by (a prefix of) its printed text whose
//     right side is an uninterpreted call binds the listed left-side variables to
//     parameters; a variable bound with "nil": true stands for its own nil test
//     (`v != nil`); a bind that matches no statement is a translation failure, so an
//     empty "vars" list just requires the statement to exist;
//   - an assignment to a function parameter that is a spec parameter under its own name
//     shadows it (`addr = addr.Unmap()`); parameter types are free text, so a type
//     parameter `(α : Type)` and function-valued parameters model an opaque type;
//   - `&^`, `switch init; {…}`, Int64 → UIntN conversions;
//   - effect mode: several results (a tuple); `nil` as an effect argument; an effect call
//     as the condition of an `if` (the call is emitted, its result is the parameter named
//     by "result"); an effect assignment to a field that is itself a parameter shadows the
//     parameter (later reads see the assigned value);
//   - "effectStmts": a statement recognised by "prefix" (and "contains") is one effect,
//     e.g. a `go` statement; with "body": true a `for … range` loop becomes ONE iteration
//     of its body between the effects "for:<name>" and "end:<name>" (`continue` jumps to
//     the end marker); with "exit" / "exitRet" / "sets" a loop whose exact text is pinned
//     by "contains" is cut out as one effect that may return;
//   - "closure": the translated body is that of a function literal inside a statement of the
//     function (the task handed to loop.Run, an onClose function, a Once.Do);
//   - "typeCases": `switch v := x.(type)` becomes an if-chain over Bool parameters "x has
//     this dynamic type", in source order;
//   - "loop": true (effect mode): the body of the function is one `for { … }` loop; ONE
//     iteration is translated to `List Eff × Option R` — `some r` = the iteration returns
//     r, `none` = it goes round again (`continue` / falls off the body).
//
// Atoms are matched by source text: two occurrences of one text are one parameter.  A
// value that changes between two reads must be re-bound ("binds", an effect assignment to
// a parameter) or the function does not fit.
package main

import (
	"bytes"
	"crypto/sha256"
	"encoding/json"
	"flag"
	"fmt"
	"go/ast"
	"go/constant"
	"go/printer"
	"go/token"
	"go/types"
	"os"
	"path/filepath"
	"sort"
	"strings"

	"golang.org/x/tools/go/packages"
)

type ParamSpec struct {
	Lean string `json:"lean"`
	Type string `json:"type"`
	Go   string `json:"go"` // source text of the Go expression this parameter stands for
}

type MacroSpec struct {
	Go   string `json:"go"`
	Expr string `json:"expr"` // Lean expression (may mention parameters)
	Type string `json:"type"` // Lean type of Expr (needed only when the macro is used as an effect argument)
}

type EffectSpec struct {
	Go   string   `json:"go"`   // printed text of call's Fun, e.g. "a.sendBindingError"
	Name string   `json:"name"` // label
	Args []int    `json:"args"` // indices of call arguments to translate and keep (must be translatable to Nat via toNat or Bool)
	Kind []string `json:"kind"` // optional
	// Result: Lean expression (a Bool parameter) standing for the call's result when the
	// call is the condition of an `if`
	Result string `json:"result"`
}

type BindVar struct {
	Go   string `json:"go"`   // name of the left-side variable
	Lean string `json:"lean"` // Lean expression it is bound to
	Nil  bool   `json:"nil"`  // Lean is a Bool standing for `v != nil`
}

type BindSpec struct {
	Go   string    `json:"go"` // prefix of the printed text of the assignment statement
	Vars []BindVar `json:"vars"`
}

type StmtEffSpec struct {
	Prefix string `json:"prefix"` // prefix of the printed text of the statement
	Name   string `json:"name"`   // effect label
	// Body: the statement is a `for … range` loop; ONE iteration of its body is translated
	// between the effects "for:<name>" and "end:<name>" (what the body reads of the element
	// are parameters like everything else)
	Body bool `json:"body"`
	// Contains: the statement's text must also contain this (e.g. the call a `go func() {…}()` makes)
	Contains string `json:"contains"`
	// Exit / ExitRet / Sets: the statement (a loop cut out as ONE effect, its text pinned by
	// prefix + contains) may leave the function: `if Exit then return ExitRet`; otherwise the
	// variables it assigns are the parameters named in Sets
	Exit    string    `json:"exit"`
	ExitRet string    `json:"exitRet"`
	Sets    []BindVar `json:"sets"`
}

type FuncSpec struct {
	Pkg     string       `json:"pkg"`  // package path suffix ("" = root package)
	Go      string       `json:"go"`   // "Recv.Method" or "func"
	Lean    string       `json:"lean"` // Lean def name
	Params  []ParamSpec  `json:"params"`
	Macros  []MacroSpec  `json:"macros"`
	Ret     string       `json:"ret"`     // Lean result type; "" = derive
	Effects bool         `json:"effects"` // effect mode
	Calls   []EffectSpec `json:"effectCalls"`
	// Assigns: in effect mode, assignments to these lvalue texts are emitted as effects "set:<text>"
	Assigns []string `json:"effectAssigns"`
	// Ignore: statements whose printed text starts with one of these prefixes are skipped (logging)
	Ignore []string `json:"ignore"`
	// Binds / EffectStmts / Loop: see the header comment
	Binds       []BindSpec    `json:"binds"`
	EffectStmts []StmtEffSpec `json:"effectStmts"`
	Loop        bool          `json:"loop"`
	// Closure: translate, instead of the function's body, the body of the first function
	// literal inside the first statement (at any depth) whose printed text starts with this
	// prefix (the task handed to loop.Run, the onClose function of the task loop, a Once.Do)
	Closure string `json:"closure"`
	// ClosureRes: the function literal has a result (an option function `func(a *Agent) error`): its body is
	// translated to `List Eff × R` like a function with a result; "ret" must give the full Lean type
	ClosureRes bool `json:"closureRes"`
	// TypeCases: `switch v := x.(type)`: type text of a case (e.g. "*net.UDPAddr") -> Lean
	// Bool parameter "x has this dynamic type"; cases are tried in source order
	TypeCases map[string]string `json:"typeCases"`
	// Site: translate only the body of the n-th (0-based) statement matching the prefix
	Note string `json:"note"`
}

type ModuleSpec struct {
	Module  string     `json:"module"`
	Imports []string   `json:"imports"`
	Funcs   []FuncSpec `json:"funcs"`
}

type failure struct{ msg string }

func failf(format string, a ...any) { panic(failure{fmt.Sprintf(format, a...)}) }

type tr struct {
	fset    *token.FileSet
	info    *types.Info
	spec    *FuncSpec
	atoms   map[string]string // go text -> lean expr
	atomTy  map[string]string // go text -> lean type (parameters, typed macros)
	locals  map[types.Object]string
	callees map[string]string // types.Func FullName -> lean name
	effects map[string]*EffectSpec
	assigns map[string]bool
	// effect mode for a function WITH a result: terms have type `List Eff × R`
	effRes bool
	// locals bound by "binds" with nil: true (the Lean expression is the variable's nil test)
	nilVar map[types.Object]bool
	// loop mode: results are wrapped in `some`, `continue` is `none`
	loop   bool
	inLoop bool
	// binds / effectStmts that matched a statement (one that never does is a failure:
	// the statement the spec relies on is gone)
	usedBind map[int]bool
	usedStmt map[int]bool
	// contK: what `continue` means here (loop mode: go round again; inside the one translated
	// iteration of an effectStmts "body" loop: the end marker and what follows the loop)
	contK func() string
	// paramOf: go text of a spec parameter (not a macro) -> its Lean name
	paramOf map[string]string
}

// retry renders "this iteration goes round again" (loop mode).
func (t *tr) retry() string { return "([], none)" }

func (t *tr) snapshot() (map[types.Object]string, map[types.Object]bool) {
	l := make(map[types.Object]string, len(t.locals))
	for k, v := range t.locals {
		l[k] = v
	}
	n := make(map[types.Object]bool, len(t.nilVar))
	for k, v := range t.nilVar {
		n[k] = v
	}
	return l, n
}

func (t *tr) isNil(e ast.Expr) bool {
	id, ok := e.(*ast.Ident)
	if !ok {
		return false
	}
	_, isnil := t.info.Uses[id].(*types.Nil)
	return isnil
}

// lenOfList: e is `len(xs)` (not an atom) of a list-typed xs → xs
func (t *tr) lenOfList(e ast.Expr) ast.Expr {
	if _, isAtom := t.atoms[t.text(e)]; isAtom {
		return nil
	}
	call, ok := e.(*ast.CallExpr)
	if !ok || len(call.Args) != 1 {
		return nil
	}
	id, ok := call.Fun.(*ast.Ident)
	if !ok {
		return nil
	}
	if b, ok := t.info.Uses[id].(*types.Builtin); !ok || b.Name() != "len" {
		return nil
	}
	if _, ok := t.info.TypeOf(call.Args[0]).Underlying().(*types.Slice); !ok {
		return nil
	}
	return call.Args[0]
}

// nilTest: `v != nil` of a variable bound by "binds" with nil: true ("" = e is not one)
func (t *tr) nilTest(e ast.Expr) string {
	id, ok := e.(*ast.Ident)
	if !ok {
		return ""
	}
	obj := t.info.Uses[id]
	if obj != nil && t.nilVar[obj] {
		return t.locals[obj]
	}
	return ""
}

// cons renders "emit effect e, then rest" for the current mode.
func (t *tr) cons(e, rest string) string {
	if t.effRes {
		return "(Eff.pre " + e + " " + rest + ")"
	}
	return "(" + e + " :: " + rest + ")"
}

func (t *tr) text(n ast.Node) string {
	var b bytes.Buffer
	_ = printer.Fprint(&b, t.fset, n)
	return b.String()
}

func leanType(ty types.Type) string {
	switch u := ty.Underlying().(type) {
	case *types.Basic:
		switch u.Kind() {
		case types.Bool, types.UntypedBool:
			return "Bool"
		case types.Uint8:
			return "UInt8"
		case types.Uint16:
			return "UInt16"
		case types.Uint32:
			return "UInt32"
		case types.Uint64, types.Uint, types.Uintptr:
			return "UInt64"
		case types.Int64, types.Int:
			return "Int64"
		case types.Int32:
			return "Int32"
		case types.Int16:
			return "Int16"
		case types.Int8:
			return "Int8"
		case types.String, types.UntypedString:
			return "String"
		}
	case *types.Slice:
		if _, ok := u.Elem().Underlying().(*types.Basic); ok {
			return "List " + leanType(u.Elem())
		}
	}
	failf("unsupported type %s", ty.String())
	return ""
}

func constLit(v constant.Value, ty types.Type) string {
	lt := leanType(ty)
	switch lt {
	case "Bool":
		if constant.BoolVal(v) {
			return "true"
		}
		return "false"
	case "String":
		return fmt.Sprintf("%q", constant.StringVal(v))
	default:
		s := v.ExactString()
		if strings.HasPrefix(s, "-") {
			return fmt.Sprintf("(%s : %s)", s, lt)
		}
		return fmt.Sprintf("(%s : %s)", s, lt)
	}
}

func (t *tr) expr(e ast.Expr) string {
	if a, ok := t.atoms[t.text(e)]; ok {
		return a
	}
	if tv, ok := t.info.Types[e]; ok && tv.Value != nil {
		return constLit(tv.Value, tv.Type)
	}
	switch x := e.(type) {
	case *ast.ParenExpr:
		return t.expr(x.X)
	case *ast.Ident:
		obj := t.info.Uses[x]
		if obj == nil {
			obj = t.info.Defs[x]
		}
		if n, ok := t.locals[obj]; ok {
			return n
		}
		if x.Name == "true" || x.Name == "false" {
			return x.Name
		}
		failf("free identifier %q (not a local, constant or atom)", x.Name)
	case *ast.UnaryExpr:
		switch x.Op {
		case token.NOT:
			return "(!" + t.expr(x.X) + ")"
		case token.SUB:
			return "(-" + t.expr(x.X) + ")"
		case token.XOR:
			return "(~~~" + t.expr(x.X) + ")"
		}
		failf("unsupported unary %s", x.Op)
	case *ast.BinaryExpr:
		if x.Op == token.EQL || x.Op == token.NEQ {
			v := ""
			if t.isNil(x.Y) {
				v = t.nilTest(x.X)
			} else if t.isNil(x.X) {
				v = t.nilTest(x.Y)
			}
			if v != "" {
				if x.Op == token.NEQ {
					return v
				}
				return "(!" + v + ")"
			}
		}
		// `len(xs) == 0` / `!= 0` / `> 0` of a list: emptiness (a Go length is never negative)
		if xs := t.lenOfList(x.X); xs != nil && (x.Op == token.EQL || x.Op == token.NEQ || x.Op == token.GTR) {
			if tv := t.info.Types[x.Y]; tv.Value != nil && constant.Sign(tv.Value) == 0 {
				if x.Op == token.EQL {
					return t.expr(xs) + ".isEmpty"
				}
				return "(!" + t.expr(xs) + ".isEmpty)"
			}
		}
		l := t.expr(x.X)
		r := ""
		if x.Op != token.SHL && x.Op != token.SHR {
			// (the count of a shift is a constant and may be untyped)
			r = t.expr(x.Y)
		}
		switch x.Op {
		case token.AND_NOT:
			return "(" + l + " &&& (~~~" + r + "))"
		case token.ADD:
			if leanType(t.info.TypeOf(x)) == "String" {
				return "(" + l + " ++ " + r + ")"
			}
			return "(" + l + " + " + r + ")"
		case token.SUB:
			return "(" + l + " - " + r + ")"
		case token.MUL:
			return "(" + l + " * " + r + ")"
		case token.QUO:
			return "(" + l + " / " + r + ")"
		case token.REM:
			return "(" + l + " % " + r + ")"
		case token.AND:
			return "(" + l + " &&& " + r + ")"
		case token.OR:
			return "(" + l + " ||| " + r + ")"
		case token.XOR:
			return "(" + l + " ^^^ " + r + ")"
		case token.SHL, token.SHR:
			// only constant shift counts below the width are in the subset
			tv := t.info.Types[x.Y]
			if tv.Value == nil {
				failf("non-constant shift count in %s", t.text(x))
			}
			n, _ := constant.Uint64Val(tv.Value)
			lt := leanType(t.info.TypeOf(x))
			w := map[string]uint64{"UInt8": 8, "UInt16": 16, "UInt32": 32, "UInt64": 64, "Int64": 64}[lt]
			if n >= w {
				failf("shift count %d >= width in %s", n, t.text(x))
			}
			op := " <<< "
			if x.Op == token.SHR {
				op = " >>> "
			}
			return fmt.Sprintf("(%s%s(%d : %s))", l, op, n, lt)
		case token.LAND:
			return "(" + l + " && " + r + ")"
		case token.LOR:
			return "(" + l + " || " + r + ")"
		case token.EQL:
			return "(" + l + " == " + r + ")"
		case token.NEQ:
			return "(" + l + " != " + r + ")"
		case token.LSS:
			return "(decide (" + l + " < " + r + "))"
		case token.LEQ:
			return "(decide (" + l + " ≤ " + r + "))"
		case token.GTR:
			return "(decide (" + l + " > " + r + "))"
		case token.GEQ:
			return "(decide (" + l + " ≥ " + r + "))"
		}
		failf("unsupported binary %s", x.Op)
	case *ast.CallExpr:
		// conversion?
		if tv, ok := t.info.Types[x.Fun]; ok && tv.IsType() {
			if len(x.Args) != 1 {
				failf("bad conversion %s", t.text(x))
			}
			from := leanType(t.info.TypeOf(x.Args[0]))
			to := leanType(tv.Type)
			a := t.expr(x.Args[0])
			if from == to {
				return a
			}
			if strings.HasPrefix(from, "UInt") && strings.HasPrefix(to, "UInt") {
				return "(" + a + ".to" + to + ")"
			}
			if from == "Int64" && to == "UInt64" {
				return "(" + a + ".toUInt64)"
			}
			if from == "Int64" && strings.HasPrefix(to, "UInt") {
				return "(" + a + ".toUInt64.to" + to + ")"
			}
			if from == "UInt64" && to == "Int64" {
				return "(" + a + ".toInt64)"
			}
			if strings.HasPrefix(from, "UInt") && to == "Int64" {
				return "(" + a + ".toUInt64.toInt64)"
			}
			failf("unsupported conversion %s -> %s in %s", from, to, t.text(x))
		}
		// immediately-invoked function literal
		if fl, ok := x.Fun.(*ast.FuncLit); ok {
			if len(x.Args) != 0 {
				failf("func literal call with args: %s", t.text(x))
			}
			return "(" + t.block(fl.Body.List, func() string { failf("closure falls off its end"); return "" }) + ")"
		}
		// len of a list
		if id, ok := x.Fun.(*ast.Ident); ok && len(x.Args) == 1 {
			if b, ok := t.info.Uses[id].(*types.Builtin); ok && b.Name() == "len" {
				if strings.HasPrefix(leanType(t.info.TypeOf(x.Args[0])), "List ") {
					return "(Int64.ofNat " + t.expr(x.Args[0]) + ".length)"
				}
			}
		}
		// call of a local closure
		if id, ok := x.Fun.(*ast.Ident); ok {
			if n, ok := t.locals[t.info.Uses[id]]; ok {
				parts := []string{n}
				for _, a := range x.Args {
					parts = append(parts, t.expr(a))
				}
				return "(" + strings.Join(parts, " ") + ")"
			}
		}
		// call of a translated function / method
		var fobj *types.Func
		var recv ast.Expr
		switch f := x.Fun.(type) {
		case *ast.Ident:
			fobj, _ = t.info.Uses[f].(*types.Func)
		case *ast.SelectorExpr:
			fobj, _ = t.info.Uses[f.Sel].(*types.Func)
			if sel, ok := t.info.Selections[f]; ok && sel.Kind() == types.MethodVal {
				recv = f.X
			}
		}
		if fobj != nil {
			if ln, ok := t.callees[fobj.FullName()]; ok {
				parts := []string{ln}
				if recv != nil {
					parts = append(parts, t.expr(recv))
				}
				for _, a := range x.Args {
					parts = append(parts, t.expr(a))
				}
				return "(" + strings.Join(parts, " ") + ")"
			}
			failf("call of untranslated function %s in %s", fobj.FullName(), t.text(x))
		}
		failf("unsupported call %s", t.text(x))
	case *ast.FuncLit:
		return t.lambda(x)
	case *ast.CompositeLit:
		lt := leanType(t.info.TypeOf(x))
		if strings.HasPrefix(lt, "List ") {
			parts := []string{}
			for _, el := range x.Elts {
				if _, kv := el.(*ast.KeyValueExpr); kv {
					failf("keyed slice literal %s", t.text(x))
				}
				parts = append(parts, t.expr(el))
			}
			return "([" + strings.Join(parts, ", ") + "] : " + lt + ")"
		}
	}
	failf("unsupported expression %s (%T)", t.text(e), e)
	return ""
}

func (t *tr) lambda(fl *ast.FuncLit) string {
	var b strings.Builder
	b.WriteString("(fun")
	for _, f := range fl.Type.Params.List {
		lt := leanType(t.info.TypeOf(f.Type))
		for _, n := range f.Names {
			t.locals[t.info.Defs[n]] = n.Name
			fmt.Fprintf(&b, " (%s : %s)", n.Name, lt)
		}
	}
	if fl.Type.Params.NumFields() == 0 {
		b.WriteString(" (_ : Unit)")
	}
	rt := ""
	if fl.Type.Results != nil && len(fl.Type.Results.List) == 1 {
		rt = leanType(t.info.TypeOf(fl.Type.Results.List[0].Type))
	} else {
		failf("closure must have exactly one result")
	}
	b.WriteString(" => ((")
	b.WriteString(t.block(fl.Body.List, func() string { failf("closure falls off its end"); return "" }))
	b.WriteString(") : " + rt + "))")
	return b.String()
}

// block translates a statement list; k yields the translation of whatever
// follows the list in the enclosing context (continuation duplication).
func (t *tr) block(list []ast.Stmt, k func() string) string {
	if len(list) == 0 {
		return k()
	}
	s, rest := list[0], list[1:]
	next := func() string { return t.block(rest, k) }
	for _, p := range t.spec.Ignore {
		if strings.HasPrefix(t.text(s), p) {
			return next()
		}
	}
	if t.spec.Effects {
		for i, es := range t.spec.EffectStmts {
			if strings.HasPrefix(t.text(s), es.Prefix) && strings.Contains(t.text(s), es.Contains) {
				t.usedStmt[i] = true
				if es.Body {
					rs, ok := s.(*ast.RangeStmt)
					if !ok {
						failf("effectStmts %q: body of a statement that is not a range loop", es.Prefix)
					}
					end := fmt.Sprintf("(Eff.call %q [])", "end:"+es.Name)
					saved := t.contK
					after := func() string {
						prev := t.contK
						t.contK = saved
						r := t.cons(end, next())
						t.contK = prev
						return r
					}
					t.contK = after
					body := t.block(rs.Body.List, after)
					t.contK = saved
					return t.cons(fmt.Sprintf("(Eff.call %q [])", "for:"+es.Name), body)
				}
				if es.Exit != "" || len(es.Sets) > 0 {
					sl, sn := t.snapshot()
					for _, v := range es.Sets {
						var obj types.Object
						ast.Inspect(s, func(n ast.Node) bool {
							if id, ok := n.(*ast.Ident); ok && id.Name == v.Go && obj == nil {
								if o := t.info.Uses[id]; o != nil {
									obj = o
								} else if o := t.info.Defs[id]; o != nil {
									obj = o
								}
							}
							return obj == nil
						})
						if obj == nil {
							failf("effectStmts %q: %s does not occur in the statement", es.Prefix, v.Go)
						}
						t.locals[obj] = v.Lean
						if v.Nil {
							t.nilVar[obj] = true
						}
					}
					rest := next()
					t.locals, t.nilVar = sl, sn
					if es.Exit != "" {
						if !t.effRes && !t.loop { // a function without result: the exit just ends the effect list
							rest = "(if " + es.Exit + " then [] else " + rest + ")"
						} else {
							rest = "(if " + es.Exit + " then ([], " + es.ExitRet + ") else " + rest + ")"
						}
					}
					return t.cons(fmt.Sprintf("(Eff.call %q [])", es.Name), rest)
				}
				return t.cons(fmt.Sprintf("(Eff.call %q [])", es.Name), next())
			}
		}
	}
	switch x := s.(type) {
	case *ast.ReturnStmt:
		if t.loop {
			switch len(x.Results) {
			case 0:
				return "([], some ())"
			case 1:
				return "([], some " + t.expr(x.Results[0]) + ")"
			}
			parts := []string{}
			for _, r := range x.Results {
				parts = append(parts, t.expr(r))
			}
			return "([], some (" + strings.Join(parts, ", ") + "))"
		}
		if t.spec.Effects && !t.effRes {
			if len(x.Results) == 0 {
				return "[]"
			}
			failf("effect mode: return with values in a function without result")
		}
		if t.effRes {
			if len(x.Results) == 0 {
				failf("effect mode: return without values in a function with results")
			}
			if len(x.Results) == 1 {
				return "([], " + t.expr(x.Results[0]) + ")"
			}
			parts := []string{}
			for _, r := range x.Results {
				parts = append(parts, t.expr(r))
			}
			return "([], (" + strings.Join(parts, ", ") + "))"
		}
		if len(x.Results) == 1 {
			return t.expr(x.Results[0])
		}
		parts := []string{}
		for _, r := range x.Results {
			parts = append(parts, t.expr(r))
		}
		return "(" + strings.Join(parts, ", ") + ")"
	case *ast.BlockStmt:
		return t.block(append(append([]ast.Stmt{}, x.List...), rest...), k)
	case *ast.EmptyStmt:
		return next()
	case *ast.IfStmt:
		if x.Init != nil {
			return t.block(append([]ast.Stmt{x.Init, &ast.IfStmt{Cond: x.Cond, Body: x.Body, Else: x.Else}}, rest...), k)
		}
		// an effect call as the condition: the call is an effect, its result a parameter
		var pre string
		c := ""
		if t.spec.Effects {
			if _, isAtom := t.atoms[t.text(x.Cond)]; !isAtom {
				cond, neg := x.Cond, false
				if u, ok := cond.(*ast.UnaryExpr); ok && u.Op == token.NOT {
					cond, neg = u.X, true
				}
				if call, ok := cond.(*ast.CallExpr); ok {
					if _, isAtom := t.atoms[t.text(call)]; !isAtom {
						if es, ok := t.effects[t.text(call.Fun)]; ok && es.Result != "" {
							args := []string{}
							for _, i := range es.Args {
								args = append(args, t.toVal(call.Args[i]))
							}
							pre = fmt.Sprintf("(Eff.call %q [%s])", es.Name, strings.Join(args, ", "))
							c = es.Result
							if neg {
								c = "(!" + c + ")"
							}
						}
					}
				}
			}
		}
		if pre == "" {
			c = t.expr(x.Cond)
		}
		sl, sn := t.snapshot()
		th := t.block(x.Body.List, next)
		t.locals, t.nilVar = sl, sn
		var el string
		switch e := x.Else.(type) {
		case nil:
			el = next()
		case *ast.BlockStmt:
			el = t.block(e.List, next)
		case *ast.IfStmt:
			el = t.block([]ast.Stmt{e}, next)
		}
		if pre != "" {
			return t.cons(pre, "(if "+c+" then "+th+" else "+el+")")
		}
		return "(if " + c + " then " + th + " else " + el + ")"
	case *ast.DeclStmt:
		gd := x.Decl.(*ast.GenDecl)
		if gd.Tok == token.CONST {
			return next()
		}
		if gd.Tok != token.VAR {
			failf("unsupported decl %s", t.text(x))
		}
		var b strings.Builder
		for _, sp := range gd.Specs {
			vs := sp.(*ast.ValueSpec)
			for i, n := range vs.Names {
				obj := t.info.Defs[n]
				lt := leanType(obj.Type())
				var v string
				if i < len(vs.Values) {
					v = t.expr(vs.Values[i])
				} else {
					v = zero(lt)
				}
				t.locals[obj] = n.Name
				fmt.Fprintf(&b, "let %s : %s := %s\n", n.Name, lt, v)
			}
		}
		return "(" + b.String() + next() + ")"
	case *ast.AssignStmt:
		for i, b := range t.spec.Binds {
			if !strings.HasPrefix(t.text(x), b.Go) {
				continue
			}
			t.usedBind[i] = true
			for _, v := range b.Vars {
				found := false
				for _, lhs := range x.Lhs {
					id, ok := lhs.(*ast.Ident)
					if !ok || id.Name != v.Go {
						continue
					}
					obj := t.info.Defs[id]
					if obj == nil {
						obj = t.info.Uses[id]
					}
					t.locals[obj] = v.Lean
					if v.Nil {
						t.nilVar[obj] = true
					} else {
						delete(t.nilVar, obj)
					}
					found = true
				}
				if !found {
					failf("bind: %s is not assigned by %s", v.Go, t.text(x))
				}
			}
			return next()
		}
		if len(x.Lhs) != 1 || len(x.Rhs) != 1 {
			failf("unsupported multi-assign %s", t.text(x))
		}
		if t.spec.Effects && t.assigns[t.text(x.Lhs[0])] {
			lhs := t.text(x.Lhs[0])
			eff := fmt.Sprintf("(Eff.set %q (%s))", lhs, t.toVal(x.Rhs[0]))
			// the assigned field is itself a parameter: later reads see the assigned value
			if pn, isParam := t.paramOf[lhs]; isParam {
				v := t.expr(x.Rhs[0])
				return t.cons(eff, "(let "+pn+" : "+t.atomTy[lhs]+" := "+v+"\n"+next()+")")
			}
			return t.cons(eff, next())
		}
		id, ok := x.Lhs[0].(*ast.Ident)
		if !ok {
			failf("assignment to non-local %s", t.text(x))
		}
		if fl, ok := x.Rhs[0].(*ast.FuncLit); ok && x.Tok == token.DEFINE {
			lam := t.lambda(fl)
			t.locals[t.info.Defs[id]] = id.Name
			return "(let " + id.Name + " := " + lam + "\n" + next() + ")"
		}
		var obj types.Object
		paramTy := ""
		if x.Tok == token.DEFINE {
			obj = t.info.Defs[id]
		} else {
			obj = t.info.Uses[id]
			if _, ok := t.locals[obj]; !ok {
				// a function parameter that is a spec parameter under its own name is shadowed like a local
				if a, isAtom := t.atoms[id.Name]; !isAtom || a != id.Name || x.Tok != token.ASSIGN {
					failf("assignment to non-local %s", t.text(x))
				}
				paramTy = t.atomTy[id.Name]
			}
		}
		var v string
		switch x.Tok {
		case token.DEFINE, token.ASSIGN:
			v = t.expr(x.Rhs[0])
		default:
			opmap := map[token.Token]token.Token{token.ADD_ASSIGN: token.ADD, token.SUB_ASSIGN: token.SUB,
				token.MUL_ASSIGN: token.MUL, token.QUO_ASSIGN: token.QUO, token.REM_ASSIGN: token.REM,
				token.AND_ASSIGN: token.AND, token.OR_ASSIGN: token.OR, token.XOR_ASSIGN: token.XOR}
			op, ok := opmap[x.Tok]
			if !ok {
				failf("unsupported assign op %s", x.Tok)
			}
			be := &ast.BinaryExpr{X: x.Lhs[0], Op: op, Y: x.Rhs[0]}
			// types for the synthetic node
			t.info.Types[be] = types.TypeAndValue{Type: obj.Type()}
			v = t.expr(be)
		}
		lt := paramTy
		if lt == "" {
			lt = leanType(obj.Type())
		}
		t.locals[obj] = id.Name
		return "(let " + id.Name + " : " + lt + " := " + v + "\n" + next() + ")"
	case *ast.IncDecStmt:
		id, ok := x.X.(*ast.Ident)
		if !ok {
			failf("inc/dec of non-local")
		}
		obj := t.info.Uses[id]
		lt := leanType(obj.Type())
		op := " + "
		if x.Tok == token.DEC {
			op = " - "
		}
		return "(let " + id.Name + " : " + lt + " := " + id.Name + op + "(1 : " + lt + ")\n" + next() + ")"
	case *ast.SwitchStmt:
		if x.Init != nil {
			return t.block(append([]ast.Stmt{x.Init, &ast.SwitchStmt{Tag: x.Tag, Body: x.Body}}, rest...), k)
		}
		var tag string
		if x.Tag != nil {
			tag = t.expr(x.Tag)
		}
		var deflt *ast.CaseClause
		var clauses []*ast.CaseClause
		for _, c := range x.Body.List {
			cc := c.(*ast.CaseClause)
			for _, st := range cc.Body {
				if br, ok := st.(*ast.BranchStmt); ok && br.Tok == token.FALLTHROUGH {
					failf("fallthrough unsupported")
				}
			}
			if cc.List == nil {
				deflt = cc
			} else {
				clauses = append(clauses, cc)
			}
		}
		var build func(i int) string
		build = func(i int) string {
			if i == len(clauses) {
				if deflt != nil {
					return t.block(deflt.Body, next)
				}
				return next()
			}
			cc := clauses[i]
			conds := []string{}
			for _, v := range cc.List {
				if x.Tag != nil {
					conds = append(conds, "("+tag+" == "+t.expr(v)+")")
				} else {
					conds = append(conds, t.expr(v))
				}
			}
			sl, sn := t.snapshot()
			body := t.block(cc.Body, next)
			t.locals, t.nilVar = sl, sn
			return "(if " + strings.Join(conds, " || ") + " then " + body + " else " + build(i+1) + ")"
		}
		return build(0)
	case *ast.TypeSwitchStmt:
		if x.Init != nil {
			failf("type switch with init")
		}
		var deflt *ast.CaseClause
		var clauses []*ast.CaseClause
		for _, cl := range x.Body.List {
			cc := cl.(*ast.CaseClause)
			if cc.List == nil {
				deflt = cc
			} else {
				clauses = append(clauses, cc)
			}
		}
		var build func(i int) string
		build = func(i int) string {
			if i == len(clauses) {
				if deflt != nil {
					return t.block(deflt.Body, next)
				}
				return next()
			}
			cc := clauses[i]
			conds := []string{}
			for _, ty := range cc.List {
				p, ok := t.spec.TypeCases[t.text(ty)]
				if !ok {
					failf("type switch: no typeCases entry for %s", t.text(ty))
				}
				conds = append(conds, p)
			}
			sl, sn := t.snapshot()
			body := t.block(cc.Body, next)
			t.locals, t.nilVar = sl, sn
			return "(if " + strings.Join(conds, " || ") + " then " + body + " else " + build(i+1) + ")"
		}
		return build(0)
	case *ast.RangeStmt:
		// the search loop `for _, v := range xs { if c { return r } }`
		vid, _ := x.Value.(*ast.Ident)
		kid, _ := x.Key.(*ast.Ident)
		if x.Tok != token.DEFINE || vid == nil || kid == nil || kid.Name != "_" || len(x.Body.List) != 1 {
			failf("unsupported range loop %s", t.text(x))
		}
		ifs, ok := x.Body.List[0].(*ast.IfStmt)
		if !ok || ifs.Init != nil || ifs.Else != nil || len(ifs.Body.List) == 0 {
			failf("unsupported range loop %s", t.text(x))
		}
		if _, ok := ifs.Body.List[len(ifs.Body.List)-1].(*ast.ReturnStmt); !ok {
			failf("unsupported range loop %s", t.text(x))
		}
		xs := t.expr(x.X)
		sl, sn := t.snapshot()
		t.locals[t.info.Defs[vid]] = vid.Name
		c := t.expr(ifs.Cond)
		t.locals, t.nilVar = sl, sn
		// the returned value is translated outside the scope of v: it must not depend on it
		th := t.block(ifs.Body.List, func() string { failf("search loop: body does not return"); return "" })
		t.locals, t.nilVar = sl, sn
		return "(if (" + xs + ".any (fun " + vid.Name + " => " + c + ")) then " + th + " else " + next() + ")"
	case *ast.ForStmt:
		if !t.loop || x.Init != nil || x.Cond != nil || x.Post != nil || len(rest) != 0 || t.inLoop {
			failf("unsupported loop %s", strings.SplitN(t.text(x), "\n", 2)[0])
		}
		t.inLoop = true
		t.contK = t.retry
		return t.block(x.Body.List, t.retry)
	case *ast.BranchStmt:
		if t.contK != nil && x.Tok == token.CONTINUE && x.Label == nil {
			k := t.contK
			r := k()
			t.contK = k
			return r
		}
		failf("unsupported statement %s", t.text(x))
	case *ast.ExprStmt:
		if t.spec.Effects {
			if call, ok := x.X.(*ast.CallExpr); ok {
				if es, ok := t.effects[t.text(call.Fun)]; ok {
					args := []string{}
					for _, i := range es.Args {
						args = append(args, t.toVal(call.Args[i]))
					}
					return t.cons(fmt.Sprintf("(Eff.call %q [%s])", es.Name, strings.Join(args, ", ")), next())
				}
			}
		}
		failf("unsupported statement %s", t.text(x))
	}
	failf("unsupported statement %s (%T)", t.text(s), s)
	return ""
}

// toVal renders an expression as a Val (Nat-coded) for effect arguments.
func (t *tr) toVal(e ast.Expr) string {
	if _, isAtom := t.atoms[t.text(e)]; !isAtom && t.isNil(e) {
		return "(Val.s \"nil\")"
	}
	var lt string
	if ty, ok := t.atomTy[t.text(e)]; ok && ty != "" {
		lt = ty
	} else {
		lt = leanType(t.info.TypeOf(e))
	}
	v := t.expr(e)
	switch lt {
	case "Bool":
		return "(Val.b " + v + ")"
	case "String":
		return "(Val.s " + v + ")"
	case "Int64":
		return "(Val.i " + v + ".toInt)"
	default:
		return "(Val.n " + v + ".toNat)"
	}
}

func zero(lt string) string {
	switch lt {
	case "Bool":
		return "false"
	case "String":
		return "\"\""
	}
	return "(0 : " + lt + ")"
}

func findFunc(pkgs []*packages.Package, spec *FuncSpec) (*packages.Package, *ast.FuncDecl) {
	for _, p := range pkgs {
		if spec.Pkg == "" && strings.Contains(strings.TrimPrefix(p.PkgPath, "github.com/pion/ice/v4"), "/") {
			continue
		}
		if spec.Pkg != "" && !strings.HasSuffix(p.PkgPath, spec.Pkg) {
			continue
		}
		for _, f := range p.Syntax {
			for _, d := range f.Decls {
				fd, ok := d.(*ast.FuncDecl)
				if !ok {
					continue
				}
				name := fd.Name.Name
				if fd.Recv != nil && len(fd.Recv.List) == 1 {
					rt := fd.Recv.List[0].Type
					if st, ok := rt.(*ast.StarExpr); ok {
						rt = st.X
					}
					if ix, ok := rt.(*ast.IndexExpr); ok {
						rt = ix.X
					}
					if id, ok := rt.(*ast.Ident); ok {
						name = id.Name + "." + name
					}
				}
				if name == spec.Go {
					return p, fd
				}
			}
		}
	}
	return nil, nil
}

// findClosure returns the body of the first function literal inside the first statement of fd
// (at any depth) whose printed text starts with prefix.
func findClosure(t *tr, fd *ast.FuncDecl, prefix string) *ast.BlockStmt {
	var body *ast.BlockStmt
	ast.Inspect(fd.Body, func(n ast.Node) bool {
		if body != nil {
			return false
		}
		st, ok := n.(ast.Stmt)
		if !ok || !strings.HasPrefix(t.text(st), prefix) {
			return true
		}
		ast.Inspect(st, func(m ast.Node) bool {
			if fl, ok := m.(*ast.FuncLit); ok && body == nil {
				body = fl.Body
			}
			return body == nil
		})
		return false
	})
	return body
}

type siteInfo struct {
	Lean   string `json:"lean"`
	Go     string `json:"go"`
	File   string `json:"file"`
	Line   int    `json:"line"`
	SHA256 string `json:"sha256"`
	Error  string `json:"error,omitempty"`
}

func main() {
	repo := flag.String("repo", "/repo", "repository root")
	specPath := flag.String("spec", "spec.json", "translation spec")
	out := flag.String("out", "", "output directory (lean/IceGen)")
	flag.Parse()

	raw, err := os.ReadFile(*specPath)
	if err != nil {
		fmt.Fprintln(os.Stderr, err)
		os.Exit(2)
	}
	var mods []ModuleSpec
	if err := json.Unmarshal(raw, &mods); err != nil {
		fmt.Fprintln(os.Stderr, "spec:", err)
		os.Exit(2)
	}
	cfg := &packages.Config{
		Mode: packages.NeedName | packages.NeedFiles | packages.NeedSyntax | packages.NeedTypes | packages.NeedTypesInfo | packages.NeedImports | packages.NeedDeps,
		Dir:  *repo,
		Env:  append(os.Environ(), "GOFLAGS=-mod=mod", "GOPROXY=off"),
	}
	pkgs, err := packages.Load(cfg, ".", "./internal/taskloop")
	if err != nil {
		fmt.Fprintln(os.Stderr, "load:", err)
		os.Exit(2)
	}
	nerr := 0
	for _, p := range pkgs {
		for _, e := range p.Errors {
			fmt.Fprintln(os.Stderr, "load error:", e)
			nerr++
		}
	}
	if nerr > 0 {
		os.Exit(3)
	}

	callees := map[string]string{}
	type located struct {
		p  *packages.Package
		fd *ast.FuncDecl
	}
	loc := map[*FuncSpec]located{}
	for mi := range mods {
		for fi := range mods[mi].Funcs {
			fs := &mods[mi].Funcs[fi]
			p, fd := findFunc(pkgs, fs)
			if fd == nil {
				continue
			}
			loc[fs] = located{p, fd}
			if obj, ok := p.TypesInfo.Defs[fd.Name].(*types.Func); ok && !fs.Effects {
				if _, dup := callees[obj.FullName()]; !dup {
					callees[obj.FullName()] = fs.Lean
				}
			}
		}
	}

	var sites []siteInfo
	failed := 0
	for _, m := range mods {
		var b strings.Builder
		fmt.Fprintf(&b, "-- GENERATED by /verif/harness/gotolean from the current source of /repo. Do not edit.\n")
		fmt.Fprintf(&b, "import IceModel.Eff\n")
		for _, im := range m.Imports {
			fmt.Fprintf(&b, "import %s\n", im)
		}
		fmt.Fprintf(&b, "\nnamespace IceGen\nopen IceModel\nset_option linter.unusedVariables false\n\n")
		for fi := range m.Funcs {
			fs := &m.Funcs[fi]
			l, ok := loc[fs]
			si := siteInfo{Lean: fs.Lean, Go: fs.Go}
			if !ok {
				si.Error = "function not found in source"
				sites = append(sites, si)
				fmt.Fprintf(&b, "-- TRANSLATION FAILURE %s: function %s not found\n\n", fs.Lean, fs.Go)
				failed++
				continue
			}
			pos := l.p.Fset.Position(l.fd.Pos())
			si.File, _ = filepath.Rel(*repo, pos.Filename)
			si.Line = pos.Line
			t := &tr{fset: l.p.Fset, info: l.p.TypesInfo, spec: fs, atoms: map[string]string{}, atomTy: map[string]string{},
				locals: map[types.Object]string{}, callees: callees, effects: map[string]*EffectSpec{}, assigns: map[string]bool{},
				nilVar: map[types.Object]bool{}, loop: fs.Effects && fs.Loop, usedBind: map[int]bool{}, usedStmt: map[int]bool{}}
			src := t.text(l.fd)
			si.SHA256 = fmt.Sprintf("%x", sha256.Sum256([]byte(src)))
			t.paramOf = map[string]string{}
			for _, p := range fs.Params {
				t.atoms[p.Go] = p.Lean
				t.atomTy[p.Go] = p.Type
				t.paramOf[p.Go] = p.Lean
			}
			for _, mc := range fs.Macros {
				t.atoms[mc.Go] = mc.Expr
				t.atomTy[mc.Go] = mc.Type
			}
			for i := range fs.Calls {
				t.effects[fs.Calls[i].Go] = &fs.Calls[i]
			}
			for _, a := range fs.Assigns {
				t.assigns[a] = true
			}
			t.effRes = fs.Effects && (fs.Loop || (fs.Closure != "" && fs.ClosureRes) ||
				(fs.Closure == "" && l.fd.Type.Results != nil && len(l.fd.Type.Results.List) >= 1))
			var body string
			func() {
				defer func() {
					if r := recover(); r != nil {
						if f, ok := r.(failure); ok {
							si.Error = f.msg
							return
						}
						panic(r)
					}
				}()
				stmts := l.fd.Body.List
				if fs.Closure != "" {
					cb := findClosure(t, l.fd, fs.Closure)
					if cb == nil {
						failf("closure: no function literal in a statement starting with %q", fs.Closure)
					}
					stmts = cb.List
				}
				body = t.block(stmts, func() string {
					if t.loop {
						failf("loop mode: the body is not one `for { … }` loop")
					}
					if fs.Effects {
						return "[]"
					}
					failf("function falls off its end")
					return ""
				})
				for i, bd := range fs.Binds {
					if !t.usedBind[i] {
						failf("bind: no statement %q", bd.Go)
					}
				}
				for i, es := range fs.EffectStmts {
					if !t.usedStmt[i] {
						failf("effectStmts: no statement %q", es.Prefix)
					}
				}
			}()
			sites = append(sites, si)
			if si.Error != "" {
				fmt.Fprintf(&b, "-- TRANSLATION FAILURE %s (%s:%d): %s\n\n", fs.Lean, si.File, si.Line, strings.Join(strings.Fields(si.Error), " "))
				failed++
				continue
			}
			ret := fs.Ret
			if fs.Effects && !t.effRes {
				ret = "List Eff"
			}
			if ret == "" {
				res := l.fd.Type.Results
				if t.loop && (res == nil || len(res.List) == 0) {
					ret = "Unit"
				} else if res == nil || len(res.List) != 1 {
					fmt.Fprintf(&b, "-- TRANSLATION FAILURE %s: cannot derive result type\n\n", fs.Lean)
					failed++
					continue
				} else {
					func() {
						defer func() {
							if r := recover(); r != nil {
								si.Error = fmt.Sprint(r)
							}
						}()
						ret = leanType(l.p.TypesInfo.TypeOf(res.List[0].Type))
					}()
				}
				if t.loop {
					ret = "List Eff × Option " + ret
				} else if t.effRes {
					ret = "List Eff × " + ret
				}
			}
			fmt.Fprintf(&b, "/-- %s:%d  %s -/\n", si.File, si.Line, strings.SplitN(src, "\n", 2)[0])
			fmt.Fprintf(&b, "def %s", fs.Lean)
			for _, p := range fs.Params {
				fmt.Fprintf(&b, " (%s : %s)", p.Lean, p.Type)
			}
			fmt.Fprintf(&b, " : %s :=\n  %s\n\n", ret, strings.ReplaceAll(body, "\n", "\n  "))
		}
		fmt.Fprintf(&b, "end IceGen\n")
		if *out != "" {
			if err := os.WriteFile(filepath.Join(*out, m.Module+".lean"), []byte(b.String()), 0o644); err != nil {
				fmt.Fprintln(os.Stderr, err)
				os.Exit(2)
			}
		} else {
			fmt.Print(b.String())
		}
	}
	sort.Slice(sites, func(i, j int) bool { return sites[i].Lean < sites[j].Lean })
	js, _ := json.MarshalIndent(sites, "", " ")
	if *out != "" {
		_ = os.WriteFile(filepath.Join(*out, "sites.json"), js, 0o644)
	}
	if failed > 0 {
		fmt.Fprintf(os.Stderr, "gotolean: %d translation failure(s)\n", failed)
		for _, s := range sites {
			if s.Error != "" {
				fmt.Fprintf(os.Stderr, "  %s (%s): %s\n", s.Lean, s.Go, s.Error)
			}
		}
		os.Exit(4)
	}
}
