//go:build verif

// Harness component "writeabort" (property C13, tie A of DESIGN.md §3.4).
//
// The real UDPMuxDefault runs over a scripted shared socket (vWaSock): WriteTo blocks until the
// socket's write deadline is set to "now" or the script releases it (successfully or with an error),
// or fails at once with an error that is not the deadline's; SetWriteDeadline(now) fails at scripted
// calls.  The socket comes in two kinds: a plain net.PacketConn (the mux then only has the net.Addr
// write path writeTo/writeToContext) and an AddrPort-capable one (vWaSockAP implements
// AddrPortReaderWriter, which is what addr.go asAddrPortReaderWriter accepts besides the concrete
// *net.UDPConn; GetConn then hands out *sharedAddrPortConn handles and WriteToAddrPort goes
// handle -> udpMuxedConn.WriteToAddrPort -> UDPMuxDefault.writeToUDPAddrPort -> socket.WriteToAddrPort).
// Both socket methods run the SAME script, and one run mixes writes of both paths.
// Several writer goroutines (background or cancellable contexts, directly or through
// handles of two different ufrags) and aborters run concurrently.  Only EXTERNAL events are recorded
// (call/return of write and abort, every WriteTo/SetWriteDeadline seen by the socket with its argument
// class, context cancellations, and at quiescence the in-package writeState word and the socket's
// deadline); one history = one op line `writeabort hist <events>` whose implementation output is
// `recorded`.  The Lean driver checks the strict quiescent monitor on it and membership of the history
// in the observable language of IceModel.WriteAbort.
package ice

import (
	"context"
	"errors"
	"fmt"
	"math/bits"
	"net"
	"net/netip"
	"os"
	"runtime"
	"strings"
	"sync"
	"time"
)

// ---------------------------------------------------------------------------------------------
// recorder + scripted socket (one mutex: a socket operation and its event are one atomic step)
// ---------------------------------------------------------------------------------------------

type vWaRec struct {
	mu sync.Mutex
	ev []string
}

func (r *vWaRec) add(s string) {
	r.mu.Lock()
	r.ev = append(r.ev, s)
	r.mu.Unlock()
}

var errVWaInjected = errors.New("injected SetWriteDeadline failure")

// errVWaWrite: a socket write error that has nothing to do with the deadline (ENETUNREACH, an IPv6
// destination on an IPv4 socket, ...).
var errVWaWrite = errors.New("injected socket write failure")

type vWaSock struct {
	rec       *vWaRec
	armed     bool               // write deadline register: a time in the past
	pending   map[int]chan error // blocked WriteTo calls by writer id
	nowCalls  int
	zeroCalls int
	failNow   map[int]bool             // indices of SetWriteDeadline(now) calls that fail
	onNow     func(k int, failed bool) // script hooks, called outside the lock on the caller's goroutine
	onZero    func(k int)
	onZeroPre func(k int) // called when SetWriteDeadline(zero) has been ENTERED, before it takes effect
	onWrite   map[int]func()
	closedCh  chan struct{}
	closeOnce sync.Once
	rnd       *vRand // seeded delays / environment choices inside socket calls (randomised runs only); used under rec.mu
}

// drawLocked draws a delay for the current socket call (rec.mu held); zero without a generator.
func (s *vWaSock) drawLocked() vWaDelay {
	if s.rnd == nil {
		return vWaDelay{}
	}
	return vWaDrawDelay(s.rnd)
}

func newVWaSock(rec *vWaRec, fail map[int]bool) *vWaSock {
	return &vWaSock{rec: rec, pending: map[int]chan error{}, failNow: fail, onWrite: map[int]func(){}, closedCh: make(chan struct{})}
}

func (s *vWaSock) ReadFrom(b []byte) (int, net.Addr, error) {
	<-s.closedCh
	return 0, nil, net.ErrClosed
}
func (s *vWaSock) Close() error {
	s.closeOnce.Do(func() { close(s.closedCh) })
	return nil
}
func (s *vWaSock) LocalAddr() net.Addr               { return &net.UDPAddr{IP: net.IPv4(10, 0, 0, 1), Port: 5000} }
func (s *vWaSock) SetDeadline(t time.Time) error     { return nil }
func (s *vWaSock) SetReadDeadline(t time.Time) error { return nil }

// payload: b[0] = writer id, b[1] = mode (0 immediate, 1 blocks until released or deadline, 2 scripted,
// 3 fails at once with an error that is not the deadline's)
func (s *vWaSock) WriteTo(b []byte, _ net.Addr) (int, error) { return s.write(b, "sc") }

// vWaSockAP is the AddrPort-capable kind of the scripted socket: same script, entered through
// WriteToAddrPort (event `sa:<id>`).
type vWaSockAP struct{ *vWaSock }

func (s vWaSockAP) WriteToAddrPort(b []byte, _ netip.AddrPort) (int, error) { return s.write(b, "sa") }
func (s vWaSockAP) ReadFromAddrPort(b []byte) (int, netip.AddrPort, error) {
	<-s.closedCh
	return 0, netip.AddrPort{}, net.ErrClosed
}

func (s *vWaSock) write(b []byte, entry string) (int, error) {
	id, mode := int(b[0]), b[1]
	r := s.rec
	r.mu.Lock()
	r.ev = append(r.ev, fmt.Sprintf("%s:%d", entry, id))
	if s.armed {
		r.ev = append(r.ev, fmt.Sprintf("sr:%d:to", id))
		r.mu.Unlock()
		return 0, os.ErrDeadlineExceeded
	}
	switch mode {
	case 1:
		ch := make(chan error, 1)
		s.pending[id] = ch
		r.mu.Unlock()
		if err := <-ch; err != nil {
			return 0, err
		}
		return len(b), nil
	case 2:
		fn := s.onWrite[id]
		r.mu.Unlock()
		if fn != nil {
			fn()
		}
		r.mu.Lock()
		if s.armed {
			r.ev = append(r.ev, fmt.Sprintf("sr:%d:to", id))
			r.mu.Unlock()
			return 0, os.ErrDeadlineExceeded
		}
		r.ev = append(r.ev, fmt.Sprintf("sr:%d:ok", id))
		r.mu.Unlock()
		return len(b), nil
	case 3:
		r.ev = append(r.ev, fmt.Sprintf("sr:%d:err", id))
		r.mu.Unlock()
		return 0, errVWaWrite
	default:
		r.ev = append(r.ev, fmt.Sprintf("sr:%d:ok", id))
		r.mu.Unlock()
		return len(b), nil
	}
}

func (s *vWaSock) SetWriteDeadline(t time.Time) error {
	r := s.rec
	r.mu.Lock()
	if t.IsZero() {
		// the call is entered, but takes effect only after a (scripted / seeded) while: whatever the caller
		// did BEFORE calling is visible to the other users first
		pre, fnPre, kPre := s.drawLocked(), s.onZeroPre, s.zeroCalls
		r.mu.Unlock()
		if fnPre != nil {
			fnPre(kPre)
		}
		pre.wait()
		r.mu.Lock()
		k := s.zeroCalls
		s.zeroCalls++
		s.armed = false
		r.ev = append(r.ev, "sd:zero:ok")
		fn := s.onZero
		d := s.drawLocked()
		r.mu.Unlock()
		if fn != nil {
			fn(k)
		}
		d.wait() // slow call: the register is already zero, the caller has not yet stored 0
		return nil
	}
	k := s.nowCalls
	s.nowCalls++
	fn := s.onNow
	if s.failNow[k] {
		r.ev = append(r.ev, "sd:now:fail")
		d := s.drawLocked()
		relID := -1
		if s.rnd != nil && s.rnd.chance(1, 2) {
			for id := range s.pending { // a blocked write completes while the failing call is in progress
				if relID < 0 || id < relID {
					relID = id
				}
			}
		}
		r.mu.Unlock()
		if fn != nil {
			fn(k, true)
		}
		if relID >= 0 {
			s.release(relID, false)
		}
		d.wait()
		return errVWaInjected
	}
	s.armed = true
	r.ev = append(r.ev, "sd:now:ok")
	for _, ch := range s.pending { // every blocked write times out now (one atomic step)
		ch <- os.ErrDeadlineExceeded
	}
	ids := make([]int, 0, len(s.pending))
	for id := range s.pending {
		ids = append(ids, id)
	}
	for i := 0; i < len(ids); i++ { // canonical order of the sr events
		for j := i + 1; j < len(ids); j++ {
			if ids[j] < ids[i] {
				ids[i], ids[j] = ids[j], ids[i]
			}
		}
	}
	for _, id := range ids {
		r.ev = append(r.ev, fmt.Sprintf("sr:%d:to", id))
		delete(s.pending, id)
	}
	d := s.drawLocked()
	r.mu.Unlock()
	if fn != nil {
		fn(k, false)
	}
	d.wait()
	return nil
}

// release lets a blocked socket write complete: successfully, or (fail) with an error that is not the
// deadline's.
func (s *vWaSock) release(id int, fail bool) bool {
	r := s.rec
	r.mu.Lock()
	defer r.mu.Unlock()
	ch, ok := s.pending[id]
	if !ok {
		return false
	}
	if fail {
		r.ev = append(r.ev, fmt.Sprintf("sr:%d:err", id))
		ch <- errVWaWrite
	} else {
		r.ev = append(r.ev, fmt.Sprintf("sr:%d:ok", id))
		ch <- nil
	}
	delete(s.pending, id)
	return true
}

func (s *vWaSock) releaseAll() {
	r := s.rec
	r.mu.Lock()
	ids := make([]int, 0, len(s.pending))
	for id := range s.pending {
		ids = append(ids, id)
	}
	r.mu.Unlock()
	for _, id := range ids {
		s.release(id, false)
	}
}

func (s *vWaSock) isPending(id int) bool {
	s.rec.mu.Lock()
	defer s.rec.mu.Unlock()
	_, ok := s.pending[id]
	return ok
}

// ---------------------------------------------------------------------------------------------
// one run of the real mux
// ---------------------------------------------------------------------------------------------

type vWaRun struct {
	rec     *vWaRec
	sock    *vWaSock
	mux     *UDPMuxDefault
	dst     *net.UDPAddr
	handles []net.PacketConn // handles of two different users (ufrags) of the shared mux
	wg      sync.WaitGroup
	base    int
	ap      bool // the shared socket is AddrPort-capable (mux.addrPortConn != nil)
	dstAP   netip.AddrPort
}

// write paths
const (
	vWaPathAddr = 0 // net.Addr: handle.WriteTo -> udpMuxedConn.WriteTo -> writeTo -> writeToContext (or writeToContext directly)
	vWaPathAP   = 1 // netip.AddrPort: handle.WriteToAddrPort -> udpMuxedConn.WriteToAddrPort -> writeToUDPAddrPort (or that directly)
)

// vWaFloor: goroutines alive before the first run; every run starts only after the goroutines of the
// previous run (connWorker, close watchers) are gone, so that the per-run baseline is exact.
var vWaFloor = -1

func newVWaRun(fail map[int]bool) *vWaRun { return newVWaRunKind(fail, false) }

// newVWaRunKind: ap = the scripted socket also implements AddrPortReaderWriter.
func newVWaRunKind(fail map[int]bool, ap bool) *vWaRun {
	if vWaFloor < 0 {
		vWaFloor = runtime.NumGoroutine()
	}
	for t0 := time.Now(); runtime.NumGoroutine() > vWaFloor && time.Since(t0) < 200*time.Millisecond; {
		runtime.Gosched()
		time.Sleep(10 * time.Microsecond)
	}
	rec := &vWaRec{}
	sock := newVWaSock(rec, fail)
	var conn net.PacketConn = sock
	if ap {
		conn = vWaSockAP{sock}
	}
	mux := NewUDPMuxDefault(UDPMuxParams{UDPConn: conn})
	if (mux.addrPortConn != nil) != ap {
		panic("verif writeabort: unexpected AddrPort capability of the mux")
	}
	r := &vWaRun{rec: rec, sock: sock, mux: mux, dst: &net.UDPAddr{IP: net.IPv4(10, 0, 0, 2), Port: 6000}, ap: ap}
	r.dstAP = r.dst.AddrPort()
	for _, u := range []string{"userA", "userB"} {
		h, err := mux.GetConn(u, sock.LocalAddr())
		if err != nil {
			panic("verif writeabort: GetConn: " + err.Error())
		}
		r.handles = append(r.handles, h)
	}
	for i := 0; i < 50; i++ { // let connWorker and the close watchers park
		runtime.Gosched()
	}
	r.base = runtime.NumGoroutine()
	return r
}

func vWaClass(err error) string {
	switch {
	case err == nil:
		return "ok"
	case errors.Is(err, os.ErrDeadlineExceeded):
		return "timeout"
	case errors.Is(err, context.Canceled), errors.Is(err, context.DeadlineExceeded):
		return "canceled"
	default:
		return "other"
	}
}

// apWriter: the AddrPort entry point of user `via`: the handle itself when the mux hands out
// *sharedAddrPortConn (AddrPort-capable socket), else the *udpMuxedConn below the plain handle (its
// WriteToAddrPort then takes the defensive fallback of writeToUDPAddrPort into writeTo).
func (r *vWaRun) apWriter(via int) AddrPortReaderWriter {
	if via < 0 {
		return nil
	}
	if h, ok := r.handles[via].(AddrPortReaderWriter); ok {
		return h
	}
	if sp, ok := r.handles[via].(*sharedPacketConn); ok {
		if u, ok := sp.underlying.(AddrPortReaderWriter); ok {
			return u
		}
	}
	return nil
}

// write performs one write call over the net.Addr path and records its call/return. via < 0:
// mux.writeToContext(ctx); via >= 0: through the handle of user `via` (background context, the path
// candidates use).
func (r *vWaRun) write(id int, ctx context.Context, cancellable bool, mode byte, via int, probe bool) error {
	return r.writeP(id, ctx, cancellable, mode, via, probe, vWaPathAddr)
}

// writeP: path = vWaPathAP: the netip.AddrPort path (no context: via < 0 calls mux.writeToUDPAddrPort).
func (r *vWaRun) writeP(id int, ctx context.Context, cancellable bool, mode byte, via int, probe bool, path int) error {
	if path == vWaPathAP && cancellable {
		panic("verif writeabort: the AddrPort path has no context variant")
	}
	switch {
	case probe && path == vWaPathAP:
		r.rec.add(fmt.Sprintf("pc:%d:a", id))
	case probe:
		r.rec.add(fmt.Sprintf("pc:%d", id))
	case path == vWaPathAP:
		r.rec.add(fmt.Sprintf("wc:%d:a", id))
	case cancellable:
		r.rec.add(fmt.Sprintf("wc:%d:c", id))
	default:
		r.rec.add(fmt.Sprintf("wc:%d:b", id))
	}
	var err error
	switch {
	case path == vWaPathAP:
		if w := r.apWriter(via); w != nil {
			_, err = w.WriteToAddrPort([]byte{byte(id), mode}, r.dstAP)
		} else {
			_, err = r.mux.writeToUDPAddrPort([]byte{byte(id), mode}, r.dstAP)
		}
	case via >= 0:
		_, err = r.handles[via].WriteTo([]byte{byte(id), mode}, r.dst)
	default:
		_, err = r.mux.writeToContext(ctx, []byte{byte(id), mode}, r.dst)
	}
	if probe {
		r.rec.add(fmt.Sprintf("pr:%d:%s", id, vWaClass(err)))
	} else {
		r.rec.add(fmt.Sprintf("wr:%d:%s", id, vWaClass(err)))
	}
	return err
}

// abort performs one abortWrite call (via >= 0: through the handle, as candidateBase.abortIO does).
func (r *vWaRun) abort(j int, via int) error {
	r.rec.add(fmt.Sprintf("ac:%d", j))
	var err error
	if via >= 0 {
		if a, ok := r.handles[via].(writeAborter); ok {
			err = a.abortWrite()
		} else {
			panic("verif writeabort: handle is not a writeAborter")
		}
	} else {
		err = r.mux.abortWrite()
	}
	if err != nil {
		r.rec.add(fmt.Sprintf("ar:%d:fail", j))
	} else {
		r.rec.add(fmt.Sprintf("ar:%d:ok", j))
	}
	return err
}

func (r *vWaRun) cancel(i int, cancel context.CancelFunc) {
	r.rec.add(fmt.Sprintf("cx:%d", i)) // recorded BEFORE the effect
	cancel()
}

// quiesce waits until every call issued through r.wg has returned and every goroutine started on
// behalf of the calls (helper aborters of context-aware writes) is gone, then records the quiescent
// observation. Returns false (and records `stuck`) when that does not happen.
func (r *vWaRun) quiesce(wait time.Duration) bool { return r.quiesceGrace(wait, 300*time.Millisecond) }

// grace: how long blocked writes are left alone before the environment completes them.
func (r *vWaRun) quiesceGrace(wait, grace time.Duration) bool {
	done := make(chan struct{})
	go func() { r.wg.Wait(); close(done) }()
	wait = vWaPatience(wait)
	deadline := time.Now().Add(wait)
	releaseAt := time.Now().Add(grace)
	if grace > wait/2 {
		releaseAt = time.Now().Add(wait / 2)
	}
	for {
		select {
		case <-done:
		default:
			if time.Now().After(deadline) {
				r.rec.add("stuck")
				vWaStuck++
				return false
			}
			if time.Now().After(releaseAt) {
				r.sock.releaseAll() // the environment eventually lets every blocked write complete
			}
			time.Sleep(50 * time.Microsecond)
			continue
		}
		break
	}
	for runtime.NumGoroutine() > r.base {
		if time.Now().After(deadline) {
			r.rec.add("stuck")
			vWaStuck++
			return false
		}
		runtime.Gosched()
		time.Sleep(20 * time.Microsecond)
	}
	r.observe()
	return true
}

func (r *vWaRun) observe() {
	ws := r.mux.writeState.Load()
	r.rec.mu.Lock()
	armed := r.sock.armed
	if armed {
		r.rec.ev = append(r.rec.ev, fmt.Sprintf("q:%d:past", ws))
	} else {
		r.rec.ev = append(r.rec.ev, fmt.Sprintf("q:%d:zero", ws))
	}
	r.rec.mu.Unlock()
}

// probe: "later writes by ANY user succeed": one write by user B over the net.Addr path and one by user A
// over the AddrPort path (ids id and id+1), each issued alone at quiescence on a socket that does not
// block it. A probe that does not return (a writer spinning forever in startWriteContext) is recorded
// as `stuck`.
func (r *vWaRun) probe(id int) {
	if r.probeVia(id, 1, vWaPathAddr) {
		r.probeVia(id+1, 0, vWaPathAP)
	}
}

func (r *vWaRun) probeVia(id int, via int, path int) bool {
	done := make(chan struct{})
	go func() {
		defer close(done)
		_ = r.writeP(id, context.Background(), false, 0, via, true, path)
	}()
	if !vWaWaitCh(done, vWaPatience(3*time.Second)) {
		r.rec.add("stuck")
		vWaStuck++
		return false
	}
	r.observe()
	return true
}

// vWaStuck counts histories that did not become quiescent; after the first one the harness stops
// being patient (leftover goroutines keep spinning), after three it stops generating.
var vWaStuck int

func vWaPatience(d time.Duration) time.Duration {
	if vWaStuck > 0 && d > 300*time.Millisecond {
		return 300 * time.Millisecond
	}
	return d
}

func (r *vWaRun) finish() string {
	for _, h := range r.handles {
		_ = h.Close()
	}
	_ = r.mux.Close()
	r.rec.mu.Lock()
	defer r.rec.mu.Unlock()
	return "writeabort hist " + strings.Join(r.rec.ev, " ")
}

func (r *vWaRun) waitPending(id int) bool {
	for i := 0; i < 2000000; i++ {
		if r.sock.isPending(id) {
			return true
		}
		runtime.Gosched()
	}
	return false
}

func vWaWaitCh(ch chan struct{}, d time.Duration) bool {
	select {
	case <-ch:
		return true
	case <-time.After(d):
		return false
	}
}

// ---------------------------------------------------------------------------------------------
// deterministic schedules built from the scripted socket
// ---------------------------------------------------------------------------------------------

func (r *vWaRun) goWrite(id int, ctx context.Context, cancellable bool, mode byte, via int) chan struct{} {
	return r.goWriteP(id, ctx, cancellable, mode, via, vWaPathAddr)
}

func (r *vWaRun) goWriteP(id int, ctx context.Context, cancellable bool, mode byte, via int, path int) chan struct{} {
	done := make(chan struct{})
	r.wg.Add(1)
	go func() {
		defer r.wg.Done()
		defer close(done)
		_ = r.writeP(id, ctx, cancellable, mode, via, false, path)
	}()
	return done
}

// S1: one blocked writer, one abort: the writer is interrupted, clears the deadline; probe succeeds.
func vWaSchedAbortOne(via int, ap bool, path int) string {
	r := newVWaRunKind(nil, ap)
	d := r.goWriteP(0, context.Background(), false, 1, via, path)
	r.waitPending(0)
	_ = r.abort(0, via)
	vWaWaitCh(d, vWaPatience(2*time.Second))
	if r.quiesce(5 * time.Second) {
		r.probe(1)
	}
	return r.finish()
}

// S2: k blocked writers of both users, one abort through a handle. mix: writers 2,3 (6,7, ...) use the
// AddrPort path, so with k = 4 every (user, path) combination is in flight.
func vWaSchedAbortMany(k int, ap bool, mix bool) string {
	r := newVWaRunKind(nil, ap)
	for i := 0; i < k; i++ {
		path := vWaPathAddr
		if mix && (i/2)%2 == 1 {
			path = vWaPathAP
		}
		r.goWriteP(i, context.Background(), false, 1, i%2, path)
		r.waitPending(i)
	}
	_ = r.abort(0, 0)
	if r.quiesce(5 * time.Second) {
		r.probe(k)
	}
	return r.finish()
}

// S3: aborts with no writer in flight do nothing.
func vWaSchedAbortIdle() string {
	r := newVWaRun(nil)
	_ = r.abort(0, -1)
	_ = r.abort(1, 1)
	if r.quiesce(5 * time.Second) {
		r.probe(0)
	}
	return r.finish()
}

// S4: the arming fails while the writer stays blocked: bits cleared, writer later completes normally.
func vWaSchedFailSimple(ap bool, path int) string {
	r := newVWaRunKind(map[int]bool{0: true}, ap)
	d := r.goWriteP(0, context.Background(), false, 1, -1, path)
	r.waitPending(0)
	_ = r.abort(0, -1)
	r.sock.release(0, false)
	vWaWaitCh(d, vWaPatience(2*time.Second))
	if r.quiesce(5 * time.Second) {
		r.probe(1)
	}
	return r.finish()
}

// S5: context of a blocked write cancelled: the helper aborts it; a write of the other user that is in
// flight is interrupted as well; afterwards the socket is usable.
func vWaSchedCancel(withSibling bool, ap bool, siblingPath int) string {
	r := newVWaRunKind(nil, ap)
	ctx, cancel := context.WithCancel(context.Background())
	d0 := r.goWrite(0, ctx, true, 1, -1)
	r.waitPending(0)
	if withSibling {
		r.goWriteP(1, context.Background(), false, 1, 1, siblingPath)
		r.waitPending(1)
	}
	r.cancel(0, cancel)
	vWaWaitCh(d0, vWaPatience(2*time.Second))
	if r.quiesce(5 * time.Second) {
		r.probe(2)
	}
	return r.finish()
}

// S6: context cancelled before the call.
func vWaSchedCancelBefore() string {
	r := newVWaRun(nil)
	ctx, cancel := context.WithCancel(context.Background())
	r.cancel(0, cancel)
	d0 := r.goWrite(0, ctx, true, 0, -1)
	vWaWaitCh(d0, vWaPatience(2*time.Second))
	if r.quiesce(5 * time.Second) {
		r.probe(1)
	}
	return r.finish()
}

// S7: a second writer spins in startWriteContext while the deadline is armed, then enters.
func vWaSchedSpinner(ap bool, path0, path1 int) string {
	r := newVWaRunKind(nil, ap)
	var d1 chan struct{}
	r.sock.onWrite[0] = func() {
		_ = r.abort(0, -1) // blocked + deadline armed while writer 0 is inside the socket write
		d1 = r.goWriteP(1, context.Background(), false, 0, 1, path1)
		for i := 0; i < 200; i++ { // writer 1 spins in startWriteContext
			runtime.Gosched()
		}
	}
	d0 := r.goWriteP(0, context.Background(), false, 2, 0, path0)
	vWaWaitCh(d0, vWaPatience(2*time.Second))
	if d1 != nil {
		vWaWaitCh(d1, vWaPatience(2*time.Second))
	}
	if r.quiesce(5 * time.Second) {
		r.probe(2)
	}
	return r.finish()
}

// S8: a write of user A FAILS in the socket (an error that is not the deadline's); it has returned, so
// nothing is in flight: an abort by user B must do nothing (withLater: afterwards B has a blocked write
// on the other path which A aborts - the ordinary protocol must still work); then everybody writes.
func vWaSchedWriteFails(ap bool, path int, withLater bool) string {
	r := newVWaRunKind(nil, ap)
	d := r.goWriteP(0, context.Background(), false, 3, 0, path)
	vWaWaitCh(d, vWaPatience(2*time.Second))
	_ = r.abort(0, 1)
	if withLater {
		d1 := r.goWriteP(1, context.Background(), false, 1, 1, 1-path)
		if r.waitPending(1) {
			_ = r.abort(1, 0)
		}
		vWaWaitCh(d1, vWaPatience(2*time.Second))
	}
	if r.quiesce(5 * time.Second) {
		r.probe(2)
	}
	return r.finish()
}

// S9: user B is blocked in the socket (net.Addr path); a write of user A fails at once (path given);
// A aborts: B is the only writer in flight, is interrupted and must clear the deadline.
func vWaSchedFailBesideBlocked(ap bool, path int) string {
	r := newVWaRunKind(nil, ap)
	d0 := r.goWriteP(0, context.Background(), false, 1, 1, vWaPathAddr)
	r.waitPending(0)
	d1 := r.goWriteP(1, context.Background(), false, 3, 0, path)
	vWaWaitCh(d1, vWaPatience(2*time.Second))
	_ = r.abort(0, 0)
	vWaWaitCh(d0, vWaPatience(2*time.Second))
	if r.quiesce(5 * time.Second) {
		r.probe(2)
	}
	return r.finish()
}

// S10: a blocked write completes with an error (not the deadline's) on its own; aborts afterwards are idle.
func vWaSchedBlockedThenError(ap bool, path int) string {
	r := newVWaRunKind(nil, ap)
	d := r.goWriteP(0, context.Background(), false, 1, 0, path)
	r.waitPending(0)
	r.sock.release(0, true)
	vWaWaitCh(d, vWaPatience(2*time.Second))
	_ = r.abort(0, 1)
	_ = r.abort(1, -1)
	if r.quiesce(5 * time.Second) {
		r.probe(1)
	}
	return r.finish()
}

// S11: user A's blocked write is aborted, A is the last writer and is INSIDE SetWriteDeadline(zero) (entered,
// not yet effective) when user B starts a write: B must wait for the clear and succeed.
func vWaSchedWriteDuringClear(ap bool, path int) string {
	r := newVWaRunKind(nil, ap)
	var dB chan struct{}
	r.sock.onZeroPre = func(k int) {
		if k == 0 {
			dB = r.goWriteP(1, context.Background(), false, 0, 1, path)
			vWaWaitCh(dB, 3*time.Millisecond) // a correct mux keeps B waiting until this call has returned
		}
	}
	dA := r.goWriteP(0, context.Background(), false, 1, 0, vWaPathAddr)
	r.waitPending(0)
	_ = r.abort(0, 0)
	vWaWaitCh(dA, vWaPatience(2*time.Second))
	if dB != nil {
		vWaWaitCh(dB, vWaPatience(2*time.Second))
	}
	if r.quiesce(5 * time.Second) {
		r.probe(2)
	}
	return r.finish()
}

// F11 (DESIGN.md §7): failed arming + a waiter left over from the ended epoch.
//
//	X in flight, abort 1 sets blocked; X's write completes, X waits in clearWriteDeadlineAfterAbort;
//	abort 1's SetWriteDeadline(now) FAILS and clears the bits before X runs again;
//	Y enters, abort 2 arms the deadline, Y is interrupted, is last writer, calls SetWriteDeadline(zero) (slow);
//	X (epoch 1) sees blocked+deadline, clears as well and stores 0;
//	Z enters, abort 3 arms the deadline; Y's Store(0) wipes it; Z returns with count 0: nobody clears.
//
// Everything between abort 1's clearing and abort 2's CAS runs on ONE goroutine with GOMAXPROCS(1),
// so X (which only yields) cannot observe the cleared word. Returns whether the final state was reached.
func vWaSchedF11() (string, bool) {
	old := runtime.GOMAXPROCS(1)
	defer runtime.GOMAXPROCS(old)
	r := newVWaRun(map[int]bool{0: true})
	s, m := r.sock, r.mux
	yParked, parkY, yDone := make(chan struct{}), make(chan struct{}), make(chan struct{})
	var parkOnce, unparkOnce sync.Once
	unpark := func() { unparkOnce.Do(func() { close(parkY) }) }
	s.onNow = func(k int, failed bool) {
		if k == 0 && failed {
			s.release(0, false) // X's write completes for an unrelated reason
			for i := 0; i < 2000000 && m.writeState.Load() != udpMuxWriteBlockedBit; i++ {
				runtime.Gosched() // until X has decremented and waits for the deadline bit
			}
		}
	}
	s.onZero = func(k int) {
		if k == 0 { // Y's SetWriteDeadline(zero) is slow: it returns only after epoch 3 has armed the deadline
			parkOnce.Do(func() { close(yParked) })
			select {
			case <-parkY:
			case <-time.After(3 * time.Second):
			}
		}
	}
	s.onWrite[1] = func() { _ = r.abort(1, -1) } // Y's context ends: abort 2 runs to completion
	s.onWrite[2] = func() {
		_ = r.abort(2, -1) // abort 3
		unpark()
		vWaWaitCh(yDone, 3*time.Second)
	}
	xDone := r.goWrite(0, context.Background(), false, 1, -1)
	r.waitPending(0)
	r.wg.Add(1)
	go func() {
		defer r.wg.Done()
		defer close(yDone)
		_ = r.abort(0, -1)                                        // fails
		_ = r.write(1, context.Background(), false, 2, -1, false) // Y, same goroutine, no yield in between
	}()
	if vWaWaitCh(yParked, 3*time.Second) {
		vWaWaitCh(xDone, 3*time.Second)
		r.wg.Add(1)
		func() {
			defer r.wg.Done()
			_ = r.write(2, context.Background(), false, 2, -1, false) // Z
		}()
	}
	unpark()
	reached := false
	if r.quiesce(5 * time.Second) {
		reached = m.writeState.Load() == 0 && s.armed
		r.probe(3)
	}
	return r.finish(), reached
}

// ---------------------------------------------------------------------------------------------
// randomised concurrent runs
// ---------------------------------------------------------------------------------------------

type vWaDelay struct {
	spins int
	sleep time.Duration
}

func vWaDrawDelay(r *vRand) vWaDelay {
	switch r.intn(4) {
	case 0:
		return vWaDelay{}
	case 1:
		return vWaDelay{spins: r.intn(60)}
	case 2:
		return vWaDelay{sleep: time.Duration(r.intn(150)) * time.Microsecond}
	default:
		return vWaDelay{spins: r.intn(10), sleep: time.Duration(r.intn(40)) * time.Microsecond}
	}
}

func (d vWaDelay) wait() {
	for i := 0; i < d.spins; i++ {
		runtime.Gosched()
	}
	if d.sleep > 0 {
		time.Sleep(d.sleep)
	}
}

func vWaRandom(rnd *vRand, o *vOut) string {
	nW := 1 + rnd.intn(5)
	nA := rnd.intn(4)
	fail := map[int]bool{}
	switch rnd.intn(4) { // half of the runs have no failing SetWriteDeadline at all
	case 2:
		for k := 0; k < 8; k++ {
			if rnd.chance(1, 4) {
				fail[k] = true
			}
		}
	case 3:
		for k := 0; k < 8; k++ {
			if rnd.chance(1, 2) {
				fail[k] = true
			}
		}
	}
	if len(fail) > 0 {
		o.stat("writeabort.random.with_failure_script")
	} else {
		o.stat("writeabort.random.no_failure_script")
	}
	ap := rnd.chance(2, 3) // the shared socket is AddrPort-capable: both write paths are mixed in the run
	if ap {
		o.stat("writeabort.random.addrport_capable_socket")
	}
	r := newVWaRunKind(fail, ap)
	r.sock.rnd = rnd.fork()
	// waitPendingN: an aborter/canceller may wait (bounded) until `need` writes are blocked in the socket
	waitPendingN := func(need int, spins int) {
		for i := 0; i < spins; i++ {
			r.rec.mu.Lock()
			n := len(r.sock.pending)
			r.rec.mu.Unlock()
			if n >= need {
				return
			}
			runtime.Gosched()
		}
	}
	type rel struct {
		d    vWaDelay
		id   int
		fail bool // the blocked write completes with an error that is not the deadline's
	}
	var rels []rel
	for i := 0; i < nW; i++ {
		kind := rnd.intn(4)
		d := vWaDrawDelay(rnd)
		cancellable := kind >= 2
		mode := byte(0)
		if kind == 1 || kind == 2 {
			mode = 1
		}
		via := -1
		if !cancellable && rnd.chance(1, 2) {
			via = rnd.intn(2)
		}
		path := vWaPathAddr
		if !cancellable && rnd.chance(1, 2) { // on a plain socket: the fallback of writeToUDPAddrPort into writeTo
			path = vWaPathAP
			if rnd.chance(3, 4) {
				via = rnd.intn(2)
			}
		}
		if mode == 0 && rnd.chance(1, 3) {
			mode = 3 // the socket write fails at once
		}
		ctx := context.Background()
		var cancel context.CancelFunc
		if cancellable {
			ctx, cancel = context.WithCancel(ctx)
			dc := vWaDrawDelay(rnd)
			id := i
			untilBlocked := rnd.chance(1, 2)
			r.wg.Add(1)
			go func() {
				defer r.wg.Done()
				if untilBlocked {
					for k := 0; k < 3000 && !r.sock.isPending(id); k++ {
						runtime.Gosched()
					}
				}
				dc.wait()
				r.cancel(id, cancel)
			}()
		}
		if mode == 1 && rnd.chance(1, 2) {
			rels = append(rels, rel{vWaDrawDelay(rnd), i, rnd.chance(1, 3)})
		}
		id := i
		r.wg.Add(1)
		go func() {
			defer r.wg.Done()
			d.wait()
			_ = r.writeP(id, ctx, cancellable, mode, via, false, path)
		}()
	}
	for j := 0; j < nA; j++ {
		d := vWaDrawDelay(rnd)
		via := -1
		if rnd.chance(1, 2) {
			via = rnd.intn(2)
		}
		id := j
		need := rnd.intn(3)
		r.wg.Add(1)
		go func() {
			defer r.wg.Done()
			waitPendingN(need, 3000)
			d.wait()
			_ = r.abort(id, via)
		}()
	}
	r.wg.Add(1)
	go func() {
		defer r.wg.Done()
		for _, x := range rels {
			x.d.wait()
			r.sock.release(x.id, x.fail)
		}
	}()
	if r.quiesceGrace(10*time.Second, time.Duration(1+rnd.intn(3))*time.Millisecond) {
		r.probe(nW)
	}
	return r.finish()
}

// ---------------------------------------------------------------------------------------------
// component
// ---------------------------------------------------------------------------------------------

func init() {
	vComponents["writeabort"] = &vComp{gen: vWaGen, exec: vWaExec}
}

func vWaExec(o *vOut, toks []string) string {
	if len(toks) < 2 {
		return "bad-op"
	}
	switch toks[1] {
	case "consts":
		return fmt.Sprintf("%d %d %d", bits.TrailingZeros64(udpMuxWriteBlockedBit), bits.TrailingZeros64(udpMuxWriteDeadlineBit), udpMuxWriteCountMask)
	case "hist":
		// a recorded history is evidence, not an input: replaying the line re-checks it with the monitor
		return "recorded"
	}
	return "bad-op"
}

func vWaStatHist(o *vOut, h string) {
	o.stat("writeabort.histories")
	o.statN("writeabort.events", strings.Count(h, " ")-1)
	if strings.Contains(h, "sd:now:fail") {
		o.stat("writeabort.hist.with_failed_arming")
	}
	if strings.Contains(h, "sd:now:ok") {
		o.stat("writeabort.hist.with_arming")
	}
	if strings.Contains(h, ":past") {
		o.stat("writeabort.hist.armed_at_quiescence")
	}
	if strings.Contains(h, "stuck") {
		o.stat("writeabort.hist.stuck")
	}
	if strings.Contains(h, ":canceled") {
		o.stat("writeabort.hist.with_cancelled_write")
	}
	// shape of the interleaving, from the recorded events
	inflight, maxIn, armed, epochs, abortWith2, callWhileArmed, zeroCalls := 0, 0, false, 0, false, false, 0
	apWriter, paths := map[string]bool{}, map[bool]bool{}
	apFailed, addrFailed, apFailThenAbort, apFailThenArming, apFailWhileBlockedBit := false, false, false, false, false
	for _, t := range strings.Split(h, " ")[2:] {
		f := strings.Split(t, ":")
		switch {
		case f[0] == "wc" && len(f) == 3:
			paths[f[2] == "a"] = true
			if f[2] == "a" {
				apWriter[f[1]] = true
			}
		case f[0] == "sa":
			o.stat("writeabort.ev.socket_WriteToAddrPort")
		case f[0] == "sc":
			o.stat("writeabort.ev.socket_WriteTo")
		case f[0] == "sr" && len(f) == 3 && f[2] == "err":
			o.stat("writeabort.ev.socket_write_error")
		case f[0] == "wr" && len(f) == 3 && f[2] != "ok":
			if apWriter[f[1]] {
				apFailed = true
				if armed {
					apFailWhileBlockedBit = true
				}
			} else {
				addrFailed = true
			}
		case f[0] == "ac" && apFailed:
			apFailThenAbort = true
		case t == "sd:now:ok" && apFailed:
			apFailThenArming = true
		}
		switch {
		case strings.HasPrefix(t, "wc:"):
			inflight++
			if inflight > maxIn {
				maxIn = inflight
			}
			if armed {
				callWhileArmed = true
			}
		case strings.HasPrefix(t, "wr:"):
			inflight--
		case t == "sd:now:ok":
			armed = true
			epochs++
			if inflight >= 2 {
				abortWith2 = true
			}
		case t == "sd:zero:ok":
			armed = false
			zeroCalls++
		}
	}
	o.stat(fmt.Sprintf("writeabort.shape.max_writes_in_flight=%d", maxIn))
	if epochs >= 2 {
		o.stat("writeabort.shape.two_or_more_armings")
	}
	if abortWith2 {
		o.stat("writeabort.shape.arming_with_2+_writes_in_flight")
	}
	if callWhileArmed {
		o.stat("writeabort.shape.write_called_while_deadline_armed")
	}
	if zeroCalls > epochs {
		o.stat("writeabort.shape.more_clears_than_armings(stale waiter)")
	}
	if paths[true] && paths[false] {
		o.stat("writeabort.shape.both_write_paths_in_one_run")
	}
	if apFailed {
		o.stat("writeabort.shape.addrport_write_returned_error")
	}
	if addrFailed {
		o.stat("writeabort.shape.netaddr_write_returned_error")
	}
	if apFailThenAbort {
		o.stat("writeabort.shape.abort_called_after_failed_addrport_write")
	}
	if apFailThenArming {
		o.stat("writeabort.shape.deadline_armed_after_failed_addrport_write")
	}
	if apFailWhileBlockedBit {
		o.stat("writeabort.shape.addrport_write_failed_while_deadline_armed")
	}
}

func vWaGen(o *vOut, r *vRand, thorough bool, args []string, emit func(op string)) {
	emit("writeabort consts")
	put := func(h string) { vWaStatHist(o, h); emit(h) }
	// deterministic schedules first
	const pA, pP = vWaPathAddr, vWaPathAP
	// after three histories that did not become quiescent nothing more is run (leftover goroutines spin)
	sched := func(f func() string) {
		if vWaStuck < 3 {
			put(f())
		}
	}
	sched(func() string { return vWaSchedAbortIdle() })
	sched(func() string { return vWaSchedAbortOne(-1, false, pA) })
	sched(func() string { return vWaSchedAbortOne(0, false, pA) })
	sched(func() string { return vWaSchedAbortMany(2, false, false) })
	sched(func() string { return vWaSchedAbortMany(4, false, false) })
	sched(func() string { return vWaSchedFailSimple(false, pA) })
	sched(func() string { return vWaSchedCancel(false, false, pA) })
	sched(func() string { return vWaSchedCancel(true, false, pA) })
	sched(func() string { return vWaSchedCancelBefore() })
	sched(func() string { return vWaSchedSpinner(false, pA, pA) })
	// the same protocol over the netip.AddrPort write path (AddrPort-capable socket), both paths mixed;
	// the socket write fails with an error / the deadline / completes - on either path
	sched(func() string { return vWaSchedWriteFails(true, pP, false) })
	sched(func() string { return vWaSchedWriteFails(true, pP, true) })
	sched(func() string { return vWaSchedWriteFails(true, pA, true) })
	sched(func() string { return vWaSchedWriteFails(false, pA, false) })
	sched(func() string { return vWaSchedWriteFails(false, pP, true) }) // plain socket: writeToUDPAddrPort falls back to writeTo
	sched(func() string { return vWaSchedFailBesideBlocked(true, pP) })
	sched(func() string { return vWaSchedFailBesideBlocked(true, pA) })
	sched(func() string { return vWaSchedBlockedThenError(true, pP) })
	sched(func() string { return vWaSchedBlockedThenError(false, pA) })
	sched(func() string { return vWaSchedAbortOne(0, true, pP) })
	sched(func() string { return vWaSchedAbortOne(-1, true, pP) })
	sched(func() string { return vWaSchedAbortOne(1, true, pA) })
	sched(func() string { return vWaSchedAbortOne(0, false, pP) })
	sched(func() string { return vWaSchedAbortMany(4, true, true) })
	sched(func() string { return vWaSchedFailSimple(true, pP) })
	sched(func() string { return vWaSchedCancel(true, true, pP) })
	sched(func() string { return vWaSchedSpinner(true, pP, pA) })
	sched(func() string { return vWaSchedSpinner(true, pA, pP) })
	sched(func() string { return vWaSchedWriteDuringClear(false, pA) })
	sched(func() string { return vWaSchedWriteDuringClear(true, pP) })
	// F11: retried until the schedule is reached (it cannot be on a repaired tree)
	var h string
	reached := false
	for try := 0; try < 25 && !reached && vWaStuck < 3; try++ {
		h, reached = vWaSchedF11()
		o.stat("writeabort.f11.attempts")
	}
	if reached {
		o.stat("writeabort.f11.reached")
	}
	if h != "" {
		put(h)
	}
	n := 1500
	if thorough {
		n = 60000
	}
	n = vEnvInt("VERIF_WA_N", n)
	procs := []int{1, 2, runtime.NumCPU()}
	old := runtime.GOMAXPROCS(0)
	defer runtime.GOMAXPROCS(old)
	for i := 0; i < n && vWaStuck < 3; i++ {
		if i%50 == 0 {
			runtime.GOMAXPROCS(procs[(i/50)%len(procs)])
		}
		put(vWaRandom(r.fork(), o))
	}
}
