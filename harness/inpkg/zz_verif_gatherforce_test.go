//go:build verif

// Tie A of property C11, gathering clause, FORCED interleavings: the window of `Agent.addCandidate` between its
// context check (agent.go, first statement) and the hand-off of its task to the agent loop (`a.loop.Run`, whose
// `select` takes either the hand-off or `ctx.Done()` when both are ready) is hit deterministically instead of by
// luck (component `gathercycle` explores timings at random and meets the window about once in 250000 histories).
//
//	gatherforce run <ifaces> <rounds> <step> …     → observation [ "|" observation … ]
//
// One op = one script, executed <rounds> times, each time on a fresh real Agent (UDP4, host only, mDNS off) inside a
// testing/synctest bubble; the output is the sorted set of DISTINCT observations (one, when the code does not
// depend on which ready case `select` takes).  After every step the script waits until every goroutine of the bubble
// is blocked (synctest.Wait), so an observation is a deterministic function of the script and of the select choices.
//
// The agent gathers over a fake transport.Net with <ifaces> interfaces whose Interfaces() call BLOCKS until the
// script releases it: the real gatherer of every started cycle is parked inside gatherCandidatesLocal (the cycle is
// "gathering", its context is the real one).  Additional gatherers of a cycle are played by the script: they call
// the real a.addCandidate(ctx, cand, conn) with a context that is cancelled exactly when the cycle's own context
// is (the cycle's cancel func stored in the agent is wrapped), and whose FIRST Err() call — addCandidate's check —
// runs a hook after having computed its result: the hook restarts / closes the agent (or starts a second gatherer)
// and waits until the agent loop is parked in its receive again.  Then Run's select finds both cases ready.
//
// steps              observation tokens
//
//	G                 G<r>                 GatherCandidates (0 nil, 1 ErrMultipleGatherAttempted, 2 other error)
//	R                 R<u> | R!            Restart to ufrag number u (the next one) | error
//	S                 S<g> | S!            GetGatheringState 0 new 1 gathering 2 complete | error
//	X  Y              X  Y  (X- closed)    Close / GracefulClose called on another goroutine (it returns once the current
//	                                       cycle's goroutine has ended, i.e. after the cycle's gatherer was released)
//	L                 L<k> l<id>… | L-     release the parked real gatherer of the oldest parked cycle k; l<id> = a socket
//	                                       (id = port) obtained by it from the net
//	A<c>:<mode>       a<c>:<id> … r<id>=ok|err   a scripted gatherer of cycle c offers candidate <id> (= port 6000+j);
//	                                       mode p: no hook; r: hook = Restart; q: hook = Restart, GatherCandidates;
//	                                       x: hook = Close; 2<mode>: hook = a second scripted gatherer of the same
//	                                       cycle with <mode>.  Hook tokens (R<u>, G<r>, X, a…/r…) appear in between.
//	after every step: callbacks delivered during the step, in delivery order: c<t>:<id>@<e> candidate <id> carrying
//	                  ufrag number t, delivered while the harness had seen e successful Restarts; n@<e> the nil candidate;
//	                  then the probe Q<ids>/<ids> = GetLocalCandidates (ports, sorted) / sockets not closed (sorted), Q! closed
//	at the end        every parked gatherer is released (L steps), the agent is closed (X) if the script did not,
//	                  Z<ids> = sockets still open after Close returned (Z! = Close did not return)
package ice

import (
	"context"
	"errors"
	"fmt"
	"net"
	"sort"
	"strconv"
	"strings"
	"sync"
	"testing"
	"testing/synctest"
	"time"

	"github.com/pion/ice/v4/internal/taskloop"
	"github.com/pion/transport/v4"
)

// vgfCtx: the context a scripted gatherer hands to addCandidate.  Done/Err/Value are those of the shadow context
// (cancelled together with the cycle's); the first Err() call runs the hook AFTER having read the result.
type vgfCtx struct {
	context.Context
	once sync.Once
	hook func()
}

func (c *vgfCtx) Err() error {
	err := c.Context.Err()
	c.once.Do(func() {
		if c.hook != nil {
			c.hook()
		}
	})

	return err
}

type vgfConn struct {
	transport.UDPConn
	id     int
	addr   *net.UDPAddr
	closed chan struct{}
	once   sync.Once
}

func (c *vgfConn) ReadFrom([]byte) (int, net.Addr, error) {
	<-c.closed
	return 0, nil, net.ErrClosed
}
func (c *vgfConn) WriteTo(b []byte, _ net.Addr) (int, error) { return len(b), nil }
func (c *vgfConn) Close() error                              { c.once.Do(func() { close(c.closed) }); return nil }
func (c *vgfConn) LocalAddr() net.Addr                       { return c.addr }
func (c *vgfConn) SetDeadline(_ time.Time) error             { return nil }
func (c *vgfConn) SetReadDeadline(_ time.Time) error         { return nil }
func (c *vgfConn) SetWriteDeadline(_ time.Time) error        { return nil }
func (c *vgfConn) isOpen() bool {
	select {
	case <-c.closed:
		return false
	default:
		return true
	}
}

type vgfGate struct {
	cycle int
	ch    chan struct{}
}

// vgfRun is one execution of a script.
type vgfRun struct {
	a         *Agent
	mu        sync.Mutex
	toks      []string // tokens of the current step (script goroutine, released gatherer)
	cbs       []string // callbacks of the current step
	out       []string
	conns     []*vgfConn
	gates     []*vgfGate
	ifaces    []*transport.Interface
	port      int
	epoch     int               // successful Restarts
	cycles    []context.Context // shadow context per successful GatherCandidates
	nInj      int
	gathering int // index the cycle of the GatherCandidates call in progress / last made will have (or has)
	closed    bool
	closeDone chan struct{}
}

func (v *vgfRun) tok(s string) {
	v.mu.Lock()
	v.toks = append(v.toks, s)
	v.mu.Unlock()
}

func (v *vgfRun) newConn(id int, ip net.IP) *vgfConn {
	c := &vgfConn{id: id, addr: &net.UDPAddr{IP: ip, Port: id}, closed: make(chan struct{})}
	v.mu.Lock()
	v.conns = append(v.conns, c)
	v.mu.Unlock()

	return c
}

// vgfNet: Interfaces parks the calling gatherer until the script releases it.
type vgfNet struct {
	transport.Net
	v *vgfRun
}

func (n *vgfNet) Interfaces() ([]*transport.Interface, error) {
	v := n.v
	if v.a == nil { // NewAgent looks at the interfaces once (agent.go, mDNS setup): not a gatherer
		return v.ifaces, nil
	}
	g := &vgfGate{ch: make(chan struct{})}
	v.mu.Lock()
	g.cycle = v.gathering
	v.gates = append(v.gates, g)
	v.mu.Unlock()
	<-g.ch

	return v.ifaces, nil
}

func (n *vgfNet) ListenUDP(_ string, laddr *net.UDPAddr) (transport.UDPConn, error) {
	v := n.v
	v.mu.Lock()
	v.port++
	p := 20000 + v.port
	v.mu.Unlock()
	c := v.newConn(p, laddr.IP)
	v.tok(fmt.Sprintf("l%d", p))

	return c, nil
}

func (v *vgfRun) endStep() {
	synctest.Wait()
	v.mu.Lock()
	defer v.mu.Unlock()
	v.out = append(v.out, v.toks...)
	v.out = append(v.out, v.cbs...)
	v.toks, v.cbs = nil, nil
	if v.closed {
		v.out = append(v.out, "Q!")

		return
	}
	cands, err := v.a.GetLocalCandidates()
	if err != nil {
		v.out = append(v.out, "Q?")

		return
	}
	ids := make([]int, 0, len(cands))
	for _, c := range cands {
		ids = append(ids, c.Port())
	}
	v.out = append(v.out, "Q"+vgfIDs(ids)+"/"+vgfIDs(v.openLocked()))
}

func (v *vgfRun) openLocked() []int {
	var ids []int
	for _, c := range v.conns {
		if c.isOpen() {
			ids = append(ids, c.id)
		}
	}

	return ids
}

func vgfIDs(ids []int) string {
	sort.Ints(ids)
	s := make([]string, len(ids))
	for i, x := range ids {
		s[i] = strconv.Itoa(x)
	}

	return strings.Join(s, ",")
}

func (v *vgfRun) gather() {
	v.mu.Lock()
	v.gathering = len(v.cycles)
	v.mu.Unlock()
	err := v.a.GatherCandidates()
	code := 0
	switch {
	case err == nil:
	case errors.Is(err, ErrMultipleGatherAttempted):
		code = 1
	default:
		code = 2
	}
	if err == nil {
		// shadow context: cancelled by exactly the calls that cancel the cycle's own context (the stored cancel
		// func is wrapped), child of the loop's context like the real one
		var sctx context.Context
		runErr := v.a.loop.Run(v.a.loop, func(context.Context) {
			orig := v.a.gatherCandidateCancel
			c, cancel := context.WithCancel(v.a.loop)
			sctx = c
			v.a.gatherCandidateCancel = func() { orig(); cancel() }
		})
		if runErr != nil {
			panic("gatherforce: loop closed between GatherCandidates and the wrap task")
		}
		v.mu.Lock()
		v.cycles = append(v.cycles, sctx)
		v.mu.Unlock()
	}
	v.tok(fmt.Sprintf("G%d", code))
}

func (v *vgfRun) restart() {
	if err := v.a.Restart(vgcUfrag(v.epoch+1), vgcPwd); err != nil {
		v.tok("R!")

		return
	}
	v.mu.Lock()
	v.epoch++
	e := v.epoch
	v.mu.Unlock()
	v.tok(fmt.Sprintf("R%d", e))
}

func (v *vgfRun) close(graceful bool) {
	if v.closed {
		v.tok("X-")

		return
	}
	v.closed = true
	if graceful {
		v.tok("Y")
	} else {
		v.tok("X")
	}
	go func() {
		if graceful {
			_ = v.a.GracefulClose()
		} else {
			_ = v.a.Close()
		}
		close(v.closeDone)
	}()
}

// inject: a scripted gatherer of cycle c; false = malformed step.
func (v *vgfRun) inject(c int, mode string) bool {
	if c < 0 || c >= len(v.cycles) || mode == "" || (mode[0] != '2' && len(mode) != 1) ||
		!strings.ContainsRune("prqx2", rune(mode[0])) {
		return false
	}
	// only while the cycle's real gatherer is parked: the cycle is inside gatherCandidatesInternal, as it is for
	// every real gatherer (wg.Wait at its end)
	parked := false
	v.mu.Lock()
	for _, g := range v.gates {
		parked = parked || g.cycle == c
	}
	v.mu.Unlock()
	if !parked {
		return false
	}
	id := 6000 + v.nInj
	v.nInj++
	cand, err := NewCandidateHost(&CandidateHostConfig{Network: "udp", Address: "192.0.2.1", Port: id, Component: 1})
	if err != nil {
		panic(err)
	}
	conn := v.newConn(id, net.IPv4(192, 0, 2, 1))
	ok := true
	var hook func()
	switch mode[0] {
	case 'p':
	case 'r':
		hook = func() { v.restart(); synctest.Wait() }
	case 'q':
		hook = func() { v.restart(); v.gather(); synctest.Wait() }
	case 'x':
		hook = func() { v.close(false); synctest.Wait() }
	case '2':
		hook = func() { ok = v.inject(c, mode[1:]) }
	}
	v.tok(fmt.Sprintf("a%d:%d", c, id))
	addErr := v.a.addCandidate(&vgfCtx{Context: v.cycles[c], hook: hook}, cand, conn)
	switch {
	case addErr == nil:
		v.tok(fmt.Sprintf("r%d=ok", id))
	case errors.Is(addErr, context.Canceled) || errors.Is(addErr, taskloop.ErrClosed):
		// what every caller of addCandidate does with an error (gather.go): close the candidate and its socket
		_ = cand.close()
		_ = conn.Close()
		v.tok(fmt.Sprintf("r%d=err", id))
	default:
		_ = cand.close()
		_ = conn.Close()
		v.tok(fmt.Sprintf("r%d=e?%s", id, strings.ReplaceAll(addErr.Error(), " ", "_")))
	}

	return ok
}

func (v *vgfRun) release() {
	v.mu.Lock()
	var g *vgfGate
	if len(v.gates) > 0 {
		g = v.gates[0]
		v.gates = v.gates[1:]
	}
	v.mu.Unlock()
	if g == nil {
		v.tok("L-")

		return
	}
	v.tok(fmt.Sprintf("L%d", g.cycle))
	close(g.ch)
}

// vgfScript runs one script once and returns its observation.
func vgfScript(t *testing.T, nIf int, steps []string) string {
	v := &vgfRun{closeDone: make(chan struct{})}
	for i := 0; i < nIf; i++ {
		ifc := transport.NewInterface(net.Interface{Index: i + 1, MTU: 1500, Name: fmt.Sprintf("eth%d", i), Flags: net.FlagUp})
		ifc.AddAddress(&net.IPNet{IP: net.IPv4(10, 0, byte(i), 1), Mask: net.CIDRMask(24, 32)})
		v.ifaces = append(v.ifaces, ifc)
	}
	a, err := NewAgent(&AgentConfig{
		NetworkTypes:     []NetworkType{NetworkTypeUDP4},
		CandidateTypes:   []CandidateType{CandidateTypeHost},
		MulticastDNSMode: MulticastDNSModeDisabled,
		Net:              &vgfNet{v: v},
		LocalUfrag:       vgcUfrag(0),
		LocalPwd:         vgcPwd,
	})
	if err != nil {
		t.Fatal(err)
	}
	v.a = a
	_ = a.OnCandidate(func(c Candidate) {
		v.mu.Lock()
		defer v.mu.Unlock()
		if c == nil {
			v.cbs = append(v.cbs, fmt.Sprintf("n@%d", v.epoch))
		} else {
			v.cbs = append(v.cbs, fmt.Sprintf("c%d:%d@%d", vgcTag(c), c.Port(), v.epoch))
		}
	})
	bad := ""
	for _, s := range steps {
		switch {
		case s == "G":
			v.gather()
		case s == "R":
			v.restart()
		case s == "S":
			if g, err := a.GetGatheringState(); err != nil {
				v.tok("S!")
			} else {
				v.tok(fmt.Sprintf("S%d", map[GatheringState]int{GatheringStateNew: 0, GatheringStateGathering: 1, GatheringStateComplete: 2}[g]))
			}
		case s == "X":
			v.close(false)
		case s == "Y":
			v.close(true)
		case s == "L":
			v.release()
		case strings.HasPrefix(s, "A"):
			c, mode, found := strings.Cut(s[1:], ":")
			ci, err := strconv.Atoi(c)
			if !found || err != nil || !v.inject(ci, mode) {
				bad = s
			}
		default:
			bad = s
		}
		if bad != "" {
			break
		}
		v.endStep()
	}
	// wind down: release every parked gatherer, close, wait for Close to return
	for {
		v.mu.Lock()
		n := len(v.gates)
		v.mu.Unlock()
		if n == 0 {
			break
		}
		v.release()
		v.endStep()
	}
	if !v.closed {
		v.close(false)
		v.endStep()
	}
	synctest.Wait()
	select {
	case <-v.closeDone:
		v.mu.Lock()
		v.out = append(v.out, "Z"+vgfIDs(v.openLocked()))
		v.mu.Unlock()
	default:
		v.out = append(v.out, "Z!")
	}
	if bad != "" {
		return "bad-op step " + bad
	}

	return strings.Join(v.out, " ")
}

// vgfExec: the script <rounds> times; the sorted set of distinct observations.
func vgfExec(nIf, rounds int, steps []string) string {
	seen := map[string]bool{}
	ok := vnWithT(func(t *testing.T) {
		for i := 0; i < rounds; i++ {
			var obs string
			synctest.Test(t, func(t *testing.T) { obs = vgfScript(t, nIf, steps) })
			seen[obs] = true
		}
	})
	if !ok {
		panic("gatherforce: synctest scenario failed")
	}
	all := make([]string, 0, len(seen))
	for o := range seen {
		all = append(all, o)
	}
	sort.Strings(all)

	return strings.Join(all, " | ")
}

// vgfGenScript: a random script.  The generator tracks just enough (open?, gathering state New?, which cycles are
// parked, which of them are cancelled) to offer candidates only to parked cycles and to aim hooks at live ones.
func vgfGenScript(r *vRand, o *vOut) string {
	var steps []string
	closed, isNew := false, true
	type cyc struct{ parked, live bool }
	var cycles []cyc
	parkedIdx := func(liveOnly bool) []int {
		var l []int
		for i, c := range cycles {
			if c.parked && (!liveOnly || (c.live && !closed)) {
				l = append(l, i)
			}
		}

		return l
	}
	cancelAll := func() {
		for i := range cycles {
			cycles[i].live = false
		}
	}
	doG := func() {
		if !closed && isNew {
			cancelAll()
			cycles = append(cycles, cyc{parked: true, live: true})
			isNew = false
		}
	}
	doR := func() {
		if !closed {
			cancelAll()
			isNew = true
		}
	}
	steps = append(steps, "G")
	doG()
	nSteps := 3 + r.intn(8)
	for i := 0; i < nSteps; i++ {
		switch k := r.intn(16); {
		case k < 7: // a scripted gatherer
			live := parkedIdx(true)
			all := parkedIdx(false)
			if len(all) == 0 {
				steps = append(steps, "G")
				doG()

				continue
			}
			c := all[r.intn(len(all))]
			if len(live) > 0 && r.chance(4, 5) {
				c = live[r.intn(len(live))]
			}
			mode := []string{"r", "r", "r", "q", "q", "x", "p", "p", "2r", "2q", "2x", "2p", "22r", "2p"}[r.intn(14)]
			if closed || !cycles[c].live {
				o.stat("gatherforce.offer-to-cancelled-cycle")
			} else if mode != "p" && mode != "2p" {
				o.stat("gatherforce.forced-between-check-and-handoff")
			}
			steps = append(steps, fmt.Sprintf("A%d:%s", c, mode))
			switch mode[len(mode)-1] {
			case 'r':
				doR()
			case 'q':
				doR()
				doG()
			case 'x':
				closed = true
			}
		case k < 9:
			steps = append(steps, "G")
			doG()
		case k < 11:
			steps = append(steps, "R")
			doR()
		case k < 13:
			steps = append(steps, "L")
			for i := range cycles {
				if cycles[i].parked {
					cycles[i].parked = false

					break
				}
			}
		case k < 15:
			steps = append(steps, "S")
		default:
			if !closed && r.chance(1, 2) {
				steps = append(steps, []string{"X", "Y"}[r.intn(2)])
				closed = true
			} else {
				steps = append(steps, "S")
			}
		}
	}

	return strings.Join(steps, " ")
}

func init() {
	vComponents["gatherforce"] = &vComp{
		gen: func(o *vOut, r *vRand, thorough bool, args []string, emit func(op string)) {
			n, rounds := 150, 40
			if thorough {
				n, rounds = 4000, 48
			}
			for i := 0; i < n; i++ {
				emit(fmt.Sprintf("gatherforce run %d %d %s", r.intn(3), rounds, vgfGenScript(r.fork(), o)))
			}
		},
		exec: func(o *vOut, toks []string) string {
			if len(toks) < 4 || toks[1] != "run" {
				return "bad-op"
			}
			nIf, err1 := strconv.Atoi(toks[2])
			rounds, err2 := strconv.Atoi(toks[3])
			if err1 != nil || err2 != nil || nIf < 0 || nIf > 3 || rounds < 1 || rounds > 1000 {
				return "bad-op args"
			}

			return vgfExec(nIf, rounds, toks[4:])
		},
	}
}
