//go:build verif

package ice

import (
	"bytes"
	"encoding/hex"
	"errors"
	"fmt"
	"strconv"
	"strings"

	"github.com/pion/stun/v3"
)

// C16: the ICE STUN attribute codecs (see lean/Driver/AttrCodec.lean for the operation vocabulary).
// Every message is built, written to bytes and decoded again, so the attribute value passes through
// pion/stun's TLV encoding and padding.
func init() { vComponents["attr"] = &vComp{gen: vAttrGen, exec: vAttrExec} }

var vAttrTypes = map[string]stun.AttrType{
	"prio": stun.AttrPriority, "ctlg": stun.AttrICEControlling, "ctld": stun.AttrICEControlled,
	"rolg": stun.AttrICEControlling, "rold": stun.AttrICEControlled,
	"use": stun.AttrUseCandidate, "nom": DefaultNominationAttribute, "dtls": stun.AttrDtlsInStun, "ack": stun.AttrDtlsInStunAck,
}

func vAttrWire(m *stun.Message) (*stun.Message, error) {
	m.WriteHeader()
	m2 := &stun.Message{Raw: append([]byte{}, m.Raw...)}

	return m2, m2.Decode()
}

func vAttrErr(err error) string {
	switch {
	case errors.Is(err, stun.ErrAttributeSizeInvalid):
		return "err:size"
	case errors.Is(err, stun.ErrAttributeNotFound):
		return "err:notfound"
	}

	return "err:other"
}

func vAttrNums(l []uint32) string {
	if len(l) == 0 {
		return "-"
	}
	p := make([]string, len(l))
	for i, v := range l {
		p[i] = strconv.FormatUint(uint64(v), 10)
	}

	return strings.Join(p, ",")
}

// vAttrGet decodes attribute `kind` from m: "<value>" or "err:…".
func vAttrGet(kind string, m *stun.Message) string {
	switch kind {
	case "prio":
		var p PriorityAttr
		if err := p.GetFrom(m); err != nil {
			return vAttrErr(err)
		}

		return strconv.FormatUint(uint64(p), 10)
	case "ctlg":
		var c AttrControlling
		if err := c.GetFrom(m); err != nil {
			return vAttrErr(err)
		}

		return strconv.FormatUint(uint64(c), 10)
	case "ctld":
		var c AttrControlled
		if err := c.GetFrom(m); err != nil {
			return vAttrErr(err)
		}

		return strconv.FormatUint(uint64(c), 10)
	case "rolg", "rold":
		var c AttrControl
		if err := c.GetFrom(m); err != nil {
			return vAttrErr(err)
		}
		if (kind == "rolg") != (c.Role == Controlling) {
			return "wrong-role"
		}

		return strconv.FormatUint(c.Tiebreaker, 10)
	case "use":
		if UseCandidate().IsSet(m) {
			return "-"
		}

		return "err:notfound"
	case "nom":
		var n NominationAttribute
		if err := n.GetFrom(m); err != nil {
			return vAttrErr(err)
		}

		return strconv.FormatUint(uint64(n.Value), 10)
	case "dtls":
		var d DtlsInStunAttribute
		if err := d.GetFrom(m); err != nil {
			return vAttrErr(err)
		}
		stale := DtlsInStunAttribute(bytes.Repeat([]byte{0xaa}, 300))
		if err := stale.GetFrom(m); err != nil {
			return "recv-dependent:ok|" + vAttrErr(err)
		}
		if !bytes.Equal(stale, d) {
			return "recv-dependent:h" + hex.EncodeToString(d) + "|h" + hex.EncodeToString(stale)
		}

		return "h" + hex.EncodeToString(d)
	case "ack":
		var a DtlsInStunAckAttribute
		if err := a.GetFrom(m); err != nil {
			return vAttrErr(err)
		}
		// the decoded value must not depend on what the receiver held before (a reused receiver variable)
		stale := DtlsInStunAckAttribute{0xdeadbeef, 0x5060708, 0x90a0b0c, 1, 2, 3, 4, 5, 6, 7, 8, 9}
		if err := stale.GetFrom(m); err != nil {
			return "recv-dependent:ok|" + vAttrErr(err)
		}
		if vAttrNums(stale) != vAttrNums(a) {
			return "recv-dependent:" + vAttrNums(a) + "|" + vAttrNums(stale)
		}

		return vAttrNums(a)
	}

	return "bad-kind"
}

func vAttrExec(o *vOut, t []string) string {
	if len(t) < 3 {
		return "bad-op"
	}
	kind := t[2]
	at, ok := vAttrTypes[kind]
	if !ok {
		return "bad-op"
	}
	switch {
	case t[1] == "rt" && len(t) == 4:
		var s stun.Setter
		switch kind {
		case "prio":
			v, err := strconv.ParseUint(t[3], 10, 32)
			if err != nil {
				return "bad-op"
			}
			s = PriorityAttr(v)
		case "ctlg", "ctld", "rolg", "rold":
			v, err := strconv.ParseUint(t[3], 10, 64)
			if err != nil {
				return "bad-op"
			}
			switch kind {
			case "ctlg":
				s = AttrControlling(v)
			case "ctld":
				s = AttrControlled(v)
			case "rolg":
				s = AttrControl{Role: Controlling, Tiebreaker: v}
			default:
				s = AttrControl{Role: Controlled, Tiebreaker: v}
			}
		case "use":
			s = UseCandidate()
		case "nom":
			v, err := strconv.ParseUint(t[3], 10, 32)
			if err != nil {
				return "bad-op"
			}
			s = Nomination(uint32(v))
		case "dtls":
			b, err := hex.DecodeString(strings.TrimPrefix(t[3], "h"))
			if err != nil {
				return "bad-op"
			}
			s = DtlsInStunAttribute(b)
		case "ack":
			var l []uint32
			if t[3] != "-" {
				for _, p := range strings.Split(t[3], ",") {
					v, err := strconv.ParseUint(p, 10, 32)
					if err != nil {
						return "bad-op"
					}
					l = append(l, uint32(v))
				}
			}
			s = DtlsInStunAckAttribute(l)
		}
		m, err := stun.Build(stun.TransactionID, stun.BindingRequest, s)
		if err != nil {
			o.stat("rt." + kind + ".enc-err")
			return "enc-" + vAttrErr(err)
		}
		direct, err := m.Get(at)
		if err != nil {
			return "enc-lost"
		}
		m2, err := vAttrWire(m)
		if err != nil {
			return "wire-err"
		}
		w, err := m2.Get(at)
		if err != nil || hex.EncodeToString(w) != hex.EncodeToString(direct) {
			return "wire-diff"
		}
		o.stat("rt." + kind)

		return "w=" + hex.EncodeToString(w) + " v=" + vAttrGet(kind, m2)
	case t[1] == "dec" && len(t) == 4:
		b, err := hex.DecodeString(strings.TrimPrefix(t[3], "h"))
		if err != nil {
			return "bad-op"
		}
		m, err := stun.Build(stun.TransactionID, stun.BindingRequest, stun.RawAttribute{Type: at, Value: b})
		if err != nil {
			return "build-err"
		}
		m2, err := vAttrWire(m)
		if err != nil {
			return "wire-err"
		}
		r := vAttrGet(kind, m2)
		st := "ok"
		if strings.HasPrefix(r, "err") {
			st = "err"
		}
		o.stat(fmt.Sprintf("dec.%s.len%d.%s", kind, min(len(b), 20), st))

		return r
	case t[1] == "absent" && len(t) == 3:
		m, _ := stun.Build(stun.TransactionID, stun.BindingRequest)
		m2, err := vAttrWire(m)
		if err != nil {
			return "wire-err"
		}
		o.stat("absent." + kind)

		return vAttrGet(kind, m2)
	}

	return "bad-op"
}

func vAttrGen(o *vOut, r *vRand, thorough bool, _ []string, emit func(string)) {
	kinds := []string{"prio", "ctlg", "ctld", "rolg", "rold", "use", "nom", "dtls", "ack"}
	for _, k := range kinds {
		emit("attr absent " + k)
	}
	b32 := []uint64{0, 1, 2, 127, 128, 255, 256, 257, 65535, 65536, 65537, 1<<24 - 1, 1 << 24, 1<<24 + 1, 1<<31 - 1, 1 << 31, 1<<32 - 2, 1<<32 - 1,
		0x01020304, 0xfffefdfc, 0x00ff00ff, 0xff00ff00, 0x80000000, 0x00800000, 0x00008000, 0x00000080}
	b64 := append(append([]uint64{}, b32...), 1<<32, 1<<32+1, 1<<40, 1<<48-1, 1<<56, 1<<63-1, 1<<63, 1<<64-2, 1<<64-1, 0x0102030405060708, 0xfffefdfcfbfaf9f8)
	n := 10000
	if thorough {
		n = 1000000
	}
	num := func(k string, v uint64) { emit(fmt.Sprintf("attr rt %s %d", k, v)) }
	for _, v := range b32 {
		num("prio", v)
		num("nom", v)
	}
	for _, v := range b64 {
		for _, k := range []string{"ctlg", "ctld", "rolg", "rold"} {
			num(k, v)
		}
	}
	emit("attr rt use -")
	rbytes := func(n int) []byte {
		b := make([]byte, n)
		for i := range b {
			switch r.intn(4) {
			case 0:
				b[i] = vPick(r, []byte{0, 1, 0x7f, 0x80, 0xff})
			default:
				b[i] = byte(r.intn(256))
			}
		}

		return b
	}
	for _, l := range []int{0, 1, 2, 3, 4, 5, 7, 8, 9, 15, 16, 17, 100, 1000, 1399} {
		emit("attr rt dtls h" + hex.EncodeToString(rbytes(l)))
	}
	ackList := func(n int) string {
		l := make([]uint32, n)
		for i := range l {
			if r.chance(1, 3) {
				l[i] = uint32(vPick(r, b32))
			} else {
				l[i] = uint32(r.next())
			}
		}

		return vAttrNums(l)
	}
	for l := 0; l <= 7; l++ {
		for j := 0; j < 4; j++ {
			emit("attr rt ack " + ackList(l))
		}
	}
	for i := 0; i < n; i++ {
		switch r.intn(6) {
		case 0:
			num("prio", r.next()&0xffffffff)
		case 1:
			v := r.next() & 0xffffffff
			if r.chance(3, 4) {
				v &= 0xffffff
			}
			num("nom", v)
		case 2:
			num(vPick(r, []string{"ctlg", "ctld", "rolg", "rold"}), r.next()>>uint(r.intn(64)))
		case 3:
			emit("attr rt dtls h" + hex.EncodeToString(rbytes(r.intn(40))))
		default:
			emit("attr rt ack " + ackList(r.intn(7)))
		}
	}
	// decoding: every length 0..24 for every kind (boundary contents, then random), and long values
	for _, k := range kinds {
		for l := 0; l <= 24; l++ {
			for _, fill := range []byte{0, 0xff, 0x80, 1} {
				emit("attr dec " + k + " h" + hex.EncodeToString([]byte(strings.Repeat(string([]byte{fill}), l))))
			}
			for j := 0; j < 6; j++ {
				emit("attr dec " + k + " h" + hex.EncodeToString(rbytes(l)))
			}
		}
		for _, l := range []int{32, 64, 100, 1000} {
			emit("attr dec " + k + " h" + hex.EncodeToString(rbytes(l)))
		}
	}
	for i := 0; i < n; i++ {
		k := vPick(r, kinds)
		l := r.intn(22)
		if r.chance(1, 2) {
			l = vPick(r, []int{0, 3, 4, 5, 7, 8, 9, 12, 15, 16, 17, 20})
		}
		emit("attr dec " + k + " h" + hex.EncodeToString(rbytes(l)))
	}
}
