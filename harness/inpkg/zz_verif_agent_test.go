//go:build verif && go1.25

package ice

// Component "agent": one or two REAL agents over an in-memory datagram hub, run inside a
// testing/synctest bubble (virtual clock, deterministic timers).  Every operation is followed by
// synctest.Wait(), then the public/inspectable state of each agent is printed as one canonical line
// that the Lean model (IceModel.AgentCore / Sys2 via Driver/AgentDrv.lean) must reproduce exactly.
//
// ops (tokens after "agent"):
//   new <cfgA> <cfgB|->        cfg = k=v,...: lite max disc fail ka ci hw sw pw rw (ms) renom ucp blk=a+b tb u p tcp (1 = tcp4/tcp6 among the agent's network types)
//     auto=<ms>: WithAutomaticRenomination(ms) (0 = the default interval of 3 s); independent of renom=1, which gives the
//     agent a COUNTER as its nomination-value generator (1, 2, 3, ... - the values the automatic check issues; an explicit
//     `renom` op substitutes its own value for that one call and does not move the counter).
//   digest: every pair ends with :t<current round-trip time in ns>/<time of the last matched response, ms|->;
//     every agent ends with ;ar=<lastRenominationTime, ms|->/<values drawn from the counter so far>.
//   addlocal  <A|B> <ty> <net> <addr> <prio> <rel|->      addremote <A|B> <ty> <net> <addr> <prio> <rel|-> [form]
//     form (default 0): spelling of the address literal the remote candidate is signalled with: 0 = canonical,
//     1 = another literal of the same address (udp4: IPv4-mapped "::ffff:10.0.0.3"; udp6: expanded "fd00:0:0:0:0:0:0:3").
//     The digest marks a remote candidate whose Address() is not the canonical literal with "~1" after its address id.
//   start <A|B> <ctl> <ru> <rp>    creds <A|B> <ru> <rp>   adv <ms>   deliver|drop|dup <k>
//   inject <A|B> <localAddr> <src> <msgspec>   data <A|B> <localAddr> <src> <len> <stunlike>
//   flood <A|B> <localAddr> <src> <len> <count>  (count payload datagrams in one op, nobody reading: receive-buffer overflow)
//   write <A|B> <len> <stunlike>   writepair <A|B> <id> <len> <stunlike>   read <A|B> [cap]   (cap = size of the caller's buffer; absent = receiveMTU)
//   renom <A|B> <laddr> <ridx> <value>   restart <A|B> <u> <p>   close <A|B>   nat <src> <mapped>   block <src> <dst>   mark <label>   end
// address id k: ip id k/16, port 5000+k%16; net 0 = udp4 (10.0.0.<ip+1>), 1 = udp6 (fd00::<ip+1>), 2 = tcp4, 3 = tcp6.
// Address ids name TRANSPORT addresses: 1048576+k is the TCP transport address with the ip and port of k (a TCP
// candidate's id always carries the offset: the ops' ids are reduced mod 1048576 and re-tagged by the network).
// addlocal ... <rel|-> [tt]   addremote ... <rel|-> [form [tt]]   tt = tcptype a|p|s|- ; the digest marks it ^a ^p ^s.
// addremote goes through the PUBLIC AddRemoteCandidate (which ignores tcptype active).
// credentials are tokens (u, p); the real strings are tok+"_ufrag" / tok+"_password_0123456789abcd"; "_" = empty.

import (
	"bytes"
	"context"
	"fmt"
	"io"
	"net"
	"net/netip"
	"sort"
	"strconv"
	"strings"
	"sync"
	"sync/atomic"
	"testing"
	"testing/synctest"
	"time"

	"github.com/pion/stun/v3"
	"github.com/pion/transport/v4"
)

var vT *testing.T

func init() { vComponents["agent"] = &vComp{genR: vAgentGen, exec: vAgentExec} }

// ---- addresses and credentials ----

// Address ids name TRANSPORT addresses: ids below vTCPBase are UDP (ip id k/16, port 5000+k%16), the id
// vTCPBase+k is the TCP transport address with the same ip and port.  net 0/1 = udp4/udp6, 2/3 = tcp4/tcp6.
const vTCPBase = 1 << 20

func vAddr(net0 int, k int) *net.UDPAddr {
	k %= vTCPBase
	ip := k / 16
	port := vSlotPort(k % 16)
	if net0&1 == 1 {
		return &net.UDPAddr{IP: net.ParseIP(fmt.Sprintf("fd00::%x", ip+1)), Port: port}
	}
	return &net.UDPAddr{IP: net.IPv4(10, 0, byte(ip/250), byte(ip%250+1)), Port: port}
}

func vAddrID(ap netip.AddrPort) int {
	a := ap.Addr().Unmap()
	var ip int
	if a.Is4() {
		b := a.As4()
		ip = int(b[2])*250 + int(b[3]) - 1
	} else {
		b := a.As16()
		ip = int(b[14])<<8 + int(b[15]) - 1
	}
	return ip*16 + vPortSlot(int(ap.Port()))
}

// slots 0..15 of an address id map to ports; slot 2 is the LARGEST port and slot 3 the smallest, the others 5000+slot
func vSlotPort(slot int) int {
	switch slot {
	case 2:
		return 65535
	case 3:
		return 1
	}
	return 5000 + slot
}

func vPortSlot(port int) int {
	switch port {
	case 65535:
		return 2
	case 1:
		return 3
	}
	return port - 5000
}

func vUDPAddrID(u *net.UDPAddr) int { return vAddrID(u.AddrPort()) }

// vNetAddr: the net.Addr of address id k on network net0 (*net.TCPAddr for tcp4/tcp6).
func vNetAddr(net0, k int) net.Addr {
	u := vAddr(net0, k)
	if net0 >= 2 {
		return &net.TCPAddr{IP: u.IP, Port: u.Port}
	}
	return u
}

// vNetAddrID: the address id (transport included) of a hub address.
func vNetAddrID(a net.Addr) int {
	switch x := a.(type) {
	case *net.TCPAddr:
		return vTCPBase + vAddrID(x.AddrPort())
	case *net.UDPAddr:
		return vAddrID(x.AddrPort())
	}
	return -1
}

// vNetOf: network index 0..3 of a hub address.
func vNetOf(a net.Addr) int {
	n := 0
	var ip net.IP
	switch x := a.(type) {
	case *net.TCPAddr:
		n, ip = 2, x.IP
	case *net.UDPAddr:
		ip = x.IP
	}
	if ip.To4() == nil {
		n++
	}
	return n
}

func vIsTCP(a net.Addr) bool { _, ok := a.(*net.TCPAddr); return ok }

func vKey(a net.Addr) string { return a.Network() + "/" + a.String() }

// vCandID: the address id of a candidate (transport included).
func vCandID(c Candidate) int {
	id := vAddrID(c.addrPort())
	if c.NetworkType().IsTCP() {
		id += vTCPBase
	}
	return id
}

func vTT(tok string) TCPType {
	switch tok {
	case "a":
		return TCPTypeActive
	case "p":
		return TCPTypePassive
	case "s":
		return TCPTypeSimultaneousOpen
	}
	return TCPTypeUnspecified
}

func vTTMark(c Candidate) string {
	switch c.TCPType() {
	case TCPTypeActive:
		return "^a"
	case TCPTypePassive:
		return "^p"
	case TCPTypeSimultaneousOpen:
		return "^s"
	}
	return ""
}

var vNetTypes = []NetworkType{NetworkTypeUDP4, NetworkTypeUDP6, NetworkTypeTCP4, NetworkTypeTCP6}

const vUfragSuffix, vPwdSuffix = "_ufrag", "_password_0123456789abcd"

func vTok(s string) string {
	if s == "_" {
		return ""
	}
	return s
}
func vUfrag(t string) string {
	if t = vTok(t); t == "" {
		return ""
	}
	return t + vUfragSuffix
}
func vPwd(t string) string {
	if t = vTok(t); t == "" {
		return ""
	}
	return t + vPwdSuffix
}
func vUntok(s, suffix string) string {
	if s == "" {
		return "_"
	}
	return strings.TrimSuffix(s, suffix)
}

// ---- hub ----

type vDgram struct {
	from, to net.Addr
	data     []byte
}

type vEP struct {
	h      *vHub
	owner  *vAgentH
	addr   net.Addr
	ch     chan vDgram
	closed chan struct{}
	once   sync.Once
}

func (c *vEP) ReadFrom(b []byte) (int, net.Addr, error) {
	select {
	case d := <-c.ch:
		return copy(b, d.data), d.from, nil
	case <-c.closed:
		return 0, nil, io.EOF
	}
}

func (c *vEP) WriteTo(b []byte, a net.Addr) (int, error) {
	select {
	case <-c.closed:
		return 0, io.ErrClosedPipe
	default:
	}
	if vNetAddrID(a) < 0 {
		return 0, fmt.Errorf("bad addr")
	}
	// a socket only talks over its own transport: the real TCP conns resolve the destination by its String()
	// (tcpPacketConn) or ignore it (activeTCPConn), whatever net.Addr type the candidate carries — srflx and
	// relay candidates always carry a *net.UDPAddr, also on tcp4/tcp6
	if vIsTCP(c.addr) != vIsTCP(a) {
		a = vNetAddr(vNetOf(c.addr)/2*2+vNetOf(a)%2, vNetAddrID(a))
	}
	c.owner.mu.Lock()
	c.owner.outbox = append(c.owner.outbox, vDgram{c.addr, a, append([]byte{}, b...)})
	c.owner.mu.Unlock()
	return len(b), nil
}
func (c *vEP) Close() error {
	c.once.Do(func() {
		close(c.closed)
		c.h.mu.Lock()
		l := c.h.eps[vKey(c.addr)]
		for i, e := range l {
			if e == c {
				l = append(l[:i:i], l[i+1:]...)

				break
			}
		}
		if len(l) == 0 {
			delete(c.h.eps, vKey(c.addr))
		} else {
			c.h.eps[vKey(c.addr)] = l
		}
		c.h.mu.Unlock()
	})
	return nil
}
func (c *vEP) LocalAddr() net.Addr              { return c.addr }
func (c *vEP) SetDeadline(time.Time) error      { return nil }
func (c *vEP) SetReadDeadline(time.Time) error  { return nil }
func (c *vEP) SetWriteDeadline(time.Time) error { return nil }

type vHub struct {
	mu       sync.Mutex
	eps      map[string][]*vEP // endpoints per transport address in registration order: the FIRST open one receives
	inflight []vDgram
	nat      [][2]int
	blocked  map[[2]int]bool
}

type vNoNet struct{ transport.Net }

func (vNoNet) Interfaces() ([]*transport.Interface, error) { return nil, nil }

// ---- one agent under test ----

type vAgentH struct {
	letter  string
	a       *Agent
	conn    *Conn
	mu      sync.Mutex
	outbox  []vDgram
	cs      []string
	sp      []string
	ca      []string
	tids    map[[stun.TransactionIDSize]byte]string
	ntid    int
	started bool
	closed  bool
	nomCtr  uint32 // values drawn so far from the counter generator handed to WithRenomination
}

type vSession struct {
	hub    *vHub
	ag     map[string]*vAgentH
	epoch  time.Time
	pwds   map[string]bool // every password token seen in this session
	xtids  map[string][stun.TransactionIDSize]byte
	nprint int // number of in-flight datagrams already printed
}

type vReq struct {
	toks []string
	resp chan string
}

var (
	vSessIn   chan vReq
	vSessDone chan string
)

func vKvs(s string) map[string]string {
	m := map[string]string{}
	for _, kv := range strings.Split(s, ",") {
		if i := strings.IndexByte(kv, '='); i > 0 {
			m[kv[:i]] = kv[i+1:]
		}
	}
	return m
}

func vMs(m map[string]string, k string, def int) time.Duration {
	if v, ok := m[k]; ok {
		n, _ := strconv.Atoi(v)
		return time.Duration(n) * time.Millisecond
	}
	return time.Duration(def) * time.Millisecond
}

// vNomAttr: the nomination attribute type of the current session (reset by `new` for agent A)
var vNomAttr = stun.AttrType(DefaultNominationAttribute)

func (s *vSession) newAgent(letter, cfg string) (*vAgentH, error) {
	m := vKvs(cfg)
	if letter == "A" {
		vNomAttr = stun.AttrType(DefaultNominationAttribute)
	}
	max := uint16(7)
	if v, ok := m["max"]; ok {
		n, _ := strconv.Atoi(v)
		max = uint16(n)
	}
	disc, fail, ka, ci := vMs(m, "disc", 5000), vMs(m, "fail", 25000), vMs(m, "ka", 2000), vMs(m, "ci", 200)
	hw, sw, pw, rw := vMs(m, "hw", 0), vMs(m, "sw", 500), vMs(m, "pw", 1000), vMs(m, "rw", 2000)
	c := &AgentConfig{
		NetworkTypes:                    []NetworkType{NetworkTypeUDP4, NetworkTypeUDP6},
		MulticastDNSMode:                MulticastDNSModeDisabled,
		Net:                             vNoNet{},
		Lite:                            m["lite"] == "1",
		MaxBindingRequests:              &max,
		FailedTimeout:                   &fail,
		KeepaliveInterval:               &ka,
		CheckInterval:                   &ci,
		HostAcceptanceMinWait:           &hw,
		SrflxAcceptanceMinWait:          &sw,
		PrflxAcceptanceMinWait:          &pw,
		RelayAcceptanceMinWait:          &rw,
		LocalUfrag:                      vUfrag(m["u"]),
		LocalPwd:                        vPwd(m["p"]),
		EnableUseCandidateCheckPriority: m["ucp"] == "1",
	}
	if _, ok := m["disc"]; ok {
		c.DisconnectedTimeout = &disc
	}
	if m["tcp"] == "1" {
		// ICE-TCP enabled: remote passive candidates get active local candidates per local interface address
		// (none here: vNoNet has no interfaces)
		c.NetworkTypes = append(c.NetworkTypes, NetworkTypeTCP4, NetworkTypeTCP6)
	}
	if c.Lite {
		c.CandidateTypes = []CandidateType{CandidateTypeHost}
	}
	if v, ok := m["blk"]; ok && v != "" {
		blocked := map[int]bool{}
		for _, x := range strings.Split(v, "+") {
			n, _ := strconv.Atoi(x)
			blocked[n] = true
		}
		c.RemoteIPFilter = func(ip net.IP) bool {
			ap, _ := netip.AddrFromSlice(ip)
			// like a deny-list of IPv4 prefixes, the filter knows the blocked addresses in their plain form only: the agent
			// has to hand it the unmapped address (as parseAddr does) whatever literal the peer signalled
			if ap.Is4In6() {
				return true
			}
			return !blocked[vAddrID(netip.AddrPortFrom(ap, 5000))/16]
		}
	}
	var opts []AgentOption
	if m["na"] == "1" {
		// both agents of the session (and the harness's own encoder / decoder) use a custom nomination attribute type
		vNomAttr = stun.AttrType(0x0030)
	}
	if vNomAttr != DefaultNominationAttribute {
		opts = append(opts, WithNominationAttribute(uint16(vNomAttr)))
	}
	h := &vAgentH{letter: letter, tids: map[[stun.TransactionIDSize]byte]string{}}
	if m["renom"] == "1" {
		// a counter, like DefaultNominationValueGenerator (called on the agent's task loop only)
		opts = append(opts, WithRenomination(func() uint32 { h.nomCtr++; return h.nomCtr }))
	}
	if v, ok := m["auto"]; ok {
		n, _ := strconv.Atoi(v)
		opts = append(opts, WithAutomaticRenomination(time.Duration(n)*time.Millisecond))
	}
	a, err := newAgentFromConfig(c, opts...)
	if err != nil {
		return nil, err
	}
	tb, _ := strconv.ParseUint(m["tb"], 10, 64)
	a.tieBreaker = tb
	h.a = a
	s.pwds[m["p"]] = true
	if err := a.OnConnectionStateChange(func(st ConnectionState) { h.mu.Lock(); h.cs = append(h.cs, st.String()); h.mu.Unlock() }); err != nil {
		return nil, err
	}
	if err := a.OnSelectedCandidatePairChange(func(l, r Candidate) {
		h.mu.Lock()
		h.sp = append(h.sp, fmt.Sprintf("%d>%d", vCandID(l), vCandID(r)))
		h.mu.Unlock()
	}); err != nil {
		return nil, err
	}
	if err := a.OnCandidate(func(c Candidate) {
		h.mu.Lock()
		if c == nil {
			h.ca = append(h.ca, "nil")
		} else {
			h.ca = append(h.ca, fmt.Sprint(vCandID(c)))
		}
		h.mu.Unlock()
	}); err != nil {
		return nil, err
	}
	return h, nil
}

func vNet(n int) string {
	if n == 1 {
		return "udp6"
	}
	return "udp4"
}

// vLiteral: the address literal of form `form` for the address id (see the header comment).
func vLiteral(netw, addr, form int) string {
	ua := vAddr(netw, addr)
	if form == 0 {
		return ua.IP.String()
	}
	if netw&1 == 1 {
		return fmt.Sprintf("fd00:0:0:0:0:0:0:%x", (addr%vTCPBase)/16+1)
	}
	return "::ffff:" + ua.IP.String()
}

// vForm: 0 when the candidate's Address() is the canonical literal of its address, else 1.
func vForm(c Candidate) int {
	if c.Address() == canonicalAddr(c.addrPort().Addr()).String() {
		return 0
	}
	return 1
}

func vNewCand(ty, netw, addr, prio int, rel string) (Candidate, error) {
	return vNewCandFull(ty, netw, addr, prio, rel, 0, "-")
}

// vNewCandFull: candidate of type ty on network netw (0..3) at address id addr, signalled through literal form
// `form`, carrying tcptype tt (a/p/s/-).  Only the host constructor takes a TCPType; for the other types the
// tcptype is set the way a parsed SDP line sets it (the "tcptype" extension).
func vNewCandFull(ty, netw, addr, prio int, rel string, form int, tt string) (Candidate, error) {
	ua := vAddr(netw, addr)
	lit := vLiteral(netw, addr, form)
	nw := "udp"
	if netw >= 2 {
		nw = "tcp"
	}
	relAddr, relPort := "", 0
	if rel != "-" {
		if n, _ := strconv.Atoi(rel); n != 0 {
			ra := vAddr(netw, n)
			relAddr, relPort = ra.IP.String(), ra.Port
		}
	}
	var c Candidate
	var err error
	switch CandidateType(ty) {
	case CandidateTypeHost:
		return NewCandidateHost(&CandidateHostConfig{Network: nw, Address: lit, Port: ua.Port, Component: 1, Priority: uint32(prio), TCPType: vTT(tt)})
	case CandidateTypeServerReflexive:
		c, err = NewCandidateServerReflexive(&CandidateServerReflexiveConfig{Network: nw, Address: lit, Port: ua.Port, Component: 1, Priority: uint32(prio), RelAddr: relAddr, RelPort: relPort})
	case CandidateTypePeerReflexive:
		c, err = NewCandidatePeerReflexive(&CandidatePeerReflexiveConfig{Network: nw, Address: lit, Port: ua.Port, Component: 1, Priority: uint32(prio), RelAddr: relAddr, RelPort: relPort})
	case CandidateTypeRelay:
		c, err = NewCandidateRelay(&CandidateRelayConfig{Network: nw, Address: lit, Port: ua.Port, Component: 1, Priority: uint32(prio), RelAddr: relAddr, RelPort: relPort})
	default:
		return nil, fmt.Errorf("bad candidate type")
	}
	if err != nil {
		return nil, err
	}
	if v := vTT(tt); v != TCPTypeUnspecified {
		if err := c.AddExtension(CandidateExtension{Key: "tcptype", Value: v.String()}); err != nil {
			return nil, err
		}
	}
	return c, nil
}

// ---- STUN encode / decode to the canonical text ----

func (s *vSession) tidOf(tok string) ([stun.TransactionIDSize]byte, bool) {
	var id [stun.TransactionIDSize]byte
	if strings.HasPrefix(tok, "x") {
		if v, ok := s.xtids[tok]; ok {
			return v, true
		}
		n, _ := strconv.Atoi(tok[1:])
		copy(id[:], fmt.Sprintf("xtid%08d", n))
		s.xtids[tok] = id
		return id, true
	}
	for _, h := range s.ag {
		for raw, name := range h.tids {
			if name == tok {
				return raw, true
			}
		}
	}
	return id, false
}

func (s *vSession) buildMsg(spec string) ([]byte, error) {
	m := vKvs(spec)
	cls, _ := strconv.Atoi(m["cls"])
	method := 1
	if v, ok := m["m"]; ok {
		method, _ = strconv.Atoi(v)
	}
	classes := []stun.MessageClass{stun.ClassRequest, stun.ClassIndication, stun.ClassSuccessResponse, stun.ClassErrorResponse}
	tid, ok := s.tidOf(m["tid"])
	if !ok {
		// a canonical id that was never issued: use a fresh unknown one
		copy(tid[:], "neverissued!")
	}
	setters := []stun.Setter{stun.NewType(stun.Method(method), classes[cls%4]), stun.NewTransactionIDSetter(tid)}
	if u, ok := m["user"]; ok && u != "-" {
		parts := strings.Split(u, ":")
		for i := range parts {
			parts[i] = vUfrag(parts[i])
		}
		setters = append(setters, stun.NewUsername(strings.Join(parts, ":")))
	}
	if m["uc"] == "1" {
		setters = append(setters, UseCandidate())
	}
	tb, _ := strconv.ParseUint(m["tb"], 10, 64)
	switch m["role"] {
	case "c":
		setters = append(setters, AttrControlling(tb))
	case "d":
		setters = append(setters, AttrControlled(tb))
	case "cd", "dc":
		// BOTH role attributes in one message (tb goes with ICE-CONTROLLING, tb2 with ICE-CONTROLLED), in either order
		tb2, _ := strconv.ParseUint(m["tb2"], 10, 64)
		if m["role"] == "cd" {
			setters = append(setters, AttrControlling(tb), AttrControlled(tb2))
		} else {
			setters = append(setters, AttrControlled(tb2), AttrControlling(tb))
		}
	}
	if p, ok := m["prio"]; ok && p != "-" {
		n, _ := strconv.ParseUint(p, 10, 32)
		setters = append(setters, PriorityAttr(uint32(n)))
	}
	if v, ok := m["nom"]; ok && v != "-" {
		n, _ := strconv.ParseUint(v, 10, 32)
		setters = append(setters, NominationSetter{Value: uint32(n), AttrType: vNomAttr})
	}
	if v, ok := m["err"]; ok && v != "-" {
		n, _ := strconv.Atoi(v)
		setters = append(setters, stun.ErrorCodeAttribute{Code: stun.ErrorCode(n), Reason: []byte("x")})
	}
	if k, ok := m["key"]; ok && k != "-" {
		s.pwds[k] = true
		setters = append(setters, stun.NewShortTermIntegrity(vPwd(k)))
	}
	// attributes placed AFTER MESSAGE-INTEGRITY (not covered by the HMAC; RFC 5389 says they must be ignored)
	if strings.Contains(m["post"], "uc") {
		setters = append(setters, UseCandidate())
	}
	if m["fp"] != "0" {
		setters = append(setters, stun.Fingerprint)
	}
	msg, err := stun.Build(setters...)
	if err != nil {
		return nil, err
	}
	return msg.Raw, nil
}

func (s *vSession) describe(h *vAgentH, d vDgram) string {
	pre := fmt.Sprintf("%d>%d:", vNetAddrID(d.from), vNetAddrID(d.to))
	if !stun.IsMessage(d.data) {
		return pre + fmt.Sprintf("DATA:%d", len(d.data))
	}
	m := &stun.Message{Raw: append([]byte{}, d.data...)}
	if err := m.Decode(); err != nil {
		return pre + "UNDECODABLE"
	}
	name, ok := "", false
	for _, g := range s.ag {
		if n, has := g.tids[m.TransactionID]; has {
			name, ok = n, true
		}
	}
	if !ok {
		for tok, raw := range s.xtids {
			if raw == m.TransactionID {
				name, ok = tok, true
			}
		}
	}
	if !ok {
		h.ntid++
		name = fmt.Sprintf("%s#%d", h.letter, h.ntid)
		h.tids[m.TransactionID] = name
	}
	key := "-"
	if m.Contains(stun.AttrMessageIntegrity) {
		key = "?"
		toks := make([]string, 0, len(s.pwds))
		for t := range s.pwds {
			toks = append(toks, t)
		}
		sort.Strings(toks)
		for _, t := range toks {
			if stun.MessageIntegrity([]byte(vPwd(t))).Check(m) == nil {
				key = t
				if key == "" {
					key = "_"
				}
				break
			}
		}
	}
	if m.Type.Method != stun.MethodBinding {
		return pre + fmt.Sprintf("OTHER:%s", name)
	}
	switch m.Type.Class {
	case stun.ClassRequest:
		user := "-"
		var u stun.Username
		if u.GetFrom(m) == nil {
			parts := strings.Split(u.String(), ":")
			for i := range parts {
				parts[i] = vUntok(parts[i], vUfragSuffix)
				if parts[i] == "_" {
					parts[i] = ""
				}
			}
			user = strings.Join(parts, ":")
		}
		prio := "-"
		var p PriorityAttr
		if p.GetFrom(m) == nil {
			prio = fmt.Sprint(uint32(p))
		}
		role := "-"
		var ac AttrControl
		if ac.GetFrom(m) == nil {
			if ac.Role == Controlling {
				role = fmt.Sprintf("c%d", ac.Tiebreaker)
			} else {
				role = fmt.Sprintf("d%d", ac.Tiebreaker)
			}
		}
		nom := "-"
		var na NominationAttribute
		if na.GetFromWithType(m, vNomAttr) == nil {
			nom = fmt.Sprint(na.Value)
		}
		uc := 0
		if m.Contains(stun.AttrUseCandidate) {
			uc = 1
		}
		return pre + fmt.Sprintf("REQ:%s:u=%s:k=%s:p=%s:uc=%d:role=%s:nom=%s", name, user, key, prio, uc, role, nom)
	case stun.ClassSuccessResponse:
		return pre + fmt.Sprintf("SUC:%s:k=%s", name, key)
	case stun.ClassErrorResponse:
		code := "-"
		var ec stun.ErrorCodeAttribute
		if ec.GetFrom(m) == nil {
			code = fmt.Sprint(int(ec.Code))
		}
		return pre + fmt.Sprintf("ERR:%s:k=%s:e=%s", name, key, code)
	}
	return pre + fmt.Sprintf("IND:%s", name)
}

// ---- observation ----

func vMsSince(epoch time.Time, t time.Time) string {
	if t.IsZero() {
		return "-"
	}
	return fmt.Sprint(t.Sub(epoch).Milliseconds())
}

func (s *vSession) digest(h *vAgentH) string {
	a := h.a
	var b strings.Builder
	st, ctl, sel := "", 0, "-"
	var pairs, rem, loc []string
	pend := 0
	ar := "-/0"
	snapshot := func() {
		ar = fmt.Sprintf("%s/%d", vMsSince(s.epoch, a.lastRenominationTime), h.nomCtr)
		st = a.connectionState.String()
		if a.isControlling.Load() {
			ctl = 1
		}
		if sp := a.getSelectedPair(); sp != nil {
			sel = fmt.Sprint(sp.id)
		}
		if !h.closed {
			for _, p := range a.checklist {
				n, d := 0, 0
				if p.nominated {
					n = 1
				}
				if p.nominateOnBindingSuccess {
					d = 1
				}
				stc := map[CandidatePairState]string{CandidatePairStateWaiting: "w", CandidatePairStateInProgress: "i", CandidatePairStateFailed: "f", CandidatePairStateSucceeded: "s"}[p.state]
				dv := "-"
				if p.deferredNominationValue != nil {
					dv = fmt.Sprint(*p.deferredNominationValue)
				}
				pairs = append(pairs, fmt.Sprintf("%d:%d>%d:%d:%s:n%dd%dv%s:c%d:p%d:q%d/%d/%d/%d:k%d/%d/%d/%d:t%d/%s", p.id,
					vCandID(p.Local), vCandID(p.Remote), p.Remote.Type(), stc, n, d, dv, p.bindingRequestCount, p.priority(),
					p.RequestsSent(), p.RequestsReceived(), p.ResponsesSent(), p.ResponsesReceived(),
					p.PacketsSent(), p.PacketsReceived(), p.BytesSent(), p.BytesReceived(),
					atomic.LoadInt64(&p.currentRoundTripTime), vMsSince(s.epoch, p.LastResponseReceivedAt())))
			}
		}
		for ni, nt := range vNetTypes {
			for _, c := range a.remoteCandidates[nt] {
				rel := "-"
				if ra := c.RelatedAddress(); ra != nil {
					rel = "0"
					if ra.Address != "" {
						if ip, err := netip.ParseAddr(ra.Address); err == nil {
							rel = fmt.Sprint(vAddrID(netip.AddrPortFrom(ip, uint16(ra.Port))))
						}
					}
				}
				fm := ""
				if f := vForm(c); f != 0 {
					fm = fmt.Sprintf("~%d", f)
				}
				rem = append(rem, fmt.Sprintf("%d@%d.%d%s%s:p%d:r%s:lr%s", c.Type(), ni, vCandID(c), fm, vTTMark(c), c.Priority(), rel, vMsSince(s.epoch, c.LastReceived())))
			}
			for _, c := range a.localCandidates[nt] {
				loc = append(loc, fmt.Sprintf("%d@%d.%d%s:p%d:ls%s", c.Type(), ni, vCandID(c), vTTMark(c), c.Priority(), vMsSince(s.epoch, c.LastSent())))
			}
		}
		pend = len(a.pendingBindingRequests)
	}
	if err := a.loop.Run(a.loop, func(context.Context) { snapshot() }); err != nil {
		snapshot() // loop closed: no task can run any more, reading is safe
	}
	h.mu.Lock()
	cs, sp, ca := h.cs, h.sp, h.ca
	h.cs, h.sp, h.ca = nil, nil, nil
	h.mu.Unlock()
	var bs, br uint64
	if h.conn != nil {
		bs, br = h.conn.BytesSent(), h.conn.BytesReceived()
	}
	fmt.Fprintf(&b, "st=%s;ctl=%d;sel=%s;P[%s];R[%s];L[%s];cs[%s];sp[%s];ca[%s];bs=%d;br=%d;pend=%d;ar=%s", st, ctl, sel,
		strings.Join(pairs, ","), strings.Join(rem, ","), strings.Join(loc, ","),
		strings.Join(cs, ","), strings.Join(sp, ","), strings.Join(ca, ","), bs, br, pend, ar)
	return b.String()
}

func (s *vSession) render(res string) string {
	// merge outboxes: A's emissions first, then B's
	for _, l := range []string{"A", "B"} {
		if h := s.ag[l]; h != nil {
			h.mu.Lock()
			ob := h.outbox
			h.outbox = nil
			h.mu.Unlock()
			for _, d := range ob {
				s.hub.inflight = append(s.hub.inflight, d)
			}
		}
	}
	var outs []string
	for i := s.nprint; i < len(s.hub.inflight); i++ {
		d := s.hub.inflight[i]
		var owner *vAgentH
		for _, h := range s.ag {
			if h != nil {
				owner = h // fallback
			}
		}
		for _, h := range s.ag {
			if h != nil && s.ownerOf(d.from) == h {
				owner = h
			}
		}
		outs = append(outs, s.describe(owner, d))
	}
	s.nprint = len(s.hub.inflight)
	bd := "-"
	if s.ag["B"] != nil {
		bd = s.digest(s.ag["B"])
	}
	return "res=" + res + ";A{" + s.digest(s.ag["A"]) + "};B{" + bd + "};out[" + strings.Join(outs, "|") + "]"
}

// emittedBy remembers which agent a local address belonged to (endpoints may be closed by now).
var vAddrOwner = map[string]*vAgentH{}

func (s *vSession) ownerOf(a net.Addr) *vAgentH { return vAddrOwner[vKey(a)] }

func (s *vSession) removeInflight(k int) (vDgram, bool) {
	if k < 0 || k >= len(s.hub.inflight) {
		return vDgram{}, false
	}
	d := s.hub.inflight[k]
	s.hub.inflight = append(append([]vDgram{}, s.hub.inflight[:k]...), s.hub.inflight[k+1:]...)
	s.nprint--
	return d, true
}

func (s *vSession) handOver(d vDgram) {
	src, dst := vNetAddrID(d.from), vNetAddrID(d.to)
	if s.hub.blocked[[2]int{src, dst}] {
		return
	}
	netw := vNetOf(d.to)
	real := dst
	for _, m := range s.hub.nat {
		if m[1] == dst {
			real = m[0]
			break
		}
	}
	seen := src
	for _, m := range s.hub.nat {
		if m[0] == src {
			seen = m[1]
			break
		}
	}
	s.hub.mu.Lock()
	var ep *vEP
	if l := s.hub.eps[vKey(vNetAddr(netw, real))]; len(l) > 0 {
		// two local candidates at one transport address (e.g. a passive and an active TCP candidate): the one
		// added first receives, as the model's `localByAddr` takes the first; a closed one uncovers the next
		ep = l[0]
	}
	s.hub.mu.Unlock()
	if ep == nil || !ep.owner.started || ep.owner.closed {
		return
	}
	select {
	case ep.ch <- vDgram{vNetAddr(netw, seen), d.to, d.data}:
	case <-ep.closed:
	}
}

func vAtoi(s string) int { n, _ := strconv.Atoi(s); return n }

func (s *vSession) exec(t []string) string {
	ag := func(l string) *vAgentH { return s.ag[l] }
	switch t[0] {
	case "addlocal":
		h := ag(t[1])
		tt := "-"
		if len(t) > 7 {
			tt = t[7]
		}
		c, err := vNewCandFull(vAtoi(t[2]), vAtoi(t[3]), vAtoi(t[4]), vAtoi(t[5]), t[6], 0, tt)
		if err != nil {
			return s.render("err:cand")
		}
		ua := vNetAddr(vAtoi(t[3]), vAtoi(t[4]))
		if h.closed {
			return s.render("err:closed")
		}
		// the model reports "dup" for an Equal local candidate; the real addCandidate closes the new conn
		ep := &vEP{h: s.hub, owner: h, addr: ua, ch: make(chan vDgram, 4096), closed: make(chan struct{})}
		dup := false
		_ = h.a.loop.Run(h.a.loop, func(context.Context) {
			for _, e := range h.a.localCandidates[c.NetworkType()] {
				if e.Equal(c) {
					dup = true
				}
			}
		})
		if !dup {
			s.hub.mu.Lock()
			s.hub.eps[vKey(ua)] = append(s.hub.eps[vKey(ua)], ep)
			s.hub.mu.Unlock()
			vAddrOwner[vKey(ua)] = h
		}
		err = h.a.addCandidate(context.Background(), c, ep)
		synctest.Wait()
		if err != nil {
			return s.render("err:closed")
		}
		if dup {
			return s.render("dup")
		}
		return s.render("ok")
	case "addremote":
		h := ag(t[1])
		form := 0
		if len(t) > 7 {
			form = vAtoi(t[7])
		}
		tt := "-"
		if len(t) > 8 {
			tt = t[8]
		}
		c, err := vNewCandFull(vAtoi(t[2]), vAtoi(t[3]), vAtoi(t[4]), vAtoi(t[5]), t[6], form, tt)
		if err != nil {
			return s.render("err:cand")
		}
		if h.closed {
			_ = h.a.AddRemoteCandidate(c)
			synctest.Wait()
			return s.render("err:closed")
		}
		_ = h.a.AddRemoteCandidate(c)
		synctest.Wait()
		return s.render("-")
	case "start":
		h := ag(t[1])
		s.pwds[t[4]] = true
		conn, err := h.a.startConnect(t[2] == "1", vUfrag(t[3]), vPwd(t[4]))
		synctest.Wait()
		if err != nil {
			return s.render(vErr(err))
		}
		h.conn = conn
		h.started = true
		return s.render("ok")
	case "creds":
		h := ag(t[1])
		s.pwds[t[3]] = true
		err := h.a.SetRemoteCredentials(vUfrag(t[2]), vPwd(t[3]))
		synctest.Wait()
		return s.render(vErr(err))
	case "adv":
		time.Sleep(time.Duration(vAtoi(t[1])) * time.Millisecond)
		synctest.Wait()
		return s.render("-")
	case "deliver", "dup", "drop":
		k := vAtoi(t[1])
		if k >= 0 && k < len(s.hub.inflight) {
			d := s.hub.inflight[k]
			if t[0] != "dup" {
				s.removeInflight(k)
			}
			if t[0] != "drop" {
				s.handOver(d)
			}
		}
		synctest.Wait()
		return s.render("-")
	case "inject":
		h := ag(t[1])
		raw, err := s.buildMsg(t[4])
		if err != nil {
			return s.render("err:build")
		}
		la := vAtoi(t[2])
		var ep *vEP
		s.hub.mu.Lock()
		for _, l := range s.hub.eps {
			if len(l) > 0 && l[0].owner == h && vNetAddrID(l[0].addr) == la {
				ep = l[0] // the first open endpoint at the address receives (see handOver)
			}
		}
		s.hub.mu.Unlock()
		if ep != nil && h.started && !h.closed {
			ep.ch <- vDgram{vNetAddr(vNetOf(ep.addr), vAtoi(t[3])), ep.addr, raw}
		}
		synctest.Wait()
		return s.render("-")
	case "data":
		h := ag(t[1])
		la := vAtoi(t[2])
		var ep *vEP
		s.hub.mu.Lock()
		for _, l := range s.hub.eps {
			if len(l) > 0 && l[0].owner == h && vNetAddrID(l[0].addr) == la {
				ep = l[0] // the first open endpoint at the address receives (see handOver)
			}
		}
		s.hub.mu.Unlock()
		if ep != nil && h.started && !h.closed {
			ep.ch <- vDgram{vNetAddr(vNetOf(ep.addr), vAtoi(t[3])), ep.addr, vPayload(vAtoi(t[4]), t[5] == "1")}
		}
		synctest.Wait()
		return s.render("-")
	case "flood":
		// flood <A|B> <localAddr> <src> <len> <count>: `count` payload datagrams of `len` bytes from `src`, handed to the
		// local candidate one after the other with nobody reading (a stalled reader); one digest at the end
		h := ag(t[1])
		la := vAtoi(t[2])
		var ep *vEP
		s.hub.mu.Lock()
		for _, l := range s.hub.eps {
			if len(l) > 0 && l[0].owner == h && vNetAddrID(l[0].addr) == la {
				ep = l[0]
			}
		}
		s.hub.mu.Unlock()
		if ep != nil && h.started && !h.closed {
			n := vAtoi(t[5])
			if n > 4000 {
				n = 4000
			}
			from := vNetAddr(vNetOf(ep.addr), vAtoi(t[3]))
			for i := 0; i < n; i++ {
				ep.ch <- vDgram{from, ep.addr, vPayload(vAtoi(t[4]), false)}
				if i%512 == 511 {
					synctest.Wait() // keep the endpoint's channel (4096) from filling up
				}
			}
		}
		synctest.Wait()
		return s.render("-")
	case "write":
		h := ag(t[1])
		c := h.conn
		if c == nil {
			c = &Conn{agent: h.a}
			h.conn = c
		}
		n, err := c.Write(vPayload(vAtoi(t[2]), t[3] == "1"))
		synctest.Wait()
		if err != nil {
			return s.render(vErr(err))
		}
		return s.render(fmt.Sprintf("ok:%d", n))
	case "writepair":
		h := ag(t[1])
		c := h.conn
		if c == nil {
			c = &Conn{agent: h.a}
			h.conn = c
		}
		n, err := c.WriteToPair(uint64(vAtoi(t[2])), vPayload(vAtoi(t[3]), t[4] == "1"))
		synctest.Wait()
		if err != nil {
			return s.render(vErr(err))
		}
		return s.render(fmt.Sprintf("ok:%d", n))
	case "read":
		h := ag(t[1])
		c := h.conn
		if c == nil {
			c = &Conn{agent: h.a}
			h.conn = c
		}
		if h.closed {
			_, err := c.Read(make([]byte, 10))
			return s.render(vErr(err))
		}
		// non-blocking read: start the Read, let the bubble settle, and if it is still blocked (empty
		// buffer) release it through a read deadline in the past.  The caller's buffer has `cap` bytes
		// (default receiveMTU); a queued datagram longer than that comes back as (cap, io.ErrShortBuffer).
		bufLen := receiveMTU
		if len(t) > 2 {
			bufLen = vAtoi(t[2])
		}
		buf := make([]byte, bufLen)
		type rr struct {
			n   int
			err error
		}
		done := make(chan rr, 1)
		go func() { n, err := c.Read(buf); done <- rr{n, err} }()
		synctest.Wait()
		var r rr
		select {
		case r = <-done:
		default:
			_ = c.SetReadDeadline(time.Unix(1, 0))
			r = <-done
		}
		_ = c.SetReadDeadline(time.Time{})
		synctest.Wait()
		if r.err == io.ErrShortBuffer {
			return s.render(fmt.Sprintf("short:%d", r.n))
		}
		if r.err != nil {
			if r.n != 0 {
				return s.render(fmt.Sprintf("err+n:%d:%s", r.n, vErr(r.err)))
			}
			return s.render("empty")
		}
		return s.render(fmt.Sprintf("read:%d", r.n))
	case "renom":
		h := ag(t[1])
		var res string
		v := uint32(vAtoi(t[4]))
		var l, rc Candidate
		var counterGen func() uint32
		_ = h.a.loop.Run(h.a.loop, func(context.Context) {
			// this call's value is the op's; the agent's own generator (the counter, or nil) is put back afterwards
			counterGen = h.a.nominationValueGenerator
			h.a.nominationValueGenerator = func() uint32 { return v }
			for _, cs := range h.a.localCandidates {
				for _, c := range cs {
					if vCandID(c) == vAtoi(t[2]) && l == nil {
						l = c
					}
				}
			}
			var rs []Candidate
			for _, nt := range vNetTypes {
				rs = append(rs, h.a.remoteCandidates[nt]...)
			}
			if ri := vAtoi(t[3]); ri < len(rs) {
				rc = rs[ri]
			}
			// the API's own gates decide whenever both candidates exist; only a candidate the agent does not hold
			// (nil cannot be handed to the API) is answered here, in the API's order of tests
			if l == nil || rc == nil {
				if !h.a.isControlling.Load() {
					res = "err:notcontrolling"
				} else if !h.a.enableRenomination {
					res = "err:notenabled"
				} else {
					res = "err:notfound"
				}
			}
		})
		if res == "" && !h.closed {
			// the public API (it runs on the task loop itself)
			res = vErr(h.a.RenominateCandidate(l, rc))
		}
		_ = h.a.loop.Run(h.a.loop, func(context.Context) { h.a.nominationValueGenerator = counterGen })
		if h.closed {
			h.a.nominationValueGenerator = counterGen
		}
		synctest.Wait()
		if h.closed && res == "" {
			res = "err:closed"
		}
		return s.render(res)
	case "restart":
		h := ag(t[1])
		s.pwds[t[3]] = true
		err := h.a.Restart(vUfrag(t[2]), vPwd(t[3]))
		synctest.Wait()
		return s.render(vErr(err))
	case "close":
		h := ag(t[1])
		err := h.a.Close()
		h.closed = true
		synctest.Wait()
		return s.render(vErr(err))
	case "mark":
		// no-op marker for the spec monitors (e.g. "mark fairend": the fair loss-free suffix is over)
		return s.render("-")
	case "nat":
		s.hub.nat = append(s.hub.nat, [2]int{vAtoi(t[1]), vAtoi(t[2])})
		return s.render("ok")
	case "block":
		s.hub.blocked[[2]int{vAtoi(t[1]), vAtoi(t[2])}] = true
		return s.render("ok")
	}
	return "bad-op"
}

func vErr(err error) string {
	switch {
	case err == nil:
		return "ok"
	case err == ErrMultipleStart:
		return "err:multiplestart"
	case err == ErrRemoteUfragEmpty:
		return "err:ufragempty"
	case err == ErrRemotePwdEmpty:
		return "err:pwdempty"
	case err == errWriteSTUNMessageToIceConn:
		return "err:stun"
	case err == ErrNoCandidatePairs:
		return "err:nopairs"
	case err == ErrCandidatePairNotFound:
		return "err:notfound"
	case err == ErrCandidatePairNotSucceeded:
		return "err:notsucceeded"
	case err == ErrOnlyControllingAgentCanRenominate:
		return "err:notcontrolling"
	case err == ErrRenominationNotEnabled:
		return "err:notenabled"
	case strings.Contains(err.Error(), "closed"):
		return "err:closed"
	}
	return "err:" + strings.ReplaceAll(err.Error(), " ", "_")
}

func vPayload(n int, stunLike bool) []byte {
	b := bytes.Repeat([]byte{0x5a}, n)
	if stunLike {
		if n < 20 {
			b = bytes.Repeat([]byte{0x5a}, 20)
		}
		// "parses as STUN" is stun.IsMessage: 20 bytes or more with the magic cookie at offset 4 - whatever the first
		// bytes are (an RTP-looking 0x80, 0xff, …); the first two bytes vary with the length asked for
		b[0], b[1] = [...]byte{0x00, 0x01, 0x80, 0xff, 0x04, 0x40, 0x03, 0x7f}[n%8], byte(n)
		b[4], b[5], b[6], b[7] = 0x21, 0x12, 0xa4, 0x42
	}
	return b
}

// session goroutine: the bubble's root. It waits for operations on a channel created OUTSIDE the
// bubble (so the bubble's virtual clock does not advance while it waits).
func vRunSession(t *testing.T, cfgA, cfgB string, first chan string) {
	synctest.Test(t, func(t *testing.T) {
		s := &vSession{hub: &vHub{eps: map[string][]*vEP{}, blocked: map[[2]int]bool{}}, ag: map[string]*vAgentH{},
			epoch: time.Now(), pwds: map[string]bool{"": true}, xtids: map[string][stun.TransactionIDSize]byte{}}
		vAddrOwner = map[string]*vAgentH{}
		a, err := s.newAgent("A", cfgA)
		if err != nil {
			first <- "err:new:" + strings.ReplaceAll(err.Error(), " ", "_")
			return
		}
		s.ag["A"] = a
		if cfgB != "-" {
			b, err := s.newAgent("B", cfgB)
			if err != nil {
				_ = a.a.Close()
				first <- "err:new:" + strings.ReplaceAll(err.Error(), " ", "_")
				return
			}
			s.ag["B"] = b
		}
		synctest.Wait()
		first <- s.render("ok")
		for req := range vSessIn {
			if req.toks[0] == "end" {
				for _, h := range s.ag {
					if h != nil {
						_ = h.a.GracefulClose()
					}
				}
				synctest.Wait()
				req.resp <- "ended"
				return
			}
			res := func() (res string) {
				defer func() {
					if p := recover(); p != nil {
						res = "PANIC " + strings.NewReplacer("\t", " ", "\n", " ").Replace(fmt.Sprint(p))
					}
				}()
				return s.exec(req.toks)
			}()
			req.resp <- res
		}
	})
}

func vAgentExec(o *vOut, t []string) string {
	if len(t) < 2 {
		return "bad-op"
	}
	if t[1] == "new" {
		if vSessIn != nil {
			vEndSession()
		}
		vSessIn = make(chan vReq)
		vSessDone = make(chan string, 1)
		first := make(chan string, 1)
		in := vSessIn
		done := vSessDone
		cfgA, cfgB := t[2], "-"
		if len(t) > 3 {
			cfgB = t[3]
		}
		go func() {
			ok := vT.Run("session", func(t *testing.T) { vRunSession(t, cfgA, cfgB, first) })
			_ = in
			if !ok {
				select {
				case first <- "err:session-failed":
				default:
				}
				done <- "LEAK-OR-DEADLOCK"
			} else {
				done <- "ok"
			}
		}()
		o.stat("sessions")
		return <-first
	}
	if vSessIn == nil {
		return "bad-op no session"
	}
	if t[1] == "end" {
		return vEndSession()
	}
	o.stat("op." + t[1])
	resp := make(chan string, 1)
	select {
	case vSessIn <- vReq{t[1:], resp}:
		select {
		case r := <-resp:
			return r
		case r := <-vSessDone:
			vSessIn = nil
			return "SESSION-DIED " + r
		}
	case r := <-vSessDone:
		vSessIn = nil
		return "SESSION-DIED " + r
	}
}

func vEndSession() string {
	resp := make(chan string, 1)
	select {
	case vSessIn <- vReq{[]string{"end"}, resp}:
		<-resp
	case <-time.After(10 * time.Second):
	}
	close(vSessIn)
	vSessIn = nil
	select {
	case r := <-vSessDone:
		if r != "ok" {
			return "ended " + r
		}
		return "ended"
	case <-time.After(20 * time.Second):
		return "ended TIMEOUT"
	}
}
