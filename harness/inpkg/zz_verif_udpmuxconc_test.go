//go:build verif

// C12, tie A — concurrent acceptance recorder (component "udpmuxconc", thorough tier).
//
// Several goroutines call GetConn / WriteTo / Close / RemoveConnByUfrag on one real UDPMuxDefault while a feeder
// hands datagrams to the fake socket and one reader per muxed connection records what it receives. Every call and
// return is stamped from one atomic counter. After the run the events are emitted sorted by stamp; the Lean side
// (IceSpec.C12Conc) checks every received datagram against the recorded history.
package ice

import (
	"fmt"
	"net"
	"net/netip"
	"runtime"
	"sort"
	"strings"
	"sync"
	"sync/atomic"
	"time"
)

func init() {
	vComponents["udpmuxconc"] = &vComp{gen: vUmcGen, exec: vUmcExec}
}

type vUmcEvent struct {
	stamp int64
	line  string
	out   string
}

type vUmcSess struct {
	stamp  atomic.Int64
	mu     sync.Mutex
	events []vUmcEvent
	conns  map[*udpMuxedConn]int
	closed map[int]bool
	fed    map[string]int
	wg     sync.WaitGroup // readers
	ap     bool
}

func (s *vUmcSess) tick() int64 { return s.stamp.Add(1) }

func (s *vUmcSess) add(stamp int64, line string) {
	s.mu.Lock()
	s.events = append(s.events, vUmcEvent{stamp: stamp, line: line, out: "ok"})
	s.mu.Unlock()
}

// cid registers the connection (first sight) and starts its reader.
func (s *vUmcSess) cid(c *udpMuxedConn, ufrag string, v6 bool, call int64) int {
	s.mu.Lock()
	id, ok := s.conns[c]
	if !ok {
		id = len(s.conns)
		s.conns[c] = id
		f := 0
		if v6 {
			f = 1
		}
		s.events = append(s.events, vUmcEvent{stamp: call, line: fmt.Sprintf("udpmuxconc conn %d u:%s %d %d", id, ufrag, f, call), out: "ok"})
	}
	s.mu.Unlock()
	if !ok {
		s.wg.Add(1)
		go s.reader(c, id)
	}
	return id
}

func (s *vUmcSess) reader(c *udpMuxedConn, id int) {
	defer s.wg.Done()
	buf := make([]byte, receiveMTU)
	for {
		var n int
		var src string
		var err error
		if s.ap {
			ap, e := netipRead(c, buf, &n)
			err = e
			if e == nil {
				src = vUmTokenOfAddrPort(ap)
			}
		} else {
			var addr net.Addr
			n, addr, err = c.ReadFrom(buf)
			if err == nil {
				if u, ok := addr.(*net.UDPAddr); ok && u != nil {
					src = vUmTokenOfUDPAddr(u)
				} else {
					src = "nosrc"
				}
			}
		}
		if err != nil {
			return
		}
		st := s.tick()
		s.mu.Lock()
		pid, ok := s.fed[string(buf[:n])]
		s.mu.Unlock()
		p := fmt.Sprintf("%d", pid)
		if !ok {
			p = "corrupt"
		}
		s.add(st, fmt.Sprintf("udpmuxconc read %d %s %s %d", id, p, src, st))
	}
}

// noteClosed records "closed by stamp st" with a stamp taken AFTER the connection was seen closed.
func (s *vUmcSess) noteClosed(c *udpMuxedConn) {
	if !c.isClosed() {
		return
	}
	st := s.tick()
	s.mu.Lock()
	id, ok := s.conns[c]
	first := ok && !s.closed[id]
	if first {
		s.closed[id] = true
		s.events = append(s.events, vUmcEvent{stamp: st, line: fmt.Sprintf("udpmuxconc closed %d %d", id, st), out: "ok"})
	}
	s.mu.Unlock()
}

var vUmcRemotes = []string{
	"4,168361985,5000",
	"6,0,281470850105345,-,5000", // same transport address, IPv4-mapped
	"4,168361986,5000",
	"6,2306139568115548160,5,-,6000",
	"6,2306139568115548160,5,e0,6000", // same transport address, zone ignored
}

var vUmcLocals = []string{"4,167772161,7000", "6,2306139568115548160,1,-,7000"}

// one session: returns the event lines sorted by stamp
func vUmcRun(r *vRand, ap bool, procs int, actors, opsPer, feeds int) []vUmcEvent {
	old := runtime.GOMAXPROCS(procs)
	defer runtime.GOMAXPROCS(old)
	s := &vUmcSess{conns: map[*udpMuxedConn]int{}, closed: map[int]bool{}, fed: map[string]int{}, ap: ap}
	f := newVUmFake((vUmAddr{hi: 0, lo: 0, port: 7000}).udpAddr())
	jr := r.fork()
	var jmu sync.Mutex
	f.delay = func() {
		jmu.Lock()
		x := jr.intn(8)
		jmu.Unlock()
		if x == 0 {
			time.Sleep(time.Microsecond * 20)
		} else if x < 3 {
			runtime.Gosched()
		}
	}
	var pc net.PacketConn = f
	if ap {
		pc = vUmFakeAP{f}
	}
	mux := NewUDPMuxDefault(UDPMuxParams{UDPConn: pc, Logger: vUmQuietLogger()})
	for f.reads.Load() == 0 { // the worker is inside its first ReadFrom
		runtime.Gosched()
	}
	ufrags := []string{"a", "b", "c"}
	var all sync.Mutex
	var allHandles []net.PacketConn
	var wg sync.WaitGroup
	for ai := 0; ai < actors; ai++ {
		ar := r.fork()
		wg.Add(1)
		go func() {
			defer wg.Done()
			var mine []net.PacketConn
			for k := 0; k < opsPer; k++ {
				switch x := ar.intn(100); {
				case x < 25 || len(mine) == 0:
					u := ufrags[ar.intn(len(ufrags))]
					la, _ := vUmParseAddr(vUmcLocals[ar.intn(2)])
					call := s.tick()
					h, err := mux.GetConn(u, la.udpAddr())
					if err != nil {
						continue
					}
					c := vUmUnderlying(h)
					s.cid(c, u, !la.is4, call)
					mine = append(mine, h)
					all.Lock()
					allHandles = append(allHandles, h)
					all.Unlock()
				case x < 70:
					h := mine[ar.intn(len(mine))]
					a, _ := vUmParseAddr(vUmcRemotes[ar.intn(len(vUmcRemotes))])
					c := vUmUnderlying(h)
					call := s.tick()
					var err error
					if apc, isAP := h.(*sharedAddrPortConn); isAP {
						_, err = apc.WriteToAddrPort([]byte("w"), a.addrPort())
					} else {
						_, err = h.WriteTo([]byte("w"), a.udpAddr())
					}
					ret := s.tick()
					if err == nil {
						s.mu.Lock()
						id := s.conns[c]
						s.mu.Unlock()
						s.add(call, fmt.Sprintf("udpmuxconc write %d %s %d %d", id, a.token(), call, ret))
					}
				case x < 92:
					i := ar.intn(len(mine))
					h := mine[i]
					mine = append(mine[:i], mine[i+1:]...)
					c := vUmUnderlying(h)
					_ = h.Close()
					s.noteClosed(c)
				default:
					u := ufrags[ar.intn(len(ufrags))]
					mux.RemoveConnByUfrag(u)
					s.mu.Lock()
					var cs []*udpMuxedConn
					for c := range s.conns {
						if c.params.Key == u {
							cs = append(cs, c)
						}
					}
					s.mu.Unlock()
					for _, c := range cs {
						s.noteClosed(c)
					}
				}
				if ar.chance(1, 3) {
					runtime.Gosched()
				}
			}
		}()
	}
	// feeder
	fr := r.fork()
	wg.Add(1)
	go func() {
		defer wg.Done()
		for pid := 1; pid <= feeds; pid++ {
			a, _ := vUmParseAddr(vUmcRemotes[fr.intn(len(vUmcRemotes))])
			kind := "ns"
			if fr.chance(3, 4) {
				kind = "su:" + ufrags[fr.intn(len(ufrags))] + ":x"
			}
			data := vUmPayload(kind, pid)
			s.mu.Lock()
			s.fed[string(data)] = pid
			s.mu.Unlock()
			n0 := f.reads.Load()
			t0 := s.tick()
			select {
			case f.feed <- vUmDgram{data: data, src: a}:
				for f.reads.Load() == n0 {
					runtime.Gosched()
				}
			case <-f.closed:
				return
			}
			t1 := s.tick()
			s.add(t1, fmt.Sprintf("udpmuxconc feed %d %s %s %d %d", pid, a.token(), kind, t0, t1))
			if fr.chance(1, 2) {
				runtime.Gosched()
			}
		}
	}()
	wg.Wait()
	// quiescence: all calls returned; wait for the close watchers, then inspect the real tables
	q := "ok"
	for i := 0; i < 400; i++ {
		if q = vUmCheckQuiescent(mux); q == "ok" {
			break
		}
		time.Sleep(500 * time.Microsecond)
	}
	st := s.tick()
	s.mu.Lock()
	s.events = append(s.events, vUmcEvent{stamp: st, line: "udpmuxconc quiesce " + q, out: "ok"})
	s.mu.Unlock()
	_ = mux.Close()
	for _, h := range allHandles {
		_ = h.Close()
	}
	s.wg.Wait()
	sort.SliceStable(s.events, func(i, j int) bool { return s.events[i].stamp < s.events[j].stamp })
	return s.events
}

// netipRead reads through the AddrPort path of the muxed connection.
func netipRead(c *udpMuxedConn, buf []byte, n *int) (ap netip.AddrPort, err error) {
	*n, ap, err = c.ReadFromAddrPort(buf)
	return
}

// The recorded lines are replayed verbatim: exec returns the recorded output.
var vUmcRecorded = map[string]string{}

func vUmcExec(_ *vOut, t []string) string {
	line := strings.Join(t, " ")
	if out, ok := vUmcRecorded[line]; ok {
		return out
	}
	return "ok" // replay of a recorded history (VERIF_OPS): the events carry their own data
}

func vUmcGen(o *vOut, r *vRand, thorough bool, _ []string, emit func(string)) {
	sessions := vEnvInt("VERIF_UDPMUXCONC_SESSIONS", 0)
	if thorough && sessions == 0 {
		sessions = 400
	}
	for si := 0; si < sessions; si++ {
		ap := r.intn(2) == 1
		procs := []int{1, 2, 4, 16}[r.intn(4)]
		evs := vUmcRun(r.fork(), ap, procs, 2+r.intn(4), 20+r.intn(40), 30+r.intn(60))
		vUmcRecorded = map[string]string{}
		apf := 0
		if ap {
			apf = 1
		}
		emit(fmt.Sprintf("udpmuxconc new %d %d %d", apf, procs, si))
		for _, e := range evs {
			vUmcRecorded[e.line] = e.out
			emit(e.line)
		}
		emit("udpmuxconc end")
		o.stat(fmt.Sprintf("conc.sessions.procs%d", procs))
		o.statN("conc.events", len(evs))
	}
}
