//go:build verif

// Concurrent recorder for finding F22 (property C15): RemoveConnByUfrag racing with GetConnByUfrag,
// or with a first STUN binding, for the SAME ufrag — real goroutines, no synctest. After every round the
// mux is brought to rest and inspected in-package: a packet connection that a completed
// GetConnByUfrag / handleConn created AFTER the removal must not have been closed by the close watcher
// of the connection that was removed (the watcher used to remove map entries by key, not by identity).
package ice

import (
	"fmt"
	"net"
	"runtime"
	"strconv"
	"time"

	"github.com/pion/stun/v3"
)

func init() { vComponents["tcpmuxrace"] = &vComp{gen: vTcpRaceGen, exec: vTcpRaceExec} }

func vTcpRaceSettle() {
	for j := 0; j < 50; j++ {
		runtime.Gosched()
	}
	time.Sleep(50 * time.Microsecond)
}

// one round of variant "get": returns (stale watcher closed the new connection, second call got the old one)
func vTcpRaceGet(i int) (hit, same bool) {
	ip := net.ParseIP(vTcpLocalIPs[0])
	m := NewTCPMuxDefault(TCPMuxParams{Listener: &vTcpListener{ch: make(chan net.Conn), closed: make(chan struct{}),
		addr: &net.TCPAddr{IP: net.IPv4zero, Port: 7000}}})
	pc1, err := m.GetConnByUfrag("a", false, ip)
	if err != nil {
		panic(err)
	}
	u1 := pc1.(*sharedPacketConn).underlying.(*tcpPacketConn)
	done := make(chan struct{})
	go func() { m.RemoveConnByUfrag("a"); close(done) }()
	if i%2 == 0 {
		runtime.Gosched()
	}
	pc2, err := m.GetConnByUfrag("a", false, ip)
	if err != nil {
		panic(err)
	}
	<-done
	u2 := pc2.(*sharedPacketConn).underlying.(*tcpPacketConn)
	vTcpRaceSettle()
	same = u2 == u1
	hit = !same && u2.isClosed()
	_ = pc1.Close()
	_ = pc2.Close()
	_ = m.Close()
	return hit, same
}

// one round of variant "frame": a client's valid first frame for ufrag "a" races with RemoveConnByUfrag("a").
// If handleConn created a fresh (provisional) packet connection, nobody but its own alive timer (30 s) may
// close it, so the client's TCP connection must still be open at rest.
func vTcpRaceFrame(i int) (hit, same bool) {
	ip := net.ParseIP(vTcpLocalIPs[0])
	lis := &vTcpListener{ch: make(chan net.Conn), closed: make(chan struct{}), addr: &net.TCPAddr{IP: net.IPv4zero, Port: 7000}}
	m := NewTCPMuxDefault(TCPMuxParams{Listener: lis})
	pc1, err := m.GetConnByUfrag("a", false, ip)
	if err != nil {
		panic(err)
	}
	u1 := pc1.(*sharedPacketConn).underlying.(*tcpPacketConn)
	c := &vTcpConn{wake: make(chan struct{}), remote: &net.TCPAddr{IP: net.ParseIP(vTcpPeerIPs[0]), Port: 1000},
		local: &net.TCPAddr{IP: ip, Port: 7000}}
	lis.ch <- c
	msg, err := stun.Build(stun.TransactionID, stun.BindingRequest, stun.NewUsername("a:peer"))
	if err != nil {
		panic(err)
	}
	frame := append([]byte{byte(len(msg.Raw) >> 8), byte(len(msg.Raw))}, msg.Raw...)
	done := make(chan struct{})
	go func() { m.RemoveConnByUfrag("a"); close(done) }()
	if i%2 == 0 {
		runtime.Gosched()
	}
	c.push(frame)
	<-done
	// wait until handleConn is through with the connection: attached somewhere or closed
	var u2 *tcpPacketConn
	for j := 0; j < 2000 && u2 == nil && !c.isClosed(); j++ {
		m.mu.Lock()
		if pc, ok := m.getConn("a", false, ip); ok {
			pc.mu.Lock()
			if _, has := pc.conns[c.remote.String()]; has {
				u2 = pc
			}
			pc.mu.Unlock()
		}
		m.mu.Unlock()
		if u2 == nil {
			u1.mu.Lock()
			_, has := u1.conns[c.remote.String()]
			u1.mu.Unlock()
			if has {
				u2 = u1
			}
		}
		if u2 == nil {
			runtime.Gosched()
			time.Sleep(5 * time.Microsecond)
		}
	}
	vTcpRaceSettle()
	same = u2 == nil || u2 == u1 // attached to the connection being removed (or refused by it): closing is legitimate
	hit = !same && (u2.isClosed() || c.isClosed())
	_ = pc1.Close()
	_ = m.Close()
	return hit, same
}

// ops: race <get|frame> <rounds>  ->  "ok" | "stale-watcher-closed-new-conn hits=<n>"
func vTcpRaceExec(o *vOut, t []string) string {
	if len(t) != 4 || t[1] != "race" {
		return "bad-op"
	}
	rounds, err := strconv.Atoi(t[3])
	if err != nil || rounds < 0 {
		return "bad-op"
	}
	hits, sames := 0, 0
	for i := 0; i < rounds; i++ {
		var h, s bool
		switch t[2] {
		case "get":
			h, s = vTcpRaceGet(i)
		case "frame":
			h, s = vTcpRaceFrame(i)
		default:
			return "bad-op"
		}
		if h {
			hits++
		}
		if s {
			sames++
		}
	}
	o.statN("race."+t[2]+".rounds", rounds)
	o.statN("race."+t[2]+".second-got-old-conn", sames)
	o.statN("race."+t[2]+".hits", hits)
	if hits > 0 {
		return fmt.Sprintf("stale-watcher-closed-new-conn hits=%d", hits)
	}
	return "ok"
}

func vTcpRaceGen(o *vOut, r *vRand, thorough bool, args []string, emit func(op string)) {
	rounds := 1500
	if thorough {
		rounds = 20000
	}
	rounds = vEnvInt("VERIF_TCPMUXRACE_ROUNDS", rounds)
	// several ops rather than one: the first failing line is the replay
	for b := 0; b < 4; b++ {
		emit(fmt.Sprintf("tcpmuxrace race get %d", rounds/4))
		emit(fmt.Sprintf("tcpmuxrace race frame %d", rounds/4))
	}
}
