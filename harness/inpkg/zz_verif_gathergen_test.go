//go:build verif && go1.25

package ice

// Generator of the "gather" component: the configuration product of C18's quantifier over small
// pools (candidate types, network types incl. empty, port ranges incl. single-port and exhausted,
// interface / IP filters, loopback, mDNS mode, UDP / TCP / srflx mux, STUN and TURN URLs, rewrite
// rules) x interface tables (multi-homed, v4/v6, down and loopback interfaces, link-local,
// site-local, IPv4-compatible and unspecified addresses) x scripts with Restart / Close / Failed at
// every step and every reply timing (before cancel, after cancel, never).
//
// Host rewrite rules (one rule: replace / append, catch-all or pinned to a local address, optionally scoped to an
// interface, 1..3 external addresses of mixed families incl. link-local, site-local, IPv4-compatible, ::1, ::,
// 0.0.0.0 and addresses that are also interface addresses) are combined with everything else.
//
// Restrictions that keep the observation deterministic (they are restrictions of the HARNESS, the
// theorems do not have them): with a host rule that can publish ONE address from sockets on two different
// local addresses (catch-all rule; external address that is also an interface address) a port range is either
// absent or a single port (the scan of listenUDPInPortRange starts at a random port: whether two such
// sockets get the same port, which makes the second candidate a duplicate, is not determined otherwise); a port range with fewer than 64 free ports and duplicate interface
// addresses are only combined with candidate type host alone (several gatherers racing for the same
// port have a scheduler-dependent winner); the srflx mux has one listen address.

import (
	"fmt"
	"strings"
)

type gGenCfg struct {
	ct, nt     string
	pmin, pmax int
	rif, rip   string
	lo, md     bool
	um, tm, sm string
	su, tu, tf int
	rr, sr     string
	busy       string
	hold       bool
	hr         string // host rewrite rule <rep|app>:<pinned local|->:<iface|->:<ext+ext+...>
	tc         string // per TURN URL: c / u (empty username) / p (empty password); "" = all with credentials
	cg         bool   // continual gathering
	mi         int    // monitor interval (ms), 0 = default
	ifaces     string
}

func (c gGenCfg) String() string {
	b := func(v bool) string {
		if v {
			return "1"
		}
		return "0"
	}
	d := func(s string) string {
		if s == "" {
			return "-"
		}
		return s
	}
	out := fmt.Sprintf("ct=%s,nt=%s,pmin=%d,pmax=%d,rif=%s,rip=%s,lo=%s,md=%s,um=%s,tm=%s,sm=%s,su=%d,tu=%d,tf=%d,rr=%s,sr=%s,busy=%s,hold=%s,hr=%s",
		c.ct, d(c.nt), c.pmin, c.pmax, d(c.rif), d(c.rip), b(c.lo), b(c.md), d(c.um), d(c.tm), d(c.sm), c.su, c.tu, c.tf, d(c.rr), d(c.sr), d(c.busy), b(c.hold), d(c.hr))
	if c.tc != "" {
		out += ",tc=" + c.tc
	}
	if c.cg {
		out += fmt.Sprintf(",cg=1,mi=%d", c.mi)
	}
	return out
}

var gNetSubsets = func() []string {
	names := []string{"u4", "u6", "t4", "t6"}
	var out []string
	for m := 0; m < 16; m++ {
		var l []string
		for i, n := range names {
			if m&(1<<i) != 0 {
				l = append(l, n)
			}
		}
		out = append(out, strings.Join(l, "+"))
	}
	return out
}()

var gIfaceTables = []string{
	"0:u:g4.1",
	"0:u:g4.1+g6.1",
	"0:u:g4.1+g6.1+k6.1/1:ul:l4.1+l6.1/2:-:g4.2",
	"0:u:g4.1+g6.1+k6.1+s6.1+c6.1+k4.1/1:ul:l4.1+l6.1/2:-:g4.2+g6.2/3:u:g4.3+g6.3",
	"0:u:g4.1/1:u:g4.2/2:u:g6.1+g6.2",
	"0:u:-/1:u:g6.1",
	"0:ul:l4.1/1:u:k6.1+s6.2",
	"-",
	"0:u:u6.0+c6.2+g4.1/1:l:l4.1",
	"0:u:g4.1+g4.2+g4.3+g6.1/1:u:g4.4",
}

func gRandIfaces(r *vRand, allowDup bool) string {
	n := 1 + r.intn(4)
	// indices 1..4 of a class are four different sub-ranges of it (see gIP)
	pool := []string{"g4.1", "g4.2", "g4.3", "g6.1", "g6.2", "k6.1", "k6.2", "s6.1", "c6.1", "k4.1", "l4.1", "l6.1", "u6.0", "g4.4", "g6.3",
		"g6.4", "k6.3", "k6.4", "s6.2", "s6.3", "s6.4", "c6.2", "c6.3", "c6.4", "k4.2", "k4.3"}
	used := map[string]bool{}
	var parts []string
	for i := 0; i < n; i++ {
		fl := ""
		if !r.chance(1, 8) {
			fl += "u"
		}
		loop := r.chance(1, 5)
		if loop {
			fl += "l"
		}
		if fl == "" {
			fl = "-"
		}
		var as []string
		k := r.intn(5)
		for j := 0; j < k; j++ {
			a := pool[r.intn(len(pool))]
			if loop && r.chance(2, 3) {
				a = []string{"l4.1", "l6.1", "l4.2"}[r.intn(3)]
			}
			if used[a] && !allowDup {
				continue
			}
			dupHere := false
			for _, x := range as {
				if x == a {
					dupHere = true
				}
			}
			if dupHere {
				continue
			}
			used[a] = true
			as = append(as, a)
		}
		s := "-"
		if len(as) > 0 {
			s = strings.Join(as, "+")
		}
		parts = append(parts, fmt.Sprintf("%d:%s:%s", i, fl, s))
	}
	return strings.Join(parts, "/")
}

func gAddrsOf(ifaces string) []string {
	var out []string
	if ifaces == "-" {
		return out
	}
	for _, p := range strings.Split(ifaces, "/") {
		f := strings.Split(p, ":")
		if len(f) == 3 && f[2] != "-" {
			out = append(out, strings.Split(f[2], "+")...)
		}
	}
	return out
}

func gHasDup(l []string) bool {
	m := map[string]bool{}
	for _, x := range l {
		if m[x] {
			return true
		}
		m[x] = true
	}
	return false
}

func gRandCfg(r *vRand) gGenCfg {
	c := gGenCfg{}
	cts := []string{"h", "h", "h", "s", "r", "hs", "sr", "hr", "hsr", "rsh", "sh"}
	c.ct = cts[r.intn(len(cts))]
	c.nt = gNetSubsets[r.intn(len(gNetSubsets))]
	if r.chance(1, 6) { // a different order of the same set
		l := strings.Split(c.nt, "+")
		for i, j := 0, len(l)-1; i < j; i, j = i+1, j-1 {
			l[i], l[j] = l[j], l[i]
		}
		c.nt = strings.Join(l, "+")
	}
	hostOnly := c.ct == "h"
	c.ifaces = gIfaceTables[r.intn(len(gIfaceTables))]
	if r.chance(1, 2) {
		c.ifaces = gRandIfaces(r, hostOnly)
	}
	if !hostOnly && gHasDup(gAddrsOf(c.ifaces)) {
		c.ifaces = gIfaceTables[3]
	}
	addrs := gAddrsOf(c.ifaces)
	switch r.intn(8) {
	case 0, 1, 2:
	case 3:
		c.pmin, c.pmax = 5000, 5063
	case 4:
		c.pmin, c.pmax = 0, 1100
	case 5:
		c.pmin, c.pmax = 40000, 40100
	default:
		if hostOnly {
			switch r.intn(4) {
			case 0:
				c.pmin, c.pmax = 5000, 5000
			case 1:
				c.pmin, c.pmax = 5000, 5001
			case 2:
				c.pmin, c.pmax = 0, 1025
			case 3:
				c.pmin, c.pmax = 65535, 65535
			}
			var busy []string
			for _, a := range addrs {
				if r.chance(1, 3) {
					lo := c.pmin
					if lo == 0 {
						lo = 1024
					}
					busy = append(busy, fmt.Sprintf("%s:%d", a, lo))
					if r.chance(1, 2) {
						busy = append(busy, fmt.Sprintf("%s:%d", a, lo+1))
					}
				}
			}
			c.busy = strings.Join(busy, "+")
		} else {
			c.pmin, c.pmax = 5000, 5127
		}
	}
	pick := func(l []string, n int) string {
		if len(l) == 0 {
			return ""
		}
		var out []string
		for i := 0; i < n; i++ {
			out = append(out, l[r.intn(len(l))])
		}
		return strings.Join(out, "+")
	}
	if r.chance(1, 3) {
		switch r.intn(3) {
		case 0:
			c.rif = "n"
		default:
			c.rif = pick([]string{"0", "1", "2", "3"}, 1+r.intn(2))
		}
	}
	if r.chance(1, 3) {
		switch r.intn(3) {
		case 0:
			c.rip = "n"
		default:
			if len(addrs) > 0 {
				c.rip = pick(addrs, 1+r.intn(2))
			} else {
				c.rip = "g4.9"
			}
		}
	}
	c.lo = r.chance(1, 3)
	c.md = r.chance(1, 4)
	muxPool := []string{"g4.1", "g6.1", "l4.1", "k6.1", "g4.7", "k4.1", "s6.1", "c6.1", "l6.1", "s6.2", "s6.3", "s6.4", "c6.2", "c6.3", "k6.3", "g6.2"}
	if r.chance(1, 4) {
		c.um = pick(muxPool, 1+r.intn(3))
		c.hold = r.chance(1, 3) && strings.Contains(c.ct, "h")
	}
	if r.chance(1, 3) {
		switch r.intn(3) {
		case 0:
			c.tm = "any"
		default:
			if len(addrs) > 0 && r.chance(3, 4) {
				c.tm = addrs[r.intn(len(addrs))]
			} else {
				c.tm = "g4.7"
			}
		}
	}
	hasS, hasR := strings.Contains(c.ct, "s"), strings.Contains(c.ct, "r")
	if hasS || hasR {
		if hasS {
			c.su = r.intn(3)
		}
		if hasR || r.chance(1, 4) {
			c.tu = r.intn(3)
		}
		if hasS && c.su+c.tu == 0 {
			c.su = 1
		}
		if hasR && c.tu == 0 && r.chance(3, 4) {
			c.tu = 1
		}
	} else if r.chance(1, 30) {
		c.su = 1 // constructor refuses: urls without srflx/relay
	}
	if hasS && r.chance(1, 4) {
		c.sm = muxPool[r.intn(2)]
	}
	if c.tu > 0 && r.chance(1, 4) {
		// TURN URLs without username / password: the relay gatherer stops at the first one (srflx gathering does not care)
		for k := 0; k < c.tu; k++ {
			c.tc += string("ccup"[r.intn(4)])
		}
	}
	if hasR {
		if r.chance(1, 6) {
			c.tf = 1 + r.intn(2)
		}
		if r.chance(1, 3) {
			c.rr = []string{"drop", "rep", "app"}[r.intn(3)]
		}
	}
	if hasS && r.chance(1, 4) {
		c.sr = []string{"drop", "rep", "rep2", "app"}[r.intn(4)]
	} else if hasS && r.chance(1, 4) {
		c.sr = gPinnedRule(r)
	}
	if strings.Contains(c.ct, "h") && r.chance(1, 4) {
		c.hr = gHostRule(r, addrs, c.um)
		if c.md && !r.chance(1, 5) { // else: constructor refuses (host rule with mDNS gather mode)
			c.md = false
		}
		if gHostRuleMerges(c.hr, addrs) && c.pmin != c.pmax {
			if hostOnly && r.chance(1, 2) {
				c.pmin, c.pmax, c.busy = 5000, 5000, ""
			} else {
				c.pmin, c.pmax, c.busy = 0, 0, ""
			}
		}
	} else if !strings.Contains(c.ct, "h") && r.chance(1, 40) {
		c.hr = "rep:-:-:x4.70" // constructor refuses: host rule without the host candidate type
	}
	if r.chance(1, 40) {
		c.pmin, c.pmax, c.busy = 6000, 5000, "" // constructor refuses: PortMax < PortMin
	}
	if r.chance(1, 6) {
		// continual gathering: monitor intervals that never put a tick on the instant of a STUN / TURN timeout
		// (primes; the clock of such a session only moves by whole seconds, see gRandSession)
		c.cg = true
		c.mi = []int{733, 1361, 2111, 397}[r.intn(4)]
		if !hostOnly && c.pmin <= c.pmax && (c.pmin != 0 || c.pmax != 0) {
			c.pmin, c.pmax = 40000, 40100 // every pass opens further sockets: room for all of them
		}
	}
	return c
}

// ---- continual gathering: changes of the interface table ----

type gTbl []gIface

func gTblString(t gTbl) string {
	if len(t) == 0 {
		return "-"
	}
	var parts []string
	for _, f := range t {
		fl := ""
		if f.up {
			fl += "u"
		}
		if f.loop {
			fl += "l"
		}
		if fl == "" {
			fl = "-"
		}
		as := "-"
		if len(f.addrs) > 0 {
			as = strings.Join(f.addrs, "+")
		}
		parts = append(parts, strings.TrimPrefix(f.name, "if")+":"+fl+":"+as)
	}
	return strings.Join(parts, "/")
}

// gMutateTable: one change of the interface table: an address appears (global, or loopback / link-local /
// site-local / IPv4-compatible / an address the IP filter rejects), an address disappears, an interface goes
// down or comes up, a new interface (sometimes a loopback one) appears.
func gMutateTable(r *vRand, tbl string, rip string, allowDup bool) string {
	t := gTbl(gParseIfaces(tbl))
	have := map[string]bool{}
	for _, f := range t {
		for _, a := range f.addrs {
			have[a] = true
		}
	}
	fresh := func() string {
		pool := []string{"g4.1", "g4.2", "g4.3", "g4.4", "g4.5", "g4.6", "g6.1", "g6.2", "g6.3", "g6.4", "g4.1", "g6.1", "g4.2",
			"k6.1", "k6.2", "s6.1", "s6.3", "c6.1", "c6.2", "k4.1", "l4.1", "l6.1", "l4.2"}
		if rip != "" && rip != "n" && r.chance(1, 4) {
			pool = strings.Split(rip, "+") // an address the IP filter rejects
		}
		for i := 0; i < 20; i++ {
			a := pool[r.intn(len(pool))]
			if !have[a] || (allowDup && r.chance(1, 4)) {
				return a
			}
		}
		return ""
	}
	for try := 0; try < 8; try++ {
		switch x := r.intn(10); {
		case x < 5 && len(t) > 0: // an address appears
			a := fresh()
			i := r.intn(len(t))
			dup := false
			for _, b := range t[i].addrs {
				dup = dup || b == a
			}
			if a == "" || dup {
				continue
			}
			t[i].addrs = append(append([]string{}, t[i].addrs...), a)
			return gTblString(t)
		case x < 7 && len(t) > 0: // an address disappears
			i := r.intn(len(t))
			if len(t[i].addrs) == 0 {
				continue
			}
			k := r.intn(len(t[i].addrs))
			t[i].addrs = append(append([]string{}, t[i].addrs[:k]...), t[i].addrs[k+1:]...)
			return gTblString(t)
		case x < 8 && len(t) > 0: // an interface goes down / comes up
			i := r.intn(len(t))
			t[i].up = !t[i].up
			return gTblString(t)
		default: // a new interface
			if len(t) >= 5 {
				continue
			}
			f := gIface{name: fmt.Sprintf("if%d", len(t)), up: !r.chance(1, 6), loop: r.chance(1, 4)}
			if a := fresh(); a != "" {
				f.addrs = []string{a}
				if f.loop && r.chance(2, 3) {
					f.addrs = []string{[]string{"l4.1", "l6.1", "l4.2"}[r.intn(3)]}
					if have[f.addrs[0]] && !allowDup {
						continue
					}
				}
			}
			t = append(t, f)
			return gTblString(t)
		}
	}
	return gTblString(t)
}

// gFlush (continual sessions): answer every parked request and open the gate until the monitor goroutine is
// idle. A Restart while the monitor is inside a pass and a tick waits in the ticker's channel leaves the
// cancelled monitor a `select` with two ready cases: which one Go takes is not determined (notes/C18.md).
func gFlush(out string, emit func(string) string) string {
	for i := 0; i < 64; i++ {
		ns, nt := gPendCount(out)
		held := gField(out, "held") != "0" && gField(out, "held") != ""
		switch {
		case held:
			out = emit("gather release")
		case ns > 0:
			out = emit("gather stunreply 0 1")
		case nt > 0:
			out = emit("gather turnreply 0 ok1")
		default:
			return out
		}
	}
	return out
}

// gHostExtPool: external addresses of host rules.  Indices 70..73 hit the four sub-ranges of each class; l6.1 /
// u6.0 / u4.0 are the only literals of their classes.
var gHostExtPool = []string{"x4.70", "x4.71", "x6.70", "x6.71", "x4.72", "x6.72", "k6.70", "k6.71", "s6.70", "s6.71", "s6.72", "s6.73",
	"c6.70", "c6.71", "c6.72", "c6.73", "l6.1", "u6.0", "u4.0", "k4.70", "l4.70", "g4.70", "g6.70"}

// gHostRule: one host rewrite rule.  Pinned rules take an interface address (sometimes a mux listen address or
// an address nobody has) as Local; the interface scope is one of the interface names (or one nobody has).
func gHostRule(r *vRand, addrs []string, um string) string {
	mode := "rep"
	if r.chance(2, 5) {
		mode = "app"
	}
	pin := "-"
	if r.chance(2, 5) {
		var cand []string
		for _, a := range addrs {
			// a zoned (link-local) Local is not a valid rule; the unspecified address is not a local address
			if !strings.HasPrefix(a, "k6.") && !strings.HasPrefix(a, "u6.") {
				cand = append(cand, a)
			}
		}
		if um != "" {
			for _, a := range strings.Split(um, "+") {
				if !strings.HasPrefix(a, "k6.") {
					cand = append(cand, a)
				}
			}
		}
		if len(cand) > 0 && !r.chance(1, 8) {
			pin = cand[r.intn(len(cand))]
		} else {
			pin = "g4.9"
		}
	}
	ifc := "-"
	if r.chance(1, 4) {
		ifc = fmt.Sprint(r.intn(4))
	}
	n := 1 + r.intn(3)
	var exts []string
	for len(exts) < n {
		e := gHostExtPool[r.intn(len(gHostExtPool))]
		if r.chance(1, 10) && len(addrs) > 0 { // an external address that is also an interface address
			e = addrs[r.intn(len(addrs))]
			if strings.HasPrefix(e, "u6.") {
				continue
			}
		}
		if r.chance(1, 2) { // mostly publishable ones
			e = gHostExtPool[r.intn(6)]
		}
		exts = append(exts, e) // duplicates allowed: the rule then lists an address twice
	}
	return mode + ":" + pin + ":" + ifc + ":" + strings.Join(exts, "+")
}

// gHostRuleMerges: can the rule publish one address from sockets on two different local addresses?
func gHostRuleMerges(hr string, addrs []string) bool {
	f := strings.Split(hr, ":")
	if len(f) != 4 {
		return false
	}
	if f[1] == "-" {
		return true
	}
	for _, e := range strings.Split(f[3], "+") {
		for _, a := range addrs {
			if a == e {
				return true
			}
		}
	}
	return false
}

// gPinnedRule: a srflx rewrite rule pinned to the local wildcard address with 1..3 external addresses:
// IPv4 and IPv6 externals mixed, and a location-tracked (IPv6 link-local) one in first / middle / last
// position (the socket selected for it must be closed, the others become candidates); likewise site-local and
// IPv4-compatible IPv6 externals, which must not be published either.
func gPinnedRule(r *vRand) string {
	pool := []string{"x4.80", "x4.81", "x6.80", "k6.1", "k6.2", "x4.82", "s6.1", "c6.1", "s6.2", "c6.2", "s6.3", "s6.4", "c6.3", "c6.4", "k6.3"}
	n := 1 + r.intn(3)
	var exts []string
	used := map[string]bool{}
	for len(exts) < n {
		e := pool[r.intn(len(pool))]
		if !used[e] {
			used[e] = true
			exts = append(exts, e)
		}
	}
	if r.chance(1, 2) { // make sure a filtered address is there, at a random position
		exts[r.intn(len(exts))] = []string{"k6.1", "s6.1", "c6.1", "s6.2", "s6.3", "s6.4", "c6.2", "c6.3", "k6.3"}[r.intn(9)]
		seen := map[string]bool{}
		var out []string
		for _, e := range exts {
			if !seen[e] {
				seen[e] = true
				out = append(out, e)
			}
		}
		exts = out
	}
	mode := "pin"
	if r.chance(1, 3) {
		mode = "pina"
	}
	return mode + ":" + strings.Join(exts, "+")
}

func gField(line, key string) string {
	for _, f := range strings.Split(line, " ") {
		if strings.HasPrefix(f, key+"=") {
			return f[len(key)+1:]
		}
	}
	return ""
}

func gPendCount(line string) (s, t int) {
	p := gField(line, "pend")
	if p == "" || p == "-" {
		return
	}
	for _, x := range strings.Split(p, ",") {
		if strings.HasPrefix(x, "T") {
			t++
		} else {
			s++
		}
	}
	return
}

// one random script on a fresh agent
func gRandSession(o *vOut, r *vRand, c gGenCfg, emit func(string) string, maxOps int) {
	out := emit("gather new " + c.String() + " " + c.ifaces)
	if !strings.HasPrefix(out, "r=ok") {
		return
	}
	n := 2 + r.intn(maxOps)
	closed := false
	tbl := c.ifaces
	changes := 0
	if c.cg {
		n += 4
	}
	for i := 0; i < n; i++ {
		ns, nt := gPendCount(out)
		held := gField(out, "held") != "0" && gField(out, "held") != ""
		st := gField(out, "st")
		x := r.intn(100)
		if closed && r.chance(1, 2) {
			break
		}
		if c.cg {
			// continual gathering: 1-4 changes of the interface table at random moments; the clock moves by whole
			// seconds only (no tick then falls on the instant of a timeout); no Failed (its instant is not ours to
			// choose); Restart only with the monitor idle (gFlush)
			y := r.intn(100)
			switch {
			case changes < 4 && !closed && (y < 22 || (changes == 0 && i >= 2 && st == "gathering")):
				tbl = gMutateTable(r, tbl, c.rip, c.ct == "h")
				changes++
				out = emit("gather ifaces " + tbl)
				o.stat("cg.ifaces")
				continue
			case y < 45 && st == "gathering":
				out = emit(fmt.Sprintf("gather adv %d", []int{1000, 1000, 2000, 3000, 5000, 8000}[r.intn(6)]))
				continue
			case y < 50 && c.um != "" && strings.Contains(c.ct, "h") && !held && !closed:
				out = emit("gather hold")
				continue
			}
		}
		var op string
		switch {
		case st == "new" && x < 12:
			op = "gather2"
		case st == "new" && x < 18:
			op = "grg"
		case st == "new" && x < 55:
			op = "gather"
		case x < 3:
			op = "gather2"
		case x < 5:
			op = "grg"
		case x < 8:
			op = "gather"
		case ns > 0 && x < 45:
			op = fmt.Sprintf("stunreply %d %d", r.intn(ns), 1+r.intn(3))
		case nt > 0 && x < 60:
			if r.chance(1, 4) {
				op = fmt.Sprintf("turnreply %d fail", r.intn(nt))
			} else {
				op = fmt.Sprintf("turnreply %d ok%d", r.intn(nt), 1+r.intn(3))
			}
		case held && x < 70:
			op = "release"
		case x < 78:
			op = "restart"
		case x < 90:
			op = fmt.Sprintf("adv %d", []int{1, 2500, 4999, 5000, 5001, 3000, 8000, 7999}[r.intn(8)])
		case x < 93 && !closed:
			op = "fail"
		case x < 97:
			op = "close"
			closed = true
		default:
			op = "restart"
		}
		if c.cg {
			switch {
			case op == "restart" || op == "grg":
				out = gFlush(out, emit)
			case strings.HasPrefix(op, "adv ") || op == "fail":
				op = fmt.Sprintf("adv %d", []int{1000, 2000, 3000, 5000, 8000}[r.intn(5)])
			}
		}
		out = emit("gather " + op)
		o.stat("st." + gField(out, "st"))
	}
	emit("gather end")
}

// base scripts with Restart / Close / Failed inserted at every step
func gSystematic(o *vOut, r *vRand, emit func(string) string, cfgs []gGenCfg) {
	base := []string{"gather gather2", "gather stunreply 0 1", "gather turnreply 0 ok1", "gather stunreply 0 2", "gather adv 5000", "gather adv 8000"}
	for _, c := range cfgs {
		for _, ins := range []string{"gather restart", "gather close", "gather fail"} {
			for pos := 0; pos <= len(base); pos++ {
				out := emit("gather new " + c.String() + " " + c.ifaces)
				if !strings.HasPrefix(out, "r=ok") {
					continue
				}
				for i := 0; i <= len(base); i++ {
					if i == pos {
						emit(ins)
						if ins == "gather restart" && r.chance(1, 2) {
							emit("gather gather")
						}
					}
					if i < len(base) {
						emit(base[i])
					}
				}
				emit("gather end")
			}
		}
	}
}

// gContinual: directed scripts for continual gathering. The first pass is over at virtual time 0 (every request
// is answered at once), so the monitor's ticks fall on the multiples of the interval and every script knows them.
func gContinual(emit func(op string) string) {
	run := func(c gGenCfg, ops ...string) {
		c.cg = true
		out := emit("gather new " + c.String() + " " + c.ifaces)
		if !strings.HasPrefix(out, "r=ok") {
			return
		}
		for _, op := range ops {
			if op == "flush" {
				out = gFlush(out, emit)
				continue
			}
			out = emit("gather " + op)
		}
		emit("gather end")
	}
	t0 := "0:u:g4.1"
	// (a) an address appears just before / exactly at a tick; special-purpose, loopback, filtered addresses and a
	// down interface appear; an address disappears; an interface goes down and comes back; Restart; Close
	for _, c := range []gGenCfg{
		{ct: "h", nt: "", mi: 733, ifaces: t0},
		{ct: "h", nt: "u4+t4+t6", tm: "any", mi: 733, ifaces: t0},
		{ct: "h", nt: "", um: "g4.1+g6.1", tm: "g4.2", mi: 733, ifaces: t0},
		{ct: "h", nt: "u4+u6", rip: "g4.2+g6.2", rif: "2", mi: 733, ifaces: t0},
		{ct: "h", nt: "", md: true, lo: true, mi: 733, ifaces: t0},
		{ct: "h", nt: "u4", pmin: 5000, pmax: 5000, mi: 733, ifaces: t0},
		{ct: "h", nt: "u4+u6", pmin: 5000, pmax: 5001, busy: "g4.2:5000", mi: 733, ifaces: t0},
		{ct: "h", nt: "", hr: "rep:-:-:x4.70+x6.70", mi: 733, ifaces: t0},
		{ct: "hs", nt: "u4", su: 1, mi: 733, ifaces: t0},
		{ct: "hs", nt: "", su: 1, sm: "g4.1", um: "g4.1", mi: 733, ifaces: t0},
		{ct: "hsr", nt: "", su: 1, tu: 1, rif: "n", mi: 733, ifaces: t0},
		{ct: "s", nt: "u4", sr: "rep2", mi: 733, ifaces: t0},
		{ct: "r", nt: "u4", tu: 1, rr: "app", mi: 733, ifaces: t0},
	} {
		run(c, "gather", "flush", "adv 732", "ifaces 0:u:g4.1+g4.2", "adv 1", "flush",
			"ifaces 0:u:g4.1+g4.2/1:u:g6.1+k6.1+s6.1+c6.1/2:ul:l4.1+l6.1/3:-:g4.5", "adv 733", "flush",
			"ifaces 0:u:g4.2/1:u:g6.1+k6.1+s6.1+c6.1+g6.2/2:ul:l4.1+l6.1/3:-:g4.5", "adv 733", "flush",
			"ifaces 0:-:g4.2/1:u:g6.1+k6.1+s6.1+c6.1+g6.2/2:ul:l4.1+l6.1/3:u:g4.5", "adv 733", "flush",
			"ifaces 0:u:g4.2/1:u:g6.1/3:u:g4.5", "adv 733", "flush", "adv 1466",
			"restart", "adv 2000", "gather", "flush", "ifaces 0:u:g4.2+g4.3/1:u:g6.1/3:u:g4.5", "adv 733", "flush", "close")
	}
	// (b) the default interval (2 s)
	run(gGenCfg{ct: "h", nt: "", mi: 0, ifaces: t0}, "gather", "ifaces 0:u:g4.1+g4.2", "adv 1999", "adv 1", "ifaces 0:u:g4.2", "adv 2000", "close")
	// (c) Restart / Close / a refused GatherCandidates while a re-gather pass is parked at the gate of the UDP mux
	for _, mid := range []string{"restart", "close", "gather", "grg"} {
		for _, c := range []gGenCfg{{ct: "h", nt: "", um: "g4.1", mi: 733, ifaces: t0}, {ct: "hs", nt: "u4", su: 1, um: "g4.1+g4.2", tm: "any", mi: 733, ifaces: t0}} {
			run(c, "gather", "flush", "ifaces 0:u:g4.1+g4.2", "hold", "adv 733", mid, "release", "flush", "adv 733", "gather", "flush",
				"ifaces 0:u:g4.1+g4.2+g4.3", "adv 733", "flush", "close")
		}
	}
	// (d) … while it waits for a STUN answer / a TURN allocation: the reply arrives after the cancellation (no
	// virtual time in between: see gFlush), or never (Close)
	for _, mid := range []string{"restart", "close", "grg"} {
		for _, c := range []gGenCfg{
			{ct: "hs", nt: "u4", su: 1, mi: 733, ifaces: t0},
			{ct: "hs", nt: "u4+u6", su: 2, sm: "g4.1", mi: 733, ifaces: t0},
			{ct: "r", nt: "u4", tu: 1, mi: 733, ifaces: t0},
			{ct: "hsr", nt: "", su: 1, tu: 1, mi: 733, ifaces: t0},
		} {
			run(c, "gather", "flush", "ifaces 0:u:g4.1+g4.2", "adv 733", mid, "flush", "adv 8000", "gather", "flush",
				"ifaces 0:u:g4.1+g4.2+g6.1", "adv 733", "flush", "adv 5000", "close")
			run(c, "gather", "flush", "ifaces 0:u:g4.1+g4.2", "adv 733", "close", "adv 5000", "adv 3000")
		}
	}
	// (e) ticks while the monitor is inside a pass: one is kept, the pass that follows sees the latest table
	run(gGenCfg{ct: "hs", nt: "u4", su: 1, mi: 733, ifaces: t0}, "gather", "flush", "ifaces 0:u:g4.1+g4.2", "adv 733",
		"ifaces 0:u:g4.1+g4.2+g4.3", "adv 1466", "stunreply 0 2", "adv 1", "flush", "ifaces 0:u:g4.3", "adv 5000", "flush", "close")
	run(gGenCfg{ct: "hs", nt: "u4", su: 1, mi: 733, ifaces: t0}, "gather", "flush", "ifaces 0:u:g4.1+g4.2", "adv 733", "adv 5000", "adv 733", "close")
	// (f) the table changes while the FIRST pass is still running; an address an earlier cycle knew comes back
	// after a Restart (C18-G10)
	run(gGenCfg{ct: "hs", nt: "u4", su: 1, mi: 733, ifaces: t0}, "gather", "ifaces 0:u:g4.1+g4.2", "stunreply 0 1", "adv 733", "adv 733", "close")
	run(gGenCfg{ct: "h", nt: "u4", mi: 733, ifaces: "0:u:g4.1+g4.2"}, "gather", "ifaces 0:u:g4.1", "restart", "gather",
		"ifaces 0:u:g4.1+g4.2", "adv 733", "adv 733", "ifaces 0:u:g4.1+g4.2+g4.3", "adv 733", "close")
	// (g) Close while a re-gather pass waits for its TURN allocation (C09-G11)
	run(gGenCfg{ct: "r", nt: "u4", tu: 1, mi: 733, ifaces: t0}, "gather", "turnreply 0 ok1", "ifaces 0:u:g4.1+g4.2", "adv 733", "close", "adv 1000", "adv 8000")
	// (h) Failed removes the candidates; the monitor goes on
	run(gGenCfg{ct: "h", nt: "u4", mi: 733, ifaces: t0}, "gather", "fail", "ifaces 0:u:g4.1+g4.2", "adv 1000", "restart", "gather", "adv 733", "close")
	// (i) GatherOnce with a changing table: nothing is re-gathered
	{
		c := gGenCfg{ct: "h", nt: "", ifaces: t0}
		emit("gather new " + c.String() + " " + c.ifaces)
		for _, op := range []string{"gather", "ifaces 0:u:g4.1+g4.2", "adv 5000", "restart", "gather", "end"} {
			emit("gather " + op)
		}
	}
}

// gTurnCreds: TURN URLs with credentials / with an empty username / with an empty password, every list of length 1..3 in
// every order. `gatherCandidatesRelay` stops at the first URL without credentials; the allocations it has already
// started are slower than its loop (they wait for `turnreply`), and the cycle must not complete before they are over:
// their candidates come before the nil candidate.
func gTurnCreds(emit func(op string) string) {
	var lists []string
	for _, a := range "cup" {
		lists = append(lists, string(a))
		for _, b := range "cup" {
			lists = append(lists, string(a)+string(b))
			for _, d := range "cup" {
				lists = append(lists, string(a)+string(b)+string(d))
			}
		}
	}
	for _, tc := range lists {
		for _, c := range []gGenCfg{
			{ct: "r", nt: "u4", tu: len(tc), tc: tc, ifaces: gIfaceTables[0]},
			{ct: "hsr", nt: "", su: 1, tu: len(tc), tc: tc, ifaces: gIfaceTables[1]},
		} {
			emit("gather new " + c.String() + " " + c.ifaces)
			for _, op := range []string{"gather", "stunreply 0 1", "turnreply 0 ok1", "stunreply 0 2", "turnreply 0 ok2", "stunreply 0 1",
				"stunreply 0 3", "turnreply 0 fail", "adv 8000", "restart", "gather", "turnreply 0 ok1", "close", "end"} {
				emit("gather " + op)
			}
		}
	}
	// the same with filters (one allocation per accepted local address) and with a cycle that is cancelled first
	for _, tc := range []string{"cu", "cp", "ccu", "cpc"} {
		c := gGenCfg{ct: "r", nt: "u4", tu: len(tc), tc: tc, rif: "n", ifaces: gIfaceTables[4]}
		emit("gather new " + c.String() + " " + c.ifaces)
		for _, op := range []string{"gather", "turnreply 1 ok1", "turnreply 0 ok2", "restart", "gather", "restart", "turnreply 0 ok1", "gather2",
			"adv 8000", "end"} {
			emit("gather " + op)
		}
	}
}

// gAddrKinds: every kind of local candidate, with and without the mDNS name: host from the interface table (UDP own socket,
// TCP mux), host on the UDP mux (IPv4, IPv6, link-local, loopback listen addresses, several of them), server reflexive (own
// socket, srflx mux, address-rewrite), relay (plain and with rewrite rules) - each must know its own transport address (C03 on
// the gather component) and carry the network type of its real family.
func gAddrKinds(emit func(op string) string) {
	tbl := "0:u:g4.1+g6.1+k6.1/1:ul:l4.1+l6.1"
	for _, md := range []bool{false, true} {
		for _, c := range []gGenCfg{
			{ct: "h", nt: "", ifaces: tbl},
			{ct: "h", nt: "", lo: true, tm: "any", ifaces: tbl},
			{ct: "h", nt: "u4+t6", tm: "g6.1", pmin: 5000, pmax: 5063, ifaces: tbl},
			{ct: "h", nt: "", um: "g4.1", ifaces: tbl},
			{ct: "h", nt: "", um: "g6.1", ifaces: tbl},
			{ct: "h", nt: "", um: "k6.2", ifaces: tbl},
			{ct: "h", nt: "", um: "c6.3+c6.4+k6.2", ifaces: gIfaceTables[0]},
			{ct: "h", nt: "", um: "s6.1+g6.2+g4.1", tm: "any", ifaces: tbl},
			{ct: "h", nt: "u4", um: "g6.1+k6.1+g4.2+g4.1", ifaces: tbl},
			{ct: "h", nt: "u6", um: "g4.1+l4.1", ifaces: tbl},
			{ct: "h", nt: "u6+t4", um: "g4.1+l6.1+g6.3", lo: true, ifaces: tbl},
			{ct: "h", nt: "", um: "l4.1+k4.1", lo: true, ifaces: tbl},
			{ct: "hs", nt: "", su: 1, um: "g6.1+g4.1", sm: "g4.1", ifaces: tbl},
			{ct: "hs", nt: "u4+u6", su: 1, ifaces: tbl},
			{ct: "s", nt: "", su: 1, rif: "n", ifaces: tbl},
			{ct: "s", nt: "u4", sr: "rep2", ifaces: tbl},
			{ct: "s", nt: "", sr: "pin:x4.80+x6.80", ifaces: tbl},
			{ct: "hsr", nt: "", su: 1, tu: 1, um: "k6.2+g4.1", ifaces: tbl},
			{ct: "r", nt: "u4", tu: 1, rr: "app", ifaces: tbl},
			{ct: "r", nt: "u4", tu: 1, rr: "rep", rif: "n", ifaces: tbl},
		} {
			c.md = md
			emit("gather new " + c.String() + " " + c.ifaces)
			for _, op := range []string{"gather", "stunreply 0 1", "turnreply 0 ok1", "stunreply 0 2", "stunreply 0 1", "stunreply 0 3",
				"restart", "gather", "close", "end"} {
				emit("gather " + op)
			}
		}
	}
	// continual gathering over the UDP mux in mDNS mode: the second pass meets the candidate of the first
	c := gGenCfg{ct: "h", nt: "", md: true, um: "k6.2+g4.1", cg: true, mi: 733, ifaces: gIfaceTables[0]}
	emit("gather new " + c.String() + " " + c.ifaces)
	for _, op := range []string{"gather", "ifaces 0:u:g4.1+g4.2", "adv 733", "close", "end"} {
		emit("gather " + op)
	}
}

func gGen(o *vOut, r *vRand, thorough bool, args []string, emit func(op string) string) {
	if len(args) > 0 && args[0] == "addrkinds" {
		// the block of candidate kinds alone (component of check C03: every local candidate knows its transport address)
		gAddrKinds(emit)
		return
	}
	if len(args) > 0 && args[0] == "turncreds" {
		// the relay-credentials block alone (component of check C11: one nil candidate, after all candidates of its cycle)
		gTurnCreds(emit)
		return
	}
	// 1. boundary configurations: every network-type subset x host, on two interface tables
	for _, nt := range gNetSubsets {
		for _, tbl := range []string{gIfaceTables[1], gIfaceTables[3]} {
			for _, tm := range []string{"", "any"} {
				c := gGenCfg{ct: "h", nt: nt, tm: tm, ifaces: tbl, lo: tm == "any"}
				emit("gather new " + c.String() + " " + c.ifaces)
				emit("gather gather")
				emit("gather gather")
				emit("gather restart")
				emit("gather gather")
				emit("gather end")
			}
		}
	}
	// 1b. two GatherCandidates calls queued behind a held task loop (both accepted in state New, the first
	// cycle must be cancelled before it marks Gathering), alone and combined with restart / close, and
	// GatherCandidates / Restart / GatherCandidates queued
	for _, c := range []gGenCfg{
		{ct: "h", nt: "", ifaces: gIfaceTables[1]},
		{ct: "h", nt: "u4", pmin: 5000, pmax: 5001, ifaces: gIfaceTables[0]},
		{ct: "hs", nt: "u4+u6", su: 1, ifaces: gIfaceTables[1]},
		{ct: "hsr", nt: "", su: 1, tu: 1, tm: "any", ifaces: gIfaceTables[2]},
		{ct: "hs", nt: "", su: 1, um: "g4.1+g6.1", sm: "g4.1", ifaces: gIfaceTables[1]},
	} {
		for _, script := range [][]string{
			{"gather2", "gather", "gather2", "restart", "gather2", "stunreply 0 1", "turnreply 0 ok1", "close", "gather2"},
			{"grg", "gather2", "grg", "stunreply 0 1", "grg", "close", "grg"},
			{"gather", "grg", "restart", "gather2", "restart", "grg", "adv 5000", "gather2"},
		} {
			emit("gather new " + c.String() + " " + c.ifaces)
			for _, op := range script {
				emit("gather " + op)
			}
			emit("gather end")
		}
	}
	// 1c. srflx rules pinned to the wildcard address: the location-tracked external first / middle / last /
	// alone, mixed families, with Restart and Close in between
	for _, exts := range []string{"k6.1", "k6.1+x4.80", "x4.80+k6.1", "x4.80+k6.1+x4.81", "k6.1+k6.2+x4.80", "x4.80+x4.81+k6.1",
		"k6.1+x6.80", "x6.80+x4.80", "x4.80+x6.80+k6.1", "x4.80", "k6.1+k6.2",
		// site-local / IPv4-compatible externals (RFC 8445 5.1.1.1 exclusions): first / middle / last / alone
		"s6.1", "c6.1", "s6.1+x4.80", "x4.80+c6.1", "x4.80+s6.1+x4.81", "c6.1+s6.1+x6.80", "x6.80+x4.80+c6.1", "s6.1+k6.1+c6.1"} {
		for _, mode := range []string{"pin", "pina"} {
			for _, nt := range []string{"", "u4+u6", "u4"} {
				c := gGenCfg{ct: "s", nt: nt, sr: mode + ":" + exts, ifaces: gIfaceTables[1]}
				if mode == "pina" {
					c.su = 1
				}
				emit("gather new " + c.String() + " " + c.ifaces)
				emit("gather gather")
				emit("gather restart")
				emit("gather gather2")
				emit("gather close")
				emit("gather end")
			}
		}
	}
	// 1d. every sub-range of the special-purpose classes (site-local fec0::/10, link-local fe80::/10, ::/96,
	// unique local, private / public IPv4, 127/8, 169.254/16) as interface address and as UDP mux listen address
	for _, md := range []bool{false, true} {
		c := gGenCfg{ct: "h", nt: "", lo: true, md: md, tm: "any",
			ifaces: "0:u:s6.1+s6.2+s6.3+s6.4+g6.1+g6.2+g6.3+g6.4/1:u:k6.1+k6.2+k6.3+k6.4+c6.1+c6.2+c6.3+c6.4/2:ul:l4.1+l4.2+l4.3+l4.4/3:u:g4.1+g4.2+g4.3+g4.4+k4.1+k4.2+k4.3+k4.4"}
		emit("gather new " + c.String() + " " + c.ifaces)
		emit("gather gather")
		emit("gather end")
		for _, um := range []string{"s6.1+s6.2+s6.3", "s6.4+c6.1+c6.2", "c6.3+c6.4+k6.2", "k6.3+k6.4+g6.2", "g6.3+g6.4+g4.2", "l4.2+k4.3+g4.3"} {
			c := gGenCfg{ct: "h", nt: "", md: md, um: um, ifaces: gIfaceTables[0]}
			emit("gather new " + c.String() + " " + c.ifaces)
			emit("gather gather")
			emit("gather end")
		}
	}
	// 1e. host rewrite rules: replace / append x catch-all / pinned / interface-scoped x external addresses of every
	// class (publishable, location-tracked, site-local, IPv4-compatible, ::1, ::, mixed families, twice the same,
	// an interface address) x own sockets / TCP mux / UDP mux x network types, with Restart and Close in between
	hrTbl := "0:u:g4.1+g6.1+k6.1/1:u:g4.2+g6.2/2:ul:l4.1"
	for _, exts := range []string{"x4.70", "x6.70", "x4.70+x6.70", "x4.70+x4.71+x6.70", "x4.70+x4.70", "k6.70", "k6.70+x6.70", "x4.70+k6.71+x6.70",
		"s6.70", "s6.71+x6.70", "x6.70+s6.72", "x4.70+s6.73+x6.70", "c6.70", "c6.71+x6.70", "x6.70+c6.72+x4.70", "c6.73+s6.70", "l6.1", "u6.0+x6.70",
		"x6.70+l6.1", "u4.0", "k4.70+l4.70", "g4.2", "g6.2+x4.70", "g4.1+x4.70"} {
		for _, shape := range []string{"rep:-:-", "app:-:-", "rep:g4.1:-", "app:g6.1:-", "rep:-:1", "app:g4.2:1", "rep:g4.2:0", "rep:l4.1:-", "rep:g4.9:-"} {
			for k, nt := range []string{"", "u4+u6", "u4+t4", "u6+t6", "u4+t6"} {
				c := gGenCfg{ct: "h", nt: nt, hr: shape + ":" + exts, lo: k%2 == 0, ifaces: hrTbl}
				switch k {
				case 0:
					c.tm = "any"
				case 1:
					c.um = "g4.1+g6.1+g4.2+k6.1"
				case 2:
					c.tm = "g4.1"
					if !gHostRuleMerges(c.hr, gAddrsOf(hrTbl)) {
						c.pmin, c.pmax = 5000, 5001
					} else {
						c.pmin, c.pmax = 5000, 5000
					}
				case 3:
					c.tm = "any"
					c.um = "g6.1+s6.1+g6.2"
				}
				emit("gather new " + c.String() + " " + c.ifaces)
				emit("gather gather")
				emit("gather restart")
				emit("gather gather2")
				emit("gather close")
				emit("gather end")
			}
		}
	}
	// constructor refusals: host rule in mDNS gather mode / without the host candidate type
	for _, c := range []gGenCfg{{ct: "h", md: true, hr: "rep:-:-:x4.70", ifaces: gIfaceTables[0]}, {ct: "s", su: 1, hr: "app:-:-:x4.70", ifaces: gIfaceTables[0]},
		{ct: "sr", su: 1, md: true, hr: "rep:g4.1:-:x4.70", ifaces: gIfaceTables[0]}} {
		emit("gather new " + c.String() + " " + c.ifaces)
	}
	// 2. port ranges: single port, exhausted, two ports with one busy, duplicates of one address
	for _, pr := range [][3]string{{"5000", "5000", ""}, {"5000", "5000", "g4.1:5000"}, {"5000", "5001", "g4.1:5000"},
		{"5000", "5001", "g4.1:5000+g4.1:5001"}, {"0", "1024", ""}, {"0", "1024", "g4.1:1024"}, {"65535", "65535", ""}, {"0", "0", ""}} {
		for _, tbl := range []string{"0:u:g4.1+g6.1", "0:u:g4.1/1:u:g4.1", "0:u:g4.1+g4.2/1:u:g4.1+g6.1"} {
			var pmin, pmax int
			fmt.Sscan(pr[0], &pmin)
			fmt.Sscan(pr[1], &pmax)
			c := gGenCfg{ct: "h", nt: "", pmin: pmin, pmax: pmax, busy: pr[2], ifaces: tbl}
			emit("gather new " + c.String() + " " + c.ifaces)
			emit("gather gather")
			emit("gather restart")
			emit("gather gather")
			emit("gather end")
		}
	}
	// 3. Restart / Close / Failed at every step of the reply scripts
	sys := []gGenCfg{
		{ct: "hs", nt: "u4", su: 2, ifaces: gIfaceTables[1]},
		{ct: "hsr", nt: "", su: 1, tu: 1, ifaces: gIfaceTables[2]},
		{ct: "sr", nt: "u4+u6", su: 1, tu: 1, rif: "n", ifaces: gIfaceTables[4]},
		{ct: "r", nt: "u4", tu: 2, rr: "app", ifaces: gIfaceTables[0]},
		{ct: "r", nt: "u4", tu: 1, rr: "drop", ifaces: gIfaceTables[0]},
		{ct: "hs", nt: "u4+u6", su: 2, sm: "g4.1", um: "g4.1+g6.1", ifaces: gIfaceTables[1]},
		{ct: "s", nt: "u4", su: 1, sr: "rep2", ifaces: gIfaceTables[0]},
		{ct: "hs", nt: "u4", su: 1, um: "g4.1", hold: true, ifaces: gIfaceTables[0]},
	}
	if !thorough {
		sys = sys[:5]
	}
	gSystematic(o, r, emit, sys)
	// 4. the stale-cycle window of the mux (F12): gather, restart, release
	for _, um := range []string{"g4.1", "g4.1+g6.1"} {
		c := gGenCfg{ct: "h", nt: "", um: um, hold: true, tm: "any", ifaces: gIfaceTables[1]}
		emit("gather new " + c.String() + " " + c.ifaces)
		emit("gather gather")
		emit("gather restart")
		emit("gather release")
		emit("gather gather")
		emit("gather end")
	}
	// 4b. the check/hand-off window of addCandidate under the real scheduler (S5)
	if thorough {
		emit("gather stress 20000")
	} else {
		emit("gather stress 2500")
	}
	// 4a'. every kind of local candidate, with and without the mDNS name
	gAddrKinds(emit)
	// 4b'. TURN URLs without credentials
	gTurnCreds(emit)
	// 4c. continual gathering (GatherContinually + monitor interval): the interface table changes during the session
	gContinual(emit)
	// 5. random configuration product x random scripts
	n := 700
	maxOps := 10
	if thorough {
		n = 120000
		maxOps = 16
	}
	if len(args) > 0 {
		fmt.Sscan(args[0], &n)
	}
	for i := 0; i < n; i++ {
		c := gRandCfg(r)
		o.stat("ct." + c.ct)
		if c.nt == "" {
			o.stat("nt.empty")
		}
		gRandSession(o, r, c, emit, maxOps)
	}
}
