//go:build verif

package ice

import (
	"encoding/hex"
	"errors"
	"fmt"
	"hash/crc32"
	"net"
	"net/netip"
	"strconv"
	"strings"
)

// C16: candidate text form, constructors, Equal / DeepEqual (see lean/Driver/CandText.lean for the
// operation vocabulary). Two harness components share one exec: `cand` (round trips, parsing,
// address/CRC sampling) and `candeq` (equality laws on pairs); both emit lines that start with "cand".
func init() {
	vComponents["cand"] = &vComp{gen: vCandGen, exec: vCandExec}
	vComponents["candeq"] = &vComp{gen: vCandEqGen, exec: vCandExec}
}

func vH(s string) string { return "h" + hex.EncodeToString([]byte(s)) }

func vUnH(s string) (string, bool) {
	if !strings.HasPrefix(s, "h") {
		return "", false
	}
	b, err := hex.DecodeString(s[1:])
	if err != nil {
		return "", false
	}

	return string(b), true
}

func vCandErrKind(err error) string {
	switch {
	case errors.Is(err, errParseFoundation):
		return "foundation"
	case errors.Is(err, errAttributeTooShortICECandidate):
		return "tooShort"
	case errors.Is(err, errParseComponent):
		return "component"
	case errors.Is(err, errParsePriority):
		return "priority"
	case errors.Is(err, errParsePort):
		return "port"
	case errors.Is(err, ErrUnknownCandidateTyp):
		return "typ"
	case errors.Is(err, errParseRelatedAddr):
		return "relAddr"
	case errors.Is(err, errParseTCPType):
		return "tcpType"
	case errors.Is(err, errParseExtension):
		return "ext"
	case errors.Is(err, ErrDetermineNetworkType):
		return "netType"
	}

	return "addr" // netip.ParseAddr's error type is not exported
}

// vCandObs prints the public getters of a candidate.
func vCandObs(c Candidate) string {
	rel := "-"
	if r := c.RelatedAddress(); r != nil {
		rel = hex.EncodeToString([]byte(r.Address)) + ":" + strconv.Itoa(r.Port)
	}
	xs := "-"
	if ex := c.Extensions(); len(ex) > 0 {
		parts := make([]string, len(ex))
		for i, e := range ex {
			parts[i] = hex.EncodeToString([]byte(e.Key)) + ":" + hex.EncodeToString([]byte(e.Value))
		}
		xs = strings.Join(parts, ",")
	}

	return fmt.Sprintf("f=%s c=%d n=%d p=%d a=%s o=%d t=%d r=%s tt=%d x=%s",
		hex.EncodeToString([]byte(c.Foundation())), c.Component(), int(c.NetworkType()), c.Priority(),
		hex.EncodeToString([]byte(c.Address())), c.Port(), int(c.Type()), rel, int(c.TCPType()), xs)
}

// vCandBuild runs one public constructor and then AddExtension for every listed extension.
func vCandBuild(a []string) (Candidate, int, error, bool) {
	if len(a) != 12 {
		return nil, 0, nil, false
	}
	nw, ok1 := vUnH(a[1])
	ad, ok2 := vUnH(a[2])
	po, e1 := strconv.Atoi(a[3])
	co, e2 := strconv.ParseUint(a[4], 10, 16)
	pr, e3 := strconv.ParseUint(a[5], 10, 32)
	fo, ok3 := vUnH(a[6])
	tt, e4 := strconv.Atoi(a[7])
	ra, ok4 := vUnH(a[8])
	rp, e5 := strconv.Atoi(a[9])
	rl, ok5 := vUnH(a[10])
	if !(ok1 && ok2 && ok3 && ok4 && ok5) || e1 != nil || e2 != nil || e3 != nil || e4 != nil || e5 != nil {
		return nil, 0, nil, false
	}
	var c Candidate
	var err error
	switch a[0] {
	case "host":
		c, err = NewCandidateHost(&CandidateHostConfig{CandidateID: "x", Network: nw, Address: ad, Port: po,
			Component: uint16(co), Priority: uint32(pr), Foundation: fo, TCPType: TCPType(tt)})
	case "srflx":
		c, err = NewCandidateServerReflexive(&CandidateServerReflexiveConfig{CandidateID: "x", Network: nw, Address: ad,
			Port: po, Component: uint16(co), Priority: uint32(pr), Foundation: fo, RelAddr: ra, RelPort: rp})
	case "prflx":
		c, err = NewCandidatePeerReflexive(&CandidatePeerReflexiveConfig{CandidateID: "x", Network: nw, Address: ad,
			Port: po, Component: uint16(co), Priority: uint32(pr), Foundation: fo, RelAddr: ra, RelPort: rp})
	case "relay":
		c, err = NewCandidateRelay(&CandidateRelayConfig{CandidateID: "x", Network: nw, Address: ad, Port: po,
			Component: uint16(co), Priority: uint32(pr), Foundation: fo, RelAddr: ra, RelPort: rp, RelayProtocol: rl})
	default:
		return nil, 0, nil, false
	}
	if err != nil {
		return nil, 0, err, true
	}
	bad := 0
	if a[11] != "-" {
		for _, kv := range strings.Split(a[11], ",") {
			k, v, ok := strings.Cut(kv, ":")
			kb, e6 := hex.DecodeString(k)
			vb, e7 := hex.DecodeString(v)
			if !ok || e6 != nil || e7 != nil {
				return nil, 0, nil, false
			}
			if c.AddExtension(CandidateExtension{Key: string(kb), Value: string(vb)}) != nil {
				bad++
			}
		}
	}

	return c, bad, nil, true
}

func vBit(b bool) string {
	if b {
		return "1"
	}

	return "0"
}

func vCandSide(s string) (Candidate, bool) {
	f := strings.Split(s, ";")
	switch {
	case len(f) == 2 && f[0] == "P":
		raw, ok := vUnH(f[1])
		if !ok {
			return nil, false
		}
		c, err := UnmarshalCandidate(raw)

		return c, err == nil
	case len(f) == 13 && f[0] == "B":
		c, _, err, ok := vCandBuild(f[1:])

		return c, ok && err == nil
	}

	return nil, false
}

// vAddrKey prints a netip.Addr so that two addresses print alike iff they are ==: the 4 or 16 address
// bytes, then "%" and the zone if there is one (a 4-in-6 address is never passed here un-Unmapped, so
// the length tells z4 from z6).
func vAddrKey(a netip.Addr) string {
	k := "k" + hex.EncodeToString(a.AsSlice())
	if z := a.Zone(); z != "" {
		k += "25" + hex.EncodeToString([]byte(z))
	}

	return k
}

// vResolvedKey is the IP addrEqual looks at for a candidate whose resolved address was built from ip
// the way the constructors build it (IP: ip.AsSlice(), Zone: ip.Zone()).
func vResolvedKey(a net.Addr) string {
	rip, _, _, err := parseAddr(a)
	if err != nil {
		return "-"
	}

	return vAddrKey(rip)
}

func vCandExec(o *vOut, t []string) string {
	if len(t) < 2 {
		return "bad-op"
	}
	switch {
	case t[1] == "cls" && len(t) == 3:
		s, ok := vUnH(t[2])
		if !ok {
			return "bad-op"
		}
		ip, err := netip.ParseAddr(s)
		switch {
		case err != nil:
			o.stat("cls.invalid")
			return "0"
		case ip.Unmap().Is4():
			o.stat("cls.v4")
			return "4"
		}
		o.stat("cls.v6")

		return "6"
	case t[1] == "canon" && len(t) == 3:
		s, ok := vUnH(t[2])
		if !ok {
			return "bad-op"
		}
		ip, err := netip.ParseAddr(s)
		if err != nil {
			o.stat("canon.invalid")
			return "0 - - -"
		}
		cls := "6"
		if ip.Unmap().Is4() {
			cls = "4"
		}
		can := canonicalAddr(ip)
		switch {
		case can != ip && ip.Zone() != "":
			o.stat("canon.zone-dropped")
		case can != ip:
			o.stat("canon.unmapped")
		case ip.Zone() != "":
			o.stat("canon.zone-kept")
		default:
			o.stat("canon.same")
		}
		// srflx / relay store a *net.UDPAddr literal, host / prflx call createAddr
		viaUDP := vResolvedKey(&net.UDPAddr{IP: ip.AsSlice(), Port: 9, Zone: ip.Zone()})
		viaTCP := vResolvedKey(createAddr(NetworkTypeTCP4, ip, 9))

		return cls + " " + vAddrKey(can) + " " + viaUDP + " " + viaTCP
	case t[1] == "crc" && len(t) == 3:
		s, ok := vUnH(t[2])
		if !ok {
			return "bad-op"
		}
		o.stat("crc")

		return strconv.FormatUint(uint64(crc32.ChecksumIEEE([]byte(s))), 10)
	case t[1] == "rt" && len(t) == 14:
		c, bad, err, ok := vCandBuild(t[2:])
		if !ok {
			return "bad-op"
		}
		if err != nil {
			o.stat("rt.build-err." + vCandErrKind(err))
			return "build-err:" + vCandErrKind(err)
		}
		text := c.Marshal()
		c2, err := UnmarshalCandidate(text)
		ps, fl := "", "e=0 d=0 er=0 dr=0"
		if err != nil {
			ps = "err:" + vCandErrKind(err)
			o.stat("rt.reparse-err." + vCandErrKind(err))
		} else {
			ps = vCandObs(c2)
			fl = fmt.Sprintf("e=%s d=%s er=%s dr=%s", vBit(c2.Equal(c)), vBit(c2.DeepEqual(c)), vBit(c.Equal(c2)), vBit(c.DeepEqual(c2)))
			o.stat(fmt.Sprintf("rt.ok.%s.%s.tt%d.x%d", c.Type(), c.NetworkType(), int(c.TCPType()), len(c.Extensions())))
		}

		return fmt.Sprintf("ok xe=%d T=%s | %s | %s | %s", bad, hex.EncodeToString([]byte(text)), vCandObs(c), ps, fl)
	case t[1] == "parse" && len(t) == 3:
		raw, ok := vUnH(t[2])
		if !ok {
			return "bad-op"
		}
		c, err := UnmarshalCandidate(raw)
		if err != nil {
			o.stat("parse.err." + vCandErrKind(err))
			return "err:" + vCandErrKind(err)
		}
		t2 := c.Marshal()
		c2, err := UnmarshalCandidate(t2)
		ps, fl := "", "e=0 er=0 d=0 dr=0"
		if err != nil {
			ps = "err:" + vCandErrKind(err)
			o.stat("parse.ok.reparse-err")
		} else {
			ps = vCandObs(c2)
			fl = fmt.Sprintf("e=%s er=%s d=%s dr=%s", vBit(c.Equal(c2)), vBit(c2.Equal(c)), vBit(c.DeepEqual(c2)), vBit(c2.DeepEqual(c)))
			o.stat("parse.ok." + c.Type().String())
		}

		return fmt.Sprintf("ok %s | T=%s | %s | %s", vCandObs(c), hex.EncodeToString([]byte(t2)), ps, fl)
	case t[1] == "eq" && len(t) == 4:
		a, ok1 := vCandSide(t[2])
		b, ok2 := vCandSide(t[3])
		if !ok1 || !ok2 {
			o.stat("eq.side-err")
			return "side-err"
		}
		r := vBit(a.Equal(a)) + vBit(a.DeepEqual(a)) + vBit(b.Equal(b)) + vBit(b.DeepEqual(b)) +
			vBit(a.Equal(b)) + vBit(b.Equal(a)) + vBit(a.DeepEqual(b)) + vBit(b.DeepEqual(a))
		o.stat("eq." + r[4:])

		return r
	case t[1] == "eq3" && len(t) == 5:
		a, ok1 := vCandSide(t[2])
		b, ok2 := vCandSide(t[3])
		c, ok3 := vCandSide(t[4])
		if !ok1 || !ok2 || !ok3 {
			o.stat("eq3.side-err")
			return "side-err"
		}
		ps := [][2]Candidate{{a, b}, {b, c}, {a, c}, {b, a}, {c, b}, {c, a}}
		r := ""
		for _, p := range ps {
			r += vBit(p[0].Equal(p[1]))
		}
		for _, p := range ps {
			r += vBit(p[0].DeepEqual(p[1]))
		}
		o.stat("eq3.E" + r[0:3] + ".D" + r[6:9])

		return r
	}

	return "bad-op"
}

// ---- generators -------------------------------------------------------------------------------

type vCandSpec struct {
	typ, net, addr           string
	port, comp               int
	prio                     uint32
	found                    string
	tt                       int
	raddr                    string
	rport                    int
	relay                    string
	exts                     [][2]string
}

func (s vCandSpec) args(sep string) string {
	xs := "-"
	if len(s.exts) > 0 {
		p := make([]string, len(s.exts))
		for i, e := range s.exts {
			p[i] = hex.EncodeToString([]byte(e[0])) + ":" + hex.EncodeToString([]byte(e[1]))
		}
		xs = strings.Join(p, ",")
	}

	return strings.Join([]string{s.typ, vH(s.net), vH(s.addr), strconv.Itoa(s.port), strconv.Itoa(s.comp),
		strconv.FormatUint(uint64(s.prio), 10), vH(s.found), strconv.Itoa(s.tt), vH(s.raddr), strconv.Itoa(s.rport),
		vH(s.relay), xs}, sep)
}

var (
	vCandTypes  = []string{"host", "srflx", "prflx", "relay"}
	vCandNets   = []string{"udp", "tcp", "UDP", "TCP", "udp4", "tcp6", "Udp", "tcP-x"}
	vCandBadNet = []string{"", "ud", "sctp", "xudp", " udp", "\xc4\xb0dp"}
	vCandAddrs  = []string{"10.0.0.1", "0.0.0.0", "255.255.255.255", "192.168.1.77", "::1", "::", "2001:db8::7",
		"2001:DB8:0:0:0:0:0:7", "fe80::1", "::ffff:1.2.3.4", "::ffff:102:304", "0:0:0:0:0:ffff:a00:1", "64:ff9b::1.2.3.4",
		"a.local", "6e1a7f3c-22b0-4c0e-8d3a-1f2e3d4c5b6a.local", "x.invalid", ".local"}
	vCandBadAddrs = []string{"", "1.2.3", "1.2.3.4.5", "01.2.3.4", "256.1.1.1", "1.2.3.4 ", "a b.local", "fe80::1%eth0",
		"fe80::1%", "::ffff:1.2.3.4%z", ":::", "1::2::3", "12345::", "g::1", "1:2:3:4:5:6:7:8:9", "::1.2.3", "local", "x.local.", "%eth0",
		"1.2.3.4%eth0", "\xff.local", "1:2:3:4:5:6:1.2.3.4", "1:2:3:4:5:6:7:1.2.3.4", "::1.2.3.4", "1.2.3.4:5"}
	vCandRel = []struct {
		a string
		p int
	}{{"", 0}, {"0.0.0.0", 0}, {"1.2.3.4", 0}, {"10.9.9.9", 9}, {"::", 65535}, {"2001:db8::1", 443}, {"rel.local", 1}, {"x", 65535}}
	vCandBadRel = []struct {
		a string
		p int
	}{{"", 5}, {"a b", 1}, {"1.2.3.4", 65536}, {"1.2.3.4", 100000}, {" ", 0}}
	vCandComps  = []int{1, 2, 0, 255, 256, 257, 512, 768, 1024, 65535}
	vCandPrios  = []uint32{0, 1, 2130706431, 1694498815, 1<<31 - 1, 1 << 31, 1<<32 - 1, 16777215, 100}
	vCandPorts  = []int{9, 0, 1, 80, 65535, 50000}
	vCandBadPts = []int{65536, 99999, 100000}
	vCandFounds = []string{"", " ", "0", "abc", "candidate", "AZaz09+/", strings.Repeat("a", 32), "4207374052", "1"}
	vCandBadFnd = []string{strings.Repeat("b", 33), "a:b", "a b", "  ", "é", "candidate:1", "a\x00"}
	vCandRelays = []string{"udp", "tcp", "dtls", "tls", "", "quic"}
	vCandKeys   = []string{"generation", "ufrag", "network-id", "network-cost", "a", "k", "raddr", "rport", "typ", "TCPTYPE",
		"\xc3\xa9", "x\x01y", "\x7f", "tcptyp", "tcptypes"}
	vCandBadKey = []string{"", "tcptype", "a b", " ", "\xff", "\xc4\x80", "a\nb", "a\x00", "\xc3", "a\rb", "\xc2 "}
	vCandVals   = []string{"0", "1", "", "abc", "EsAw", "active", "10.0.0.1", "\xc3\xbf", "\xc2\x80", "v\tw", "raddr", "rport", "tcptype"}
	vCandBadVal = []string{"a b", "\xff", "\xc5\x80", "a\nb", "\x00", " ", "\xe2\x82\xac", "\xc3"}
	vCandTTVals = []string{"active", "passive", "so", "ACTIVE", "Passive", "sO", "", "bogus", "activ", "so ", "actİve"}
)

// vCandFamilies: every row lists literal forms of ONE canonical address (canonicalAddr: Unmap, zone kept
// only on IPv6 link-local), or strings that are no IP literal at all; different rows are different
// addresses, most of them near misses of a neighbouring row (other zone, zone on link-local vs global,
// IPv4-compatible instead of IPv4-mapped, upper-case zone, mDNS names that differ in case).
var vCandFamilies = [][]string{
	{"10.0.0.1", "::ffff:10.0.0.1", "::ffff:a00:1", "0:0:0:0:0:ffff:a00:1", "::FFFF:10.0.0.1", "0000:0000:0000:0000:0000:ffff:0a00:0001",
		"::ffff:10.0.0.1%z", "::FFFF:A00:1%eth0", "0:0:0:0:0:ffff:10.0.0.1"},
	{"1.2.3.4", "::ffff:1.2.3.4", "::ffff:102:304", "::ffff:1.2.3.4%z", "0::ffff:0102:0304"},
	{"::1.2.3.4", "::102:304", "0:0:0:0:0:0:1.2.3.4", "::0102:0304%eth0"}, // IPv4-compatible: stays IPv6
	{"64:ff9b::1.2.3.4", "64:ff9b::102:304", "64:FF9B:0:0:0:0:102:304"},
	{"0.0.0.0", "::ffff:0.0.0.0", "::ffff:0:0", "0:0:0:0:0:ffff::"},
	{"::", "0:0:0:0:0:0:0:0", "0::", "::0", "::0.0.0.0", "::%z"},
	{"::1", "0:0:0:0:0:0:0:1", "::0:1", "::1%lo", "0000::0001", "::0.0.0.1"},
	{"2001:db8::7", "2001:DB8:0:0:0:0:0:7", "2001:0db8:0000:0000:0000:0000:0000:0007", "2001:db8:0::7", "2001:db8::0:7", "2001:db8::7%eth0",
		"2001:Db8::7%1", "2001:db8::0.0.0.7"},
	{"2001:db8::70", "2001:db8::0070"},
	{"fe80::1", "FE80::1", "fe80:0:0:0:0:0:0:1", "fe80::0:1", "fe80::0.0.0.1"},
	{"fe80::1%eth0", "FE80:0::1%eth0", "fe80:0:0:0:0:0:0:1%eth0"},
	{"fe80::1%eth1", "Fe80::1%eth1"},
	{"fe80::1%ETH0", "fe80::0001%ETH0"},
	{"fe80::1%eth0%x", "FE80::1%eth0%x"},
	{"febf::1%eth0", "FEBF::1%eth0"}, // still fe80::/10
	{"fec0::1%eth0", "fec0::1", "FEC0::1%eth1"}, // site-local: zone dropped
	{"ff02::1%eth0", "FF02:0::1%eth0"}, // link-local multicast: zone kept
	{"ff02::1", "ff02::0:1"},
	{"ff02::1%eth1"},
	{"ff12::1%eth0", "FF12::1%eth0"}, // flags 1, scope 2: link-local multicast too
	{"ff05::1%eth0", "ff05::1", "FF05::1%eth1"}, // site-local multicast: zone dropped
	{"169.254.1.1", "::ffff:169.254.1.1", "::ffff:169.254.1.1%eth0", "::ffff:a9fe:101%eth1"}, // IPv4 link-local: Unmap drops the zone
	{"192.168.1.77", "::ffff:192.168.1.77", "::ffff:c0a8:14d"},
	{"255.255.255.255", "::ffff:255.255.255.255", "::ffff:ffff:ffff", "::FFFF:FFFF:FFFF"},
	{"ffff:ffff:ffff:ffff:ffff:ffff:ffff:ffff", "FFFF:FFFF:FFFF:FFFF:FFFF:FFFF:255.255.255.255"},
	// names that are no IP literal (host candidates only): equal to themselves only
	{"a.local"}, {"A.local"}, {"a.local."}, {"x.invalid"}, {".local"}, {"10.0.0.1.local"}, {"::ffff:10.0.0.1.local"}, {"fe80::1.local"},
	// IP literals whose ZONE makes the host constructor take them for an mDNS name (resolved address nil)
	{"2001:db8::7%x.local", "2001:DB8::7%y.local", "2001:db8::7%z.invalid"},
	{"fe80::1%x.local", "FE80::1%x.local"},
	{"fe80::1%y.local"},
	{"::ffff:10.0.0.1%x.local", "::ffff:a00:1%y.local"},
}

// strings no constructor accepts (side-err on eq lines; sampled by cls / canon)
var vCandNoAddr = []string{"", "1.2.3", "01.2.3.4", "g::1", "fe80::1%", "%eth0", "10.0.0.1%eth0", "::ffff:10.0.0.1:", "1.2.3.4.", "local"}

func vCandAllLiterals() []string {
	var l []string
	for _, f := range vCandFamilies {
		l = append(l, f...)
	}

	return l
}

// vCandLiteral draws an address: mostly another member of the family of `like` (if it has one), else any listed literal.
func vCandLiteral(r *vRand, like string) string {
	if r.chance(2, 3) {
		for _, f := range vCandFamilies {
			for _, m := range f {
				if m == like {
					return vPick(r, f)
				}
			}
		}
	}

	return vPick(r, vPick(r, vCandFamilies))
}

func vPick[T any](r *vRand, l []T) T { return l[r.intn(len(l))] }

// vCandDefault is the base point of the one-dimension-at-a-time sweep.
func vCandDefault(typ string) vCandSpec {
	s := vCandSpec{typ: typ, net: "udp", addr: "10.0.0.1", port: 9, comp: 1, prio: 0, found: "", relay: "udp"}
	if typ != "host" {
		s.raddr, s.rport = "10.9.9.9", 9
	}

	return s
}

// vCandRandom draws a candidate specification; `wild` also draws values outside the property's domain.
func vCandRandom(r *vRand, wild bool) vCandSpec {
	s := vCandSpec{typ: vPick(r, vCandTypes), net: vPick(r, vCandNets), addr: vPick(r, vCandAddrs), port: vPick(r, vCandPorts),
		comp: vPick(r, vCandComps), prio: vPick(r, vCandPrios), found: vPick(r, vCandFounds), relay: vPick(r, vCandRelays)}
	switch r.intn(6) {
	case 0:
		s.port = r.intn(65536)
		s.comp = r.intn(65536)
		s.prio = uint32(r.next())
	case 1:
		s.addr = fmt.Sprintf("%d.%d.%d.%d", r.intn(256), r.intn(256), r.intn(256), r.intn(256))
	case 2:
		s.addr = fmt.Sprintf("%x:%x::%x", r.intn(65536), r.intn(65536), r.intn(65536))
	case 3:
		s.addr = vPick(r, vPick(r, vCandFamilies))
	}
	if s.typ == "host" {
		if r.chance(1, 2) {
			s.tt = r.intn(4)
		}
	} else {
		rel := vPick(r, vCandRel)
		s.raddr, s.rport = rel.a, rel.p
	}
	n := r.intn(4)
	if r.chance(1, 3) {
		n = 0
	}
	for i := 0; i < n; i++ {
		k, v := vPick(r, vCandKeys), vPick(r, vCandVals)
		if r.chance(1, 6) && len(s.exts) > 0 {
			k = s.exts[r.intn(len(s.exts))][0] // duplicate key: AddExtension overwrites
		}
		s.exts = append(s.exts, [2]string{k, v})
	}
	if wild {
		switch r.intn(12) {
		case 0:
			s.net = vPick(r, vCandBadNet)
		case 1:
			s.addr = vPick(r, vCandBadAddrs)
		case 2:
			rel := vPick(r, vCandBadRel)
			s.raddr, s.rport = rel.a, rel.p
		case 3:
			s.port = vPick(r, vCandBadPts)
		case 4:
			s.found = vPick(r, vCandBadFnd)
		case 5:
			s.exts = append(s.exts, [2]string{vPick(r, vCandBadKey), vPick(r, vCandVals)})
		case 6:
			s.exts = append(s.exts, [2]string{vPick(r, vCandKeys), vPick(r, vCandBadVal)})
		case 7:
			s.exts = append(s.exts, [2]string{"tcptype", vPick(r, vCandTTVals)}) // AddExtension sets the TCP type, on any type
		case 8:
			s.exts = append([][2]string{{"raddr", vPick(r, vCandVals)}}, s.exts...)
		}
	}

	return s
}

// vCandText is a syntactically reasonable candidate line drawn directly from the grammar
// (so it also covers what the constructors cannot produce: duplicate keys, tcptype anywhere, prefix).
func vCandText(r *vRand) string {
	var b []string
	f := vPick(r, vCandFounds)
	if f == " " {
		f = ""
	}
	typ := vPick(r, vCandTypes)
	b = append(b, f, strconv.Itoa(vPick(r, vCandComps)), vPick(r, vCandNets), strconv.FormatUint(uint64(vPick(r, vCandPrios)), 10),
		vPick(r, vCandAddrs), strconv.Itoa(vPick(r, vCandPorts)), "typ", typ)
	if r.chance(2, 3) {
		rel := vPick(r, vCandRel)
		b = append(b, "raddr", rel.a, "rport", strconv.Itoa(rel.p))
	}
	n := r.intn(4)
	for i := 0; i < n; i++ {
		k, v := vPick(r, vCandKeys), vPick(r, vCandVals)
		switch r.intn(8) {
		case 0:
			k, v = "tcptype", vPick(r, vCandTTVals)
		case 1:
			if i > 0 {
				k = b[len(b)-2]
			}
		case 2:
			k = ""
		}
		b = append(b, k, v)
	}
	s := strings.Join(b, " ")
	if r.chance(1, 8) {
		s = "candidate:" + s
	}

	return s
}

// vCandSpell writes a random IPv6 (or IPv4-mapped) address in a random one of its literal forms.
func vCandSpell(r *vRand) string {
	var g [8]int
	for i := range g {
		if r.chance(1, 2) {
			g[i] = vPick(r, []int{0, 1, 0xffff, 0xa00, 0x102, 0xdb8, 7, 0x10, 0xabcd})
		} else if r.chance(1, 2) {
			g[i] = r.intn(65536)
		}
	}
	switch r.intn(8) {
	case 0, 1:
		g[0] = vPick(r, []int{0xfe80, 0xfe81, 0xfebf, 0xfec0, 0xfe7f, 0xfe00})
	case 2:
		g[0] = vPick(r, []int{0xff02, 0xff12, 0xfff2, 0xff01, 0xff05, 0xff20, 0xfe02})
	case 3, 4:
		g = [8]int{0, 0, 0, 0, 0, vPick(r, []int{0xffff, 0xffff, 0xffff, 0, 0xfffe}), g[6], g[7]}
	}
	fm := vPick(r, []string{"%x", "%x", "%X", "%04x", "%04X"})
	parts := make([]string, 8)
	for i, v := range g {
		parts[i] = fmt.Sprintf(fm, v)
	}
	n := 8
	if r.chance(1, 3) { // dotted tail
		parts[6] = fmt.Sprintf("%d.%d.%d.%d", g[6]>>8, g[6]&255, g[7]>>8, g[7]&255)
		parts = parts[:7]
		n = 7
	}
	a := strings.Join(parts, ":")
	if r.chance(2, 3) { // compress one run of zero groups (not necessarily the longest or the first)
		for try := 0; try < 4; try++ {
			i := r.intn(n)
			if g[i] != 0 || (n == 7 && i == 6) {
				continue
			}
			j := i
			for j+1 < n && g[j+1] == 0 && !(n == 7 && j+1 == 6) && r.chance(3, 4) {
				j++
			}
			a = strings.Join(parts[:i], ":") + "::" + strings.Join(parts[j+1:], ":")

			break
		}
	}
	if r.chance(1, 3) {
		a += "%" + vPick(r, []string{"eth0", "eth1", "1", "ETH0", "x.local", "z%z"})
	}

	return a
}

var vCandMutBytes = []byte(" 0159:.%+/azAZ\x00\n\r\t\xc3\xa9\xff\xc2\x80-")

func vCandMutate(r *vRand, s string) string {
	b := []byte(s)
	k := 1 + r.intn(3)
	for i := 0; i < k; i++ {
		toks := strings.Split(string(b), " ")
		switch r.intn(10) {
		case 0: // delete a byte
			if len(b) > 0 {
				p := r.intn(len(b))
				b = append(b[:p:p], b[p+1:]...)
			}
		case 1: // insert a byte
			p := r.intn(len(b) + 1)
			b = append(b[:p:p], append([]byte{vPick(r, vCandMutBytes)}, b[p:]...)...)
		case 2: // replace a byte
			if len(b) > 0 {
				b[r.intn(len(b))] = vPick(r, vCandMutBytes)
			}
		case 3: // truncate
			if len(b) > 0 {
				b = b[:r.intn(len(b)+1)]
			}
		case 4: // delete a token
			p := r.intn(len(toks))
			b = []byte(strings.Join(append(toks[:p:p], toks[p+1:]...), " "))
		case 5: // duplicate a token
			p := r.intn(len(toks))
			b = []byte(strings.Join(append(toks[:p+1:p+1], toks[p:]...), " "))
		case 6: // swap two tokens
			p, q := r.intn(len(toks)), r.intn(len(toks))
			toks[p], toks[q] = toks[q], toks[p]
			b = []byte(strings.Join(toks, " "))
		case 7: // replace a token by an interesting one
			p := r.intn(len(toks))
			toks[p] = vPick(r, []string{"", "0", "65535", "65536", "99999", "100000", "4294967295", "4294967296", "9999999999", "10000000000",
				"typ", "raddr", "rport", "tcptype", "host", "srflx", "prflx", "relay", "active", "so", "udp", "tcp", "::1", "1.2.3.4", "a.local",
				"fe80::1%eth0", "00001", "000001", "-1", "+1", strings.Repeat("a", 32), strings.Repeat("a", 33)})
			b = []byte(strings.Join(toks, " "))
		case 8: // append tokens
			b = append(b, []byte(" "+vPick(r, vCandKeys)+" "+vPick(r, vCandVals))...)
		case 9: // change case / add a trailing space
			if r.chance(1, 2) {
				b = []byte(strings.ToUpper(string(b)))
			} else {
				b = append(b, ' ')
			}
		}
	}

	return string(b)
}

func vCandGen(o *vOut, r *vRand, thorough bool, _ []string, emit func(string)) {
	rt := func(s vCandSpec) { emit("cand rt " + s.args(" ")) }
	// 1. related-address forms on every non-host type first (0.0.0.0:0 is named by the property)
	for _, typ := range vCandTypes[1:] {
		for _, rel := range vCandRel {
			s := vCandDefault(typ)
			s.raddr, s.rport = rel.a, rel.p
			rt(s)
		}
	}
	// 2. one dimension at a time around a default candidate of each type
	for _, typ := range vCandTypes {
		d := vCandDefault(typ)
		rt(d)
		for _, v := range append(append([]string{}, vCandNets...), vCandBadNet...) {
			s := d
			s.net = v
			rt(s)
			s.addr = "2001:db8::7"
			rt(s)
			s.addr = "::ffff:1.2.3.4"
			rt(s)
			s.addr = "a.local"
			rt(s)
		}
		for _, v := range append(append(append([]string{}, vCandAddrs...), vCandBadAddrs...), vCandAllLiterals()...) {
			s := d
			s.addr = v
			rt(s)
			s.net = "tcp"
			rt(s)
		}
		for _, v := range append(append([]int{}, vCandPorts...), vCandBadPts...) {
			s := d
			s.port = v
			rt(s)
		}
		for _, v := range vCandComps {
			s := d
			s.comp = v
			rt(s)
			for _, rl := range vCandRelays {
				s.relay = rl
				rt(s)
				s.net = "tcp"
				rt(s)
				s.net = "udp"
			}
		}
		for _, v := range vCandPrios {
			s := d
			s.prio = v
			rt(s)
		}
		for _, v := range append(append([]string{}, vCandFounds...), vCandBadFnd...) {
			s := d
			s.found = v
			rt(s)
		}
		for tt := 0; tt < 4; tt++ {
			for _, nw := range []string{"udp", "tcp"} {
				for _, ad := range []string{"10.0.0.1", "2001:db8::7", "::ffff:1.2.3.4", "a.local"} {
					s := d
					s.tt, s.net, s.addr = tt, nw, ad
					rt(s)
					s.exts = [][2]string{{"generation", "0"}, {"ufrag", "EsAw"}}
					rt(s)
				}
			}
		}
		for _, rel := range vCandBadRel {
			s := d
			s.raddr, s.rport = rel.a, rel.p
			rt(s)
		}
		for _, k := range append(append([]string{}, vCandKeys...), vCandBadKey...) {
			for _, v := range []string{"v", ""} {
				s := d
				s.exts = [][2]string{{k, v}}
				rt(s)
				s.exts = [][2]string{{"a", "b"}, {k, v}}
				rt(s)
				s.exts = [][2]string{{k, v}, {"a", ""}}
				rt(s)
				s.tt = 2
				rt(s)
			}
		}
		for _, v := range append(append([]string{}, vCandVals...), vCandBadVal...) {
			s := d
			s.exts = [][2]string{{"k", v}}
			rt(s)
			s.exts = [][2]string{{"k", v}, {"k2", v}, {"k", "w"}}
			rt(s)
		}
		for _, v := range vCandTTVals {
			s := d
			s.exts = [][2]string{{"tcptype", v}}
			rt(s)
		}
	}
	// 3. address classifier and CRC samples
	for _, a := range append(append(append(append([]string{}, vCandAddrs...), vCandBadAddrs...), vCandAllLiterals()...), vCandNoAddr...) {
		emit("cand cls " + vH(a))
		emit("cand canon " + vH(a))
		emit("cand crc " + vH("host"+a+"udp4"))
	}
	// ... and the literals as they arrive in a candidate line (the parser cuts the zone off)
	for _, a := range vCandAllLiterals() {
		parseText := "a 1 udp 1 " + a + " 5 typ host"
		emit("cand parse " + vH(parseText))
		emit("cand parse " + vH("a 1 tcp 1 "+a+" 5 typ srflx raddr "+a+" rport 5"))
	}
	nAddr, nRT, nText, nMut, nRaw := 6000, 20000, 10000, 40000, 6000
	if thorough {
		nAddr, nRT, nText, nMut, nRaw = 400000, 1200000, 600000, 2500000, 400000
	}
	addrBytes := []byte("0123456789abcdefABCDEF:.%:.:.0g ")
	for i := 0; i < nAddr; i++ {
		var a string
		switch r.intn(7) {
		case 0:
			a = vCandMutate(r, vPick(r, vCandAddrs))
		case 4, 5:
			a = vCandMutate(r, vPick(r, vPick(r, vCandFamilies)))
			if r.chance(1, 2) {
				a = vCandMutate(r, vCandSpell(r))
			}
		case 3, 6:
			// a valid literal re-spelt: 8 groups (link-local / multicast / mapped / ordinary prefixes), random case,
			// leading zeros, one run of zero groups compressed, dotted tail, zone
			a = vCandSpell(r)
		case 1:
			n := r.intn(5) + 2
			p := make([]string, n)
			for j := range p {
				p[j] = vPick(r, []string{"0", "1", "255", "256", "00", "9", "", "ffff", "FFFF", "10000", "a", "1.2.3.4", "01"})
			}
			a = strings.Join(p, vPick(r, []string{".", ":", ":", "::"}))
			if r.chance(1, 4) {
				a = "::" + a
			}
			if r.chance(1, 8) {
				a += "%" + vPick(r, []string{"", "eth0", "1"})
			}
			if r.chance(1, 6) {
				a = vPick(r, []string{"fe80::", "FE80:", "ff02::", "::ffff:", "::FFFF:", "febf:", "fec0::"}) + a
			}
		default:
			n := r.intn(24)
			b := make([]byte, n)
			for j := range b {
				b[j] = vPick(r, addrBytes)
			}
			a = string(b)
		}
		emit("cand cls " + vH(a))
		emit("cand canon " + vH(a))
		if i%8 == 0 {
			emit("cand crc " + vH(a))
		}
	}
	// 4. random candidates (one in four outside the domain)
	var texts []string
	for i := 0; i < nRT; i++ {
		s := vCandRandom(r, i%4 == 3)
		rt(s)
		if c, _, err, ok := vCandBuild(strings.Split(s.args(" "), " ")); ok && err == nil && len(texts) < 4000 {
			texts = append(texts, c.Marshal())
		}
	}
	// 5. parsing: hand-written boundary texts, grammar-generated texts, mutations, raw bytes
	parse := func(s string) { emit("cand parse " + vH(s)) }
	for _, s := range vCandCorpus {
		parse(s)
	}
	for i := 0; i < nText; i++ {
		s := vCandText(r)
		parse(s)
		if len(texts) < 8000 {
			texts = append(texts, s)
		}
	}
	texts = append(texts, vCandCorpus...)
	for i := 0; i < nMut; i++ {
		parse(vCandMutate(r, vPick(r, texts)))
	}
	rawBytes := []byte("  019 typ host raddr rport udp tcp . : a \xc3\xa9 \xff \x00")
	for i := 0; i < nRaw; i++ {
		n := r.intn(60)
		b := make([]byte, n)
		for j := range b {
			if r.chance(1, 20) {
				b[j] = byte(r.intn(256))
			} else {
				b[j] = vPick(r, rawBytes)
			}
		}
		parse(string(b))
	}
}

// vCandCorpus: boundary texts (tokeniser limits, empty tokens, prefix, reserved words as extension names).
var vCandCorpus = []string{
	"", " ", "  ", "candidate:", "candidate: ", "a", "a ", "a 1", "a 1 ", "a 1 udp", "a 1 udp ", "a 1 udp 1", "a 1 udp 1 ",
	"a 1 udp 1 1.2.3.4", "a 1 udp 1 1.2.3.4 ", "a 1 udp 1 1.2.3.4 5", "a 1 udp 1 1.2.3.4 5 ", "a 1 udp 1 1.2.3.4 5 typ",
	"a 1 udp 1 1.2.3.4 5 typ ", "a 1 udp 1 1.2.3.4 5 typ host", "a 1 udp 1 1.2.3.4 5 typ host ", "a 1 udp 1 1.2.3.4 5 typ host  ",
	"a 1 udp 1 1.2.3.4 5 typ host   ", " 1 udp 1 1.2.3.4 5 typ host", "  udp 1 1.2.3.4 5 typ host", "a  udp  1.2.3.4  typ host",
	"candidate:a 1 udp 1 1.2.3.4 5 typ host", "candidate:candidate:a 1 udp 1 1.2.3.4 5 typ host", "Candidate:a 1 udp 1 1.2.3.4 5 typ host",
	"a 65535 udp 4294967295 1.2.3.4 65535 typ host", "a 65536 udp 4294967296 1.2.3.4 65535 typ host", "a 99999 udp 9999999999 1.2.3.4 65535 typ host",
	"a 100000 udp 1 1.2.3.4 5 typ host", "a 1 udp 10000000000 1.2.3.4 5 typ host", "a 1 udp 1 1.2.3.4 65536 typ host", "a 1 udp 1 1.2.3.4 100000 typ host",
	"a 00001 udp 0000000001 1.2.3.4 00005 typ host", "a 000001 udp 1 1.2.3.4 5 typ host", "a 1 udp 00000000001 1.2.3.4 5 typ host", "a 1 udp 1 1.2.3.4 000005 typ host",
	strings.Repeat("a", 32) + " 1 udp 1 1.2.3.4 5 typ host", strings.Repeat("a", 33) + " 1 udp 1 1.2.3.4 5 typ host", strings.Repeat("a", 32), strings.Repeat("a", 33),
	"a+/Z 1 udp 1 1.2.3.4 5 typ host", "a: 1 udp 1 1.2.3.4 5 typ host", "é 1 udp 1 1.2.3.4 5 typ host", "a -1 udp 1 1.2.3.4 5 typ host", "a 1 udp +1 1.2.3.4 5 typ host",
	"a 1 udp 1 1.2.3.4 5 TYP host", "a 1 udp 1 1.2.3.4 5 typ HOST", "a 1 udp 1 1.2.3.4 5 typ bogus", "a 1 udp 1 1.2.3.4 5 typ bogus \xff", "a 1 udp 1 1.2.3.4 5 typ bogus raddr",
	"a 1 sctp 1 1.2.3.4 5 typ host", "a 1 sctp 1 a.local 5 typ host", "a 1 sctp 1 a.local 5 typ srflx", "a 1 tcp 1 a.local 5 typ host tcptype passive",
	"a 1 udp 1 fe80::1%eth0 5 typ host", "a 1 udp 1 fe80::1% 5 typ host", "a 1 udp 1 %eth0 5 typ host", "a 1 udp 1 a.local%z 5 typ host", "a 1 udp 1 a%b.local 5 typ host",
	"a 1 udp 1 1.2.3.4 5 typ srflx", "a 1 udp 1 1.2.3.4 5 typ srflx raddr", "a 1 udp 1 1.2.3.4 5 typ srflx raddr ", "a 1 udp 1 1.2.3.4 5 typ srflx raddr 0.0.0.0",
	"a 1 udp 1 1.2.3.4 5 typ srflx raddr 0.0.0.0 ", "a 1 udp 1 1.2.3.4 5 typ srflx raddr 0.0.0.0 rport", "a 1 udp 1 1.2.3.4 5 typ srflx raddr 0.0.0.0 rport ",
	"a 1 udp 1 1.2.3.4 5 typ srflx raddr 0.0.0.0 rport 0", "a 1 udp 1 1.2.3.4 5 typ srflx raddr 0.0.0.0 rport 0 ", "a 1 udp 1 1.2.3.4 5 typ srflx raddr 0.0.0.0 rport 65536",
	"a 1 udp 1 1.2.3.4 5 typ srflx raddr 0.0.0.0 RPORT 0", "a 1 udp 1 1.2.3.4 5 typ srflx raddr  rport 5", "a 1 udp 1 1.2.3.4 5 typ srflx raddr  rport 0", "a 1 udp 1 1.2.3.4 5 typ srflx raddr  rport ",
	"a 1 udp 1 1.2.3.4 5 typ srflx raddr x rport  generation 0", "a 1 udp 1 1.2.3.4 5 typ srflx rport 5", "a 1 udp 1 1.2.3.4 5 typ host raddr 1.2.3.4 rport 5",
	"a 1 udp 1 1.2.3.4 5 typ srflx raddr 1.2.3.4 rport 5 raddr 5.6.7.8 rport 9", "a 1 udp 1 1.2.3.4 5 typ srflx raddr 1.2.3.4 rport 5 raddr 5.6.7.8",
	"a 1 tcp 1 1.2.3.4 5 typ host tcptype active", "a 1 tcp 1 1.2.3.4 5 typ host tcptype ACTIVE", "a 1 tcp 1 1.2.3.4 5 typ host tcptype", "a 1 tcp 1 1.2.3.4 5 typ host tcptype ",
	"a 1 tcp 1 1.2.3.4 5 typ host tcptype  ", "a 1 tcp 1 1.2.3.4 5 typ host tcptype   v", "a 1 tcp 1 1.2.3.4 5 typ host tcptype bogus", "a 1 tcp 1 1.2.3.4 5 typ host tcptype active tcptype",
	"a 1 tcp 1 1.2.3.4 5 typ host tcptype active tcptype so", "a 1 tcp 1 1.2.3.4 5 typ host tcptype active  v", "a 1 tcp 1 1.2.3.4 5 typ srflx tcptype active  v",
	"a 1 tcp 1 1.2.3.4 5 typ srflx tcptype active raddr x", "a 1 tcp 1 1.2.3.4 5 typ srflx tcptype active raddr 1.2.3.4 rport 5", "a 1 tcp 1 1.2.3.4 5 typ host generation 0 tcptype passive ufrag x",
	"a 1 tcp 1 1.2.3.4 5 typ srflx raddr 1.2.3.4 rport 5 tcptype passive", "a 1 tcp 1 1.2.3.4 5 typ relay raddr 1.2.3.4 rport 5 tcptype so k", "a 1 udp 1 1.2.3.4 5 typ prflx raddr :: rport 0 k v k v k w",
	"a 1 udp 1 1.2.3.4 5 typ host k", "a 1 udp 1 1.2.3.4 5 typ host k ", "a 1 udp 1 1.2.3.4 5 typ host k  ", "a 1 udp 1 1.2.3.4 5 typ host k   ", "a 1 udp 1 1.2.3.4 5 typ host k v ",
	"a 1 udp 1 1.2.3.4 5 typ host k v  ", "a 1 udp 1 1.2.3.4 5 typ host k v  w", "a 1 udp 1 1.2.3.4 5 typ host  k v", "a 1 udp 1 1.2.3.4 5 typ host k\x00 v", "a 1 udp 1 1.2.3.4 5 typ host k v\n",
	"a 1 udp 1 1.2.3.4 5 typ host k \xc3\xa9", "a 1 udp 1 1.2.3.4 5 typ host k \xc4\x80", "a 1 udp 1 1.2.3.4 5 typ host k \xff", "a 1 udp 1 1.2.3.4 5 typ host k \xc3", "a 1 udp 1 1.2.3.4 5 typ host \xc3 k",
	"a 1 udp 1 1.2.3.4 5 typ host typ srflx", "a 1 udp 1 1.2.3.4 5 typ host rport 5", "a 1 udp 1 1.2.3.4 5 typ host raddr", "a 1 udp 1 1.2.3.4 5 typ host raddr x", "a 1 udp 1 1.2.3.4 5 typ relay",
	"1938809241 1 udp 2122262783 fcd9:e3b8:12ce:9fc5:74a5:c6bb:d8b:e08a 53987 typ host", "4207374052 1 tcp 1685790463 192.0.2.15 50000 typ prflx raddr 10.0.0.1 rport 12345 generation 0 network-id 2 network-cost 10",
	"647372371 1 udp 1694498815 191.228.238.68 53991 typ srflx raddr 192.168.0.274 rport 53991", "848194626 1 udp 16777215 50.0.0.1 5000 typ relay raddr 192.168.0.1 rport 5001",
}

func vCandEqGen(o *vOut, r *vRand, thorough bool, _ []string, emit func(string)) {
	eq := func(a, b string) { emit("cand eq " + a + " " + b) }
	bs := func(s vCandSpec) string { return "B;" + s.args(";") }
	ps := func(s string) string { return "P;" + vH(s) }
	// 1. every type x transport x TCP type against itself and against its parsed copy
	for _, typ := range vCandTypes {
		for _, nw := range []string{"udp", "tcp"} {
			for _, ad := range []string{"10.0.0.1", "2001:db8::7", "::ffff:1.2.3.4", "a.local"} {
				for tt := 0; tt < 4; tt++ {
					for _, xs := range [][][2]string{nil, {{"generation", "0"}}, {{"generation", "0"}, {"ufrag", "x"}}, {{"a", ""}, {"b", "1"}, {"c", "2"}}} {
						s := vCandDefault(typ)
						s.net, s.addr, s.tt, s.exts = nw, ad, tt, xs
						eq(bs(s), bs(s))
						if c, _, err, ok := vCandBuild(strings.Split(s.args(" "), " ")); ok && err == nil {
							eq(bs(s), ps(c.Marshal()))
						}
					}
				}
			}
		}
	}
	// 2. multisets of extensions through the parser (duplicates, permutations, same length / different content)
	base := "a 1 udp 1 1.2.3.4 5 typ host"
	xl := []string{"", " k v", " k v k v", " k v k w", " k w k v", " k v j v", " j v k v", " k v k v j w", " k v j w j w", " j w k v k v", " k v j w k v",
		" a 1 b 2 c 3", " c 3 b 2 a 1", " a 1 b 2 c 4", " a 1 a 1 a 1", " a 1 a 1 b 1", " tcptype active k v", " k v tcptype active", " tcptype passive k v", " k v k v k v k v", " k v k v j w j w", " k v j w j w j w"}
	for _, x := range xl {
		for _, y := range xl {
			eq(ps(base+x), ps(base+y))
		}
	}
	// 3. one field changed
	for _, typ := range vCandTypes {
		d := vCandDefault(typ)
		d.exts = [][2]string{{"generation", "0"}}
		vars := []func(*vCandSpec){
			func(s *vCandSpec) { s.net = "tcp" }, func(s *vCandSpec) { s.addr = "10.0.0.2" }, func(s *vCandSpec) { s.addr = "::ffff:10.0.0.1" },
			func(s *vCandSpec) { s.addr = "a.local" }, func(s *vCandSpec) { s.port = 10 }, func(s *vCandSpec) { s.comp = 2 }, func(s *vCandSpec) { s.prio = 7 },
			func(s *vCandSpec) { s.found = "zz" }, func(s *vCandSpec) { s.tt = 1 }, func(s *vCandSpec) { s.raddr = "10.9.9.8" }, func(s *vCandSpec) { s.rport = 10 },
			func(s *vCandSpec) { s.raddr, s.rport = "", 0 }, func(s *vCandSpec) { s.exts = nil }, func(s *vCandSpec) { s.exts = [][2]string{{"generation", "1"}} },
			func(s *vCandSpec) { s.exts = append(s.exts, [2]string{"tcptype", "active"}) }, func(s *vCandSpec) { s.relay = "tls" },
		}
		for _, f := range vars {
			s := d
			f(&s)
			eq(bs(d), bs(s))
			for _, t2 := range vCandTypes {
				s2 := s
				s2.typ = t2
				eq(bs(d), bs(s2))
			}
		}
	}
	// 4. literal forms of one address (2a786b2): every listed literal against every other, for eq and deep-eq
	lits := vCandAllLiterals()
	xsA := [][2]string{{"generation", "0"}, {"ufrag", "x"}}
	xsB := [][2]string{{"ufrag", "x"}, {"generation", "0"}}
	xsC := [][2]string{{"ufrag", "y"}, {"generation", "0"}}
	for ti, typ := range vCandTypes {
		for ni, nw := range []string{"udp", "tcp"} {
			for i, la := range lits {
				for j, lb := range lits {
					// all pairs for host/udp and srflx/udp; elsewhere a third of them
					if !(ni == 0 && ti < 2) && (i+2*j+ti)%3 != 0 {
						continue
					}
					a, b := vCandDefault(typ), vCandDefault(typ)
					a.net, b.net, a.addr, b.addr = nw, nw, la, lb
					a.exts = xsA
					switch (i + j) % 4 {
					case 0:
						b.exts = xsA
					case 1, 2:
						b.exts = xsB // permuted: DeepEqual whenever Equal
					default:
						b.exts = xsC // Equal at most
					}
					eq(bs(a), bs(b))
				}
			}
		}
	}
	// ... built against parsed (the parser cuts the zone off), and related addresses in two literal forms
	// (CandidateRelatedAddress.Equal compares strings)
	for _, typ := range vCandTypes {
		for _, fam := range vCandFamilies {
			for _, la := range fam {
				for _, lb := range fam {
					a := vCandDefault(typ)
					a.addr = la
					text := "a 1 udp 1 " + lb + " 9 typ " + typ
					if typ != "host" {
						text += " raddr 10.9.9.9 rport 9"
					}
					eq(bs(a), ps(text))
					if typ != "host" {
						b := a
						a.raddr, b.raddr = la, lb
						eq(bs(a), bs(b))
					}
				}
			}
		}
	}
	// 5. transitivity: triples inside one family, two members + a near miss, and mixed
	eq3 := func(a, b, c string) { emit("cand eq3 " + a + " " + b + " " + c) }
	mk := func(typ, nw, addr string, xs [][2]string) string {
		s := vCandDefault(typ)
		s.net, s.addr, s.exts = nw, addr, xs
		return bs(s)
	}
	for fi, fam := range vCandFamilies {
		other := vCandFamilies[(fi+1)%len(vCandFamilies)]
		for ti, typ := range vCandTypes {
			nw := []string{"udp", "tcp"}[(fi+ti)%2]
			for i := range fam {
				a, b, c := fam[i], fam[(i+1)%len(fam)], fam[(i+2)%len(fam)]
				eq3(mk(typ, nw, a, xsA), mk(typ, nw, b, xsB), mk(typ, nw, c, xsA))
				eq3(mk(typ, nw, a, xsA), mk(typ, nw, b, xsB), mk(typ, nw, c, xsC))
				eq3(mk(typ, nw, a, nil), mk(typ, nw, other[i%len(other)], nil), mk(typ, nw, b, nil))
				eq3(mk(typ, nw, a, nil), mk(typ, nw, b, nil), mk(typ, nw, other[i%len(other)], nil))
				eq3(mk(typ, nw, a, nil), ps("a 1 "+nw+" 1 "+b+" 9 typ "+typ+" raddr 10.9.9.9 rport 9"), mk(typ, nw, c, nil))
				eq3(mk(typ, nw, a, nil), mk(vCandTypes[(ti+1)%4], nw, b, nil), mk(typ, nw, c, nil))
			}
		}
	}
	// the chain literal ~ literal-with-mDNS-looking-zone ~ other such zone (host: resolved address nil on two of them)
	for _, typ := range vCandTypes {
		for _, tr := range [][3]string{{"2001:db8::7", "2001:db8::7%x.local", "2001:DB8::7%y.local"}, {"2001:db8::7%x.local", "2001:db8::7", "2001:DB8::7%y.local"},
			{"2001:db8::7%x.local", "2001:DB8::7%y.local", "2001:db8::7"}, {"fe80::1%x.local", "FE80::1%x.local", "fe80::1%y.local"},
			{"::ffff:10.0.0.1%x.local", "10.0.0.1", "::ffff:a00:1%y.local"}, {"a.local", "A.local", "a.local"}, {"a.local", "10.0.0.1.local", "10.0.0.1"}} {
			eq3(mk(typ, "udp", tr[0], nil), mk(typ, "udp", tr[1], nil), mk(typ, "udp", tr[2], nil))
			eq3(mk(typ, "tcp", tr[0], xsA), mk(typ, "tcp", tr[1], xsB), mk(typ, "tcp", tr[2], xsA))
		}
	}
	n3 := 6000
	if thorough {
		n3 = 300000
	}
	for i := 0; i < n3; i++ {
		a := vCandRandom(r, false)
		if r.chance(3, 4) {
			a.addr = vPick(r, vPick(r, vCandFamilies))
		}
		vary := func(s vCandSpec) vCandSpec {
			t := s
			t.addr = vCandLiteral(r, s.addr)
			switch r.intn(10) {
			case 0:
				t.typ = vPick(r, vCandTypes)
			case 1:
				t.tt = r.intn(4)
			case 2:
				t.port = vPick(r, vCandPorts)
			case 3:
				t.net = vPick(r, vCandNets)
			case 4:
				if len(t.exts) > 1 {
					t.exts = append(append([][2]string{}, s.exts[1:]...), s.exts[0])
				}
			case 5:
				t.exts = append(append([][2]string{}, s.exts...), [2]string{"k", vPick(r, vCandVals)})
			}

			return t
		}
		b := vary(a)
		c := vary(b)
		if r.chance(1, 2) {
			c = vary(a)
		}
		eq3(bs(a), bs(b), bs(c))
	}
	// 6. random pairs: unrelated, near copies, built vs parsed
	n := 15000
	if thorough {
		n = 900000
	}
	for i := 0; i < n; i++ {
		a := vCandRandom(r, i%5 == 4)
		b := a
		switch r.intn(8) {
		case 0:
			b = vCandRandom(r, false)
		case 1:
			b.typ = vPick(r, vCandTypes)
		case 2:
			b.tt = r.intn(4)
		case 3:
			b.exts = append([][2]string{}, a.exts...)
			if len(b.exts) > 0 {
				b.exts[r.intn(len(b.exts))][1] = vPick(r, vCandVals)
			} else {
				b.exts = [][2]string{{"k", "v"}}
			}
		case 4:
			b.addr, b.net = vPick(r, vCandAddrs), vPick(r, vCandNets)
		case 5:
			rel := vPick(r, vCandRel)
			b.raddr, b.rport = rel.a, rel.p
		case 6:
			b.addr = vCandLiteral(r, a.addr)
		}
		sa, sb := bs(a), bs(b)
		if r.chance(1, 3) {
			sb = ps(vCandText(r))
		}
		if r.chance(1, 6) {
			sa = ps(vCandText(r))
		}
		if r.chance(1, 8) {
			t := vCandText(r)
			sa, sb = ps(t), ps(vCandMutate(r, t))
		}
		eq(sa, sb)
	}
}
