//go:build verif

package ice

// Component "apihammer" of the /verif harness (property C10, thorough tier, binary built with -race).
//
//	apihammer run <scenario> <seed> <rounds>   -> "ok" | "race <n> <signature of the first report>"
//
// Each op builds live agents over an in-memory network (a hub that delivers every datagram), then
// calls the PUBLIC API from many goroutines at once, with inbound traffic, while connectivity checks,
// gathering goroutines and receive loops run — and finally Close concurrently with all of it.  The Go
// race detector watches; its reports are read back from GORACE's log_path after the op.  A report is a
// violation of C10's second sentence.  This is supporting evidence (testing), not proof.
//
// Without -race the component still runs (as a crash / deadlock test) and reports "ok".

import (
	"context"
	"fmt"
	"io"
	"net"
	"os"
	"path/filepath"
	"regexp"
	"sort"
	"strconv"
	"strings"
	"sync"
	"sync/atomic"
	"time"

	"github.com/pion/logging"
	"github.com/pion/stun/v3"
	"github.com/pion/transport/v4"
	"github.com/pion/transport/v4/stdnet"
)

func init() { vComponents["apihammer"] = &vComp{gen: vHammerGen, exec: vHammerExec} }

// ---- in-memory network: every WriteTo is delivered to the addressee's queue (or dropped) ----

type vhDgram struct {
	from *net.UDPAddr
	data []byte
}

type vhHub struct {
	mu  sync.Mutex
	eps map[string]*vhConn
}

type vhConn struct {
	h      *vhHub
	addr   *net.UDPAddr
	ch     chan vhDgram
	closed chan struct{}
	once   sync.Once
}

func newVhHub() *vhHub { return &vhHub{eps: map[string]*vhConn{}} }

func (h *vhHub) listen(addr *net.UDPAddr) *vhConn {
	c := &vhConn{h: h, addr: addr, ch: make(chan vhDgram, 256), closed: make(chan struct{})}
	h.mu.Lock()
	h.eps[addr.String()] = c
	h.mu.Unlock()

	return c
}

func (c *vhConn) ReadFrom(b []byte) (int, net.Addr, error) {
	select {
	case d := <-c.ch:
		return copy(b, d.data), d.from, nil
	case <-c.closed:
		return 0, nil, io.EOF
	}
}

func (c *vhConn) WriteTo(b []byte, a net.Addr) (int, error) {
	select {
	case <-c.closed:
		return 0, io.ErrClosedPipe
	default:
	}
	ua, ok := a.(*net.UDPAddr)
	if !ok {
		return len(b), nil
	}
	c.h.mu.Lock()
	ep := c.h.eps[ua.String()]
	c.h.mu.Unlock()
	if ep != nil {
		select {
		case ep.ch <- vhDgram{c.addr, append([]byte{}, b...)}:
		default: // queue full: drop
		}
	}

	return len(b), nil
}

func (c *vhConn) Close() error                     { c.once.Do(func() { close(c.closed) }); return nil }
func (c *vhConn) LocalAddr() net.Addr              { return c.addr }
func (c *vhConn) SetDeadline(time.Time) error      { return nil }
func (c *vhConn) SetReadDeadline(time.Time) error  { return nil }
func (c *vhConn) SetWriteDeadline(time.Time) error { return nil }

type vhEmptyNet struct{ transport.Net }

func (vhEmptyNet) Interfaces() ([]*transport.Interface, error) { return nil, nil }

// vhNet: the standard net (address parsing, resolution of literal addresses) with NO interfaces, so
// that gathering never opens a real socket.
func vhNet() transport.Net {
	n, err := stdnet.NewNet()
	if err != nil {
		panic(err)
	}

	return vhEmptyNet{Net: n}
}

// ---- race-report bookkeeping ----

var vhRaceSeen int

var vhFrameRe = regexp.MustCompile(`(?m)^\s+github\.com/pion/ice/v4\.(\S+?)\(\)`)

// vhRaceReports returns the number of NEW "WARNING: DATA RACE" reports in the GORACE log files and
// a signature (the innermost pion/ice frames of the two conflicting accesses) of the first new one.
func vhRaceReports() (int, string) {
	lp := ""
	for _, kv := range strings.Fields(os.Getenv("GORACE")) {
		if strings.HasPrefix(kv, "log_path=") {
			lp = strings.TrimPrefix(kv, "log_path=")
		}
	}
	if lp == "" {
		return 0, ""
	}
	files, _ := filepath.Glob(lp + ".*")
	sort.Strings(files)
	var all []string
	for _, f := range files {
		raw, err := os.ReadFile(f)
		if err != nil {
			continue
		}
		parts := strings.Split(string(raw), "WARNING: DATA RACE")
		all = append(all, parts[1:]...)
	}
	n := len(all) - vhRaceSeen
	if n <= 0 {
		return 0, ""
	}
	first := all[vhRaceSeen]
	vhRaceSeen = len(all)
	// the report has two stacks ("Write at … by goroutine" / "Previous read at …"); take the first
	// pion/ice frame of each
	secs := regexp.MustCompile(`(?m)^(Read|Write|Previous read|Previous write|Atomic|Previous atomic)[^\n]*\n`).Split(first, -1)
	var sig []string
	for _, s := range secs[1:] {
		if m := vhFrameRe.FindStringSubmatch(s); m != nil {
			sig = append(sig, strings.NewReplacer("(*", "", ")", "", " ", "").Replace(m[1]))
		}
		if len(sig) == 2 {
			break
		}
	}
	for i := range sig { // a closure created inside the harness keeps the harness function as a prefix
		sig[i] = regexp.MustCompile(`^vh\w+\.func\d+\.`).ReplaceAllString(sig[i], "")
	}
	sort.Strings(sig) // which access the detector lists first depends on the schedule

	return n, strings.Join(sig, "|")
}

// ---- scenarios ----

type vhAgent struct {
	a    *Agent
	cand *CandidateHost
	conn *vhConn
}

func vhMakeAgent(h *vhHub, ip string, opts ...AgentOption) (*vhAgent, error) {
	lf := logging.NewDefaultLoggerFactory()
	lf.DefaultLogLevel = logging.LogLevelDisabled
	base := []AgentOption{
		WithLoggerFactory(lf),
		WithNetworkTypes([]NetworkType{NetworkTypeUDP4}),
		WithMulticastDNSMode(MulticastDNSModeDisabled),
		WithNet(vhNet()),
		WithCheckInterval(2 * time.Millisecond),
		WithKeepaliveInterval(3 * time.Millisecond),
	}
	a, err := NewAgentWithOptions(append(base, opts...)...)
	if err != nil {
		return nil, err
	}
	va := &vhAgent{a: a}
	if h != nil {
		addr := &net.UDPAddr{IP: net.ParseIP(ip), Port: 5000}
		c, err := NewCandidateHost(&CandidateHostConfig{Network: "udp", Address: ip, Port: 5000, Component: 1})
		if err != nil {
			return nil, err
		}
		va.cand = c
		va.conn = h.listen(addr)
		if err := a.addCandidate(context.Background(), c, va.conn); err != nil {
			return nil, err
		}
	}

	return va, nil
}

// vhParallel runs every function in its own goroutine `rounds` times and waits for all of them.
func vhParallel(rounds int, fns ...func(i int)) {
	var wg sync.WaitGroup
	for _, f := range fns {
		wg.Add(1)
		go func(f func(int)) {
			defer wg.Done()
			for i := 0; i < rounds; i++ {
				f(i)
			}
		}(f)
	}
	wg.Wait()
}

// scenario "pair": two connected agents, the whole accessor / mutator API in parallel, then Close.
func vhScenarioPair(r *vRand, rounds int) error {
	h := newVhHub()
	A, err := vhMakeAgent(h, "10.0.0.1")
	if err != nil {
		return err
	}
	B, err := vhMakeAgent(h, "10.0.0.2")
	if err != nil {
		return err
	}
	_ = A.a.OnCandidate(func(Candidate) {})
	_ = B.a.OnCandidate(func(Candidate) {})
	au, ap, _ := A.a.GetLocalUserCredentials()
	bu, bp, _ := B.a.GetLocalUserCredentials()
	ca, _ := A.cand.copy()
	cb, _ := B.cand.copy()
	_ = A.a.AddRemoteCandidate(cb)
	_ = B.a.AddRemoteCandidate(ca)
	connA, err := A.a.StartDial(bu, bp)
	if err != nil {
		return err
	}
	connB, err := B.a.StartAccept(au, ap)
	if err != nil {
		return err
	}
	var stop atomic.Bool
	var wg sync.WaitGroup
	// inbound traffic both ways while everything else runs
	for _, c := range []*Conn{connA, connB} {
		wg.Add(2)
		go func(c *Conn) {
			defer wg.Done()
			buf := make([]byte, 1500)
			for !stop.Load() {
				_ = c.SetReadDeadline(time.Now().Add(2 * time.Millisecond))
				_, _ = c.Read(buf)
			}
		}(c)
		go func(c *Conn) {
			defer wg.Done()
			for !stop.Load() {
				_, _ = c.Write([]byte("payload"))
				_ = c.BytesSent()
				_ = c.BytesReceived()
				_ = c.GetCandidatePairsInfo()
				_ = c.RemoteAddr()
				_ = c.LocalAddr()
				time.Sleep(100 * time.Microsecond)
			}
		}(c)
	}
	port := int32(6000)
	closeAt := r.intn(rounds + 1)
	vhParallel(rounds,
		func(int) { _, _ = A.a.GetLocalCandidates(); _, _ = A.a.GetRemoteCandidates() },
		func(int) { _, _ = A.a.GetSelectedCandidatePair(); _, _ = B.a.GetSelectedCandidatePair() },
		func(int) {
			_ = A.a.GetCandidatePairsStats()
			_, _ = A.a.GetSelectedCandidatePairStats()
			_ = A.a.GetLocalCandidatesStats()
			_ = A.a.GetRemoteCandidatesStats()
		},
		func(int) {
			_, _, _ = A.a.GetLocalUserCredentials()
			_, _, _ = A.a.GetRemoteUserCredentials()
			_, _ = A.a.GetGatheringState()
		},
		func(int) {
			p := atomic.AddInt32(&port, 1)
			c, err := NewCandidateHost(&CandidateHostConfig{Network: "udp", Address: "10.0.0.9", Port: int(p), Component: 1})
			if err == nil {
				_ = A.a.AddRemoteCandidate(c)
			}
		},
		func(int) { _ = A.a.SetRemoteCredentials(bu, bp) },
		func(i int) {
			_ = A.a.OnConnectionStateChange(func(ConnectionState) {})
			_ = A.a.OnSelectedCandidatePairChange(func(Candidate, Candidate) {})
		},
		func(int) { _ = A.a.UpdateOptions(WithUrls(nil)) },
		func(i int) {
			if i == closeAt {
				_ = B.a.Close()
			}
		},
		func(int) { time.Sleep(200 * time.Microsecond) },
	)
	stop.Store(true)
	cl := make(chan struct{})
	go func() { _ = A.a.Close(); _ = B.a.Close(); close(cl) }()
	_, _ = A.a.GetLocalCandidates() // concurrent with Close
	_ = A.a.GetCandidatePairsStats()
	<-cl
	wg.Wait()

	return nil
}

// scenario "gathermux": GatherCandidates / Restart with a UDP mux configured (finding F12).
func vhScenarioGatherMux(_ *vRand, rounds int) error {
	la := &net.UDPAddr{IP: net.IPv4(10, 0, 0, 1), Port: 5000}
	h := newVhHub()
	mux := NewUDPMuxDefault(UDPMuxParams{UDPConn: h.listen(la)})
	defer func() { _ = mux.Close() }()
	va, err := vhMakeAgent(nil, "", WithUDPMux(mux), WithCandidateTypes([]CandidateType{CandidateTypeHost}))
	if err != nil {
		return err
	}
	_ = va.a.OnCandidate(func(Candidate) {})
	for i := 0; i < rounds; i++ {
		_ = va.a.GatherCandidates()
		_ = va.a.Restart("", "")
	}

	return va.a.Close()
}

// scenario "restart": Restart / GatherCandidates / accessors / Close from different goroutines.
func vhScenarioRestart(r *vRand, rounds int) error {
	h := newVhHub()
	A, err := vhMakeAgent(h, "10.0.0.1")
	if err != nil {
		return err
	}
	B, err := vhMakeAgent(h, "10.0.0.2")
	if err != nil {
		return err
	}
	_ = A.a.OnCandidate(func(Candidate) {})
	au, ap, _ := A.a.GetLocalUserCredentials()
	bu, bp, _ := B.a.GetLocalUserCredentials()
	ca, _ := A.cand.copy()
	cb, _ := B.cand.copy()
	_ = A.a.AddRemoteCandidate(cb)
	_ = B.a.AddRemoteCandidate(ca)
	if _, err := A.a.StartDial(bu, bp); err != nil {
		return err
	}
	if _, err := B.a.StartAccept(au, ap); err != nil {
		return err
	}
	closeAt := r.intn(rounds + 1)
	vhParallel(rounds,
		func(int) { _ = A.a.Restart("", "") },
		func(int) { _ = A.a.GatherCandidates() },
		func(int) { _, _ = A.a.GetLocalCandidates(); _, _, _ = A.a.GetLocalUserCredentials() },
		func(int) { _ = A.a.GetCandidatePairsStats(); _, _ = A.a.GetSelectedCandidatePair() },
		func(int) { _ = A.a.SetRemoteCredentials(bu, bp) },
		func(i int) {
			if i == closeAt {
				_ = A.a.Close()
			}
		},
		func(int) { time.Sleep(300 * time.Microsecond) },
	)
	_ = A.a.Close()

	return B.a.Close()
}

// scenario "renominate": the public RenominateCandidate while connectivity checks are running.
func vhScenarioRenominate(_ *vRand, rounds int) error {
	h := newVhHub()
	var ctr atomic.Uint32
	A, err := vhMakeAgent(h, "10.0.0.1", WithRenomination(func() uint32 { return ctr.Add(1) }))
	if err != nil {
		return err
	}
	B, err := vhMakeAgent(h, "10.0.0.2")
	if err != nil {
		return err
	}
	au, ap, _ := A.a.GetLocalUserCredentials()
	bu, bp, _ := B.a.GetLocalUserCredentials()
	ca, _ := A.cand.copy()
	cb, _ := B.cand.copy()
	_ = A.a.AddRemoteCandidate(cb)
	_ = B.a.AddRemoteCandidate(ca)
	if _, err := A.a.StartDial(bu, bp); err != nil {
		return err
	}
	if _, err := B.a.StartAccept(au, ap); err != nil {
		return err
	}
	for i := 0; i < rounds*4; i++ {
		locals, _ := A.a.GetLocalCandidates()
		remotes, _ := A.a.GetRemoteCandidates()
		if len(locals) > 0 && len(remotes) > 0 {
			_ = A.a.RenominateCandidate(locals[0], remotes[0])
		}
		time.Sleep(100 * time.Microsecond)
	}
	_ = A.a.Close()

	return B.a.Close()
}

// scenario "urls": UpdateOptions(WithUrls) while a gathering cycle with srflx candidates starts.
func vhScenarioUrls(_ *vRand, rounds int) error {
	uri, err := stun.ParseURI("stun:192.0.2.1:3478")
	if err != nil {
		return err
	}
	va, err := vhMakeAgent(nil, "", WithUrls([]*stun.URI{uri}),
		WithCandidateTypes([]CandidateType{CandidateTypeHost, CandidateTypeServerReflexive}))
	if err != nil {
		return err
	}
	_ = va.a.OnCandidate(func(Candidate) {})
	vhParallel(rounds,
		func(int) { _ = va.a.UpdateOptions(WithUrls([]*stun.URI{uri})) },
		func(int) { _ = va.a.GatherCandidates(); _ = va.a.Restart("", "") },
	)

	return va.a.Close()
}

// scenario "continual": continual gathering (network monitor goroutine) across Restart + GatherCandidates.
func vhScenarioContinual(_ *vRand, rounds int) error {
	va, err := vhMakeAgent(nil, "", WithContinualGatheringPolicy(GatherContinually),
		WithNetworkMonitorInterval(200*time.Microsecond),
		WithCandidateTypes([]CandidateType{CandidateTypeHost}))
	if err != nil {
		return err
	}
	_ = va.a.OnCandidate(func(Candidate) {})
	for i := 0; i < rounds; i++ {
		_ = va.a.GatherCandidates()
		time.Sleep(500 * time.Microsecond)
		_ = va.a.Restart("", "")
	}

	return va.a.Close()
}

var vhScenarios = map[string]func(*vRand, int) error{
	"pair":       vhScenarioPair,
	"gathermux":  vhScenarioGatherMux,
	"restart":    vhScenarioRestart,
	"renominate": vhScenarioRenominate,
	"urls":       vhScenarioUrls,
	"continual":  vhScenarioContinual,
}

func vHammerExec(o *vOut, t []string) string {
	if len(t) != 5 || t[1] != "run" {
		return "bad-op"
	}
	f, ok := vhScenarios[t[2]]
	if !ok {
		return "bad-op"
	}
	seed, _ := strconv.Atoi(t[3])
	rounds, _ := strconv.Atoi(t[4])
	done := make(chan error, 1)
	go func() { done <- f(&vRand{s: uint64(seed)*0x9e3779b97f4a7c15 + 7}, rounds) }()
	select {
	case err := <-done:
		if err != nil {
			return "error " + strings.NewReplacer("\t", " ", "\n", " ").Replace(err.Error())
		}
	case <-time.After(60 * time.Second):
		o.stat("hammer.hung." + t[2])

		return "hung"
	}
	time.Sleep(2 * time.Millisecond) // let late goroutines of the closed agents finish their last access
	n, sig := vhRaceReports()
	o.stat("hammer.scenario." + t[2])
	if n > 0 {
		o.stat("hammer.race-reports." + t[2])

		return fmt.Sprintf("race %d %s", n, sig)
	}

	return "ok"
}

func vHammerGen(o *vOut, r *vRand, thorough bool, args []string, emit func(string)) {
	reps, rounds := 2, 30
	if thorough {
		reps, rounds = 12, 60
	}
	for _, a := range args {
		if strings.HasPrefix(a, "reps=") {
			reps, _ = strconv.Atoi(a[5:])
		}
	}
	names := make([]string, 0, len(vhScenarios))
	for n := range vhScenarios {
		names = append(names, n)
	}
	sort.Strings(names)
	for i := 0; i < reps; i++ {
		for _, n := range names {
			emit(fmt.Sprintf("apihammer run %s %d %d", n, r.intn(1<<30), rounds))
		}
	}
}
