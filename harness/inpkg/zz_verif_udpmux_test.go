//go:build verif

// C12 — correspondence harness for UDPMuxDefault / udpMuxedConn / sharedPacketConn /
// MultiUDPMuxDefault (component "udpmux", sequential tie C) and the concurrent acceptance
// recorder (component "udpmuxconc", tie A, thorough tier).
//
// A session (`udpmux new …` … `udpmux end`) runs inside one testing/synctest bubble: the real
// mux(es) sit on fake net.PacketConns whose ReadFrom hands out the datagrams the script feeds;
// after every operation synctest.Wait() lets connWorker and the per-connection close watchers run
// to quiescence, so outputs are deterministic.
package ice

import (
	"encoding/binary"
	"fmt"
	"net"
	"net/netip"
	"os"
	"runtime"
	"sort"
	"strconv"
	"strings"
	"sync"
	"sync/atomic"
	"testing"
	"testing/synctest"
	"time"

	"github.com/pion/logging"
	"github.com/pion/stun/v3"
)

func init() {
	vComponents["udpmux"] = &vComp{gen: vUmGen, exec: vUmExec}
}

// ---------------------------------------------------------------------------------------------
// address tokens:  4,<a32>,<port>   |   6,<hi64>,<lo64>,<zone or ->,<port>
// ---------------------------------------------------------------------------------------------

type vUmAddr struct {
	is4    bool
	hi, lo uint64
	zone   string
	port   int
}

func vUmParseAddr(tok string) (vUmAddr, bool) {
	p := strings.Split(tok, ",")
	switch {
	case len(p) == 3 && p[0] == "4":
		a, e1 := strconv.ParseUint(p[1], 10, 32)
		port, e2 := strconv.Atoi(p[2])
		return vUmAddr{is4: true, lo: a, port: port}, e1 == nil && e2 == nil
	case len(p) == 5 && p[0] == "6":
		hi, e1 := strconv.ParseUint(p[1], 10, 64)
		lo, e2 := strconv.ParseUint(p[2], 10, 64)
		port, e3 := strconv.Atoi(p[4])
		z := p[3]
		if z == "-" {
			z = ""
		}
		return vUmAddr{hi: hi, lo: lo, zone: z, port: port}, e1 == nil && e2 == nil && e3 == nil
	}
	return vUmAddr{}, false
}

func (a vUmAddr) token() string {
	if a.is4 {
		return fmt.Sprintf("4,%d,%d", a.lo, a.port)
	}
	z := a.zone
	if z == "" {
		z = "-"
	}
	return fmt.Sprintf("6,%d,%d,%s,%d", a.hi, a.lo, z, a.port)
}

func (a vUmAddr) udpAddr() *net.UDPAddr {
	if a.is4 {
		ip := make(net.IP, 4)
		binary.BigEndian.PutUint32(ip, uint32(a.lo))
		return &net.UDPAddr{IP: ip, Port: a.port}
	}
	ip := make(net.IP, 16)
	binary.BigEndian.PutUint64(ip[:8], a.hi)
	binary.BigEndian.PutUint64(ip[8:], a.lo)
	return &net.UDPAddr{IP: ip, Port: a.port, Zone: a.zone}
}

func (a vUmAddr) addrPort() netip.AddrPort { return a.udpAddr().AddrPort() }

func vUmTokenOfUDPAddr(u *net.UDPAddr) string {
	switch len(u.IP) {
	case 4:
		if u.Zone != "" {
			return "4z," + u.Zone
		}
		return vUmAddr{is4: true, lo: uint64(binary.BigEndian.Uint32(u.IP)), port: u.Port}.token()
	case 16:
		return vUmAddr{hi: binary.BigEndian.Uint64(u.IP[:8]), lo: binary.BigEndian.Uint64(u.IP[8:]), zone: u.Zone, port: u.Port}.token()
	}
	return "badip"
}

func vUmTokenOfAddrPort(ap netip.AddrPort) string {
	if !ap.IsValid() {
		return "invalid"
	}
	if ap.Addr().Is4() {
		b := ap.Addr().As4()
		return vUmAddr{is4: true, lo: uint64(binary.BigEndian.Uint32(b[:])), port: int(ap.Port())}.token()
	}
	b := ap.Addr().As16()
	return vUmAddr{hi: binary.BigEndian.Uint64(b[:8]), lo: binary.BigEndian.Uint64(b[8:]), zone: ap.Addr().Zone(), port: int(ap.Port())}.token()
}

// ---------------------------------------------------------------------------------------------
// payloads: real STUN bytes (pion/stun) or non-STUN bytes, a function of (kind, pid)
//   su:<username>  Binding request with USERNAME        sn  Binding request without USERNAME
//   sb             magic cookie but undecodable          ns  not a STUN message
// ---------------------------------------------------------------------------------------------

func vUmPayload(kind string, pid int) []byte {
	var tid [stun.TransactionIDSize]byte
	binary.BigEndian.PutUint64(tid[:8], uint64(pid)*0x9e3779b97f4a7c15+1)
	binary.BigEndian.PutUint32(tid[8:], uint32(pid))
	switch {
	case strings.HasPrefix(kind, "su:"):
		m, err := stun.Build(stun.BindingRequest, stun.NewTransactionIDSetter(tid), stun.NewUsername(kind[3:]),
			stun.NewSoftware(strings.Repeat("s", pid%37)))
		if err != nil {
			panic(err)
		}
		return m.Raw
	case kind == "sn":
		m, err := stun.Build(stun.BindingRequest, stun.NewTransactionIDSetter(tid), stun.NewSoftware(strings.Repeat("n", 1+pid%29)))
		if err != nil {
			panic(err)
		}
		return m.Raw
	case kind == "sb":
		// header says 400 attribute bytes follow, only 4+pid%9 do
		b := make([]byte, 20+4+pid%9)
		binary.BigEndian.PutUint16(b[0:], 0x0001)
		binary.BigEndian.PutUint16(b[2:], 400)
		binary.BigEndian.PutUint32(b[4:], 0x2112A442)
		copy(b[8:], tid[:])
		for i := 20; i < len(b); i++ {
			b[i] = byte(i * 7)
		}
		return b
	default: // ns
		n := 1 + (pid*131)%1200
		b := make([]byte, n)
		for i := range b {
			b[i] = byte(0x80 + (i*31+pid)%97)
		}
		if n >= 12 {
			binary.BigEndian.PutUint64(b[4:], uint64(pid)<<8|0x5a)
		}
		return b
	}
}

// ---------------------------------------------------------------------------------------------
// fake shared socket
// ---------------------------------------------------------------------------------------------

type vUmDgram struct {
	data []byte
	src  vUmAddr
}

type vUmFake struct {
	local  *net.UDPAddr
	feed   chan vUmDgram
	closed chan struct{}
	once   sync.Once
	mu     sync.Mutex
	writes []string     // destinations seen by the socket
	reads  atomic.Int64 // calls of ReadFrom / ReadFromAddrPort so far
	delay  func()       // concurrent mode: jitter in WriteTo
	// onWrite, if set, sees every datagram written to the socket (udpmuxuni: the discovery requests)
	onWrite func(b []byte, addr net.Addr)
}

func newVUmFake(local *net.UDPAddr) *vUmFake {
	return &vUmFake{local: local, feed: make(chan vUmDgram), closed: make(chan struct{})}
}

func (f *vUmFake) ReadFrom(b []byte) (int, net.Addr, error) {
	f.reads.Add(1)
	select {
	case d := <-f.feed:
		return copy(b, d.data), d.src.udpAddr(), nil
	case <-f.closed:
		return 0, nil, net.ErrClosed
	}
}

func (f *vUmFake) WriteTo(b []byte, addr net.Addr) (int, error) {
	select {
	case <-f.closed:
		return 0, net.ErrClosed
	default:
	}
	if f.delay != nil {
		f.delay()
	}
	f.mu.Lock()
	f.writes = append(f.writes, addr.String())
	f.mu.Unlock()
	if f.onWrite != nil {
		f.onWrite(b, addr)
	}
	return len(b), nil
}
func (f *vUmFake) Close() error                     { f.once.Do(func() { close(f.closed) }); return nil }
func (f *vUmFake) LocalAddr() net.Addr              { return f.local }
func (f *vUmFake) SetDeadline(time.Time) error      { return nil }
func (f *vUmFake) SetReadDeadline(time.Time) error  { return nil }
func (f *vUmFake) SetWriteDeadline(time.Time) error { return nil }

// vUmFakeAP additionally offers the allocation-free netip.AddrPort I/O (AddrPortReaderWriter).
type vUmFakeAP struct{ *vUmFake }

func (f vUmFakeAP) ReadFromAddrPort(b []byte) (int, netip.AddrPort, error) {
	f.reads.Add(1)
	select {
	case d := <-f.feed:
		return copy(b, d.data), d.src.addrPort(), nil
	case <-f.closed:
		return 0, netip.AddrPort{}, net.ErrClosed
	}
}

func (f vUmFakeAP) WriteToAddrPort(b []byte, addr netip.AddrPort) (int, error) {
	return f.WriteTo(b, net.UDPAddrFromAddrPort(addr))
}

// ---------------------------------------------------------------------------------------------
// session
// ---------------------------------------------------------------------------------------------

var vUmMultiLocals = []vUmAddr{
	{is4: true, lo: 0x0a000001, port: 7000},     // 10.0.0.1:7000
	{is4: true, lo: 0x0a000002, port: 7000},     // 10.0.0.2:7000
	{hi: 0x20010db800000000, lo: 1, port: 7000}, // [2001:db8::1]:7000
}

type vUmHandle struct {
	pc net.PacketConn
}

type vUmSess struct {
	ops  chan []string
	res  chan string
	park chan struct{}

	bubble  string
	base    int
	mode    string
	ap      bool
	fakes   []*vUmFake
	muxes   []*UDPMuxDefault
	multi   *MultiUDPMuxDefault
	handles []*vUmHandle
	conns   [][]*udpMuxedConn // per mux, in order of first appearance
	fed     map[string]int    // payload bytes -> pid
	o       *vOut
	// ext, if set, runs every operation of the session (component udpmuxuni wraps baseOp)
	ext func(t []string) string
}

var vUmCur *vUmSess

func vUmMatchAll(string, string) (bool, error) { return true, nil }

func vUmQuietLogger() logging.LeveledLogger {
	lf := logging.NewDefaultLoggerFactory()
	lf.DefaultLogLevel = logging.LogLevelDisabled
	return lf.NewLogger("ice")
}

func vUmStart(o *vOut) *vUmSess {
	s := &vUmSess{ops: make(chan []string), res: make(chan string), park: make(chan struct{}), fed: map[string]int{}, o: o}
	go func() {
		// synctest.Test needs a *testing.T; the harness entry point does not hand one down, so a
		// nested one-test run is used.
		testing.RunTests(vUmMatchAll, []testing.InternalTest{{Name: "TestVerifHarness", F: func(t *testing.T) {
			synctest.Test(t, func(*testing.T) { s.main() })
		}}})
	}()
	return s
}

func (s *vUmSess) main() {
	s.bubble = vUmOwnBubble()
	s.base = s.others() // synctest's own goroutines
	for t := range s.ops {
		r := func() (r string) {
			defer func() {
				if p := recover(); p != nil {
					r = "PANIC " + strings.NewReplacer("\t", " ", "\n", " ").Replace(fmt.Sprint(p))
				}
			}()
			return s.op(t)
		}()
		s.res <- r
		if t[1] == "end" {
			if r == "end ok" {
				return
			}
			<-s.park // something is still alive: never let the bubble end
		}
	}
}

func vUmExec(o *vOut, t []string) string {
	if len(t) < 2 {
		return "bad-op"
	}
	if t[1] == "new" {
		if vUmCur != nil { // unfinished session (replays / shrinking drop the `end` op)
			vUmCur.ops <- []string{"udpmux", "end"}
			<-vUmCur.res
			vUmCur = nil
		}
		vUmCur = vUmStart(o)
	}
	if vUmCur == nil {
		return "no-session"
	}
	s := vUmCur
	s.ops <- t
	r := <-s.res
	if t[1] == "end" {
		vUmCur = nil
	}
	return r
}

func vUmOwnBubble() string {
	buf := make([]byte, 4096)
	buf = buf[:runtime.Stack(buf, false)]
	head, _, _ := strings.Cut(string(buf), "\n")
	if i := strings.Index(head, "synctest bubble "); i >= 0 {
		return strings.TrimRight(head[i:], "]:")
	}
	return "?"
}

// goroutines of this bubble other than the caller
func (s *vUmSess) others() int {
	buf := make([]byte, 1<<20)
	buf = buf[:runtime.Stack(buf, true)]
	n := 0
	for _, g := range strings.Split(string(buf), "\n\n") {
		head, _, _ := strings.Cut(g, "\n")
		if strings.Contains(head, s.bubble+"]") || strings.Contains(head, s.bubble+",") || strings.HasSuffix(strings.TrimRight(head, ":"), s.bubble) {
			n++
		}
	}
	return n - 1
}

func (s *vUmSess) connName(c *udpMuxedConn) string {
	for i, m := range s.muxes {
		if c.params.Mux != m {
			continue
		}
		for k, x := range s.conns[i] {
			if x == c {
				return fmt.Sprintf("m%dc%d", i, k)
			}
		}
		s.conns[i] = append(s.conns[i], c)
		return fmt.Sprintf("m%dc%d", i, len(s.conns[i])-1)
	}
	return "m?c?"
}

func vUmUnderlying(pc net.PacketConn) *udpMuxedConn {
	switch h := pc.(type) {
	case *sharedPacketConn:
		c, _ := h.underlying.(*udpMuxedConn)
		return c
	case *sharedAddrPortConn:
		c, _ := h.underlying.(*udpMuxedConn)
		return c
	}
	return nil
}

func vUmQueueLen(c *udpMuxedConn) int {
	c.mu.Lock()
	defer c.mu.Unlock()
	n := 0
	for p := c.bufTail; p != nil; p = p.next {
		n++
	}
	return n
}

// vUmCheckQuiescent inspects the real routing tables at a quiescent point: every address binding must point to
// an open, registered connection whose address list contains the address; no closed connection is registered.
func vUmCheckQuiescent(m *UDPMuxDefault) string {
	m.mu.Lock()
	defer m.mu.Unlock()
	m.addressMapMu.Lock()
	defer m.addressMapMu.Unlock()
	var bad []string
	closedMux := m.IsClosed()
	for addr, c := range m.addressMap {
		switch {
		case closedMux:
			// Close does not clear the address map; nothing is dispatched any more
		case c.isClosed():
			bad = append(bad, "binding-to-closed-conn:"+addr.String())
		case m.connsIPv4[c.params.Key] != c && m.connsIPv6[c.params.Key] != c:
			bad = append(bad, "binding-to-unregistered-conn:"+addr.String())
		case !c.containsAddress(addr):
			bad = append(bad, "binding-not-in-list:"+addr.String())
		}
	}
	for _, mp := range []map[string]*udpMuxedConn{m.connsIPv4, m.connsIPv6} {
		for k, c := range mp {
			if c.isClosed() {
				bad = append(bad, "closed-conn-registered:"+k)
			}
			if c.params.Key != k {
				bad = append(bad, "key-mismatch:"+k)
			}
		}
	}
	if len(bad) == 0 {
		return "ok"
	}
	sort.Strings(bad)
	return strings.NewReplacer(" ", "_", "\t", "_").Replace(strings.Join(bad, ","))
}

func vUmErr(err error) string {
	switch {
	case err == nil:
		return "ok"
	case err.Error() == "io: read/write on closed pipe":
		return "err:closed"
	case err == errInvalidAddress || err == errNoUDPMuxAvailable:
		return "err:addr"
	case strings.Contains(err.Error(), "use of closed network connection"):
		return "err:sock"
	case err.Error() == "EOF":
		return "eof"
	}
	return "err:other:" + strings.NewReplacer(" ", "_", "\t", "_").Replace(err.Error())
}

func (s *vUmSess) handle(tok string) *vUmHandle {
	if !strings.HasPrefix(tok, "h") {
		return nil
	}
	n, err := strconv.Atoi(tok[1:])
	if err != nil || n < 0 || n >= len(s.handles) {
		return nil
	}
	return s.handles[n]
}

func (s *vUmSess) op(t []string) string {
	if s.ext != nil {
		return s.ext(t)
	}
	return s.baseOp(t)
}

// feedOne hands one datagram to the worker of mux mi, waits for quiescence and names the connections whose
// FIFO grew ("none" if no FIFO did).
func (s *vUmSess) feedOne(mi int, data []byte, a vUmAddr) string {
	before := map[*udpMuxedConn]int{}
	for i := range s.muxes {
		for _, c := range s.conns[i] {
			before[c] = vUmQueueLen(c)
		}
	}
	select {
	case s.fakes[mi].feed <- vUmDgram{data: data, src: a}:
	case <-s.fakes[mi].closed:
		return "none"
	}
	synctest.Wait()
	var got []string
	for i := range s.muxes {
		for _, c := range s.conns[i] {
			if d := vUmQueueLen(c) - before[c]; d == 1 {
				got = append(got, s.connName(c))
			} else if d != 0 {
				got = append(got, fmt.Sprintf("%s%+d", s.connName(c), d))
			}
		}
	}
	if len(got) == 0 {
		return "none"
	}
	return strings.Join(got, "+")
}

func (s *vUmSess) baseOp(t []string) string {
	switch t[1] {
	case "new":
		if len(t) != 4 {
			return "bad-op"
		}
		s.mode, s.ap = t[2], t[3] == "1"
		locals := vUmMultiLocals
		if s.mode == "u" {
			locals = []vUmAddr{{hi: 0, lo: 0, port: 7000}} // [::]:7000, unspecified
		}
		for _, l := range locals {
			f := newVUmFake(l.udpAddr())
			var pc net.PacketConn = f
			if s.ap {
				pc = vUmFakeAP{f}
			}
			s.fakes = append(s.fakes, f)
			s.muxes = append(s.muxes, NewUDPMuxDefault(UDPMuxParams{UDPConn: pc, Logger: vUmQuietLogger()}))
			s.conns = append(s.conns, nil)
		}
		if s.mode == "m" {
			ms := make([]UDPMux, len(s.muxes))
			for i, m := range s.muxes {
				ms[i] = m
			}
			s.multi = NewMultiUDPMuxDefault(ms...)
		}
		synctest.Wait()
		s.o.stat("session." + s.mode + ".ap" + t[3])
		return "ok"
	case "end":
		for i, m := range s.muxes {
			if q := vUmCheckQuiescent(m); q != "ok" {
				return fmt.Sprintf("end inv:m%d:%s", i, q)
			}
		}
		for _, m := range s.muxes {
			_ = m.Close()
		}
		for _, h := range s.handles {
			_ = h.pc.Close()
		}
		synctest.Wait()
		if n := s.others() - s.base; n != 0 {
			if os.Getenv("VERIF_UDPMUX_DEBUG") != "" {
				buf := make([]byte, 1<<20)
				fmt.Println(string(buf[:runtime.Stack(buf, true)]))
			}
			return fmt.Sprintf("end leak=%d", n)
		}
		return "end ok"
	}
	if len(s.muxes) == 0 {
		return "no-session"
	}
	defer synctest.Wait()
	switch t[1] {
	case "getconn": // getconn u:<ufrag> <local addr>
		if len(t) != 4 || !strings.HasPrefix(t[2], "u:") {
			return "bad-op"
		}
		a, ok := vUmParseAddr(t[3])
		if !ok {
			return "bad-op"
		}
		var pc net.PacketConn
		var err error
		if s.multi != nil {
			pc, err = s.multi.GetConn(t[2][2:], a.udpAddr())
		} else {
			pc, err = s.muxes[0].GetConn(t[2][2:], a.udpAddr())
		}
		if err != nil {
			s.o.stat("getconn." + vUmErr(err))
			return vUmErr(err)
		}
		c := vUmUnderlying(pc)
		if c == nil {
			return "err:handle-type"
		}
		if _, isAP := pc.(*sharedAddrPortConn); isAP != s.ap {
			return "err:handle-kind"
		}
		s.handles = append(s.handles, &vUmHandle{pc: pc})
		s.o.stat("getconn.ok")
		return fmt.Sprintf("h%d %s", len(s.handles)-1, s.connName(c))
	case "write": // write h<n> <dst>
		if len(t) != 4 {
			return "bad-op"
		}
		h := s.handle(t[2])
		a, ok := vUmParseAddr(t[3])
		if h == nil || !ok {
			return "bad"
		}
		var err error
		if apc, isAP := h.pc.(*sharedAddrPortConn); isAP {
			_, err = apc.WriteToAddrPort([]byte("w"), a.addrPort())
		} else {
			_, err = h.pc.WriteTo([]byte("w"), a.udpAddr())
		}
		s.o.stat("write." + vUmErr(err))
		return vUmErr(err)
	case "in": // in <mux> <src> <kind> <pid>
		if len(t) != 6 {
			return "bad-op"
		}
		mi, err := strconv.Atoi(t[2])
		a, ok := vUmParseAddr(t[3])
		pid, err2 := strconv.Atoi(t[5])
		if err != nil || err2 != nil || !ok || mi < 0 || mi >= len(s.muxes) {
			return "bad-op"
		}
		data := vUmPayload(t[4], pid)
		s.fed[string(data)] = pid
		if s.muxes[mi].IsClosed() {
			s.o.stat("in.muxclosed")
			return "none"
		}
		res := s.feedOne(mi, data, a)
		kind := t[4]
		if i := strings.Index(kind, ":"); i >= 0 {
			kind = kind[:i]
		}
		if res == "none" {
			s.o.stat("in." + kind + ".none")
			return "none"
		}
		s.o.stat("in." + kind + ".delivered")
		return res
	case "remove":
		if len(t) != 3 || !strings.HasPrefix(t[2], "u:") {
			return "bad-op"
		}
		if s.multi != nil {
			s.multi.RemoveConnByUfrag(t[2][2:])
		} else {
			s.muxes[0].RemoveConnByUfrag(t[2][2:])
		}
		s.o.stat("remove")
		return "ok"
	case "closeh":
		if len(t) != 3 {
			return "bad-op"
		}
		h := s.handle(t[2])
		if h == nil {
			return "bad"
		}
		s.o.stat("closeh")
		return vUmErr(h.pc.Close())
	case "closein": // closein h<n> <mux> <src> <kind> <pid>: close the handle and let ONE datagram arrive before the watcher runs
		if len(t) != 7 {
			return "bad-op"
		}
		h := s.handle(t[2])
		mi, err := strconv.Atoi(t[3])
		a, ok := vUmParseAddr(t[4])
		pid, err2 := strconv.Atoi(t[6])
		if err != nil || err2 != nil || !ok || mi < 0 || mi >= len(s.muxes) {
			return "bad-op"
		}
		if h == nil {
			return "bad"
		}
		c := vUmUnderlying(h.pc)
		mh := c.params.Mux
		data := vUmPayload(t[5], pid)
		s.fed[string(data)] = pid
		// The watcher starts with m.mu.Lock(): holding the lock parks it. connWorker needs m.mu only for the
		// ufrag lookup (STUN with USERNAME from a source that is not in the address map).
		s.muxes[mi].addressMapMu.Lock()
		_, bound := s.muxes[mi].addressMap[canonicalAddrPort(a.addrPort())]
		s.muxes[mi].addressMapMu.Unlock()
		window := s.muxes[mi] != mh || !strings.HasPrefix(t[5], "su:") || bound
		flag := "q"
		if window {
			flag = "w"
			mh.mu.Lock()
		}
		cerr := h.pc.Close()
		if !window {
			synctest.Wait()
		}
		res := "none"
		if !s.muxes[mi].IsClosed() {
			before := map[*udpMuxedConn]int{}
			for i := range s.muxes {
				for _, x := range s.conns[i] {
					before[x] = vUmQueueLen(x)
				}
			}
			n0 := s.fakes[mi].reads.Load()
			select {
			case s.fakes[mi].feed <- vUmDgram{data: data, src: a}:
				for s.fakes[mi].reads.Load() == n0 { // the worker is back in ReadFrom: datagram processed
					runtime.Gosched()
				}
			case <-s.fakes[mi].closed:
			}
			var got []string
			for i := range s.muxes {
				for _, x := range s.conns[i] {
					if d := vUmQueueLen(x) - before[x]; d == 1 {
						got = append(got, s.connName(x))
					} else if d != 0 {
						got = append(got, fmt.Sprintf("%s%+d", s.connName(x), d))
					}
				}
			}
			if len(got) > 0 {
				res = strings.Join(got, "+")
			}
		}
		if window {
			mh.mu.Unlock()
		}
		s.o.stat("closein." + flag + "." + map[bool]string{true: "none", false: "delivered"}[res == "none"])
		return vUmErr(cerr) + " " + flag + " " + res
	case "watch":
		return "ok"
	case "closemux":
		var err error
		if s.multi != nil {
			err = s.multi.Close()
		} else {
			err = s.muxes[0].Close()
		}
		s.o.stat("closemux")
		return vUmErr(err)
	case "read":
		if len(t) != 3 {
			return "bad-op"
		}
		h := s.handle(t[2])
		if h == nil {
			return "bad"
		}
		c := vUmUnderlying(h.pc)
		var ctxDone bool
		switch x := h.pc.(type) {
		case *sharedPacketConn:
			ctxDone = x.ctx.Err() != nil
		case *sharedAddrPortConn:
			ctxDone = x.ctx.Err() != nil
		}
		if !ctxDone && vUmQueueLen(c) == 0 && !c.isClosed() {
			s.o.stat("read.empty")
			return "empty" // ReadFrom would block
		}
		buf := make([]byte, receiveMTU)
		var n int
		var src string
		var err error
		if apc, isAP := h.pc.(*sharedAddrPortConn); isAP {
			var ap netip.AddrPort
			n, ap, err = apc.ReadFromAddrPort(buf)
			if err == nil {
				src = vUmTokenOfAddrPort(ap)
			}
		} else {
			var addr net.Addr
			n, addr, err = h.pc.ReadFrom(buf)
			if err == nil {
				if u, ok := addr.(*net.UDPAddr); ok && u != nil {
					src = vUmTokenOfUDPAddr(u)
				} else {
					src = "nosrc"
				}
			}
		}
		if err != nil {
			s.o.stat("read." + vUmErr(err))
			return vUmErr(err)
		}
		s.o.stat("read.pkt")
		pid, ok := s.fed[string(buf[:n])]
		if !ok {
			return fmt.Sprintf("corrupt:%d %s", n, src)
		}
		return fmt.Sprintf("p%d %s", pid, src)
	}
	return "bad-op"
}

// ---------------------------------------------------------------------------------------------
// generator
// ---------------------------------------------------------------------------------------------

var vUmUfrags = []string{"a", "b", "ab", ""}

// remote addresses; groups of tokens that denote ONE transport address come first
var vUmRemotes = []string{
	"4,168361985,5000",                 // 10.9.0.1:5000
	"6,0,281470850105345,-,5000",       // [::ffff:10.9.0.1]:5000
	"6,0,281470850105345,e0,5000",      // [::ffff:10.9.0.1%e0]:5000
	"4,168361985,5001",                 // other port
	"4,168361986,5000",                 // 10.9.0.2:5000
	"6,2306139568115548160,5,-,6000",   // [2001:db8::5]:6000
	"6,2306139568115548160,5,e0,6000",  // [2001:db8::5%e0]:6000 (zone does not matter)
	"6,18338657682652659712,1,e0,6000", // [fe80::1%e0]:6000
	"6,18338657682652659712,1,e1,6000", // [fe80::1%e1]:6000 (zone matters)
	"6,18338657682652659712,1,-,6000",  // [fe80::1]:6000
	"6,18375249429625044992,1,e0,6000", // [ff02::1%e0]:6000 link-local multicast
	"6,18375249429625044992,1,-,6000",  // [ff02::1]:6000
	"6,0,281470681743361,-,5000",       // [::ffff:0.0.0.1]:5000
	"6,0,1,-,5000",                     // [::1]:5000 (hi = 0 but not mapped)
}

var vUmLocalsU = []string{
	"4,167772161,7000",               // 10.0.0.1:7000 -> IPv4 family
	"6,0,281470849515521,-,7000",     // [::ffff:10.0.0.1]:7000 -> IPv4 family (To4 != nil)
	"6,2306139568115548160,1,-,7000", // [2001:db8::1]:7000 -> IPv6 family
	"6,0,0,-,7000",                   // [::]:7000 -> IPv6 family
}

var vUmLocalsM = []string{
	"4,167772161,7000",                // mux 0
	"4,167772162,7000",                // mux 1
	"6,2306139568115548160,1,-,7000",  // mux 2
	"6,0,281470849515521,-,7000",      // prints as 10.0.0.1:7000 -> mux 0
	"4,167772163,7000",                // nobody listens here
	"4,167772161,7001",                // wrong port
	"6,2306139568115548160,1,e0,7000", // zone printed -> nobody
}

func vUmGen(o *vOut, r *vRand, thorough bool, _ []string, emit func(string)) {
	sessions, maxOps := 3000, 40
	if thorough {
		sessions, maxOps = 40000, 200
	}
	sessions = vEnvInt("VERIF_UDPMUX_SESSIONS", sessions)
	pid := 0
	for si := 0; si < sessions; si++ {
		mode := "u"
		if r.chance(1, 3) {
			mode = "m"
		}
		ap := r.intn(2)
		emit(fmt.Sprintf("udpmux new %s %d", mode, ap))
		nmux := 1
		locals := vUmLocalsU
		if mode == "m" {
			nmux, locals = 3, vUmLocalsM
		}
		nh := 0
		// small pools per session so that takeovers, aliases and re-registrations are frequent
		nr := 2 + r.intn(5)
		rem := make([]string, nr)
		base := r.intn(len(vUmRemotes))
		for i := range rem {
			if r.chance(2, 3) {
				rem[i] = vUmRemotes[(base+i)%len(vUmRemotes)]
			} else {
				rem[i] = vUmRemotes[r.intn(len(vUmRemotes))]
			}
		}
		nu := 1 + r.intn(3)
		ufr := func() string { return vUmUfrags[r.intn(nu+1)%len(vUmUfrags)] }
		remote := func() string { return rem[r.intn(len(rem))] }
		local := func() string {
			if r.chance(3, 4) {
				return locals[r.intn(3)]
			}
			return locals[r.intn(len(locals))]
		}
		hnd := func() string {
			if nh == 0 || r.chance(1, 40) {
				return fmt.Sprintf("h%d", nh+r.intn(2))
			}
			if r.chance(1, 2) { // bias to recent handles
				return fmt.Sprintf("h%d", nh-1-r.intn(min(nh, 3)))
			}
			return fmt.Sprintf("h%d", r.intn(nh))
		}
		getconn := func(u string) {
			emit(fmt.Sprintf("udpmux getconn u:%s %s", u, local()))
			if vUmCur != nil {
				nh = len(vUmCur.handles) // generator and implementation run in lock-step
			}
		}
		inbound := func(u string) {
			pid++
			forced := -1
			if vUmCur != nil && r.chance(2, 3) {
				// mostly a ufrag that is registered right now, on its socket
				type reg struct {
					mi int
					u  string
				}
				var regs []reg
				for i, m := range vUmCur.muxes {
					m.mu.Lock()
					for k := range m.connsIPv4 {
						regs = append(regs, reg{i, k})
					}
					for k := range m.connsIPv6 {
						regs = append(regs, reg{i, k})
					}
					m.mu.Unlock()
				}
				sort.Slice(regs, func(a, b int) bool {
					if regs[a].mi != regs[b].mi {
						return regs[a].mi < regs[b].mi
					}
					return regs[a].u < regs[b].u
				})
				if len(regs) > 0 {
					x := regs[r.intn(len(regs))]
					u, forced = x.u, x.mi
				}
			}
			var kind string
			switch r.intn(12) {
			case 0:
				kind = "sn"
			case 1:
				kind = "sb"
			case 2, 3:
				kind = "ns"
			case 4:
				kind = "su:" + u
			case 5:
				kind = "su:" + u + ":r:x"
			case 6:
				kind = "su:zz:" + u
			case 7:
				kind = "su::" + u
			default:
				kind = "su:" + u + ":rem"
			}
			mi := r.intn(nmux)
			if forced >= 0 {
				mi = forced
			} else if nmux > 1 && nh > 0 && vUmCur != nil && r.chance(3, 4) {
				// mostly the socket of an existing connection
				if c := vUmUnderlying(vUmCur.handles[r.intn(nh)].pc); c != nil {
					for i, m := range vUmCur.muxes {
						if c.params.Mux == m {
							mi = i
						}
					}
				}
			}
			emit(fmt.Sprintf("udpmux in %d %s %s %d", mi, remote(), kind, pid))
		}
		n := 8 + r.intn(maxOps-8)
		for k := 0; k < n; k++ {
			switch x := r.intn(100); {
			case x < 16:
				getconn(ufr())
			case nh == 0 && x >= 16 && x < 90 && !r.chance(1, 8):
				getconn(ufr())
			case x < 34:
				emit(fmt.Sprintf("udpmux write %s %s", hnd(), remote()))
			case x < 63:
				inbound(ufr())
			case x < 68:
				emit(fmt.Sprintf("udpmux remove u:%s", ufr()))
			case x < 77:
				emit(fmt.Sprintf("udpmux closeh %s", hnd()))
			case x < 90:
				emit(fmt.Sprintf("udpmux read %s", hnd()))
			case x < 91:
				emit("udpmux closemux")
			case x < 96 && nh > 0:
				// close a handle and race one datagram against the watcher
				hn := nh - 1 - r.intn(min(nh, 3))
				mi := r.intn(nmux)
				if vUmCur != nil && r.chance(5, 6) {
					if c := vUmUnderlying(vUmCur.handles[hn].pc); c != nil {
						for i, m := range vUmCur.muxes {
							if c.params.Mux == m {
								mi = i
							}
						}
					}
				}
				pid++
				kind := []string{"ns", "sn", "sb", "su:" + ufr() + ":w", "su:" + ufr() + ":w"}[r.intn(5)]
				emit(fmt.Sprintf("udpmux closein h%d %d %s %s %d", hn, mi, remote(), kind, pid))
			case x < 92:
				emit("udpmux watch")
			default:
				// pattern: remove, write through the stale handle, re-register, close the stale handle, probe
				u := ufr()
				getconn(u)
				if nh == 0 {
					continue
				}
				old := fmt.Sprintf("h%d", nh-1)
				a := remote()
				if r.chance(1, 2) {
					emit(fmt.Sprintf("udpmux write %s %s", old, a))
				}
				emit(fmt.Sprintf("udpmux remove u:%s", u))
				if r.chance(1, 2) {
					emit(fmt.Sprintf("udpmux write %s %s", old, remote()))
				}
				getconn(u)
				if r.chance(1, 2) {
					emit(fmt.Sprintf("udpmux write h%d %s", nh-1, remote()))
				}
				emit(fmt.Sprintf("udpmux closeh %s", old))
				inbound(u)
				inbound(u)
				k += 6
			}
		}
		// drain: read every handle once more, then end
		for h := 0; h < nh && h < 6; h++ {
			emit(fmt.Sprintf("udpmux read h%d", h))
		}
		emit("udpmux end")
	}
}
