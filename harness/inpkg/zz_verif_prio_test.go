//go:build verif

package ice

import (
	"fmt"
	"github.com/pion/logging"
	"strconv"
)

func init() { vComponents["prio"] = &vComp{gen: vPrioGen, exec: vPrioExec} }

var vRelayProtos = []string{"udp", "tcp", "dtls", "tls", "", "quic"}

// vMakeCandidate builds a candidate through the public constructors and then applies the
// in-package knobs the constructors do not expose (TCP type on non-host candidates).
func vMakeCandidate(ty CandidateType, tcp, v6 bool, tt TCPType, relayProto string, component uint16) (Candidate, *candidateBase, error) {
	network := "udp"
	if tcp {
		network = "tcp"
	}
	addr := "10.1.2.3"
	if v6 {
		addr = "2001:db8::7"
	}
	switch ty {
	case CandidateTypeHost:
		c, err := NewCandidateHost(&CandidateHostConfig{Network: network, Address: addr, Port: 4000, Component: component, TCPType: tt})
		if err != nil {
			return nil, nil, err
		}
		return c, &c.candidateBase, nil
	case CandidateTypeServerReflexive:
		c, err := NewCandidateServerReflexive(&CandidateServerReflexiveConfig{Network: network, Address: addr, Port: 4000, Component: component, RelAddr: "10.9.9.9", RelPort: 9})
		if err != nil {
			return nil, nil, err
		}
		c.tcpType = tt
		return c, &c.candidateBase, nil
	case CandidateTypePeerReflexive:
		c, err := NewCandidatePeerReflexive(&CandidatePeerReflexiveConfig{Network: network, Address: addr, Port: 4000, Component: component, RelAddr: "10.9.9.9", RelPort: 9})
		if err != nil {
			return nil, nil, err
		}
		c.tcpType = tt
		return c, &c.candidateBase, nil
	case CandidateTypeRelay:
		c, err := NewCandidateRelay(&CandidateRelayConfig{Network: network, Address: addr, Port: 4000, Component: component, RelAddr: "10.9.9.9", RelPort: 9, RelayProtocol: relayProto})
		if err != nil {
			return nil, nil, err
		}
		c.tcpType = tt
		return c, &c.candidateBase, nil
	}
	return nil, nil, fmt.Errorf("bad type")
}

// ops:
//
//	cand <type 1..4> <tcp> <v6> <tcptype 0..3> rp:<relay protocol> <hasAgent> <offset> <component>  -> "<tp> <lp> <priority>"
//	pair <local priority> <remote priority> <controlling>                                        -> "<pair priority>"
//
// vPrioAgent: the agent a candidate reads its configured TCP priority offset from.  For the offsets below 1024 (and a
// sample of the others) it is a REAL agent built through both public configuration routes — the AgentConfig struct
// and the WithTCPPriorityOffset option — which must agree; otherwise a bare struct.  Agents are cached and closed in bulk.
var vPrioAgents = map[int]*Agent{}

func vPrioAgent(off int) (*Agent, string) {
	if a, ok := vPrioAgents[off]; ok {
		return a, ""
	}
	if off >= 1024 && off%97 != 0 && off < 65400 {
		return &Agent{tcpPriorityOffset: uint16(off)}, "" //nolint:gosec
	}
	if len(vPrioAgents) >= 48 {
		for k, a := range vPrioAgents {
			_ = a.Close()
			delete(vPrioAgents, k)
		}
	}
	o16 := uint16(off) //nolint:gosec
	lf := logging.NewDefaultLoggerFactory()
	lf.DefaultLogLevel = logging.LogLevelDisabled
	viaCfg, err := NewAgent(&AgentConfig{
		TCPPriorityOffset: &o16, MulticastDNSMode: MulticastDNSModeDisabled, LoggerFactory: lf,
		NetworkTypes: []NetworkType{NetworkTypeUDP4, NetworkTypeTCP4},
	})
	if err != nil {
		return nil, "error newagent " + err.Error()
	}
	viaOpt, err := NewAgentWithOptions(WithTCPPriorityOffset(o16), WithMulticastDNSMode(MulticastDNSModeDisabled),
		WithLoggerFactory(lf), WithNetworkTypes([]NetworkType{NetworkTypeUDP4, NetworkTypeTCP4}))
	if err != nil {
		_ = viaCfg.Close()

		return nil, "error newagentopts " + err.Error()
	}
	got := viaOpt.tcpPriorityOffset
	_ = viaOpt.Close()
	if got != viaCfg.tcpPriorityOffset {
		r := fmt.Sprintf("config-routes-differ offset %d: AgentConfig gives %d, WithTCPPriorityOffset gives %d", off, viaCfg.tcpPriorityOffset, got)
		_ = viaCfg.Close()

		return nil, r
	}
	vPrioAgents[off] = viaCfg

	return viaCfg, ""
}

func vPrioExec(o *vOut, t []string) string {
	switch {
	case len(t) == 10 && t[1] == "cand":
		ty, _ := strconv.Atoi(t[2])
		tcp, v6 := t[3] == "true", t[4] == "true"
		tt, _ := strconv.Atoi(t[5])
		rp := t[6][3:]
		hasAgent := t[7] == "true"
		off, _ := strconv.Atoi(t[8])
		comp, _ := strconv.Atoi(t[9])
		c, base, err := vMakeCandidate(CandidateType(ty), tcp, v6, TCPType(tt), rp, uint16(comp))
		if err != nil {
			return "error"
		}
		if hasAgent {
			a, werr := vPrioAgent(off)
			if werr != "" {
				return werr
			}
			base.currAgent = a
		}
		o.stat(fmt.Sprintf("cand.%s.tcp=%t", CandidateType(ty), tcp))
		return fmt.Sprintf("%d %d %d", base.TypePreference(), base.LocalPreference(), c.Priority())
	case len(t) == 5 && t[1] == "found":
		// found <type 1..4> <tcp> <address>  -> "<net code> <foundation>"
		ty, _ := strconv.Atoi(t[2])
		tcp := t[3] == "true"
		network := "udp"
		if tcp {
			network = "tcp"
		}
		var c Candidate
		var err error
		switch CandidateType(ty) {
		case CandidateTypeHost:
			c, err = NewCandidateHost(&CandidateHostConfig{Network: network, Address: t[4], Port: 4000, Component: 1})
		case CandidateTypeServerReflexive:
			c, err = NewCandidateServerReflexive(&CandidateServerReflexiveConfig{Network: network, Address: t[4], Port: 4000, Component: 1})
		case CandidateTypePeerReflexive:
			c, err = NewCandidatePeerReflexive(&CandidatePeerReflexiveConfig{Network: network, Address: t[4], Port: 4000, Component: 1})
		case CandidateTypeRelay:
			c, err = NewCandidateRelay(&CandidateRelayConfig{Network: network, Address: t[4], Port: 4000, Component: 1})
		default:
			return "error"
		}
		if err != nil {
			return "error"
		}
		o.stat("found")
		return fmt.Sprintf("%d %s", int(c.NetworkType()), c.Foundation())
	case len(t) == 5 && t[1] == "pair":
		l, _ := strconv.ParseUint(t[2], 10, 32)
		rm, _ := strconv.ParseUint(t[3], 10, 32)
		if l == 0 || rm == 0 {
			return "skip" // a zero Priority in the config means "compute"; not a pair-priority input
		}
		lc, _ := NewCandidateHost(&CandidateHostConfig{Network: "udp", Address: "10.0.0.1", Port: 1, Component: 1, Priority: uint32(l)})
		rc, _ := NewCandidateHost(&CandidateHostConfig{Network: "udp", Address: "10.0.0.2", Port: 2, Component: 1, Priority: uint32(rm)})
		p := newCandidatePair(lc, rc, t[4] == "true")
		o.stat("pair")
		return fmt.Sprintf("%d", p.priority())
	}
	return "bad-op"
}

func vPrioGen(o *vOut, r *vRand, thorough bool, _ []string, emit func(string)) {
	types := []CandidateType{CandidateTypeHost, CandidateTypeServerReflexive, CandidateTypePeerReflexive, CandidateTypeRelay}
	comps := []uint16{0, 1, 2, 255, 256, 257, 65535}
	cand := func(ty CandidateType, tcp, v6 bool, tt TCPType, rp string, hasAgent bool, off uint16, comp uint16) {
		emit(fmt.Sprintf("prio cand %d %t %t %d rp:%s %t %d %d", ty, tcp, v6, tt, rp, hasAgent, off, comp))
	}
	// type x network x tcptype x relay protocol x offset (all 65536 in thorough; boundaries + samples in quick) x components
	offs := []uint16{}
	if thorough {
		for i := 0; i < 65536; i++ {
			offs = append(offs, uint16(i))
		}
	} else {
		for i := 0; i <= 130; i++ {
			offs = append(offs, uint16(i))
		}
		offs = append(offs, 255, 256, 1000, 32767, 32768, 65409, 65410, 65535)
		for i := 0; i < 40; i++ {
			offs = append(offs, uint16(r.intn(65536)))
		}
	}
	for _, ty := range types {
		for _, tcp := range []bool{false, true} {
			for _, v6 := range []bool{false, true} {
				for tt := TCPTypeUnspecified; tt <= TCPTypeSimultaneousOpen; tt++ {
					rps := []string{"udp"}
					if ty == CandidateTypeRelay {
						rps = vRelayProtos
					}
					for _, rp := range rps {
						cand(ty, tcp, v6, tt, rp, false, 0, 1)
						for _, comp := range comps { // every component boundary for every kind of candidate
							cand(ty, tcp, v6, tt, rp, true, 0, comp)
						}
						for _, off := range offs {
							if !tcp && off > 3 {
								continue // the offset is read only for TCP candidates; a few are kept as a control
							}
							if thorough && v6 && off > 130 {
								continue
							}
							cs := comps
							if !thorough || off > 130 {
								cs = []uint16{1, comps[int(off)%len(comps)]}
							}
							for _, comp := range cs {
								cand(ty, tcp, v6, tt, rp, true, off, comp)
							}
						}
					}
				}
			}
		}
	}
	// foundations: type x transport x a pool of addresses (equal triples must collide, different ones not)
	addrs := []string{"10.0.0.1", "10.0.0.2", "192.168.1.1", "2001:db8::7", "2001:db8::8", "fd00::1", "1.2.3.4", "11.0.0.1", "110.0.0.1"}
	for _, ty := range types {
		for _, tcp := range []bool{false, true} {
			for _, a := range addrs {
				emit(fmt.Sprintf("prio found %d %t %s", ty, tcp, a))
			}
		}
	}
	// pair priorities: all boundary pairs, then random
	bounds := []uint32{1, 2, 255, 256, 1 << 24, 1<<31 - 1, 1 << 31, 1<<32 - 2, 1<<32 - 1, 2130706431, 1694498815}
	pair := func(l, rm uint32, controlling bool) { emit(fmt.Sprintf("prio pair %d %d %t", l, rm, controlling)) }
	for _, a := range bounds {
		for _, b := range bounds {
			pair(a, b, true)
			pair(a, b, false)
		}
	}
	n := 2000
	if thorough {
		n = 1000000
	}
	for i := 0; i < n; i++ {
		a, b := uint32(r.next()), uint32(r.next())
		switch r.intn(4) {
		case 0:
			b = a
		case 1:
			b = a + 1
		}
		if a == 0 {
			a = 1
		}
		if b == 0 {
			b = 1
		}
		pair(a, b, r.chance(1, 2))
	}
}
