//go:build verif

package ice

import (
	"context"
	"fmt"
	"sort"
	"strings"
	"sync"
	"time"

	"github.com/pion/logging"
)

// Component activetcp (C18): the only place outside gather.go where the agent publishes local candidates - the active
// ICE-TCP host candidates created when a remote PASSIVE TCP candidate is added (agent.go addRemotePassiveTCPCandidate).
// A real agent on the real loopback interface (interface filter "lo", loopback included; the dial to the discard port
// fails at once), every combination of candidate types x mDNS mode x network types x WithDisableActiveTCP.
//
//	run <types ⊆ hsr> <mdns d|q|g> <nets t4|u4|t4u4|all> <disableActive 0|1>
//	  -> ok q=<finding C18-G13 detected> m=<effective mDNS mode> n=<eligible local tcp4 addresses> c=<published candidates | ->
//	     a published candidate = <h|x>:<named 0|1>:<active 0|1>
func init() { vComponents["activetcp"] = &vComp{gen: vActiveTCPGen, exec: vActiveTCPExec} }

var vActiveTCPQuirk = -1

func vActiveTCPGen(o *vOut, r *vRand, thorough bool, args []string, emit func(op string)) {
	types := []string{"h", "s", "r", "hs", "hr", "sr", "hsr"}
	for _, ty := range types {
		for _, md := range []string{"d", "q", "g"} {
			for _, nt := range []string{"t4", "u4", "t4u4", "all"} {
				for _, dis := range []string{"0", "1"} {
					if !thorough && (dis == "1" || nt == "u4") && (ty != "h" || md != "d") {
						continue
					}
					emit(fmt.Sprintf("activetcp run %s %s %s %s", ty, md, nt, dis))
				}
			}
		}
	}
}

func vActiveTCPRun(types, mdns, nets, dis string) string {
	lf := logging.NewDefaultLoggerFactory()
	lf.DefaultLogLevel = logging.LogLevelDisabled
	var cts []CandidateType
	for _, ch := range types {
		switch ch {
		case 'h':
			cts = append(cts, CandidateTypeHost)
		case 's':
			cts = append(cts, CandidateTypeServerReflexive)
		case 'r':
			cts = append(cts, CandidateTypeRelay)
		}
	}
	mode := map[string]MulticastDNSMode{"d": MulticastDNSModeDisabled, "q": MulticastDNSModeQueryOnly, "g": MulticastDNSModeQueryAndGather}[mdns]
	opts := []AgentOption{
		WithLoggerFactory(lf), WithCandidateTypes(cts), WithMulticastDNSMode(mode), WithIncludeLoopback(),
		WithInterfaceFilter(func(n string) bool { return n == "lo" }),
	}
	switch nets {
	case "t4":
		opts = append(opts, WithNetworkTypes([]NetworkType{NetworkTypeTCP4}))
	case "u4":
		opts = append(opts, WithNetworkTypes([]NetworkType{NetworkTypeUDP4}))
	case "t4u4":
		opts = append(opts, WithNetworkTypes([]NetworkType{NetworkTypeTCP4, NetworkTypeUDP4}))
	}
	if dis == "1" {
		opts = append(opts, WithDisableActiveTCP())
	}
	a, err := NewAgentWithOptions(opts...)
	if err != nil {
		return "err:new:" + strings.ReplaceAll(err.Error(), " ", "_")
	}
	defer func() { _ = a.Close() }()
	var mu sync.Mutex
	var pub []string
	if err = a.OnCandidate(func(c Candidate) {
		if c == nil {
			return
		}
		t := "x"
		if c.Type() == CandidateTypeHost {
			t = "h"
		}
		named, act := 0, 0
		if strings.HasSuffix(c.Address(), ".local") {
			named = 1
		}
		if c.TCPType() == TCPTypeActive {
			act = 1
		}
		mu.Lock()
		pub = append(pub, fmt.Sprintf("%s:%d:%d", t, named, act))
		mu.Unlock()
	}); err != nil {
		return "err:oncandidate"
	}
	_, addrs, err := localInterfaces(a.net, a.interfaceFilter, a.ipFilter, []NetworkType{NetworkTypeTCP4}, a.includeLoopback)
	if err != nil {
		return "err:ifaces"
	}
	rc, err := NewCandidateHost(&CandidateHostConfig{Network: "tcp", Address: "127.0.0.1", Port: 9, Component: 1, TCPType: TCPTypePassive})
	if err != nil {
		return "err:cand"
	}
	if err = a.AddRemoteCandidate(rc); err != nil {
		return "err:addremote"
	}
	// AddRemoteCandidate hands its task to the loop from a goroutine of its own: wait until the remote candidate is listed
	nLocal := 0
	for i := 0; i < 400; i++ {
		seen := false
		_ = a.loop.Run(a.loop, func(context.Context) {
			seen = len(a.remoteCandidates[NetworkTypeTCP4]) > 0
			nLocal = len(a.localCandidates[NetworkTypeTCP4])
		})
		if seen {
			break
		}
		time.Sleep(5 * time.Millisecond)
	}
	// … and until the notifier has delivered every local candidate that was started
	for i := 0; i < 400; i++ {
		mu.Lock()
		k := len(pub)
		mu.Unlock()
		if k >= nLocal {
			break
		}
		time.Sleep(5 * time.Millisecond)
	}
	m := map[MulticastDNSMode]string{MulticastDNSModeDisabled: "d", MulticastDNSModeQueryOnly: "q", MulticastDNSModeQueryAndGather: "g"}[a.mDNSMode]
	mu.Lock()
	defer mu.Unlock()
	sort.Strings(pub)
	c := "-"
	if len(pub) > 0 {
		c = strings.Join(pub, ",")
	}
	return fmt.Sprintf("m=%s n=%d c=%s", m, len(addrs), c)
}

func vActiveTCPExec(o *vOut, t []string) string {
	if len(t) != 6 || t[1] != "run" {
		return "bad-op"
	}
	if vActiveTCPQuirk < 0 {
		// canary for finding C18-G13: a host candidate although only server-reflexive candidates are enabled
		vActiveTCPQuirk = 0
		if out := vActiveTCPRun("s", "d", "t4", "0"); strings.HasPrefix(out, "m=") && !strings.HasSuffix(out, "c=-") {
			vActiveTCPQuirk = 1
		}
		o.stat(fmt.Sprintf("activetcp.quirk13.%d", vActiveTCPQuirk))
	}
	out := vActiveTCPRun(t[2], t[3], t[4], t[5])
	if !strings.HasPrefix(out, "m=") {
		return out
	}
	if !strings.HasSuffix(out, "c=-") {
		o.stat("activetcp.published")
	}
	return fmt.Sprintf("ok q=%d %s", vActiveTCPQuirk, out)
}
