//go:build verif

package ice

import (
	"context"
	"fmt"
	"net"
	"net/netip"
	"time"
)

// Component atcclose (C08): Close of an ACTIVE ICE-TCP connection (active_tcp.go, real loopback sockets) must release a
// ReadFrom that is parked on it - the candidate's receive loop, for which Agent.Close / Restart wait - whatever state the
// TCP connection is in.
//
//	run <scenario>   alive | peerdrop (peer reset the connection, a local write failed, the write loop closed the socket)
//	                 | faildial (nothing listens) | early (Close before the dial has completed)
//	  -> <released|stuck> closeerr=<0|1>
func init() { vComponents["atcclose"] = &vComp{gen: vATCCloseGen, exec: vATCCloseExec} }

func vATCCloseGen(o *vOut, r *vRand, thorough bool, args []string, emit func(op string)) {
	n := 2
	if thorough {
		n = 20
	}
	for i := 0; i < n; i++ {
		for _, sc := range []string{"alive", "peerdrop", "faildial", "early"} {
			emit("atcclose run " + sc)
		}
	}
}

func vATCCloseExec(o *vOut, t []string) string {
	if len(t) != 3 || t[1] != "run" {
		return "bad-op"
	}
	ln, err := net.Listen("tcp", "127.0.0.1:0") //nolint:noctx
	if err != nil {
		return "skip"
	}
	ra := netip.MustParseAddrPort(ln.Addr().String())
	if t[2] == "faildial" {
		_ = ln.Close()
	} else {
		defer func() { _ = ln.Close() }()
	}
	ctx, cancel := context.WithCancel(context.Background())
	defer cancel()
	a := newActiveTCPConn(ctx, "127.0.0.1:0", ra, vFrameQuietLogger())
	done := make(chan struct{})
	startReader := func() {
		// like candidateBase.recvLoop: parked in ReadFrom BEFORE anything happens to the connection
		go func() {
			defer close(done)
			buf := make([]byte, receiveMTU)
			for {
				if _, _, err := a.ReadFrom(buf); err != nil {
					return
				}
			}
		}()
		time.Sleep(2 * time.Millisecond) // let the reader park
	}
	if t[2] == "faildial" || t[2] == "early" {
		startReader()
	}
	switch t[2] {
	case "alive", "peerdrop":
		_ = ln.(*net.TCPListener).SetDeadline(time.Now().Add(5 * time.Second))
		srv, err := ln.Accept()
		if err != nil {
			_ = a.Close()
			return "skip"
		}
		defer func() { _ = srv.Close() }()
		for i := 0; i < 400 && a.conn.Load() == nil; i++ {
			time.Sleep(time.Millisecond)
		}
		startReader()
		if t[2] == "peerdrop" {
			if tc, ok := srv.(*net.TCPConn); ok {
				_ = tc.SetLinger(0) // RST
			}
			_ = srv.Close()
			// local writes until the write loop has given up and closed the socket itself
			for i := 0; i < 200; i++ {
				if _, err := a.WriteTo([]byte("0123456789"), nil); err != nil {
					break
				}
				time.Sleep(time.Millisecond)
				if c, ok := a.conn.Load().(net.Conn); ok {
					_ = c.SetReadDeadline(time.Time{})
					if _, err := c.Write(nil); err != nil {
						o.stat("atcclose.socket_closed_by_write_loop")
						break
					}
				}
			}
			time.Sleep(5 * time.Millisecond)
		}
	case "faildial":
		time.Sleep(5 * time.Millisecond)
	case "early":
	default:
		return "bad-op"
	}
	cerr := 0
	if err := a.Close(); err != nil {
		cerr = 1
	}
	select {
	case <-done:
		return fmt.Sprintf("released closeerr=%d", cerr)
	case <-time.After(2 * time.Second):
		// unpark it for good so that the goroutine does not outlive the run
		_ = a.readBuffer.Close()
		_ = a.writeBuffer.Close()
		return fmt.Sprintf("stuck closeerr=%d", cerr)
	}
}
